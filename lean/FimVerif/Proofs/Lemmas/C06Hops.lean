import FimVerif.Proofs.Lemmas.C06Sp
import FimVerif.Proofs.Lemmas.C06Nbr
namespace FimVerif.Query
open FimVerif.Gen

theorem adj_none_iff {g : TGraph} {u v : String} : Adj g none u v ↔ ∃ r, Edge g u v r := by
  simp [Adj]

theorem getLast_cons_mem {x z : String} : ∀ {rest : List String}, rest ≠ [] → (x :: rest).getLast? = some z → z ∈ rest
  | [], h, _ => absurd rfl h
  | [y], _, hl => by simp [List.getLast?_cons_cons] at hl; simp [hl]
  | y :: y' :: t, _, hl => by
    have : (y :: y' :: t).getLast? = some z := by simpa [List.getLast?_cons_cons] using hl
    exact List.mem_cons_of_mem _ (getLast_cons_mem (by simp) this)

/-- what it means to be one of the simple paths `nx.all_simple_paths` enumerates from `cur` -/
def SimpleFrom (g : TGraph) (z : String) (fuel : Nat) (cur : String) (vis : List String) (p : List String) : Prop :=
  p.head? = some cur ∧ p.getLast? = some z ∧ IsChain (Adj g none) p ∧ p.Nodup ∧ (∀ x ∈ p, x ∉ vis) ∧ p.length ≤ fuel + 1

theorem allSimple_sound {g : TGraph} {z : String} :
    ∀ (fuel : Nat) (cur : String) (vis p : List String), cur ∉ vis → p ∈ allSimple g z fuel cur vis →
      SimpleFrom g z fuel cur vis p := by
  intro fuel
  induction fuel with
  | zero =>
    intro cur vis p hcv hp
    unfold allSimple at hp
    split at hp
    · simp at hp; subst hp; rename_i h; subst h
      exact ⟨rfl, rfl, trivial, by simp, by simpa using hcv, by simp⟩
    · simp at hp
  | succ fuel ih =>
    intro cur vis p hcv hp
    unfold allSimple at hp
    split at hp
    · simp at hp; subst hp; rename_i h; subst h
      exact ⟨rfl, rfl, trivial, by simp, by simpa using hcv, by simp⟩
    · rw [List.mem_flatMap] at hp
      obtain ⟨v, hv, hp⟩ := hp
      split at hp
      · simp at hp
      · rename_i hvis
        rw [List.mem_map] at hp
        obtain ⟨p', hp', rfl⟩ := hp
        obtain ⟨hh, hl, hc, hnd, hdis, hlen⟩ := ih v (cur :: vis) p' hvis hp'
        cases p' with
        | nil => simp at hh
        | cons w t =>
          simp at hh; subst hh
          refine ⟨rfl, by simpa [List.getLast?_cons_cons] using hl, ⟨adj_none_iff.2 (mem_nbrs.1 hv), hc⟩, ?_, ?_, ?_⟩
          · rw [List.nodup_cons]
            exact ⟨fun hm => hdis cur hm (by simp), hnd⟩
          · intro x hx
            rcases List.mem_cons.1 hx with rfl | hx
            · exact hcv
            · exact fun hxv => hdis x hx (List.mem_cons_of_mem _ hxv)
          · simp at hlen ⊢; omega

theorem allSimple_complete {g : TGraph} {z : String} :
    ∀ (fuel : Nat) (cur : String) (vis p : List String), SimpleFrom g z fuel cur vis p →
      p ∈ allSimple g z fuel cur vis := by
  intro fuel
  induction fuel with
  | zero =>
    rintro cur vis p ⟨hh, hl, hc, hnd, hdis, hlen⟩
    cases p with
    | nil => simp at hh
    | cons v rest =>
      simp at hh; subst hh
      have : rest = [] := by
        cases rest with
        | nil => rfl
        | cons => simp at hlen
      subst this
      simp at hl; subst hl
      simp [allSimple]
  | succ fuel ih =>
    rintro cur vis p ⟨hh, hl, hc, hnd, hdis, hlen⟩
    cases p with
    | nil => simp at hh
    | cons v rest =>
      simp at hh; subst hh
      unfold allSimple
      by_cases hvz : v = z
      · subst hvz
        have : rest = [] := by
          by_cases hr : rest = []
          · exact hr
          · exact absurd (getLast_cons_mem hr hl) (List.nodup_cons.1 hnd).1
        subst this
        simp
      · rw [if_neg hvz]
        cases rest with
        | nil => simp at hl; exact absurd hl hvz
        | cons w t =>
          rw [List.mem_flatMap]
          have hvw : Adj g none v w := hc.1
          refine ⟨w, mem_nbrs.2 (adj_none_iff.1 hvw), ?_⟩
          have hnd' := List.nodup_cons.1 hnd
          have hwn : w ∉ v :: vis := by
            intro hm
            rcases List.mem_cons.1 hm with rfl | hm
            · exact hnd'.1 (by simp)
            · exact hdis w (by simp) hm
          rw [if_neg hwn, List.mem_map]
          refine ⟨w :: t, ih w (v :: vis) (w :: t) ⟨rfl, ?_, hc.2, hnd'.2, ?_, ?_⟩, rfl⟩
          · simpa [List.getLast?_cons_cons] using hl
          · intro x hx hm
            rcases List.mem_cons.1 hm with rfl | hm
            · exact hnd'.1 hx
            · exact hdis x (List.mem_cons_of_mem _ hx) hm
          · simp at hlen ⊢; omega

/-! ### the replacement loop (either form of the replacement test: `>` or `>=`) -/

def pickStep (strict : Bool) (res p : List String) : List String :=
  if res.isEmpty || (if strict then decide (res.length > p.length) else decide (res.length ≥ p.length)) then p else res

theorem pick_eq (ps : List (List String)) : pick ps = ps.foldl (pickStep QueryIdioms.hopsReplaceStrict) [] := rfl

theorem pickStep_taken {strict : Bool} {acc x : List String}
    (hc : (acc.isEmpty || (if strict then decide (acc.length > x.length) else decide (acc.length ≥ x.length))) = true)
    (hacc : acc ≠ []) : x.length ≤ acc.length := by
  cases acc with
  | nil => exact absurd rfl hacc
  | cons a l =>
    cases strict <;> simp at hc <;> simp <;> omega

theorem pickStep_kept {strict : Bool} {acc x : List String}
    (hc : ¬ (acc.isEmpty || (if strict then decide (acc.length > x.length) else decide (acc.length ≥ x.length))) = true) :
    acc ≠ [] ∧ acc.length ≤ x.length := by
  cases acc with
  | nil => simp at hc
  | cons a l =>
    refine ⟨by simp, ?_⟩
    cases strict <;> simp at hc <;> simp <;> omega

theorem foldl_pickStep (strict : Bool) :
    ∀ (ps : List (List String)) (acc : List String), (∀ p ∈ ps, p ≠ []) →
      let r := ps.foldl (pickStep strict) acc
      (r = acc ∨ r ∈ ps) ∧ (acc ≠ [] → r ≠ [] ∧ r.length ≤ acc.length) ∧ (∀ p ∈ ps, r ≠ [] ∧ r.length ≤ p.length)
  | [], acc, _ => by simp
  | x :: t, acc, hne => by
    intro r
    have hx : x ≠ [] := hne x (by simp)
    have ht : ∀ p ∈ t, p ≠ [] := fun p hp => hne p (List.mem_cons_of_mem _ hp)
    have ih := foldl_pickStep strict t (pickStep strict acc x) ht
    have hr : r = t.foldl (pickStep strict) (pickStep strict acc x) := rfl
    rw [← hr] at ih
    simp only at ih
    obtain ⟨h1, h2, h3⟩ := ih
    by_cases hc : (acc.isEmpty || (if strict then decide (acc.length > x.length) else decide (acc.length ≥ x.length))) = true
    · have hs : pickStep strict acc x = x := by simp only [pickStep, hc, if_true]
      rw [hs] at h1 h2
      obtain ⟨h2a, h2b⟩ := h2 hx
      refine ⟨?_, ?_, ?_⟩
      · rcases h1 with h | h
        · right; rw [h]; simp
        · right; exact List.mem_cons_of_mem _ h
      · intro hacc
        refine ⟨h2a, ?_⟩
        have := pickStep_taken hc hacc
        omega
      · intro p hp
        rcases List.mem_cons.1 hp with rfl | hp
        · exact ⟨h2a, h2b⟩
        · exact h3 p hp
    · have hs : pickStep strict acc x = acc := by simp only [pickStep, hc]; rfl
      rw [hs] at h1 h2
      have hacc := pickStep_kept hc
      obtain ⟨h2a, h2b⟩ := h2 hacc.1
      refine ⟨?_, fun _ => ⟨h2a, h2b⟩, ?_⟩
      · rcases h1 with h | h
        · left; exact h
        · right; exact List.mem_cons_of_mem _ h
      · intro p hp
        rcases List.mem_cons.1 hp with rfl | hp
        · exact ⟨h2a, by omega⟩
        · exact h3 p hp

/-- `pick` returns `[]` on an empty enumeration and otherwise a member of minimal length -/
theorem pick_spec {ps : List (List String)} (hne : ∀ p ∈ ps, p ≠ []) :
    (ps = [] ∧ pick ps = []) ∨ (pick ps ∈ ps ∧ ∀ p ∈ ps, (pick ps).length ≤ p.length) := by
  rw [pick_eq]
  have h := foldl_pickStep QueryIdioms.hopsReplaceStrict ps [] hne
  simp only at h
  obtain ⟨h1, _, h3⟩ := h
  cases ps with
  | nil => left; simp
  | cons x t =>
    right
    have hx := h3 x (by simp)
    rcases h1 with h | h
    · exact absurd h hx.1
    · exact ⟨h, fun p hp => (h3 p hp).2⟩
/-! ### loop-freeness -/

/-- no cycle in the subgraph induced by `p`: no repeated node, and every edge between two nodes of `p`
    (self-loops included) joins consecutive ones -/
def LoopFree (g : TGraph) (p : List String) : Prop :=
  p.Nodup ∧ ∀ u v r, Edge g u v r → u ∈ p → v ∈ p → consec p u v = true ∨ consec p v u = true

theorem chordFree_iff {g : TGraph} {p : List String} :
    chordFree g p = true ↔ ∀ u v r, Edge g u v r → u ∈ p → v ∈ p → consec p u v = true ∨ consec p v u = true := by
  unfold chordFree
  simp only [List.all_eq_true, Bool.or_eq_true, Bool.not_eq_true', Bool.and_eq_false_iff, decide_eq_false_iff_not]
  constructor
  · intro h u v r he hu hv
    rcases he with he | he
    · rcases h _ he with (h1 | h1) | h1
      · rcases h1 with h1 | h1
        · exact absurd hu h1
        · exact absurd hv h1
      · exact Or.inl h1
      · exact Or.inr h1
    · rcases h _ he with (h1 | h1) | h1
      · rcases h1 with h1 | h1
        · exact absurd hv h1
        · exact absurd hu h1
      · exact Or.inr h1
      · exact Or.inl h1
  · rintro h ⟨a, b, r⟩ he
    by_cases ha : a ∈ p
    · by_cases hb : b ∈ p
      · rcases h a b r (Or.inl he) ha hb with h1 | h1
        · exact Or.inl (Or.inr h1)
        · exact Or.inr h1
      · exact Or.inl (Or.inl (Or.inr hb))
    · exact Or.inl (Or.inl (Or.inl ha))

/-- the contract of `get_nodes_on_path_with_hops`: a loop-free path from `a` to `z` with at most `cutoff` edges
    that contains every requested hop -/
def HopPath (g : TGraph) (a z : String) (hops : List String) (cutoff : Nat) (p : List String) : Prop :=
  IsPath g none a z p ∧ LoopFree g p ∧ (∀ h ∈ hops, h ∈ p) ∧ p.length ≤ cutoff + 1

theorem mem_candidates {g : TGraph} {a z : String} {hops : List String} {cutoff : Nat} {p : List String} :
    p ∈ (allSimple g z cutoff a []).filter (hopOk g hops) ↔ HopPath g a z hops cutoff p := by
  rw [List.mem_filter]
  constructor
  · rintro ⟨hm, hok⟩
    obtain ⟨hh, hl, hc, hnd, _, hlen⟩ := allSimple_sound cutoff a [] p (by simp) hm
    simp only [hopOk, Bool.and_eq_true, List.all_eq_true, decide_eq_true_eq] at hok
    exact ⟨⟨hh, hl, hc⟩, ⟨hnd, chordFree_iff.1 hok.1⟩, hok.2, hlen⟩
  · rintro ⟨⟨hh, hl, hc⟩, ⟨hnd, hcf⟩, hhops, hlen⟩
    refine ⟨allSimple_complete cutoff a [] p ⟨hh, hl, hc, hnd, by simp, hlen⟩, ?_⟩
    simp only [hopOk, Bool.and_eq_true, List.all_eq_true, decide_eq_true_eq]
    exact ⟨chordFree_iff.2 hcf, hhops⟩

theorem hops_ok {g : TGraph} {a z : String} {hops : List String} {cutoff : Nat} {p : List String}
    (h : getNodesOnPathWithHops g a z hops cutoff = .ok p) :
    a ∈ verts g ∧ z ∈ verts g ∧ p = pathWithHops g a z hops cutoff := by
  unfold getNodesOnPathWithHops extract findNode at h
  by_cases h1 : g.nodes.isEmpty = true <;> by_cases h2 : a ∈ verts g <;> by_cases h3 : z ∈ verts g <;>
    simp [h1, h2, h3, bind, Except.bind, pure, Except.pure] at h
  exact ⟨h2, h3, h.symm⟩

theorem pathWithHops_spec (g : TGraph) (a z : String) (hops : List String) (cutoff : Nat) :
    let p := pathWithHops g a z hops cutoff
    (p = [] ∧ ¬ ∃ q, HopPath g a z hops cutoff q) ∨
    (HopPath g a z hops cutoff p ∧ ∀ q, HopPath g a z hops cutoff q → p.length ≤ q.length) := by
  intro p
  have hne : ∀ q ∈ (allSimple g z cutoff a []).filter (hopOk g hops), q ≠ [] := by
    intro q hq he
    have := (mem_candidates.1 hq).1.1
    rw [he] at this; simp at this
  rcases pick_spec hne with ⟨he, hp⟩ | ⟨hm, hmin⟩
  · left
    refine ⟨hp, ?_⟩
    rintro ⟨q, hq⟩
    have := mem_candidates.2 hq
    rw [he] at this; simp at this
  · right
    exact ⟨mem_candidates.1 hm, fun q hq => hmin q (mem_candidates.2 hq)⟩

/-- the hop test only looks at which ids are listed: repeats and order are irrelevant -/
theorem hopOk_congr {g : TGraph} {hs hs' : List String} (h : ∀ x, x ∈ hs ↔ x ∈ hs') (p : List String) :
    hopOk g hs p = hopOk g hs' p := by
  unfold hopOk
  congr 1
  rw [Bool.eq_iff_iff, List.all_eq_true, List.all_eq_true]
  exact ⟨fun hh x hx => hh x ((h x).2 hx), fun hh x hx => hh x ((h x).1 hx)⟩

theorem pathWithHops_congr {g : TGraph} {a z : String} {hs hs' : List String} (h : ∀ x, x ∈ hs ↔ x ∈ hs') (cutoff : Nat) :
    pathWithHops g a z hs cutoff = pathWithHops g a z hs' cutoff := by
  unfold pathWithHops
  have : hopOk g hs = hopOk g hs' := funext (hopOk_congr h)
  rw [this]

theorem chain_nodes_in_verts {g : TGraph} (hends : ∀ e ∈ g.edges, e.1 ∈ verts g ∧ e.2.1 ∈ verts g) :
    ∀ (p : List String) (a : String), p.head? = some a → a ∈ verts g → IsChain (Adj g none) p → ∀ x ∈ p, x ∈ verts g
  | [], _, hh, _, _ => by simp at hh
  | [v], a, hh, ha, _ => by
    intro x hx; simp at hh hx; subst hh; subst hx; exact ha
  | v :: w :: t, a, hh, ha, hc => by
    intro x hx
    simp at hh; subst hh
    rcases List.mem_cons.1 hx with rfl | hx
    · exact ha
    · obtain ⟨r, he, _⟩ := hc.1
      have hw : w ∈ verts g := by
        rcases he with he | he
        · exact (hends _ he).2
        · exact (hends _ he).1
      exact chain_nodes_in_verts hends (w :: t) w rfl hw hc.2 x hx

/-- on a view with one edge per unordered pair the relation of an edge is determined by its ends -/
theorem edge_rel_unique {g : TGraph} (hu : UniqEdges g) {u v r r' : String} (h : Edge g u v r) (h' : Edge g u v r') : r = r' := by
  have a := relOf_of_edge hu h
  have b := relOf_of_edge hu h'
  rw [a] at b
  exact Option.some.inj b

/-- pigeonhole: a list without repeats whose members all lie in `m` is not longer than `m` -/
theorem nodup_length_le_of_subset : ∀ (l m : List String), l.Nodup → (∀ x ∈ l, x ∈ m) → l.length ≤ m.length
  | [], _, _, _ => Nat.zero_le _
  | x :: t, m, hn, hs => by
    have hx : x ∈ m := hs x (by simp)
    have hn' := List.nodup_cons.1 hn
    have : t.length ≤ (m.erase x).length := by
      apply nodup_length_le_of_subset t (m.erase x) hn'.2
      intro y hy
      have hne : y ≠ x := fun h => hn'.1 (h ▸ hy)
      exact (List.mem_erase_of_ne hne).2 (hs y (by simp [hy]))
    rw [List.length_erase_of_mem hx] at this
    have hpos : 0 < m.length := List.length_pos_of_mem hx
    simp only [List.length_cons]
    omega

end FimVerif.Query
