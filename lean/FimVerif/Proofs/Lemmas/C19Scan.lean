import FimVerif.Proofs.Lemmas.C19Lex
/-!
Helper lemmas for C19 (identifier holes, part 2): THE LINT'S VERDICT DOES NOT DEPEND ON WHAT FILLS THE HOLES.
`unexpanded`, keyword classification, bracket balance, parameter names and the scoping pass (`scan`) give the same result on the
tokens with holes and on the tokens with the holes filled, provided the holes sit where `scanChk` says the pass ignores identifiers
(`scan_eR`); hence `lint_expand`.
-/
namespace FimVerif.Cypher
set_option linter.unusedSimpArgs false
set_option linter.unusedVariables false

/-! ### `{{ }} {name}` detection -/
theorem unexpanded_cons (c : Nat) (rest : Text) : unexpanded (c :: rest) =
    if c == cp%'{' then
      (rest.head? == some cp%'{') ||
      ((rest.head?.map isIdStart).getD false && (rest.dropWhile isIdChar).head? == some cp%'}') ||
      unexpanded rest
    else if c == cp%'}' then (rest.head? == some cp%'}') || unexpanded rest
    else unexpanded rest := by rfl

theorem unexpanded_idLike_append (x r : Text) (hx : ∀ c ∈ x, idLike c) : unexpanded (x ++ r) = unexpanded r := by
  induction x with
  | nil => rfl
  | cons c t ih =>
    have hc := hx c (by simp)
    have h1 : (c == 123) = false := idLike_ne hc 123 (by omega)
    have h2 : (c == 125) = false := idLike_ne hc 125 (by omega)
    rw [List.cons_append, unexpanded_cons]; simp only [h1, h2, if_false, Bool.false_eq_true]
    exact ih (fun c hc => hx c (by simp [hc]))

theorem unexpanded_expand {ρ : Nat → Text} (h : IdSubst ρ) (s : Text) : unexpanded (expand ρ s) = unexpanded s := by
  induction s with
  | nil => rfl
  | cons c rest ih =>
    cases hmc : isMarker c with
    | true =>
      have hc : idLike c := Or.inr (Or.inr hmc)
      have h1 : (c == 123) = false := idLike_ne hc 123 (by omega)
      have h2 : (c == 125) = false := idLike_ne hc 125 (by omega)
      rw [expand_marker ρ hmc, unexpanded_idLike_append _ _ (h.idLike _), unexpanded_cons]
      simp only [h1, h2, if_false, Bool.false_eq_true, ih]
    | false =>
      have hIdChar := takeWhile_expand h isIdChar (fun c hc => idLike_isIdChar hc) rest
      rw [expand_char ρ hmc, unexpanded_cons, unexpanded_cons, head_eq_expand h rest 123 (by omega),
        head_eq_expand h rest 125 (by omega), head_idStart_expand h rest, hIdChar.2, head_eq_expand h _ 125 (by omega), ih]

/-! ### tokens -/
theorem isSym_eR (ρ : Nat → Text) (t : Option Tok) (c : Nat) : isSym (t.map (Tok.expandRaw ρ)) c = isSym t c := by
  cases t with | none => rfl | some t => cases t <;> rfl
theorem isKwT_eR (ρ : Nat → Text) (t : Option Tok) (w : Codes) : isKwT (t.map (Tok.expandRaw ρ)) w = isKwT t w := by
  cases t with | none => rfl | some t => cases t <;> rfl
theorem kwIn_eR (ρ : Nat → Text) (t : Option Tok) (l : List Codes) : kwIn (t.map (Tok.expandRaw ρ)) l = kwIn t l := by
  cases t with | none => rfl | some t => cases t <;> rfl
theorem isCallee_eR (ρ : Nat → Text) (t : Option Tok) : isCallee (t.map (Tok.expandRaw ρ)) = isCallee t := by
  cases t with | none => rfl | some t => cases t <;> rfl
theorem badFollower_eR (ρ : Nat → Text) (t : Option Tok) : badFollower (t.map (Tok.expandRaw ρ)) = badFollower t := by
  cases t with | none => rfl | some t => cases t <;> rfl
theorem operandEnd_eR (ρ : Nat → Text) (t : Option Tok) : operandEnd (t.map (Tok.expandRaw ρ)) = operandEnd t := by
  cases t with | none => rfl | some t => cases t <;> rfl
theorem commaBad_eR (ρ : Nat → Text) (t : Option Tok) : commaBad (t.map (Tok.expandRaw ρ)) = commaBad t := by
  cases t with | none => rfl | some t => cases t <;> rfl
theorem isNone_eR (ρ : Nat → Text) (t : Option Tok) : isNone (t.map (Tok.expandRaw ρ)) = isNone t := by
  cases t with | none => rfl | some t => cases t <;> rfl
theorem isClauseTok_eR (ρ : Nat → Text) (t : Option Tok) : isClauseTok (t.map (Tok.expandRaw ρ)) = isClauseTok t := by
  cases t with | none => rfl | some t => cases t <;> rfl
theorem isWordTok_eR (ρ : Nat → Text) (t : Tok) : isWordTok (Tok.expandRaw ρ t) = isWordTok t := by
  cases t <;> rfl

theorem dottedCall_cons2 (c : Nat) (w : Tok) (rest : List Tok) : dottedCall (.sym c :: w :: rest) =
    if c == cp%'.' && isWordTok w then
      (match rest with
       | .sym d :: _ => if d == cp%'(' then true else dottedCall rest
       | _ => false)
    else false := by rfl

theorem dottedCall_eR (ρ : Nat → Text) : ∀ n (l : List Tok), l.length ≤ n → dottedCall (l.map (Tok.expandRaw ρ)) = dottedCall l := by
  intro n
  induction n with
  | zero => intro l hl; cases l with | nil => rfl | cons _ _ => simp at hl
  | succ n ih =>
    intro l hl
    match l with
    | [] => rfl
    | [t] => cases t <;> rfl
    | t :: w :: rest =>
      cases t with
      | sym c =>
        show dottedCall (Tok.sym c :: Tok.expandRaw ρ w :: rest.map (Tok.expandRaw ρ)) = _
        rw [dottedCall_cons2, dottedCall_cons2, isWordTok_eR]
        by_cases hc : (c == cp%'.' && isWordTok w) = true
        · simp only [hc, if_true]
          cases rest with
          | nil => rfl
          | cons u r =>
            cases u with
            | sym d =>
              show (if d == cp%'(' then true else dottedCall ((Tok.sym d :: r).map (Tok.expandRaw ρ))) = _
              rw [ih (Tok.sym d :: r) (by simp at hl ⊢; omega)]
            | _ => rfl
        · simp only [hc, if_false, Bool.false_eq_true]
      | _ => rfl



/-! ### the scoping pass -/
theorem binds_eR (ρ : Nat → Text) (s : St) (p2 p1 nx : Option Tok) :
    binds s (p2.map (Tok.expandRaw ρ)) (p1.map (Tok.expandRaw ρ)) (nx.map (Tok.expandRaw ρ)) = binds s p2 p1 nx := by
  simp only [binds, isSym_eR, isCallee_eR, isKwT_eR, kwIn_eR]
theorem uses_eR (ρ : Nat → Text) (p1 nx : Option Tok) (rest : List Tok) :
    uses (p1.map (Tok.expandRaw ρ)) (nx.map (Tok.expandRaw ρ)) (rest.map (Tok.expandRaw ρ)) = uses p1 nx rest := by
  simp only [uses, isSym_eR, kwIn_eR, dottedCall_eR ρ _ rest (Nat.le_refl _)]
theorem carries_eR (ρ : Nat → Text) (s : St) (p1 nx : Option Tok) :
    carries s (p1.map (Tok.expandRaw ρ)) (nx.map (Tok.expandRaw ρ)) = carries s p1 nx := by
  simp only [carries, isSym_eR, isKwT_eR, isNone_eR, isClauseTok_eR]

/-- the context of a token enters `step` only through observations that do not look inside identifiers -/
theorem step_eR (ρ : Nat → Text) (s : St) (p2 p1 : Option Tok) (cur : Tok) (rest : List Tok) :
    step s (p2.map (Tok.expandRaw ρ)) (p1.map (Tok.expandRaw ρ)) cur (rest.map (Tok.expandRaw ρ)) = step s p2 p1 cur rest := by
  cases cur with
  | kw lw => simp only [step, stepKw, List.head?_map, isKwT_eR, badFollower_eR, operandEnd_eR]
  | id x => simp only [step, stepId, List.head?_map, binds_eR, uses_eR, carries_eR]
  | sym c => simp only [step, stepSym, List.head?_map, isKwT_eR, isSym_eR, commaBad_eR, badFollower_eR]
  | num => rfl
  | str => rfl
  | par x => rfl

/-- at a position where the identifier neither binds nor refers to a variable the step ignores its name -/
theorem stepId_inert (s : St) (p2 p1 : Option Tok) (x : Codes) (rest : List Tok) (h1 : s.inYield = false)
    (h2 : binds s p2 p1 rest.head? = false) (h3 : uses p1 rest.head? rest = false) (h4 : carries s p1 rest.head? = false) :
    stepId s p2 p1 x rest = s := by
  cases s; simp_all [stepId]

theorem expandRaw_clean (ρ : Nat → Text) (t : Tok) (hc : cleanTok t = true) (hh : isHole t = false) : Tok.expandRaw ρ t = t := by
  cases t with
  | id nm => simp [isHole] at hh; simp [Tok.expandRaw, expand_plain ρ hh]
  | par nm => simp [cleanTok] at hc; simp [Tok.expandRaw, expand_plain ρ hc]
  | _ => rfl

/-- THE SCOPING PASS DOES NOT DEPEND ON WHAT FILLS THE HOLES, provided every hole sits where the pass ignores identifiers
(`scanChk`, decidable on the text with holes) -/
theorem scan_eR (ρ : Nat → Text) : ∀ (l : List Tok) (p2 p1 : Option Tok) (s : St), l.all cleanTok = true → scanChk l p2 p1 s = true →
    scan (l.map (Tok.expandRaw ρ)) (p2.map (Tok.expandRaw ρ)) (p1.map (Tok.expandRaw ρ)) s = scan l p2 p1 s := by
  intro l
  induction l with
  | nil => intro p2 p1 s _ _; rfl
  | cons cur rest ih =>
    intro p2 p1 s hc hk
    simp only [List.all_cons, Bool.and_eq_true] at hc
    simp only [scanChk, Bool.and_eq_true, Bool.or_eq_true, Bool.not_eq_true'] at hk
    have hstep : step s (p2.map (Tok.expandRaw ρ)) (p1.map (Tok.expandRaw ρ)) (Tok.expandRaw ρ cur) (rest.map (Tok.expandRaw ρ))
        = step s p2 p1 cur rest := by
      cases hh : isHole cur with
      | false => rw [expandRaw_clean ρ cur hc.1 hh, step_eR]
      | true =>
        rcases hk.1 with h | h
        · rw [hh] at h; cases h
        · cases cur with
          | id nm =>
            rw [← step_eR ρ s p2 p1 (Tok.id nm) rest]
            show stepId s _ _ (expand ρ nm) _ = stepId s _ _ nm _
            have e1 := binds_eR ρ s p2 p1 rest.head?
            have e2 := uses_eR ρ p1 rest.head? rest
            have e3 := carries_eR ρ s p1 rest.head?
            rw [← List.head?_map] at e1 e2 e3
            rw [stepId_inert _ _ _ _ _ h.1.1.1 (by rw [e1]; exact h.1.1.2) (by rw [e2]; exact h.1.2) (by rw [e3]; exact h.2),
                stepId_inert _ _ _ _ _ h.1.1.1 (by rw [e1]; exact h.1.1.2) (by rw [e2]; exact h.1.2) (by rw [e3]; exact h.2)]
          | _ => simp [isHole] at hh
    show scan (rest.map (Tok.expandRaw ρ)) (p1.map (Tok.expandRaw ρ)) ((some cur).map (Tok.expandRaw ρ)) _ = scan rest p1 (some cur) _
    rw [hstep]
    exact ih p1 (some cur) _ hc.2 hk.2



/-! ### keywords, brackets, parameters -/
theorem isKw_single (c : Nat) : isKw [c] = false := by
  simp [isKw, keywords, lower]

theorem GoodSubst.idSubst {ρ : Nat → Text} (h : GoodSubst ρ) : IdSubst ρ := by
  constructor
  · intro k
    have := h.1 k
    simp only [identOK, Bool.and_eq_true] at this
    cases hk : ρ k with
    | nil => rw [hk] at this; simp at this
    | cons a t => rw [hk] at this; exact ⟨a, t, rfl, this.1.1⟩
  · intro k c hc
    have := h.1 k
    simp only [identOK, Bool.and_eq_true, List.all_eq_true, Bool.or_eq_true] at this
    exact this.1.2 c hc

theorem GoodSubst.nokw {ρ : Nat → Text} (h : GoodSubst ρ) (k : Nat) : isKw (ρ k) = false := by
  have := h.1 k
  simp only [identOK, Bool.and_eq_true, Bool.not_eq_true'] at this
  exact this.2

theorem classify_cons_id (p : Option Tok) (nm : Codes) (rest : List Tok) : classify p (.id nm :: rest) =
    (if !isSym p cp%'.' && isKw nm then Tok.kw (lower nm) else Tok.id nm) :: classify (some (.id nm)) rest := by rfl

theorem classify_eR {ρ : Nat → Text} (h : GoodSubst ρ) : ∀ (l : List Tok) (p p' : Option Tok), isSym p cp%'.' = isSym p' cp%'.' →
    l.all cleanTok = true → classify p (l.map (Tok.expandRaw ρ)) = (classify p' l).map (Tok.expandRaw ρ) := by
  intro l
  induction l with
  | nil => intro p p' _ _; rfl
  | cons t rest ih =>
    intro p p' hp hc
    simp only [List.all_cons, Bool.and_eq_true] at hc
    cases t with
    | id nm =>
      have hcl := hc.1
      simp only [cleanTok, Bool.or_eq_true] at hcl
      show classify p (Tok.id (expand ρ nm) :: rest.map (Tok.expandRaw ρ)) = _
      rw [classify_cons_id, classify_cons_id, List.map_cons, ih (some (.id (expand ρ nm))) (some (.id nm)) rfl hc.2, hp]
      rcases hcl with hpl | hmk
      · rw [expand_plain ρ hpl]
        split <;> simp [Tok.expandRaw, expand_plain ρ hpl]
      · match nm, hmk with
        | [c], hmk =>
          have e : expand ρ [c] = ρ (c - markerBase) := by simp [expand, hmk]
          rw [e, isKw_single, h.nokw]
          simp [Tok.expandRaw, e]
    | kw w => exact congrArg (Tok.kw w :: ·) (ih _ (some (.kw w)) rfl hc.2)
    | num => exact congrArg (Tok.num :: ·) (ih _ (some .num) rfl hc.2)
    | str => exact congrArg (Tok.str :: ·) (ih _ (some .str) rfl hc.2)
    | par x => exact congrArg (Tok.par (expand ρ x) :: ·) (ih _ (some (.par x)) rfl hc.2)
    | sym c => exact congrArg (Tok.sym c :: ·) (ih _ (some (.sym c)) rfl hc.2)

theorem classify_clean : ∀ (l : List Tok) (p : Option Tok), l.all cleanTok = true → (classify p l).all cleanTok = true := by
  intro l
  induction l with
  | nil => intro p _; rfl
  | cons t rest ih =>
    intro p hc
    simp only [List.all_cons, Bool.and_eq_true] at hc
    cases t with
    | id nm =>
      rw [classify_cons_id]
      simp only [List.all_cons, Bool.and_eq_true]
      refine ⟨?_, ih _ hc.2⟩
      split
      · rfl
      · exact hc.1
    | kw w => exact (by simp only [classify, List.all_cons, Bool.and_eq_true]; exact ⟨rfl, ih _ hc.2⟩)
    | num => exact (by simp only [classify, List.all_cons, Bool.and_eq_true]; exact ⟨rfl, ih _ hc.2⟩)
    | str => exact (by simp only [classify, List.all_cons, Bool.and_eq_true]; exact ⟨rfl, ih _ hc.2⟩)
    | par x => exact (by simp only [classify, List.all_cons, Bool.and_eq_true]; exact ⟨hc.1, ih _ hc.2⟩)
    | sym c => exact (by simp only [classify, List.all_cons, Bool.and_eq_true]; exact ⟨rfl, ih _ hc.2⟩)

theorem balAux_eR (ρ : Nat → Text) : ∀ (l : List Tok) (stk : Codes), balAux (l.map (Tok.expandRaw ρ)) stk = balAux l stk := by
  intro l
  induction l with
  | nil => intro stk; rfl
  | cons t rest ih =>
    intro stk
    cases t with
    | sym c =>
      show balAux (Tok.sym c :: rest.map (Tok.expandRaw ρ)) stk = balAux (Tok.sym c :: rest) stk
      simp only [balAux, ih]
    | id nm => exact ih stk
    | kw w => exact ih stk
    | num => exact ih stk
    | str => exact ih stk
    | par x => exact ih stk

theorem parsOf_eR (ρ : Nat → Text) (l : List Tok) (hc : l.all cleanTok = true) : parsOf (l.map (Tok.expandRaw ρ)) = parsOf l := by
  unfold parsOf
  generalize ([] : List Codes) = acc
  induction l generalizing acc with
  | nil => rfl
  | cons t rest ih =>
    simp only [List.all_cons, Bool.and_eq_true] at hc
    simp only [List.map_cons, List.foldl_cons]
    cases t with
    | par x =>
      have : plain x = true := hc.1
      simp only [Tok.expandRaw, expand_plain ρ this]
      exact ih hc.2 _
    | id nm => exact ih hc.2 _
    | kw w => exact ih hc.2 _
    | num => exact ih hc.2 _
    | str => exact ih hc.2 _
    | sym c => exact ih hc.2 _

/-- THE VERDICT OF THE LINT DOES NOT DEPEND ON WHAT FILLS THE HOLES: for a text `t` with identifier holes that passes the decidable
side conditions `cleanFor`, the lint returns on `expand ρ t` exactly what it returns on `t` - for EVERY assignment `ρ` of
identifier-shaped non-keyword strings to the holes.  Checking the one instantiation with holes decides all of them. -/
theorem lint_expand {ρ : Nat → Text} (h : GoodSubst ρ) (t : Text) (hc : cleanFor t = true) (sup : List Text) :
    lint (expand ρ t) sup = lint t sup := by
  simp only [cleanFor, Bool.and_eq_true] at hc
  have hcl := classify_clean _ none hc.1
  unfold lint lintCodes
  simp only [lexRaw_expand h.idSubst, Lexed.expand, classify_eR h _ none none rfl hc.1, unexpanded_expand h.idSubst,
    balAux_eR, parsOf_eR ρ _ hcl]
  have := scan_eR ρ _ none none St.init hcl hc.2
  simp only [Option.map_none] at this
  rw [this]

theorem checkStmt_expand {ρ : Nat → Text} (h : GoodSubst ρ) (t : Text) (hc : cleanFor t = true) (sup : List Text) :
    checkStmt (expand ρ t) sup = checkStmt t sup := by
  unfold checkStmt; rw [lint_expand h t hc]



end FimVerif.Cypher
