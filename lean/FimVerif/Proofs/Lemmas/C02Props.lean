import FimVerif.Model.Sliver
/-! Helper definitions and lemmas for C02: table check, field laws, lookup lemmas for `toProps` / `fromProps`. -/
namespace FimVerif.C02
open FimVerif.Sliver FimVerif.Gen.SliverMap

/-- which decoder undoes which encoder (the closed set of codec pairs) -/
def codecPair : Enc → Dec → Bool
  | .ident, .ident => true
  | .str, .typeFromStr => true
  | .str, .fromString => true
  | .str, .ident => true          -- str(x) of something whose setter rebuilds it from the string (ip address) or that is a str
  | .toJson, .fromJson => true
  | .jsonDumps, .jsonLoads => true
  | .jsonData, .jsonDataCtor => true
  | .commaJoin, .commaSplit => true
  | .commaJoin, .commaRSplit => true
  | _, _ => false

/-- settable "properties" that are containment, not values (handled as children) -/
def structuralKeys : List String := ["network_service_info"]

/-- from-row `f` reads what to-row `r` writes -/
def pairs (r : ToRow) (f : FromRow) : Bool :=
  r.gprop == f.gprop && r.keys.contains f.key && codecPair r.enc f.dec && (f.absent == Absent.none || r.always)

/-- The structural check on one kind's tables (a `decide` over the generated data). -/
def tableOK (T : KindTable) : Bool :=
  decide (T.toRows.map (·.gprop)).Nodup &&
  decide (T.fromRows.map (·.key)).Nodup &&
  T.fromRows.all (fun f => T.toRows.any (fun r => pairs r f)) &&
  T.toRows.all (fun r => r.keys.all (fun k => T.fromRows.any (fun f => f.key == k && f.gprop == r.gprop))) &&
  T.settable.all (fun k => structuralKeys.contains k || T.fromRows.any (fun f => f.key == k)) &&
  T.fromRows.any (fun f => f.key == "name") && T.fromRows.any (fun f => f.key == "type")

section
variable {V P : Type}

/-- what `set_properties` stores for from-row `f` when the graph property holds `x` -/
def readVal (C : Codecs V P) (f : FromRow) (x : P) : Except Err (Option V) :=
  match C.dec f.dec f.arg x with
  | .ok ov => setRow C f ov
  | .error e => .error e

/-- **Codec hypothesis** (discharged per value by C03 for the `to_json`/`from_json` pairs, by CPython for
`json.dumps/loads`, trivially for identity): decoding what a row encodes gives each of its fields back. -/
def FieldLaw (C : Codecs V P) (T : KindTable) (s : Fields V) : Prop :=
  ∀ r ∈ T.toRows, ∀ f ∈ T.fromRows, f.gprop = r.gprop →
    match rowVals s r.keys with
    | some vs => readVal C f (C.enc r.enc vs) = .ok (s f.key)
    | none => r.always = true → readVal C f (C.encNone r.enc) = .ok (s f.key)

/-- **Fate sharing**: a row that reads several attributes is written only when all are set, so either all or none
of them may be set (`image_ref` / `image_type`). -/
def FateShared (T : KindTable) (s : Fields V) : Prop :=
  ∀ r ∈ T.toRows, rowVals s r.keys = none → r.always = false → ∀ k ∈ r.keys, s k = none

/-- properties whose setter rejects `None` (`name`) are set -/
def Required (T : KindTable) (s : Fields V) : Prop :=
  ∀ f ∈ T.fromRows, f.noneOk = false → ∀ r ∈ T.toRows, r.gprop = f.gprop → rowVals s r.keys ≠ none

/-- the fields the from-table rebuilds -/
def restrict (T : KindTable) (s : Fields V) : Fields V :=
  fun k => if k ∈ T.fromRows.map (·.key) then s k else none

/-! ### `toProps` -/

theorem applyTo_other (C : Codecs V P) (s : Fields V) (p : Props P) (r : ToRow) (g : String) (hne : ¬ g = r.gprop) :
    (applyTo C s p r) g = p g := by
  unfold applyTo
  cases rowVals s r.keys with
  | some vs => simp [Props.set, hne]
  | none =>
    cases r.always with
    | true => simp [Props.set, hne]
    | false => simp

theorem foldl_applyTo_notin (C : Codecs V P) (s : Fields V) (rows : List ToRow) (p : Props P) (g : String)
    (h : g ∉ rows.map (·.gprop)) : (rows.foldl (applyTo C s) p) g = p g := by
  induction rows generalizing p with
  | nil => rfl
  | cons r rs ih =>
    simp only [List.map_cons, List.mem_cons, not_or] at h
    rw [List.foldl_cons, ih _ h.2]
    exact applyTo_other C s p r g h.1

/-- value of one row at its own property -/
def rowOut (C : Codecs V P) (s : Fields V) (r : ToRow) (old : Option P) : Option P :=
  match rowVals s r.keys with
  | some vs => some (C.enc r.enc vs)
  | none => if r.always then some (C.encNone r.enc) else old

theorem applyTo_self (C : Codecs V P) (s : Fields V) (p : Props P) (r : ToRow) :
    (applyTo C s p r) r.gprop = rowOut C s r (p r.gprop) := by
  unfold applyTo rowOut
  cases rowVals s r.keys with
  | some vs => simp [Props.set]
  | none =>
    cases r.always with
    | true => simp [Props.set]
    | false => simp

theorem foldl_applyTo_mem (C : Codecs V P) (s : Fields V) (rows : List ToRow) (p : Props P) (r : ToRow)
    (hnd : (rows.map (·.gprop)).Nodup) (hr : r ∈ rows) :
    (rows.foldl (applyTo C s) p) r.gprop = rowOut C s r (p r.gprop) := by
  induction rows generalizing p with
  | nil => cases hr
  | cons r0 rs ih =>
    simp only [List.map_cons, List.nodup_cons] at hnd
    rw [List.foldl_cons]
    rcases List.mem_cons.mp hr with h | h
    · subst h
      rw [foldl_applyTo_notin C s rs _ _ hnd.1, applyTo_self]
    · rw [ih _ hnd.2 h]
      have hne : ¬ r.gprop = r0.gprop := by
        intro he
        apply hnd.1
        rw [← he]
        exact List.mem_map_of_mem h
      rw [applyTo_other C s p r0 r.gprop hne]

theorem toProps_mem (C : Codecs V P) (T : KindTable) (s : Fields V) (r : ToRow)
    (hnd : (T.toRows.map (·.gprop)).Nodup) (hr : r ∈ T.toRows) :
    toProps C T s r.gprop = rowOut C s r none := by
  unfold toProps
  rw [foldl_applyTo_mem C s _ _ r hnd hr]
  rfl

theorem toProps_notin (C : Codecs V P) (T : KindTable) (s : Fields V) (g : String)
    (h : g ∉ T.toRows.map (·.gprop)) : toProps C T s g = none := by
  unfold toProps
  rw [foldl_applyTo_notin C s _ _ g h]
  rfl

/-! ### `fromProps` -/

theorem fromRowsGo_spec (C : Codecs V P) (p : Props P) (tgt : Fields V) (rows : List FromRow) (s0 : Fields V)
    (hnd : (rows.map (·.key)).Nodup) (h : ∀ f ∈ rows, readRow C p f = .ok (tgt f.key)) :
    ∃ s', fromRowsGo C p rows s0 = .ok s' ∧ (∀ f ∈ rows, s' f.key = tgt f.key) ∧
      (∀ k, k ∉ rows.map (·.key) → s' k = s0 k) := by
  induction rows generalizing s0 with
  | nil => exact ⟨s0, rfl, by simp, by simp⟩
  | cons r rs ih =>
    simp only [List.map_cons, List.nodup_cons] at hnd
    have hr := h r (List.mem_cons_self)
    obtain ⟨s', hs', hk, hframe⟩ := ih (s0.set r.key (tgt r.key)) hnd.2 (fun f hf => h f (List.mem_cons_of_mem _ hf))
    refine ⟨s', ?_, ?_, ?_⟩
    · simp only [fromRowsGo, hr]
      exact hs'
    · intro f hf
      rcases List.mem_cons.mp hf with he | he
      · subst he
        rw [hframe _ hnd.1]
        simp [Fields.set]
      · exact hk f he
    · intro k hk'
      simp only [List.map_cons, List.mem_cons, not_or] at hk'
      rw [hframe k hk'.2]
      simp [Fields.set, hk'.1]

/-- a successful rebuild read every row -/
theorem fromRowsGo_ok (C : Codecs V P) (p : Props P) (rows : List FromRow) (s0 s' : Fields V)
    (hnd : (rows.map (·.key)).Nodup) (h : fromRowsGo C p rows s0 = .ok s') :
    ∀ f ∈ rows, readRow C p f = .ok (s' f.key) := by
  induction rows generalizing s0 with
  | nil => intro f hf; cases hf
  | cons r rs ih =>
    simp only [List.map_cons, List.nodup_cons] at hnd
    simp only [fromRowsGo] at h
    split at h
    · cases h
    · rename_i v hv
      intro f hf
      rcases List.mem_cons.mp hf with he | he
      · subst he
        -- later rows do not touch this key
        have : s' f.key = (s0.set f.key v) f.key := by
          clear ih
          -- frame: keys not among rs keep their value
          have frame : ∀ (rows : List FromRow) (s0 s' : Fields V) (k : String), k ∉ rows.map (·.key) →
              fromRowsGo C p rows s0 = .ok s' → s' k = s0 k := by
            intro rows
            induction rows with
            | nil => intro s0 s' k _ h; simp only [fromRowsGo] at h; cases h; rfl
            | cons r rs ih =>
              intro s0 s' k hk h
              simp only [List.map_cons, List.mem_cons, not_or] at hk
              simp only [fromRowsGo] at h
              split at h
              · cases h
              · rw [ih _ _ _ hk.2 h]; simp [Fields.set, hk.1]
          exact frame rs _ _ _ hnd.1 h
        rw [this, hv]; simp [Fields.set]
      · exact ih _ hnd.2 h f he

/-! ### the flat round trip (core of `props_roundtrip_partial`) -/

theorem tableOK_nodup_g {T : KindTable} (h : tableOK T = true) : (T.toRows.map (·.gprop)).Nodup := by
  simp only [tableOK, Bool.and_eq_true, decide_eq_true_eq] at h
  exact h.1.1.1.1.1.1

theorem tableOK_nodup_k {T : KindTable} (h : tableOK T = true) : (T.fromRows.map (·.key)).Nodup := by
  simp only [tableOK, Bool.and_eq_true, decide_eq_true_eq] at h
  exact h.1.1.1.1.1.2

theorem tableOK_pair {T : KindTable} (h : tableOK T = true) (f : FromRow) (hf : f ∈ T.fromRows) :
    ∃ r ∈ T.toRows, r.gprop = f.gprop ∧ f.key ∈ r.keys ∧ (f.absent = Absent.none ∨ r.always = true) := by
  simp only [tableOK, Bool.and_eq_true, List.all_eq_true, List.any_eq_true] at h
  obtain ⟨r, hr, hp⟩ := h.1.1.1.1.2 f hf
  simp only [pairs, Bool.and_eq_true, Bool.or_eq_true, beq_iff_eq, List.contains_iff_mem] at hp
  exact ⟨r, hr, hp.1.1.1, hp.1.1.2, hp.2⟩

theorem readRow_some (C : Codecs V P) (p : Props P) (f : FromRow) (x : P) (h : p f.gprop = some x) :
    readRow C p f = readVal C f x := by
  unfold readRow decodeRow readVal
  rw [h]
  rfl

theorem readRow_none (C : Codecs V P) (p : Props P) (f : FromRow) (h : p f.gprop = none) (ha : f.absent = Absent.none) :
    readRow C p f = setRow C f none := by
  unfold readRow decodeRow
  rw [h, ha]

/-- every from-row reads back the field it belongs to -/
theorem readRow_toProps (C : Codecs V P) (T : KindTable) (s : Fields V) (hT : tableOK T = true)
    (hlaw : FieldLaw C T s) (hfate : FateShared T s) (hreq : Required T s) (f : FromRow) (hf : f ∈ T.fromRows) :
    readRow C (toProps C T s) f = .ok (s f.key) := by
  obtain ⟨r, hr, hgp, hkey, habs⟩ := tableOK_pair hT f hf
  have hval := toProps_mem C T s r (tableOK_nodup_g hT) hr
  rw [hgp] at hval
  have hl := hlaw r hr f hf hgp.symm
  unfold rowOut at hval
  cases hv : rowVals s r.keys with
  | some vs =>
    rw [hv] at hval hl
    rw [readRow_some C _ f _ hval]
    exact hl
  | none =>
    rw [hv] at hval hl
    cases hal : r.always with
    | true =>
      rw [hal] at hval
      rw [readRow_some C _ f _ hval]
      exact hl hal
    | false =>
      rw [hal] at hval
      have ha : f.absent = Absent.none := by
        rcases habs with h | h
        · exact h
        · rw [hal] at h; cases h
      rw [readRow_none C _ f hval ha, hfate r hr hv hal f.key hkey]
      unfold setRow
      cases hn : f.noneOk with
      | true => rfl
      | false => exact absurd hv (hreq f hf hn r hr hgp)

theorem fromProps_toProps (C : Codecs V P) (T : KindTable) (s : Fields V) (hT : tableOK T = true)
    (hlaw : FieldLaw C T s) (hfate : FateShared T s) (hreq : Required T s) :
    fromProps C T (toProps C T s) = .ok (restrict T s) := by
  obtain ⟨s', hs', hkeys, hframe⟩ := fromRowsGo_spec C (toProps C T s) s T.fromRows Fields.empty (tableOK_nodup_k hT)
    (fun f hf => readRow_toProps C T s hT hlaw hfate hreq f hf)
  unfold fromProps
  rw [hs']
  congr 1
  funext k
  unfold restrict
  by_cases hk : k ∈ T.fromRows.map (·.key)
  · rw [if_pos hk]
    obtain ⟨f, hf, rfl⟩ := List.mem_map.mp hk
    exact hkeys f hf
  · rw [if_neg hk, hframe k hk]
    rfl


end
end FimVerif.C02
