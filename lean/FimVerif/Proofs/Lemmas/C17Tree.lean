import FimVerif.Proofs.Lemmas.C17Dict
/-! Lemmas about the three `diff` methods of `Model/Diff.lean` (C17). -/
namespace FimVerif.Diff
variable {V : Type} [DecidableEq V]

/-- what a diff result reports; `None` reports nothing -/
def rep (o : Option TDiff) : TDiff := o.getD {}

/-! ### well-formedness: every `*Info` dictionary has unique keys -/

def Iface.Wf (i : Iface V) : Prop := WfDict (dictOf i.subs)
def Svc.Wf (s : Svc V) : Prop := WfDict (dictOf s.ifs) ∧ ∀ i ∈ dictOf s.ifs, i.Wf
/-- only the first service of a component is ever looked at -/
def Comp.Wf (c : Comp V) : Prop := ∀ s ∈ (dictOf c.svcs).head?, s.Wf
def Node.Wf (n : Node V) : Prop :=
  WfDict (dictOf n.comps) ∧ WfDict (dictOf n.svcs) ∧ ∀ c ∈ dictOf n.comps, c.Wf

instance (i : Iface V) : Decidable i.Wf := by unfold Iface.Wf; infer_instance
instance (s : Svc V) : Decidable s.Wf := by unfold Svc.Wf; infer_instance
instance (c : Comp V) : Decidable c.Wf := by unfold Comp.Wf; infer_instance
instance (n : Node V) : Decidable n.Wf := by unfold Node.Wf; infer_instance

/-! ### prop_diff -/

theorem propDiff_eq_none_iff (a b : Props V) : propDiff a b = Flags.none ↔ a = b := by
  cases a; cases b
  simp [propDiff, Flags.none]

theorem propDiff_self (a : Props V) : propDiff a a = Flags.none := (propDiff_eq_none_iff a a).2 rfl

theorem propDiff_sub (a b : Props V) : (propDiff a b).sub = false := rfl

theorem selfMod_eq_nil_iff (n : String) (a b : Props V) : selfMod n a b = [] ↔ a = b := by
  unfold selfMod
  split
  · rename_i h; simp [(propDiff_eq_none_iff a b).1 h]
  · rename_i h; simp only [reduceCtorEq, false_iff]; exact fun e => h ((propDiff_eq_none_iff a b).2 e)

theorem mem_selfMod (n : String) (a b : Props V) (k : String) (f : Flags) :
    (k, f) ∈ selfMod n a b ↔ k = n ∧ f = propDiff a b ∧ f ≠ Flags.none := by
  unfold selfMod
  split
  · rename_i h; simp only [List.not_mem_nil, false_iff]; rintro ⟨_, rfl, h'⟩; exact h' h
  · rename_i h; simp only [List.mem_singleton, Prod.mk.injEq]
    constructor
    · rintro ⟨rfl, rfl⟩; exact ⟨rfl, rfl, h⟩
    · rintro ⟨rfl, rfl, _⟩; exact ⟨rfl, rfl⟩

/-! ### shape of the results -/

theorem isEmpty_false_iff {β} (l : List β) : (!l.isEmpty) = false ↔ l = [] := by
  cases l <;> simp

theorem rep_ifaceDiff (a b : Iface V) :
    rep (ifaceDiff a b) =
      { addedIfs := (levelDiff leafFlag a.subs b.subs).added, removedIfs := (levelDiff leafFlag a.subs b.subs).removed,
        modSvcs := selfMod a.name a.props b.props, modIfs := (levelDiff leafFlag a.subs b.subs).modified } := by
  dsimp only [ifaceDiff, rep]
  split
  · rfl
  · rename_i h
    simp only [Bool.or_eq_true, not_or, Bool.not_eq_true, isEmpty_false_iff] at h
    obtain ⟨⟨⟨h1, h2⟩, h3⟩, h4⟩ := h
    simp [h1, h2, h3, h4]

theorem ifaceDiff_eq_none_iff (a b : Iface V) :
    ifaceDiff a b = none ↔ selfMod a.name a.props b.props = [] ∧ levelDiff leafFlag a.subs b.subs = {} := by
  dsimp only [ifaceDiff]
  split
  · rename_i h
    simp only [reduceCtorEq, false_iff]
    rintro ⟨h1, h2⟩
    simp [h1, h2] at h
  · rename_i h
    simp only [Bool.or_eq_true, not_or, Bool.not_eq_true, isEmpty_false_iff] at h
    obtain ⟨⟨⟨h1, h2⟩, h3⟩, h4⟩ := h
    simp only [true_iff]
    refine ⟨h1, ?_⟩
    cases hl : levelDiff leafFlag a.subs b.subs
    simp_all

theorem rep_svcDiff (a b : Svc V) :
    rep (svcDiff a b) =
      { addedIfs := (levelDiff ifaceFlag a.ifs b.ifs).added, removedIfs := (levelDiff ifaceFlag a.ifs b.ifs).removed,
        modSvcs := selfMod a.name a.props b.props, modIfs := (levelDiff ifaceFlag a.ifs b.ifs).modified } := by
  dsimp only [svcDiff, rep]
  split
  · rfl
  · rename_i h
    simp only [Bool.or_eq_true, not_or, Bool.not_eq_true, isEmpty_false_iff] at h
    obtain ⟨⟨⟨h1, h2⟩, h3⟩, h4⟩ := h
    simp [h1, h2, h3, h4]

theorem svcDiff_eq_none_iff (a b : Svc V) :
    svcDiff a b = none ↔ selfMod a.name a.props b.props = [] ∧ levelDiff ifaceFlag a.ifs b.ifs = {} := by
  dsimp only [svcDiff]
  split
  · rename_i h
    simp only [reduceCtorEq, false_iff]
    rintro ⟨h1, h2⟩
    simp [h1, h2] at h
  · rename_i h
    simp only [Bool.or_eq_true, not_or, Bool.not_eq_true, isEmpty_false_iff] at h
    obtain ⟨⟨⟨h1, h2⟩, h3⟩, h4⟩ := h
    simp only [true_iff]
    refine ⟨h1, ?_⟩
    cases hl : levelDiff ifaceFlag a.ifs b.ifs
    simp_all


/-! ### a level reports nothing iff the dictionaries agree -/

section
variable {α : Type} [Named α]

theorem level_eq_empty_iff (flag : α → α → Flags) (a b : Option (List α)) (ha : WfDict (dictOf a)) :
    levelDiff flag a b = {} ↔
      (∀ k, hasKey (dictOf a) k = hasKey (dictOf b) k) ∧
      (∀ k x y, get? (dictOf a) k = some x → get? (dictOf b) k = some y → flag x y = Flags.none) := by
  constructor
  · intro h
    have hadd := mem_level_added flag a b
    have hrem := mem_level_removed flag a b
    have hmod := mem_level_modified flag a b ha
    rw [h] at hadd hrem hmod
    refine ⟨fun k => ?_, fun k x y hx hy => ?_⟩
    · have h1 := hadd k; have h2 := hrem k
      simp only [List.not_mem_nil, false_iff, not_and, Bool.not_eq_false] at h1 h2
      cases hA : hasKey (dictOf a) k <;> cases hB : hasKey (dictOf b) k <;> simp_all
    · have h3 := hmod k (flag x y)
      simp only [List.not_mem_nil, false_iff, not_exists, not_and] at h3
      exact Classical.not_not.mp (h3 x y hx hy rfl)
  · rintro ⟨hk, hf⟩
    cases hl : levelDiff flag a b with
    | mk ad rm md =>
      have e1 : ad = [] := by
        apply List.eq_nil_iff_forall_not_mem.2; intro k hk'
        have := (mem_level_added flag a b k).1 (by rw [hl]; exact hk')
        rw [hk k] at this; simp_all
      have e2 : rm = [] := by
        apply List.eq_nil_iff_forall_not_mem.2; intro k hk'
        have := (mem_level_removed flag a b k).1 (by rw [hl]; exact hk')
        rw [hk k] at this; simp_all
      have e3 : md = [] := by
        apply List.eq_nil_iff_forall_not_mem.2; rintro ⟨k, f⟩ hk'
        obtain ⟨x, y, hx, hy, hfl, hn⟩ := (mem_level_modified flag a b ha k f).1 (by rw [hl]; exact hk')
        exact hn (hfl ▸ hf k x y hx hy)
      rw [e1, e2, e3]

/-- the loop with a flag that cannot raise is the pure loop -/
theorem modLoopM_ok (flag : α → α → Except String Flags) (g : α → α → Flags) (b l : List α)
    (h : ∀ x ∈ l, ∀ y, get? b (name x) = some y → flag x y = .ok (g x y)) :
    modLoopM flag b l = .ok (modLoop g b l) := by
  induction l with
  | nil => rfl
  | cons x xs ih =>
    have ih' := ih (fun z hz => h z (List.mem_cons_of_mem _ hz))
    simp only [modLoopM, modLoop]
    cases hg : get? b (name x) with
    | none => simpa using ih'
    | some y =>
      simp only [h x List.mem_cons_self y hg, ih']

/-- the loop succeeds only if every flag computation it performs succeeds -/
theorem modLoopM_ok_inv (flag : α → α → Except String Flags) (b l : List α) (r : List (String × Flags))
    (h : modLoopM flag b l = .ok r) : ∀ x ∈ l, ∀ y, get? b (name x) = some y → ∃ f, flag x y = .ok f := by
  induction l generalizing r with
  | nil => simp
  | cons x xs ih =>
    simp only [modLoopM] at h
    intro z hz y hy
    cases hg : get? b (name x) with
    | none =>
      simp only [hg] at h
      rcases List.mem_cons.mp hz with rfl | hz'
      · rw [hg] at hy; cases hy
      · exact ih r h z hz' y hy
    | some y0 =>
      simp only [hg] at h
      cases hf : flag x y0 with
      | error e => simp [hf] at h
      | ok f0 =>
        simp only [hf] at h
        cases hr : modLoopM flag b xs with
        | error e => simp [hr] at h
        | ok r0 =>
          rcases List.mem_cons.mp hz with rfl | hz'
          · rw [hg] at hy; cases hy; exact ⟨f0, hf⟩
          · exact ih r0 hr z hz' y hy

end

/-! ### InterfaceSliver.diff -/

theorem leafFlag_self (x : Leaf V) : leafFlag x x = Flags.none := propDiff_self _

theorem ifaceDiff_self (i : Iface V) (h : i.Wf) : ifaceDiff i i = none := by
  rw [ifaceDiff_eq_none_iff]
  exact ⟨(selfMod_eq_nil_iff _ _ _).2 rfl, level_self leafFlag _ h (fun x _ => leafFlag_self x)⟩

/-- the sub-interface dictionaries of two interfaces differ (as `InterfaceSliver.diff` sees them) -/
def subsChanged (x y : Iface V) : Bool :=
  !(levelDiff leafFlag x.subs y.subs).added.isEmpty || !(levelDiff leafFlag x.subs y.subs).removed.isEmpty ||
    !(levelDiff leafFlag x.subs y.subs).modified.isEmpty

theorem subsChanged_eq_false_iff (x y : Iface V) : subsChanged x y = false ↔ levelDiff leafFlag x.subs y.subs = {} := by
  unfold subsChanged
  cases hl : levelDiff leafFlag x.subs y.subs with
  | mk ad rm md => cases ad <;> cases rm <;> cases md <;> simp

theorem ifaceFlag_eq (x y : Iface V) :
    ifaceFlag x y = { propDiff x.props y.props with sub := x.dedicated && subsChanged x y } := by
  dsimp only [ifaceFlag]
  cases hd : x.dedicated
  · rfl
  · simp only [if_true, Bool.true_and]
    cases h : ifaceDiff x y with
    | none =>
      have := ((ifaceDiff_eq_none_iff x y).1 h).2
      rw [(subsChanged_eq_false_iff x y).2 this]
      rfl
    | some d =>
      have hr : d = rep (ifaceDiff x y) := by rw [h]; rfl
      rw [rep_ifaceDiff] at hr
      subst hr
      dsimp only [subsChanged]
      split
      · rename_i hc; rw [hc]
      · rename_i hc; simp only [Bool.not_eq_true] at hc; rw [hc]; rfl

theorem ifaceFlag_self (x : Iface V) (h : x.Wf) : ifaceFlag x x = Flags.none := by
  rw [ifaceFlag_eq, propDiff_self]
  have : subsChanged x x = false :=
    (subsChanged_eq_false_iff x x).2 (level_self leafFlag _ h (fun z _ => leafFlag_self z))
  simp [this, Flags.none]

theorem ifaceFlag_eq_none_iff (x y : Iface V) :
    ifaceFlag x y = Flags.none ↔ x.props = y.props ∧ (x.dedicated = true → levelDiff leafFlag x.subs y.subs = {}) := by
  rw [ifaceFlag_eq, ← subsChanged_eq_false_iff, ← propDiff_eq_none_iff]
  simp only [propDiff, Flags.none, Flags.mk.injEq]
  cases x.dedicated <;> cases subsChanged x y <;> simp

/-! ### NetworkServiceSliver.diff -/

theorem svcDiff_self (s : Svc V) (h : s.Wf) : svcDiff s s = none := by
  rw [svcDiff_eq_none_iff]
  exact ⟨(selfMod_eq_nil_iff _ _ _).2 rfl, level_self ifaceFlag _ h.1 (fun x hx => ifaceFlag_self x (h.2 x hx))⟩

/-! ### NodeSliver.diff -/

omit [DecidableEq V] in
theorem firstSvc_eq (c : Comp V) :
    firstSvc c = match (dictOf c.svcs).head? with
      | some s => .ok s
      | none => .error (if c.svcs.isSome then "index" else "attribute") := by
  unfold firstSvc dictOf
  cases c.svcs with
  | none => rfl
  | some l => cases l <;> rfl

/-- the component flag when nothing raises -/
def compFlagP (x y : Comp V) : Flags :=
  { propDiff x.props y.props with
    sub := x.smart && (match (dictOf x.svcs).head?, (dictOf y.svcs).head? with
      | some sx, some sy => (svcDiff sx sy).isSome
      | _, _ => false) }

/-- the SmartNIC descent of `NodeSliver.diff` finds a first service on both sides -/
def CompOk (x y : Comp V) : Prop := x.smart = true → dictOf x.svcs ≠ [] ∧ dictOf y.svcs ≠ []

instance (x y : Comp V) : Decidable (CompOk x y) := by unfold CompOk; infer_instance

theorem compFlag_ok_iff (x y : Comp V) : (∃ f, compFlag x y = .ok f) ↔ CompOk x y := by
  dsimp only [compFlag, CompOk]
  rw [firstSvc_eq, firstSvc_eq]
  cases x.smart
  · simp
  · cases hx : (dictOf x.svcs).head? with
    | none => simp [List.head?_eq_none_iff.1 hx]
    | some sx =>
      have h1 : dictOf x.svcs ≠ [] := by intro e; rw [e] at hx; cases hx
      cases hy : (dictOf y.svcs).head? with
      | none => simp [List.head?_eq_none_iff.1 hy]
      | some sy =>
        have h2 : dictOf y.svcs ≠ [] := by intro e; rw [e] at hy; cases hy
        simp [h1, h2]

theorem compFlag_ok (x y : Comp V) (h : CompOk x y) : compFlag x y = .ok (compFlagP x y) := by
  dsimp only [compFlag, compFlagP, CompOk] at *
  rw [firstSvc_eq, firstSvc_eq]
  cases hs : x.smart
  · rfl
  · obtain ⟨h1, h2⟩ := h hs
    cases hx : (dictOf x.svcs).head? with
    | none => exact absurd (List.head?_eq_none_iff.1 hx) h1
    | some sx =>
      cases hy : (dictOf y.svcs).head? with
      | none => exact absurd (List.head?_eq_none_iff.1 hy) h2
      | some sy =>
        simp only [if_true, Bool.true_and]
        cases hd : (svcDiff sx sy).isSome
        · rfl
        · rfl

theorem compFlagP_self (x : Comp V) (h : x.Wf) : compFlagP x x = Flags.none := by
  dsimp only [compFlagP]
  rw [propDiff_self]
  cases hx : (dictOf x.svcs).head? with
  | none => simp [Flags.none]
  | some sx =>
    have : svcDiff sx sx = none := svcDiff_self sx (h sx (by rw [hx]; rfl))
    simp [this, Flags.none]

theorem svcPropFlag_self (x : Svc V) : svcPropFlag x x = Flags.none := propDiff_self _

/-- `NodeSliver.diff a b` does not raise: every SmartNIC of `a` that is also in `b` has a first service on both sides -/
def PairOk (a b : Node V) : Prop :=
  ∀ x ∈ dictOf a.comps, ∀ y ∈ get? (dictOf b.comps) x.name, CompOk x y

instance (a b : Node V) : Decidable (PairOk a b) := by unfold PairOk; infer_instance

section
variable {α : Type} [Named α]

theorem levelDiffM_ok (flag : α → α → Except String Flags) (g : α → α → Flags) (a b : Option (List α))
    (h : ∀ x ∈ dictOf a, ∀ y, get? (dictOf b) (name x) = some y → flag x y = .ok (g x y)) :
    levelDiffM flag a b = .ok (levelDiff g a b) := by
  cases a with
  | none => cases b <;> rfl
  | some x =>
    cases b with
    | none => rfl
    | some y =>
      simp only [levelDiffM, levelDiff]
      rw [modLoopM_ok flag g y (dictCommon x y) (fun z hz => h z ((mem_dictCommon x y z).1 hz).1)]

theorem levelDiffM_ok_inv (flag : α → α → Except String Flags) (a b : Option (List α)) (r : Level)
    (h : levelDiffM flag a b = .ok r) :
    ∀ x ∈ dictOf a, ∀ y, get? (dictOf b) (name x) = some y → ∃ f, flag x y = .ok f := by
  cases a with
  | none => intro x hx; simp [dictOf] at hx
  | some xs =>
    cases b with
    | none => intro x _ y hy; simp [dictOf, get?] at hy
    | some ys =>
      simp only [levelDiffM] at h
      cases hm : modLoopM flag ys (dictCommon xs ys) with
      | error e => simp [hm] at h
      | ok m =>
        intro x hx y hy
        refine modLoopM_ok_inv flag ys _ m hm x ((mem_dictCommon xs ys x).2 ⟨hx, ?_⟩) y hy
        rw [hasKey_iff_get?]; simp only [dictOf, Option.getD_some] at hy; rw [hy]; rfl

end

/-- `NodeSliver.diff` when nothing raises -/
def nodeDiffP (a b : Node V) : Option TDiff :=
  let sm := selfMod a.name a.props b.props
  let cl := levelDiff compFlagP a.comps b.comps
  let sl := levelDiff svcPropFlag a.svcs b.svcs
  if !cl.added.isEmpty || !cl.removed.isEmpty || !sl.removed.isEmpty || !sl.added.isEmpty ||
     !cl.modified.isEmpty || !sl.modified.isEmpty || !sm.isEmpty then
    some { addedComps := cl.added, addedSvcs := sl.added, removedComps := cl.removed, removedSvcs := sl.removed,
           modNodes := sm, modComps := cl.modified, modSvcs := sl.modified }
  else none

theorem nodeDiff_ok (a b : Node V) (h : PairOk a b) : nodeDiff a b = .ok (nodeDiffP a b) := by
  dsimp only [nodeDiff, nodeDiffP]
  rw [levelDiffM_ok compFlag compFlagP a.comps b.comps
    (fun x hx y hy => compFlag_ok x y (h x hx y (by simpa [Named.name] using hy)))]
  dsimp only
  split <;> rfl

theorem nodeDiff_ok_iff (a b : Node V) : (∃ r, nodeDiff a b = .ok r) ↔ PairOk a b := by
  constructor
  · rintro ⟨r, hr⟩
    dsimp only [nodeDiff] at hr
    cases hl : levelDiffM compFlag a.comps b.comps with
    | error e => simp [hl] at hr
    | ok cl =>
      intro x hx y hy
      exact (compFlag_ok_iff x y).1 (levelDiffM_ok_inv compFlag a.comps b.comps cl hl x hx y (by simpa [Named.name] using hy))
  · intro h; exact ⟨_, nodeDiff_ok a b h⟩

theorem rep_nodeDiffP (a b : Node V) :
    rep (nodeDiffP a b) =
      { addedComps := (levelDiff compFlagP a.comps b.comps).added, addedSvcs := (levelDiff svcPropFlag a.svcs b.svcs).added,
        removedComps := (levelDiff compFlagP a.comps b.comps).removed,
        removedSvcs := (levelDiff svcPropFlag a.svcs b.svcs).removed,
        modNodes := selfMod a.name a.props b.props, modComps := (levelDiff compFlagP a.comps b.comps).modified,
        modSvcs := (levelDiff svcPropFlag a.svcs b.svcs).modified } := by
  dsimp only [nodeDiffP, rep]
  split
  · rfl
  · rename_i h
    simp only [Bool.or_eq_true, not_or, Bool.not_eq_true, isEmpty_false_iff] at h
    obtain ⟨⟨⟨⟨⟨⟨h1, h2⟩, h3⟩, h4⟩, h5⟩, h6⟩, h7⟩ := h
    simp [h1, h2, h3, h4, h5, h6, h7]

theorem nodeDiffP_eq_none_iff (a b : Node V) :
    nodeDiffP a b = none ↔ selfMod a.name a.props b.props = [] ∧ levelDiff compFlagP a.comps b.comps = {} ∧
      levelDiff svcPropFlag a.svcs b.svcs = {} := by
  dsimp only [nodeDiffP]
  split
  · rename_i h
    simp only [reduceCtorEq, false_iff]
    rintro ⟨h1, h2, h3⟩
    simp [h1, h2, h3] at h
  · rename_i h
    simp only [Bool.or_eq_true, not_or, Bool.not_eq_true, isEmpty_false_iff] at h
    obtain ⟨⟨⟨⟨⟨⟨h1, h2⟩, h3⟩, h4⟩, h5⟩, h6⟩, h7⟩ := h
    simp only [true_iff]
    refine ⟨h7, ?_, ?_⟩
    · cases hl : levelDiff compFlagP a.comps b.comps; simp_all
    · cases hl : levelDiff svcPropFlag a.svcs b.svcs; simp_all


/-! ### "nothing observable differs" -/

section
variable {α : Type} [Named α]

/-- two dictionaries have the same keys and `same` holds of the two values under every common key -/
def SameDict (same : α → α → Prop) (a b : Option (List α)) : Prop :=
  (∀ k, hasKey (dictOf a) k = hasKey (dictOf b) k) ∧
  (∀ k u v, get? (dictOf a) k = some u → get? (dictOf b) k = some v → same u v)

theorem level_eq_empty_iff_same (flag : α → α → Flags) (same : α → α → Prop) (a b : Option (List α))
    (ha : WfDict (dictOf a))
    (hf : ∀ k u v, get? (dictOf a) k = some u → get? (dictOf b) k = some v → (flag u v = Flags.none ↔ same u v)) :
    levelDiff flag a b = {} ↔ SameDict same a b := by
  rw [level_eq_empty_iff flag a b ha]
  unfold SameDict
  constructor
  · rintro ⟨h1, h2⟩
    exact ⟨h1, fun k u v hu hv => (hf k u v hu hv).1 (h2 k u v hu hv)⟩
  · rintro ⟨h1, h2⟩
    exact ⟨h1, fun k u v hu hv => (hf k u v hu hv).2 (h2 k u v hu hv)⟩

end

/-- sub-interfaces: the tracked properties agree -/
def Leaf.Same (u v : Leaf V) : Prop := u.props = v.props
/-- two interfaces as `InterfaceSliver.diff` sees them -/
def Iface.Same (x y : Iface V) : Prop := x.props = y.props ∧ SameDict Leaf.Same x.subs y.subs
/-- two interfaces as `NetworkServiceSliver.diff` sees them (sub-interfaces only below a dedicated port) -/
def Iface.SameIn (x y : Iface V) : Prop := x.props = y.props ∧ (x.dedicated = true → SameDict Leaf.Same x.subs y.subs)
/-- two services as `NetworkServiceSliver.diff` sees them -/
def Svc.Same (a b : Svc V) : Prop := a.props = b.props ∧ SameDict Iface.SameIn a.ifs b.ifs
/-- two components as `NodeSliver.diff` sees them (below a SmartNIC: the first service of each) -/
def Comp.SameIn (x y : Comp V) : Prop :=
  x.props = y.props ∧ (x.smart = true → ∀ sx ∈ (dictOf x.svcs).head?, ∀ sy ∈ (dictOf y.svcs).head?, Svc.Same sx sy)
/-- two nodes as `NodeSliver.diff` sees them (node-level services: tracked properties only) -/
def Node.Same (a b : Node V) : Prop :=
  a.props = b.props ∧ SameDict Comp.SameIn a.comps b.comps ∧ SameDict (fun u v : Svc V => u.props = v.props) a.svcs b.svcs

theorem subs_level_empty_iff (x y : Iface V) (hx : x.Wf) :
    levelDiff leafFlag x.subs y.subs = {} ↔ SameDict Leaf.Same x.subs y.subs :=
  level_eq_empty_iff_same leafFlag Leaf.Same _ _ hx (fun _ u v _ _ => propDiff_eq_none_iff u.props v.props)

theorem ifaceDiff_none_iff_same (a b : Iface V) (ha : a.Wf) : ifaceDiff a b = none ↔ Iface.Same a b := by
  rw [ifaceDiff_eq_none_iff, selfMod_eq_nil_iff, subs_level_empty_iff a b ha]; rfl

theorem ifaceFlag_none_iff_sameIn (x y : Iface V) (hx : x.Wf) : ifaceFlag x y = Flags.none ↔ Iface.SameIn x y := by
  rw [ifaceFlag_eq_none_iff, subs_level_empty_iff x y hx]; rfl

theorem svcDiff_none_iff_same (a b : Svc V) (ha : a.Wf) : svcDiff a b = none ↔ Svc.Same a b := by
  rw [svcDiff_eq_none_iff, selfMod_eq_nil_iff,
    level_eq_empty_iff_same ifaceFlag Iface.SameIn _ _ ha.1 (fun _ u v hu _ => ifaceFlag_none_iff_sameIn u v (ha.2 u (get?_some_mem hu).1))]
  rfl

theorem compFlagP_none_iff_sameIn (x y : Comp V) (hx : x.Wf) (hok : CompOk x y) :
    compFlagP x y = Flags.none ↔ Comp.SameIn x y := by
  dsimp only [compFlagP, Comp.SameIn]
  rw [← propDiff_eq_none_iff]
  simp only [propDiff, Flags.none, Flags.mk.injEq]
  cases hs : x.smart
  · simp
  · obtain ⟨h1, h2⟩ := hok hs
    cases hhx : (dictOf x.svcs).head? with
    | none => exact absurd (List.head?_eq_none_iff.1 hhx) h1
    | some sx =>
      cases hhy : (dictOf y.svcs).head? with
      | none => exact absurd (List.head?_eq_none_iff.1 hhy) h2
      | some sy =>
        have hw : sx.Wf := hx sx (by rw [hhx]; rfl)
        have := svcDiff_none_iff_same sx sy hw
        simp only [Bool.true_and, Option.mem_def, Option.some.injEq, forall_eq', true_implies]
        rw [← this]
        cases svcDiff sx sy <;> simp

theorem nodeDiffP_none_iff_same (a b : Node V) (ha : a.Wf) (hok : PairOk a b) : nodeDiffP a b = none ↔ Node.Same a b := by
  rw [nodeDiffP_eq_none_iff, selfMod_eq_nil_iff,
    level_eq_empty_iff_same compFlagP Comp.SameIn _ _ ha.1 ?_,
    level_eq_empty_iff_same svcPropFlag (fun u v : Svc V => u.props = v.props) _ _ ha.2.1
      (fun _ u v _ _ => propDiff_eq_none_iff u.props v.props)]
  · rfl
  · intro k u v hu hv
    obtain ⟨hum, rfl⟩ := get?_some_mem hu
    exact compFlagP_none_iff_sameIn u v (ha.2.2 u hum) (hok u hum v hv)

end FimVerif.Diff
