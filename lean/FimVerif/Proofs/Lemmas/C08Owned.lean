import FimVerif.Proofs.Lemmas.C08Api
import FimVerif.Proofs.Lemmas.C08Spec
/-! The closed forms of the removal functions against the declarative ownership relations `OwnedG` / `Owned`,
under the decidable containment invariant. -/
namespace FimVerif.Remove

theorem Below.trans {g : G} {x a y : Nat} (h1 : Below g x a) (h2 : Below g a y) : Below g x y := by
  induction h2 with
  | refl => exact h1
  | step _ hb ih => exact Below.step ih hb

/-- unfolding at the root -/
theorem below_iff (g : G) (x y : Nat) : Below g x y ↔ y = x ∨ ∃ a ∈ children g x, Below g a y := by
  constructor
  · intro h
    induction h with
    | refl => exact Or.inl rfl
    | @step a b _ hb ih =>
      rcases ih with rfl | ⟨c, hc, hca⟩
      · exact Or.inr ⟨b, hb, Below.refl⟩
      · exact Or.inr ⟨c, hc, Below.step hca hb⟩
  · rintro (rfl | ⟨a, ha, h⟩)
    · exact Below.refl
    · exact (Below.step Below.refl ha).trans h

/-- any "some element below `x` satisfies `P`" unfolds at the root -/
theorem exists_below_iff (g : G) (x : Nat) (P : Nat → Prop) :
    (∃ i, Below g x i ∧ P i) ↔ P x ∨ ∃ a ∈ children g x, ∃ i, Below g a i ∧ P i := by
  constructor
  · rintro ⟨i, hi, hp⟩
    rcases (below_iff g x i).mp hi with rfl | ⟨a, ha, h⟩
    · exact Or.inl hp
    · exact Or.inr ⟨a, ha, i, h, hp⟩
  · rintro (hp | ⟨a, ha, i, h, hp⟩)
    · exact ⟨x, Below.refl, hp⟩
    · exact ⟨i, (below_iff g x i).mpr (Or.inr ⟨a, ha, h⟩), hp⟩

theorem ownedG_iff (g : G) (x y : Nat) :
    OwnedG g x y ↔ (y = x ∨ LinkOf g x y) ∨ ∃ a ∈ children g x, OwnedG g a y :=
  exists_below_iff g x (fun i => y = i ∨ LinkOf g i y)

theorem owned_iff (g : G) (x y : Nat) :
    Owned g x y ↔ (y = x ∨ LinkOf g x y ∨ PortOf g x y) ∨ ∃ a ∈ children g x, Owned g a y :=
  exists_below_iff g x (fun i => y = i ∨ LinkOf g i y ∨ PortOf g i y)

theorem ownedG_leaf (g : G) (x y : Nat) (h : children g x = []) : OwnedG g x y ↔ y = x ∨ LinkOf g x y := by
  rw [ownedG_iff, h]; simp

theorem other_rel {e : Edge} {x : Nat} {r : Rel} {y : Nat} (h : e.other x r = some y) : e.rel = r := by
  unfold Edge.other at h
  split at h
  · assumption
  · cases h

/-- neighbourhood is symmetric -/
theorem nbrs_symm (g : G) (x y : Nat) (r : Rel) (c c' : Cls) (h : y ∈ g.nbrs x r c) (hx : g.cls? x = some c') :
    x ∈ g.nbrs y r c' := by
  unfold G.nbrs at h ⊢
  simp only [List.mem_filter, List.mem_filterMap] at h ⊢
  obtain ⟨⟨e, he, ho⟩, _⟩ := h
  refine ⟨⟨e, he, ?_⟩, by simp [hx]⟩
  have hr := other_rel ho
  rcases other_eq_some ho with ⟨ha, hb⟩ | ⟨hb, ha⟩
  · unfold Edge.other; simp only [hr, ite_true]
    by_cases hxy : e.a = y
    · have : x = y := ha.symm.trans hxy
      simp [hxy, hb, this]
    · simp [hb, ha]; exact fun h => h.symm
  · unfold Edge.other; simp [hr, ha, hb]

/-- **containment invariant for connection points** (decidable): a connection point attached to a network service
has only sub-interfaces as connection-point neighbours, each of them attached to nothing else (no service, one
connection-point neighbour), and it is a DedicatedPort if it has any -/
def InvCP (g : G) : Bool :=
  g.nodes.all (fun n => n.cls != .cp || isSub g n.id ||
    ((g.nbrs n.id .connects .cp).all (fun p => isSub g p && (g.nbrs p .connects .cp).length == 1) &&
     ((g.nbrs n.id .connects .cp).isEmpty || n.kind == kDedicatedPort)))

theorem find_some {g : G} {x : Nat} {n : Elem} (h : g.find x = some n) : n ∈ g.nodes ∧ n.id = x := by
  unfold G.find at h
  exact ⟨List.mem_of_find?_eq_some h, by simpa using List.find?_some h⟩

theorem invCP_at {g : G} (hI : InvCP g = true) {i : Nat} (hc : g.cls? i = some .cp) (hs : isSub g i = false) :
    (∀ p ∈ g.nbrs i .connects .cp, isSub g p = true ∧ (g.nbrs p .connects .cp).length = 1) ∧
    (g.nbrs i .connects .cp = [] ∨ g.kind? i = some kDedicatedPort) := by
  unfold G.cls? at hc
  cases hf : g.find i with
  | none => simp [hf] at hc
  | some n =>
    obtain ⟨hn, hid⟩ := find_some hf
    simp only [hf, Option.map_some, Option.some.injEq] at hc
    have := List.all_eq_true.mp hI n hn
    simp only [hid, hc, hs, bne_self_eq_false, Bool.false_or, Bool.and_eq_true, Bool.or_eq_true,
      List.isEmpty_iff, beq_iff_eq] at this
    refine ⟨fun p hp => ?_, ?_⟩
    · have := List.all_eq_true.mp this.1 p hp
      simpa using this
    · rcases this.2 with h | h
      · exact Or.inl h
      · exact Or.inr (by simp [G.kind?, hf, h])

theorem children_cp_sub (g : G) (p : Nat) (hc : g.cls? p = some .cp) (hs : isSub g p = true) : children g p = [] := by
  simp [children, hc, hs]

theorem children_cp_top (g : G) (hI : InvCP g = true) (i : Nat) (hc : g.cls? i = some .cp) (hs : isSub g i = false) :
    children g i = g.nbrs i .connects .cp := by
  simp only [children, hc, hs]
  apply filter_eq_self_of_all
  apply List.all_eq_true.mpr
  intro p hp; exact ((invCP_at hI hc hs).1 p hp).1

/-- **T1**: for an interface attached to a service, `remove_cp_and_links(i, True)` deletes exactly `OwnedG g i`. -/
theorem mem_cpDel_iff_ownedG (g : G) (hI : InvCP g = true) (i : Nat) (hc : g.cls? i = some .cp) (hs : isSub g i = false) (y : Nat) :
    y ∈ cpDel g i true ↔ OwnedG g i y := by
  have hinv := (invCP_at hI hc hs).1
  rw [ownedG_iff, children_cp_top g hI i hc hs]
  have hleaf : ∀ p ∈ g.nbrs i .connects .cp, (OwnedG g p y ↔ y = p ∨ LinkOf g p y) := fun p hp =>
    ownedG_leaf g p y (children_cp_sub g p (mem_nbrs_cls _ _ _ _ _ hp) (hinv p hp).1)
  simp only [cpDel, mem_dedup, List.mem_append, cpFamily, cpLinks, List.mem_cons, List.mem_filter,
    List.mem_flatMap, Bool.and_eq_true, beq_iff_eq, LinkOf]
  constructor
  · rintro ((rfl | ⟨hy, _⟩) | ⟨f, (rfl | ⟨hf, _⟩), hl, h2⟩)
    · exact Or.inl (Or.inl rfl)
    · exact Or.inr ⟨y, hy, (hleaf y hy).mpr (Or.inl rfl)⟩
    · exact Or.inl (Or.inr ⟨hc, hl, h2⟩)
    · exact Or.inr ⟨f, hf, (hleaf f hf).mpr (Or.inr ⟨mem_nbrs_cls _ _ _ _ _ hf, hl, h2⟩)⟩
  · rintro ((rfl | ⟨_, hl, h2⟩) | ⟨p, hp, ho⟩)
    · exact Or.inl (Or.inl rfl)
    · exact Or.inr ⟨i, Or.inl rfl, hl, h2⟩
    · rcases (hleaf p hp).mp ho with rfl | ⟨_, hl, h2⟩
      · exact Or.inl (Or.inr ⟨hp, (hinv y hp).2, trivial⟩)
      · exact Or.inr ⟨p, Or.inr ⟨hp, (hinv p hp).2, trivial⟩, hl, h2⟩

/-- for a sub-interface, `remove_cp_and_links(c, False)` (remove_child_interface) deletes exactly `OwnedG g c` -/
theorem mem_cpDel_false_iff_ownedG (g : G) (c : Nat) (hc : g.cls? c = some .cp) (hs : isSub g c = true) (y : Nat) :
    y ∈ cpDel g c false ↔ OwnedG g c y := by
  rw [ownedG_leaf g c y (children_cp_sub g c hc hs)]
  simp only [cpDel, mem_dedup, List.mem_append, cpFamily, cpLinks, List.mem_cons, List.mem_filter,
    List.mem_flatMap, beq_iff_eq, LinkOf, Bool.and_false, Bool.false_eq_true, and_false, or_false]
  constructor
  · rintro (rfl | ⟨f, rfl, hl, h2⟩)
    · exact Or.inl rfl
    · exact Or.inr ⟨hc, hl, h2⟩
  · rintro (rfl | ⟨_, hl, h2⟩)
    · exact Or.inl rfl
    · exact Or.inr ⟨c, rfl, hl, h2⟩

theorem not_linkOf_of_cls (g : G) (x y : Nat) (c : Cls) (hc : g.cls? x = some c) (hne : c ≠ .cp) : ¬ LinkOf g x y := by
  rintro ⟨h, _⟩; rw [hc] at h; exact hne (Option.some.inj h)

/-- **T2**: `remove_ns_with_cps_and_links(s)` deletes exactly `OwnedG g s`. -/
theorem mem_nsDel_iff_ownedG (g : G) (hI : InvCP g = true) (s : Nat) (hc : g.cls? s = some .ns) (y : Nat) :
    y ∈ nsDel g s ↔ OwnedG g s y := by
  rw [ownedG_iff]
  have hch : children g s = g.nbrs s .connects .cp := by simp [children, hc]
  rw [hch]
  have hnl := not_linkOf_of_cls g s y .ns hc (by decide)
  have htop : ∀ i ∈ g.nbrs s .connects .cp, (y ∈ cpDel g i true ↔ OwnedG g i y) := by
    intro i hi
    have hs : isSub g i = false := by
      have := nbrs_symm g s i _ _ _ hi hc
      simp only [isSub, List.isEmpty_eq_false_iff]
      exact List.ne_nil_of_mem this
    exact mem_cpDel_iff_ownedG g hI i (mem_nbrs_cls _ _ _ _ _ hi) hs y
  simp only [nsDel, List.mem_cons, List.mem_flatMap]
  constructor
  · rintro (rfl | ⟨i, hi, h⟩)
    · exact Or.inl (Or.inl rfl)
    · exact Or.inr ⟨i, hi, (htop i hi).mp h⟩
  · rintro ((rfl | h) | ⟨i, hi, h⟩)
    · exact Or.inl rfl
    · exact absurd h hnl
    · exact Or.inr ⟨i, hi, (htop i hi).mpr h⟩

/-- **T3**: `remove_component_with_nss_cps_and_links(c)` deletes exactly `OwnedG g c`. -/
theorem mem_compDel_iff_ownedG (g : G) (hI : InvCP g = true) (c : Nat) (hc : g.cls? c = some .comp) (y : Nat) :
    y ∈ compDel g c ↔ OwnedG g c y := by
  rw [ownedG_iff]
  have hch : children g c = g.nbrs c .has .ns := by simp [children, hc]
  rw [hch]
  have hnl := not_linkOf_of_cls g c y .comp hc (by decide)
  have hns : ∀ s ∈ g.nbrs c .has .ns, (y ∈ nsDel g s ↔ OwnedG g s y) := fun s hs =>
    mem_nsDel_iff_ownedG g hI s (mem_nbrs_cls _ _ _ _ _ hs) y
  simp only [compDel, List.mem_cons, List.mem_flatMap]
  constructor
  · rintro (rfl | ⟨s, hs, h⟩)
    · exact Or.inl (Or.inl rfl)
    · exact Or.inr ⟨s, hs, (hns s hs).mp h⟩
  · rintro ((rfl | h) | ⟨s, hs, h⟩)
    · exact Or.inl rfl
    · exact absurd h hnl
    · exact Or.inr ⟨s, hs, (hns s hs).mpr h⟩

/-- **T4**: `remove_network_node_with_components_nss_cps_and_links(n)` deletes exactly `OwnedG g n`. -/
theorem mem_nodeDel_iff_ownedG (g : G) (hI : InvCP g = true) (n : Nat) (hc : g.cls? n = some .node) (y : Nat) :
    y ∈ nodeDel g n ↔ OwnedG g n y := by
  rw [ownedG_iff]
  have hch : children g n = g.nbrs n .has .comp ++ g.nbrs n .has .ns := by simp [children, hc]
  rw [hch]
  have hnl := not_linkOf_of_cls g n y .node hc (by decide)
  have hns : ∀ s ∈ g.nbrs n .has .ns, (y ∈ nsDel g s ↔ OwnedG g s y) := fun s hs =>
    mem_nsDel_iff_ownedG g hI s (mem_nbrs_cls _ _ _ _ _ hs) y
  have hcs : ∀ c ∈ g.nbrs n .has .comp, (y ∈ compDel g c ↔ OwnedG g c y) := fun c hc' =>
    mem_compDel_iff_ownedG g hI c (mem_nbrs_cls _ _ _ _ _ hc') y
  simp only [nodeDel, List.mem_append, List.mem_cons, List.mem_flatMap]
  constructor
  · rintro (⟨c, hc', h⟩ | rfl | ⟨s, hs, h⟩)
    · exact Or.inr ⟨c, Or.inl hc', (hcs c hc').mp h⟩
    · exact Or.inl (Or.inl rfl)
    · exact Or.inr ⟨s, Or.inr hs, (hns s hs).mp h⟩
  · rintro ((rfl | h) | ⟨a, (ha | ha), h⟩)
    · exact Or.inr (Or.inl rfl)
    · exact absurd h hnl
    · exact Or.inl ⟨a, ha, (hcs a ha).mpr h⟩
    · exact Or.inr (Or.inr ⟨a, ha, (hns a ha).mpr h⟩)

end FimVerif.Remove
