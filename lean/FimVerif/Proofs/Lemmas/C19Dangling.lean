/-
Helper lemmas for C19 (round 5): THE DANGLING-COMMA FLAG OF THE LINT'S PASS IS STICKY AND IS SET BY EVERY EMPTY ENTRY.
`scan` never clears `dangling`; a comma followed by a comma / closing bracket / nothing, or an opening bracket followed by a comma,
sets it - at any position of any token list, from any state.  (A map built by joining per-entry fragments of which one is empty.)
-/
import FimVerif.Model.Cypher
namespace FimVerif.Cypher
open FimVerif

theorem flush_dangling (s : St) : s.flush.dangling = s.dangling := by
  unfold St.flush; rfl

theorem close_dangling (s : St) (r : Bool) : (s.close r).dangling = s.dangling := by
  unfold St.close; simp only [flush_dangling]

theorem stepKw_dangling (s : St) (p1 nx : Option Tok) (lw : Codes) : (stepKw s p1 nx lw).dangling = s.dangling := by
  unfold stepKw
  simp only []
  split <;> (try split) <;> (try split) <;> (try split) <;> simp only [close_dangling, flush_dangling]

theorem stepId_dangling (s : St) (p2 p1 : Option Tok) (x : Codes) (rest : List Tok) : (stepId s p2 p1 x rest).dangling = s.dangling := by
  unfold stepId
  simp only []
  split <;> rfl

theorem stepSym_dangling (s : St) (p1 nx : Option Tok) (c : Nat) :
    (stepSym s p1 nx c).dangling = (s.dangling || ((c == cp%',' && commaBad nx) || (isOpener c && isSym nx cp%','))) := by
  unfold stepSym
  simp only []
  split <;> (try split) <;> rfl

theorem step_dangling_mono (s : St) (p2 p1 : Option Tok) (cur : Tok) (rest : List Tok) (h : s.dangling = true) :
    (step s p2 p1 cur rest).dangling = true := by
  unfold step
  split
  · rw [stepKw_dangling]; exact h
  · rw [stepId_dangling]; exact h
  · rw [stepSym_dangling, h]; rfl
  · exact h

theorem finish_dangling (s : St) : s.finish.dangling = s.dangling := by
  unfold St.finish; simp only [close_dangling]

theorem scan_dangling_mono : ∀ (l : List Tok) (p2 p1 : Option Tok) (s : St), s.dangling = true → (scan l p2 p1 s).dangling = true
  | [], _, _, s, h => by unfold scan; rw [finish_dangling]; exact h
  | cur :: rest, p2, p1, s, h => by
    unfold scan
    exact scan_dangling_mono rest p1 (some cur) _ (step_dangling_mono s p2 p1 cur rest h)

/-- a comma followed by a comma, a closing bracket or nothing - an EMPTY ENTRY of a map / list / item list - anywhere in the token
list sets the flag, whatever precedes and follows and in whatever state the pass arrives -/
theorem scan_flags_comma : ∀ (pre : List Tok) (post : List Tok) (p2 p1 : Option Tok) (s : St), commaBad post.head? = true →
    (scan (pre ++ Tok.sym cp%',' :: post) p2 p1 s).dangling = true
  | [], post, p2, p1, s, h => by
    simp only [List.nil_append]
    unfold scan
    apply scan_dangling_mono
    unfold step
    simp only [stepSym_dangling, h]
    simp
  | cur :: pre, post, p2, p1, s, h => by
    simp only [List.cons_append]
    unfold scan
    exact scan_flags_comma pre post p1 (some cur) _ h

/-- an opening bracket directly followed by a comma (`{ , a: 1 }`) sets the flag -/
theorem scan_flags_opener_comma : ∀ (pre : List Tok) (post : List Tok) (c : Nat) (p2 p1 : Option Tok) (s : St), isOpener c = true →
    (scan (pre ++ Tok.sym c :: Tok.sym cp%',' :: post) p2 p1 s).dangling = true
  | [], post, c, p2, p1, s, h => by
    simp only [List.nil_append]
    unfold scan
    apply scan_dangling_mono
    unfold step
    simp only [stepSym_dangling, h, List.head?, isSym]
    simp
  | cur :: pre, post, c, p2, p1, s, h => by
    simp only [List.cons_append]
    unfold scan
    exact scan_flags_opener_comma pre post c p1 (some cur) _ h
end FimVerif.Cypher
