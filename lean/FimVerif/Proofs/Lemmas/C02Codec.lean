import FimVerif.Proofs.C03
import FimVerif.Proofs.C02
import FimVerif.Proofs.Lemmas.C02Rich
/-! Discharging C02's codec hypothesis `FieldLaw` for the `JSONField` classes from C03's round-trip theorem.

C02's theorems are generic in the value model (`Codecs V P`).  A value model *carries* C03's model of a class when its
`to_json` / `from_json` on that class's values are C03's `encode` / `decode` (through an embedding); for such a model
the row law of every well-typed, non-default value of every generated class follows from `C03.lossless`. -/
namespace FimVerif.C02
open FimVerif FimVerif.Sliver FimVerif.Gen.SliverMap FimVerif.Codec

/-- `C` carries C03's model of class `c` under the decoder argument `arg` (the class name in the from-row) -/
structure Carries {V P : Type} (C : Codecs V P) (c : ClassSpec) (valid : String → JVal → Bool) (arg : String) where
  /-- a C03 value as a sliver field value -/
  inj : Codec.Fields → V
  /-- the graph-property value for an encoded text (`none` = the empty text) -/
  txt : Option JVal → P
  enc_eq : ∀ x, C.enc Enc.toJson [inj x] = txt (encode c x)
  dec_eq : ∀ j, C.dec Dec.fromJson arg (txt (some j)) =
    match decode c valid (some j) with
    | .ok o => .ok (o.map inj)
    | .error e => .error e
  norm_eq : ∀ v, C.norm Norm.ident v = .ok v

section
variable {V P : Type}

/-- the row law of a `to_json`/`from_json` row, from C03's `RoundTrips` -/
theorem rowLaw_of_roundTrips (C : Codecs V P) (c : ClassSpec) (valid : String → JVal → Bool) (arg : String)
    (K : Carries C c valid arg) (f : FromRow) (hd : f.dec = Dec.fromJson) (ha : f.arg = arg) (hn : f.norm = Norm.ident)
    (x : Codec.Fields) (hrt : RoundTrips c valid x) (hne : encode c x ≠ none) :
    readVal C f (C.enc Enc.toJson [K.inj x]) = .ok (some (K.inj x)) := by
  cases hj : encode c x with
  | none => exact absurd hj hne
  | some j =>
    unfold readVal
    rw [K.enc_eq, hj, hd, ha, K.dec_eq, hrt.2 j hj]
    simp only [Option.map_some, setRow, hn, K.norm_eq]

/--
**`FieldLaw` for the seven `JSONField` classes** (`Capacities`, `CapacityHints`, `Labels`, `ReservationInfo`,
`StructuralInfo`, `Location`, `Flags` — i.e. the properties capacities, capacity_allocations, capacity_hints, labels,
label_allocations, peer_labels, reservation_info, structural_info, location, flags): for every class spec the C03
translator generates, every value that is well-typed in C03's sense and not all-default obeys the row law.
(An all-default object encodes to the empty text and reads back as `None`: C03's `roundtrip_iff`; the C02 harness
counts such values as `skipped:codec-lossy`.)
-/
theorem rowLaw_jsonfield (C : Codecs V P) (c : ClassSpec) (hc : c ∈ Gen.Fields.all) (valid : String → JVal → Bool)
    (arg : String) (K : Carries C c valid arg) (f : FromRow) (hd : f.dec = Dec.fromJson) (ha : f.arg = arg)
    (hn : f.norm = Norm.ident) (x : Codec.Fields) (hx : WellTyped c valid x) (hne : encode c x ≠ none) :
    readVal C f (C.enc Enc.toJson [K.inj x]) = .ok (some (K.inj x)) := by
  obtain ⟨hnd, hs, _⟩ := C03.specs_sane c hc
  exact rowLaw_of_roundTrips C c valid arg K f hd ha hn x (C03.lossless c valid hnd hs x hx) hne

end

/-! ### non-vacuity: a value model that carries C03's model of a class -/

/-- values are C03 field maps, graph values are optional JSON values; every `to_json` row is class `c` -/
def jfModel (c : ClassSpec) (valid : String → JVal → Bool) : Codecs Codec.Fields (Option JVal) where
  enc := fun _ vs => match vs with | [x] => encode c x | _ => none
  encNone := fun _ => none
  dec := fun _ _ p =>
    match p with
    | some j => decode c valid (some j)
    | none => .ok none
  absentObj := fun _ => defaults c
  boolFalse := defaults c
  norm := fun _ v => .ok v
  isDedicated := fun _ => false

def jfCarries (c : ClassSpec) (valid : String → JVal → Bool) (arg : String) : Carries (jfModel c valid) c valid arg where
  inj := id
  txt := id
  enc_eq := fun _ => rfl
  dec_eq := fun j => by
    simp only [jfModel, id]
    cases decode c valid (some j) <;> simp
  norm_eq := fun _ => rfl

/-- `Location(lat=0.0)` (C03's `equator`, well-typed by `C03.equator_wellTyped`) obeys the row law of the node's
`location` row -/
example : readVal (jfModel Gen.Fields.location (fun _ _ => true))
      { key := "location", gprop := "Location", dec := Dec.fromJson, arg := "Location", absent := Absent.none, norm := Norm.ident, noneOk := true }
      ((jfModel Gen.Fields.location (fun _ _ => true)).enc Enc.toJson [C03.equator]) = .ok (some C03.equator) :=
  rowLaw_jsonfield _ Gen.Fields.location (by simp [Gen.Fields.all]) _ "Location" (jfCarries _ _ _) _ rfl rfl rfl C03.equator
    (C03.equator_wellTyped Gen.Fields.location rfl rfl (Or.inr rfl)) (by decide)

/-! ## The round trips without the codec hypothesis

For the value model `SliverRich.rich` (values are the objects of C03's / C12's models, stored graph values their parsed
texts) the hypothesis `FieldLaw` of `props_roundtrip_partial`, `dict_roundtrip_partial`, `graph_roundtrip_partial`
is a *theorem* for every well-typed value (`WTVal`): plain strings, enum members, ip addresses, every `JSONField`
class (C03 `lossless`), `Tags` (C03 `tags_roundtrip`), `Gateway` (C03 `gateway_roundtrip`), `PathInfo` / `ERO` (C03
`pathinfo_roundtrip`, `ero_roundtrip`), `MaintenanceInfo` (C03 `maintenance_roundtrip`), `Delegations` (C12
`delegations_roundtrip_partial`), the JSON blobs (C03's `jdFromText`: stored verbatim), string tuples and booleans.
What remains outside Lean: the `json.dumps` / `json.loads` text layer between a stored string and its parsed form
(`RP`), as in C03 and C12. -/
open FimVerif.SliverRich

/-- the generated tables pass the extra checks of the lift (always-written rows, the image pair) -/
theorem rich_rows_ok : tables.all richRowsOK = true := by decide

theorem tables_all_ok : ∀ T ∈ tables, tableOK T = true ∧ rowsOK T = true ∧ richRowsOK T = true := fun T hT =>
  ⟨List.all_eq_true.mp tables_ok T hT, List.all_eq_true.mp rows_ok T hT, List.all_eq_true.mp rich_rows_ok T hT⟩

/-- **`FieldLaw` discharged**: every typed field map of every kind obeys the codec law -/
theorem fieldLaw_discharged (R : Params) (T : KindTable) (hT : T ∈ tables) (s : Sliver.Fields RVal) (ht : TypedFields R T s) :
    FieldLaw (rich R) T s :=
  let ⟨h1, h2, h3⟩ := tables_all_ok T hT
  fieldLaw_rich R T h1 h2 h3 s ht

/-- **flat round trip, no codec hypothesis** (`_partial` only through the `FateShared` guard: known findings) -/
theorem props_roundtrip_typed_partial (R : Params) (T : KindTable) (hT : T ∈ tables) (s : Sliver.Fields RVal)
    (ht : TypedFields R T s) (hfate : FateShared T s) (hreq : Required T s) :
    fromProps (rich R) T (toProps (rich R) T s) = .ok (restrict T s) :=
  props_roundtrip_partial (rich R) T s (tables_all_ok T hT).1 (fieldLaw_discharged R T hT s ht) hfate hreq

/-- **deep dictionary / JSON round trip, no codec hypothesis**: every typed sliver tree of any depth and width -/
theorem dict_roundtrip_typed_partial (R : Params) (s : Sliver RVal) (h : TypedTree R s) :
    fromDict (rich R) s.kind (toDict (rich R) s) = .ok (normalize s) :=
  dict_roundtrip_partial (rich R) s (typed_wf R tables_all_ok s h)

/-- **model-graph round trip, no codec hypothesis** -/
theorem graph_roundtrip_typed_partial (R : Params) (s : Sliver RVal) (hk : s.kind ≠ "component") (hs : Shaped s)
    (h : TypedTree R s) (hnd : (idsOf s).Nodup) : graphRoundtrip (P := RP) (rich R) s = .ok (gnorm (rich R) s) :=
  graph_roundtrip_partial (rich R) s hk hs (typed_wf R tables_all_ok s h) hnd

theorem graph_roundtrip_component_typed_partial (R : Params) (s : Sliver RVal) (hk : s.kind = "component") (hs : Shaped s)
    (h : TypedTree R s) (hnd : (idsOf s).Nodup) (hp : "c02-parent" ∉ idsOf s) :
    graphRoundtrip (P := RP) (rich R) s = .ok (gnorm (rich R) s) :=
  graph_roundtrip_component_partial (rich R) s hk hs (typed_wf R tables_all_ok s h) hnd hp

/-! non-vacuity: a service sliver carrying a name, a type, tags, an ERO and a gateway-free label set, with one interface -/

def exParams : Params := { valid := fun _ _ => true, okTag := fun _ => true, iso := fun s => some s, validJson := fun _ => true }

def exEro : Codec.PathInfo := { type := some .path, payload := .path (.arr [.str "a", .str "b"]) .null, strict := .bool true }

def exTypedIface : Sliver RVal :=
  .mk "interface" (some "id-i") (fieldsOfList [("name", .str "p1"), ("type", .enum "InterfaceType" "TrunkPort"),
    ("stitch_node", .bool false), ("user_data", .jdata "UserData" "{\"k\": 1}")]) []

def exTypedService : Sliver RVal :=
  .mk "service" (some "id-s") (fieldsOfList [("name", .str "svc1"), ("type", .enum "ServiceType" "L2Bridge"),
    ("stitch_node", .bool false), ("tags", .tags ["blue", "green"]), ("ero", .ero exEro),
    ("node_map", .tuple ["g", "n"])]) [exTypedIface]

theorem exTypedIface_typed : TypedFields exParams interfaceTable exTypedIface.fields := by
  apply typedFields_ofList
  · intro kv hkv f hf hk _
    simp only [List.mem_cons, List.mem_nil_iff, or_false] at hkv
    rcases hkv with rfl | rfl | rfl | rfl
    · have := (by decide : ∀ f ∈ interfaceTable.fromRows, f.key = "name" → f =
        { key := "name", gprop := "Name", dec := Dec.ident, arg := "", absent := Absent.none, norm := Norm.ident, noneOk := false }) f hf hk
      subst this; exact ⟨Or.inl (by decide), rfl, by decide⟩
    · have := (by decide : ∀ f ∈ interfaceTable.fromRows, f.key = "type" → f =
        { key := "type", gprop := "Type", dec := Dec.typeFromStr, arg := "InterfaceType", absent := Absent.none, norm := Norm.ident, noneOk := true }) f hf hk
      subst this; exact ⟨Or.inr (by decide), Or.inl rfl, rfl, by decide⟩
    · have := (by decide : ∀ f ∈ interfaceTable.fromRows, f.key = "stitch_node" → f =
        { key := "stitch_node", gprop := "StitchNode", dec := Dec.jsonLoads, arg := "", absent := Absent.boolFalse, norm := Norm.ident, noneOk := true }) f hf hk
      subst this; exact ⟨by decide, rfl⟩
    · have := (by decide : ∀ f ∈ interfaceTable.fromRows, f.key = "user_data" → f =
        { key := "user_data", gprop := "UserData", dec := Dec.jsonDataCtor, arg := "UserData", absent := Absent.none, norm := Norm.ident, noneOk := true }) f hf hk
      subst this; exact ⟨by decide, rfl, rfl, by decide⟩
  · intro a b ha; simp [fieldsOfList] at ha

theorem exTypedService_typed : TypedFields exParams serviceTable exTypedService.fields := by
  apply typedFields_ofList
  · intro kv hkv f hf hk _
    simp only [List.mem_cons, List.mem_nil_iff, or_false] at hkv
    rcases hkv with rfl | rfl | rfl | rfl | rfl | rfl
    · have := (by decide : ∀ f ∈ serviceTable.fromRows, f.key = "name" → f =
        { key := "name", gprop := "Name", dec := Dec.ident, arg := "", absent := Absent.none, norm := Norm.ident, noneOk := false }) f hf hk
      subst this; exact ⟨Or.inl (by decide), rfl, by decide⟩
    · have := (by decide : ∀ f ∈ serviceTable.fromRows, f.key = "type" → f =
        { key := "type", gprop := "Type", dec := Dec.typeFromStr, arg := "ServiceType", absent := Absent.none, norm := Norm.ident, noneOk := true }) f hf hk
      subst this; exact ⟨Or.inr (by decide), Or.inl rfl, rfl, by decide⟩
    · have := (by decide : ∀ f ∈ serviceTable.fromRows, f.key = "stitch_node" → f =
        { key := "stitch_node", gprop := "StitchNode", dec := Dec.jsonLoads, arg := "", absent := Absent.boolFalse, norm := Norm.ident, noneOk := true }) f hf hk
      subst this; exact ⟨by decide, rfl⟩
    · have := (by decide : ∀ f ∈ serviceTable.fromRows, f.key = "tags" → f =
        { key := "tags", gprop := "Tags", dec := Dec.fromJson, arg := "Tags", absent := Absent.none, norm := Norm.ident, noneOk := true }) f hf hk
      subst this; exact ⟨by decide, rfl, rfl, fun _ _ => rfl⟩
    · have := (by decide : ∀ f ∈ serviceTable.fromRows, f.key = "ero" → f =
        { key := "ero", gprop := "ERO", dec := Dec.fromJson, arg := "ERO", absent := Absent.none, norm := Norm.ident, noneOk := true }) f hf hk
      subst this; exact ⟨by decide, rfl, rfl, by simp [C03.PIDomain, exEro], true, rfl⟩
    · have := (by decide : ∀ f ∈ serviceTable.fromRows, f.key = "node_map" → f =
        { key := "node_map", gprop := "NodeMap", dec := Dec.jsonLoads, arg := "", absent := Absent.none, norm := Norm.tuple, noneOk := true }) f hf hk
      subst this; exact ⟨by decide, rfl⟩
  · intro a b ha; simp [fieldsOfList] at ha


theorem exTypedService_tree : TypedTree exParams exTypedService := by
  have hi : TypedTree exParams exTypedIface := by
    simp only [exTypedIface, TypedTree, TypedKids, List.map_nil, List.nodup_nil, and_true]
    exact ⟨by rw [show tableOf "interface" = interfaceTable from rfl]; simp [tables], exTypedIface_typed,
      fateSharedB_sound _ _ (by decide), requiredB_sound _ _ (by decide)⟩
  simp only [exTypedService, TypedTree, TypedKids, and_true]
  refine ⟨by rw [show tableOf "service" = serviceTable from rfl]; simp [tables], exTypedService_typed,
    fateSharedB_sound _ _ (by decide), requiredB_sound _ _ (by decide),
    ⟨by decide, by decide, hi⟩, by simp⟩

/-- the typed theorems apply to it: both round trips hold with no hypothesis about codecs -/
example : fromDict (rich exParams) "service" (toDict (rich exParams) exTypedService) = .ok (normalize exTypedService) :=
  dict_roundtrip_typed_partial exParams exTypedService exTypedService_tree

example : graphRoundtrip (P := RP) (rich exParams) exTypedService = .ok (gnorm (rich exParams) exTypedService) :=
  graph_roundtrip_typed_partial exParams exTypedService (by decide)
    (by simp [Shaped, ShapedKids, exTypedService, exTypedIface, Sliver.kind, slotOf]) exTypedService_tree (by decide)

end FimVerif.C02
