import FimVerif.Proofs.C03
import FimVerif.Proofs.Lemmas.C02Props
/-! Discharging C02's codec hypothesis `FieldLaw` for the `JSONField` classes from C03's round-trip theorem.

C02's theorems are generic in the value model (`Codecs V P`).  A value model *carries* C03's model of a class when its
`to_json` / `from_json` on that class's values are C03's `encode` / `decode` (through an embedding); for such a model
the row law of every well-typed, non-default value of every generated class follows from `C03.lossless`. -/
namespace FimVerif.C02
open FimVerif FimVerif.Sliver FimVerif.Gen.SliverMap FimVerif.Codec

/-- `C` carries C03's model of class `c` under the decoder argument `arg` (the class name in the from-row) -/
structure Carries {V P : Type} (C : Codecs V P) (c : ClassSpec) (valid : String → JVal → Bool) (arg : String) where
  /-- a C03 value as a sliver field value -/
  inj : Codec.Fields → V
  /-- the graph-property value for an encoded text (`none` = the empty text) -/
  txt : Option JVal → P
  enc_eq : ∀ x, C.enc Enc.toJson [inj x] = txt (encode c x)
  dec_eq : ∀ j, C.dec Dec.fromJson arg (txt (some j)) =
    match decode c valid (some j) with
    | .ok o => .ok (o.map inj)
    | .error e => .error e
  norm_eq : ∀ v, C.norm Norm.ident v = .ok v

section
variable {V P : Type}

/-- the row law of a `to_json`/`from_json` row, from C03's `RoundTrips` -/
theorem rowLaw_of_roundTrips (C : Codecs V P) (c : ClassSpec) (valid : String → JVal → Bool) (arg : String)
    (K : Carries C c valid arg) (f : FromRow) (hd : f.dec = Dec.fromJson) (ha : f.arg = arg) (hn : f.norm = Norm.ident)
    (x : Codec.Fields) (hrt : RoundTrips c valid x) (hne : encode c x ≠ none) :
    readVal C f (C.enc Enc.toJson [K.inj x]) = .ok (some (K.inj x)) := by
  cases hj : encode c x with
  | none => exact absurd hj hne
  | some j =>
    unfold readVal
    rw [K.enc_eq, hj, hd, ha, K.dec_eq, hrt.2 j hj]
    simp only [Option.map_some, setRow, hn, K.norm_eq]

/--
**`FieldLaw` for the seven `JSONField` classes** (`Capacities`, `CapacityHints`, `Labels`, `ReservationInfo`,
`StructuralInfo`, `Location`, `Flags` — i.e. the properties capacities, capacity_allocations, capacity_hints, labels,
label_allocations, peer_labels, reservation_info, structural_info, location, flags): for every class spec the C03
translator generates, every value that is well-typed in C03's sense and not all-default obeys the row law.
(An all-default object encodes to the empty text and reads back as `None`: C03's `roundtrip_iff`; the C02 harness
counts such values as `skipped:codec-lossy`.)
-/
theorem rowLaw_jsonfield (C : Codecs V P) (c : ClassSpec) (hc : c ∈ Gen.Fields.all) (valid : String → JVal → Bool)
    (arg : String) (K : Carries C c valid arg) (f : FromRow) (hd : f.dec = Dec.fromJson) (ha : f.arg = arg)
    (hn : f.norm = Norm.ident) (x : Codec.Fields) (hx : WellTyped c valid x) (hne : encode c x ≠ none) :
    readVal C f (C.enc Enc.toJson [K.inj x]) = .ok (some (K.inj x)) := by
  obtain ⟨hnd, hs, _⟩ := C03.specs_sane c hc
  exact rowLaw_of_roundTrips C c valid arg K f hd ha hn x (C03.lossless c valid hnd hs x hx) hne

end

/-! ### non-vacuity: a value model that carries C03's model of a class -/

/-- values are C03 field maps, graph values are optional JSON values; every `to_json` row is class `c` -/
def jfModel (c : ClassSpec) (valid : String → JVal → Bool) : Codecs Codec.Fields (Option JVal) where
  enc := fun _ vs => match vs with | [x] => encode c x | _ => none
  encNone := fun _ => none
  dec := fun _ _ p =>
    match p with
    | some j => decode c valid (some j)
    | none => .ok none
  absentObj := fun _ => defaults c
  boolFalse := defaults c
  norm := fun _ v => .ok v
  isDedicated := fun _ => false

def jfCarries (c : ClassSpec) (valid : String → JVal → Bool) (arg : String) : Carries (jfModel c valid) c valid arg where
  inj := id
  txt := id
  enc_eq := fun _ => rfl
  dec_eq := fun j => by
    simp only [jfModel, id]
    cases decode c valid (some j) <;> simp
  norm_eq := fun _ => rfl

/-- `Location(lat=0.0)` (C03's `equator`, well-typed by `C03.equator_wellTyped`) obeys the row law of the node's
`location` row -/
example : readVal (jfModel Gen.Fields.location (fun _ _ => true))
      { key := "location", gprop := "Location", dec := Dec.fromJson, arg := "Location", absent := Absent.none, norm := Norm.ident, noneOk := true }
      ((jfModel Gen.Fields.location (fun _ _ => true)).enc Enc.toJson [C03.equator]) = .ok (some C03.equator) :=
  rowLaw_jsonfield _ Gen.Fields.location (by simp [Gen.Fields.all]) _ "Location" (jfCarries _ _ _) _ rfl rfl rfl C03.equator
    (C03.equator_wellTyped Gen.Fields.location rfl rfl (Or.inr rfl)) (by decide)

end FimVerif.C02
