import FimVerif.Proofs.Lemmas.TopoInvFac
/-!
# C07 — `InvS` together with the four name scopes no creating call breaks (`NamesCore`), call by call

Covered: add_node, add_component, add_storage, add_network_service (both forms, any interface list, when it returns or
leaves the model unchanged), add_facility, add_switch, add_interface, add_link, connect_interface, set/unset property.
Not covered: rename (breaks every scope: known finding) and the removing calls.
-/
namespace FimVerif.Topo
open FimVerif FimVerif.M FimVerif.Gen

/-- the structural invariant and the name scopes of nodes, components, services under a node/component, top-level services -/
def InvSN (s : Topo) : Prop := InvS s ∧ NamesCore s
instance (s : Topo) : Decidable (InvSN s) := by unfold InvSN; infer_instance

theorem attachStable_invSN : AttachStable InvSN where
  ids := fun _ h => h.1.ids
  closed := fun _ h => h.1.closed
  attach := fun h hp hf hv he hpl hsp hnf =>
    ⟨invS_attach h.1 hp hf hv he hpl hsp, namesCore_attach h.1.closed hp hf hv he hpl hnf h.2⟩

theorem compositeStable_invSN : CompositeStable InvSN :=
  { attachStable_invSN with
    push := fun h hf hv hc hnm =>
      ⟨invS_push h.1 hf hv (by simp [hc]) (by simp [hc]),
       namesCore_pushNode h.2 h.1.closed hf hv (.inl hc) (fun m hm hmc => hnm m hm (by rw [hmc, hc]))⟩ }

theorem mapStable_invSN : MapStable InvSN := fun f hf hn s h => ⟨invS_mapNodes hf h.1, mapStable_namesCore f hf hn s h.2⟩

theorem invSN_addNode (fl : Flavour) (c : Nat) (a : NodeArgs) (s : Topo) (ht : TypeArgOk .networkNode a.ntype) (h : InvSN s) :
    InvSN (addNode fl c a s).2 := by
  rcases addNode_post fl c a s with ⟨e, he⟩ | ⟨n, v, hf, hc, hty, hnm, hnames, _, hr⟩
  · rw [he]; exact h
  · rw [hr]
    exact compositeStable_invSN.push h hf (by simp [nodeOk, classOk_all, hc, ht n.typ hty]) hc (by rw [hnm]; exact hnames)

theorem invSN_addComponent (fl : Flavour) (c : Nat) (parent : Nid) (a : CompArgs) (s : Topo) (hh : HandleOk s parent .networkNode)
    (h : InvSN s) : InvSN (addComponent fl c parent a s).2 := inv_addComponent attachStable_invSN fl c parent a s hh h

theorem invSN_addStorage (fl : Flavour) (c : Nat) (parent : Nid) (name : String) (nid : Option Nid) (props : List PropArg) (s : Topo)
    (hh : HandleOk s parent .networkNode) (h : InvSN s) : InvSN (addStorage fl c parent name nid props s).2 :=
  inv_addStorage attachStable_invSN fl c parent name nid props s hh h

theorem invSN_nsAddInterface (fl : Flavour) (c : Nat) (svc : Nid) (cache : Cache) (name : String) (nid : Option Nid)
    (itype : Option String) (props : List PropArg) (s : Topo) (hh : HandleOk s svc .networkService)
    (ht : TypeArgOk .connectionPoint itype) (hsp : NotSp itype) (h : InvSN s) :
    InvSN (nsAddInterface fl c svc cache name nid itype props s).2 :=
  ⟨invS_nsAddInterface fl c svc cache name nid itype props s hh ht hsp h.1,
   namesCore_nsAddInterface fl c svc cache name nid itype props s hh ht h.1.down h.2⟩

theorem invSN_addLink (fl : Flavour) (c : Nat) (name : String) (nid : Option Nid) (ltype : Option String)
    (ifs : Option (List IfArg)) (tech : Option String) (props : List PropArg) (s : Topo) (ht : TypeArgOk .link ltype)
    (hsp : ∀ l, ifs = some l → NoSpIn s l) (h : InvSN s) : InvSN (addLink fl c name nid ltype ifs tech props s).2 :=
  ⟨invS_addLink fl c name nid ltype ifs tech props s ht hsp h.1, namesCore_addLink fl c name nid ltype ifs tech props s ht hsp h.1.down h.2⟩

theorem invSN_connect (fl : Flavour) (c : Nat) (svc iid : Nid) (iname : String) (cache : Cache) (s : Topo)
    (hsv : HandleOk s svc .networkService) (hcp : HandleOk s iid .connectionPoint)
    (hfr : ∀ m ∈ s.nodes, m.nid ≠ .gen c ∧ m.nid ≠ .gen (c + 1)) (hnsp : NoSpIn s [.iface iid iname]) (h : InvSN s) :
    InvSN (connectInterface fl c svc cache (.iface iid iname) s).2 :=
  ⟨invS_connect fl c svc iid iname cache s hsv hcp hfr hnsp h.1, namesCore_connect fl c svc iid iname cache s hsv hcp hfr hnsp h.1.down h.2⟩

theorem invSN_nodeAddService_nil (fl : Flavour) (c : Nat) (p : Nid) (a : SvcArgs) (s : Topo) (ha : a.ifs = [])
    (hty : TypeArgOk .networkService a.nstype) (hpar : ParentOk s (some p)) (h : InvSN s) : InvSN (nodeAddService fl c p a s).2 :=
  (nodeAddService_nil attachStable_invSN fl c p a s ha hty hpar h).1

/-- a top-level service without interfaces: the constructor's own duplicate-name check keeps the top-level scope -/
theorem invSN_addService_nil (fl : Flavour) (c : Nat) (a : SvcArgs) (s : Topo) (ha : a.ifs = [])
    (hty : TypeArgOk .networkService a.nstype) (h : InvSN s) : InvSN (addService fl c a s).2 := by
  unfold addService svcNew
  rcases pick a.nid c with ⟨id, c1⟩
  simp only []
  refine ro_step (Q := fun r => InvSN r.2) (readOnly_need _ _) (fun _ => h) (fun t h1 => ?_)
  have htt : a.nstype = some t := need_some ⟨_, h1⟩
  refine ro_step (Q := fun r => InvSN r.2) (readOnly_guard _ _) (fun _ => h) (fun _ _ => ?_)
  refine ro_step (Q := fun r => InvSN r.2) (readOnly_need _ _) (fun _ => h) (fun layer _ => ?_)
  refine ro_step (Q := fun r => InvSN r.2) (readOnly_ofExcept _) (fun _ => h) (fun kw _ => ?_)
  simp only [Option.isNone, if_true]
  refine ro_step (Q := fun r => InvSN r.2) (readOnly_read _) (fun _ => h) (fun dup hdup => ?_)
  refine ro_step (Q := fun r => InvSN r.2) (readOnly_guard _ _) (fun _ => h) (fun _ hg => ?_)
  refine addGNode_step (Q := fun r => InvSN r.2) h (fun sn hsn hfr => ?_)
  have hsc : sn.cls = .networkService := by rw [hsn]
  have hst : sn.typ = t := by rw [hsn]
  have hsnm : sn.name = a.name := by rw [hsn]
  rw [ha]
  unfold svcLoop
  simp only [bind_apply', pure_apply']
  have hv : nodeOk sn = true := by simp [nodeOk, classOk_all, hsc, hst, hty t htt]
  refine ⟨invS_push h.1 hfr hv (by simp [hsc]) (by simp [hsc]), namesCore_pushNode h.2 h.1.closed hfr hv (.inr hsc) ?_⟩
  intro m hm hmc hmn
  have hd : dup = false := by simpa using guard_ok hg
  simp only [read_apply, Prod.mk.injEq, Except.ok.injEq, and_true] at hdup
  rw [hd] at hdup
  have := List.any_eq_false.mp hdup m hm
  rw [hsc] at hmc
  simp [hmc, hmn, hsnm] at this

theorem svcStable_invSN : SvcStable InvSN :=
  ⟨fun _ h => h.1.ids, fun _ h => h.1.closed,
   fun fl c svc iid iname cache s h1 h2 h3 h4 h => invSN_connect fl c svc iid iname cache s h1 h2 h3 h4 h⟩

/-- service creation with any interface list, when the constructor returns -/
theorem svcNew_ok_invSN (fl : Flavour) (c : Nat) (parent : Option Nid) (a : SvcArgs) (s s' : Topo) (r : Nid × Cache)
    (h : InvSN s) (g : SvcGuards s c parent a)
    (hnm : ∀ p pn, parent = some p → findNode p s = (.ok pn, s) → ∀ m ∈ kids s pn.ref .has .networkService, m.name ≠ a.name)
    (hok : svcNew fl c parent a s = (.ok r, s')) : InvSN s' := by
  refine svcNew_ok_invP svcStable_invSN fl c parent a s s' r h g ?_ ?_ hok
  · intro sn hsc hsn hv hfr hnodup
    exact ⟨invS_push h.1 hfr hv (by simp [hsc]) (by simp [hsc]),
      namesCore_pushNode h.2 h.1.closed hfr hv (.inr hsc) (fun m hm hmc => by rw [hsn]; exact hnodup m hm (by rw [hmc, hsc]))⟩
  · intro p pn sn hpar hpnm hpni hsc hsn hv hfr
    have hpo := g.parent
    rw [hpar] at hpo
    have hpc := hpo.2 pn hpnm hpni
    have hpn : findNode p s = (.ok pn, s) := by rw [← hpni]; exact findNode_of_mem h.1.ids hpnm
    have he : edgeOk ⟨pn.ref, sn.ref, .has⟩ = true := by rcases hpc with hc | hc <;> simp [edgeOk, GNode.ref, hc, hsc]
    have hpl : pn.cls ≠ .link := by rcases hpc with hc | hc <;> simp [hc]
    refine ⟨invS_attach h.1 hpnm hfr hv he hpl (by simp [hsc]), namesCore_attach h.1.closed hpnm hfr hv he hpl ?_ h.2⟩
    refine .inr (.inr ?_)
    rw [hsc, hsn]
    exact hnm p pn hpar hpn

theorem invSN_addService (fl : Flavour) (c : Nat) (a : SvcArgs) (s : Topo) (g : SvcGuards s c none a)
    (hout : ReturnsOrUnchanged (addService fl c a) s) (h : InvSN s) : InvSN (addService fl c a s).2 := by
  rcases hout with hnf | hu
  · obtain ⟨r, s', hok⟩ := ok_of_not_failed hnf
    rw [hok]
    exact svcNew_ok_invSN fl c none a s s' r h g (fun p pn hp => by cases hp) hok
  · rw [hu]; exact h

theorem invSN_nodeAddService (fl : Flavour) (c : Nat) (parent : Nid) (a : SvcArgs) (s : Topo) (g : SvcGuards s c (some parent) a)
    (hout : ReturnsOrUnchanged (nodeAddService fl c parent a) s) (h : InvSN s) : InvSN (nodeAddService fl c parent a s).2 := by
  rcases hout with hnf | hu
  · obtain ⟨r, s', hok⟩ := ok_of_not_failed hnf
    rw [hok]
    unfold nodeAddService at hok
    obtain ⟨nss, hch, hok⟩ := ro_ok_inv (readOnly_childrenOf _ _ _ _) hok
    obtain ⟨_, hg, hok⟩ := ro_ok_inv (readOnly_guard _ _) hok
    refine svcNew_ok_invSN fl c (some parent) a s s' r h g ?_ hok
    intro p pn hp hpn
    cases hp
    exact sibling_free h.1.ids hch (guard_ok hg) pn hpn
  · rw [hu]; exact h

theorem invSN_addFacility (fl : Flavour) (c : Nat) (name : String) (nid : Option Nid) (site : Option String)
    (nstype : Option String) (nsprops : List PropArg) (ifs : Option (List (String × List PropArg))) (kw : List PropArg) (s : Topo)
    (hty : TypeArgOk .networkService nstype) (hout : ReturnsOrUnchanged (addFacility fl c name nid site nstype nsprops ifs kw) s)
    (h : InvSN s) : InvSN (addFacility fl c name nid site nstype nsprops ifs kw s).2 := by
  rcases hout with hnf | hu
  · obtain ⟨r, s', hok⟩ := ok_of_not_failed hnf
    rw [hok]
    rw [addFacility_shape] at hok
    exact compositeCall_ok compositeStable_invSN fl c _ _ s s' r (by intro x hx; cases hx; decide) h
      (fun n c1 s1 h1 hp => facBody_inv attachStable_invSN fl name nid nstype nsprops ifs kw n c1 s1 hty h1 hp) hok
  · rw [hu]; exact h

theorem invSN_addSwitch (fl : Flavour) (c : Nat) (name : String) (nid : Option Nid) (site : Option String)
    (nstype : Option String) (nsprops : List PropArg) (ports : List (String × String × List PropArg)) (s : Topo)
    (hty : TypeArgOk .networkService nstype) (hout : ReturnsOrUnchanged (addSwitch fl c name nid site nstype nsprops ports) s)
    (h : InvSN s) : InvSN (addSwitch fl c name nid site nstype nsprops ports s).2 := by
  rcases hout with hnf | hu
  · obtain ⟨r, s', hok⟩ := ok_of_not_failed hnf
    rw [hok]
    rw [addSwitch_shape] at hok
    exact compositeCall_ok compositeStable_invSN fl c _ _ s s' r (by intro x hx; cases hx; decide) h
      (fun n c1 s1 h1 hp => swBody_inv attachStable_invSN fl name nid nstype nsprops ports n c1 s1 hty h1 hp) hok
  · rw [hu]; exact h

end FimVerif.Topo
