import FimVerif.Proofs.Lemmas.C03Class
import FimVerif.Proofs.Lemmas.C03Parse
import FimVerif.Model.CodecHist
/-! Helper lemmas for the text-level round trips of C03 (what the codecs write is float-free JSON with distinct keys). -/
namespace FimVerif.C03
open FimVerif FimVerif.Codec JVal Hist JParse

theorem plainK_of_forall (l : List (String × JVal)) (h : ∀ p ∈ l, plain p.2 = true) : plainK l = true := by
  induction l with
  | nil => rfl
  | cons p t ih =>
    obtain ⟨k, v⟩ := p
    simp only [plainK, Bool.and_eq_true]
    exact ⟨h (k, v) List.mem_cons_self, ih (fun q hq => h q (List.mem_cons_of_mem _ hq))⟩

theorem plainL_strs (xs : List JVal) (h : xs.all isStr = true) : plainL xs = true := by
  induction xs with
  | nil => rfl
  | cons x t ih =>
    simp only [List.all_cons, Bool.and_eq_true] at h
    simp only [plainL, Bool.and_eq_true]
    refine ⟨?_, ih h.2⟩
    cases x <;> simp_all [isStr, plain]

/-- outside `Location` (str or float) a value of the documented domain holds no float -/
theorem inDomain_plain (g : Guard) (v : JVal) (hg : g ≠ .strOrFloat) (h : inDomain g v = true) : plain v = true := by
  cases g <;> cases v <;> simp_all [inDomain, plain]
  all_goals exact plainL_strs _ (by simpa using h)

theorem render_obj_ne (kvs : List (String × JVal)) (s : String) (hs : s = "" ∨ s = "None") : (JVal.obj kvs).render ≠ s := by
  intro e
  have := congrArg String.toList e
  rw [render_toList] at this
  rcases hs with rfl | rfl <;> simp [rc] at this


theorem render_arr_ne (xs : List JVal) (s : String) (hs : s = "" ∨ s = "None") : (JVal.arr xs).render ≠ s := by
  intro e
  have := congrArg String.toList e
  rw [render_toList] at this
  rcases hs with rfl | rfl <;> simp [rc] at this

theorem plain_optStr (o : Option String) : plain (optStr o) = true := by cases o <;> rfl

end FimVerif.C03
