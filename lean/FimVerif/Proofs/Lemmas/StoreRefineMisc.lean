import FimVerif.Proofs.Lemmas.StoreRefineNode
/-! C05: refinement of delete_graph and find_matching_nodes. Core only. -/
namespace FimVerif.Store
open FimVerif FimVerif.Gen.StoreConsts

theorem ref_deleteGraph (s : Store) (g : String) : Ref g (delGraph g s) (.ok .unit, AGraph.empty) := by
  refine ⟨rfl, ?_⟩
  have hN : nodesOf (delGraphNl g s) g = [] := by
    simp only [nodesOf, delGraphNl, List.filter_filter]
    rw [List.filter_eq_nil_iff]; intro n _; simp
  simp only [delGraph, abs, absView, edgesOf, hN, AGraph.empty]
  simp [idIn]

theorem nidList_fst (s : Store) (A : AGraph) (l : List SNode) : (AGraph.nidList (l.map eraseG) A).1 = (nidList l s).1 := by
  have := ref_nidList s "" l
  unfold Ref at this
  unfold nidList AGraph.nidList at *
  have e1 : (l.map eraseG).any (fun a => !AMap.has nodeId a) = l.any (fun n => !AMap.has nodeId n.attrs) := by
    rw [List.any_map]
    have : ((fun a => !AMap.has nodeId a) ∘ eraseG) = (fun n => !AMap.has nodeId n.attrs) := by
      funext n; simp only [Function.comp, has_eraseG nodeId nodeId_ne_graphId]
    rw [this]
  have e2 : (l.map eraseG).map (AMap.get nodeId) = l.map (fun n => AMap.get nodeId n.attrs) := by
    simp [List.map_map, Function.comp, get_eraseG nodeId nodeId_ne_graphId]
  rw [e1, e2]
  split <;> rfl

theorem listAll_fst (s : Store) (g : String) : (AGraph.listAllNodeIds (abs s g)).1 = (listAllNodeIds g s).1 := by
  unfold listAllNodeIds AGraph.listAllNodeIds
  rw [nodesOf_length_abs]
  split
  · rfl
  · rw [abs_nodes]; exact nidList_fst s _ _

theorem listAll_snd (s : Store) (g : String) : (listAllNodeIds g s).2 = s := by
  unfold listAllNodeIds nidList
  split
  · rfl
  · split <;> rfl

theorem ref_findMatchingNodes (s : Store) (g other : String) :
    Ref g (findMatchingNodes g other s) (AGraph.findMatchingNodes (abs s other) (abs s g)) := by
  unfold findMatchingNodes AGraph.findMatchingNodes
  have h1 := listAll_fst s g
  have e2 : (abs s other).nodes.map (AMap.get nodeId) = (nodesOf s other).map (fun n => AMap.get nodeId n.attrs) := by
    simp [abs_nodes, List.map_map, Function.comp, get_eraseG nodeId nodeId_ne_graphId]
  rw [e2]
  generalize hr : listAllNodeIds g s = r at h1
  generalize hr' : AGraph.listAllNodeIds (abs s g) = r' at h1
  obtain ⟨r1, r2⟩ := r
  obtain ⟨r1', r2'⟩ := r'
  simp only at h1
  subst h1
  cases r1' with
  | error e => exact ref_err g s _
  | ok o =>
    cases o with
    | vals mine =>
      simp only
      cases fmnErr mine (List.map (fun n => AMap.get nodeId n.attrs) (nodesOf s other)) with
      | some e => exact ref_err g s _
      | none => exact ⟨rfl, rfl⟩
    | unit => exact ref_err g s _
    | bool b => exact ref_err g s _
    | nodeProps l p => exact ref_err g s _
    | linkProps l p => exact ref_err g s _
    | int n => exact ref_err g s _

end FimVerif.Store
