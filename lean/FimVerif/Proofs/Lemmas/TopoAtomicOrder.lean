import FimVerif.Model.TopoC09
/-! Soundness of the write-order scan (`OrderTok.scan`, Model/TopoC09.lean) with respect to the path semantics `OrderTok.Run`:
an accepted block has no path on which a step that can fail follows a write. -/
namespace FimVerif.Topo.OrderTok
open FimVerif.Gen.TopoOrder

theorem okSeq_true {σ : List Ev} (h : okSeq true σ = true) : σ = [] := by
  cases σ with
  | nil => rfl
  | cons x xs => simp [okSeq] at h

theorem okSeq_mono {b : Bool} {σ : List Ev} (h : okSeq true σ = true) : okSeq b σ = true := by
  rw [okSeq_true h]; cases b <;> rfl

theorem wrote_nil (d : Bool) : wrote d [] = d := by simp [wrote]

theorem wrote_append (d : Bool) (σ₁ σ₂ : List Ev) : wrote d (σ₁ ++ σ₂) = wrote (wrote d σ₁) σ₂ := by
  simp [wrote, Bool.or_assoc]

/-- a path that is fine, followed by a path that is fine from where the first one left off -/
theorem okSeq_append {d x : Bool} {σ₁ σ₂ : List Ev} (h1 : okSeq d σ₁ = true) (hx : wrote d σ₁ = true → x = true)
    (h2 : okSeq x σ₂ = true) : okSeq d (σ₁ ++ σ₂) = true := by
  induction σ₁ generalizing d with
  | nil =>
    simp only [List.nil_append]
    cases d with
    | true => have := hx (by simp [wrote]); subst this; exact h2
    | false =>
      cases x with
      | true => exact okSeq_mono h2
      | false => exact h2
  | cons a rest ih =>
    cases d with
    | true => simp [okSeq] at h1
    | false =>
      cases a with
      | v =>
        simp only [List.cons_append, okSeq] at h1 ⊢
        exact ih h1 (fun hw => hx (by simpa [wrote] using hw))
      | w =>
        simp only [List.cons_append, okSeq] at h1 ⊢
        exact ih h1 (fun _ => hx (by simp [wrote]))

/-- the flag only ever goes up -/
theorem scan_flag_mono : ∀ (f : Nat) (toks : List Tok) (d1 : Bool), scan f true toks = some (some d1) → d1 = true := by
  intro f
  induction f with
  | zero => intro toks d1 h; simp [scan] at h
  | succ f ih =>
    intro toks d1 h
    cases toks with
    | nil => simp [scan] at h; exact h
    | cons t r =>
      cases t with
      | v => simp [scan] at h
      | w s => simp [scan] at h
      | c => exact ih r d1 (by simpa [scan] using h)
      | r => exact ih r d1 (by simpa [scan] using h)
      | ret => simp [scan] at h
      | ite a b =>
        simp only [scan] at h
        rcases ha : scan f true a with _ | (_ | x) <;> rcases hb : scan f true b with _ | (_ | y) <;> simp only [ha, hb] at h
        all_goals first
          | (simp at h; done)
          | skip
        · have := ih b y hb; subst this; exact ih r d1 h
        · have := ih a x ha; subst this; exact ih r d1 h
        · have := ih a x ha; subst this; exact ih r d1 (by simpa using h)
      | loop b =>
        simp only [scan] at h
        rcases hb : scan f true b with _ | (_ | x) <;> simp only [hb] at h
        · simp at h
        · exact ih r d1 h
        · have := ih b x hb; subst this
          rcases hb2 : scan f true b with _ | y <;> simp only [hb2] at h
          · simp at h
          · exact ih r d1 h
      | guarded a b => simp [scan] at h
      | tryelse a b => simp [scan] at h

/-- what an accepted block guarantees of every path through it: started with flag `d`, no step that can fail follows a
write; and when the path falls through, the flag the scan hands on covers whether a write happened -/
def Sound (d : Bool) (toks : List Tok) (res : Option Bool) : Prop :=
  ∀ σ e, Run toks σ e → okSeq d σ = true ∧ (e = false → ∃ d', res = some d' ∧ (wrote d σ = true → d' = true))

theorem sound_loop {d d1 : Bool} {b r : List Tok} {res : Option Bool} (hmono : d = true → d1 = true)
    (H1 : ∀ σ e, Run b σ e → okSeq d σ = true ∧ (e = false → wrote d σ = true → d1 = true))
    (H2 : ∀ σ e, Run b σ e → okSeq d1 σ = true)
    (H3 : Sound d1 r res) :
    ∀ σ e, Run (.loop b :: r) σ e → ∀ dd, (dd = d ∨ dd = d1) →
      okSeq dd σ = true ∧ (e = false → ∃ d', res = some d' ∧ (wrote dd σ = true → d' = true)) := by
  intro σ e hrun
  generalize hL : (Tok.loop b :: r) = L at hrun
  induction hrun with
  | nil => cases hL
  | v _ _ => cases hL
  | w _ _ => cases hL
  | c _ _ => cases hL
  | r _ _ => cases hL
  | ret => cases hL
  | iteL _ _ _ _ => cases hL
  | iteLret _ _ => cases hL
  | iteR _ _ _ _ => cases hL
  | iteRret _ _ => cases hL
  | @loopDone b' r' σ' e' hr _ =>
    injection hL with h1 h2; injection h1 with h1; subst h1; subst h2
    intro dd hdd
    obtain ⟨ho, hf⟩ := H3 σ' e' hr
    have hle : dd = true → d1 = true := by
      rcases hdd with rfl | rfl
      · exact hmono
      · exact id
    refine ⟨?_, fun he => ?_⟩
    · cases hd1 : d1 with
      | true => rw [hd1] at ho; exact okSeq_mono ho
      | false =>
        have : dd = false := by
          cases hdd' : dd with
          | false => rfl
          | true => have := hle hdd'; rw [hd1] at this; cases this
        rw [this, ← hd1]; exact ho
    · obtain ⟨d', hr', hw⟩ := hf he
      refine ⟨d', hr', fun hwr => hw ?_⟩
      simp only [wrote, Bool.or_eq_true] at hwr ⊢
      rcases hwr with h | h
      · exact .inl (hle h)
      · exact .inr h
  | @loopStep b' r' σ₁ σ₂ e' hb hrest _ ih =>
    injection hL with h1 h2; injection h1 with h1; subst h1; subst h2
    intro dd hdd
    -- the pass: fine from `dd`, and it leaves a flag covered by `d1`
    have hpass : okSeq dd σ₁ = true ∧ (wrote dd σ₁ = true → d1 = true) := by
      rcases hdd with rfl | rfl
      · exact ⟨(H1 σ₁ false hb).1, (H1 σ₁ false hb).2 rfl⟩
      · refine ⟨H2 σ₁ false hb, fun hw => ?_⟩
        cases hd1 : dd with
        | true => rfl
        | false =>
          -- then `d` is clean too and the first scan saw this very pass
          have hd : d = false := by
            cases hd' : d with
            | false => rfl
            | true => have := hmono hd'; rw [hd1] at this; cases this
          have := (H1 σ₁ false hb).2 rfl (by rw [hd]; rw [hd1] at hw; exact hw)
          rw [hd1] at this; cases this
    obtain ⟨ho2, hf2⟩ := ih rfl d1 (.inr rfl)
    refine ⟨okSeq_append hpass.1 hpass.2 ho2, fun he => ?_⟩
    obtain ⟨d', hr', hw⟩ := hf2 he
    refine ⟨d', hr', fun hwr => hw ?_⟩
    rw [wrote_append] at hwr
    simp only [wrote, Bool.or_eq_true] at hwr ⊢
    rcases hwr with h | h
    · exact .inl (hpass.2 (by simpa [wrote] using h))
    · exact .inr h
  | @loopRet b' r' σ' hb =>
    injection hL with h1 h2; injection h1 with h1; subst h1; subst h2
    intro dd hdd
    refine ⟨?_, fun he => by cases he⟩
    rcases hdd with rfl | rfl
    · exact (H1 σ' true hb).1
    · exact H2 σ' true hb

theorem scan_sound : ∀ (f : Nat) (d : Bool) (toks : List Tok) (res : Option Bool), scan f d toks = some res → Sound d toks res := by
  intro f
  induction f with
  | zero => intro d toks res h; simp [scan] at h
  | succ f ih =>
    intro d toks res h
    cases toks with
    | nil =>
      simp [scan] at h; subst h
      intro σ e hrun; cases hrun
      exact ⟨rfl, fun _ => ⟨d, rfl, fun hw => by simpa [wrote] using hw⟩⟩
    | cons t r =>
      cases t with
      | v =>
        cases d with
        | true => simp [scan] at h
        | false =>
          have h' : scan f false r = some res := by simpa [scan] using h
          intro σ e hrun; cases hrun with
          | v hr =>
            obtain ⟨ho, hf⟩ := ih false r res h' _ _ hr
            exact ⟨by simpa [okSeq] using ho, fun he => by
              obtain ⟨d', a, b⟩ := hf he
              exact ⟨d', a, fun hw => b (by simpa [wrote] using hw)⟩⟩
      | w s =>
        cases d with
        | true => simp [scan] at h
        | false =>
          have h' : scan f true r = some res := by simpa [scan] using h
          intro σ e hrun; cases hrun with
          | w hr =>
            obtain ⟨ho, hf⟩ := ih true r res h' _ _ hr
            exact ⟨by simpa [okSeq] using ho, fun he => by
              obtain ⟨d', a, b⟩ := hf he
              exact ⟨d', a, fun _ => b (by simp [wrote])⟩⟩
      | c =>
        have h' : scan f d r = some res := by simpa [scan] using h
        intro σ e hrun; cases hrun with
        | c hr => exact ih d r res h' _ _ hr
      | r =>
        have h' : scan f d r = some res := by simpa [scan] using h
        intro σ e hrun; cases hrun with
        | r hr => exact ih d r res h' _ _ hr
      | ret =>
        intro σ e hrun; cases hrun
        exact ⟨rfl, fun he => by cases he⟩
      | ite a b =>
        simp only [scan] at h
        rcases ha : scan f d a with _ | ra <;> rcases hb : scan f d b with _ | rb <;> simp only [ha, hb] at h
        · simp at h
        · cases rb <;> simp at h
        · cases ra <;> simp at h
        · have Sa := ih d a ra ha
          have Sb := ih d b rb hb
          -- the flag handed to the rest covers both branches
          have key : ∀ x, (∀ σ₁, Run a σ₁ false → wrote d σ₁ = true → x = true) → (∀ σ₁, Run b σ₁ false → wrote d σ₁ = true → x = true) →
              scan f x r = some res → Sound d (.ite a b :: r) res := by
            intro x hxa hxb hr
            have Sr := ih x r res hr
            intro σ e hrun
            cases hrun with
            | iteL h1 h2 =>
              obtain ⟨o1, _⟩ := Sa _ _ h1
              obtain ⟨o2, f2⟩ := Sr _ _ h2
              refine ⟨okSeq_append o1 (hxa _ h1) o2, fun he => ?_⟩
              obtain ⟨d', a1, a2⟩ := f2 he
              refine ⟨d', a1, fun hw => a2 ?_⟩
              rw [wrote_append] at hw
              simp only [wrote, Bool.or_eq_true] at hw ⊢
              rcases hw with hw | hw
              · exact .inl (hxa _ h1 (by simpa [wrote] using hw))
              · exact .inr hw
            | iteLret h1 => exact ⟨(Sa _ _ h1).1, fun he => by cases he⟩
            | iteR h1 h2 =>
              obtain ⟨o1, _⟩ := Sb _ _ h1
              obtain ⟨o2, f2⟩ := Sr _ _ h2
              refine ⟨okSeq_append o1 (hxb _ h1) o2, fun he => ?_⟩
              obtain ⟨d', a1, a2⟩ := f2 he
              refine ⟨d', a1, fun hw => a2 ?_⟩
              rw [wrote_append] at hw
              simp only [wrote, Bool.or_eq_true] at hw ⊢
              rcases hw with hw | hw
              · exact .inl (hxb _ h1 (by simpa [wrote] using hw))
              · exact .inr hw
            | iteRret h1 => exact ⟨(Sb _ _ h1).1, fun he => by cases he⟩
          cases ra with
          | none =>
            cases rb with
            | none =>
              -- both branches always return
              simp at h; subst h
              intro σ e hrun
              cases hrun with
              | iteL h1 _ => obtain ⟨_, f1⟩ := Sa _ _ h1; obtain ⟨d', hd', _⟩ := f1 rfl; cases hd'
              | iteLret h1 => exact ⟨(Sa _ _ h1).1, fun he => by cases he⟩
              | iteR h1 _ => obtain ⟨_, f1⟩ := Sb _ _ h1; obtain ⟨d', hd', _⟩ := f1 rfl; cases hd'
              | iteRret h1 => exact ⟨(Sb _ _ h1).1, fun he => by cases he⟩
            | some y =>
              refine key y (fun σ₁ h1 _ => ?_) (fun σ₁ h1 hw => ?_) h
              · obtain ⟨_, f1⟩ := Sa _ _ h1; obtain ⟨d', hd', _⟩ := f1 rfl; cases hd'
              · obtain ⟨_, f1⟩ := Sb _ _ h1; obtain ⟨d', hd', hx⟩ := f1 rfl; cases hd'; exact hx hw
          | some x =>
            cases rb with
            | none =>
              refine key x (fun σ₁ h1 hw => ?_) (fun σ₁ h1 _ => ?_) h
              · obtain ⟨_, f1⟩ := Sa _ _ h1; obtain ⟨d', hd', hx⟩ := f1 rfl; cases hd'; exact hx hw
              · obtain ⟨_, f1⟩ := Sb _ _ h1; obtain ⟨d', hd', _⟩ := f1 rfl; cases hd'
            | some y =>
              refine key (x || y) (fun σ₁ h1 hw => ?_) (fun σ₁ h1 hw => ?_) h
              · obtain ⟨_, f1⟩ := Sa _ _ h1; obtain ⟨d', hd', hx⟩ := f1 rfl; cases hd'; simp [hx hw]
              · obtain ⟨_, f1⟩ := Sb _ _ h1; obtain ⟨d', hd', hx⟩ := f1 rfl; cases hd'; simp [hx hw]
      | loop b =>
        simp only [scan] at h
        rcases hb : scan f d b with _ | rb <;> simp only [hb] at h
        · simp at h
        · have Sb := ih d b rb hb
          cases rb with
          | none =>
            -- the body always returns: at most one pass, and then the call is over
            have Sr := ih d r res h
            intro σ e hrun
            cases hrun with
            | loopDone hr => exact Sr _ _ hr
            | loopStep h1 _ => obtain ⟨_, f1⟩ := Sb _ _ h1; obtain ⟨d', hd', _⟩ := f1 rfl; cases hd'
            | loopRet h1 => exact ⟨(Sb _ _ h1).1, fun he => by cases he⟩
          | some d1 =>
            rcases hb2 : scan f d1 b with _ | rb2 <;> simp only [hb2] at h
            · simp at h
            · have Sb2 := ih d1 b rb2 hb2
              have Sr := ih d1 r res h
              have hmono : d = true → d1 = true := fun hd => by subst hd; exact scan_flag_mono f b d1 hb
              intro σ e hrun
              exact sound_loop hmono
                (fun σ' e' h' => ⟨(Sb σ' e' h').1, fun he hw => by
                  obtain ⟨d', hd', hx⟩ := (Sb σ' e' h').2 he; cases hd'; exact hx hw⟩)
                (fun σ' e' h' => (Sb2 σ' e' h').1) Sr σ e hrun d (.inl rfl)
      | guarded a b => simp [scan] at h
      | tryelse a b => simp [scan] at h

/-- a single-write function: along every path, no step that can fail follows a write - whichever step raises, the model
has not been written yet -/
theorem singleWrite_sound (toks : List Tok) (h : singleWrite toks = true) : ∀ σ e, Run toks σ e → okSeq false σ = true := by
  unfold singleWrite at h
  rcases hs : scan 400 false toks with _ | res
  · rw [hs] at h; simp at h
  · exact fun σ e hrun => (scan_sound 400 false toks res hs σ e hrun).1

/-- … spelled out: a write is the last step that can fail on its path -/
theorem okSeq_last_write {σ : List Ev} (h : okSeq false σ = true) : ∀ pre post, σ = pre ++ Ev.w :: post → post = [] := by
  induction σ with
  | nil => intro pre post he; cases pre <;> simp at he
  | cons a rest ih =>
    intro pre post he
    cases pre with
    | nil =>
      simp only [List.nil_append, List.cons.injEq] at he
      obtain ⟨rfl, rfl⟩ := he
      simp only [okSeq] at h
      exact okSeq_true h
    | cons p ps =>
      simp only [List.cons_append, List.cons.injEq] at he
      obtain ⟨rfl, he⟩ := he
      cases a with
      | v => simp only [okSeq] at h; exact ih h ps post he
      | w =>
        simp only [okSeq] at h
        have := okSeq_true h
        rw [this] at he
        cases ps <;> simp at he

end FimVerif.Topo.OrderTok
