import FimVerif.Proofs.Lemmas.StoreRefineAll
/-! C05: `merge_nodes` frames every graph other than the two it names. Core only. -/
namespace FimVerif.Store
open FimVerif FimVerif.Gen.StoreConsts

theorem frames_remapEdges (g' : String) (u v : Nat) (l : List SEdge) (s : Store)
    (hu : idIn (nodesOf s g') u = false) (hl : ∀ e ∈ l, e.a = v ∨ e.b = v) : Frames g' s (remapEdges u v l s) := by
  induction l generalizing s with
  | nil => exact Frames.refl _ _
  | cons e r ih =>
    simp only [remapEdges]
    have he := hl e (by simp)
    have step : Frames g' s (if s.edges.any (edgeMatch (if e.a = v then u else e.a) (if e.b = v then u else e.b)) = true then s
        else { s with edges := s.edges ++ [⟨if e.a = v then u else e.a, if e.b = v then u else e.b, e.attrs⟩] }) := by
      by_cases hc : s.edges.any (edgeMatch (if e.a = v then u else e.a) (if e.b = v then u else e.b)) = true
      · rw [if_pos hc]; exact Frames.refl _ _
      · rw [if_neg hc]
        apply frames_appendEdge
        rcases he with he | he
        · left; simp [he, hu]
        · right; simp [he, hu]
    refine Frames.trans step (ih _ ?_ (fun e' he' => hl e' (by simp [he'])))
    rw [step.1]; exact hu

/-- `merge_nodes` touches only the two graphs it names: every third graph keeps its nodes and edges
    (success or failure; the policy must not rewrite `GraphID`) -/
theorem frame_mergeNodes (s : Store) (h : Inv s) (g nid g2 g' : String) (pol : Option (List (String × Policy)))
    (hk : (Op.mergeNodes g nid g2 pol).keepsKeys = true) (h1 : g' ≠ g) (h2 : g' ≠ g2) :
    Frames g' s (mergeNodes g nid g2 pol s).2 := by
  have R := Frames.refl g' s
  unfold mergeNodes
  split
  · exact R
  · refine withNode_pred (Frames g' s) s g nid _ R (fun u hu => ?_)
    split
    · exact R
    · rename_i v hv
      split
      · exact R
      have hnu := findNode_not_in s h g g' nid u hu h1
      have hnv := findNode_not_in s h g2 g' nid v hv h2
      have hcon : Frames g' s (contract u v s) := by
        unfold contract
        simp only
        have f1 := frames_removeNode g' s v hnv
        refine Frames.trans f1 (frames_remapEdges g' u v _ _ (by rw [f1.1]; exact hnu) ?_)
        intro e he
        simpa using (List.mem_filter.1 he).2
      split
      · rename_i mine theirs hmine htheirs
        have hupd : ∀ np, AMap.get graphId np = AMap.get graphId mine → Frames g' s (updNode u (fun _ => np) (contract u v s)) := by
          intro np hnp
          refine Frames.trans hcon ?_
          have hmem : ∀ n ∈ (contract u v s).nodes, n.iid = u → n.attrs = mine ∧ inG g' n = false := by
            intro n hn e
            have hn' : n ∈ s.nodes := by
              unfold contract at hn; simp only at hn
              rw [(remapEdges_nodes u v _ _).1] at hn
              exact (List.mem_filter.1 hn).1
            have ha := nodeAttrs_of_mem s h n hn'
            rw [e, hmine] at ha
            injection ha with ha
            obtain ⟨nu, hnu', eu, gu, _⟩ := findNode_ok s g nid u hu
            have : n = nu := eq_of_nodup_map (·.iid) s.nodes h.1 n hn' nu hnu' (by rw [e, eu])
            refine ⟨ha.symm, ?_⟩
            cases hh : inG g' n with
            | false => rfl
            | true => rw [this] at hh; exact absurd (inG_unique nu g' g hh gu) h1
          apply frames_of
          · unfold nodesOf updNode
            simp only
            apply map_filter_frame
            · intro n hn
              by_cases e : n.iid = u
              · have := hmem n hn e
                simp only [e, if_true]
                simp only [inG, hnp, ← this.1]
              · simp [e]
            · intro n hn hp
              by_cases e : n.iid = u
              · rw [(hmem n hn e).2] at hp; cases hp
              · simp [e]
          · rfl
        cases pol with
        | none => exact hupd mine rfl
        | some pol =>
          simp only
          split
          · exact R
          · rename_i np hnp
            simp only [Op.keepsKeys, Bool.and_eq_true] at hk
            exact hupd np (mergeProps_get theirs pol graphId hk.1 mine np hnp)
      · exact R

end FimVerif.Store
