import FimVerif.Proofs.Lemmas.StoreNidOps
/-! C05: `merge_nodes` — edges kept, edge dictionaries untouched, property policy. Core only. -/
namespace FimVerif.Store
open FimVerif FimVerif.Gen.StoreConsts

def rm (u v i : Nat) : Nat := if i = v then u else i

theorem remapEdges_mono (u v : Nat) (l : List SEdge) (s : Store) : ∀ e ∈ s.edges, e ∈ (remapEdges u v l s).edges := by
  induction l generalizing s with
  | nil => intro e he; exact he
  | cons x r ih =>
    intro e he
    simp only [remapEdges]
    apply ih
    by_cases hc : s.edges.any (edgeMatch (if x.a = v then u else x.a) (if x.b = v then u else x.b)) = true
    · rw [if_pos hc]; exact he
    · rw [if_neg hc]; simp [he]

theorem remapEdges_has (u v : Nat) (l : List SEdge) (s : Store) :
    ∀ x ∈ l, (remapEdges u v l s).edges.any (edgeMatch (rm u v x.a) (rm u v x.b)) = true := by
  induction l generalizing s with
  | nil => intro x hx; cases hx
  | cons y r ih =>
    intro x hx
    simp only [remapEdges]
    rcases List.mem_cons.1 hx with rfl | hx
    · by_cases hc : s.edges.any (edgeMatch (if x.a = v then u else x.a) (if x.b = v then u else x.b)) = true
      · rw [if_pos hc]
        obtain ⟨e, he, hm⟩ := List.any_eq_true.1 hc
        exact List.any_eq_true.2 ⟨e, remapEdges_mono u v r s e he, hm⟩
      · rw [if_neg hc]
        refine List.any_eq_true.2 ⟨⟨rm u v x.a, rm u v x.b, x.attrs⟩, remapEdges_mono u v r _ _ (by simp [rm]), ?_⟩
        simp [edgeMatch]
    · exact ih _ x hx

theorem remapEdges_attrs (u v : Nat) (l : List SEdge) (s : Store) :
    ∀ e' ∈ (remapEdges u v l s).edges, (e' ∈ s.edges) ∨ ∃ x ∈ l, e'.attrs = x.attrs ∧ e'.a = rm u v x.a ∧ e'.b = rm u v x.b := by
  induction l generalizing s with
  | nil => intro e' he'; exact Or.inl he'
  | cons y r ih =>
    intro e' he'
    simp only [remapEdges] at he'
    rcases ih _ e' he' with h | ⟨x, hx, hh⟩
    · by_cases hc : s.edges.any (edgeMatch (if y.a = v then u else y.a) (if y.b = v then u else y.b)) = true
      · rw [if_pos hc] at h; exact Or.inl h
      · rw [if_neg hc] at h
        simp only [List.mem_append, List.mem_singleton] at h
        rcases h with h | rfl
        · exact Or.inl h
        · exact Or.inr ⟨y, by simp, rfl, rfl, rfl⟩
    · exact Or.inr ⟨x, by simp [hx], hh⟩

/-- **merge keeps every edge of both nodes**: every edge of `s` incident to the survivor `u` or to the
    absorbed node `v` has its image (with `v` replaced by `u`) among the edges after the contraction -/
theorem contract_keeps_edges (s : Store) (u v : Nat) (e : SEdge) (he : e ∈ s.edges) :
    (contract u v s).edges.any (edgeMatch (rm u v e.a) (rm u v e.b)) = true := by
  unfold contract
  simp only
  by_cases hv : e.a = v ∨ e.b = v
  · exact remapEdges_has u v _ _ e (by simp [List.mem_filter, he, hv])
  · simp only [not_or] at hv
    refine List.any_eq_true.2 ⟨e, remapEdges_mono u v _ _ e ?_, ?_⟩
    · simp [removeNode, List.mem_filter, he, hv.1, hv.2]
    · simp [edgeMatch, rm, hv.1, hv.2]

/-- … and every edge after the contraction carries the property dictionary of one edge of `s`, unchanged
    (no `contraction` bookkeeping, no mixture) and joins the images of that edge's endpoints -/
theorem contract_edge_attrs (s : Store) (u v : Nat) (e' : SEdge) (he' : e' ∈ (contract u v s).edges) :
    ∃ e ∈ s.edges, e'.attrs = e.attrs ∧ e'.a = rm u v e.a ∧ e'.b = rm u v e.b := by
  unfold contract at he'
  simp only at he'
  rcases remapEdges_attrs u v _ _ e' he' with h | ⟨x, hx, hh⟩
  · simp only [removeNode, List.mem_filter, Bool.and_eq_true, bne_iff_ne, ne_eq] at h
    exact ⟨e', h.1, rfl, by simp [rm, h.2.1], by simp [rm, h.2.2]⟩
  · exact ⟨x, (List.mem_filter.1 hx).1, hh⟩

/-- the policy, property by property: for the first binding `(k, v)` of `mine` -/
theorem mergeProps_policy (theirs : Props) (pol : List (String × Policy)) (l np : Props)
    (h : mergeProps theirs pol l = .ok np) (k : String) (v : Val) (hv : AMap.get k l = some v) :
    AMap.get k np = some (match AMap.get k pol with
      | none => v
      | some .discard => v
      | some .overwrite => (AMap.get k theirs).getD .none
      | some .combine => .pair v ((AMap.get k theirs).getD .none)
      | some .other => .none) := by
  induction l generalizing np with
  | nil => simp [AMap.get] at hv
  | cons x l ih =>
    obtain ⟨k0, v0⟩ := x
    simp only [mergeProps] at h
    split at h
    · cases h
    · rename_i rest hrest
      by_cases e : k0 = k
      · subst e
        simp only [AMap.get, if_true, Option.some.injEq] at hv
        subst hv
        split at h
        · rename_i hp; injection h with h; subst h; simp [AMap.get, hp]
        · rename_i hp; injection h with h; subst h; simp [AMap.get, hp]
        · rename_i hp
          split at h
          · cases h
          · rename_i w hw; injection h with h; subst h; simp [AMap.get, hp, hw]
        · rename_i hp
          split at h
          · cases h
          · rename_i w hw; injection h with h; subst h; simp [AMap.get, hp, hw]
        · rename_i hp; injection h with h; subst h; simp [AMap.get, hp]
      · simp only [AMap.get, e, if_false] at hv
        have ihr := ih rest hrest hv
        have fin : ∀ w, AMap.get k ((k0, w) :: rest) = AMap.get k rest := by intro w; simp [AMap.get, e]
        split at h
        · injection h with h; subst h; rw [fin]; exact ihr
        · injection h with h; subst h; rw [fin]; exact ihr
        · split at h
          · cases h
          · injection h with h; subst h; rw [fin]; exact ihr
        · split at h
          · cases h
          · injection h with h; subst h; rw [fin]; exact ihr
        · injection h with h; subst h; rw [fin]; exact ihr


/-- the policy result for one property -/
def policyVal (pol : Option (List (String × Policy))) (theirs : Props) (k : String) (v : Val) : Val :=
  match pol with
  | none => v
  | some pol =>
    match AMap.get k pol with
    | none => v
    | some .discard => v
    | some .overwrite => (AMap.get k theirs).getD .none
    | some .combine => .pair v ((AMap.get k theirs).getD .none)
    | some .other => .none

/-- everything a successful `merge_nodes` does, in one statement -/
theorem mergeNodes_ok (s : Store) (g nid g2 : String) (pol : Option (List (String × Policy)))
    (hok : (mergeNodes g nid g2 pol s).1 = .ok .unit) :
    ∃ u v mine theirs np, findNode s g nid = .ok u ∧ findNode s g2 nid = .ok v ∧ u ≠ v ∧
      nodeAttrs s u = some mine ∧ nodeAttrs s v = some theirs ∧
      (mergeNodes g nid g2 pol s).2 = updNode u (fun _ => np) (contract u v s) ∧
      AMap.keys np = AMap.keys mine ∧
      (∀ k v0, AMap.get k mine = some v0 → AMap.get k np = some (policyVal pol theirs k v0)) := by
  unfold mergeNodes at hok ⊢
  split at hok
  · cases hok
  · rename_i hne0
    have hne : ¬ nodesOf s g2 = [] := by simpa using hne0
    unfold withNode at hok ⊢
    split at hok
    · cases hok
    · rename_i u hu
      simp only [hu] at hok ⊢
      split at hok
      · cases hok
      · rename_i v hv
        split at hok
        · cases hok
        rename_i huv
        split at hok
        · rename_i mine theirs hmine htheirs
          cases pol with
          | none =>
            refine ⟨u, v, mine, theirs, mine, rfl, hv, huv, hmine, htheirs, ?_, rfl, ?_⟩
            · simp [hne, huv]
            · intro k v0 hk; simpa [policyVal] using hk
          | some pol =>
            simp only at hok
            split at hok
            · cases hok
            · rename_i np hnp
              refine ⟨u, v, mine, theirs, np, rfl, hv, huv, hmine, htheirs, ?_, (mergeProps_spec theirs pol mine np hnp).1, ?_⟩
              · simp [hnp, hne, huv]
              · intro k v0 hk
                simpa [policyVal] using mergeProps_policy theirs pol mine np hnp k v0 hk
        · cases hok

end FimVerif.Store
