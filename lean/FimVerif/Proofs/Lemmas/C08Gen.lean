import FimVerif.Proofs.Lemmas.C08Inv
/-! The removal loops under the invariant: interfaces of a service, services of a component, components and services of
a node.  Each lemma: the function run on `g.minus A` returns `g.minus A'` where the non-link part of `A'` is that of `A`
plus everything below the removed element, and the invariant holds again. -/
namespace FimVerif.Remove

/-- **loop rule**: the steps may rely on what the earlier iterations have deleted -/
theorem foldRes (g : G) (f : G → Nat → Except Err G) (P : Nat → Nat → Prop) :
    ∀ (xs A : List Nat), InvC g A →
      (∀ pfx x sfx, xs = pfx ++ x :: sfx → ∀ A', InvC g A' → (∀ y, y ∈ A → y ∈ A') →
        (∀ y, g.cls? y ≠ some .link → (y ∈ A' ↔ y ∈ A ∨ ∃ x' ∈ pfx, P x' y)) →
        Res g A' (P x) (f (g.minus A') x)) →
      Res g A (fun y => ∃ x ∈ xs, P x y) (xs.foldlM f (g.minus A))
  | [], A, hInv, _ => ⟨A, by simp [List.foldlM_nil, pure, Except.pure], fun _ h => h, fun y _ => by simp, hInv⟩
  | x :: xs, A, hInv, hstep => by
    obtain ⟨A1, hr1, hsub1, hmem1, hInv1⟩ :=
      hstep [] x xs rfl A hInv (fun _ h => h) (fun y _ => by simp)
    have ih := foldRes g f P xs A1 hInv1 (by
      intro pfx x' sfx hxs A'' hInv'' hsub'' hmem''
      apply hstep (x :: pfx) x' sfx (by simp [hxs]) A'' hInv'' (fun y hy => hsub'' y (hsub1 y hy))
      intro y hy
      rw [hmem'' y hy, hmem1 y hy]
      simp only [List.mem_cons, exists_eq_or_imp, or_assoc])
    obtain ⟨A2, hr2, hsub2, hmem2, hInv2⟩ := ih
    refine ⟨A2, ?_, fun y hy => hsub2 y (hsub1 y hy), ?_, hInv2⟩
    · simp only [List.foldlM_cons, hr1, bind, Except.bind]; exact hr2
    · intro y hy
      rw [hmem2 y hy, hmem1 y hy]
      simp only [List.mem_cons, exists_eq_or_imp, or_assoc]

theorem cls_has {g : G} {x : Nat} {c : Cls} (h : g.cls? x = some c) : g.has x = true := by
  simp only [G.cls?, G.has] at h ⊢; cases hf : g.find x <;> simp_all

/-! ### `Below` at each class -/

theorem below_cp_top {g : G} (hI : InvCP g = true) {i : Nat} (hc : g.cls? i = some .cp) (hs : isSub g i = false) (y : Nat) :
    Below g i y ↔ y = i ∨ y ∈ g.nbrs i .connects .cp := by
  rw [below_iff, children_cp_top g hI i hc hs]
  constructor
  · rintro (h | ⟨c, hc', hb⟩)
    · exact Or.inl h
    · have hleaf := children_cp_sub g c (child_nbrs hI hc hs hc').2.2 (child_nbrs hI hc hs hc').2.1
      rcases (below_iff g c y).mp hb with rfl | ⟨a, ha, _⟩
      · exact Or.inr hc'
      · rw [hleaf] at ha; cases ha
  · rintro (h | h)
    · exact Or.inl h
    · exact Or.inr ⟨y, h, Below.refl⟩

theorem port_not_sub {g : G} {s i : Nat} (hc : g.cls? s = some .ns) (hi : i ∈ g.nbrs s .connects .cp) :
    isSub g i = false := by
  have := nbrs_symm g s i _ _ _ hi hc
  simp only [isSub, List.isEmpty_eq_false_iff]
  exact List.ne_nil_of_mem this

theorem below_ns {g : G} {s : Nat} (hc : g.cls? s = some .ns) (y : Nat) :
    Below g s y ↔ y = s ∨ ∃ i ∈ g.nbrs s .connects .cp, Below g i y := by
  rw [below_iff]; simp [children, hc]

theorem below_comp {g : G} {c : Nat} (hc : g.cls? c = some .comp) (y : Nat) :
    Below g c y ↔ y = c ∨ ∃ s ∈ g.nbrs c .has .ns, Below g s y := by
  rw [below_iff]; simp [children, hc]

theorem below_node {g : G} {n : Nat} (hc : g.cls? n = some .node) (y : Nat) :
    Below g n y ↔ y = n ∨ (∃ c ∈ g.nbrs n .has .comp, Below g c y) ∨ ∃ s ∈ g.nbrs n .has .ns, Below g s y := by
  rw [below_iff]; simp only [children, hc, List.mem_append]
  constructor
  · rintro (h | ⟨a, ha | ha, hb⟩)
    · exact Or.inl h
    · exact Or.inr (Or.inl ⟨a, ha, hb⟩)
    · exact Or.inr (Or.inr ⟨a, ha, hb⟩)
  · rintro (h | ⟨a, ha, hb⟩ | ⟨a, ha, hb⟩)
    · exact Or.inl h
    · exact Or.inr ⟨a, Or.inl ha, hb⟩
    · exact Or.inr ⟨a, Or.inr ha, hb⟩

/-- what is below an element has a class, and it is never Link -/
theorem children_cls {g : G} {x y : Nat} (h : y ∈ children g x) : ∃ c, g.cls? y = some c ∧ c ≠ .link := by
  unfold children at h
  split at h
  · rcases List.mem_append.mp h with h | h
    · exact ⟨_, mem_nbrs_cls _ _ _ _ _ h, by decide⟩
    · exact ⟨_, mem_nbrs_cls _ _ _ _ _ h, by decide⟩
  · exact ⟨_, mem_nbrs_cls _ _ _ _ _ h, by decide⟩
  · exact ⟨_, mem_nbrs_cls _ _ _ _ _ h, by decide⟩
  · split at h
    · cases h
    · exact ⟨_, mem_nbrs_cls _ _ _ _ _ (List.mem_filter.mp h).1, by decide⟩
  · cases h

theorem below_cls {g : G} {x y : Nat} {k : Cls} (hx : g.cls? x = some k) (hk : k ≠ .link) (h : Below g x y) :
    g.cls? y ≠ some .link := by
  induction h with
  | refl => rw [hx]; intro h; exact hk (Option.some.inj h)
  | step _ hb _ =>
    obtain ⟨c, hc, hne⟩ := children_cls hb
    rw [hc]; intro h; exact hne (Option.some.inj h)

/-- downward closure: with an element, `A` contains what it directly owns -/
def DownC (g : G) (A : List Nat) : Prop := ∀ x ∈ A, ∀ y ∈ children g x, y ∈ A

theorem downC_nil (g : G) : DownC g [] := fun _ h => by cases h

theorem downC_below {g : G} {A : List Nat} (h : DownC g A) {x y : Nat} (hx : x ∈ A) (hb : Below g x y) : y ∈ A := by
  induction hb with
  | refl => exact hx
  | step _ hc ih => exact h _ ih _ hc

/-- a result whose new elements form a set closed under `children` keeps the closure -/
theorem downC_of_mem {g : G} {A A' : List Nat} {P : Nat → Prop} (h : DownC g A)
    (hP : ∀ x y, P x → y ∈ children g x → P y) (hsub : ∀ y, y ∈ A → y ∈ A')
    (hmem : ∀ y, g.cls? y ≠ some .link → (y ∈ A' ↔ y ∈ A ∨ P y)) : DownC g A' := by
  intro x hx y hy
  obtain ⟨c, hc, hne⟩ := children_cls hy
  have hyl : g.cls? y ≠ some .link := by rw [hc]; intro h; exact hne (Option.some.inj h)
  by_cases hxl : g.cls? x = some .link
  · simp [children, hxl] at hy
  · rcases (hmem x hxl).mp hx with hxA | hxP
    · exact hsub y (h x hxA y hy)
    · exact (hmem y hyl).mpr (Or.inr (hP x y hxP hy))

/-- **a port of a service (with its sub-interfaces), or a ServicePort** -/
theorem removeCpTop_below (g : G) (hW : WF g = true) (A : List Nat) (hInv : InvC g A) (i : Nat)
    (hc : g.cls? i = some .cp) (hs : isSub g i = false) (hiA : i ∉ A) :
    Res g A (Below g i) (removeCp (g.minus A) i true) :=
  (removeCpTop_res g hW A hInv i hc hs hiA).congr (fun y _ => by rw [below_cp_top (wf_cp hW) hc hs y])

theorem sublist_filter_nodup {l : List Nat} (p : Nat → Bool) (h : l.Nodup) : (l.filter p).Nodup :=
  List.Nodup.sublist List.filter_sublist h

theorem nodup_split {l pfx sfx : List Nat} {x : Nat} (h : l.Nodup) (e : l = pfx ++ x :: sfx) : x ∉ pfx := by
  subst e
  intro hx
  have := List.nodup_append.mp h
  exact this.2.2 x hx x (by simp) rfl

/-- **`remove_ns_with_cps_and_links`** after `A` -/
theorem removeNs_res (g : G) (hW : WF g = true) (A : List Nat) (hInv : InvC g A) (s : Nat)
    (hc : g.cls? s = some .ns) (hsA : s ∉ A) : Res g A (Below g s) (removeNs (g.minus A) s) := by
  have hI := wf_cp hW
  have hsA' : A.contains s = false := by simpa [List.contains_eq_mem] using hsA
  have hc' : (g.minus A).cls? s = some .ns := by rw [cls_minus, hsA']; simpa using hc
  simp only [removeNs, hc', beq_self_eq_true, ite_true]
  rw [nbrs_minus g A s _ _ hsA', minus_minus]
  -- the invariant after the service itself is deleted
  have hInv0 : InvC g (A ++ [s]) := by
    refine ⟨linkOK_other g A _ hInv.1 ?_ ?_, ?_⟩
    · intro y hy; simp only [List.mem_append, List.mem_singleton]
      constructor
      · rintro (h | rfl)
        · exact h
        · rw [hc] at hy; cases hy
      · exact Or.inl
    · intro y hy; simp only [List.mem_append, List.mem_singleton]
      constructor
      · rintro (h | rfl)
        · exact h
        · rw [hc] at hy; cases hy
      · exact Or.inl
    · intro i hi his c hcn
      have hcc := child_nbrs hI hi his hcn
      simp only [List.mem_append, List.mem_singleton]
      have : c ≠ s := by rintro rfl; rw [hc] at hcc; cases hcc.2.2
      have : i ≠ s := by rintro rfl; rw [hc] at hi; cases hi
      rw [hInv.2 i hi his c hcn]; simp [*]
  let I := (g.nbrs s .connects .cp).filter (fun y => !A.contains y)
  have hInd : I.Nodup := sublist_filter_nodup _ (wf_nodup hW hc _ _)
  have hloop := foldRes g (fun g i => removeCp g i true) (fun i => Below g i) I (A ++ [s]) hInv0 (by
    intro pfx i sfx hsplit A' hInv' hsub' hmem'
    have hiI : i ∈ I := by rw [hsplit]; simp
    have hip : i ∈ g.nbrs s .connects .cp := (List.mem_filter.mp hiI).1
    have hicp := mem_nbrs_cls _ _ _ _ _ hip
    have his := port_not_sub hc hip
    apply removeCpTop_below g hW A' hInv' i hicp his
    intro hiA'
    have hnl : g.cls? i ≠ some .link := by rw [hicp]; intro h; cases h
    rcases (hmem' i hnl).mp hiA' with h | ⟨i', hi', hb⟩
    · rcases List.mem_append.mp h with h | h
      · have := (List.mem_filter.mp hiI).2; simp [List.contains_eq_mem, h] at this
      · simp only [List.mem_singleton] at h; subst h; rw [hc] at hicp; cases hicp
    · have hi'I : i' ∈ I := by rw [hsplit]; simp [hi']
      have hi'p : i' ∈ g.nbrs s .connects .cp := (List.mem_filter.mp hi'I).1
      rcases (below_cp_top hI (mem_nbrs_cls _ _ _ _ _ hi'p) (port_not_sub hc hi'p) i).mp hb with rfl | h
      · exact nodup_split hInd hsplit hi'
      · have := (child_nbrs hI (mem_nbrs_cls _ _ _ _ _ hi'p) (port_not_sub hc hi'p) h).2.1
        rw [his] at this; cases this)
  obtain ⟨A', hr, hsub, hmem, hInv'⟩ := hloop
  refine ⟨A', hr, fun y hy => hsub y (List.mem_append_left _ hy), ?_, hInv'⟩
  intro y hy
  rw [hmem y hy, below_ns hc]
  simp only [List.mem_append, List.mem_singleton, or_assoc]
  constructor
  · rintro (h | h | ⟨i, hi, hb⟩)
    · exact Or.inl h
    · exact Or.inr (Or.inl h)
    · exact Or.inr (Or.inr ⟨i, (List.mem_filter.mp hi).1, hb⟩)
  · rintro (h | h | ⟨i, hi, hb⟩)
    · exact Or.inl h
    · exact Or.inr (Or.inl h)
    · by_cases hiA : i ∈ A
      · -- a port already gone took its sub-interfaces with it
        left
        rcases (below_cp_top hI (mem_nbrs_cls _ _ _ _ _ hi) (port_not_sub hc hi) y).mp hb with rfl | h
        · exact hiA
        · exact (hInv.2 i (mem_nbrs_cls _ _ _ _ _ hi) (port_not_sub hc hi) y h).mpr hiA
      · exact Or.inr (Or.inr ⟨i, List.mem_filter.mpr ⟨hi, by simpa [List.contains_eq_mem] using hiA⟩, hb⟩)


/-- below a service there is the service and connection points -/
theorem below_ns_cls {g : G} (hI : InvCP g = true) {s y : Nat} (hc : g.cls? s = some .ns) (h : Below g s y) :
    y = s ∨ g.cls? y = some .cp := by
  rcases (below_ns hc y).mp h with h | ⟨i, hi, hb⟩
  · exact Or.inl h
  · exact Or.inr (below_cp_cls g hI i (mem_nbrs_cls _ _ _ _ _ hi) (port_not_sub hc hi) y hb)

/-- below a component: the component, services, connection points -/
theorem below_comp_cls {g : G} (hI : InvCP g = true) {c y : Nat} (hc : g.cls? c = some .comp) (h : Below g c y) :
    y = c ∨ g.cls? y = some .ns ∨ g.cls? y = some .cp := by
  rcases (below_comp hc y).mp h with h | ⟨s, hs, hb⟩
  · exact Or.inl h
  · rcases below_ns_cls hI (mem_nbrs_cls _ _ _ _ _ hs) hb with rfl | h
    · exact Or.inr (Or.inl (mem_nbrs_cls _ _ _ _ _ hs))
    · exact Or.inr (Or.inr h)

theorem invC_add_other (g : G) {A : List Nat} (hI : InvCP g = true) (hInv : InvC g A) (x : Nat) {k : Cls}
    (hx : g.cls? x = some k) (hk1 : k ≠ .cp) (hk2 : k ≠ .link) : InvC g (A ++ [x]) := by
  have hne : ∀ y c, g.cls? y = some c → (c = .cp ∨ c = .link) → y ≠ x := by
    rintro y c hy hc rfl
    rw [hx] at hy
    rcases hc with rfl | rfl
    · exact hk1 (Option.some.inj hy)
    · exact hk2 (Option.some.inj hy)
  refine ⟨linkOK_other g A _ hInv.1 ?_ ?_, ?_⟩
  · intro y hy; simp only [List.mem_append, List.mem_singleton]
    exact ⟨fun h => h.elim id (fun h => absurd h (hne y _ hy (Or.inl rfl))), Or.inl⟩
  · intro y hy; simp only [List.mem_append, List.mem_singleton]
    exact ⟨fun h => h.elim id (fun h => absurd h (hne y _ hy (Or.inr rfl))), Or.inl⟩
  · intro i hi his c hcn
    have hcc := child_nbrs hI hi his hcn
    simp only [List.mem_append, List.mem_singleton]
    have h1 := hne c _ hcc.2.2 (Or.inl rfl)
    have h2 := hne i _ hi (Or.inl rfl)
    rw [hInv.2 i hi his c hcn]; simp [h1, h2]

/-- **`remove_component_with_nss_cps_and_links`** after `A` -/
theorem removeComp_res (g : G) (hW : WF g = true) (A : List Nat) (hInv : InvC g A) (hD : DownC g A) (c : Nat)
    (hc : g.cls? c = some .comp) (hcA : c ∉ A) : Res g A (Below g c) (removeComp (g.minus A) c) := by
  have hI := wf_cp hW
  have hcA' : A.contains c = false := by simpa [List.contains_eq_mem] using hcA
  have hc' : (g.minus A).cls? c = some .comp := by rw [cls_minus, hcA']; simpa using hc
  simp only [removeComp, hc', beq_self_eq_true, ite_true]
  rw [nbrs_minus g A c _ _ hcA', minus_minus]
  have hInv0 : InvC g (A ++ [c]) := invC_add_other g hI hInv c hc (by decide) (by decide)
  let S := (g.nbrs c .has .ns).filter (fun y => !A.contains y)
  have hSnd : S.Nodup := sublist_filter_nodup _ (wf_nodup hW hc _ _)
  have hloop := foldRes g removeNs (fun s => Below g s) S (A ++ [c]) hInv0 (by
    intro pfx s sfx hsplit A' hInv' hsub' hmem'
    have hsS : s ∈ S := by rw [hsplit]; simp
    have hsp : s ∈ g.nbrs c .has .ns := (List.mem_filter.mp hsS).1
    have hsns := mem_nbrs_cls _ _ _ _ _ hsp
    apply removeNs_res g hW A' hInv' s hsns
    intro hsA'
    have hnl : g.cls? s ≠ some .link := by rw [hsns]; intro h; cases h
    rcases (hmem' s hnl).mp hsA' with h | ⟨s', hs', hb⟩
    · rcases List.mem_append.mp h with h | h
      · have := (List.mem_filter.mp hsS).2; simp [List.contains_eq_mem, h] at this
      · simp only [List.mem_singleton] at h; subst h; rw [hc] at hsns; cases hsns
    · have hs'S : s' ∈ S := by rw [hsplit]; simp [hs']
      have hs'ns := mem_nbrs_cls _ _ _ _ _ (List.mem_filter.mp hs'S).1
      rcases below_ns_cls hI hs'ns hb with rfl | h
      · exact nodup_split hSnd hsplit hs'
      · rw [hsns] at h; cases h)
  obtain ⟨A', hr, hsub, hmem, hInv'⟩ := hloop
  refine ⟨A', hr, fun y hy => hsub y (List.mem_append_left _ hy), ?_, hInv'⟩
  intro y hy
  rw [hmem y hy, below_comp hc]
  simp only [List.mem_append, List.mem_singleton, or_assoc]
  constructor
  · rintro (h | h | ⟨s, hs, hb⟩)
    · exact Or.inl h
    · exact Or.inr (Or.inl h)
    · exact Or.inr (Or.inr ⟨s, (List.mem_filter.mp hs).1, hb⟩)
  · rintro (h | h | ⟨s, hs, hb⟩)
    · exact Or.inl h
    · exact Or.inr (Or.inl h)
    · by_cases hsA : s ∈ A
      · exact Or.inl (downC_below hD hsA hb)
      · exact Or.inr (Or.inr ⟨s, List.mem_filter.mpr ⟨hs, by simpa [List.contains_eq_mem] using hsA⟩, hb⟩)

theorem below_closed_pfx (g : G) (pfx : List Nat) :
    ∀ x y, (∃ x' ∈ pfx, Below g x' x) → y ∈ children g x → ∃ x' ∈ pfx, Below g x' y :=
  fun _ _ ⟨x', hx', hb⟩ hy => ⟨x', hx', Below.step hb hy⟩

/-- **`remove_network_node_with_components_nss_cps_and_links`** after `A` -/
theorem removeNodeG_res (g : G) (hW : WF g = true) (A : List Nat) (hInv : InvC g A) (hD : DownC g A) (n : Nat)
    (hc : g.cls? n = some .node) (hnA : n ∉ A) : Res g A (Below g n) (removeNodeG (g.minus A) n) := by
  have hI := wf_cp hW
  have hnA' : A.contains n = false := by simpa [List.contains_eq_mem] using hnA
  have hc' : (g.minus A).cls? n = some .node := by rw [cls_minus, hnA']; simpa using hc
  simp only [removeNodeG, hc', beq_self_eq_true, ite_true]
  rw [nbrs_minus g A n _ _ hnA']
  let C := (g.nbrs n .has .comp).filter (fun y => !A.contains y)
  have hCnd : C.Nodup := sublist_filter_nodup _ (wf_nodup hW hc _ _)
  -- the components
  have hloop1 := foldRes g removeComp (fun c => Below g c) C A hInv (by
    intro pfx c sfx hsplit A' hInv' hsub' hmem'
    have hcC : c ∈ C := by rw [hsplit]; simp
    have hcp : c ∈ g.nbrs n .has .comp := (List.mem_filter.mp hcC).1
    have hccomp := mem_nbrs_cls _ _ _ _ _ hcp
    apply removeComp_res g hW A' hInv' (downC_of_mem hD (below_closed_pfx g pfx) hsub' hmem') c hccomp
    intro hcA'
    have hnl : g.cls? c ≠ some .link := by rw [hccomp]; intro h; cases h
    rcases (hmem' c hnl).mp hcA' with h | ⟨c', hc'', hb⟩
    · have := (List.mem_filter.mp hcC).2; simp [List.contains_eq_mem, h] at this
    · have hc'C : c' ∈ C := by rw [hsplit]; simp [hc'']
      have hc'comp := mem_nbrs_cls _ _ _ _ _ (List.mem_filter.mp hc'C).1
      rcases below_comp_cls hI hc'comp hb with rfl | h | h
      · exact nodup_split hCnd hsplit hc''
      · rw [hccomp] at h; cases h
      · rw [hccomp] at h; cases h)
  obtain ⟨A1, hr1, hsub1, hmem1, hInv1⟩ := hloop1
  simp only [bind, Except.bind]
  rw [show List.foldlM removeComp (g.minus A) (List.filter (fun y => !A.contains y) (g.nbrs n Rel.has Cls.comp)) = _ from hr1]
  simp only []
  have hnA1 : n ∉ A1 := by
    intro h
    have hnl : g.cls? n ≠ some .link := by rw [hc]; intro h; cases h
    rcases (hmem1 n hnl).mp h with h | ⟨c, hcC, hb⟩
    · exact hnA h
    · have hccomp := mem_nbrs_cls _ _ _ _ _ (List.mem_filter.mp hcC).1
      rcases below_comp_cls hI hccomp hb with rfl | h | h
      · rw [hc] at hccomp; cases hccomp
      · rw [hc] at h; cases h
      · rw [hc] at h; cases h
  have hnA1' : A1.contains n = false := by simpa [List.contains_eq_mem] using hnA1
  rw [nbrs_minus g A1 n _ _ hnA1', minus_minus]
  have hInv0 : InvC g (A1 ++ [n]) := invC_add_other g hI hInv1 n hc (by decide) (by decide)
  let S := (g.nbrs n .has .ns).filter (fun y => !A1.contains y)
  have hSnd : S.Nodup := sublist_filter_nodup _ (wf_nodup hW hc _ _)
  have hloop2 := foldRes g removeNs (fun s => Below g s) S (A1 ++ [n]) hInv0 (by
    intro pfx s sfx hsplit A' hInv' hsub' hmem'
    have hsS : s ∈ S := by rw [hsplit]; simp
    have hsp : s ∈ g.nbrs n .has .ns := (List.mem_filter.mp hsS).1
    have hsns := mem_nbrs_cls _ _ _ _ _ hsp
    apply removeNs_res g hW A' hInv' s hsns
    intro hsA'
    have hnl : g.cls? s ≠ some .link := by rw [hsns]; intro h; cases h
    rcases (hmem' s hnl).mp hsA' with h | ⟨s', hs', hb⟩
    · rcases List.mem_append.mp h with h | h
      · have := (List.mem_filter.mp hsS).2; simp [List.contains_eq_mem, h] at this
      · simp only [List.mem_singleton] at h; subst h; rw [hc] at hsns; cases hsns
    · have hs'S : s' ∈ S := by rw [hsplit]; simp [hs']
      have hs'ns := mem_nbrs_cls _ _ _ _ _ (List.mem_filter.mp hs'S).1
      rcases below_ns_cls hI hs'ns hb with rfl | h
      · exact nodup_split hSnd hsplit hs'
      · rw [hsns] at h; cases h)
  obtain ⟨A2, hr2, hsub2, hmem2, hInv2⟩ := hloop2
  refine ⟨A2, hr2, fun y hy => hsub2 y (List.mem_append_left _ (hsub1 y hy)), ?_, hInv2⟩
  have hD1 : DownC g A1 := downC_of_mem hD (below_closed_pfx g C) hsub1 hmem1
  intro y hy
  rw [hmem2 y hy, below_node hc]
  simp only [List.mem_append, List.mem_singleton, hmem1 y hy, or_assoc]
  constructor
  · rintro (h | ⟨c, hcC, hb⟩ | h | ⟨s, hs, hb⟩)
    · exact Or.inl h
    · exact Or.inr (Or.inr (Or.inl ⟨c, (List.mem_filter.mp hcC).1, hb⟩))
    · exact Or.inr (Or.inl h)
    · exact Or.inr (Or.inr (Or.inr ⟨s, (List.mem_filter.mp hs).1, hb⟩))
  · rintro (h | h | ⟨c, hcn, hb⟩ | ⟨s, hs, hb⟩)
    · exact Or.inl h
    · exact Or.inr (Or.inr (Or.inl h))
    · by_cases hcA : c ∈ A
      · exact Or.inl (downC_below hD hcA hb)
      · exact Or.inr (Or.inl ⟨c, List.mem_filter.mpr ⟨hcn, by simpa [List.contains_eq_mem] using hcA⟩, hb⟩)
    · by_cases hsA1 : s ∈ A1
      · have := downC_below hD1 hsA1 hb
        rcases (hmem1 y hy).mp this with h | h
        · exact Or.inl h
        · exact Or.inr (Or.inl h)
      · exact Or.inr (Or.inr (Or.inr ⟨s, List.mem_filter.mpr ⟨hs, by simpa [List.contains_eq_mem] using hsA1⟩, hb⟩))

end FimVerif.Remove
