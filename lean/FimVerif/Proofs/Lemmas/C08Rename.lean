import FimVerif.Model.RemoveNames
/-!
# Renaming (C08): `ModelElement.rename` / the `name` setter write the Name property of one element

The model has no lookup index: what a name denotes is a function of the graph and the names as they are NOW.
-/
namespace FimVerif.Remove

/-- `ModelElement.rename(new)` / `element.name = new`: the Name of `x` becomes `new`; no other entry changes -/
def Dir.rename (d : Dir) (x new : Nat) : Dir :=
  { d with names := d.names.map (fun p => if p.1 == x then (p.1, new) else p) }

/-- the only name a renamed element answers to is the new one -/
theorem nameOf_rename_self (d : Dir) (x new nm : Nat) (h : (d.rename x new).nameOf x = some nm) : nm = new := by
  unfold Dir.nameOf Dir.rename at h
  simp only [Option.map_eq_some_iff] at h
  obtain ⟨p, hf, hp2⟩ := h
  have h1 := List.find?_some hf
  have hm := List.mem_of_find?_eq_some hf
  obtain ⟨q, _, hq⟩ := List.mem_map.mp hm
  by_cases hqx : (q.1 == x) = true
  · rw [if_pos hqx] at hq
    rw [← hq] at hp2
    exact hp2.symm
  · rw [if_neg hqx] at hq
    rw [← hq] at h1
    exact absurd h1 hqx
end FimVerif.Remove
