import FimVerif.Proofs.Lemmas.TopoAtomicFac
/-! `add_component_sliver` with its clean-up (`Topo.compGuard`): the states the catalogue expansion of a component
passes through once the Component node exists (`comp0`: the node under its parent; `comp1`: plus its network service and
some of its interfaces), and what `remove_component_with_nss_cps_and_links` does to such a state: it gives back exactly
the state the call started from.  Whichever id is taken - the service's, the k-th interface's, one repeated inside the
call - the failing `add_node` leaves one of these states behind.

Everything here is independent of the value of `Gen.Rules.componentRollback`, except the final statements which take
`Gen.Rules.componentRollback = true` as a hypothesis (or case-split on the flag). -/
namespace FimVerif.Topo
open FimVerif FimVerif.M

/-- one interface of the catalogue expansion: the ConnectionPoint, then the edge from the component's service -/
def compPort (sn : Nid) (cname : String) (x : Gen.Rules.CatIface × Nid) : M Topo Unit := do
  addGNode ⟨.connectionPoint, x.2, cname ++ "-" ++ x.1.port, x.1.itype, x.1.props⟩
  addEdge sn .connects x.2

/-- what `add_component_sliver` does once the Component node exists: the edge from the parent, then (for a component with
interfaces) its network service and the service's interfaces -/
def compAttach (parent id : Nid) (b : Bool) (sn : GNode) (cname : String) (cl : List (Gen.Rules.CatIface × Nid)) : M Topo Unit := do
  addEdge parent .has id
  if b then do
    addGNode sn
    addEdge id .has sn.nid
    forEach cl (compPort sn.nid cname)
  else Pure.pure ()

/-- `s` plus a component `cn` hanging off `pn` -/
def comp0 (s : Topo) (pn cn : GNode) : Topo :=
  { nodes := s.nodes ++ [cn], edges := s.edges ++ [⟨pn.ref, cn.ref, .has⟩] }

/-- … plus the component's service `sn` and interfaces `cps` of that service -/
def comp1 (s : Topo) (pn cn sn : GNode) (cps : List GNode) : Topo :=
  { nodes := s.nodes ++ [cn, sn] ++ cps,
    edges := s.edges ++ [⟨pn.ref, cn.ref, .has⟩, ⟨cn.ref, sn.ref, .has⟩] ++ cps.map (fun cp => ⟨sn.ref, cp.ref, .connects⟩) }

/-- the component seen as the head node of a `fac` construct (only its id matters there) -/
def asNode (cn : GNode) : GNode := { cn with cls := .networkNode }

theorem asNode_nid (cn : GNode) : (asNode cn).nid = cn.nid := rfl

structure CompOk (s : Topo) (pn cn sn : GNode) (cps : List GNode) : Prop where
  fo : FacOk s (asNode cn) sn cps
  pm : pn ∈ s.nodes
  ccls : cn.cls = .component
  pcls : pn.cls ≠ .networkService

/-- hypotheses about the freshly created component -/
structure CompNew (s : Topo) (pn cn : GNode) : Prop where
  closed : Closed s
  ds : IdsDistinct s
  pm : pn ∈ s.nodes
  ccls : cn.cls = .component
  pcls : pn.cls ≠ .networkService
  fcn : ∀ m ∈ s.nodes, m.nid ≠ cn.nid

/-! ### `FacOk` grows by one interface -/

theorem FacOk.snoc {s : Topo} {fn sn : GNode} {cps : List GNode} (h : FacOk s fn sn cps) {n : GNode}
    (hcls : n.cls = .connectionPoint) (hfr : ∀ m, m ∈ s.nodes ∨ m = fn ∨ m = sn ∨ m ∈ cps → m.nid ≠ n.nid) :
    FacOk s fn sn (cps ++ [n]) :=
  { closed := h.closed, ds := h.ds, fcls := h.fcls, scls := h.scls
    ccls := by
      intro c' hc'
      rcases List.mem_append.mp hc' with hc' | hc'
      · exact h.ccls c' hc'
      · simp only [List.mem_singleton] at hc'; subst hc'; exact hcls
    ffn := h.ffn, fsn := h.fsn
    fcp := by
      intro c' hc' m hm
      rcases List.mem_append.mp hc' with hc' | hc'
      · exact h.fcp c' hc' m hm
      · simp only [List.mem_singleton] at hc'; subst hc'; exact hfr m (.inl hm)
    nfs := h.nfs
    ncf := by
      intro c' hc'
      rcases List.mem_append.mp hc' with hc' | hc'
      · exact h.ncf c' hc'
      · simp only [List.mem_singleton] at hc'; subst hc'
        exact ⟨fun e => hfr fn (.inr (.inl rfl)) e.symm, fun e => hfr sn (.inr (.inr (.inl rfl))) e.symm⟩
    ncc := by
      rw [List.map_append, List.nodup_append]
      refine ⟨h.ncc, by simp, ?_⟩
      intro a ha b hb
      simp only [List.map_cons, List.map_nil, List.mem_singleton] at hb
      subst hb
      obtain ⟨c', hc', rfl⟩ := List.mem_map.mp ha
      exact hfr c' (.inr (.inr (.inr hc'))) }

/-- `remove_ns_with_cps_and_links` on the service of a partial construct whose head node is already gone -/
theorem removeNs_fac1 {s : Topo} {fn sn : GNode} {cps : List GNode} (h : FacOk s fn sn cps) :
    removeNs sn.nid (fac1 s sn cps) = (.ok (), s) := by
  have hsn1 : sn ∈ (fac1 s sn cps).nodes := by simp [fac1]
  unfold removeNs
  rw [bind_ok (findNode_of_mem (fac1_dist h) hsn1), bind_ok (guard_run (by simp [h.scls])),
    bind_ok (firstNeighbor_run (fac1_dist h) hsn1 .connects .connectionPoint), nb_sn_cp h,
    bind_ok (deleteNode_run (fac1_dist h) hsn1), drop_sn h]
  exact loop_cps h.closed cps (fac2_dist h) h.fcp

/-! ### the two partial states -/

section
variable {s : Topo} {pn cn sn : GNode} {cps : List GNode}

theorem comp1_nids : (comp1 s pn cn sn cps).nodes.map (·.nid) = (fac s (asNode cn) sn cps).nodes.map (·.nid) := by
  simp [comp1, fac, asNode]

theorem comp1_dist (h : CompOk s pn cn sn cps) : IdsDistinct (comp1 s pn cn sn cps) := by
  unfold IdsDistinct; rw [comp1_nids]; exact h.fo.dist

theorem cn_mem1 : cn ∈ (comp1 s pn cn sn cps).nodes := by simp [comp1]
theorem sn_mem1 : sn ∈ (comp1 s pn cn sn cps).nodes := by simp [comp1]

theorem CompOk.fcn (h : CompOk s pn cn sn cps) : ∀ m ∈ s.nodes, m.nid ≠ cn.nid := h.fo.ffn
theorem CompOk.ncs (h : CompOk s pn cn sn cps) : cn.nid ≠ sn.nid := h.fo.nfs

theorem mem_comp1_edges {e : GEdge} : e ∈ (comp1 s pn cn sn cps).edges ↔
    e ∈ s.edges ∨ e = ⟨pn.ref, cn.ref, .has⟩ ∨ e = ⟨cn.ref, sn.ref, .has⟩ ∨ ∃ c ∈ cps, e = ⟨sn.ref, c.ref, .connects⟩ := by
  simp only [comp1, List.mem_append, List.mem_cons, List.mem_nil_iff, or_false, List.mem_map]
  constructor
  · rintro ((h | h | h) | ⟨c, hc, rfl⟩)
    · exact .inl h
    · exact .inr (.inl h)
    · exact .inr (.inr (.inl h))
    · exact .inr (.inr (.inr ⟨c, hc, rfl⟩))
  · rintro (h | h | h | ⟨c, hc, rfl⟩)
    · exact .inl (.inl h)
    · exact .inl (.inr (.inl h))
    · exact .inl (.inr (.inr h))
    · exact .inr ⟨c, hc, rfl⟩

theorem closed_comp1 (h : CompOk s pn cn sn cps) : Closed (comp1 s pn cn sn cps) := by
  intro e he
  rcases mem_comp1_edges.mp he with he | rfl | rfl | ⟨c, hc, rfl⟩
  · obtain ⟨⟨x, hx, hxe⟩, ⟨y, hy, hye⟩⟩ := h.fo.closed e he
    exact ⟨⟨x, by simp [comp1, hx], hxe⟩, ⟨y, by simp [comp1, hy], hye⟩⟩
  · exact ⟨⟨pn, by simp [comp1, h.pm], rfl⟩, ⟨cn, cn_mem1, rfl⟩⟩
  · exact ⟨⟨cn, cn_mem1, rfl⟩, ⟨sn, sn_mem1, rfl⟩⟩
  · exact ⟨⟨sn, sn_mem1, rfl⟩, ⟨c, by simp [comp1, hc], rfl⟩⟩

/-- the has-neighbours of the component: its parent and its service -/
theorem adj_cn (h : CompOk s pn cn sn cps) {x : Ref} :
    adjacent (comp1 s pn cn sn cps) cn.ref x .has = true ↔ (x = pn.ref ∨ x = sn.ref) := by
  have hsc : ¬ sn.ref = cn.ref := ref_ne_of_nid_ne (fun e => h.ncs e.symm)
  have hpc : ¬ pn.ref = cn.ref := ref_ne_of_nid_ne (h.fcn pn h.pm)
  rw [adjacent_iff]
  constructor
  · rintro ⟨e, he, _, hs⟩
    rw [sameEnds_iff] at hs
    rcases mem_comp1_edges.mp he with he | rfl | rfl | ⟨c, hc, rfl⟩
    · exfalso
      apply not_touch_new h.fo.closed (x := cn) h.fcn
      rcases hs with ⟨h1, _⟩ | ⟨_, h2⟩
      · exact ⟨e, he, .inl h1⟩
      · exact ⟨e, he, .inr h2⟩
    · rcases hs with ⟨h1, _⟩ | ⟨h1, _⟩
      · exact absurd h1 hpc
      · exact .inl h1.symm
    · rcases hs with ⟨_, h2⟩ | ⟨_, h2⟩
      · exact .inr h2.symm
      · exact absurd h2 hsc
    · have hcf : ¬ c.ref = cn.ref := ref_ne_of_nid_ne (x := c) (y := cn) (h.fo.ncf c hc).1
      rcases hs with ⟨h1, _⟩ | ⟨_, h2⟩
      · exact absurd h1 hsc
      · exact absurd h2 hcf
  · rintro (rfl | rfl)
    · exact ⟨⟨pn.ref, cn.ref, .has⟩, mem_comp1_edges.mpr (.inr (.inl rfl)), rfl, sameEnds_iff.mpr (.inr ⟨rfl, rfl⟩)⟩
    · exact ⟨⟨cn.ref, sn.ref, .has⟩, mem_comp1_edges.mpr (.inr (.inr (.inl rfl))), rfl, sameEnds_iff.mpr (.inl ⟨rfl, rfl⟩)⟩

theorem nb_cn_ns (h : CompOk s pn cn sn cps) : neighbors (comp1 s pn cn sn cps) cn.ref .has .networkService = [sn] := by
  unfold neighbors
  refine filter_singleton (comp1_dist h) sn_mem1 (fun y hy => ?_)
  simp only [Bool.and_eq_true, beq_iff_eq]
  constructor
  · rintro ⟨hcls, hadj⟩
    rcases (adj_cn h).mp hadj with hx | hx
    · have hm : pn ∈ (comp1 s pn cn sn cps).nodes := by simp [comp1, h.pm]
      have := (ref_eq_iff (comp1_dist h) hy hm).mp hx
      subst this
      exact absurd hcls h.pcls
    · exact (ref_eq_iff (comp1_dist h) hy sn_mem1).mp hx
  · rintro rfl
    exact ⟨h.fo.scls, (adj_cn h).mpr (.inr rfl)⟩

theorem drop_cn (h : CompOk s pn cn sn cps) : dropNode cn.ref (comp1 s pn cn sn cps) = fac1 s sn cps := by
  have hsc : ¬ sn.ref = cn.ref := ref_ne_of_nid_ne (fun e => h.ncs e.symm)
  have hpc : ¬ pn.ref = cn.ref := ref_ne_of_nid_ne (h.fcn pn h.pm)
  unfold dropNode comp1 fac1
  congr 1
  · simp only [List.filter_append, filter_nodes_new h.fcn, filter_cps_ne (x := cn) (fun c hc => (h.fo.ncf c hc).1)]
    simp [List.filter_cons, hsc]
  · simp only [List.filter_append, filter_untouched h.fo.closed h.fcn]
    have h1 : ([⟨pn.ref, cn.ref, .has⟩, ⟨cn.ref, sn.ref, .has⟩] : List GEdge).filter (fun e => e.a != cn.ref && e.b != cn.ref) = [] := by
      simp
    have h2 : (cps.map (fun cp => (⟨sn.ref, cp.ref, .connects⟩ : GEdge))).filter (fun e => e.a != cn.ref && e.b != cn.ref) =
        cps.map (fun cp => ⟨sn.ref, cp.ref, .connects⟩) := by
      rw [List.filter_eq_self]; intro e he
      obtain ⟨c, hc, rfl⟩ := List.mem_map.mp he
      have a2 : ¬ c.ref = cn.ref := ref_ne_of_nid_ne (x := c) (y := cn) (h.fo.ncf c hc).1
      simp [hsc, a2]
    rw [h1, h2]; simp

/-- what the `except` clause of `add_component_sliver` does to a component with its service and some interfaces -/
theorem removeCompGraph_comp1 (h : CompOk s pn cn sn cps) : removeCompGraph cn.nid (comp1 s pn cn sn cps) = (.ok (), s) := by
  unfold removeCompGraph
  rw [bind_ok (findNode_of_mem (comp1_dist h) cn_mem1), bind_ok (guard_run (by simp [h.ccls])),
    bind_ok (firstNeighbor_run (comp1_dist h) cn_mem1 .has .networkService), nb_cn_ns h,
    bind_ok (deleteNode_run (comp1_dist h) cn_mem1), drop_cn h]
  simp only [List.map_cons, List.map_nil]
  rw [forEach_cons_ok (removeNs_fac1 h.fo)]; rfl

end

section
variable {s : Topo} {pn cn : GNode}

theorem comp0_dist (h : CompNew s pn cn) : IdsDistinct (comp0 s pn cn) := idsDistinct_push h.ds h.fcn

theorem cn_mem0 : cn ∈ (comp0 s pn cn).nodes := by simp [comp0]

theorem closed_comp0 (h : CompNew s pn cn) : Closed (comp0 s pn cn) := by
  intro e he
  simp only [comp0, List.mem_append, List.mem_singleton] at he
  rcases he with he | rfl
  · obtain ⟨⟨x, hx, hxe⟩, ⟨y, hy, hye⟩⟩ := h.closed e he
    exact ⟨⟨x, by simp [comp0, hx], hxe⟩, ⟨y, by simp [comp0, hy], hye⟩⟩
  · exact ⟨⟨pn, by simp [comp0, h.pm], rfl⟩, ⟨cn, cn_mem0, rfl⟩⟩

theorem nb_cn0 (h : CompNew s pn cn) : neighbors (comp0 s pn cn) cn.ref .has .networkService = [] := by
  have hpc : ¬ pn.ref = cn.ref := ref_ne_of_nid_ne (h.fcn pn h.pm)
  unfold neighbors
  rw [List.filter_eq_nil_iff]
  intro y hy hp
  simp only [Bool.and_eq_true, beq_iff_eq] at hp
  obtain ⟨hcls, hadj⟩ := hp
  obtain ⟨e, he, _, hs⟩ := adjacent_iff.mp hadj
  rw [sameEnds_iff] at hs
  simp only [comp0, List.mem_append, List.mem_singleton] at he
  rcases he with he | rfl
  · apply not_touch_new h.closed (x := cn) h.fcn
    rcases hs with ⟨h1, _⟩ | ⟨_, h2⟩
    · exact ⟨e, he, .inl h1⟩
    · exact ⟨e, he, .inr h2⟩
  · rcases hs with ⟨h1, _⟩ | ⟨h1, _⟩
    · exact hpc h1
    · have hm : pn ∈ (comp0 s pn cn).nodes := by simp [comp0, h.pm]
      have := (ref_eq_iff (comp0_dist h) hy hm).mp h1.symm
      subst this
      exact h.pcls hcls

theorem drop_cn0 (h : CompNew s pn cn) : dropNode cn.ref (comp0 s pn cn) = s := by
  cases s with
  | mk ns es =>
    unfold dropNode comp0
    have h1 := filter_nodes_new (s := ⟨ns, es⟩) h.fcn
    have h2 := filter_untouched (s := ⟨ns, es⟩) h.closed h.fcn
    simp only [] at h1 h2
    simp only [List.filter_append, h1, h2]
    simp

/-- what the `except` clause does to a component that got no further than the edge from its parent -/
theorem removeCompGraph_comp0 (h : CompNew s pn cn) : removeCompGraph cn.nid (comp0 s pn cn) = (.ok (), s) := by
  unfold removeCompGraph
  rw [bind_ok (findNode_of_mem (comp0_dist h) cn_mem0), bind_ok (guard_run (by simp [h.ccls])),
    bind_ok (firstNeighbor_run (comp0_dist h) cn_mem0 .has .networkService), nb_cn0 h,
    bind_ok (deleteNode_run (comp0_dist h) cn_mem0), drop_cn0 h]
  rfl

end

/-! ### the states the expansion passes through -/

/-- the partial construct a raise of the expansion leaves behind -/
def CompState (s : Topo) (pn cn sn : GNode) (B : Topo) : Prop :=
  B = comp0 s pn cn ∨ ∃ cps, CompOk s pn cn sn cps ∧ B = comp1 s pn cn sn cps

theorem rollback_compState {s : Topo} {pn cn sn : GNode} (hn : CompNew s pn cn) {B : Topo} (h : CompState s pn cn sn B) :
    removeCompGraph cn.nid B = (.ok (), s) := by
  rcases h with rfl | ⟨cps, hok, rfl⟩
  · exact removeCompGraph_comp0 hn
  · exact removeCompGraph_comp1 hok

/-- the interface loop of the expansion, started in a `comp1` state: returns, or raises leaving a `comp1` state -/
theorem compPorts_state {s : Topo} {pn cn sn : GNode} (cname : String) :
    ∀ (cl : List (Gen.Rules.CatIface × Nid)) (cps : List GNode), CompOk s pn cn sn cps →
      CompState s pn cn sn (M.forEach cl (compPort sn.nid cname) (comp1 s pn cn sn cps)).2 := by
  intro cl
  induction cl with
  | nil => intro cps h; exact .inr ⟨cps, h, rfl⟩
  | cons x rest ih =>
    intro cps h
    rcases addGNode_cases ⟨.connectionPoint, x.2, cname ++ "-" ++ x.1.port, x.1.itype, x.1.props⟩ (comp1 s pn cn sn cps) with he | ⟨he, hfr⟩
    · have he' : compPort sn.nid cname x (comp1 s pn cn sn cps) = (.error .query, comp1 s pn cn sn cps) := bind_err he
      rw [forEach_cons_err he']; exact .inr ⟨cps, h, rfl⟩
    · generalize hn : (⟨.connectionPoint, x.2, cname ++ "-" ++ x.1.port, x.1.itype, x.1.props⟩ : GNode) = n at he hfr
      have hnid : n.nid = x.2 := by rw [← hn]
      have hncls : n.cls = .connectionPoint := by rw [← hn]
      have hsnf : findNode sn.nid (pushNode n (comp1 s pn cn sn cps)) = (.ok sn, pushNode n (comp1 s pn cn sn cps)) :=
        findNode_push_old (findNode_of_mem (comp1_dist h) sn_mem1) hfr
      have hnf : findNode x.2 (pushNode n (comp1 s pn cn sn cps)) = (.ok n, pushNode n (comp1 s pn cn sn cps)) := by rw [← hnid]; exact findNode_push_new hfr
      have hstep : compPort sn.nid cname x (comp1 s pn cn sn cps) =
          (.ok (), setEdge sn.ref n.ref .connects (pushNode n (comp1 s pn cn sn cps))) := by
        unfold compPort
        rw [hn, bind_ok he]; exact addEdge_run hsnf hnf
      rw [forEach_cons_ok hstep]
      have hnt : ¬ touches (pushNode n (comp1 s pn cn sn cps)).edges n.ref :=
        not_touches_of_closed (t := comp1 s pn cn sn cps) (closed_comp1 h) (fun m hm => ref_ne_of_nid_ne (hfr m hm))
      rw [setEdge_fresh hnt]
      have hst : ({ pushNode n (comp1 s pn cn sn cps) with edges := (pushNode n (comp1 s pn cn sn cps)).edges ++ [⟨sn.ref, n.ref, .connects⟩] } : Topo)
          = comp1 s pn cn sn (cps ++ [n]) := by
        simp [comp1, pushNode, List.map_append, List.append_assoc]
      rw [hst]
      refine ih _ ⟨h.fo.snoc hncls ?_, h.pm, h.ccls, h.pcls⟩
      intro m hm
      rcases hm with hm | rfl | rfl | hm
      · exact hfr m (by simp [comp1, hm])
      · exact hfr cn cn_mem1          -- the head node of the `fac` view is the component itself: same id
      · exact hfr _ sn_mem1
      · exact hfr m (by simp [comp1, hm])

/-- the expansion, started right after the Component node was created: it returns, or it raises leaving a partial construct -/
theorem compAttach_state {s : Topo} {pn cn sn : GNode} {parent : Nid} (hn : CompNew s pn cn) (hp : findNode parent s = (.ok pn, s))
    (hscls : sn.cls = .networkService) (b : Bool) (cname : String) (cl : List (Gen.Rules.CatIface × Nid)) :
    (∃ t', compAttach parent cn.nid b sn cname cl (pushNode cn s) = (.ok (), t')) ∨
    (∃ e t', compAttach parent cn.nid b sn cname cl (pushNode cn s) = (.error e, t') ∧ CompState s pn cn sn t') := by
  unfold compAttach
  have hfn : findNode cn.nid (pushNode cn s) = (.ok cn, pushNode cn s) := findNode_push_new hn.fcn
  rw [bind_ok (addEdge_run (r := .has) (findNode_push_old hp hn.fcn) hfn)]
  have hnt : ¬ touches (pushNode cn s).edges cn.ref :=
    not_touches_of_closed (t := s) hn.closed (fun m hm => ref_ne_of_nid_ne (hn.fcn m hm))
  rw [setEdge_fresh hnt]
  have h0 : ({ pushNode cn s with edges := (pushNode cn s).edges ++ [⟨pn.ref, cn.ref, .has⟩] } : Topo) = comp0 s pn cn := rfl
  rw [h0]
  cases b with
  | false => exact .inl ⟨_, rfl⟩
  | true =>
    simp only [if_true]
    rcases addGNode_cases sn (comp0 s pn cn) with he | ⟨he, hfr⟩
    · rw [bind_err he]; exact .inr ⟨_, _, rfl, .inl rfl⟩
    · rw [bind_ok he]
      have hcn0 : findNode cn.nid (pushNode sn (comp0 s pn cn)) = (.ok cn, pushNode sn (comp0 s pn cn)) :=
        findNode_push_old (findNode_of_mem (comp0_dist hn) cn_mem0) hfr
      rw [bind_ok (addEdge_run (r := .has) hcn0 (findNode_push_new hfr))]
      have hnt2 : ¬ touches (pushNode sn (comp0 s pn cn)).edges sn.ref :=
        not_touches_of_closed (t := comp0 s pn cn) (closed_comp0 hn) (fun m hm => ref_ne_of_nid_ne (hfr m hm))
      rw [setEdge_fresh hnt2]
      have h1 : ({ pushNode sn (comp0 s pn cn) with edges := (pushNode sn (comp0 s pn cn)).edges ++ [⟨cn.ref, sn.ref, .has⟩] } : Topo)
          = comp1 s pn cn sn [] := by
        simp [comp0, comp1, pushNode, List.append_assoc]
      rw [h1]
      have hok : CompOk s pn cn sn [] :=
        ⟨{ closed := hn.closed, ds := hn.ds, fcls := rfl, scls := hscls
           ccls := by intro c' hc'; cases hc'
           ffn := hn.fcn
           fsn := fun m hm => hfr m (by simp [comp0, hm])
           fcp := by intro c' hc'; cases hc'
           nfs := hfr cn cn_mem0
           ncf := by intro c' hc'; cases hc'
           ncc := by simp }, hn.pm, hn.ccls, hn.pcls⟩
      have hst := compPorts_state cname cl [] hok
      rcases cases_run (M.forEach cl (compPort sn.nid cname)) (comp1 s pn cn sn []) with ⟨u, t', h⟩ | ⟨e, t', h⟩
      · exact .inl ⟨t', h⟩
      · rw [h] at hst; exact .inr ⟨e, t', h, hst⟩

/-- the guarded expansion: either the wrapper changes nothing, or (with the clean-up in place) the call raised and the
state is the one before the Component node was created -/
theorem compGuard_attach_cases {s : Topo} {pn cn sn : GNode} {parent : Nid} (hn : CompNew s pn cn) (hp : findNode parent s = (.ok pn, s))
    (hscls : sn.cls = .networkService) (b : Bool) (cname : String) (cl : List (Gen.Rules.CatIface × Nid)) :
    compGuard cn.nid (compAttach parent cn.nid b sn cname cl) (pushNode cn s) = compAttach parent cn.nid b sn cname cl (pushNode cn s) ∨
    (Gen.Rules.componentRollback = true ∧
      ∃ e, compGuard cn.nid (compAttach parent cn.nid b sn cname cl) (pushNode cn s) = (.error e, s)) := by
  unfold compGuard
  by_cases hf : Gen.Rules.componentRollback = true
  · simp only [hf, if_true]
    rcases compAttach_state hn hp hscls b cname cl with ⟨t', h⟩ | ⟨e, t', h, hst⟩
    · left; simp only [M.tryCatch, h]
    · right
      refine ⟨trivial, e, ?_⟩
      simp only [M.tryCatch, h, if_true]
      rw [bind_ok (rollback_compState hn hst)]; rfl
  · left; simp only [hf]; rfl

/-- with the clean-up in place: whatever the expansion raises, the model is what it was before the Component node -/
theorem compGuard_attach_fs (hflag : Gen.Rules.componentRollback = true) {s : Topo} {pn cn sn : GNode} {parent : Nid}
    (hn : CompNew s pn cn) (hp : findNode parent s = (.ok pn, s)) (hscls : sn.cls = .networkService) (b : Bool) (cname : String)
    (cl : List (Gen.Rules.CatIface × Nid)) {β : Type} {g : Unit → M Topo β} (hg : ∀ u t, ¬ failed (g u t)) :
    FS s ((compGuard cn.nid (compAttach parent cn.nid b sn cname cl) >>= g) (pushNode cn s)) := by
  rcases compAttach_state hn hp hscls b cname cl with ⟨t', h⟩ | ⟨e, t', h, hst⟩
  · rw [bind_ok (compGuard_ok h)]; intro hfail; exact absurd hfail (hg _ _)
  · have : compGuard cn.nid (compAttach parent cn.nid b sn cname cl) (pushNode cn s) = (.error e, s) := by
      unfold compGuard
      simp only [hflag, if_true, M.tryCatch, h]
      rw [bind_ok (rollback_compState hn hst)]; rfl
    rw [bind_err this]; exact FS.err e

/-- the catalogue expansion as `compNew` / `compNewMT` spell it out is `compAttach` -/
theorem compAttach_eq (b : Bool) (parent id nsId : Nid) (pname cname : String) (e : Gen.Rules.CatEntry) (ifIds : List Nid) :
    (do
      addEdge parent .has id
      if b then do
        addGNode ⟨.networkService, nsId, pname ++ "-" ++ cname ++ e.nsSuffix, e.nsType, [("StitchNode", "false"), ("Layer", "L2")]⟩
        addEdge id .has nsId
        forEach (e.ifaces.zip ifIds) (fun (ci, iid) => do
          addGNode ⟨.connectionPoint, iid, cname ++ "-" ++ ci.port, ci.itype, ci.props⟩
          addEdge nsId .connects iid)
      else Pure.pure () : M Topo Unit) =
    compAttach parent id b ⟨.networkService, nsId, pname ++ "-" ++ cname ++ e.nsSuffix, e.nsType,
      [("StitchNode", "false"), ("Layer", "L2")]⟩ cname (e.ifaces.zip ifIds) := rfl

/-- the writing part of `compNew` / `compNewMT`: the join point after their validations (`b` is `e.hasIfaces`) -/
def compTail (b : Bool) (parent id : Nid) (c1 : Nat) (a : CompArgs) (p : GNode) (e : Gen.Rules.CatEntry) : M Topo Nid :=
  match (if b = true then ifaceIds a.ifNids e.ifaces.length c1 else ([], c1)) with
  | (ifIds, c2) =>
    match (if b = true then pick a.nsNid c2 else (id, c2)) with
    | (nsId, _) => do
      let kw ← M.ofExcept (validateProps a.props)
      addGNode ⟨.component, id, a.name, e.ctype, dictUpdate [("Model", e.model), ("Details", e.details), ("StitchNode", "false")] kw⟩
      compGuard id (do
        addEdge parent .has id
        if b then do
          addGNode ⟨.networkService, nsId, p.name ++ "-" ++ a.name ++ e.nsSuffix, e.nsType, [("StitchNode", "false"), ("Layer", "L2")]⟩
          addEdge id .has nsId
          forEach (e.ifaces.zip ifIds) (fun (ci, iid) => do
            addGNode ⟨.connectionPoint, iid, a.name ++ "-" ++ ci.port, ci.itype, ci.props⟩
            addEdge nsId .connects iid)
        else Pure.pure ())
      Pure.pure id

/-- with the clean-up in place the writing part is atomic: whichever `add_node` of the expansion finds its id taken - the
component's, the service's, the k-th interface's, one repeated inside the call - the model is what it was -/
theorem compTail_fs (hflag : Gen.Rules.componentRollback = true) (b : Bool) (parent id : Nid) (c1 : Nat) (a : CompArgs) (p : GNode)
    (e : Gen.Rules.CatEntry) (s : Topo) (hd : IdsDistinct s) (hc : Closed s) (hpn : findNode parent s = (.ok p, s))
    (hpc : p.cls ≠ .networkService) : FS s (compTail b parent id c1 a p e s) := by
  unfold compTail
  rcases (if b = true then ifaceIds a.ifNids e.ifaces.length c1 else ([], c1)) with ⟨ifIds, c2⟩
  dsimp only
  rcases (if b = true then pick a.nsNid c2 else (id, c2)) with ⟨nsId, c3⟩
  dsimp only
  refine ro_step (by ro) FS.err (fun kw _ => ?_)
  refine addGNode_step (FS.err _) (fun cn hcn hn => ?_)
  have hcid : cn.nid = id := by rw [hcn]
  subst hcid
  obtain ⟨hpm, _, _⟩ := findNode_ok hpn
  have hnew : CompNew s p cn := ⟨hc, hd, hpm, by rw [hcn], hpc, hn⟩
  rw [compAttach_eq b parent cn.nid nsId p.name a.name e ifIds]
  exact compGuard_attach_fs hflag hnew hpn rfl b a.name (e.ifaces.zip ifIds) (fun _ _ => by simp)

/-- `Component(..., etype=NEW)`, caller-supplied ids for its service and interfaces included -/
theorem compNew_fs_rb (hflag : Gen.Rules.componentRollback = true) (fl : Flavour) (c : Nat) (parent : Nid) (a : CompArgs) (s : Topo)
    (hd : IdsDistinct s) (hc : Closed s) (hpar : ∀ m ∈ s.nodes, m.nid = parent → m.cls ≠ .networkService) :
    FS s (compNew fl c parent a s) := by
  obtain ⟨nm, nid, ctype, model, nsNid, ifNids, nLabels, props⟩ := a
  unfold compNew
  dsimp only
  refine ro_step (by ro) FS.err (fun _ _ => ?_)
  rcases pick nid c with ⟨id, c1⟩
  dsimp only
  refine ro_step (by ro) FS.err (fun _ _ => ?_)
  refine ro_step (by ro) FS.err (fun _ _ => ?_)
  refine ro_step (by ro) FS.err (fun p hpn => ?_)
  refine ro_step (by ro) FS.err (fun e _ => ?_)
  refine ro_step (by ro) FS.err (fun _ _ => ?_)
  obtain ⟨hpm, hpi, _⟩ := findNode_ok hpn
  have leaf : ∀ b, FS s (compTail b parent id c1 ⟨nm, nid, ctype, model, nsNid, ifNids, nLabels, props⟩ p e s) :=
    fun b => compTail_fs hflag b parent id c1 _ p e s hd hc hpn (hpar p hpm hpi)
  split
  · have lf := leaf true
    clear leaf
    cases ifNids <;> cases nLabels <;> dsimp only <;>
    repeat' (first
      | exact lf
      | refine ro_step (readOnly_guard _ _) FS.err (fun _ _ => ?_)
      | (refine ro_step (readOnly_raise _) FS.err (fun _ hr => ?_); simp at hr))
  · exact leaf false

/-- the same for `Component(..., etype=NEW, comp_model=…)` -/
theorem compNewMT_fs_rb (hflag : Gen.Rules.componentRollback = true) (fl : Flavour) (c : Nat) (parent : Nid) (a : CompArgs)
    (mt : String × String) (s : Topo)
    (hd : IdsDistinct s) (hc : Closed s) (hpar : ∀ m ∈ s.nodes, m.nid = parent → m.cls ≠ .networkService) :
    FS s (compNewMT fl c parent a mt s) := by
  obtain ⟨nm, nid, ctype, model, nsNid, ifNids, nLabels, props⟩ := a
  unfold compNewMT
  dsimp only
  refine ro_step (by ro) FS.err (fun _ _ => ?_)
  rcases pick nid c with ⟨id, c1⟩
  dsimp only
  refine ro_step (by ro) FS.err (fun _ _ => ?_)
  refine ro_step (by ro) FS.err (fun p hpn => ?_)
  refine ro_step (by ro) FS.err (fun e _ => ?_)
  refine ro_step (by ro) FS.err (fun _ _ => ?_)
  obtain ⟨hpm, hpi, _⟩ := findNode_ok hpn
  have leaf : ∀ b, FS s (compTail b parent id c1 ⟨nm, nid, ctype, model, nsNid, ifNids, nLabels, props⟩ p e s) :=
    fun b => compTail_fs hflag b parent id c1 _ p e s hd hc hpn (hpar p hpm hpi)
  split
  · have lf := leaf true
    clear leaf
    cases ifNids <;> cases nLabels <;> dsimp only <;>
    repeat' (first
      | exact lf
      | refine ro_step (readOnly_guard _ _) FS.err (fun _ _ => ?_)
      | (refine ro_step (readOnly_raise _) FS.err (fun _ hr => ?_); simp at hr))
  · exact leaf false

/-- the clean-up is in the code (read off `add_component_sliver` by gen/rules.py): reverting commit e285d22 flips this -/
theorem flag_componentRollback : Gen.Rules.componentRollback = true := by decide

/-- the handle a listing of children was made on refers to a node of one of the admitted classes -/
theorem childrenOf_parent {parent : Nid} {ok : List Cls} {rel : Rel} {L : Cls} {s s' : Topo} {l : List GNode}
    (h : childrenOf parent ok rel L s = (.ok l, s')) : ∃ p, findNode parent s = (.ok p, s) ∧ ok.contains p.cls = true := by
  unfold childrenOf at h
  obtain ⟨pn, t1, hpn, hrest⟩ := bind_ok_inv h
  have h2 := ro_run (readOnly_findNode _) hpn
  subst h2
  obtain ⟨u, t2, hg, _⟩ := bind_ok_inv hrest
  exact ⟨pn, hpn, guard_ok hg⟩

theorem handle_cls_of_findNode {s : Topo} (hd : IdsDistinct s) {parent : Nid} {p : GNode} (hp : findNode parent s = (.ok p, s)) :
    ∀ m ∈ s.nodes, m.nid = parent → m.cls = p.cls := by
  intro m hm hmi
  obtain ⟨hpm, hpi, _⟩ := findNode_ok hp
  rw [eq_of_nid_eq hd hm hpm (hmi.trans hpi.symm)]

end FimVerif.Topo
