import FimVerif.Model.Topo
/-! Helper lemmas for C09: which functions of `Model/Topo.lean` only read the model, and two small
tactics (`ro`, `ro_base`) that discharge `ReadOnly` goals structurally. -/
namespace FimVerif.Topo
open FimVerif FimVerif.M

/-- closes a `ReadOnly` goal about a named function; extended below with one rule per function -/
syntax "ro_base" : tactic
macro_rules | `(tactic| ro_base) => `(tactic| exact readOnly_pure _)
macro_rules | `(tactic| ro_base) => `(tactic| exact readOnly_pure' _)
macro_rules | `(tactic| ro_base) => `(tactic| exact readOnly_raise _)
macro_rules | `(tactic| ro_base) => `(tactic| exact readOnly_read _)
macro_rules | `(tactic| ro_base) => `(tactic| exact readOnly_guard _ _)
macro_rules | `(tactic| ro_base) => `(tactic| exact readOnly_ofExcept _)
macro_rules | `(tactic| ro_base) => `(tactic| exact (fun _ => rfl))

/-- structural decomposition of a `ReadOnly` goal -/
macro "ro" : tactic => `(tactic| repeat' (first
  | intro _
  | ro_base
  | apply ReadOnly.bind
  | apply ReadOnly.bind'
  | apply ReadOnly.ite
  | apply readOnly_mapM'
  | apply readOnly_filterMapM'
  | apply readOnly_forEach
  | split))

theorem readOnly_findNode (nid : Nid) : ReadOnly (findNode nid) := by
  constructor; intro s; unfold findNode; split <;> rfl
macro_rules | `(tactic| ro_base) => `(tactic| exact readOnly_findNode _)

theorem readOnly_need {α : Type} (o : Option α) (e : Err) : ReadOnly (need o e) := by unfold need; ro
macro_rules | `(tactic| ro_base) => `(tactic| exact readOnly_need _ _)

theorem readOnly_firstNeighbor (nid : Nid) (rel : Rel) (l : Cls) : ReadOnly (firstNeighbor nid rel l) := by
  unfold firstNeighbor; ro
macro_rules | `(tactic| ro_base) => `(tactic| exact readOnly_firstNeighbor _ _ _)

theorem readOnly_secondNeighbors (nid : Nid) (r : Rel) (a b : Cls) : ReadOnly (secondNeighbors nid r a b) := by
  unfold secondNeighbors; ro
macro_rules | `(tactic| ro_base) => `(tactic| exact readOnly_secondNeighbors _ _ _ _)

theorem readOnly_peersOf (nid : Nid) : ReadOnly (peersOf nid) := by unfold peersOf; ro
macro_rules | `(tactic| ro_base) => `(tactic| exact readOnly_peersOf _)

theorem readOnly_getParent (nid : Nid) (rel : Rel) (l : Cls) : ReadOnly (getParent nid rel l) := by
  unfold getParent; ro
macro_rules | `(tactic| ro_base) => `(tactic| exact readOnly_getParent _ _ _)

theorem readOnly_typeOf (nid : Nid) : ReadOnly (typeOf nid) := by unfold typeOf; ro
macro_rules | `(tactic| ro_base) => `(tactic| exact readOnly_typeOf _)

theorem readOnly_ownerOfService (n : GNode) : ReadOnly (ownerOfService n) := by unfold ownerOfService; ro
macro_rules | `(tactic| ro_base) => `(tactic| exact readOnly_ownerOfService _)

theorem readOnly_parentService (nid : Nid) : ReadOnly (parentService nid) := by unfold parentService; ro
macro_rules | `(tactic| ro_base) => `(tactic| exact readOnly_parentService _)

theorem readOnly_ownerNode (nid : Nid) : ReadOnly (ownerNode nid) := by unfold ownerNode; ro
macro_rules | `(tactic| ro_base) => `(tactic| exact readOnly_ownerNode _)

theorem readOnly_listNames (c : Cls) (k : GNode → Bool) : ReadOnly (listNames c k) := by
  constructor; intro s; simp only [listNames]; split <;> rfl
macro_rules | `(tactic| ro_base) => `(tactic| exact readOnly_listNames _ _)

theorem readOnly_findByName (c : Cls) (n : String) : ReadOnly (findByName c n) := by
  constructor; intro s; unfold findByName; split <;> rfl
macro_rules | `(tactic| ro_base) => `(tactic| exact readOnly_findByName _ _)

theorem readOnly_childrenOf (p : Nid) (ok : List Cls) (r : Rel) (l : Cls) : ReadOnly (childrenOf p ok r l) := by
  unfold childrenOf; ro
macro_rules | `(tactic| ro_base) => `(tactic| exact readOnly_childrenOf _ _ _ _)

theorem readOnly_guardrails (t : String) (i : IfArg) : ReadOnly (guardrails t i) := by unfold guardrails; ro
macro_rules | `(tactic| ro_base) => `(tactic| exact readOnly_guardrails _ _)

theorem readOnly_nodeInterfaces (n : Nid) : ReadOnly (nodeInterfaces n) := by unfold nodeInterfaces; ro
macro_rules | `(tactic| ro_base) => `(tactic| exact readOnly_nodeInterfaces _)

/-! ### atomic building blocks -/

theorem atomic_addGNode (n : GNode) : Atomic (addGNode n) := by
  constructor; intro s h; unfold addGNode at *; split at h <;> simp_all

theorem total_pure' {α : Type} (a : α) : Total (Pure.pure a : M Topo α) := total_pure a

/-- `addEdge` is validate-before-mutate -/
theorem atomic_addEdge (a : Nid) (r : Rel) (b : Nid) : Atomic (addEdge a r b) := by
  unfold addEdge
  refine Atomic.bind_readOnly (readOnly_findNode _) (fun _ => ?_)
  refine Atomic.bind_readOnly (readOnly_findNode _) (fun _ => ?_)
  exact (total_modify _).atomic

theorem atomic_deleteNode (n : Nid) : Atomic (deleteNode n) := by
  unfold deleteNode
  exact Atomic.bind_readOnly (readOnly_findNode _) (fun _ => (total_modify _).atomic)

theorem atomic_updateProps (n : Nid) (p : Props) : Atomic (updateProps n p) := by
  unfold updateProps
  exact Atomic.bind_readOnly (readOnly_findNode _) (fun _ => (total_modify _).atomic)

end FimVerif.Topo
