import FimVerif.Model.JsonParse
/-!
# `json.loads(json.dumps(x)) == x` on the model (C03)

`parse (render j) = some j` for every JSON value whose objects have distinct keys and whose floats are number lexemes with a
fraction or an exponent (`isFloatLex`: what `json.dumps` writes for a finite float; a float is carried as that text and
comes back as the same text - the float<->text conversion itself is CPython's and is not modelled).
Numbers: `Nat.toDigits` / `Nat.ofDigitChars`; strings: every character through `escChar` (the `\\uXXXX` form and surrogate
pairs included); containers: mutual induction with an explicit fuel bound.
-/
namespace FimVerif.JParse
open FimVerif JVal

/-- what may follow a number: not a character that would extend it -/
def NumEnd (rest : List Char) : Prop := ∀ c, rest.head? = some c → c.isDigit = false ∧ c ≠ '.' ∧ c ≠ 'e' ∧ c ≠ 'E'

theorem takeDigits_append (ds rest : List Char) (hd : ∀ c ∈ ds, c.isDigit = true)
    (hr : ∀ c, rest.head? = some c → c.isDigit = false) : takeDigits (ds ++ rest) = (ds, rest) := by
  induction ds with
  | nil =>
    cases rest with
    | nil => rfl
    | cons c t => simp [takeDigits, isDigit, hr c rfl]
  | cons c t ih =>
    have := ih (fun x hx => hd x (List.mem_cons_of_mem _ hx))
    simp [takeDigits, isDigit, hd c List.mem_cons_self, this]

theorem toDigits_head (n : Nat) (h : 0 < n) : (Nat.toDigits 10 n).head? ≠ some '0' := by
  induction n using Nat.strongRecOn with
  | _ n ih =>
    rw [Nat.toDigits_eq_if (by decide)]
    split
    · simp; omega
    · have h1 : 0 < n / 10 := by omega
      have := ih (n / 10) (by omega) h1
      have hne : Nat.toDigits 10 (n / 10) ≠ [] := Nat.toDigits_ne_nil
      cases hd : Nat.toDigits 10 (n / 10) with
      | nil => exact absurd hd hne
      | cons a t => rw [hd] at this; simpa using this

theorem pIntPart_toDigits (n : Nat) (rest : List Char) (hr : ∀ c, rest.head? = some c → c.isDigit = false) :
    pIntPart (Nat.toDigits 10 n ++ rest) = some (Nat.toDigits 10 n, rest) := by
  by_cases h0 : n = 0
  · subst h0; simp [pIntPart]
  · have hh := toDigits_head n (by omega)
    have hdig : ∀ c ∈ Nat.toDigits 10 n, c.isDigit = true := fun c hc => Nat.isDigit_of_mem_toDigits (by decide) (by decide) hc
    have ht := takeDigits_append _ rest hdig hr
    cases hd : Nat.toDigits 10 n with
    | nil => exact absurd hd Nat.toDigits_ne_nil
    | cons a t =>
      rw [hd] at hh ht hdig
      have ha : a ≠ '0' := by simpa using hh
      have hda : a.isDigit = true := hdig a List.mem_cons_self
      simp only [List.cons_append] at ht ⊢
      unfold pIntPart
      split
      · rename_i r heq; injection heq with h1 _; exact absurd h1 ha
      · rename_i c r _ heq; injection heq with h1 h2; subst h1; simp [isDigit, hda, ht]
      · rename_i heq; cases heq

theorem pUnsigned_digits (neg : Bool) (n : Nat) (rest : List Char) (hr : NumEnd rest) :
    pUnsigned neg (Nat.toDigits 10 n ++ rest) = some (.int (if neg then -(n : Int) else n), rest) := by
  have hr1 : ∀ c, rest.head? = some c → c.isDigit = false := fun c hc => (hr c hc).1
  have hfrac : pFrac rest = some ([], rest) := by
    unfold pFrac
    split
    · rename_i r; exact absurd rfl (hr '.' rfl).2.1
    · rfl
  have hexp : pExp rest = some ([], rest) := by
    unfold pExp
    split
    · rename_i e r
      have := hr e rfl
      simp [this.2.2.1, this.2.2.2]
    · rfl
  simp [pUnsigned, pIntPart_toDigits n rest hr1, hfrac, hexp, Nat.ofDigitChars_ten_toDigits]

theorem pNumber_nat (n : Nat) (rest : List Char) (hr : NumEnd rest) :
    pNumber (Nat.toDigits 10 n ++ rest) = some (.int n, rest) := by
  have hneg : ∀ t, Nat.toDigits 10 n ++ rest ≠ '-' :: t := by
    intro t heq
    cases hd : Nat.toDigits 10 n with
    | nil => exact absurd hd Nat.toDigits_ne_nil
    | cons a u =>
      rw [hd] at heq
      injection heq with h1 _
      have : a.isDigit = true := Nat.isDigit_of_mem_toDigits (b := 10) (n := n) (by decide) (by decide) (by rw [hd]; exact List.mem_cons_self)
      rw [h1] at this; exact absurd this (by decide)
  unfold pNumber
  split
  · rename_i r heq; exact absurd heq (hneg r)
  · rw [pUnsigned_digits false n rest hr]; rfl

theorem pNumber_neg (n : Nat) (rest : List Char) (hr : NumEnd rest) :
    pNumber ('-' :: (Nat.toDigits 10 n ++ rest)) = some (.int (-(n : Int)), rest) := by
  simp [pNumber, pUnsigned_digits true n rest hr]

theorem hexVal_hexDigit : ∀ d : Fin 16, hexVal (hexDigit d.val) = some d.val := by decide

theorem unhex4_hex4 (n : Nat) (h : n < 65536) (r : List Char) : unhex4 ((hex4 n).toList ++ r) = some (n, r) := by
  have h1 := hexVal_hexDigit ⟨n / 4096 % 16, Nat.mod_lt _ (by decide)⟩
  have h2 := hexVal_hexDigit ⟨n / 256 % 16, Nat.mod_lt _ (by decide)⟩
  have h3 := hexVal_hexDigit ⟨n / 16 % 16, Nat.mod_lt _ (by decide)⟩
  have h4 := hexVal_hexDigit ⟨n % 16, Nat.mod_lt _ (by decide)⟩
  simp only at h1 h2 h3 h4
  simp only [hex4, String.toList_ofList, List.cons_append, List.nil_append, unhex4, h1, h2, h3, h4]
  simp; omega

theorem pStr_pair (v : Nat) (hv : v < 0x100000) (fuel : Nat) (tail : List Char) :
    pStrBody (fuel + 1) ('\\' :: 'u' :: ((hex4 (0xd800 + v / 1024)).toList ++ ('\\' :: 'u' :: ((hex4 (0xdc00 + v % 1024)).toList ++ tail)))) =
      (pStrBody fuel tail).map fun p => (Char.ofNat (0x10000 + v) :: p.1, p.2) := by
  have b1 : 0xd800 + v / 1024 < 65536 := by omega
  have b2 : 0xdc00 + v % 1024 < 65536 := by omega
  have h1 : (decide (0xd800 ≤ 0xd800 + v / 1024) && decide (0xd800 + v / 1024 ≤ 0xdbff)) = true := by
    simp; omega
  have h2 : (decide (0xdc00 ≤ 0xdc00 + v % 1024) && decide (0xdc00 + v % 1024 ≤ 0xdfff)) = true := by
    simp; omega
  have h4 : 0x10000 + (0xd800 + v / 1024 - 0xd800) * 1024 + (0xdc00 + v % 1024 - 0xdc00) = 0x10000 + v := by
    have := Nat.div_add_mod' v 1024
    omega
  rw [pStrBody]
  simp only [Char.reduceEq, if_false, if_true, unhex4_hex4 _ b1, unhex4_hex4 _ b2, h1, h2, h4]

theorem bs_u : "\\u".toList = ['\\', 'u'] := by decide

theorem esc_pair_list (a b : Nat) (tail : List Char) : ("\\u" ++ hex4 a ++ "\\u" ++ hex4 b).toList ++ tail =
        '\\' :: 'u' :: ((hex4 a).toList ++ ('\\' :: 'u' :: ((hex4 b).toList ++ tail))) := by
  simp only [String.toList_append, bs_u, List.append_assoc, List.cons_append, List.nil_append]

theorem esc_u_list (a : Nat) (tail : List Char) : ("\\u" ++ hex4 a).toList ++ tail = '\\' :: 'u' :: ((hex4 a).toList ++ tail) := by
  simp only [String.toList_append, bs_u, List.cons_append, List.nil_append]

theorem char_of_toNat (c : Char) (n : Nat) (h : c.toNat = n) : c = Char.ofNat n := by
  rw [← h, Char.ofNat_toNat]

/-- one decoded character per unit of fuel -/
theorem pStr_char (c : Char) (fuel : Nat) (tail : List Char) :
    pStrBody (fuel + 1) ((escChar c).toList ++ tail) = (pStrBody fuel tail).map fun p => (c :: p.1, p.2) := by
  unfold escChar
  split
  · rename_i h; simp at h; subst h; simp [pStrBody]
  split
  · rename_i h; simp at h; subst h; simp [pStrBody]
  split
  · rename_i h; simp at h; subst h; simp [pStrBody]
  split
  · rename_i h; simp at h; subst h; simp [pStrBody]
  split
  · rename_i h; simp at h; subst h; simp [pStrBody]
  split
  · rename_i h; simp at h; have := char_of_toNat c 8 h; subst this; simp [pStrBody]
  split
  · rename_i h; simp at h; have := char_of_toNat c 12 h; subst this; simp [pStrBody]
  have hv : c.toNat < 0xd800 ∨ (0xdfff < c.toNat ∧ c.toNat < 0x110000) := c.valid
  split
  · rename_i h
    have hn : c.toNat < 65536 := by
      simp only [Bool.or_eq_true, Bool.and_eq_true, decide_eq_true_eq] at h; omega
    rw [esc_u_list]
    have h1 : ¬(0xd800 ≤ c.toNat ∧ c.toNat ≤ 0xdbff) := by omega
    have h2 : ¬(0xdc00 ≤ c.toNat ∧ c.toNat ≤ 0xdfff) := by omega
    simp [pStrBody, unhex4_hex4 c.toNat hn tail, h1, h2, Char.ofNat_toNat]
  split
  · rename_i hlo h
    have hn : 65536 ≤ c.toNat := by simpa using h
    simp only []
    rw [esc_pair_list, pStr_pair (c.toNat - 65536) (by omega) fuel tail]
    have h4 : 0x10000 + (c.toNat - 65536) = c.toNat := by omega
    rw [h4, Char.ofNat_toNat]
  · rename_i hq hb hnl hr ht h8 h12 hlo hhi
    have h32 : ¬ c.toNat < 32 := by
      simp only [Bool.or_eq_true, Bool.and_eq_true, decide_eq_true_eq, not_or] at hlo; omega
    have cq : c ≠ '"' := by simpa using hq
    have cb : c ≠ '\\' := by simpa using hb
    simp [pStrBody, cq, cb, h32]



def escList (s : List Char) : List Char := s.flatMap fun c => (escChar c).toList

/-- the body of a rendered string literal reads back as the string -/
theorem pStr_string (s : List Char) : ∀ (fuel : Nat) (rest : List Char), s.length < fuel →
    pStrBody fuel (escList s ++ '"' :: rest) = some (s, rest) := by
  induction s with
  | nil =>
    intro fuel rest h
    cases fuel with
    | zero => omega
    | succ f => simp [escList, pStrBody]
  | cons c t ih =>
    intro fuel rest h
    cases fuel with
    | zero => omega
    | succ f =>
      have : escList (c :: t) ++ '"' :: rest = (escChar c).toList ++ (escList t ++ '"' :: rest) := by
        simp [escList, List.flatMap_cons]
      rw [this, pStr_char, ih f rest (by simp at h; omega)]
      rfl

def rcInt (i : Int) : List Char := if 0 ≤ i then Nat.toDigits 10 i.toNat else '-' :: Nat.toDigits 10 (-i).toNat
def rcStr (s : String) : List Char := '"' :: (escList s.toList ++ ['"'])

theorem toString_int_toList (i : Int) : (toString i).toList = rcInt i := by
  rw [Int.toString_eq_repr, Int.repr_eq_if]
  unfold rcInt
  split <;> simp

theorem join_toList (l : List String) : (String.join l).toList = l.flatMap String.toList := by
  induction l with
  | nil => simp [String.join]
  | cons a t ih => simp [String.join_cons, ih] 

theorem renderStr_toList (s : String) : (renderStr s).toList = rcStr s := by
  simp [renderStr, rcStr, escList, List.flatMap_map]



mutual
/-- `render` on character lists -/
def rc : JVal → List Char
  | .null => ['n', 'u', 'l', 'l']
  | .bool true => ['t', 'r', 'u', 'e']
  | .bool false => ['f', 'a', 'l', 's', 'e']
  | .int i => rcInt i
  | .float r => r.toList
  | .str s => rcStr s
  | .arr xs => '[' :: (rcL xs ++ [']'])
  | .obj kvs => '{' :: (rcK kvs ++ ['}'])
/-- the elements, separated by `, ` -/
def rcL : List JVal → List Char
  | [] => []
  | x :: xs => rc x ++ rcLTail xs
def rcLTail : List JVal → List Char
  | [] => []
  | x :: xs => ',' :: ' ' :: (rc x ++ rcLTail xs)
def rcK : List (String × JVal) → List Char
  | [] => []
  | (k, v) :: r => rcStr k ++ ':' :: ' ' :: (rc v ++ rcKTail r)
def rcKTail : List (String × JVal) → List Char
  | [] => []
  | (k, v) :: r => ',' :: ' ' :: (rcStr k ++ ':' :: ' ' :: (rc v ++ rcKTail r))
end

theorem joinWith_toList (a : String) (l : List String) :
    (joinWith ", " (a :: l)).toList = a.toList ++ l.flatMap (fun s => ',' :: ' ' :: s.toList) := by
  induction l generalizing a with
  | nil => simp [joinWith]
  | cons b t ih =>
    have : joinWith ", " (a :: b :: t) = a ++ ", " ++ joinWith ", " (b :: t) := rfl
    rw [this, String.toList_append, String.toList_append, ih]
    simp

mutual
theorem render_toList : ∀ j : JVal, (render j).toList = rc j
  | .null => by simp [render, rc]
  | .bool true => by simp [render, rc]
  | .bool false => by simp [render, rc]
  | .int i => by simp only [render, rc, toString_int_toList]
  | .float r => by simp [render, rc]
  | .str s => by simp only [render, rc, renderStr_toList]
  | .arr xs => by
    cases xs with
    | nil => simp [render, rc, rcL, renderList, joinWith]
    | cons x t =>
      simp only [render, renderList, String.toList_append, joinWith_toList, render_toList x, rc, rcL]
      rw [renderList_tail t]
      simp
  | .obj kvs => by
    cases kvs with
    | nil => simp [render, rc, rcK, renderKvs, joinWith]
    | cons p t =>
      obtain ⟨k, v⟩ := p
      simp only [render, renderKvs, String.toList_append, joinWith_toList, renderStr_toList, render_toList v, rc, rcK]
      rw [renderKvs_tail t]
      simp
theorem renderList_tail : ∀ l : List JVal, (renderList l).flatMap (fun s => ',' :: ' ' :: s.toList) = rcLTail l
  | [] => by simp [renderList, rcLTail]
  | x :: t => by simp [renderList, rcLTail, render_toList x, renderList_tail t]
theorem renderKvs_tail : ∀ l : List (String × JVal), (renderKvs l).flatMap (fun s => ',' :: ' ' :: s.toList) = rcKTail l
  | [] => by simp [renderKvs, rcKTail]
  | (k, v) :: t => by simp [renderKvs, rcKTail, render_toList v, renderStr_toList, renderKvs_tail t]
end



/-- a JSON number lexeme with a fraction or an exponent (what `json.dumps` writes for a finite float): it parses, completely,
as the float carrying that very text -/
def isFloatLex (l : List Char) : Bool :=
  match pNumber l with
  | some (.float s, []) => decide (s.toList = l)
  | _ => false


mutual
/-- floats only as number lexemes, and the keys of every object are distinct -/
def plain : JVal → Bool
  | .float r => isFloatLex r.toList
  | .arr xs => plainL xs
  | .obj kvs => plainK kvs && decide ((kvs.map (·.1)).Nodup)
  | _ => true
def plainL : List JVal → Bool
  | [] => true
  | x :: xs => plain x && plainL xs
def plainK : List (String × JVal) → Bool
  | [] => true
  | (_, v) :: r => plain v && plainK r
end

mutual
/-- fuel the parser needs for a value -/
def cost : JVal → Nat
  | .arr xs => 1 + costL xs
  | .obj kvs => 1 + costK kvs
  | _ => 1
def costL : List JVal → Nat
  | [] => 0
  | x :: xs => 1 + max (cost x) (costL xs)
def costK : List (String × JVal) → Nat
  | [] => 0
  | (_, v) :: r => 1 + max (cost v) (costK r)
end

/-- what follows a value inside a rendered text: nothing, or a separator / closing bracket -/
def Delim (rest : List Char) : Prop := ∀ c, rest.head? = some c → c = ',' ∨ c = ']' ∨ c = '}'

theorem Delim.numEnd {rest : List Char} (h : Delim rest) : NumEnd rest := by
  intro c hc
  rcases h c hc with rfl | rfl | rfl <;> decide

theorem digit_facts (c : Char) (h : c.isDigit = true) :
    c ≠ '"' ∧ c ≠ '[' ∧ c ≠ '{' ∧ c ≠ 'n' ∧ c ≠ 't' ∧ c ≠ 'f' ∧ c ≠ 'N' ∧ c ≠ 'I' ∧ c ≠ '-' ∧ c ≠ ']' ∧ c ≠ '}' ∧ isWs c = false := by
  refine ⟨?_, ?_, ?_, ?_, ?_, ?_, ?_, ?_, ?_, ?_, ?_, ?_⟩
  all_goals first
    | (intro e; rw [e] at h; exact absurd h (by decide))
    | (simp only [isWs, Bool.or_eq_false_iff, decide_eq_false_iff_not]
       refine ⟨⟨⟨?_, ?_⟩, ?_⟩, ?_⟩ <;> (intro e; rw [e] at h; exact absurd h (by decide)))

theorem toDigits_cons (n : Nat) : ∃ c t, Nat.toDigits 10 n = c :: t ∧ c.isDigit = true := by
  cases hd : Nat.toDigits 10 n with
  | nil => exact absurd hd Nat.toDigits_ne_nil
  | cons a u =>
    exact ⟨a, u, rfl, Nat.isDigit_of_mem_toDigits (b := 10) (n := n) (by decide) (by decide) (by rw [hd]; exact List.mem_cons_self)⟩

theorem pValue_digit (c : Char) (cs : List Char) (fuel : Nat) (h : c.isDigit = true) :
    pValue (fuel + 1) (c :: cs) = pNumber (c :: cs) := by
  obtain ⟨h1, h2, h3, h4, h5, h6, h7, h8, h9, _, _, _⟩ := digit_facts c h
  simp [pValue, h1, h2, h3, h4, h5, h6, h7, h8, h9, isDigit, h]

theorem pValue_int (i : Int) (fuel : Nat) (rest : List Char) (hr : Delim rest) :
    pValue (fuel + 1) (rcInt i ++ rest) = some (.int i, rest) := by
  unfold rcInt
  split
  · rename_i h
    obtain ⟨c, t, hd, hc⟩ := toDigits_cons i.toNat
    have := pNumber_nat i.toNat rest hr.numEnd
    rw [hd] at this ⊢
    rw [List.cons_append, pValue_digit c _ fuel hc, ← List.cons_append, this]
    simp [Int.toNat_of_nonneg h]
  · rename_i h
    obtain ⟨c, t, hd, hc⟩ := toDigits_cons (-i).toNat
    have hnum := pNumber_neg (-i).toNat rest hr.numEnd
    have hI : c ≠ 'I' := (digit_facts c hc).2.2.2.2.2.2.2.1
    rw [hd] at hnum ⊢
    simp only [List.cons_append] at hnum ⊢
    have hp : pValue (fuel + 1) ('-' :: c :: (t ++ rest)) = pNumber ('-' :: c :: (t ++ rest)) := by
      simp [pValue, hI]
    rw [hp, hnum]
    have : -((-i).toNat : Int) = i := by omega
    rw [this]




/-- `rest` cannot extend a run of digits -/
def NoDigit (rest : List Char) : Prop := ∀ c, rest.head? = some c → c.isDigit = false

theorem takeDigits_frame (s rest : List Char) (h : (takeDigits s).2 ≠ [] ∨ NoDigit rest) :
    takeDigits (s ++ rest) = ((takeDigits s).1, (takeDigits s).2 ++ rest) := by
  induction s with
  | nil =>
    rcases h with h | h
    · simp [takeDigits] at h
    · cases rest with
      | nil => rfl
      | cons c t => simp [takeDigits, isDigit, h c rfl]
  | cons c t ih =>
    simp only [List.cons_append, takeDigits]
    split
    · rename_i hc
      have : (takeDigits t).2 ≠ [] ∨ NoDigit rest := by
        rcases h with h | h
        · left; simpa [takeDigits, hc] using h
        · right; exact h
      simp [ih this]
    · rfl

theorem takeDigits_fst_digits (s : List Char) : ∀ c ∈ (takeDigits s).1, c.isDigit = true := by
  induction s with
  | nil => simp [takeDigits]
  | cons c t ih =>
    simp only [takeDigits]
    split
    · rename_i hc
      intro x hx
      simp only [List.mem_cons] at hx
      rcases hx with rfl | hx
      · simpa [isDigit] using hc
      · exact ih x hx
    · simp

theorem takeDigits_snd_head (s : List Char) : NoDigit (takeDigits s).2 := by
  induction s with
  | nil => intro c hc; simp [takeDigits] at hc
  | cons c t ih =>
    simp only [takeDigits]
    split
    · exact ih
    · rename_i hc
      intro x hx
      simp at hx; subst hx
      simpa [isDigit] using hc



theorem NumEnd.noDigit {rest : List Char} (h : NumEnd rest) : NoDigit rest := fun c hc => (h c hc).1

theorem pIntPart_cons (c : Char) (t : List Char) :
    pIntPart (c :: t) = if c = '0' then some (['0'], t) else if isDigit c then some (takeDigits (c :: t)) else none := by
  unfold pIntPart
  split
  · rename_i r heq; injection heq with h1 h2; subst h1 h2; simp
  · rename_i c' t' hne heq
    injection heq with h1 h2; subst h1 h2
    have : c ≠ '0' := fun e => hne e
    simp [this]
  · rename_i heq; cases heq

theorem pIntPart_frame (s rest ip r1 : List Char) (h : pIntPart s = some (ip, r1)) (hr : NoDigit rest) :
    pIntPart (s ++ rest) = some (ip, r1 ++ rest) := by
  cases s with
  | nil => simp [pIntPart] at h
  | cons c t =>
    rw [List.cons_append, pIntPart_cons]
    rw [pIntPart_cons] at h
    split at h
    · rename_i h0
      injection h with h; injection h with h1 h2; subst h1 h2
      simp [h0]
    · rename_i h0
      split at h
      · rename_i hc
        injection h with h
        have hf := takeDigits_frame (c :: t) rest (Or.inr hr)
        rw [h] at hf
        simp only [List.cons_append] at hf
        simp [h0, hc, hf]
      · cases h

theorem pFrac_frame (s rest fr r2 : List Char) (h : pFrac s = some (fr, r2)) (hr : NumEnd rest) :
    pFrac (s ++ rest) = some (fr, r2 ++ rest) := by
  cases s with
  | nil =>
    simp only [pFrac] at h
    injection h with h; injection h with h1 h2; subst h1 h2
    simp only [List.nil_append]
    unfold pFrac
    split
    · rename_i r; exact absurd rfl (hr '.' rfl).2.1
    · rfl
  | cons c t =>
    by_cases hc : c = '.'
    · subst hc
      simp only [pFrac, List.cons_append] at h ⊢
      have hf := takeDigits_frame t rest (Or.inr hr.noDigit)
      cases htd : takeDigits t with
      | mk d r' =>
        rw [htd] at h hf
        cases d with
        | nil => simp at h
        | cons d0 ds =>
          simp only [Option.some.injEq, Prod.mk.injEq] at h
          obtain ⟨rfl, rfl⟩ := h
          simp [hf]
    · have e1 : pFrac (c :: t) = some ([], c :: t) := by
        unfold pFrac; split
        · rename_i r heq; injection heq with h1 _; exact absurd h1 hc
        · rfl
      have e2 : pFrac (c :: t ++ rest) = some ([], c :: t ++ rest) := by
        unfold pFrac; split
        · rename_i r heq; injection heq with h1 _; exact absurd h1 hc
        · rfl
      rw [e1] at h
      injection h with h; injection h with h1 h2; subst h1 h2
      exact e2



theorem pExp_nil_rest (rest : List Char) (hr : NumEnd rest) : pExp rest = some ([], rest) := by
  unfold pExp
  split
  · rename_i e r
    have := hr e rfl
    simp [this.2.2.1, this.2.2.2]
  · rfl

theorem splitSign_frame (r rest : List Char) (hr : r ≠ []) :
    splitSign (r ++ rest) = ((splitSign r).1, (splitSign r).2 ++ rest) := by
  cases r with
  | nil => exact absurd rfl hr
  | cons c t =>
    by_cases hp : c = '+'
    · subst hp; rfl
    · by_cases hm : c = '-'
      · subst hm; rfl
      · have e1 : splitSign (c :: t) = ([], c :: t) := by
          unfold splitSign; split
          · rename_i r1 heq; injection heq with a _; exact absurd a hp
          · rename_i r1 heq; injection heq with a _; exact absurd a hm
          · rfl
        have e2 : splitSign (c :: t ++ rest) = ([], c :: t ++ rest) := by
          unfold splitSign; split
          · rename_i r1 heq; injection heq with a _; exact absurd a hp
          · rename_i r1 heq; injection heq with a _; exact absurd a hm
          · rfl
        rw [e2, e1]

theorem pExp_frame (s rest ex : List Char) (h : pExp s = some (ex, [])) (hr : NumEnd rest) :
    pExp (s ++ rest) = some (ex, rest) := by
  cases s with
  | nil =>
    simp only [pExp] at h
    injection h with h; injection h with h1 _; subst h1
    simpa using pExp_nil_rest rest hr
  | cons e r =>
    by_cases he : e = 'e' ∨ e = 'E'
    · simp only [pExp, he, if_true, List.cons_append] at h ⊢
      cases r with
      | nil => simp [splitSign, takeDigits] at h
      | cons c t =>
        rw [splitSign_frame (c :: t) rest (by simp)]
        have hf := takeDigits_frame (splitSign (c :: t)).2 rest (Or.inr hr.noDigit)
        cases htd : takeDigits (splitSign (c :: t)).2 with
        | mk d r2 =>
          rw [htd] at h hf
          cases d with
          | nil => simp at h
          | cons d0 ds =>
            simp only [Option.some.injEq, Prod.mk.injEq] at h
            obtain ⟨rfl, rfl⟩ := h
            simp [hf]
    · simp [pExp, he] at h

/-- **frame**: a number that is parsed completely is parsed the same way in front of anything that cannot extend it -/
theorem pUnsigned_frame (neg : Bool) (s rest : List Char) (v : JVal) (h : pUnsigned neg s = some (v, [])) (hr : NumEnd rest) :
    pUnsigned neg (s ++ rest) = some (v, rest) := by
  unfold pUnsigned at h ⊢
  cases hi : pIntPart s with
  | none => simp [hi] at h
  | some p =>
    obtain ⟨ip, r1⟩ := p
    rw [hi] at h
    rw [pIntPart_frame s rest ip r1 hi hr.noDigit]
    simp only at h ⊢
    cases hf : pFrac r1 with
    | none => simp [hf] at h
    | some q =>
      obtain ⟨fr, r2⟩ := q
      rw [hf] at h
      rw [pFrac_frame r1 rest fr r2 hf hr]
      simp only at h ⊢
      cases he : pExp r2 with
      | none => simp [he] at h
      | some q2 =>
        obtain ⟨ex, r3⟩ := q2
        rw [he] at h
        simp only at h
        have hr3 : r3 = [] := by
          split at h <;> (injection h with h; injection h with _ h2)
        subst hr3
        rw [pExp_frame r2 rest ex he hr]
        simp only
        split at h <;> split <;> simp_all



theorem pNumber_frame (l rest : List Char) (v : JVal) (h : pNumber l = some (v, [])) (hr : NumEnd rest) :
    pNumber (l ++ rest) = some (v, rest) := by
  cases l with
  | nil => simp [pNumber, pUnsigned, pIntPart] at h
  | cons c t =>
    by_cases hc : c = '-'
    · subst hc
      simp only [pNumber, List.cons_append] at h ⊢
      exact pUnsigned_frame true t rest v h hr
    · have e1 : pNumber (c :: t) = pUnsigned false (c :: t) := by
        unfold pNumber; split
        · rename_i r heq; injection heq with a _; exact absurd a hc
        · rfl
      have e2 : pNumber (c :: t ++ rest) = pUnsigned false (c :: t ++ rest) := by
        unfold pNumber; split
        · rename_i r heq; injection heq with a _; exact absurd a hc
        · rfl
      rw [e2]; rw [e1] at h
      exact pUnsigned_frame false (c :: t) rest v h hr

theorem pIntPart_head (s ip r : List Char) (h : pIntPart s = some (ip, r)) : ∃ c t, s = c :: t ∧ c.isDigit = true := by
  cases s with
  | nil => simp [pIntPart] at h
  | cons c t =>
    refine ⟨c, t, rfl, ?_⟩
    rw [pIntPart_cons] at h
    split at h
    · rename_i h0; subst h0; decide
    · split at h
      · rename_i hd; simpa [isDigit] using hd
      · cases h

theorem pUnsigned_head (neg : Bool) (s : List Char) (v : JVal) (r : List Char) (h : pUnsigned neg s = some (v, r)) :
    ∃ c t, s = c :: t ∧ c.isDigit = true := by
  unfold pUnsigned at h
  cases hi : pIntPart s with
  | none => simp [hi] at h
  | some p => obtain ⟨ip, r1⟩ := p; exact pIntPart_head s ip r1 hi

/-- the first character of a float lexeme -/
theorem floatLex_head (l : List Char) (h : isFloatLex l = true) :
    (∃ c t, l = c :: t ∧ c.isDigit = true) ∨ (∃ c t, l = '-' :: c :: t ∧ c.isDigit = true) := by
  unfold isFloatLex at h
  cases hn : pNumber l with
  | none => simp [hn] at h
  | some p =>
    obtain ⟨v, r⟩ := p
    cases l with
    | nil => simp [pNumber, pUnsigned, pIntPart] at hn
    | cons c t =>
      by_cases hc : c = '-'
      · subst hc
        simp only [pNumber] at hn
        obtain ⟨c2, t2, rfl, hd⟩ := pUnsigned_head true t v r hn
        exact Or.inr ⟨c2, t2, rfl, hd⟩
      · have e1 : pNumber (c :: t) = pUnsigned false (c :: t) := by
          unfold pNumber; split
          · rename_i r heq; injection heq with a _; exact absurd a hc
          · rfl
        rw [e1] at hn
        obtain ⟨c2, t2, e, hd⟩ := pUnsigned_head false (c :: t) v r hn
        injection e with e1 e2; subst e1 e2
        exact Or.inl ⟨c, t, rfl, hd⟩

theorem pValue_float (r : String) (h : isFloatLex r.toList = true) (fuel : Nat) (rest : List Char) (hr : NumEnd rest) :
    pValue (fuel + 1) (r.toList ++ rest) = some (.float r, rest) := by
  have hnum : pNumber (r.toList ++ rest) = some (.float r, rest) := by
    have h' := h
    unfold isFloatLex at h'
    cases hn : pNumber r.toList with
    | none => simp [hn] at h'
    | some p =>
      obtain ⟨v, r1⟩ := p
      rw [hn] at h'
      cases v <;> try (simp at h'; done)
      rename_i s
      cases r1 with
      | cons a b => simp at h'
      | nil =>
        simp only [decide_eq_true_eq] at h'
        have : s = r := String.toList_inj.1 h'
        subst this
        exact pNumber_frame _ rest _ hn hr
  rcases floatLex_head r.toList h with ⟨c, t, e, hd⟩ | ⟨c, t, e, hd⟩
  · rw [e] at hnum ⊢
    rw [List.cons_append, pValue_digit c _ fuel hd, ← List.cons_append, hnum]
  · rw [e] at hnum ⊢
    have hI : c ≠ 'I' := by intro e2; rw [e2] at hd; exact absurd hd (by decide)
    simp only [List.cons_append] at hnum ⊢
    have : pValue (fuel + 1) ('-' :: c :: (t ++ rest)) = pNumber ('-' :: c :: (t ++ rest)) := by
      simp [pValue, hI]
    rw [this, hnum]

example : isFloatLex "35.7".toList = true := by decide
example : isFloatLex "-1e-07".toList = true := by decide
example : isFloatLex "1.7976931348623157e+308".toList = true := by decide
example : isFloatLex "12".toList = false := by decide


theorem escChar_length (c : Char) : 1 ≤ (escChar c).toList.length := by
  unfold escChar
  repeat' split
  all_goals simp [hex4, String.toList_append]

theorem escList_length (s : List Char) : s.length ≤ (escList s).length := by
  induction s with
  | nil => simp [escList]
  | cons c t ih =>
    have := escChar_length c
    simp only [escList, List.flatMap_cons, List.length_append, List.length_cons] at ih ⊢
    omega

theorem pValue_str (s : String) (fuel : Nat) (rest : List Char) :
    pValue (fuel + 1) (rcStr s ++ rest) = some (.str s, rest) := by
  have hl := escList_length s.toList
  have : pStrBody ((escList s.toList ++ '"' :: rest).length + 1) (escList s.toList ++ '"' :: rest) = some (s.toList, rest) :=
    pStr_string s.toList _ rest (by simp; omega)
  simp only [rcStr, List.cons_append, List.append_assoc, List.nil_append, pValue, if_true, this]
  simp

theorem skipWs_cons (c : Char) (t : List Char) (h : isWs c = false) : skipWs (c :: t) = c :: t := by
  simp [skipWs, h]

/-- the first character of a rendered (float-free) value: never a blank, `]` or `}` -/
theorem rc_head (j : JVal) (hp : plain j = true) : ∃ c t, rc j = c :: t ∧ isWs c = false ∧ c ≠ ']' ∧ c ≠ '}' := by
  cases j with
  | null => exact ⟨_, _, rfl, by decide, by decide, by decide⟩
  | bool b => cases b <;> exact ⟨_, _, rfl, by decide, by decide, by decide⟩
  | int i =>
    simp only [rc, rcInt]
    split
    · obtain ⟨c, t, hd, hc⟩ := toDigits_cons i.toNat
      obtain ⟨_, _, _, _, _, _, _, _, _, h10, h11, h12⟩ := digit_facts c hc
      exact ⟨c, t, hd, h12, h10, h11⟩
    · exact ⟨_, _, rfl, by decide, by decide, by decide⟩
  | float r =>
    simp only [plain] at hp
    rcases floatLex_head r.toList hp with ⟨c, t, e, hd⟩ | ⟨c, t, e, hd⟩
    · obtain ⟨_, _, _, _, _, _, _, _, _, h10, h11, h12⟩ := digit_facts c hd
      exact ⟨c, t, by simp [rc, e], h12, h10, h11⟩
    · exact ⟨'-', c :: t, by simp [rc, e], by decide, by decide, by decide⟩
  | str s => exact ⟨_, _, rfl, by decide, by decide, by decide⟩
  | arr xs => exact ⟨_, _, rfl, by decide, by decide, by decide⟩
  | obj kvs => exact ⟨_, _, rfl, by decide, by decide, by decide⟩

theorem skipWs_rc (j : JVal) (hp : plain j = true) (rest : List Char) :
    skipWs (rc j ++ rest) = rc j ++ rest ∧ skipWs (' ' :: (rc j ++ rest)) = rc j ++ rest ∧ ∀ r, rc j ++ rest ≠ ']' :: r := by
  obtain ⟨c, t, hd, h1, h2, _⟩ := rc_head j hp
  rw [hd]
  refine ⟨skipWs_cons c _ h1, ?_, ?_⟩
  · simp [skipWs, isWs, skipWs_cons c _ h1]
  · intro r e; injection e with e _; exact h2 e



theorem objSet_fresh (acc : List (String × JVal)) (k : String) (v : JVal) (h : k ∉ acc.map (·.1)) :
    objSet acc k v = acc ++ [(k, v)] := by
  have : acc.any (fun p => p.1 == k) = false := by
    simp only [List.any_eq_false, beq_iff_eq]
    intro p hp e
    exact h (e ▸ List.mem_map_of_mem hp)
  simp [objSet, this]

theorem delim_tail (t : List JVal) (rest : List Char) : Delim (rcLTail t ++ ']' :: rest) := by
  intro c hc
  cases t with
  | nil => simp [rcLTail] at hc; exact Or.inr (Or.inl hc.symm)
  | cons y u => simp [rcLTail] at hc; exact Or.inl hc.symm

theorem delim_ktail (t : List (String × JVal)) (rest : List Char) : Delim (rcKTail t ++ '}' :: rest) := by
  intro c hc
  cases t with
  | nil => simp [rcKTail] at hc; exact Or.inr (Or.inr hc.symm)
  | cons y u => obtain ⟨k, v⟩ := y; simp [rcKTail] at hc; exact Or.inl hc.symm

mutual
theorem pValue_rc : ∀ (j : JVal), plain j = true → ∀ (fuel : Nat) (rest : List Char), cost j ≤ fuel → Delim rest →
    pValue fuel (rc j ++ rest) = some (j, rest)
  | .null, _, fuel, rest, hf, _ => by
    cases fuel with
    | zero => simp [cost] at hf
    | succ f => simp [rc, pValue, stripPrefix, List.isPrefixOf]
  | .bool true, _, fuel, rest, hf, _ => by
    cases fuel with
    | zero => simp [cost] at hf
    | succ f => simp [rc, pValue, stripPrefix, List.isPrefixOf]
  | .bool false, _, fuel, rest, hf, _ => by
    cases fuel with
    | zero => simp [cost] at hf
    | succ f => simp [rc, pValue, stripPrefix, List.isPrefixOf]
  | .int i, _, fuel, rest, hf, hd => by
    cases fuel with
    | zero => simp [cost] at hf
    | succ f => simp only [rc]; exact pValue_int i f rest hd
  | .float r, hp, fuel, rest, hf, hd => by
    cases fuel with
    | zero => simp [cost] at hf
    | succ f => simp only [rc]; exact pValue_float r (by simpa [plain] using hp) f rest hd.numEnd
  | .str s, _, fuel, rest, hf, _ => by
    cases fuel with
    | zero => simp [cost] at hf
    | succ f => simp only [rc]; exact pValue_str s f rest
  | .arr xs, hp, fuel, rest, hf, _ => by
    cases fuel with
    | zero => simp [cost] at hf
    | succ f =>
      cases xs with
      | nil => simp [rc, rcL, pValue, skipWs, isWs]
      | cons x t =>
        have hpl : plainL (x :: t) = true := by simpa [plain] using hp
        have hpx : plain x = true := by simp [plainL] at hpl; exact hpl.1
        have hc : costL (x :: t) ≤ f := by simp [cost] at hf; omega
        have ih := pElems_rc (x :: t) (by simp) hpl f rest [] hc
        obtain ⟨s1, _, s3⟩ := skipWs_rc x hpx (rcLTail t ++ ']' :: rest)
        have e : rc (.arr (x :: t)) ++ rest = '[' :: (rc x ++ (rcLTail t ++ ']' :: rest)) := by simp [rc, rcL]
        have e2 : rcL (x :: t) ++ ']' :: rest = rc x ++ (rcLTail t ++ ']' :: rest) := by simp [rcL]
        rw [e2] at ih
        rw [e]
        simp only [pValue, Char.reduceEq, if_false, if_true, s1]
        first
          | (split
             · rename_i r heq; exact absurd heq (s3 r)
             · simp [ih])
          | simp [ih]
  | .obj kvs, hp, fuel, rest, hf, _ => by
    cases fuel with
    | zero => simp [cost] at hf
    | succ f =>
      cases kvs with
      | nil => simp [rc, rcK, pValue, skipWs, isWs]
      | cons p t =>
        obtain ⟨k, v⟩ := p
        have hp' : plainK ((k, v) :: t) = true ∧ (((k, v) :: t).map (·.1)).Nodup := by simpa [plain] using hp
        have hc : costK ((k, v) :: t) ≤ f := by simp [cost] at hf; omega
        have ih := pMembers_rc ((k, v) :: t) (by simp) hp'.1 f rest [] hc (by simpa using hp'.2)
        have e : rc (.obj ((k, v) :: t)) ++ rest = '{' :: '"' :: (escList k.toList ++ '"' :: ':' :: ' ' :: (rc v ++ (rcKTail t ++ '}' :: rest))) := by
          simp [rc, rcK, rcStr]
        have e2 : rcK ((k, v) :: t) ++ '}' :: rest = '"' :: (escList k.toList ++ '"' :: ':' :: ' ' :: (rc v ++ (rcKTail t ++ '}' :: rest))) := by
          simp [rcK, rcStr]
        rw [e2] at ih
        rw [e]
        simp only [pValue, Char.reduceEq, if_false, if_true]
        rw [skipWs_cons '"' _ (by decide)]
        simp [ih]
theorem pElems_rc : ∀ (l : List JVal), l ≠ [] → plainL l = true → ∀ (fuel : Nat) (rest : List Char) (acc : List JVal),
    costL l ≤ fuel → pElems fuel (rcL l ++ ']' :: rest) acc = some (acc ++ l, rest)
  | [], h, _, _, _, _, _ => absurd rfl h
  | x :: t, _, hp, fuel, rest, acc, hf => by
    cases fuel with
    | zero => simp [costL] at hf
    | succ f =>
      have hpx : plain x = true ∧ plainL t = true := by simpa [plainL] using hp
      have hcx : cost x ≤ f ∧ costL t ≤ f := by simp [costL] at hf; omega
      have hv := pValue_rc x hpx.1 f (rcLTail t ++ ']' :: rest) hcx.1 (delim_tail t rest)
      have e : rcL (x :: t) ++ ']' :: rest = rc x ++ (rcLTail t ++ ']' :: rest) := by simp [rcL]
      rw [e]
      simp only [pElems, hv]
      cases t with
      | nil => simp [rcLTail, skipWs, isWs]
      | cons y u =>
        have ih := pElems_rc (y :: u) (by simp) hpx.2 f rest (acc ++ [x]) hcx.2
        obtain ⟨_, s2, _⟩ := skipWs_rc y (by simp [plainL] at hpx; exact hpx.2.1) (rcLTail u ++ ']' :: rest)
        have e3 : rcL (y :: u) ++ ']' :: rest = rc y ++ (rcLTail u ++ ']' :: rest) := by simp [rcL]
        rw [e3] at ih
        simp only [rcLTail, List.cons_append, List.append_assoc]
        rw [skipWs_cons ',' _ (by decide)]
        simp only [s2, ih]
        simp
theorem pMembers_rc : ∀ (l : List (String × JVal)), l ≠ [] → plainK l = true → ∀ (fuel : Nat) (rest : List Char) (acc : List (String × JVal)),
    costK l ≤ fuel → ((acc ++ l).map (·.1)).Nodup → pMembers fuel (rcK l ++ '}' :: rest) acc = some (acc ++ l, rest)
  | [], h, _, _, _, _, _, _ => absurd rfl h
  | (k, v) :: t, _, hp, fuel, rest, acc, hf, hn => by
    cases fuel with
    | zero => simp [costK] at hf
    | succ f =>
      have hpv : plain v = true ∧ plainK t = true := by simpa [plainK] using hp
      have hcv : cost v ≤ f ∧ costK t ≤ f := by simp [costK] at hf; omega
      have hv := pValue_rc v hpv.1 f (rcKTail t ++ '}' :: rest) hcv.1 (delim_ktail t rest)
      obtain ⟨_, s2, _⟩ := skipWs_rc v hpv.1 (rcKTail t ++ '}' :: rest)
      have hk : k ∉ acc.map (·.1) := by
        intro hm
        simp only [List.map_append, List.map_cons, List.nodup_append, List.nodup_cons] at hn
        exact hn.2.2 k hm k (List.mem_cons_self) rfl
      have hset := objSet_fresh acc k v hk
      have hstr : pStrBody ((escList k.toList ++ '"' :: ':' :: ' ' :: (rc v ++ (rcKTail t ++ '}' :: rest))).length + 1)
          (escList k.toList ++ '"' :: ':' :: ' ' :: (rc v ++ (rcKTail t ++ '}' :: rest))) = some (k.toList, ':' :: ' ' :: (rc v ++ (rcKTail t ++ '}' :: rest))) := by
        have hl := escList_length k.toList
        exact pStr_string k.toList _ _ (by simp; omega)
      have e : rcK ((k, v) :: t) ++ '}' :: rest = '"' :: (escList k.toList ++ '"' :: ':' :: ' ' :: (rc v ++ (rcKTail t ++ '}' :: rest))) := by
        simp [rcK, rcStr]
      rw [e]
      simp only [pMembers, hstr]
      rw [skipWs_cons ':' _ (by decide)]
      simp only [s2, hv, String.ofList_toList, hset]
      cases t with
      | nil => simp [rcKTail, skipWs, isWs]
      | cons q u =>
        obtain ⟨k2, v2⟩ := q
        have ih := pMembers_rc ((k2, v2) :: u) (by simp) hpv.2 f rest (acc ++ [(k, v)]) hcv.2 (by simpa using hn)
        have e3 : rcK ((k2, v2) :: u) ++ '}' :: rest = '"' :: (escList k2.toList ++ '"' :: ':' :: ' ' :: (rc v2 ++ (rcKTail u ++ '}' :: rest))) := by
          simp [rcK, rcStr]
        rw [e3] at ih
        simp only [rcKTail, rcStr, List.cons_append, List.append_assoc, List.nil_append]
        rw [skipWs_cons ',' _ (by decide)]
        have s4 : skipWs (' ' :: '"' :: (escList k2.toList ++ '"' :: ':' :: ' ' :: (rc v2 ++ (rcKTail u ++ '}' :: rest)))) =
            '"' :: (escList k2.toList ++ '"' :: ':' :: ' ' :: (rc v2 ++ (rcKTail u ++ '}' :: rest))) := by
          simp [skipWs, isWs]
        simp only [s4, ih]
        simp
end



mutual
theorem cost_le : ∀ j : JVal, plain j = true → cost j ≤ 2 * (rc j).length
  | .null, _ => by simp [cost, rc]
  | .bool true, _ => by simp [cost, rc]
  | .bool false, _ => by simp [cost, rc]
  | .int i, _ => by
    have : 1 ≤ (rcInt i).length := by
      unfold rcInt
      split
      · exact Nat.length_toDigits_pos
      · simp
    simp only [cost, rc]; omega
  | .float r, hp => by
    simp only [plain] at hp
    have : 1 ≤ r.toList.length := by
      rcases floatLex_head r.toList hp with ⟨c, t, e, _⟩ | ⟨c, t, e, _⟩ <;> (rw [e]; simp)
    simp only [cost, rc]; omega
  | .str s, _ => by simp [cost, rc, rcStr]; omega
  | .arr [], _ => by simp [cost, costL, rc, rcL]
  | .arr (x :: t), hp => by
    have hpl : plain x = true ∧ plainL t = true := by simpa [plain, plainL] using hp
    have h1 := cost_le x hpl.1
    have h2 := costL_le t hpl.2
    simp only [cost, costL, rc, rcL, List.length_cons, List.length_append, List.length_nil]
    omega
  | .obj [], _ => by simp [cost, costK, rc, rcK]
  | .obj ((k, v) :: t), hp => by
    have hpl : plain v = true ∧ plainK t = true := by
      simp only [plain, plainK, Bool.and_eq_true] at hp
      exact hp.1
    have h1 := cost_le v hpl.1
    have h2 := costK_le t hpl.2
    simp only [cost, costK, rc, rcK, rcStr, List.length_cons, List.length_append, List.length_nil]
    omega
theorem costL_le : ∀ l : List JVal, plainL l = true → costL l ≤ 2 * (rcLTail l).length
  | [], _ => by simp [costL]
  | x :: t, hp => by
    have hpl : plain x = true ∧ plainL t = true := by simpa [plainL] using hp
    have h1 := cost_le x hpl.1
    have h2 := costL_le t hpl.2
    simp only [costL, rcLTail, List.length_cons, List.length_append]
    omega
theorem costK_le : ∀ l : List (String × JVal), plainK l = true → costK l ≤ 2 * (rcKTail l).length
  | [], _ => by simp [costK]
  | (k, v) :: t, hp => by
    have hpl : plain v = true ∧ plainK t = true := by simpa [plainK] using hp
    have h1 := cost_le v hpl.1
    have h2 := costK_le t hpl.2
    simp only [costK, rcKTail, rcStr, List.length_cons, List.length_append]
    omega
end

/-- **`json.loads(json.dumps(j)) == j`** for every float-free JSON value whose objects have distinct keys -/
theorem parse_render (j : JVal) (hp : plain j = true) : parse (render j) = some j := by
  have h1 := pValue_rc j hp (2 * (rc j).length + 2) [] (by have := cost_le j hp; omega) (by intro c hc; simp at hc)
  have h2 := (skipWs_rc j hp []).1
  simp only [List.append_nil] at h1 h2
  simp [parse, parseChars, render_toList, h2, h1, skipWs]


end FimVerif.JParse
