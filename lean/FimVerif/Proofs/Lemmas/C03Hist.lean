import FimVerif.Model.CodecHist
import FimVerif.Proofs.Lemmas.C03Class
/-! Helper lemmas for the history (aliasing) theorems of C03. -/
namespace FimVerif.C03
open FimVerif JVal Codec Hist

variable {σ : Type}

theorem step_obj (get : σ → String → JVal → Option JVal) (w : World σ) (s : Step) : (step get w s).1.obj = w.obj := by
  cases s <;> simp only [step] <;> split <;> rfl

theorem step_read (get : σ → String → JVal → Option JVal) (w : World σ) (g : String) (a : JVal) :
    (step get w (.read g a)).2 = get w.obj g a := by
  simp only [step]
  split
  · rename_i r h; exact h.symm
  · rename_i h; exact h.symm

theorem finalWorld_obj (get : σ → String → JVal → Option JVal) (steps : List Step) :
    ∀ w : World σ, (finalWorld get w steps).obj = w.obj := by
  induction steps with
  | nil => intro w; rfl
  | cons s t ih => intro w; simp only [finalWorld]; rw [ih, step_obj]

theorem run_read (get : σ → String → JVal → Option JVal) (steps : List Step) :
    ∀ (w : World σ) (k : Nat) (g : String) (a : JVal), steps[k]? = some (.read g a) →
      (run get w steps)[k]? = some (get w.obj g a) := by
  induction steps with
  | nil => intro w k g a h; simp at h
  | cons s t ih =>
    intro w k g a h
    cases k with
    | zero =>
      simp only [List.getElem?_cons_zero, Option.some.injEq] at h
      subst h
      simp only [run, List.getElem?_cons_zero, step_read]
    | succ k =>
      simp only [List.getElem?_cons_succ] at h
      simp only [run, List.getElem?_cons_succ]
      rw [ih _ k g a h, step_obj]

/-! ### JSONField: lists by reference, `update` copies -/

/-- the effect on the original of the steps that grow *its* lists, and of nothing else -/
def growXOnly : Fields → List RefStep → Fields
  | x, [] => x
  | x, .growX k item :: r => growXOnly (setF x k (growList item (x k))) r
  | x, _ :: r => growXOnly x r

theorem refStep_shared (c : ClassSpec) (w : RefWorld) (s : RefStep) (h : w.shared = []) :
    (refStep c true w s).shared = [] := by
  cases s <;> simp only [refStep, h, List.contains_nil, Bool.false_eq_true, if_false, if_true]
  · cases w.y <;> simp [h]

theorem refStep_x (c : ClassSpec) (w : RefWorld) (s : RefStep) (h : w.shared = []) :
    (refStep c true w s).x = growXOnly w.x [s] := by
  cases s <;> simp only [refStep, h, List.contains_nil, Bool.false_eq_true, if_false, growXOnly]
  · cases w.y <;> simp

theorem growXOnly_cons (x : Fields) (s : RefStep) (r : List RefStep) : growXOnly x (s :: r) = growXOnly (growXOnly x [s]) r := by
  cases s <;> simp [growXOnly]

theorem refRun_x (c : ClassSpec) (steps : List RefStep) :
    ∀ w : RefWorld, w.shared = [] → (refRun c true w steps).shared = [] ∧ (refRun c true w steps).x = growXOnly w.x steps := by
  induction steps with
  | nil => intro w h; exact ⟨h, rfl⟩
  | cons s t ih =>
    intro w h
    have := ih (refStep c true w s) (refStep_shared c w s h)
    simp only [refRun]
    refine ⟨this.1, ?_⟩
    rw [this.2, refStep_x c w s h, ← growXOnly_cons]

theorem growList_inDomain (g : Guard) (hg : g = .strOrList ∨ g = .strOrStrList) (item v : JVal) (hi : item.isStr = true)
    (hv : inDomain g v = true) : inDomain g (growList item v) = true := by
  rcases hg with rfl | rfl <;> cases v <;> simp_all [inDomain, growList]
  all_goals (
    rename_i xs
    have key : ∀ x, x ∈ xs ∨ x = item → x.isStr = true := by
      rintro x (h | rfl)
      · exact hv x h
      · exact hi
    split
    · intro x hx
      apply key
      simp only [List.mem_cons, List.mem_reverse] at hx
      rcases hx with h | h
      · exact Or.inr h
      · exact Or.inl h
    · intro x hx
      apply key
      simpa using hx)

theorem growList_scalar (item v : JVal) (h : isContainer v = false) : growList item v = v := by
  cases v <;> simp_all [growList, isContainer]

/-- growing, in place, the list a field holds keeps the instance inside the documented domain -/
theorem grow_wellTyped (c : ClassSpec) (valid : String → JVal → Bool) (hg : c.guard = .strOrList ∨ c.guard = .strOrStrList)
    (hd : ∀ f ∈ c.fields, isContainer f.dflt = false) (x : Fields) (hx : WellTyped c valid x) (k : String) (item : JVal)
    (hi : item.isStr = true) (hv : ∀ v, valid k v = true → valid k (growList item v) = true) :
    WellTyped c valid (setF x k (growList item (x k))) := by
  constructor
  · intro f hf
    by_cases hk : f.name = k
    · subst hk
      simp only [setF, if_true]
      rcases hx.1 f hf with ⟨he, hdr⟩ | ⟨hdom, hval⟩
      · left
        rw [growList_scalar _ _ (by rw [he]; exact hd f hf)]
        exact ⟨he, hdr⟩
      · right
        exact ⟨growList_inDomain _ hg _ _ hi hdom, hv _ hval⟩
    · simp only [setF, hk, if_false]; exact hx.1 f hf
  · intro k' hk'
    by_cases h : k' = k
    · subst h
      simp only [setF, if_true]
      rw [hx.2 _ hk']; rfl
    · simp only [setF, h, if_false]; exact hx.2 k' hk'

/-- the growth steps of a history are inside the domain: string items, and validity is closed under growing by them -/
def GrowOK (valid : String → JVal → Bool) (steps : List RefStep) : Prop :=
  ∀ k item, RefStep.growX k item ∈ steps → item.isStr = true ∧ ∀ v, valid k v = true → valid k (growList item v) = true

theorem growXOnly_wellTyped (c : ClassSpec) (valid : String → JVal → Bool) (hg : c.guard = .strOrList ∨ c.guard = .strOrStrList)
    (hd : ∀ f ∈ c.fields, isContainer f.dflt = false) (steps : List RefStep) :
    ∀ x, WellTyped c valid x → GrowOK valid steps → WellTyped c valid (growXOnly x steps) := by
  induction steps with
  | nil => intro x hx _; exact hx
  | cons s t ih =>
    intro x hx hok
    have hok' : GrowOK valid t := fun k item hm => hok k item (List.mem_cons_of_mem _ hm)
    cases s with
    | growX k item =>
      obtain ⟨hi, hv⟩ := hok k item List.mem_cons_self
      exact ih _ (grow_wellTyped c valid hg hd x hx k item hi hv) hok'
    | takeUpdate => exact ih x hx hok'
    | growY k item => exact ih x hx hok'
    | showX => exact ih x hx hok'
    | showY => exact ih x hx hok'

end FimVerif.C03
