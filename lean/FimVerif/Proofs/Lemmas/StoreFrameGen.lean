import FimVerif.Proofs.Lemmas.StoreMergeFrame
/-! C04: the frame theorem without the `keepsGraphId` hypothesis — an operation that writes `GraphID`
    (re-homing a node, a direct import carrying other ids, a merge) changes only the graphs listed by
    `Op.affects`.  Core only. -/
namespace FimVerif.Store
open FimVerif FimVerif.Gen.StoreConsts

/-- a dictionary update on nodes that are not in `g'` before and are not in `g'` afterwards -/
theorem frames_updNodes_out (g' : String) (s : Store) (c : SNode → Bool) (f : Props → Props)
    (hc : ∀ n ∈ s.nodes, c n = true → inG g' n = false)
    (hf : ∀ n ∈ s.nodes, c n = true → AMap.get graphId (f n.attrs) ≠ some (.str g')) :
    Frames g' s { s with nodes := s.nodes.map (fun n => if c n then { n with attrs := f n.attrs } else n) } := by
  apply frames_of
  · unfold nodesOf
    apply map_filter_frame
    · intro n hn
      by_cases h : c n
      · have h1 := hc n hn h
        have h2 := hf n hn h
        simp only [h, if_true, h1]
        simp only [inG, beq_eq_false_iff_ne, ne_eq]
        exact h2
      · simp [h]
    · intro n hn hp
      by_cases h : c n
      · rw [hc n hn h] at hp; cases hp
      · simp [h]
  · rfl

theorem frames_updFound_out (s : Store) (h : Inv s) (g g' nid : String) (i : Nat) (hf : findNode s g nid = .ok i)
    (f : Props → Props) (hne : g' ≠ g)
    (hfp : ∀ n ∈ s.nodes, n.iid = i → AMap.get graphId (f n.attrs) ≠ some (.str g')) :
    Frames g' s (updNode i f s) := by
  obtain ⟨n, hn, e, hg, _⟩ := findNode_ok s g nid i hf
  have := frames_updNodes_out g' s (fun m => decide (m.iid = i)) f (by
    intro m hm hc
    simp only [decide_eq_true_eq] at hc
    have : m = n := eq_of_nodup_map (·.iid) s.nodes h.1 m hm n hn (by simp [hc, e])
    subst this
    cases hh : inG g' m with
    | false => rfl
    | true => exact absurd (inG_unique m g' g hh hg) hne) (by
    intro m hm hc
    exact hfp m hm (by simpa using hc))
  simpa [updNode] using this

/-- the value `d.update(p)` leaves under a key that `p` names does not depend on `d` -/
theorem get_update_of_mem (k : String) (a p : Props) (hk : k ∈ AMap.keys p) :
    AMap.get k (AMap.update a p) = AMap.get k (AMap.update [] p) := by
  induction p generalizing a with
  | nil => simp [AMap.keys] at hk
  | cons x p ih =>
    rw [AMap.update_cons, AMap.update_cons]
    by_cases hp : k ∈ AMap.keys p
    · rw [ih _ hp, ih (AMap.set x.1 x.2 []) hp]
    · rw [AMap.get_update_not_mem _ _ _ hp, AMap.get_update_not_mem _ _ _ hp]
      simp only [AMap.keys, List.map_cons, List.mem_cons] at hk
      rcases hk with hk | hk
      · subst hk; rw [AMap.get_set_eq, AMap.get_set_eq]
      · exact absurd hk hp

theorem mem_keys_of_has (k : String) (p : Props) (h : AMap.has k p = true) : k ∈ AMap.keys p := by
  cases hh : AMap.get k p with
  | none => simp [AMap.has, hh] at h
  | some v =>
    apply Classical.byContradiction
    intro hn
    rw [(AMap.get_eq_none_iff k p).2 hn] at hh
    cases hh

/-- what `d.update(p)` leaves under `GraphID`: `gidOf p` if `p` names it, else what `d` had -/
theorem get_graphId_update (a p : Props) :
    AMap.get graphId (AMap.update a p) = if AMap.has graphId p then gidOf p else AMap.get graphId a := by
  by_cases h : AMap.has graphId p = true
  · simp only [h, if_true, gidOf]; exact get_update_of_mem _ _ _ (mem_keys_of_has _ _ h)
  · simp only [h]
    have : AMap.has graphId p = false := by simpa using h
    exact AMap.get_update_not_mem _ _ _ (AMap.not_mem_keys_of_has_false _ _ this)

theorem gidOf_none_of_not_has (p : Props) (h : AMap.has graphId p = false) : gidOf p = none := by
  unfold gidOf
  rw [AMap.get_update_not_mem _ _ _ (AMap.not_mem_keys_of_has_false _ _ h)]
  rfl

/-- the `GraphID` of a merged dictionary is the caller's, the other node's, a pair or `None` -/
theorem mergeProps_graphId (theirs : Props) (pol : List (String × Policy)) (mine np : Props)
    (h : mergeProps theirs pol mine = .ok np) (v0 : Val) (hm : AMap.get graphId mine = some v0) :
    AMap.get graphId np = some v0 ∨ AMap.get graphId np = some ((AMap.get graphId theirs).getD .none) ∨
    (∃ w, AMap.get graphId np = some (.pair v0 w)) ∨ AMap.get graphId np = some .none := by
  have := mergeProps_policy theirs pol mine np h graphId v0 hm
  rw [this]
  cases AMap.get graphId pol with
  | none => exact Or.inl rfl
  | some p =>
    cases p with
    | discard => exact Or.inl rfl
    | overwrite => exact Or.inr (Or.inl rfl)
    | combine => exact Or.inr (Or.inr (Or.inl ⟨_, rfl⟩))
    | other => exact Or.inr (Or.inr (Or.inr rfl))

/-- `merge_nodes` frames every graph other than the two it names, whatever the policy says -/
theorem frame_mergeNodes_gen (s : Store) (h : Inv s) (g nid g2 g' : String) (pol : Option (List (String × Policy)))
    (h1 : g' ≠ g) (h2 : g' ≠ g2) : Frames g' s (mergeNodes g nid g2 pol s).2 := by
  have R := Frames.refl g' s
  unfold mergeNodes
  split
  · exact R
  · refine withNode_pred (Frames g' s) s g nid _ R (fun u hu => ?_)
    split
    · exact R
    · rename_i v hv
      split
      · exact R
      have hnu := findNode_not_in s h g g' nid u hu h1
      have hnv := findNode_not_in s h g2 g' nid v hv h2
      have hcon : Frames g' s (contract u v s) := by
        unfold contract
        simp only
        have f1 := frames_removeNode g' s v hnv
        refine Frames.trans f1 (frames_remapEdges g' u v _ _ (by rw [f1.1]; exact hnu) ?_)
        intro e he
        simpa using (List.mem_filter.1 he).2
      obtain ⟨nu, hnu', eu, gu, _⟩ := findNode_ok s g nid u hu
      obtain ⟨nv, hnv', ev, gv, _⟩ := findNode_ok s g2 nid v hv
      split
      · rename_i mine theirs hmine htheirs
        have hm : mine = nu.attrs := by
          have := nodeAttrs_of_mem s h nu hnu'
          rw [eu, hmine] at this; injection this
        have ht : theirs = nv.attrs := by
          have := nodeAttrs_of_mem s h nv hnv'
          rw [ev, htheirs] at this; injection this
        have gm : AMap.get graphId mine = some (.str g) := by rw [hm]; simpa [inG] using gu
        have gt : AMap.get graphId theirs = some (.str g2) := by rw [ht]; simpa [inG] using gv
        have hupd : ∀ np, AMap.get graphId np ≠ some (.str g') → Frames g' s (updNode u (fun _ => np) (contract u v s)) := by
          intro np hnp
          refine Frames.trans hcon ?_
          have := frames_updNodes_out g' (contract u v s) (fun m => decide (m.iid = u)) (fun _ => np) (by
            intro n hn hc
            simp only [decide_eq_true_eq] at hc
            have hn' : n ∈ s.nodes := by
              unfold contract at hn; simp only at hn
              rw [(remapEdges_nodes u v _ _).1] at hn
              exact (List.mem_filter.1 hn).1
            have : n = nu := eq_of_nodup_map (·.iid) s.nodes h.1 n hn' nu hnu' (by rw [hc, eu])
            cases hh : inG g' n with
            | false => rfl
            | true => rw [this] at hh; exact absurd (inG_unique nu g' g hh gu) h1) (fun _ _ _ => hnp)
          simpa [updNode] using this
        cases pol with
        | none =>
          apply hupd
          rw [gm]; intro e; injection e with e; injection e with e; exact h1 e.symm
        | some pol =>
          simp only
          split
          · exact R
          · rename_i np hnp
            apply hupd
            rcases mergeProps_graphId theirs pol mine np hnp _ gm with e | e | ⟨w, e⟩ | e
            · rw [e]; intro e; injection e with e; injection e with e; exact h1 e.symm
            · rw [e, gt]; intro e; injection e with e; injection e with e; exact h2 e.symm
            · rw [e]; intro e; injection e with e; cases e
            · rw [e]; intro e; injection e with e; cases e
      · exact R

theorem affects_target (op : Op) (g' : String) (h : op.affects g' = false) : g' ≠ op.target := by
  intro e
  simp [Op.affects, e] at h

theorem affects_writes (op : Op) (g' : String) (h : op.affects g' = false) : Val.str g' ∉ op.gidWrites := by
  intro e
  simp only [Op.affects, Bool.or_eq_false_iff, List.contains_eq_mem, decide_eq_false_iff_not] at h
  exact h.1.2 e

/-- **general frame.**  Whatever the operation — `GraphID` rewrites, direct imports of nodes carrying other
    ids, merges with any policy included — every graph that `Op.affects` does not list keeps exactly its
    nodes and edges, whether the call succeeds or fails. -/
theorem frame_affects (op : Op) (s : Store) (g' : String) (h : Inv s) (ha : op.affects g' = false) :
    Frames g' s (step op s).2 := by
  have hne := affects_target op g' ha
  have hw := affects_writes op g' ha
  by_cases hk : op.keepsGraphId = true
  · exact frame_step op s g' h hk hne
  · cases op with
    | addNode g nid label props =>
      cases props with
      | none => simp [Op.keepsGraphId] at hk
      | some p =>
        simp only [Op.keepsGraphId, Bool.not_eq_true', Bool.not_eq_false] at hk
        simp only [Op.target] at hne
        simp only [step, addNode]
        split
        · exact Frames.refl _ _
        · refine Frames.trans (frames_addBlankNode g g' label nid s hne) ?_
          have hi := inv_addBlankNode s g label nid h
          have := frames_updNodes_out g' (addBlankNode g label nid s) (fun m => decide (m.iid = s.nextId))
            (fun a => AMap.update a p) (by
              intro n hn hc
              simp only [decide_eq_true_eq] at hc
              simp only [addBlankNode, List.mem_append, List.mem_singleton] at hn
              rcases hn with hn | rfl
              · have := h.2.1 n hn; omega
              · simp only [inG, AMap.get, if_true, beq_eq_false_iff_ne, ne_eq]
                intro e; injection e with e; injection e with e; exact hne e.symm) (by
              intro n _ _
              rw [get_graphId_update, hk, if_pos rfl]
              intro e
              apply hw
              simp [Op.gidWrites, e])
          simpa [updNode] using this
    | updateNodeProperty g nid k v =>
      simp only [Op.keepsGraphId, bne_iff_ne, ne_eq, Decidable.not_not] at hk
      subst hk
      simp only [Op.target] at hne
      simp only [step]
      refine assertVal_pred (Frames g' s) _ s _ (Frames.refl _ _) ?_
      simp only [updateNodeProperty]
      split
      · exact Frames.refl _ _
      · refine withNode_pred (Frames g' s) s g nid _ (Frames.refl _ _) (fun i hi => ?_)
        refine frames_updFound_out s h g g' nid i hi _ hne (fun n _ _ => ?_)
        rw [AMap.get_set_eq]
        intro e; injection e with e
        apply hw; simp [Op.gidWrites, e]
    | updateNodesProperty g k v =>
      simp only [Op.keepsGraphId, bne_iff_ne, ne_eq, Decidable.not_not] at hk
      subst hk
      simp only [Op.target] at hne
      simp only [step]
      refine assertVal_pred (Frames g' s) _ s _ (Frames.refl _ _) ?_
      simp only [updateNodesProperty]
      split
      · exact Frames.refl _ _
      · split
        · exact Frames.refl _ _
        · have := frames_updNodes_out g' s (inG g) (AMap.set graphId v) (by
            intro m _ hc
            cases hh : inG g' m with
            | false => rfl
            | true => exact absurd (inG_unique m g' g hh hc) hne) (by
            intro n _ _
            rw [AMap.get_set_eq]
            intro e; injection e with e
            apply hw; simp [Op.gidWrites, e])
          simpa [updGraphNodes] using this
    | updateNodeProperties g nid p =>
      simp only [Op.keepsGraphId, Bool.not_eq_true', Bool.not_eq_false] at hk
      simp only [Op.target] at hne
      simp only [step, updateNodeProperties]
      split
      · exact Frames.refl _ _
      · refine withNode_pred (Frames g' s) s g nid _ (Frames.refl _ _) (fun i hi => ?_)
        refine frames_updFound_out s h g g' nid i hi _ hne (fun n _ _ => ?_)
        rw [get_graphId_update, hk, if_pos rfl]
        intro e
        apply hw
        simp [Op.gidWrites, e]
    | addGraphDirect g ig =>
      simp only [Op.target] at hne
      simp only [step, addGraphDirect]
      refine Frames.trans (frames_delIfPresent g g' s h hne) (frames_appendGraph g' _ (inv_delIfPresent s g h) _ _ ?_)
      intro a ha e
      apply hw
      simp only [Op.gidWrites, List.mem_filterMap]
      exact ⟨a, by simpa [IGraph.close] using ha, e⟩
    | mergeNodes g nid g2 pol =>
      have h2 : g' ≠ g2 := by
        intro e; simp [Op.affects, e] at ha
      exact frame_mergeNodes_gen s h g nid g2 g' pol hne h2
    | delAllGraphs => simp [Op.affects] at ha
    | _ => simp [Op.keepsGraphId] at hk

end FimVerif.Store
