import FimVerif.Proofs.Lemmas.TopoAtomicComp
/-! `remove_cp_and_links` raises only while it is still reading: the nodes it then deletes are distinct and present. -/
namespace FimVerif.Topo
open FimVerif FimVerif.M


theorem nodup_eraseDups_aux : ∀ (n : Nat) (l : List Nid), l.length ≤ n → l.eraseDups.Nodup := by
  intro n
  induction n with
  | zero => intro l hl; have : l = [] := List.length_eq_zero_iff.mp (by omega); subst this; simp
  | succ n ih =>
    intro l hl
    cases l with
    | nil => simp
    | cons a as =>
      rw [List.eraseDups_cons, List.nodup_cons]
      refine ⟨fun hm => ?_, ih _ ?_⟩
      · have := List.mem_filter.mp (List.mem_eraseDups.mp hm); simp at this
      · have := List.length_filter_le (fun b => !b == a) as
        simp only [List.length_cons] at hl; omega

theorem nodup_eraseDups (l : List Nid) : l.eraseDups.Nodup := nodup_eraseDups_aux l.length l (Nat.le_refl _)

def Present (t : Topo) (x : Nid) : Prop := ∃ n ∈ t.nodes, n.nid = x

theorem forEach_deleteNode_total (L : List Nid) : ∀ (u : Topo), IdsDistinct u → L.Nodup → (∀ x ∈ L, Present u x) →
    ∃ u', M.forEach L deleteNode u = (.ok (), u') := by
  induction L with
  | nil => intro u _ _ _; exact ⟨u, rfl⟩
  | cons x L ih =>
    intro u hd hnd hp
    obtain ⟨n, hn, rfl⟩ := hp x (List.mem_cons_self ..)
    rw [forEach_cons_ok (deleteNode_run hd hn)]
    rw [List.nodup_cons] at hnd
    refine ih _ (idsDistinct_drop hd _) hnd.2 ?_
    intro y hy
    obtain ⟨m, hm, hmy⟩ := hp y (List.mem_cons_of_mem _ hy)
    refine ⟨m, List.mem_filter.mpr ⟨hm, ?_⟩, hmy⟩
    simp only [bne_iff_ne, ne_eq]
    intro e
    exact hnd.1 (by rw [← nid_of_ref_eq e, hmy]; exact hy)

theorem firstNeighbor_present {i : Nid} {rel : Rel} {L : Cls} {t t' : Topo} {ids : List Nid}
    (h : firstNeighbor i rel L t = (.ok ids, t')) : Present t i ∧ ∀ x ∈ ids, Present t x := by
  unfold firstNeighbor at h
  obtain ⟨n, t1, h1, h2⟩ := bind_ok_inv h
  obtain ⟨hm, hi, ht⟩ := findNode_ok h1
  subst ht
  simp only [read_apply, Prod.mk.injEq, Except.ok.injEq] at h2
  refine ⟨⟨n, hm, hi⟩, ?_⟩
  intro x hx
  rw [← h2.1] at hx
  obtain ⟨y, hy, rfl⟩ := List.mem_map.mp hx
  exact ⟨y, (List.mem_filter.mp hy).1, rfl⟩

theorem filterMapM'_sub {β γ : Type} {f : β → M Topo (Option γ)} (hf : ∀ b, ReadOnly (f b)) {P : γ → Prop} {s : Topo}
    (hP : ∀ b r t', f b s = (.ok (some r), t') → P r) :
    ∀ (l : List β) (t' : Topo) (out : List γ), M.filterMapM' f l s = (.ok out, t') → ∀ r ∈ out, P r := by
  intro l
  induction l with
  | nil => intro t' out h r hr; simp [M.filterMapM'] at h; rw [h.1] at hr; cases hr
  | cons x xs ih =>
    intro t' out h r hr
    have h' : (f x >>= fun y => M.filterMapM' f xs >>= fun ys => Pure.pure (match y with | some v => v :: ys | none => ys)) s = (.ok out, t') := h
    obtain ⟨y, t1, h1, h2⟩ := bind_ok_inv h'
    have e1 := ro_run (hf x) h1
    rw [e1] at h2
    obtain ⟨ys, t2, h3, h4⟩ := bind_ok_inv h2
    simp only [pure_apply', Prod.mk.injEq, Except.ok.injEq] at h4
    rw [← h4.1] at hr
    cases y with
    | none => exact ih _ _ h3 r hr
    | some v =>
      rcases List.mem_cons.mp hr with rfl | hr'
      · exact hP _ _ _ h1
      · exact ih _ _ h3 r hr'

theorem mapM'_all {β γ : Type} {f : β → M Topo γ} (hf : ∀ b, ReadOnly (f b)) {P : γ → Prop} {s : Topo}
    (hP : ∀ b r t', f b s = (.ok r, t') → P r) :
    ∀ (l : List β) (t' : Topo) (out : List γ), M.mapM' f l s = (.ok out, t') → ∀ r ∈ out, P r := by
  intro l
  induction l with
  | nil => intro t' out h r hr; simp [M.mapM'] at h; rw [h.1] at hr; cases hr
  | cons x xs ih =>
    intro t' out h r hr
    have h' : (f x >>= fun y => M.mapM' f xs >>= fun ys => Pure.pure (y :: ys)) s = (.ok out, t') := h
    obtain ⟨y, t1, h1, h2⟩ := bind_ok_inv h'
    have e1 := ro_run (hf x) h1
    rw [e1] at h2
    obtain ⟨ys, t2, h3, h4⟩ := bind_ok_inv h2
    simp only [pure_apply', Prod.mk.injEq, Except.ok.injEq] at h4
    rw [← h4.1] at hr
    rcases List.mem_cons.mp hr with rfl | hr'
    · exact hP _ _ _ h1
    · exact ih _ _ h3 r hr'

/-- `remove_cp_and_links` raises only while it is still reading -/
theorem removeCpAndLinks_atomic (nid : Nid) (dp : Bool) (s : Topo) (hd : IdsDistinct s) : FS s (removeCpAndLinks nid dp s) := by
  unfold removeCpAndLinks
  refine ro_step (by ro) FS.err (fun parents hpar => ?_)
  refine ro_step (by ro) FS.err (fun extra hextra => ?_)
  refine ro_step (by ro) FS.err (fun links hlinks => ?_)
  obtain ⟨hnid, hparP⟩ := firstNeighbor_present hpar
  have pick1 : ∀ (b : Nid) (cond : List Nid → Bool) (rel : Rel) (L : Cls) (r : Nid) (t' : Topo),
      (firstNeighbor b rel L >>= fun ch => (Pure.pure (if cond ch then some b else none) : M Topo (Option Nid))) s = (.ok (some r), t') →
      Present s r := by
    intro b cond rel L r t' h
    obtain ⟨ch, t1, h1, h2⟩ := bind_ok_inv h
    have hb := (firstNeighbor_present h1).1
    simp only [pure_apply', Prod.mk.injEq, Except.ok.injEq] at h2
    split at h2
    · simp only [Option.some.injEq] at h2; rw [← h2.1]; exact hb
    · simp at h2
  have hextraP : ∀ x ∈ extra, Present s x :=
    filterMapM'_sub (P := Present s) (fun b => by ro)
      (fun b r t' h => pick1 b (fun ch => ch.length == 1 && dp) _ _ r t' h) parents _ _ hextra
  have hlinksP : ∀ r ∈ links, ∀ x ∈ r, Present s x := by
    refine mapM'_all (P := fun r => ∀ x ∈ r, Present s x) (fun b => by ro) (fun i r t' h => ?_) _ _ _ hlinks
    obtain ⟨ls, t1, h1, h2⟩ := bind_ok_inv h
    have e1 := ro_run (readOnly_firstNeighbor _ _ _) h1
    rw [e1] at h2
    exact filterMapM'_sub (P := Present s) (fun b => by ro)
      (fun b r t' h => pick1 b (fun cps => cps.length == 2) _ _ r t' h) ls _ _ h2
  have hall : ∀ x ∈ ((nid :: extra).eraseDups ++ links.flatten).eraseDups, Present s x := by
    intro x hx
    rcases List.mem_append.mp (List.mem_eraseDups.mp hx) with hx | hx
    · rcases List.mem_cons.mp (List.mem_eraseDups.mp hx) with rfl | hx
      · exact hnid
      · exact hextraP x hx
    · obtain ⟨r, hr, hxr⟩ := List.mem_flatten.mp hx
      exact hlinksP r hr x hxr
  obtain ⟨u', hu'⟩ := forEach_deleteNode_total _ s hd (nodup_eraseDups _) hall
  rw [hu']; intro hf; simp at hf
end FimVerif.Topo
