import FimVerif.Proofs.Lemmas.C02Props
/-! Every route to a property of a model element (C02): `set_property` / `set_properties` / attribute assignment,
`unset_property` / `set_property(p, None)` / attribute `= None`.  Route data (`elemClasses`) is regenerated from
behavioural probes of the element classes on every run; the lemmas here are generic in that data, the checks
(`classOK`, `rowsOK`) are Bool functions evaluated by `decide` over the complete generated tables in `Proofs/C02.lean`. -/
namespace FimVerif.C02
open FimVerif.Sliver FimVerif.Gen.SliverMap

/-- the two halves of the `ImageRef` text property: written only together (fate sharing), by a `pair` route -/
def pairKeys : List String := ["image_ref", "image_type"]

/-- names whose unset is *not* routed to their own graph property by `SLIVER_PROPERTY_TO_GRAPH` (known findings
`C02:unset_get:stitch_node:still-set`, `C02:unset_get:image_type:still-set:ctx=image-stored`; `image_type` shares
`ImageRef` with `image_ref` and is unset through it) -/
def unsetExempt : List String := ["image_type", "stitch_node"]

/-- the ways to give property `k` of an element a value -/
inductive SetRoute where
  | setProperty
  | setProperties
  | attr (r : AttrRoute)

/-- the ways to unset property `k` of an element -/
inductive UnsetRoute where
  | unsetProperty
  | setPropertyNone
  | attrNone (r : AttrRoute)

section
variable {V P : Type}

def setVia (C : Codecs V P) (T : KindTable) (E : ElemClass) (wn : String → V) (fresh : Fields V) (p : Props P) (k : Key) (v : V) :
    SetRoute → Except Err (Props P)
  | .setProperty => setPropertyOpt C T E fresh p k (some v)
  | .setProperties => setProperties C T fresh p [(k, some v)]
  | .attr r => attrAssign C T E wn fresh p r (some v)

def unsetVia (C : Codecs V P) (T : KindTable) (E : ElemClass) (wn : String → V) (fresh : Fields V) (p : Props P) (k : Key) :
    UnsetRoute → Except Err (Props P)
  | .unsetProperty => unsetProperty p k
  | .setPropertyNone => setPropertyOpt C T E fresh p k none
  | .attrNone r => attrAssign C T E wn fresh p r none

/-- the route writes `k` itself: an attribute route must belong to the class, name `k`, and hand the value to `set_property` -/
def SetRoute.Writes (E : ElemClass) (k : Key) : SetRoute → Prop
  | .attr r => r ∈ E.routes ∧ r.prop = k ∧ (r.onValue = OnValue.direct ∨ r.onValue = OnValue.jsonWrap)
  | _ => True

/-- the route ends in `unset_property(k)` -/
def UnsetRoute.Unsets (E : ElemClass) (k : Key) : UnsetRoute → Prop
  | .unsetProperty => True
  | .setPropertyNone => E.setNoneUnsets = true
  | .attrNone r => r ∈ E.routes ∧ r.prop = k ∧
      (r.onNone = OnNone.unsets ∨ (r.onNone = OnNone.passNone ∧ E.setNoneUnsets = true))

theorem setProperties_single (C : Codecs V P) (T : KindTable) (fresh : Fields V) (p : Props P) (k : Key) (v : V) :
    setProperties C T fresh p [(k, some v)] = .ok (setProperty C T fresh p k v) := by
  unfold setProperties
  have : applyKw T fresh [(k, some v)] = .ok (fresh.set k (some v)) := by
    simp only [applyKw]
  rw [this]
  rfl

/-- **all set routes coincide**: whichever route is taken, the node afterwards is `setProperty … k v` -/
theorem setVia_eq (C : Codecs V P) (T : KindTable) (E : ElemClass) (wn : String → V) (fresh : Fields V) (p : Props P)
    (k : Key) (v : V) (route : SetRoute) (h : route.Writes E k) :
    setVia C T E wn fresh p k v route = .ok (setProperty C T fresh p k v) := by
  cases route with
  | setProperty => rfl
  | setProperties => exact setProperties_single C T fresh p k v
  | attr r =>
    obtain ⟨_, hk, hv⟩ := h
    subst hk
    rcases hv with hv | hv <;> simp [setVia, attrAssign, hv, setPropertyOpt]

/-- **all unset routes coincide**: whichever route is taken, it is `unset_property(k)` -/
theorem unsetVia_eq (C : Codecs V P) (T : KindTable) (E : ElemClass) (wn : String → V) (fresh : Fields V) (p : Props P)
    (k : Key) (route : UnsetRoute) (h : route.Unsets E k) :
    unsetVia C T E wn fresh p k route = unsetProperty p k := by
  cases route with
  | unsetProperty => rfl
  | setPropertyNone =>
    simp only [UnsetRoute.Unsets] at h
    simp [unsetVia, setPropertyOpt, h]
  | attrNone r =>
    obtain ⟨_, hk, hv⟩ := h
    subst hk
    rcases hv with hv | ⟨hv, hs⟩
    · simp [unsetVia, attrAssign, hv]
    · simp [unsetVia, attrAssign, hv, setPropertyOpt, hs]

end

/-! ### the checks over the generated data -/

/-- the to-row that writes the graph property a from-row reads -/
def rowOf (T : KindTable) (f : FromRow) : ToRow :=
  (T.toRows.find? (fun r => r.gprop == f.gprop)).getD default

/-- per kind: every rebuilt property other than the image pair is written by a row of its own; every rebuilt property
that can be unset (not exempt, not an identity property) reads `None` when absent and accepts `None` -/
def rowsOK (T : KindTable) : Bool :=
  T.fromRows.all (fun f => pairKeys.contains f.key ||
    ((rowOf T f).keys == [f.key] && (rowOf T f).gprop == f.gprop && T.toRows.contains (rowOf T f))) &&
  T.fromRows.all (fun f => unsetExempt.contains f.key || noUnset.contains f.gprop ||
    (f.absent == Absent.none && f.noneOk && mapUnset f.key == some f.gprop))

/-- one attribute route of class `E` against the table of its kind -/
def routeOK (T : KindTable) (r : AttrRoute) : Bool :=
  r.attr == r.prop &&
  T.fromRows.any (fun f => f.key == r.prop) &&
  (r.get == GetForm.dataOf) == T.fromRows.any (fun f => f.key == r.prop && f.dec == Dec.jsonDataCtor) &&
  (r.get != GetForm.cached || (r.prop == "name" && r.cacheAfterWrite)) &&
  (match r.onValue with
   | .none => r.onNone == OnNone.none
   | .direct => (r.onNone == OnNone.passNone || r.onNone == OnNone.unsets) && !pairKeys.contains r.prop
   | .jsonWrap => (r.onNone == OnNone.passNone || r.onNone == OnNone.unsets) && !pairKeys.contains r.prop &&
       T.fromRows.any (fun f => f.key == r.prop && f.dec == Dec.jsonDataCtor && f.arg == r.cls)
   | .pair => pairKeys.contains r.prop && pairKeys.contains r.partner && r.partner != r.prop &&
       (r.onNone == OnNone.unsets || r.onNone == OnNone.passNone ||
         (unsetExempt.contains r.prop && r.onNone == OnNone.pairNone)))

/-- an element class: `set_property(p, None)` is `unset_property(p)`, its kind has a table, attribute names are
distinct, every attribute route passes -/
def classOK (E : ElemClass) : Bool :=
  E.setNoneUnsets && tables.any (fun T => T.kind == E.kind) && decide (E.routes.map (·.attr)).Nodup &&
  E.routes.all (routeOK (tableOf E.kind))

theorem classOK_route {E : ElemClass} (h : classOK E = true) (r : AttrRoute) (hr : r ∈ E.routes) :
    E.setNoneUnsets = true ∧ routeOK (tableOf E.kind) r = true := by
  simp only [classOK, Bool.and_eq_true, List.all_eq_true] at h
  exact ⟨h.1.1.1, h.2 r hr⟩

/-- a settable attribute outside the image pair hands its value to `set_property` -/
theorem classOK_writes {E : ElemClass} (h : classOK E = true) (r : AttrRoute) (hr : r ∈ E.routes)
    (hv : r.onValue ≠ OnValue.none) (hp : r.prop ∉ pairKeys) : (SetRoute.attr r).Writes E r.prop := by
  obtain ⟨_, hok⟩ := classOK_route h r hr
  refine ⟨hr, rfl, ?_⟩
  simp only [routeOK, Bool.and_eq_true] at hok
  have hm := hok.2
  cases hov : r.onValue with
  | none => exact absurd hov hv
  | direct => exact Or.inl rfl
  | jsonWrap => exact Or.inr rfl
  | pair =>
    rw [hov] at hm
    simp only [Bool.and_eq_true, List.contains_iff_mem] at hm
    exact absurd hm.1.1.1 hp

/-- assigning `None` to a settable attribute (not exempt) ends in `unset_property` -/
theorem classOK_unsets {E : ElemClass} (h : classOK E = true) (r : AttrRoute) (hr : r ∈ E.routes)
    (hv : r.onValue ≠ OnValue.none) (hx : r.prop ∉ unsetExempt) : (UnsetRoute.attrNone r).Unsets E r.prop := by
  obtain ⟨hs, hok⟩ := classOK_route h r hr
  refine ⟨hr, rfl, ?_⟩
  simp only [routeOK, Bool.and_eq_true] at hok
  have hm := hok.2
  cases hov : r.onValue with
  | none => exact absurd hov hv
  | direct =>
    rw [hov] at hm
    simp only [Bool.and_eq_true, Bool.or_eq_true, beq_iff_eq] at hm
    rcases hm.1 with h1 | h1
    · exact Or.inr ⟨h1, hs⟩
    · exact Or.inl h1
  | jsonWrap =>
    rw [hov] at hm
    simp only [Bool.and_eq_true, Bool.or_eq_true, beq_iff_eq] at hm
    rcases hm.1.1 with h1 | h1
    · exact Or.inr ⟨h1, hs⟩
    · exact Or.inl h1
  | pair =>
    rw [hov] at hm
    simp only [Bool.and_eq_true, Bool.or_eq_true, beq_iff_eq, List.contains_iff_mem] at hm
    rcases hm.2 with (h1 | h1) | h1
    · exact Or.inl h1
    · exact Or.inr ⟨h1, hs⟩
    · exact absurd h1.1 hx

theorem rowsOK_single {T : KindTable} (h : rowsOK T = true) (f : FromRow) (hf : f ∈ T.fromRows) (hp : f.key ∉ pairKeys) :
    rowOf T f ∈ T.toRows ∧ (rowOf T f).keys = [f.key] ∧ f.gprop = (rowOf T f).gprop := by
  simp only [rowsOK, Bool.and_eq_true, List.all_eq_true, Bool.or_eq_true, List.contains_iff_mem, beq_iff_eq] at h
  rcases h.1 f hf with h1 | h1
  · exact absurd h1 hp
  · exact ⟨h1.2, h1.1.1, h1.1.2.symm⟩

theorem rowsOK_unset {T : KindTable} (h : rowsOK T = true) (f : FromRow) (hf : f ∈ T.fromRows) (hx : f.key ∉ unsetExempt)
    (hid : f.gprop ∉ noUnset) : f.absent = Absent.none ∧ f.noneOk = true ∧ mapUnset f.key = some f.gprop := by
  simp only [rowsOK, Bool.and_eq_true, List.all_eq_true, Bool.or_eq_true, List.contains_iff_mem, beq_iff_eq] at h
  rcases h.2 f hf with (h1 | h1) | h1
  · exact absurd h1 hx
  · exact absurd h1 hid
  · exact ⟨h1.1.1, h1.1.2, h1.2⟩

end FimVerif.C02
