import FimVerif.Proofs.Lemmas.ARefBasic
/-! C05: the shared store refines the store-level reference model `ARef.step` — the link operations
    (`add_link`, the three link-property updates, `get_link_properties`).  Core only. -/
namespace FimVerif.Store
open FimVerif FimVerif.Gen.StoreConsts

/-- the abstraction of one edge -/
def kE (s : Store) (e : SEdge) : Key × Key × Props := (keyOf s.nodes e.a, keyOf s.nodes e.b, e.attrs)

theorem absS_edges_kE (s : Store) : (absS s).edges = s.edges.map (kE s) := rfl

theorem arefLink_find?_congr {α : Type} (l : List α) (p q : α → Bool) (h : ∀ a ∈ l, p a = q a) :
    l.find? p = l.find? q := by
  induction l with
  | nil => rfl
  | cons a l ih => simp only [List.find?_cons, h a (by simp), ih (fun b hb => h b (by simp [hb]))]

theorem arefLink_any_congr {α : Type} (l : List α) (p q : α → Bool) (h : ∀ a ∈ l, p a = q a) :
    l.any p = l.any q := by
  induction l with
  | nil => rfl
  | cons a l ih => simp only [List.any_cons, h a (by simp), ih (fun b hb => h b (by simp [hb]))]

/-- for a stored id: comparing its key with the key of a uniquely keyed node = comparing the ids -/
theorem keyOf_beq (s : Store) (h : Inv s) (n : SNode) (hn : n ∈ s.nodes) (hu : UniqueAt s n) (i : Nat)
    (hi : idIn s.nodes i = true) : (keyOf s.nodes i == keyP n.attrs) = (i == n.iid) := by
  rw [Bool.eq_iff_iff, beq_iff_eq, beq_iff_eq]
  exact keyOf_eq_iff s h n hn hu i hi

/-- for an edge of the store: matching by the internal ids of two uniquely keyed nodes = matching by their keys -/
theorem edgeMatch_keys (s : Store) (h : Inv s) (na nb : SNode) (ha : na ∈ s.nodes) (hb : nb ∈ s.nodes) (ua : UniqueAt s na) (ub : UniqueAt s nb)
    (e : SEdge) (he : e ∈ s.edges) :
    ARef.edgeIsK (keyP na.attrs) (keyP nb.attrs) (keyOf s.nodes e.a, keyOf s.nodes e.b, e.attrs) = edgeMatch na.iid nb.iid e := by
  have hi := h.2.2 e he
  simp only [ARef.edgeIsK, edgeMatch, keyOf_beq s h na ha ua _ hi.1, keyOf_beq s h na ha ua _ hi.2,
    keyOf_beq s h nb hb ub _ hi.1, keyOf_beq s h nb hb ub _ hi.2]

theorem absS_updEdge (s : Store) (h : Inv s) (na nb : SNode) (ha : na ∈ s.nodes) (hb : nb ∈ s.nodes) (ua : UniqueAt s na) (ub : UniqueAt s nb) (f : Props → Props) :
    absS (updEdge na.iid nb.iid f s) = ARef.updEdgeK (keyP na.attrs) (keyP nb.attrs) f (absS s) := by
  unfold absS updEdge ARef.updEdgeK
  simp only [List.map_map]
  congr 1
  apply List.map_congr_left
  intro e he
  have := edgeMatch_keys s h na nb ha hb ua ub e he
  simp only [Function.comp, this]
  by_cases hm : edgeMatch na.iid nb.iid e <;> simp [hm]

theorem any_absS (s : Store) (h : Inv s) (na nb : SNode) (ha : na ∈ s.nodes) (hb : nb ∈ s.nodes) (ua : UniqueAt s na) (ub : UniqueAt s nb) :
    (absS s).edges.any (ARef.edgeIsK (keyP na.attrs) (keyP nb.attrs)) = s.edges.any (edgeMatch na.iid nb.iid) := by
  rw [absS_edges, List.any_map]
  apply arefLink_any_congr
  intro e he
  exact edgeMatch_keys s h na nb ha hb ua ub e he

theorem absS_addEdge (s : Store) (h : Inv s) (na nb : SNode) (ha : na ∈ s.nodes) (hb : nb ∈ s.nodes) (ua : UniqueAt s na) (ub : UniqueAt s nb) (attrs : Props) :
    absS (addEdge na.iid nb.iid attrs s) = ARef.addEdgeK (keyP na.attrs) (keyP nb.attrs) attrs (absS s) := by
  unfold addEdge ARef.addEdgeK
  rw [any_absS s h na nb ha hb ua ub]
  split
  · exact absS_updEdge s h na nb ha hb ua ub _
  · unfold absS
    simp only [List.map_append, List.map_cons, List.map_nil, keyOf_mem s h na ha, keyOf_mem s h nb hb]

theorem findEdge_absS (s : Store) (h : Inv s) (na nb : SNode) (ha : na ∈ s.nodes) (hb : nb ∈ s.nodes) (ua : UniqueAt s na) (ub : UniqueAt s nb) :
    (absS s).edges.find? (ARef.edgeIsK (keyP na.attrs) (keyP nb.attrs)) =
      (findEdge s na.iid nb.iid).map (fun e => (keyOf s.nodes e.a, keyOf s.nodes e.b, e.attrs)) := by
  unfold findEdge
  rw [absS_edges, List.find?_map]
  congr 1
  apply arefLink_find?_congr
  intro e he
  exact edgeMatch_keys s h na nb ha hb ua ub e he

/-! ## operations -/

theorem refS_addLink (s : Store) (h : Inv s) (g a rel b : String) (props : Option Props) :
    RefS (addLink g a rel b props s) (ARef.addLink g a rel b props (absS s)) := by
  unfold addLink ARef.addLink
  apply refS_withNode
  intro na hca
  apply refS_withNode
  intro nb hcb
  have hsa := candS_single s g a na hca
  have hsb := candS_single s g b nb hcb
  rw [← hsa.2.1, ← hsb.2.1]
  cases props with
  | none => exact ⟨rfl, absS_addEdge s h na nb hsa.1 hsb.1 hsa.2.2.1 hsb.2.2.1 _⟩
  | some p =>
    simp only
    split
    · exact refS_err s _
    · exact ⟨rfl, absS_addEdge s h na nb hsa.1 hsb.1 hsa.2.2.1 hsb.2.2.1 _⟩

/-- lock-step through the common head of the link-property methods -/
theorem refS_withLink (s : Store) (h : Inv s) (g a b kind : String) (k : Nat → Nat → SEdge → R) (k' : ARef.AR)
    (hk : ∀ na nb e, candS s g a = [na] → candS s g b = [nb] → RefS (k na.iid nb.iid e) k') :
    RefS (withLink s g a b kind k) (ARef.withL (absS s) g a b kind k') := by
  unfold withLink ARef.withL
  apply refS_withNode
  intro na hca
  apply refS_withNode
  intro nb hcb
  have hsa := candS_single s g a na hca
  have hsb := candS_single s g b nb hcb
  rw [← hsa.2.1, ← hsb.2.1, findEdge_absS s h na nb hsa.1 hsb.1 hsa.2.2.1 hsb.2.2.1]
  cases findEdge s na.iid nb.iid with
  | none => exact refS_err s _
  | some e =>
    simp only [Option.map_some]
    split
    · exact refS_err s _
    · exact hk na nb e hca hcb

theorem refS_updateLinkProperty (s : Store) (h : Inv s) (g a b kind k : String) (v : Val) :
    RefS (updateLinkProperty g a b kind k v s) (ARef.updateLinkProperty g a b kind k v (absS s)) := by
  unfold updateLinkProperty ARef.updateLinkProperty
  split
  · exact refS_err s _
  · apply refS_withLink s h
    intro na nb _ hca hcb
    have hsa := candS_single s g a na hca
    have hsb := candS_single s g b nb hcb
    rw [← hsa.2.1, ← hsb.2.1]
    exact ⟨rfl, absS_updEdge s h na nb hsa.1 hsb.1 hsa.2.2.1 hsb.2.2.1 _⟩

theorem refS_unsetLinkProperty (s : Store) (h : Inv s) (g a b kind k : String) :
    RefS (unsetLinkProperty g a b kind k s) (ARef.unsetLinkProperty g a b kind k (absS s)) := by
  unfold unsetLinkProperty ARef.unsetLinkProperty
  split
  · exact refS_err s _
  · apply refS_withLink s h
    intro na nb _ hca hcb
    have hsa := candS_single s g a na hca
    have hsb := candS_single s g b nb hcb
    rw [← hsa.2.1, ← hsb.2.1]
    exact ⟨rfl, absS_updEdge s h na nb hsa.1 hsb.1 hsa.2.2.1 hsb.2.2.1 _⟩

theorem refS_updateLinkProperties (s : Store) (h : Inv s) (g a b kind : String) (p : Props) :
    RefS (updateLinkProperties g a b kind p s) (ARef.updateLinkProperties g a b kind p (absS s)) := by
  unfold updateLinkProperties ARef.updateLinkProperties
  split
  · exact refS_err s _
  · apply refS_withLink s h
    intro na nb _ hca hcb
    have hsa := candS_single s g a na hca
    have hsb := candS_single s g b nb hcb
    rw [← hsa.2.1, ← hsb.2.1]
    exact ⟨rfl, absS_updEdge s h na nb hsa.1 hsb.1 hsa.2.2.1 hsb.2.2.1 _⟩

theorem refS_getLinkProperties (s : Store) (h : Inv s) (g a b : String) :
    RefS (getLinkProperties g a b s) (ARef.getLinkProperties g a b (absS s)) := by
  unfold getLinkProperties ARef.getLinkProperties
  apply refS_withNode
  intro na hca
  apply refS_withNode
  intro nb hcb
  have hsa := candS_single s g a na hca
  have hsb := candS_single s g b nb hcb
  rw [← hsa.2.1, ← hsb.2.1, findEdge_absS s h na nb hsa.1 hsb.1 hsa.2.2.1 hsb.2.2.1]
  cases findEdge s na.iid nb.iid with
  | none => exact refS_err s _
  | some e =>
    simp only [Option.map_some]
    cases AMap.get nxLabel e.attrs with
    | none => exact refS_err s _
    | some l => exact ⟨rfl, rfl⟩

end FimVerif.Store
