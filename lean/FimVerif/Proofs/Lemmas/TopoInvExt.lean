import FimVerif.Proofs.Lemmas.TopoInvNamesOps
import FimVerif.Proofs.Lemmas.TopoAtomicPeer
/-!
# C07 — the second alphabet (`Topo.XOp`: sub-interfaces, peer / unpeer, port mirroring, `model_type=` components, prune) and the
discharge of the side conditions that made `inv_op` partial

* `add_child_interface` and `add_component(model_type=…)` hang fresh elements off their container (`AttachStable`);
* `remove_child_interface`, `unpeer`, `prune` are compositions of reads and `delete_node` (`DropStable`);
* `peer` raises and leaves the model as it was (C09 `peer_fs`) or returns in the explicit state `peerState`;
* `add_port_mirror_service` is two assertions and the service constructor;
* a service constructor / composite that raises has left the model unchanged (C09 `svcNew_atomic`, `addFacility_fs`,
  `addSwitch_fs`): `ReturnsOrUnchanged` is a consequence of the invariant and the argument guards, not a side condition;
* `Node.add_component` / `add_storage` list the node's components first, which fails for a handle that is not a NetworkNode:
  no guard on the handle is needed.
-/
namespace FimVerif.Topo
open FimVerif FimVerif.M FimVerif.Gen

/-! ## sub-interfaces -/

theorem subInterface_ok : typeOk .connectionPoint "SubInterface" = true := by decide

/-- `Interface.add_child_interface`: the checks read, then a SubInterface hangs off the port -/
theorem inv_addChildInterface {P : Topo → Prop} (hP : AttachStable P) (fl : Flavour) (c : Nat) (port : Nid) (cache : Cache)
    (name : String) (nid : Option Nid) (vlan : Option String) (tbl : List (String × String)) (props : List PropArg) (s : Topo)
    (hh : HandleOk s port .connectionPoint) (h : P s) :
    P (addChildInterface fl c port cache name nid vlan tbl props s).2 := by
  unfold addChildInterface
  refine ro_step (Q := fun r => P r.2) (by ro) (fun _ => h) (fun _ _ => ?_)
  refine ro_step (Q := fun r => P r.2) (by ro) (fun _ => h) (fun _ _ => ?_)
  refine ro_step (Q := fun r => P r.2) (by ro) (fun _ => h) (fun _ _ => ?_)
  refine ro_step (Q := fun r => P r.2) (by ro) (fun _ => h) (fun _ _ => ?_)
  refine ro_step (Q := fun r => P r.2) (readOnly_filterMapM' (fun _ => by ro)) (fun _ => h) (fun _ _ => ?_)
  refine ro_step (Q := fun r => P r.2) (by ro) (fun _ => h) (fun _ _ => ?_)
  refine ro_step (Q := fun r => P r.2) (by ro) (fun _ => h) (fun _ _ => ?_)
  refine ro_step (Q := fun r => P r.2) (by ro) (fun _ => h) (fun _ _ => ?_)
  rw [state_after_bind _ _ (fun _ _ => rfl)]
  refine ifaceNew_inv fl c name nid port (some "SubInterface") props s (hP.closed _ h) h (fun pn n hm hi hnew hncls htyp => ?_)
  have hpc : pn.cls = .connectionPoint := hh pn hm hi
  have ht : n.typ = "SubInterface" := by simpa using htyp.symm
  exact hP.attach h hm hnew (by simp [nodeOk, classOk_all, hncls, ht, subInterface_ok]) (by simp [edgeOk, GNode.ref, hpc, hncls])
    (by simp [hpc]) (fun _ => by rw [ht]; decide) (.inl hncls)


/-! ## removing calls of the second alphabet: compositions of reads and `delete_node` -/

theorem readOnly_findPeering (otherIds : List Nid) (cache : Cache) : ReadOnly (findPeering otherIds cache) := by
  induction cache with
  | nil => unfold findPeering; exact readOnly_pure _
  | cons x rest ih =>
    obtain ⟨nm, own⟩ := x
    unfold findPeering
    refine ReadOnly.bind (readOnly_typeOf _) (fun t => ?_)
    refine ReadOnly.ite ih ?_
    refine ReadOnly.bind (readOnly_peersOf _) (fun _ => ?_)
    refine ReadOnly.bind (readOnly_mapM' (fun _ => readOnly_findNode _)) (fun pn => ?_)
    split
    · exact readOnly_pure _
    · exact ih

section
variable {P : Topo → Prop} (hP : DropStable P)
include hP

theorem preserves_removeChildInterface (port : Nid) (cache : Cache) (name : String) :
    Preserves P (removeChildInterface port cache name) := by
  unfold removeChildInterface
  refine Preserves.bind (ReadOnly.preserves (by ro)) (fun _ => ?_)
  refine Preserves.bind (ReadOnly.preserves (by ro)) (fun _ => ?_)
  refine Preserves.bind (ReadOnly.preserves (by ro)) (fun _ => ?_)
  refine Preserves.bind (ReadOnly.preserves (by ro)) (fun _ => ?_)
  refine Preserves.bind (preserves_detachAll hP _) (fun _ => ?_)
  refine Preserves.bind (preserves_removeCpAndLinks hP _ _) (fun _ => ?_)
  exact ReadOnly.preserves (readOnly_pure _)

theorem preserves_unpeer (cache : Cache) (other : Option SvcHandle) : Preserves P (unpeer cache other) := by
  unfold unpeer
  split
  · exact ReadOnly.preserves (readOnly_raise _)
  · refine Preserves.bind (ReadOnly.preserves (readOnly_findPeering _ _)) (fun _ => ?_)
    refine Preserves.bind (ReadOnly.preserves (by ro)) (fun ab => ?_)
    obtain ⟨a, b⟩ := ab
    refine Preserves.bind (preserves_removeCpAndLinks hP _ _) (fun _ => ?_)
    refine Preserves.bind (preserves_removeCpAndLinks hP _ _) (fun _ => ?_)
    exact ReadOnly.preserves (readOnly_pure _)

theorem preserves_prune (nodes : List String) (comps : List (Nid × String × Nid)) (nss : List Nid) (ifs : List Nid) :
    Preserves P (prune nodes comps nss ifs) := by
  unfold prune
  refine Preserves.bind (preserves_forEach (fun _ => preserves_removeNode hP _)) (fun _ => ?_)
  refine Preserves.bind (preserves_forEach (fun x => ?_)) (fun _ => ?_)
  · refine Preserves.bind (ReadOnly.preserves (readOnly_read _)) (fun _ => ?_)
    exact Preserves.ite (preserves_removeComponent hP _ _) (ReadOnly.preserves (readOnly_pure _))
  refine Preserves.bind (preserves_forEach (fun ns => ?_)) (fun _ => ?_)
  · refine Preserves.bind (ReadOnly.preserves (readOnly_read _)) (fun _ => ?_)
    refine Preserves.ite ?_ (ReadOnly.preserves (readOnly_pure _))
    refine Preserves.bind (ReadOnly.preserves (by ro)) (fun _ => ?_)
    refine Preserves.bind (preserves_detachAll hP _) (fun _ => ?_)
    exact preserves_removeNs hP _
  refine preserves_forEach (fun i => ?_)
  refine Preserves.bind (ReadOnly.preserves (readOnly_read _)) (fun _ => ?_)
  refine Preserves.ite ?_ (ReadOnly.preserves (readOnly_pure _))
  refine Preserves.bind (preserves_detachAll hP _) (fun _ => ?_)
  exact preserves_removeCpAndLinks hP _ _

end


/-! ## a service constructor / composite that raises has left the model as it was (C09), so `ReturnsOrUnchanged` follows
from the invariant and the guards on the arguments -/

theorem rou_of_fs {α : Type} {m : M Topo α} {s : Topo} (h : FS s (m s)) : ReturnsOrUnchanged m s := by
  by_cases hf : failed (m s)
  · exact .inr (h hf)
  · exact .inl hf

theorem findNode_of_unique {s : Topo} (hi : IdsOk s) {p : Nid} (h : ∃ m ∈ s.nodes, m.nid = p) : ∃ pn, findNode p s = (.ok pn, s) := by
  obtain ⟨m, hm, hmp⟩ := h
  exact ⟨m, by rw [← hmp]; exact findNode_of_mem hi hm⟩

theorem ifsAll_of_guards {s : Topo} {c : Nat} {id : Nid} {ifs : List IfArg}
    (h : ∀ i ∈ ifs, IfOk s c i ∧ IfNotSelf id i) : IfsAll s id c ifs := by
  intro i hi
  obtain ⟨h1, h2⟩ := h i hi
  cases i with
  | bogus => trivial
  | iface iid nm =>
    simp only [IfOk, IfNotSelf] at h1 h2
    exact ⟨h2, h1.2.1, fun k hk => notFuture_ne h1.1 hk⟩

theorem svcNew_rou (fl : Flavour) (c : Nat) (parent : Option Nid) (a : SvcArgs) (s : Topo) (hi : IdsOk s) (hc : ClosedOk s)
    (g : SvcGuards s c parent a) : ReturnsOrUnchanged (svcNew fl c parent a) s := by
  refine rou_of_fs (svcNew_atomic fl c parent a s hi hc (fun m hm k hk => notFuture_ne (g.fresh m hm) hk) ?_ ?_ (ifsAll_of_guards g.ifs))
  · intro k hk hn
    have := g.nid
    rw [hn] at this
    exact absurd rfl (notFuture_ne this hk)
  · intro p hp
    have := g.parent
    rw [hp] at this
    exact findNode_of_unique hi this.1

theorem addService_rou (fl : Flavour) (c : Nat) (a : SvcArgs) (s : Topo) (hi : IdsOk s) (hc : ClosedOk s)
    (g : SvcGuards s c none a) : ReturnsOrUnchanged (addService fl c a) s := svcNew_rou fl c none a s hi hc g

theorem nodeAddService_rou (fl : Flavour) (c : Nat) (parent : Nid) (a : SvcArgs) (s : Topo) (hi : IdsOk s) (hc : ClosedOk s)
    (g : SvcGuards s c (some parent) a) : ReturnsOrUnchanged (nodeAddService fl c parent a) s := by
  unfold nodeAddService
  refine rou_of_fs ?_
  refine ro_step (Q := FS s) (by ro) FS.err (fun _ _ => ?_)
  refine ro_step (Q := FS s) (by ro) FS.err (fun _ _ => ?_)
  have := svcNew_rou fl c (some parent) a s hi hc g
  intro hf
  rcases this with h | h
  · exact absurd hf h
  · exact h

theorem addFacility_rou (fl : Flavour) (c : Nat) (name : String) (nid : Option Nid) (site : Option String)
    (nstype : Option String) (nsprops : List PropArg) (ifs : Option (List (String × List PropArg))) (kw : List PropArg)
    (s : Topo) (hi : IdsOk s) (hc : ClosedOk s) : ReturnsOrUnchanged (addFacility fl c name nid site nstype nsprops ifs kw) s :=
  rou_of_fs (addFacility_fs fl c name nid site nstype nsprops ifs kw s hc hi)

theorem addSwitch_rou (fl : Flavour) (c : Nat) (name : String) (nid : Option Nid) (site : Option String)
    (nstype : Option String) (nsprops : List PropArg) (ports : List (String × String × List PropArg))
    (s : Topo) (hi : IdsOk s) (hc : ClosedOk s) : ReturnsOrUnchanged (addSwitch fl c name nid site nstype nsprops ports) s :=
  rou_of_fs (addSwitch_fs fl c name nid site nstype nsprops ports s hc hi)

/-! ## `add_port_mirror_service`: two assertions, then the service constructor -/

theorem invD_addPortMirror (fl : Flavour) (c : Nat) (a : SvcArgs) (toOk fromOk : Bool) (s : Topo) (g : SvcGuards s c none a)
    (h : InvD s) : InvD (addPortMirror fl c a toOk fromOk s).2 := by
  unfold addPortMirror
  refine ro_step (Q := fun r => InvD r.2) (by ro) (fun _ => h) (fun _ _ => ?_)
  refine ro_step (Q := fun r => InvD r.2) (by ro) (fun _ => h) (fun _ _ => ?_)
  exact svcNew_invD fl c none a s h g

theorem invS_addPortMirror (fl : Flavour) (c : Nat) (a : SvcArgs) (toOk fromOk : Bool) (s : Topo) (g : SvcGuards s c none a)
    (h : InvS s) : InvS (addPortMirror fl c a toOk fromOk s).2 := by
  unfold addPortMirror
  refine ro_step (Q := fun r => InvS r.2) (by ro) (fun _ => h) (fun _ _ => ?_)
  refine ro_step (Q := fun r => InvS r.2) (by ro) (fun _ => h) (fun _ _ => ?_)
  exact invS_addService fl c a s g (addService_rou fl c a s h.ids h.closed g) h


theorem invSN_addPortMirror (fl : Flavour) (c : Nat) (a : SvcArgs) (toOk fromOk : Bool) (s : Topo) (g : SvcGuards s c none a)
    (h : InvSN s) : InvSN (addPortMirror fl c a toOk fromOk s).2 := by
  unfold addPortMirror
  refine ro_step (Q := fun r => InvSN r.2) (by ro) (fun _ => h) (fun _ _ => ?_)
  refine ro_step (Q := fun r => InvSN r.2) (by ro) (fun _ => h) (fun _ _ => ?_)
  exact invSN_addService fl c a s g (addService_rou fl c a s h.1.ids h.1.closed g) h

/-! ## `Node.add_component(model_type=…)` -/

theorem handleOk_of_childrenOf {s : Topo} {parent : Nid} {ok : List Cls} {rel : Rel} {l : Cls} {r : List GNode}
    (h : childrenOf parent ok rel l s = (.ok r, s)) : ∀ m ∈ s.nodes, m.nid = parent → m.cls ∈ ok := by
  unfold childrenOf at h
  obtain ⟨p, hp, h⟩ := ro_ok_inv (readOnly_findNode _) h
  obtain ⟨_, hg, _⟩ := ro_ok_inv (readOnly_guard _ _) h
  have hc := guard_ok hg
  intro m hm hmp
  have hall := findAll_of_findNode hp
  have : m ∈ findAll s parent := by simp [findAll, hm, hmp]
  rw [hall] at this
  simp at this; subst this
  simpa using hc

theorem inv_compNewMT {P : Topo → Prop} (hP : AttachStable P) (fl : Flavour) (c : Nat) (parent : Nid) (a : CompArgs)
    (mt : String × String) (s : Topo) (hh : HandleOk s parent .networkNode)
    (hnm : ∀ pn, findNode parent s = (.ok pn, s) → ∀ m ∈ kids s pn.ref .has .component, m.name ≠ a.name)
    (h : P s) : P (compNewMT fl c parent a mt s).2 := by
  obtain ⟨nm, nid, ctype, model, nsNid, ifNids, nLabels, props⟩ := a
  unfold compNewMT
  dsimp only
  refine ro_step (Q := fun r => P r.2) (by ro) (fun _ => h) (fun _ _ => ?_)
  rcases pick nid c with ⟨id, c1⟩
  dsimp only
  refine ro_step (Q := fun r => P r.2) (by ro) (fun _ => h) (fun _ _ => ?_)
  refine ro_step (Q := fun r => P r.2) (by ro) (fun _ => h) (fun p hp => ?_)
  refine ro_step (Q := fun r => P r.2) (by ro) (fun _ => h) (fun e he => ?_)
  refine ro_step (Q := fun r => P r.2) (by ro) (fun _ => h) (fun _ _ => ?_)
  have heo : EntryOk e := entryOk_of_find (need_some ⟨s, he⟩)
  obtain ⟨hpm, hpi, _⟩ := findNode_ok hp
  have hpc : p.cls = .networkNode := hh p hpm hpi
  have leaf : ∀ b, b = e.hasIfaces → P (compBody b parent id c1 ⟨nm, nid, ctype, model, nsNid, ifNids, nLabels, props⟩ p e s).2 :=
    fun b hb => inv_compBody hP b parent id c1 _ p p e s h hp hpc heo hb (hnm p hp)
  split
  · rename_i hif
    have lf := leaf true hif.symm
    clear leaf
    cases ifNids <;> cases nLabels <;> dsimp only <;>
    repeat' (first
      | exact lf
      | refine ro_step (Q := fun r => P r.2) (readOnly_guard _ _) (fun _ => h) (fun _ _ => ?_)
      | (refine ro_step (Q := fun r => P r.2) (readOnly_raise _) (fun _ => h) (fun _ hr => ?_); simp at hr))
  · rename_i hif
    exact leaf false (by simpa using hif)

/-- no guard on the handle: `Node.add_component` lists the node's components first, which fails for anything but a NetworkNode -/
theorem inv_addComponentMT {P : Topo → Prop} (hP : AttachStable P) (fl : Flavour) (c : Nat) (parent : Nid) (a : CompArgs)
    (mt : String × String) (s : Topo) (h : P s) : P (addComponentMT fl c parent a mt s).2 := by
  unfold addComponentMT
  refine ro_step (Q := fun r => P r.2) (by ro) (fun _ => h) (fun comps hch => ?_)
  refine ro_step (Q := fun r => P r.2) (by ro) (fun _ => h) (fun _ hg => ?_)
  have hh : HandleOk s parent .networkNode := fun m hm hmp => by simpa using handleOk_of_childrenOf hch m hm hmp
  exact inv_compNewMT hP fl c parent a mt s hh (sibling_free (hP.ids _ h) hch (guard_ok hg)) h

theorem inv_addComponent_anyHandle {P : Topo → Prop} (hP : AttachStable P) (fl : Flavour) (c : Nat) (parent : Nid) (a : CompArgs) (s : Topo)
    (h : P s) : P (addComponent fl c parent a s).2 := by
  unfold addComponent
  refine ro_step (Q := fun r => P r.2) (by ro) (fun _ => h) (fun comps hch => ?_)
  refine ro_step (Q := fun r => P r.2) (by ro) (fun _ => h) (fun _ hg => ?_)
  have hh : HandleOk s parent .networkNode := fun m hm hmp => by simpa using handleOk_of_childrenOf hch m hm hmp
  exact inv_compNew hP fl c parent a s hh (sibling_free (hP.ids _ h) hch (guard_ok hg)) h

theorem inv_addStorage_anyHandle {P : Topo → Prop} (hP : AttachStable P) (fl : Flavour) (c : Nat) (parent : Nid) (name : String)
    (nid : Option Nid) (props : List PropArg) (s : Topo) (h : P s) : P (addStorage fl c parent name nid props s).2 := by
  unfold addStorage
  refine ro_step (Q := fun r => P r.2) (by ro) (fun _ => h) (fun _ _ => ?_)
  refine ro_step (Q := fun r => P r.2) (by ro) (fun _ => h) (fun comps hch => ?_)
  refine ro_step (Q := fun r => P r.2) (by ro) (fun _ => h) (fun _ hg => ?_)
  have hh : HandleOk s parent .networkNode := fun m hm hmp => by simpa using handleOk_of_childrenOf hch m hm hmp
  exact inv_compNew hP fl c parent _ s hh (sibling_free (hP.ids _ h) hch (guard_ok hg)) h


/-! ## `NetworkService.peer` -/

/-- the state `peer` leaves when it returns: a ServicePort on each service and one link between the two -/
def peerState (s : Topo) (pn po n1 n2 ln : GNode) : Topo :=
  grow s [n1, n2, ln] [⟨pn.ref, n1.ref, .connects⟩, ⟨po.ref, n2.ref, .connects⟩, ⟨ln.ref, n1.ref, .connects⟩, ⟨ln.ref, n2.ref, .connects⟩]

structure PeerNew (s : Topo) (c : Nat) (svc other : Nid) (pn po n1 n2 ln : GNode) : Prop where
  pm : pn ∈ s.nodes
  pi : pn.nid = svc
  om : po ∈ s.nodes
  oi : po.nid = other
  c1 : n1.cls = .connectionPoint
  t1 : n1.typ = "ServicePort"
  i1 : n1.nid = .gen c
  c2 : n2.cls = .connectionPoint
  t2 : n2.typ = "ServicePort"
  i2 : n2.nid = .gen (c + 1)
  cl : ln.cls = .link
  il : ln.nid = .gen (c + 2)
  vl : nodeOk ln = true
  fresh : ∀ m ∈ s.nodes, m.nid ≠ .gen c ∧ m.nid ≠ .gen (c + 1) ∧ m.nid ≠ .gen (c + 2)

theorem undo_ne_ok (l : List Nid) (e : Err) (t : Topo) (b : Nid × Nat) (t' : Topo) :
    (if Rules.peerRollback then (do forEach l (fun i => removeCpAndLinks i true); raise e : M Topo (Nid × Nat)) else raise e) t ≠ (.ok b, t') := by
  split
  · exact bind_raise_ne_ok _ e t b t'
  · simp

theorem nsAddInterface_sp_ok {fl : Flavour} {c : Nat} {svc : Nid} {cache : Cache} {name : String} {props : List PropArg} {u u' : Topo}
    {r : Nid × Nat} (hc : ClosedOk u) (h : nsAddInterface fl c svc cache name none (some "ServicePort") props u = (.ok r, u')) :
    ∃ pn n, pn ∈ u.nodes ∧ pn.nid = svc ∧ (∀ m ∈ u.nodes, m.nid ≠ n.nid) ∧ n.cls = .connectionPoint ∧ n.typ = "ServicePort" ∧
      n.nid = .gen c ∧ r = (.gen c, c + 1) ∧ u' = grow u [n] [⟨pn.ref, n.ref, .connects⟩] := by
  unfold nsAddInterface at h
  obtain ⟨_, _, h⟩ := ro_ok_inv (readOnly_guard _ _) h
  rcases ifaceNew_cases fl c name none svc (some "ServicePort") props u with ⟨e, he⟩ | ⟨pn, n, hpn, hfr, hcls, hnid, _, hty, _, hres⟩
  · rw [he] at h; simp at h
  · rw [hres] at h
    obtain ⟨hpm, hpi, _⟩ := findNode_ok hpn
    simp only [Prod.mk.injEq, Except.ok.injEq] at h
    refine ⟨pn, n, hpm, hpi, hfr, hcls, by simpa using hty.symm, by simpa [pick] using hnid, by rw [← h.1]; simp [pick], ?_⟩
    rw [← h.2, attach_state hc hfr]

theorem closedOk_attach {s : Topo} {p n : GNode} {rel : Rel} (hc : ClosedOk s) (hp : p ∈ s.nodes) :
    ClosedOk (grow s [n] [⟨p.ref, n.ref, rel⟩]) := by
  intro e he
  simp only [grow, List.mem_append, List.mem_singleton] at he
  rcases he with he | rfl
  · obtain ⟨⟨x, hx, hxe⟩, ⟨y, hy, hye⟩⟩ := hc e he
    exact ⟨⟨x, by simp [grow, hx], hxe⟩, ⟨y, by simp [grow, hy], hye⟩⟩
  · exact ⟨⟨p, by simp [grow, hp], rfl⟩, ⟨n, by simp [grow], rfl⟩⟩

theorem idsOk_attach {s : Topo} {n : GNode} {E : List GEdge} (hi : IdsOk s) (hf : ∀ m ∈ s.nodes, m.nid ≠ n.nid) :
    IdsOk (grow s [n] E) := idsDistinct_push (n := n) hi hf

theorem peer_ok_state (fl : Flavour) (c : Nat) (svc : Nid) (sname : String) (cache : Cache) (o : SvcHandle) (props : List PropArg)
    (s s' : Topo) (v : Cache × Cache) (hi : IdsOk s) (hc : ClosedOk s) (hv : VocabOk s) (hog : o.nid ≠ .gen c)
    (hok : peer fl c svc sname cache (some o) props s = (.ok v, s')) :
    ∃ pn po n1 n2 ln, PeerNew s c svc o.nid pn po n1 n2 ln ∧ s' = peerState s pn po n1 n2 ln := by
  unfold peer at hok
  simp only [] at hok
  obtain ⟨r1, s1, h1, hok⟩ := bind_ok_inv hok
  obtain ⟨pn, n1, hpm, hpi, hfr1, hc1, ht1, hi1, hr1, hs1⟩ := nsAddInterface_sp_ok hc h1
  subst hs1 hr1
  obtain ⟨r2, s2, h2, hok⟩ := bind_ok_inv hok
  have h2 := tryCatch_ok_inv (fun e t b t' => undo_ne_ok _ e t b t') h2
  have hc1' := closedOk_attach (n := n1) (rel := .connects) hc hpm
  have hi1' : IdsOk (grow s [n1] [⟨pn.ref, n1.ref, .connects⟩]) := idsOk_attach hi hfr1
  obtain ⟨po, n2, hpom, hpoi, hfr2, hc2, ht2, hi2, hr2, hs2⟩ := nsAddInterface_sp_ok hc1' h2
  subst hs2 hr2
  have hpo_old : po ∈ s.nodes := by
    simp only [grow, List.mem_append, List.mem_singleton] at hpom
    rcases hpom with h | h
    · exact h
    · subst h; exact absurd (hpoi.symm.trans hi1) hog
  obtain ⟨r3, s3, h3, hok⟩ := bind_ok_inv hok
  have h3 := tryCatch_ok_inv (fun e t b t' => undo_ne_ok _ e t b t') h3
  simp only [pure_apply', Prod.mk.injEq, Except.ok.injEq] at hok
  obtain ⟨_, hs'⟩ := hok
  subst hs'
  have hc2' := closedOk_attach (n := n2) (rel := .connects) hc1' hpom
  have hi2' : IdsOk (grow (grow s [n1] [⟨pn.ref, n1.ref, .connects⟩]) [n2] [⟨po.ref, n2.ref, .connects⟩]) := idsOk_attach hi1' hfr2
  have hsp : ∀ n : GNode, n.cls = .connectionPoint → n.typ = "ServicePort" → nodeOk n = true := by
    intro n h1 h2; simp only [nodeOk, classOk_all, h1, h2, Bool.true_and]; decide
  have hv2 : VocabOk (grow (grow s [n1] [⟨pn.ref, n1.ref, .connects⟩]) [n2] [⟨po.ref, n2.ref, .connects⟩]) := by
    intro m hm
    simp only [grow, List.mem_append, List.mem_singleton] at hm
    rcases hm with (hm | rfl) | rfl
    · exact hv m hm
    · exact hsp _ hc1 ht1
    · exact hsp _ hc2 ht2
  have hv3 := (preserves_vocab_linkNew fl (c + 1 + 1) (sname ++ "-" ++ o.name ++ "-link") none (some "L2Path")
    (some [.iface (.gen c) (sname ++ "-" ++ o.name), .iface (.gen (c + 1)) (o.name ++ "-" ++ sname)]) none []
    (by intro x hx; cases hx; decide)).h _ hv2
  rcases linkNew_cases fl (c + 1 + 1) _ none (some "L2Path") _ none [] _ hi2' with ⟨e, he⟩ | ⟨ln, hfl, hcl, hil, _, hres⟩
  · rw [he] at h3; simp at h3
  · rw [hres] at h3 hv3
    simp only [Prod.mk.injEq, Except.ok.injEq] at h3
    have hvl : nodeOk ln = true := hv3 ln (by rw [linkEdges_nodes]; simp [pushNode])
    have hfr2' : ∀ m ∈ s.nodes, m.nid ≠ n2.nid := fun m hm => hfr2 m (by simp [grow, hm])
    have hfl' : ∀ m ∈ s.nodes, m.nid ≠ ln.nid := fun m hm => hfl m (by simp [grow, hm])
    have hl1 : ln.nid ≠ n1.nid := fun e => hfl n1 (by simp [grow]) e.symm
    have hl2 : ln.nid ≠ n2.nid := fun e => hfl n2 (by simp [grow]) e.symm
    have h21 : n2.nid ≠ n1.nid := fun e => hfr2 n1 (by simp [grow]) e.symm
    have hil' : ln.nid = .gen (c + 2) := by simpa [pick] using hil
    refine ⟨pn, po, n1, n2, ln, ⟨hpm, hpi, hpo_old, hpoi, hc1, ht1, hi1, hc2, ht2, hi2, hcl, hil', hvl, ?_⟩, ?_⟩
    · intro m hm
      exact ⟨by rw [← hi1]; exact hfr1 m hm, by rw [← hi2]; exact hfr2' m hm, by rw [← hil']; exact hfl' m hm⟩
    · rw [← h3.2]
      have hr1 : (⟨.connectionPoint, .gen c⟩ : Ref) = n1.ref := by simp [GNode.ref, hc1, hi1]
      have hr2 : (⟨.connectionPoint, .gen (c + 1)⟩ : Ref) = n2.ref := by simp [GNode.ref, hc2, hi2]
      simp only [linkEdges, List.foldl_cons, List.foldl_nil, hr1, hr2]
      have hnt : ¬ touches (pushNode ln (grow (grow s [n1] [⟨pn.ref, n1.ref, .connects⟩]) [n2] [⟨po.ref, n2.ref, .connects⟩])).edges ln.ref :=
        not_touches_of_closed (t := grow (grow s [n1] [⟨pn.ref, n1.ref, .connects⟩]) [n2] [⟨po.ref, n2.ref, .connects⟩]) hc2'
          (fun m hm => ref_ne_of_nid_ne (hfl m hm))
      rw [setEdge_fresh_left hnt]
      rw [setEdge_append]
      · simp [peerState, grow, pushNode, List.append_assoc]
      · intro e he
        rcases List.mem_append.mp he with he | he
        · exact sameEnds_false_left (fun h => hnt ⟨e, he, .inl h⟩) (fun h => hnt ⟨e, he, .inr h⟩)
        · simp only [List.mem_singleton] at he; subst he
          simp [sameEnds, ref_ne_of_nid_ne hl2, ref_ne_of_nid_ne h21.symm]


theorem growOk_peer {s : Topo} {c : Nat} {svc oid : Nid} {pn po n1 n2 ln : GNode} (h : PeerNew s c svc oid pn po n1 n2 ln)
    (hsv : pn.cls = .networkService) (hov : po.cls = .networkService) :
    GrowOk s [n1, n2, ln] [⟨pn.ref, n1.ref, .connects⟩, ⟨po.ref, n2.ref, .connects⟩, ⟨ln.ref, n1.ref, .connects⟩, ⟨ln.ref, n2.ref, .connects⟩] where
  fresh := by
    intro x hx m hm; simp at hx
    rcases hx with rfl | rfl | rfl
    · rw [h.i1]; exact (h.fresh m hm).1
    · rw [h.i2]; exact (h.fresh m hm).2.1
    · rw [h.il]; exact (h.fresh m hm).2.2
  nodup := by simp [h.i1, h.i2, h.il]
  vocab := by
    intro x hx; simp at hx
    rcases hx with rfl | rfl | rfl
    · simp only [nodeOk, classOk_all, h.c1, h.t1, Bool.true_and]; decide
    · simp only [nodeOk, classOk_all, h.c2, h.t2, Bool.true_and]; decide
    · exact h.vl
  ends := by
    intro e he; simp at he
    rcases he with rfl | rfl | rfl | rfl
    · exact ⟨⟨pn, by simp [h.pm], rfl⟩, ⟨n1, by simp, rfl⟩⟩
    · exact ⟨⟨po, by simp [h.om], rfl⟩, ⟨n2, by simp, rfl⟩⟩
    · exact ⟨⟨ln, by simp, rfl⟩, ⟨n1, by simp, rfl⟩⟩
    · exact ⟨⟨ln, by simp, rfl⟩, ⟨n2, by simp, rfl⟩⟩
  schema := by
    intro e he; simp at he
    rcases he with rfl | rfl | rfl | rfl <;> simp [edgeOk, GNode.ref, hsv, hov, h.c1, h.c2, h.cl]
  into := by
    intro e he; simp at he
    rcases he with rfl | rfl | rfl | rfl
    · exact .inl ⟨n1, by simp, rfl⟩
    · exact .inl ⟨n2, by simp, rfl⟩
    · exact .inl ⟨n1, by simp, rfl⟩
    · exact .inl ⟨n2, by simp, rfl⟩
  linkNew := by
    intro e he; simp at he
    rcases he with rfl | rfl | rfl | rfl
    · intro hc; simp [GNode.ref, hsv] at hc
    · intro hc; simp [GNode.ref, hov] at hc
    · intro _; exact ⟨ln, by simp, rfl⟩
    · intro _; exact ⟨ln, by simp, rfl⟩

theorem invS_peerState {s : Topo} {c : Nat} {svc oid : Nid} {pn po n1 n2 ln : GNode} (h : PeerNew s c svc oid pn po n1 n2 ln)
    (hsv : pn.cls = .networkService) (hov : po.cls = .networkService) (hs : InvS s) : InvS (peerState s pn po n1 n2 ln) := by
  have r1 : n1.ref = ⟨.connectionPoint, .gen c⟩ := by simp [GNode.ref, h.c1, h.i1]
  have r2 : n2.ref = ⟨.connectionPoint, .gen (c + 1)⟩ := by simp [GNode.ref, h.c2, h.i2]
  have rl : ln.ref = ⟨.link, .gen (c + 2)⟩ := by simp [GNode.ref, h.cl, h.il]
  have rp : pn.ref = ⟨.networkService, pn.nid⟩ := by simp [GNode.ref, hsv]
  have ro : po.ref = ⟨.networkService, po.nid⟩ := by simp [GNode.ref, hov]
  unfold peerState
  refine invS_grow hs (growOk_peer h hsv hov) ?_ ?_ ?_ <;> intro x hx' <;> simp at hx' <;> rcases hx' with rfl | rfl | rfl
  · simp [h.c1]
  · simp [h.c2]
  · simp [h.cl]
  · intro _; simp [parentsOf, only, r1, r2, rl, rp, ro, isIfParentCls]
  · intro _; simp [parentsOf, only, r1, r2, rl, rp, ro, isIfParentCls]
  · simp [h.cl]
  · intro _ _; simp [spPeers, linksOf, only, r1, r2, rl, rp, ro, List.filter_cons]
  · intro _ _; simp [spPeers, linksOf, only, r1, r2, rl, rp, ro, List.filter_cons]
  · simp [h.cl]

theorem invD_peerState {s : Topo} {c : Nat} {svc oid : Nid} {pn po n1 n2 ln : GNode} (h : PeerNew s c svc oid pn po n1 n2 ln)
    (hsv : pn.cls = .networkService) (hov : po.cls = .networkService) (hs : InvD s) : InvD (peerState s pn po n1 n2 ln) := by
  have r1 : n1.ref = ⟨.connectionPoint, .gen c⟩ := by simp [GNode.ref, h.c1, h.i1]
  have r2 : n2.ref = ⟨.connectionPoint, .gen (c + 1)⟩ := by simp [GNode.ref, h.c2, h.i2]
  have rl : ln.ref = ⟨.link, .gen (c + 2)⟩ := by simp [GNode.ref, h.cl, h.il]
  have rp : pn.ref = ⟨.networkService, pn.nid⟩ := by simp [GNode.ref, hsv]
  have ro : po.ref = ⟨.networkService, po.nid⟩ := by simp [GNode.ref, hov]
  unfold peerState
  refine invD_grow hs (growOk_peer h hsv hov) ?_ ?_ ?_ <;> intro x hx' <;> simp at hx' <;> rcases hx' with rfl | rfl | rfl
  · simp [h.c1]
  · simp [h.c2]
  · simp [h.cl]
  · intro _; simp [parentsOf, only, r1, r2, rl, rp, ro, isIfParentCls]
  · intro _; simp [parentsOf, only, r1, r2, rl, rp, ro, isIfParentCls]
  · simp [h.cl]
  · intro _ _; simp [spPeers, linksOf, only, r1, r2, rl, rp, ro, List.filter_cons]
  · intro _ _; simp [spPeers, linksOf, only, r1, r2, rl, rp, ro, List.filter_cons]
  · simp [h.cl]

theorem namesCore_peerState {s : Topo} {c : Nat} {svc oid : Nid} {pn po n1 n2 ln : GNode} (h : PeerNew s c svc oid pn po n1 n2 ln)
    (hsv : pn.cls = .networkService) (hov : po.cls = .networkService) (hc : ClosedOk s) (hs : NamesCore s) :
    NamesCore (peerState s pn po n1 n2 ln) := by
  unfold peerState
  refine namesCore_grow_cp_link hc (growOk_peer h hsv hov) ?_ hs
  intro x hx; simp at hx
  rcases hx with rfl | rfl | rfl
  · exact .inl h.c1
  · exact .inl h.c2
  · exact .inr h.cl

/-- what `peer` asks of its two handles (C09 `PeerOk`): they refer to NetworkServices when to anything, and the other
handle's id is not the uuid about to be drawn -/
def PeerGuard (s : Topo) (c : Nat) (svc : Nid) : Option SvcHandle → Prop
  | none => True
  | some o => HandleOk s svc .networkService ∧ HandleOk s o.nid .networkService ∧ o.nid ≠ .gen c
instance (s : Topo) (c : Nat) (svc : Nid) (o : Option SvcHandle) : Decidable (PeerGuard s c svc o) := by
  cases o <;> unfold PeerGuard <;> infer_instance

/-- `peer` raises and leaves the model as it was (C09 `peer_fs`), or returns in `peerState` -/
theorem peer_inv {P : Topo → Prop} (fl : Flavour) (c : Nat) (svc : Nid) (sname : String) (cache : Cache) (other : Option SvcHandle)
    (props : List PropArg) (s : Topo) (hi : IdsOk s) (hc : ClosedOk s) (hv : VocabOk s) (g : PeerGuard s c svc other) (hs : P s)
    (hok : ∀ o pn po n1 n2 ln, other = some o → PeerNew s c svc o.nid pn po n1 n2 ln → pn.cls = .networkService →
      po.cls = .networkService → P (peerState s pn po n1 n2 ln)) :
    P (peer fl c svc sname cache other props s).2 := by
  cases other with
  | none => simp only [peer]; exact hs
  | some o =>
    obtain ⟨g1, g2, g3⟩ := g
    rcases cases_run (peer fl c svc sname cache (some o) props) s with ⟨v, s', hr⟩ | ⟨e, s', hr⟩
    · obtain ⟨pn, po, n1, n2, ln, hN, hs'⟩ := peer_ok_state fl c svc sname cache o props s s' v hi hc hv g3 hr
      rw [hr, hs']
      exact hok o pn po n1 n2 ln rfl hN (g1 pn hN.pm hN.pi) (g2 po hN.om hN.oi)
    · have := peer_fs fl c svc sname cache (some o) props s hi hc g1 (fun o' ho' => by cases ho'; exact ⟨g2, g3⟩) (by rw [hr]; simp)
      rw [this]; exact hs

theorem invS_peer (fl : Flavour) (c : Nat) (svc : Nid) (sname : String) (cache : Cache) (other : Option SvcHandle)
    (props : List PropArg) (s : Topo) (g : PeerGuard s c svc other) (h : InvS s) :
    InvS (peer fl c svc sname cache other props s).2 :=
  peer_inv fl c svc sname cache other props s h.ids h.closed h.vocab g h
    (fun _ _ _ _ _ _ _ hN hsv hov => invS_peerState hN hsv hov h)

theorem invD_peer (fl : Flavour) (c : Nat) (svc : Nid) (sname : String) (cache : Cache) (other : Option SvcHandle)
    (props : List PropArg) (s : Topo) (g : PeerGuard s c svc other) (h : InvD s) :
    InvD (peer fl c svc sname cache other props s).2 :=
  peer_inv fl c svc sname cache other props s h.ids h.closed h.vocab g h
    (fun _ _ _ _ _ _ _ hN hsv hov => invD_peerState hN hsv hov h)

theorem invSN_peer (fl : Flavour) (c : Nat) (svc : Nid) (sname : String) (cache : Cache) (other : Option SvcHandle)
    (props : List PropArg) (s : Topo) (g : PeerGuard s c svc other) (h : InvSN s) :
    InvSN (peer fl c svc sname cache other props s).2 :=
  peer_inv fl c svc sname cache other props s h.1.ids h.1.closed h.1.vocab g h
    (fun _ _ _ _ _ _ _ hN hsv hov => ⟨invS_peerState hN hsv hov h.1, namesCore_peerState hN hsv hov h.1.closed h.2⟩)

end FimVerif.Topo
