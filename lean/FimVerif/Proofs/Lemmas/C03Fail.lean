import FimVerif.Model.CodecFail
import FimVerif.Proofs.Lemmas.C03Small
import FimVerif.Proofs.Lemmas.C03SetFields
/-! Helper lemmas for the "failed call" theorems of C03 (`Model/CodecFail.lean`). -/
namespace FimVerif.C03
open FimVerif FimVerif.Codec JVal

theorem inPlace_failed {σ : Type} (f : σ → Except Err σ) (x : σ) (e : Err) (h : f x = .error e) :
    inPlace f x = (x, some e) := by simp [inPlace, h]

theorem inPlace_ok {σ : Type} (f : σ → Except Err σ) (x y : σ) (h : f x = .ok y) :
    inPlace f x = (y, none) := by simp [inPlace, h]

theorem ttStep_type (types : List (List Char)) (t : TTuple) (s : List Char) (ht : t.type ∈ types) :
    (ttStep types t s).1.type ∈ types := by
  unfold ttStep inPlace
  cases h : ttParse types s with
  | error e => simpa using ht
  | ok y =>
    simp only
    unfold ttParse ttOf at h
    split at h
    · cases h
    · split at h
      · rename_i hcon; injection h with h; subst h; simpa using hcon
      · cases h

/-- the in-place call agrees with the functional `setFields` on the outcome and, when it succeeds, on the state -/
theorem setFieldsIP_refines (c : ClassSpec) (valid) (fg : Bool) (kvs : List (String × JVal)) (x : Fields) :
    (∀ y, setFields c valid fg kvs x = .ok y → setFieldsIP c valid fg kvs x = (y, none)) ∧
    (∀ e, setFields c valid fg kvs x = .error e → (setFieldsIP c valid fg kvs x).2 = some e) := by
  induction kvs generalizing x with
  | nil => simp [setFields, setFieldsIP]
  | cons kv rest ih =>
    obtain ⟨k, v⟩ := kv
    unfold setFields setFieldsIP
    cases hg : guardCheck c.guard v with
    | error e => simp
    | ok u =>
      simp only
      by_cases hk : (names c).contains k = true
      · by_cases hv : valid k v = true
        · rw [if_pos hk, if_pos hv, if_pos hk, if_pos hv]; exact ih _
        · rw [if_pos hk, if_neg hv, if_pos hk, if_neg hv]; simp
      · by_cases ha : (!c.strictFields && c.attrs.contains k) = true
        · rw [if_neg hk, if_pos ha, if_neg hk, if_pos ha]; simp
        · cases fg
          · rw [if_neg hk, if_neg ha, if_neg hk, if_neg ha]; simp
          · rw [if_neg hk, if_neg ha, if_neg hk, if_neg ha]; simp only [if_true]; exact ih _

/-- `_set_fields(**a, **b)` = `_set_fields(**a)` then `_set_fields(**b)` when the first part is accepted -/
theorem setFields_append (c : ClassSpec) (valid) (fg : Bool) (a b : List (String × JVal)) (x y : Fields)
    (h : setFields c valid fg a x = .ok y) : setFields c valid fg (a ++ b) x = setFields c valid fg b y := by
  induction a generalizing x with
  | nil => simp [setFields] at h; subst h; rfl
  | cons kv a ih =>
    obtain ⟨k, v⟩ := kv
    simp only [List.cons_append]
    unfold setFields at h
    conv => lhs; unfold setFields
    cases hg : guardCheck c.guard v with
    | error e => simp [hg] at h
    | ok u =>
      simp only [hg] at h ⊢
      by_cases hk : (names c).contains k = true
      · by_cases hv : valid k v = true
        · rw [if_pos hk, if_pos hv] at h ⊢; exact ih _ h
        · rw [if_pos hk, if_neg hv] at h; cases h
      · by_cases ha : (!c.strictFields && c.attrs.contains k) = true
        · rw [if_neg hk, if_pos ha] at h; cases h
        · rw [if_neg hk, if_neg ha] at h ⊢
          cases fg
          · simp at h
          · simp only [if_true] at h ⊢; exact ih _ h

theorem piSet_ok_domain (p y : PathInfo) (pl : Payload) (h : PIDomain p) (hs : piSet p pl = .ok y) : PIDomain y := by
  obtain ⟨t, q, st⟩ := p
  cases t with
  | none => simp [PIDomain] at h
  | some t =>
    cases t with
    | path =>
      cases pl <;> simp [piSet] at hs
      subst hs; simp [PIDomain]
    | graph =>
      cases pl with
      | raw j => cases j <;> simp [piSet] at hs; subst hs; simp [PIDomain]
      | _ => simp [piSet] at hs

theorem piStep_domain (p : PathInfo) (pl : Payload) (h : PIDomain p) : PIDomain (piStep p pl).1 := by
  unfold piStep inPlace
  split
  · rename_i y hs; exact piSet_ok_domain p y pl h hs
  · exact h

end FimVerif.C03
