import FimVerif.Proofs.Lemmas.ARefNode
import FimVerif.Proofs.Lemmas.ARefAddDel
/-! C05: `merge_nodes` refines the reference merge (`ARef.mergeNodes`) when the keys of the stored nodes are pairwise
    distinct: `nx.contracted_nodes` in lock step with the re-attachment of links between keys.  Core only. -/
namespace FimVerif.Store
open FimVerif FimVerif.Gen.StoreConsts

/-- abstraction of one edge with the keys of a given node list -/
def kEdge (ns : List SNode) (e : SEdge) : Key × Key × Props := (keyOf ns e.a, keyOf ns e.b, e.attrs)

theorem absS_edges' (s : Store) : (absS s).edges = s.edges.map (kEdge s.nodes) := rfl

theorem any_congr_mem {α : Type} (p q : α → Bool) (l : List α) (h : ∀ a ∈ l, p a = q a) : l.any p = l.any q := by
  induction l with
  | nil => rfl
  | cons a l ih =>
    simp only [List.any_cons, h a (by simp), ih (fun b hb => h b (by simp [hb]))]

/-- under `UniqueKeys` a stored id is determined by its key -/
theorem keyOf_inj (s : Store) (h : Inv s) (hu : UniqueKeys s) (i j : Nat) (hi : idIn s.nodes i = true) (hj : idIn s.nodes j = true) :
    keyOf s.nodes i = keyOf s.nodes j ↔ i = j := by
  obtain ⟨n, hn, e, hk⟩ := keyOf_of_idIn s h i hi
  obtain ⟨m, hm, e', hk'⟩ := keyOf_of_idIn s h j hj
  constructor
  · intro hh
    rw [hk, hk'] at hh
    have := uniqueAt_of_uniqueKeys s hu m hm n hn hh
    rw [← e, ← e', this]
  · intro hh; rw [hh]

theorem beq_keyOf (s : Store) (h : Inv s) (hu : UniqueKeys s) (i j : Nat) (hi : idIn s.nodes i = true) (hj : idIn s.nodes j = true) :
    (keyOf s.nodes i == keyOf s.nodes j) = (i == j) := by
  rw [Bool.eq_iff_iff]
  simp only [beq_iff_eq]
  exact keyOf_inj s h hu i j hi hj

theorem edgeMatch_keysU (s : Store) (h : Inv s) (hu : UniqueKeys s) (w x : Nat) (hw : idIn s.nodes w = true) (hx : idIn s.nodes x = true)
    (e : SEdge) (he : e ∈ s.edges) :
    ARef.edgeIsK (keyOf s.nodes w) (keyOf s.nodes x) (kEdge s.nodes e) = edgeMatch w x e := by
  obtain ⟨ha, hb⟩ := h.2.2 e he
  simp only [ARef.edgeIsK, kEdge, edgeMatch, beq_keyOf s h hu _ _ ha hw, beq_keyOf s h hu _ _ hb hx,
    beq_keyOf s h hu _ _ ha hx, beq_keyOf s h hu _ _ hb hw]

theorem absS_appendEdge (s : Store) (w x : Nat) (attrs : Props) :
    absS { s with edges := s.edges ++ [⟨w, x, attrs⟩] } =
      { absS s with edges := (absS s).edges ++ [(keyOf s.nodes w, keyOf s.nodes x, attrs)] } := by
  simp [absS]

/-- the remapping loop of `contracted_nodes`, in lock step.  `kf` gives the keys the edges of `l` had in the
    store *before* the absorbed node was removed. -/
theorem absS_remapEdges (u v : Nat) (ku kv : Key) (kf : Nat → Key) (l : List SEdge) (s : Store) (h : Inv s) (hu : UniqueKeys s)
    (hl : ∀ e ∈ l, idIn s.nodes (if e.a = v then u else e.a) = true ∧ idIn s.nodes (if e.b = v then u else e.b) = true ∧
      keyOf s.nodes (if e.a = v then u else e.a) = (if kf e.a = kv then ku else kf e.a) ∧
      keyOf s.nodes (if e.b = v then u else e.b) = (if kf e.b = kv then ku else kf e.b)) :
    absS (remapEdges u v l s) = ARef.remapK ku kv (l.map (fun e => (kf e.a, kf e.b, e.attrs))) (absS s) := by
  induction l generalizing s with
  | nil => rfl
  | cons e r ih =>
    simp only [remapEdges, List.map_cons, ARef.remapK]
    obtain ⟨hw, hx, kw, kx⟩ := hl e (by simp)
    have hany : (absS s).edges.any (ARef.edgeIsK (if kf e.a = kv then ku else kf e.a) (if kf e.b = kv then ku else kf e.b)) =
        s.edges.any (edgeMatch (if e.a = v then u else e.a) (if e.b = v then u else e.b)) := by
      rw [absS_edges', List.any_map, ← kw, ← kx]
      exact any_congr_mem _ _ _ (fun e' he' => edgeMatch_keysU s h hu _ _ hw hx e' he')
    rw [hany]
    have hi := inv_addIfAbsent s (if e.a = v then u else e.a) (if e.b = v then u else e.b) e.attrs h hw hx
    by_cases hc : s.edges.any (edgeMatch (if e.a = v then u else e.a) (if e.b = v then u else e.b)) = true
    · simp only [hc, if_true]
      exact ih s h hu (fun e' he' => hl e' (by simp [he']))
    · have hc' : s.edges.any (edgeMatch (if e.a = v then u else e.a) (if e.b = v then u else e.b)) = false := by simpa using hc
      simp only [hc', Bool.false_eq_true, if_false]
      rw [if_neg hc] at hi
      have hn : ({ s with edges := s.edges ++ [⟨if e.a = v then u else e.a, if e.b = v then u else e.b, e.attrs⟩] } : Store).nodes = s.nodes := rfl
      have := ih _ hi.1 (by simpa [UniqueKeys] using hu) (fun e' he' => by simpa [hn] using hl e' (by simp [he']))
      rw [this, absS_appendEdge, kw, kx]

theorem uniqueKeys_filter (s : Store) (hu : UniqueKeys s) (p : SNode → Bool) (s' : Store) (hn : s'.nodes = s.nodes.filter p) :
    UniqueKeys s' := by
  unfold UniqueKeys at *
  rw [hn]
  exact List.Nodup.sublist (List.Sublist.map _ List.filter_sublist) hu

/-- `nx.contracted_nodes(G, u, v)` in lock step (the keys of the stored nodes are pairwise distinct) -/
theorem absS_contract (s : Store) (h : Inv s) (hu : UniqueKeys s) (nu nv : SNode) (hnu : nu ∈ s.nodes) (hnv : nv ∈ s.nodes)
    (hne : nu.iid ≠ nv.iid) :
    absS (contract nu.iid nv.iid s) = ARef.contractK (keyP nu.attrs) (keyP nv.attrs) (absS s) := by
  have uv := uniqueAt_of_uniqueKeys s hu nv hnv
  unfold contract ARef.contractK
  simp only
  have hinc : (absS s).edges.filter (fun e => e.1 == keyP nv.attrs || e.2.1 == keyP nv.attrs) =
      (s.edges.filter (fun e => e.a == nv.iid || e.b == nv.iid)).map (fun e => (keyOf s.nodes e.a, keyOf s.nodes e.b, e.attrs)) := by
    rw [absS_edges]
    apply filter_map_pred
    intro e he
    obtain ⟨ha, hb⟩ := h.2.2 e he
    have e1 : (keyOf s.nodes e.a == keyP nv.attrs) = (e.a == nv.iid) := by
      rw [Bool.eq_iff_iff]; simp only [beq_iff_eq]; exact keyOf_eq_iff s h nv hnv uv e.a ha
    have e2 : (keyOf s.nodes e.b == keyP nv.attrs) = (e.b == nv.iid) := by
      rw [Bool.eq_iff_iff]; simp only [beq_iff_eq]; exact keyOf_eq_iff s h nv hnv uv e.b hb
    simp only [e1, e2]
  rw [hinc, ← absS_removeNode s h nv hnv uv]
  have h1 := inv_removeNode s nv.iid h
  have hu1 : UniqueKeys (removeNode nv.iid s) := uniqueKeys_filter s hu (fun n => n.iid != nv.iid) _ rfl
  have hnu1 : nu ∈ (removeNode nv.iid s).nodes := by simp [removeNode, hnu, hne]
  apply absS_remapEdges nu.iid nv.iid (keyP nu.attrs) (keyP nv.attrs) (keyOf s.nodes) _ _ h1 hu1
  intro e he
  have hes := (List.mem_filter.1 he).1
  obtain ⟨ha, hb⟩ := h.2.2 e hes
  have key : ∀ i, idIn s.nodes i = true →
      idIn (removeNode nv.iid s).nodes (if i = nv.iid then nu.iid else i) = true ∧
      keyOf (removeNode nv.iid s).nodes (if i = nv.iid then nu.iid else i) =
        (if keyOf s.nodes i = keyP nv.attrs then keyP nu.attrs else keyOf s.nodes i) := by
    intro i hi
    by_cases hiv : i = nv.iid
    · simp only [hiv, if_true, keyOf_mem s h nv hnv]
      exact ⟨(idIn_iff _ _).2 ⟨nu, hnu1, rfl⟩, keyOf_mem _ h1 nu hnu1⟩
    · obtain ⟨m, hm, em, hk⟩ := keyOf_of_idIn s h i hi
      have hm1 : m ∈ (removeNode nv.iid s).nodes := by simp [removeNode, hm, em, hiv]
      have hk1 : keyOf s.nodes i ≠ keyP nv.attrs := fun hh => hiv ((keyOf_eq_iff s h nv hnv uv i hi).1 hh)
      simp only [hiv, if_false, hk1]
      refine ⟨(idIn_iff _ _).2 ⟨m, hm1, em⟩, ?_⟩
      rw [hk, ← em]; exact keyOf_mem _ h1 m hm1
  exact ⟨(key _ ha).1, (key _ hb).1, (key _ ha).2, (key _ hb).2⟩

theorem candS_same_graph (s : Store) (h : Inv s) (g g2 nid : String) (nu nv : SNode) (hu : candS s g nid = [nu]) (hv : candS s g2 nid = [nv]) :
    nu.iid = nv.iid ↔ g = g2 := by
  have su := candS_single s g nid nu hu
  have sv := candS_single s g2 nid nv hv
  constructor
  · intro e
    have : nu = nv := (mem_iid_eq_iff s h nv sv.1 nu su.1).1 e
    subst this
    exact inG_unique nu g g2 su.2.2.2.1 sv.2.2.2.1
  · intro e
    subst e
    rw [hu] at hv
    injection hv with hv
    rw [hv]

/-- `merge_nodes` refines the reference merge when the keys of the stored nodes are pairwise distinct -/
theorem refS_mergeNodes (s : Store) (h : Inv s) (hu : UniqueKeys s) (g nid g2 : String) (pol : Option (List (String × Policy))) :
    RefS (mergeNodes g nid g2 pol s) (ARef.mergeNodes g nid g2 pol (absS s)) := by
  unfold mergeNodes ARef.mergeNodes
  rw [nodesOf_absS, List.length_map]
  by_cases h0 : (nodesOf s g2).length = 0
  · simp only [h0, if_true]; exact refS_err s _
  · simp only [h0, if_false]
    apply refS_withNode
    intro nu hcu
    have su := candS_single s g nid nu hcu
    rw [findNode_candS, find_candS]
    cases hcv : candS s g2 nid with
    | nil => exact refS_err s _
    | cons nv l =>
      cases l with
      | cons b l => exact refS_err s _
      | nil =>
        have sv := candS_single s g2 nid nv hcv
        simp only
        have hsame := candS_same_graph s h g g2 nid nu nv hcu hcv
        by_cases hg : g = g2
        · simp only [hsame.2 hg, hg, if_true]; exact refS_err s _
        · have hne : nu.iid ≠ nv.iid := fun e => hg (hsame.1 e)
          simp only [hne, hg, if_false]
          rw [nodeAttrs_of_mem s h nu su.1, nodeAttrs_of_mem s h nv sv.1]
          simp only
          have hc := inv_contract s nu.iid nv.iid h ((idIn_iff _ _).2 ⟨nu, su.1, rfl⟩) hne
          have hnuc : nu ∈ (contract nu.iid nv.iid s).nodes := by
            unfold contract; simp only
            rw [(remapEdges_nodes _ _ _ _).1]
            simp [removeNode, su.1, hne]
          have huc : UniqueAt (contract nu.iid nv.iid s) nu := by
            intro m hm e
            have hm' : m ∈ s.nodes := by
              unfold contract at hm; simp only at hm
              rw [(remapEdges_nodes _ _ _ _).1] at hm
              exact (List.mem_filter.1 hm).1
            exact su.2.2.1 m hm' e
          have hupd : ∀ np : Props, absS (updNode nu.iid (fun _ => np) (contract nu.iid nv.iid s)) =
              ARef.updK (K g nid) (fun _ => np) (keyP np) (ARef.contractK (K g nid) (K g2 nid) (absS s)) := by
            intro np
            rw [absS_updNode _ hc nu hnuc huc, absS_contract s h hu nu nv su.1 sv.1 hne, su.2.1, sv.2.1]
          cases pol with
          | none => exact ⟨rfl, hupd _⟩
          | some pol =>
            simp only
            cases hm : mergeProps nv.attrs pol nu.attrs with
            | error e => exact refS_err s _
            | ok np => exact ⟨rfl, hupd np⟩

end FimVerif.Store
