import FimVerif.Model.Deleg
/-! `Delegations.add_delegations(*args)` as ONE call with an argument list (C12). -/
set_option linter.unusedSimpArgs false
namespace FimVerif.C12
open FimVerif.Deleg

variable {D : Type}

/-- what the loop of `add_delegations` accepts: every argument has the container's type, no argument's id
is in the container, and no two arguments of the call share an id -/
def CallOk (ds : Delegations D) (args : List (Delegation D)) : Prop :=
  (∀ a ∈ args, a.ty = ds.ty) ∧ (∀ a ∈ args, ∀ e ∈ ds.items, e.id ≠ a.id) ∧ args.Pairwise (fun a b => a.id ≠ b.id)

theorem addDelegation_ok_iff (ds : Delegations D) (d : Delegation D) :
    (∃ ds', addDelegation ds d = .ok ds') ↔ d.ty = ds.ty ∧ ∀ e ∈ ds.items, e.id ≠ d.id := by
  unfold addDelegation
  by_cases hty : d.ty = ds.ty
  · cases hh : hasId ds.items d.id with
    | true =>
      simp only [hty, ne_eq, not_true_eq_false, if_false, hh, if_true, true_and]
      constructor
      · rintro ⟨_, h⟩; cases h
      · intro h
        simp only [hasId, List.any_eq_true, decide_eq_true_eq] at hh
        obtain ⟨e, he, heq⟩ := hh
        exact absurd heq (h e he)
    | false =>
      simp only [hty, ne_eq, not_true_eq_false, if_false, hh, true_and]
      refine ⟨fun _ => ?_, fun _ => ⟨_, rfl⟩⟩
      intro e he heq
      simp only [hasId, List.any_eq_false, decide_eq_true_eq] at hh
      exact hh e he heq
  · simp [hty]

theorem addDelegation_ok_eq (ds ds' : Delegations D) (d : Delegation D) (h : addDelegation ds d = .ok ds') :
    ds' = { ds with items := ds.items ++ [d] } := by
  unfold addDelegation at h
  split at h
  · cases h
  · split at h
    · cases h
    · cases h; rfl

/-- the error of a single rejected argument: the type assertion comes first, then the duplicate check -/
theorem addDelegation_err (ds : Delegations D) (d : Delegation D) (e : Err) (h : addDelegation ds d = .error e) :
    (d.ty ≠ ds.ty ∧ e = .assertion) ∨ (d.ty = ds.ty ∧ (∃ x ∈ ds.items, x.id = d.id) ∧ e = .delegation) := by
  unfold addDelegation at h
  split at h
  · rename_i hty; cases h; exact Or.inl ⟨hty, rfl⟩
  · rename_i hty
    split at h
    · rename_i hh
      cases h
      simp only [hasId, List.any_eq_true, decide_eq_true_eq] at hh
      exact Or.inr ⟨by simpa using hty, hh, rfl⟩
    · cases h

theorem callOk_cons (ds : Delegations D) (d : Delegation D) (rest : List (Delegation D)) :
    CallOk ds (d :: rest) ↔
      (d.ty = ds.ty ∧ ∀ e ∈ ds.items, e.id ≠ d.id) ∧ CallOk { ds with items := ds.items ++ [d] } rest := by
  unfold CallOk
  simp only [List.mem_cons, forall_eq_or_imp, List.pairwise_cons, List.mem_append, List.mem_singleton]
  constructor
  · rintro ⟨⟨h1, h2⟩, ⟨h3, h4⟩, h5, h6⟩
    refine ⟨⟨h1, h3⟩, h2, ?_, h6⟩
    intro a ha e he
    rcases he with he | he
    · exact h4 a ha e he
    · have : e = d := by simpa using he
      subst this; exact h5 a ha
  · rintro ⟨⟨h1, h3⟩, h2, h4, h6⟩
    exact ⟨⟨h1, h2⟩, ⟨h3, fun a ha e he => h4 a ha e (Or.inl he)⟩, fun a ha => h4 a ha d (Or.inr (by simp)), h6⟩

/-- **the call is accepted exactly when `CallOk`** - in particular a duplicate id is rejected whether the
earlier holder of the id is in the container or is an earlier argument of the same call -/
theorem addDelegations_accepts_iff (ds : Delegations D) (args : List (Delegation D)) :
    (addDelegations ds args).2 = none ↔ CallOk ds args := by
  induction args generalizing ds with
  | nil => simp [addDelegations, CallOk]
  | cons d rest ih =>
    rw [callOk_cons]
    cases h : addDelegation ds d with
    | error e =>
      have hno : ¬ (d.ty = ds.ty ∧ ∀ e ∈ ds.items, e.id ≠ d.id) := by
        intro hc
        obtain ⟨ds', h'⟩ := (addDelegation_ok_iff ds d).mpr hc
        rw [h] at h'; cases h'
      simp [addDelegations, h, hno]
    | ok ds' =>
      have hyes := (addDelegation_ok_iff ds d).mp ⟨ds', h⟩
      have heq := addDelegation_ok_eq ds ds' d h
      subst heq
      simp only [addDelegations, h]
      rw [ih _]
      exact ⟨fun hc => ⟨hyes, hc⟩, fun hc => hc.2⟩

/-- an accepted call appends its arguments in order -/
theorem addDelegations_state_ok (ds : Delegations D) (args : List (Delegation D)) (h : CallOk ds args) :
    (addDelegations ds args).1 = { ds with items := ds.items ++ args } := by
  induction args generalizing ds with
  | nil => simp [addDelegations]
  | cons d rest ih =>
    obtain ⟨hd, hrest⟩ := (callOk_cons ds d rest).mp h
    obtain ⟨ds', h'⟩ := (addDelegation_ok_iff ds d).mpr hd
    have heq := addDelegation_ok_eq ds ds' d h'
    subst heq
    simp only [addDelegations, h']
    rw [ih _ hrest]
    simp

/-- whatever happens, the container afterwards is the old one plus a prefix of the arguments (the code's
loop stores argument by argument; a rejected call leaves the arguments before the offending one behind),
and that prefix is itself an acceptable call -/
theorem addDelegations_state_prefix (ds : Delegations D) (args : List (Delegation D)) :
    ∃ pre suf, args = pre ++ suf ∧ (addDelegations ds args).1 = { ds with items := ds.items ++ pre } ∧
      CallOk ds pre ∧ ((addDelegations ds args).2 = none → suf = []) ∧
      ((addDelegations ds args).2 ≠ none → ∃ x rest, suf = x :: rest ∧ ¬ CallOk ds (pre ++ [x])) := by
  induction args generalizing ds with
  | nil => exact ⟨[], [], rfl, by simp [addDelegations], by simp [CallOk], fun _ => rfl, by simp [addDelegations]⟩
  | cons d rest ih =>
    cases h : addDelegation ds d with
    | error e =>
      refine ⟨[], d :: rest, rfl, by simp [addDelegations, h], by simp [CallOk], by simp [addDelegations, h], ?_⟩
      intro _
      refine ⟨d, rest, rfl, ?_⟩
      intro hc
      have := (callOk_cons ds d []).mp (by simpa using hc)
      obtain ⟨ds', h'⟩ := (addDelegation_ok_iff ds d).mpr this.1
      rw [h] at h'; cases h'
    | ok ds' =>
      have hyes := (addDelegation_ok_iff ds d).mp ⟨ds', h⟩
      have heq := addDelegation_ok_eq ds ds' d h
      subst heq
      obtain ⟨pre, suf, h1, h2, h3, h4, h5⟩ := ih { ds with items := ds.items ++ [d] }
      refine ⟨d :: pre, suf, by simp [h1], ?_, (callOk_cons ds d pre).mpr ⟨hyes, h3⟩, ?_, ?_⟩
      · simp only [addDelegations, h]; rw [h2]; simp
      · simp only [addDelegations, h]; exact h4
      · simp only [addDelegations, h]
        intro hne
        obtain ⟨x, r, hx, hnot⟩ := h5 hne
        refine ⟨x, r, hx, ?_⟩
        intro hc
        exact hnot ((callOk_cons ds d (pre ++ [x])).mp (by simpa using hc)).2

/-- kind of the exception of a rejected call whose arguments all have the container's type -/
theorem addDelegations_err_kind (ds : Delegations D) (args : List (Delegation D)) (hty : ∀ a ∈ args, a.ty = ds.ty)
    (e : Err) (h : (addDelegations ds args).2 = some e) : e = .delegation := by
  induction args generalizing ds with
  | nil => simp [addDelegations] at h
  | cons d rest ih =>
    cases h' : addDelegation ds d with
    | error e' =>
      simp only [addDelegations, h', Option.some.injEq] at h
      subst h
      rcases addDelegation_err ds d e' h' with ⟨hne, _⟩ | ⟨_, _, he⟩
      · exact absurd (hty d (by simp)) hne
      · exact he
    | ok ds' =>
      have heq := addDelegation_ok_eq ds ds' d h'
      subst heq
      simp only [addDelegations, h'] at h
      exact ih { ds with items := ds.items ++ [d] } (fun a ha => hty a (by simp [ha])) h

end FimVerif.C12
