import FimVerif.Proofs.Lemmas.C02Tree
/-! Model-graph path for C02: what `addSliver` leaves in the graph (`Built`), and that `buildDeep` reads it back. -/
namespace FimVerif.C02
open FimVerif.Sliver FimVerif.Gen.SliverMap

section
variable {V P : Type}

def idOf (s : Sliver V) : String := s.nodeId.getD ""

mutual
/-- all node ids of a tree, in pre-order -/
def idsOf : Sliver V → List String
  | .mk _ nid _ ks => nid.getD "" :: idsOfKids ks
def idsOfKids : List (Sliver V) → List String
  | [] => []
  | c :: cs => idsOf c ++ idsOfKids cs
end

mutual
/-- every element has a node id and every child is of a kind its parent can contain -/
def Shaped : Sliver V → Prop
  | .mk k nid _ ks => nid.isSome = true ∧ ShapedKids k ks
def ShapedKids (parent : Kind) : List (Sliver V) → Prop
  | [] => True
  | c :: cs => (slotOf parent c.kind).isSome = true ∧ Shaped c ∧ ShapedKids parent cs
end

/-- the adjacency entry a child leaves at its parent -/
def entryOf (c : Sliver V) : String × String := (relOf c.kind, idOf c)

def parentEntry (k : Kind) (p : Option String) : List (String × String) :=
  match p with
  | some q => [(relOf k, q)]
  | none => []

mutual
/-- what `addSliver` leaves in the graph for a tree: one node per element with the element's property dictionary,
adjacency = the parent (if any) followed by the children in order -/
def Built (C : Codecs V P) (G : AGraph P) (p : Option String) : Sliver V → Prop
  | .mk k nid f ks =>
    G.node (nid.getD "") = [(classOf k, toProps C (tableOf k) f)] ∧
    G.adj (nid.getD "") = parentEntry k p ++ ks.map entryOf ∧
    BuiltKids C G (nid.getD "") ks
def BuiltKids (C : Codecs V P) (G : AGraph P) (pid : String) : List (Sliver V) → Prop
  | [] => True
  | c :: cs => Built C G (some pid) c ∧ BuiltKids C G pid cs
end

def Agree (G G' : AGraph P) (ids : List String) : Prop := ∀ i ∈ ids, G'.node i = G.node i ∧ G'.adj i = G.adj i

mutual
theorem Built_congr (C : Codecs V P) (G G' : AGraph P) (p : Option String) :
    ∀ (s : Sliver V), Agree G G' (idsOf s) → Built C G p s → Built C G' p s
  | .mk k nid f ks, ha, hb => by
    simp only [Built] at hb ⊢
    simp only [idsOf] at ha
    have h0 := ha (nid.getD "") (List.mem_cons_self)
    refine ⟨by rw [h0.1]; exact hb.1, by rw [h0.2]; exact hb.2.1, ?_⟩
    exact BuiltKids_congr C G G' (nid.getD "") ks (fun i hi => ha i (List.mem_cons_of_mem _ hi)) hb.2.2
theorem BuiltKids_congr (C : Codecs V P) (G G' : AGraph P) (pid : String) :
    ∀ (ks : List (Sliver V)), Agree G G' (idsOfKids ks) → BuiltKids C G pid ks → BuiltKids C G' pid ks
  | [], _, _ => by simp [BuiltKids]
  | c :: cs, ha, hb => by
    simp only [BuiltKids] at hb ⊢
    simp only [idsOfKids] at ha
    exact ⟨Built_congr C G G' (some pid) c (fun i hi => ha i (List.mem_append_left _ hi)) hb.1,
      BuiltKids_congr C G G' pid cs (fun i hi => ha i (List.mem_append_right _ hi)) hb.2⟩
end

def Fresh (g : AGraph P) (ids : List String) : Prop := ∀ i ∈ ids, g.node i = [] ∧ g.adj i = []

theorem idOf_mem_idsOf (s : Sliver V) : idOf s ∈ idsOf s := by
  cases s; simp [idOf, idsOf, Sliver.nodeId]

/-- Frame of `addSliver`/`addKids`: what changes outside the ids of the added tree -/
def Frame (g g' : AGraph P) (ids : List String) (p : Option String) (e : String × String) : Prop :=
  (∀ i, i ∉ ids → p ≠ some i → g'.node i = g.node i ∧ g'.adj i = g.adj i) ∧
  (∀ q, p = some q → g'.node q = g.node q ∧ g'.adj q = g.adj q ++ [e])

mutual
theorem add_built (C : Codecs V P) : ∀ (s : Sliver V) (g : AGraph P) (p : Option String),
    Shaped s → Fresh g (idsOf s) → (idsOf s).Nodup → (∀ q, p = some q → q ∉ idsOf s) →
    (∀ q, p = some q → (g.node q).length = 1) →
    ∃ g', addSliver C g p s = .ok g' ∧ Built C g' p s ∧ Frame g g' (idsOf s) p (relOf s.kind, idOf s)
  | .mk k nid f ks, g, p, hs, hf, hnd, hp, hpar => by
    simp only [Shaped] at hs
    obtain ⟨id, rfl⟩ := Option.isSome_iff_exists.mp hs.1
    simp only [idsOf, Option.getD_some, List.nodup_cons] at hf hnd hp
    have hfid := hf id (List.mem_cons_self)
    -- the graph after add_node + add_link
    have hpid : ∀ q, p = some q → q ≠ id := fun q hq e => hp q hq (by rw [e]; exact List.mem_cons_self)
    have hadd : addNode g p id (classOf k) (relOf k) (toProps C (tableOf k) f) =
        .ok (addNodeTo g p id (classOf k) (relOf k) (toProps C (tableOf k) f)) := by
      unfold addNode
      rw [hfid.1]
      cases p with
      | none => rfl
      | some q =>
        have hq := hpid q rfl
        have hl := hpar q rfl
        simp [upd, hq, hl]
    generalize hg1 : addNodeTo g p id (classOf k) (relOf k) (toProps C (tableOf k) f) = g1 at hadd
    have hg1node : ∀ i, i ≠ id → g1.node i = g.node i := by
      intro i hi; subst hg1; cases p <;> simp [addNodeTo, upd, hi]
    have hg1adj : ∀ i, i ≠ id → p ≠ some i → g1.adj i = g.adj i := by
      intro i hi hpi
      subst hg1
      cases p with
      | none => rfl
      | some q =>
        have : i ≠ q := fun e => hpi (by rw [e])
        simp [addNodeTo, upd, hi, this]
    have hg1id : g1.node id = [(classOf k, toProps C (tableOf k) f)] ∧ g1.adj id = parentEntry k p := by
      subst hg1
      cases p with
      | none => simp [addNodeTo, upd, hfid.1, hfid.2, parentEntry]
      | some q => simp [addNodeTo, upd, hfid.1, hfid.2, parentEntry]
    have hg1p : ∀ q, p = some q → g1.adj q = g.adj q ++ [(relOf k, id)] := by
      intro q hq
      subst hg1 hq
      have := hpid q rfl
      simp [addNodeTo, upd, this]
    -- children
    have hfresh1 : Fresh g1 (idsOfKids ks) := by
      intro i hi
      have hne : i ≠ id := fun e => hnd.1 (e ▸ hi)
      have hpi : p ≠ some i := fun e => hp i e (List.mem_cons_of_mem _ hi)
      rw [hg1node i hne, hg1adj i hne hpi]
      exact hf i (List.mem_cons_of_mem _ hi)
    obtain ⟨g', hk, hbk, hframe, hpn, hpa⟩ := addKids_built C ks g1 id k hs.2 hfresh1 hnd.2 hnd.1 (by rw [hg1id.1]; rfl)
    refine ⟨g', ?_, ?_, ?_, ?_⟩
    · simp only [addSliver, hadd]; exact hk
    · simp only [Built, Option.getD_some]
      refine ⟨by rw [hpn, hg1id.1], by rw [hpa, hg1id.2], hbk⟩
    · intro i hi hpi
      simp only [idsOf, Option.getD_some, List.mem_cons, not_or] at hi
      have := hframe i hi.2 hi.1
      rw [this.1, this.2, hg1node i hi.1, hg1adj i hi.1 hpi]
      exact ⟨rfl, rfl⟩
    · intro q hq
      have hqid := hpid q hq
      have hqk : q ∉ idsOfKids ks := fun h => hp q hq (List.mem_cons_of_mem _ h)
      have := hframe q hqk hqid
      rw [this.1, this.2, hg1node q hqid, hg1p q hq]
      simp [Sliver.kind, idOf, Sliver.nodeId]
theorem addKids_built (C : Codecs V P) : ∀ (ks : List (Sliver V)) (g : AGraph P) (pid : String) (pk : Kind),
    ShapedKids pk ks → Fresh g (idsOfKids ks) → (idsOfKids ks).Nodup → pid ∉ idsOfKids ks →
    (g.node pid).length = 1 →
    ∃ g', addKids C g pid pk ks = .ok g' ∧ BuiltKids C g' pid ks ∧
      (∀ i, i ∉ idsOfKids ks → i ≠ pid → g'.node i = g.node i ∧ g'.adj i = g.adj i) ∧
      g'.node pid = g.node pid ∧ g'.adj pid = g.adj pid ++ ks.map entryOf
  | [], g, pid, pk, _, _, _, _, _ => ⟨g, by simp [addKids], by simp [BuiltKids], fun _ _ _ => ⟨rfl, rfl⟩, rfl, by simp⟩
  | c :: cs, g, pid, pk, hs, hf, hnd, hpid, hlen => by
    simp only [ShapedKids] at hs
    simp only [idsOfKids, List.mem_append, not_or] at hf hnd hpid
    obtain ⟨slot, hslot⟩ := Option.isSome_iff_exists.mp hs.1
    have hnd' := List.nodup_append.mp hnd
    obtain ⟨g1, h1, hb1, hfr1, hfr1p⟩ := add_built C c g (some pid) hs.2.1
      (fun i hi => hf i (List.mem_append_left _ hi)) hnd'.1 (fun q hq => by cases hq; exact hpid.1)
      (fun q hq => by cases hq; exact hlen)
    have hdisj : ∀ i, i ∈ idsOfKids cs → i ∉ idsOf c := fun i hi hc => hnd'.2.2 i hc i hi rfl
    have hfresh1 : Fresh g1 (idsOfKids cs) := by
      intro i hi
      have hpi : (some pid : Option String) ≠ some i := fun e => hpid.2 (by cases e; exact hi)
      have := hfr1 i (hdisj i hi) hpi
      rw [this.1, this.2]
      exact hf i (List.mem_append_right _ hi)
    have hp1 := hfr1p pid rfl
    obtain ⟨g2, h2, hb2, hfr2, hn2, ha2⟩ := addKids_built C cs g1 pid pk hs.2.2 hfresh1 hnd'.2.1 hpid.2 (by rw [hp1.1]; exact hlen)
    refine ⟨g2, ?_, ?_, ?_, ?_, ?_⟩
    · simp only [addKids, hslot, h1]; exact h2
    · simp only [BuiltKids]
      refine ⟨Built_congr C g1 g2 (some pid) c ?_ hb1, hb2⟩
      intro i hi
      have hne : i ≠ pid := fun e => hpid.1 (e ▸ hi)
      exact hfr2 i (fun h => hdisj i h hi) hne
    · intro i hi hne
      simp only [idsOfKids, List.mem_append, not_or] at hi
      have a := hfr2 i hi.2 hne
      have b := hfr1 i hi.1 (fun e => hne (by cases e; rfl))
      rw [a.1, a.2, b.1, b.2]; exact ⟨rfl, rfl⟩
    · rw [hn2, hp1.1]
    · rw [ha2, hp1.2]
      simp [entryOf, List.append_assoc]

end

/-! ### reading the tree back -/

theorem slotOf_cases (p c : Kind) (sl : String) (h : slotOf p c = some sl) :
    (p = "node" ∧ c = "component") ∨ (p = "node" ∧ c = "service") ∨ (p = "component" ∧ c = "service") ∨
    (p = "service" ∧ c = "interface") ∨ (p = "interface" ∧ c = "interface") := by
  unfold slotOf at h
  split at h
  · rename_i hc; exact Or.inl hc
  · split at h
    · rename_i hc; exact Or.inr (Or.inl hc)
    · split at h
      · rename_i hc; exact Or.inr (Or.inr (Or.inl hc))
      · split at h
        · rename_i hc; exact Or.inr (Or.inr (Or.inr (Or.inl hc)))
        · split at h
          · rename_i hc; exact Or.inr (Or.inr (Or.inr (Or.inr hc)))
          · cases h

def slotKinds (k : Kind) : List Kind := (slotsOf k).map (·.2)

/-- containment depth below a kind (bounds the recursion of `build_deep_*`) -/
def rank (k : Kind) : Nat :=
  if k = "node" then 4 else if k = "component" then 3 else if k = "service" then 2 else 1

theorem rank_pos (k : Kind) : 1 ≤ rank k := by unfold rank; split <;> (try split) <;> (try split) <;> omega

theorem rank_child (p c : Kind) (sl : String) (h : slotOf p c = some sl) (hp : p ≠ "interface") : rank c < rank p := by
  rcases slotOf_cases p c sl h with ⟨rfl, rfl⟩ | ⟨rfl, rfl⟩ | ⟨rfl, rfl⟩ | ⟨rfl, rfl⟩ | ⟨rfl, rfl⟩ <;> first | decide | exact absurd rfl hp

theorem kind_match (p a b : Kind) (sl : String) (h : slotOf p a = some sl) (hb : b ∈ slotKinds p) :
    ((relOf a == relOf b) && (classOf a == classOf b)) = (a == b) := by
  rcases slotOf_cases p a sl h with ⟨rfl, rfl⟩ | ⟨rfl, rfl⟩ | ⟨rfl, rfl⟩ | ⟨rfl, rfl⟩ | ⟨rfl, rfl⟩ <;>
    simp [slotKinds, slotsOf] at hb <;> (try rcases hb with rfl | rfl) <;> (try subst hb) <;> decide

/-- the parent of a rebuilt element is never mistaken for one of its children -/
def ParentOk (G : AGraph P) (p : Option String) (k : Kind) : Prop :=
  ∀ q, p = some q → ∀ ck ∈ slotKinds k, relOf k = relOf ck → (G.node q).any (fun n => n.1 == classOf ck) = false

theorem parentOk_child (G : AGraph P) (p c : Kind) (sl id : String) (x : Props P) (h : slotOf p c = some sl)
    (hp : p ≠ "interface") (hn : G.node id = [(classOf p, x)]) : ParentOk G (some id) c := by
  intro q hq ck hck hrel
  cases hq
  rw [hn]
  rcases slotOf_cases p c sl h with ⟨rfl, rfl⟩ | ⟨rfl, rfl⟩ | ⟨rfl, rfl⟩ | ⟨rfl, rfl⟩ | ⟨rfl, rfl⟩ <;>
    simp [slotKinds, slotsOf] at hck <;> (try subst hck) <;> first | (simp [classOf]; done) | exact absurd rfl hp | (exfalso; revert hrel; decide)

theorem mapE_ok {α β : Type} (f : α → Except Err β) (g : α → β) (l : List α) (h : ∀ a ∈ l, f a = .ok (g a)) :
    mapE f l = .ok (l.map g) := by
  induction l with
  | nil => rfl
  | cons a as ih =>
    simp only [mapE, h a (List.mem_cons_self), ih (fun b hb => h b (List.mem_cons_of_mem _ hb)), List.map_cons]

theorem builtKids_node (C : Codecs V P) (G : AGraph P) (pid : String) (ks : List (Sliver V)) (h : BuiltKids C G pid ks) :
    ∀ c ∈ ks, G.node (idOf c) = [(classOf c.kind, toProps C (tableOf c.kind) c.fields)] := by
  induction ks with
  | nil => intro c hc; cases hc
  | cons c0 cs ih =>
    simp only [BuiltKids] at h
    intro c hc
    rcases List.mem_cons.mp hc with rfl | hc
    · cases c with
      | mk k nid f ks' => simp only [Built] at h; simpa [idOf, Sliver.nodeId, Sliver.kind, Sliver.fields] using h.1.1
    · exact ih h.2 c hc

/-- `get_first_neighbor` at a built element: exactly the children of the requested kind, in order -/
theorem neighbors_built (G : AGraph P) (id : String) (k : Kind) (p : Option String) (ks : List (Sliver V)) (ck : Kind)
    (hadj : G.adj id = parentEntry k p ++ ks.map entryOf)
    (hnode : ∀ c ∈ ks, ∃ x, G.node (idOf c) = [(classOf c.kind, x)])
    (hslot : ∀ c ∈ ks, (slotOf k c.kind).isSome = true)
    (hck : ck ∈ slotKinds k) (hpar : ParentOk G p k) :
    neighbors G id (relOf ck) (classOf ck) = (ks.filter (fun c => c.kind == ck)).map idOf := by
  unfold neighbors
  rw [hadj, List.filter_append, List.map_append, List.filter_append]
  have hparent : (((parentEntry k p).filter (fun e => e.1 == relOf ck)).map (·.2)).filter
      (fun i => (G.node i).any (fun n => n.1 == classOf ck)) = [] := by
    cases p with
    | none => simp [parentEntry]
    | some q =>
      simp only [parentEntry, List.filter_cons, List.filter_nil]
      split
      · rename_i hr
        simp only [List.map_cons, List.map_nil, List.filter_cons, List.filter_nil]
        rw [hpar q rfl ck hck (by simpa using hr)]
        simp
      · simp
  rw [hparent, List.nil_append]
  clear hadj hparent
  induction ks with
  | nil => simp
  | cons c cs ih =>
    have ihc := ih (fun d hd => hnode d (List.mem_cons_of_mem _ hd)) (fun d hd => hslot d (List.mem_cons_of_mem _ hd))
    obtain ⟨x, hx⟩ := hnode c (List.mem_cons_self)
    obtain ⟨sl, hsl⟩ := Option.isSome_iff_exists.mp (hslot c (List.mem_cons_self))
    have hm := kind_match k c.kind ck sl hsl hck
    simp only [List.map_cons, List.filter_cons, entryOf]
    by_cases hk : (c.kind == ck) = true
    · rw [hk] at hm
      simp only [Bool.and_eq_true] at hm
      simp only [hm.1, hk, if_true, List.map_cons, List.filter_cons, hx, List.any_cons, List.any_nil, hm.2, Bool.or_false]
      rw [ihc]
    · have hk' : (c.kind == ck) = false := by simpa using hk
      rw [hk'] at hm
      simp only [hk', Bool.false_eq_true, if_false]
      by_cases hr : (relOf c.kind == relOf ck) = true
      · have hc : (classOf c.kind == classOf ck) = false := by
          rw [hr] at hm; simpa using hm
        simp only [hr, if_true, List.map_cons, List.filter_cons, hx, List.any_cons, List.any_nil, hc, Bool.or_false,
          Bool.false_eq_true, if_false]
        exact ihc
      · simp only [hr]
        exact ihc


end

/-! ### what the graph path gives back, and the proof that it does -/

section
set_option linter.unusedSectionVars false
variable {V P : Type} [DecidableEq V]

/-- a sub-interface as `build_deep_interface_sliver` rebuilds it: flat -/
def flat (c : Sliver V) : Sliver V := .mk "interface" (some (idOf c)) (restrict (tableOf "interface") c.fields) []

/-- children grouped by kind in the order the `build_deep_*` functions read them (components, then services) -/
def regroup (k : Kind) (l : List (Sliver V)) : List (Sliver V) :=
  (slotKinds k).flatMap fun ck => l.filter (fun c => c.kind == ck)

mutual
/-- the sliver the model graph gives back: node id kept, the rebuilt fields, children regrouped by kind and rebuilt
recursively; below an interface only a `DedicatedPort` has children, and those are flat -/
def gnorm (C : Codecs V P) : Sliver V → Sliver V
  | .mk k nid f ks => .mk k (some (nid.getD "")) (restrict (tableOf k) f)
      (if k == "interface" then (if ((restrict (tableOf k) f) "type").any C.isDedicated then ks.map flat else [])
       else regroup k (gnormKids C ks))
def gnormKids (C : Codecs V P) : List (Sliver V) → List (Sliver V)
  | [] => []
  | c :: cs => gnorm C c :: gnormKids C cs
end

theorem gnormKids_eq_map (C : Codecs V P) (ks : List (Sliver V)) : gnormKids C ks = ks.map (gnorm C) := by
  induction ks with
  | nil => rfl
  | cons c cs ih => simp [gnormKids, ih]

theorem gnorm_kind (C : Codecs V P) (s : Sliver V) : (gnorm C s).kind = s.kind := by
  cases s; simp [gnorm, Sliver.kind]

theorem gnorm_fields (C : Codecs V P) (s : Sliver V) : (gnorm C s).fields = restrict (tableOf s.kind) s.fields := by
  cases s; simp [gnorm, Sliver.kind, Sliver.fields]

theorem wf_tableOK (C : Codecs V P) (s : Sliver V) (h : WF C s) : tableOK (tableOf s.kind) = true := by
  cases s; simp only [WF] at h; exact h.1

theorem gnorm_key (C : Codecs V P) (s : Sliver V) (h : WF C s) : keyOf (gnorm C s) = keyOf s := by
  unfold keyOf nameOf
  rw [gnorm_kind, gnorm_fields]
  unfold restrict
  rw [if_pos (tableOK_has_name (wf_tableOK C s h))]

theorem gnorm_childOk (C : Codecs V P) (s : Sliver V) (h : WF C s) : childOk (gnorm C s) = childOk s := by
  unfold childOk
  rw [gnorm_kind, gnorm_fields]
  unfold restrict
  rw [if_pos (tableOK_has_name (wf_tableOK C s h)), if_pos (tableOK_has_type (wf_tableOK C s h))]

theorem flat_key (C : Codecs V P) (c : Sliver V) (hk : c.kind = "interface") (h : WF C c) : keyOf (flat c) = keyOf c := by
  have ht := wf_tableOK C c h
  rw [hk] at ht
  cases c with
  | mk k nid f ks =>
    simp only [Sliver.kind] at hk
    subst hk
    simp only [keyOf, nameOf, flat, Sliver.kind, Sliver.fields, restrict, if_pos (tableOK_has_name ht)]

theorem slotKinds_nodup (k : Kind) : (slotKinds k).Nodup := by
  unfold slotKinds slotsOf
  split
  · decide
  · split
    · decide
    · split
      · decide
      · split <;> decide

theorem regroup_nodup (kinds : List Kind) (l : List (Sliver V)) (hk : kinds.Nodup) (hl : (l.map keyOf).Nodup) :
    ((kinds.flatMap fun ck => l.filter (fun c => c.kind == ck)).map keyOf).Nodup := by
  induction kinds with
  | nil => simp
  | cons ck rest ih =>
    simp only [List.nodup_cons] at hk
    simp only [List.flatMap_cons, List.map_append]
    refine List.nodup_append.mpr ⟨?_, ih hk.2, ?_⟩
    · exact hl.sublist ((List.filter_sublist).map keyOf)
    · intro a ha b hb hab
      obtain ⟨x, hx, rfl⟩ := List.mem_map.mp ha
      obtain ⟨y, hy, rfl⟩ := List.mem_map.mp hb
      obtain ⟨ck', hck', hy'⟩ := List.mem_flatMap.mp hy
      have h1 : x.kind = ck := by simpa using (List.mem_filter.mp hx).2
      have h2 : y.kind = ck' := by simpa using (List.mem_filter.mp hy').2
      have : x.kind = y.kind := congrArg Prod.fst hab
      exact hk.1 (by rw [← h1, this, h2]; exact hck')

theorem mapE_map_ok {α β γ : Type} (f : β → Except Err γ) (h : α → β) (g : α → γ) (l : List α)
    (hl : ∀ a ∈ l, f (h a) = .ok (g a)) : mapE f (l.map h) = .ok (l.map g) := by
  induction l with
  | nil => rfl
  | cons a as ih =>
    simp only [List.map_cons, mapE, hl a (List.mem_cons_self), ih (fun b hb => hl b (List.mem_cons_of_mem _ hb))]

theorem wfKids_mem (C : Codecs V P) (pk : Kind) (ks : List (Sliver V)) (h : WFKids C pk ks) :
    ∀ c ∈ ks, (slotOf pk c.kind).isSome = true ∧ childOk c = true ∧ WF C c := by
  induction ks with
  | nil => intro c hc; cases hc
  | cons c0 cs ih =>
    simp only [WFKids] at h
    intro c hc
    rcases List.mem_cons.mp hc with rfl | hc
    · exact ⟨h.1, h.2.1, h.2.2.1⟩
    · exact ih h.2.2.2 c hc

/-- the children read through `buildSlots`, given that every child rebuilds to its `gnorm` -/
theorem buildSlots_ok (C : Codecs V P) (G : AGraph P) (rec : Kind → String → Except Err (Sliver V)) (id : String) (k : Kind)
    (p : Option String) (ks : List (Sliver V))
    (hadj : G.adj id = parentEntry k p ++ ks.map entryOf)
    (hnode : ∀ c ∈ ks, ∃ x, G.node (idOf c) = [(classOf c.kind, x)])
    (hwf : WFKids C k ks) (hpar : ParentOk G p k)
    (hrec : ∀ c ∈ ks, rec c.kind (idOf c) = .ok (gnorm C c))
    (slots : List (String × Kind)) (hsl : ∀ sc ∈ slots, sc.2 ∈ slotKinds k) :
    buildSlots rec G id slots =
      .ok ((slots.map (·.2)).flatMap fun ck => (gnormKids C ks).filter (fun c => c.kind == ck)) := by
  have hm := wfKids_mem C k ks hwf
  induction slots with
  | nil => rfl
  | cons sc rest ih =>
    have hck := hsl sc (List.mem_cons_self)
    have hn := neighbors_built G id k p ks sc.2 hadj hnode (fun c hc => (hm c hc).1) hck hpar
    have hmap : mapE (rec sc.2) ((ks.filter (fun c => c.kind == sc.2)).map idOf) =
        .ok ((ks.filter (fun c => c.kind == sc.2)).map (gnorm C)) := by
      apply mapE_map_ok
      intro c hc
      have hc' := List.mem_filter.mp hc
      have hk : c.kind = sc.2 := by simpa using hc'.2
      rw [← hk]
      exact hrec c hc'.1
    have hall : ((ks.filter (fun c => c.kind == sc.2)).map (gnorm C)).all childOk = true := by
      simp only [List.all_eq_true, List.mem_map]
      rintro x ⟨c, hc, rfl⟩
      have hc' := (List.mem_filter.mp hc).1
      rw [gnorm_childOk C c (hm c hc').2.2]
      exact (hm c hc').2.1
    have hfm : (ks.filter (fun c => c.kind == sc.2)).map (gnorm C) = (gnormKids C ks).filter (fun c => c.kind == sc.2) := by
      rw [gnormKids_eq_map, List.filter_map]
      congr 1
      apply List.filter_congr
      intro c _
      simp [gnorm_kind]
    rw [hfm] at hmap hall
    simp only [buildSlots, buildSlot, hn, hmap, hall, if_true, ih (fun s hs => hsl s (List.mem_cons_of_mem _ hs)),
      List.map_cons, List.flatMap_cons]


theorem shapedKids_mem (pk : Kind) (ks : List (Sliver V)) (h : ShapedKids pk ks) :
    ∀ c ∈ ks, (slotOf pk c.kind).isSome = true ∧ Shaped c := by
  induction ks with
  | nil => intro c hc; cases hc
  | cons c0 cs ih =>
    simp only [ShapedKids] at h
    intro c hc
    rcases List.mem_cons.mp hc with rfl | hc
    · exact ⟨h.1, h.2.1⟩
    · exact ih h.2.2 c hc

theorem wf_parts (C : Codecs V P) (s : Sliver V) (h : WF C s) :
    tableOK (tableOf s.kind) = true ∧ FieldLaw C (tableOf s.kind) s.fields ∧ FateShared (tableOf s.kind) s.fields ∧
    Required (tableOf s.kind) s.fields := by
  cases s; simp only [WF] at h; exact ⟨h.1, h.2.1, h.2.2.1, h.2.2.2.1⟩

theorem keys_gnormKids (C : Codecs V P) (pk : Kind) (ks : List (Sliver V)) (h : WFKids C pk ks) :
    (gnormKids C ks).map keyOf = ks.map keyOf := by
  rw [gnormKids_eq_map, List.map_map]
  apply List.map_congr_left
  intro c hc
  exact gnorm_key C c (wfKids_mem C pk ks h c hc).2.2

mutual
theorem build_built (C : Codecs V P) (G : AGraph P) : ∀ (s : Sliver V) (p : Option String) (fuel : Nat),
    Built C G p s → Shaped s → WF C s → ParentOk G p s.kind → rank s.kind ≤ fuel →
    buildDeep C G fuel s.kind (idOf s) = .ok (gnorm C s)
  | .mk k nid f ks, p, fuel, hb, hs, hw, hpar, hr => by
    simp only [Shaped] at hs
    obtain ⟨id, rfl⟩ := Option.isSome_iff_exists.mp hs.1
    simp only [Built, Option.getD_some] at hb
    simp only [WF] at hw
    obtain ⟨hT, hlaw, hfate, hreq, hwk, hnd⟩ := hw
    simp only [Sliver.kind] at hpar hr
    cases fuel with
    | zero => have := rank_pos k; omega
    | succ n =>
      have hfp := fromProps_toProps C (tableOf k) f hT hlaw hfate hreq
      have hfind : findNode G id = .ok (classOf k, toProps C (tableOf k) f) := by simp [findNode, hb.1]
      have hknode := builtKids_node C G id ks hb.2.2
      have hknode' : ∀ c ∈ ks, ∃ x, G.node (idOf c) = [(classOf c.kind, x)] := fun c hc => ⟨_, hknode c hc⟩
      have hwm := wfKids_mem C k ks hwk
      by_cases hi : k = "interface"
      · subst hi
        by_cases hd : ((restrict (tableOf "interface") f) "type").any C.isDedicated = true
        · have hall : ∀ c ∈ ks, c.kind = "interface" := by
            intro c hc
            obtain ⟨sl, hsl⟩ := Option.isSome_iff_exists.mp (hwm c hc).1
            rcases slotOf_cases _ _ sl hsl with ⟨h, _⟩ | ⟨h, _⟩ | ⟨h, _⟩ | ⟨h, _⟩ | ⟨_, h⟩ <;> first | exact h | (exfalso; revert h; decide)
          have hn := neighbors_built G id "interface" p ks "interface" hb.2.1 hknode' (fun c hc => (hwm c hc).1)
            (by decide) hpar
          have hfilt : ks.filter (fun c => c.kind == "interface") = ks := by
            apply List.filter_eq_self.mpr
            intro c hc; simp [hall c hc]
          rw [hfilt] at hn
          have hrel : relOf "interface" = "connects" := by decide
          have hcls : classOf "interface" = "ConnectionPoint" := by decide
          rw [hrel, hcls] at hn
          have hmap : mapE (flatIface C G) (ks.map idOf) = .ok (ks.map flat) := by
            apply mapE_map_ok
            intro c hc
            have hk := hall c hc
            have hp := wf_parts C c (hwm c hc).2.2
            rw [hk] at hp
            have := hknode c hc
            rw [hk] at this
            simp only [flatIface, findNode, this, fromProps_toProps C _ _ hp.1 hp.2.1 hp.2.2.1 hp.2.2.2, flat]
          have hkeys : ((ks.map flat).map keyOf).Nodup := by
            rw [List.map_map]
            have : ks.map (keyOf ∘ flat) = ks.map keyOf :=
              List.map_congr_left (fun c hc => flat_key C c (hall c hc) (hwm c hc).2.2)
            rw [this]; exact hnd
          simp only [Sliver.kind, idOf, Sliver.nodeId, Option.getD_some, buildDeep, hfind, hfp, gnorm, hd, hn, hmap,
            dedupe_nodup _ hkeys, bne_self_eq_false, Bool.false_and, Bool.false_eq_true, if_false, beq_self_eq_true, if_true]
        · simp only [Sliver.kind, idOf, Sliver.nodeId, Option.getD_some, buildDeep, hfind, hfp, gnorm, hd,
            bne_self_eq_false, Bool.false_and, Bool.false_eq_true, if_false, beq_self_eq_true, if_true, dedupe, List.foldl_nil]
      · have hkids := build_kids C G ks id k (toProps C (tableOf k) f) n hb.2.2 hs.2 hwk hi hb.1 hr
        have hslots := buildSlots_ok C G (buildDeep C G n) id k p ks hb.2.1 hknode' hwk hpar hkids (slotsOf k)
          (fun sc hsc => List.mem_map.mpr ⟨sc, hsc, rfl⟩)
        have hi' : (k == "interface") = false := by simpa using hi
        have hkeys : ((regroup k (gnormKids C ks)).map keyOf).Nodup := by
          unfold regroup
          apply regroup_nodup _ _ (slotKinds_nodup k)
          rw [keys_gnormKids C k ks hwk]; exact hnd
        simp only [Sliver.kind, idOf, Sliver.nodeId, Option.getD_some, buildDeep, hfind, hfp, gnorm, hi', hslots,
          bne_self_eq_false, Bool.false_and, Bool.false_eq_true, if_false]
        change Except.ok (Sliver.mk k (some id) (restrict (tableOf k) f) (dedupe (regroup k (gnormKids C ks)))) = _
        rw [dedupe_nodup _ hkeys]
theorem build_kids (C : Codecs V P) (G : AGraph P) : ∀ (ks : List (Sliver V)) (pid : String) (pk : Kind) (x : Props P) (n : Nat),
    BuiltKids C G pid ks → ShapedKids pk ks → WFKids C pk ks → pk ≠ "interface" → G.node pid = [(classOf pk, x)] →
    rank pk ≤ n + 1 → ∀ c ∈ ks, buildDeep C G n c.kind (idOf c) = .ok (gnorm C c)
  | [], _, _, _, _, _, _, _, _, _, _ => by intro c hc; cases hc
  | c0 :: cs, pid, pk, x, n, hb, hs, hw, hpk, hnode, hr => by
    simp only [BuiltKids] at hb
    simp only [ShapedKids] at hs
    simp only [WFKids] at hw
    intro c hc
    rcases List.mem_cons.mp hc with h | hc
    · rw [h]
      obtain ⟨sl, hsl⟩ := Option.isSome_iff_exists.mp hs.1
      have hrk := rank_child pk c0.kind sl hsl hpk
      exact build_built C G c0 (some pid) n hb.1 hs.2.1 hw.2.2.1 (parentOk_child G pk c0.kind sl pid x hsl hpk hnode) (by omega)
    · exact build_kids C G cs pid pk x n hb.2 hs.2.2 hw.2.2.2 hpk hnode hr c hc
end


/-! ### regrouping by kind is a permutation -/

theorem filter_split_perm {α : Type} (p q : α → Bool) (l : List α) (hd : ∀ a ∈ l, ¬ (p a = true ∧ q a = true)) :
    (l.filter p ++ l.filter q).Perm (l.filter (fun a => p a || q a)) := by
  induction l with
  | nil => simp
  | cons a as ih =>
    have iha := ih (fun b hb => hd b (List.mem_cons_of_mem _ hb))
    have ha := hd a (List.mem_cons_self)
    cases hp : p a <;> cases hq : q a
    · simpa [List.filter_cons, hp, hq] using iha
    · simp only [List.filter_cons, hp, hq, Bool.false_eq_true, if_false, if_true, Bool.or_true]
      exact (List.perm_middle).trans (iha.cons a)
    · simp only [List.filter_cons, hp, hq, Bool.false_eq_true, if_false, if_true, Bool.or_false, List.cons_append]
      exact iha.cons a
    · exact absurd ⟨hp, hq⟩ ha

theorem regroup_kinds_perm (kinds : List Kind) (l : List (Sliver V)) (hk : kinds.Nodup) :
    (kinds.flatMap fun ck => l.filter (fun c => c.kind == ck)).Perm (l.filter (fun c => kinds.contains c.kind)) := by
  induction kinds with
  | nil => simp
  | cons ck rest ih =>
    simp only [List.nodup_cons] at hk
    simp only [List.flatMap_cons]
    refine ((ih hk.2).append_left _).trans ?_
    refine (filter_split_perm _ _ l ?_).trans ?_
    · intro a _ h
      have h1 : a.kind = ck := by simpa using h.1
      have h2 : a.kind ∈ rest := by simpa using h.2
      exact hk.1 (h1 ▸ h2)
    · apply List.Perm.of_eq
      apply List.filter_congr
      intro a _
      simp
      constructor <;> (intro h; rcases h with h | h <;> simp [h])

/-- regrouping by kind only reorders the children of an element whose children are all of a kind it can contain -/
theorem regroup_perm (k : Kind) (l : List (Sliver V)) (h : ∀ c ∈ l, c.kind ∈ slotKinds k) : (regroup k l).Perm l := by
  unfold regroup
  refine (regroup_kinds_perm (slotKinds k) l (slotKinds_nodup k)).trans ?_
  apply List.Perm.of_eq
  apply List.filter_eq_self.mpr
  intro c hc
  simpa using h c hc

theorem slotOf_mem_slotKinds (p c : Kind) (sl : String) (h : slotOf p c = some sl) : c ∈ slotKinds p := by
  rcases slotOf_cases p c sl h with ⟨rfl, rfl⟩ | ⟨rfl, rfl⟩ | ⟨rfl, rfl⟩ | ⟨rfl, rfl⟩ | ⟨rfl, rfl⟩ <;> decide

end

section
variable {V P : Type}
end
end FimVerif.C02
