import FimVerif.Model.GraphML
/-! Helper lemmas for C01: `mapE`, key allocation / lookup, data decoding, attribute dicts. -/
namespace FimVerif.C01
open FimVerif.GraphML

theorem mapE_ok_map {α β ε : Type} (f : α → Except ε β) (g : α → β) :
    ∀ (l : List α), (∀ a ∈ l, f a = .ok (g a)) → mapE f l = .ok (l.map g)
  | [], _ => rfl
  | a :: t, h => by
    have h1 := h a List.mem_cons_self
    have h2 := mapE_ok_map f g t (fun x hx => h x (List.mem_cons_of_mem _ hx))
    simp [mapE, h1, h2]

theorem mapE_map_ok {α β ε : Type} (f : β → Except ε α) (m : α → β) :
    ∀ (l : List α), (∀ a ∈ l, f (m a) = .ok a) → mapE f (l.map m) = .ok l
  | [], _ => rfl
  | a :: t, h => by
    have h1 := h a List.mem_cons_self
    have h2 := mapE_map_ok f m t (fun x hx => h x (List.mem_cons_of_mem _ hx))
    simp [mapE, h1, h2]

theorem mapE_mem {α β ε : Type} (f : α → Except ε β) : ∀ (l : List α) (l' : List β), mapE f l = .ok l' →
    ∀ b ∈ l', ∃ a ∈ l, f a = .ok b
  | [], l', h, b, hb => by simp [mapE] at h; subst h; cases hb
  | a :: t, l', h, b, hb => by
    unfold mapE at h
    cases hfa : f a with
    | error e => simp [hfa] at h
    | ok b0 =>
      cases hft : mapE f t with
      | error e => simp [hfa, hft] at h
      | ok t' =>
        simp [hfa, hft] at h
        subst h
        rcases List.mem_cons.mp hb with rfl | hb'
        · exact ⟨a, List.mem_cons_self, hfa⟩
        · obtain ⟨x, hx, hfx⟩ := mapE_mem f t t' hft b hb'
          exact ⟨x, List.mem_cons_of_mem _ hx, hfx⟩

/-- if `g` succeeds on `l` giving `l'` and `f` agrees on corresponding elements, `f` can be computed on either -/
theorem mapE_congr_of_ok {α β ε : Type} (g : α → Except ε α) (f : α → Except ε β)
    (hfg : ∀ a a', g a = .ok a' → f a' = f a) :
    ∀ (l l' : List α), mapE g l = .ok l' → mapE f l' = mapE f l
  | [], l', h => by simp [mapE] at h; subst h; rfl
  | a :: t, l', h => by
    unfold mapE at h
    cases hga : g a with
    | error e => simp [hga] at h
    | ok a' =>
      cases hgt : mapE g t with
      | error e => simp [hga, hgt] at h
      | ok t' =>
        simp [hga, hgt] at h
        subst h
        have ih := mapE_congr_of_ok g f hfg t t' hgt
        simp [mapE, hfg a a' hga, ih]

/-! ### attribute dicts -/

theorem Attrs.set_not_mem (a : Attrs) (k : String) (v : Val) (h : k ∉ a.map (·.1)) : Attrs.set a k v = a ++ [(k, v)] := by
  induction a with
  | nil => rfl
  | cons p t ih =>
    obtain ⟨k', v'⟩ := p
    simp only [List.map_cons, List.mem_cons, not_or] at h
    have hne : ¬ (k' = k) := fun e => h.1 e.symm
    simp [Attrs.set, hne, ih h.2]

/-! ### key allocation -/

theorem foldl_allocStep_none (specs : List (Option KeySpec)) : specs.foldl allocStep none = none := by
  induction specs with
  | nil => rfl
  | cons s t ih => simpa [List.foldl, allocStep] using ih

theorem insertKey_nodup (t : List KeySpec) (k : KeySpec) (h : t.Nodup) : (insertKey t k).Nodup := by
  unfold insertKey
  split
  · exact h
  · rename_i hk
    rw [List.nodup_append]
    refine ⟨h, by simp, ?_⟩
    intro a ha b hb
    simp at hb
    subst hb
    intro e
    exact hk (e ▸ ha)

theorem mem_insertKey_self (t : List KeySpec) (k : KeySpec) : k ∈ insertKey t k := by
  unfold insertKey
  split
  · assumption
  · simp

theorem mem_insertKey_of_mem (t : List KeySpec) (k x : KeySpec) (h : x ∈ t) : x ∈ insertKey t k := by
  unfold insertKey
  split
  · exact h
  · simp [h]

theorem alloc_spec : ∀ (specs : List (Option KeySpec)) (t0 tbl : List KeySpec),
    specs.foldl allocStep (some t0) = some tbl → t0.Nodup →
    tbl.Nodup ∧ (∀ k ∈ t0, k ∈ tbl) ∧ ∀ s ∈ specs, ∃ k, s = some k ∧ k ∈ tbl
  | [], t0, tbl, h, hn => by
    simp at h; subst h
    exact ⟨hn, fun _ hk => hk, fun s hs => by cases hs⟩
  | s :: rest, t0, tbl, h, hn => by
    cases s with
    | none =>
      simp [List.foldl, allocStep, foldl_allocStep_none] at h
    | some k =>
      simp only [List.foldl, allocStep] at h
      obtain ⟨h1, h2, h3⟩ := alloc_spec rest (insertKey t0 k) tbl h (insertKey_nodup t0 k hn)
      refine ⟨h1, fun x hx => h2 x (mem_insertKey_of_mem t0 k x hx), ?_⟩
      intro s hs
      rcases List.mem_cons.mp hs with rfl | hs'
      · exact ⟨k, rfl, h2 k (mem_insertKey_self t0 k)⟩
      · exact h3 s hs'

theorem allocKeys_spec (specs : List (Option KeySpec)) (tbl : List KeySpec) (h : allocKeys specs = some tbl) :
    tbl.Nodup ∧ ∀ s ∈ specs, ∃ k, s = some k ∧ k ∈ tbl := by
  obtain ⟨h1, _, h3⟩ := alloc_spec specs [] tbl h List.nodup_nil
  exact ⟨h1, h3⟩

/-! ### key lookup -/

theorem find_zipIdx (k : KeySpec) : ∀ (l : List KeySpec) (n : Nat), k ∈ l →
    ((l.zipIdx n).map fun p => (⟨p.2, p.1⟩ : GKey)).find? (fun x => x.id == n + l.idxOf k) = some ⟨n + l.idxOf k, k⟩
  | [], _, h => by cases h
  | x :: xs, n, h => by
    by_cases hx : x = k
    · subst hx
      simp [List.zipIdx_cons]
    · have hk : k ∈ xs := by
        rcases List.mem_cons.mp h with e | e
        · exact absurd e.symm hx
        · exact e
      have ih := find_zipIdx k xs (n + 1) hk
      have hbeq : (x == k) = false := by simpa using hx
      simp only [List.zipIdx_cons, List.map_cons, List.idxOf_cons, hbeq, cond_false]
      rw [List.find?_cons_of_neg]
      · have e : n + (xs.idxOf k + 1) = n + 1 + xs.idxOf k := by omega
        rw [e]; exact ih
      · simp

theorem lookupKey_docKeys (tbl : List KeySpec) (k : KeySpec) (h : k ∈ tbl) :
    lookupKey (docKeys tbl) (tbl.idxOf k) = some k := by
  unfold lookupKey docKeys
  rw [List.reverse_reverse]
  have := find_zipIdx k tbl 0 h
  simp only [Nat.zero_add] at this
  rw [this]; rfl

/-! ### data decoding -/

theorem decodeVal_of_xmlType (v : Val) (t : KTy) (h : xmlType v = some t) : decodeVal t v = .ok v := by
  cases v <;> simp [xmlType] at h <;> subst h <;> simp [decodeVal]

theorem decodeDataFrom_dataOf (tbl : List KeySpec) (sc : Scope) : ∀ (a acc : Attrs),
    (∀ p ∈ a, ∃ t, xmlType p.2 = some t ∧ (⟨p.1, t, sc⟩ : KeySpec) ∈ tbl) →
    (a.map (·.1)).Nodup → (∀ p ∈ a, p.1 ∉ acc.map (·.1)) →
    decodeDataFrom (docKeys tbl) acc (dataOf tbl sc a) = .ok (acc ++ a)
  | [], acc, _, _, _ => by simp [dataOf, decodeDataFrom]
  | p :: rest, acc, hs, hn, hd => by
    obtain ⟨t, ht, hmem⟩ := hs p List.mem_cons_self
    have hn' := List.nodup_cons.mp hn
    have hset := Attrs.set_not_mem acc p.1 p.2 (hd p List.mem_cons_self)
    have ih := decodeDataFrom_dataOf tbl sc rest (acc ++ [p])
      (fun q hq => hs q (List.mem_cons_of_mem _ hq)) hn'.2
      (by
        intro q hq
        simp only [List.map_append, List.map_cons, List.map_nil, List.mem_append, List.mem_singleton, not_or]
        refine ⟨hd q (List.mem_cons_of_mem _ hq), ?_⟩
        intro e
        apply hn'.1
        show p.1 ∈ List.map (fun x => x.fst) rest
        rw [← e]
        exact List.mem_map_of_mem hq)
    simp only [dataOf, List.map_cons, decodeDataFrom, ht, Option.getD_some]
    rw [lookupKey_docKeys tbl _ hmem]
    simp only [decodeVal_of_xmlType p.2 t ht]
    rw [hset]
    simp only [dataOf] at ih
    rw [ih]
    simp

theorem decodeData_dataOf (tbl : List KeySpec) (sc : Scope) (a : Attrs)
    (hs : ∀ p ∈ a, ∃ t, xmlType p.2 = some t ∧ (⟨p.1, t, sc⟩ : KeySpec) ∈ tbl)
    (hn : (a.map (·.1)).Nodup) : decodeData (docKeys tbl) (dataOf tbl sc a) = .ok a := by
  have := decodeDataFrom_dataOf tbl sc a [] hs hn (by simp)
  simpa [decodeData] using this

/-- every attribute of an element whose specs were allocated has its spec in the table -/
theorem specs_in_table (tbl : List KeySpec) (sc : Scope) (a : Attrs) (specs : List (Option KeySpec))
    (hsub : ∀ s ∈ specsOf sc a, s ∈ specs) (hall : ∀ s ∈ specs, ∃ k, s = some k ∧ k ∈ tbl) :
    ∀ p ∈ a, ∃ t, xmlType p.2 = some t ∧ (⟨p.1, t, sc⟩ : KeySpec) ∈ tbl := by
  intro p hp
  have hm : (xmlType p.2).map (fun t => (⟨p.1, t, sc⟩ : KeySpec)) ∈ specsOf sc a := by
    unfold specsOf
    exact List.mem_map_of_mem (f := fun p : String × Val => (xmlType p.2).map fun t => (⟨p.1, t, sc⟩ : KeySpec)) hp
  obtain ⟨k, hk, hkt⟩ := hall _ (hsub _ hm)
  cases hx : xmlType p.2 with
  | none => simp [hx] at hk
  | some t =>
    simp [hx] at hk
    exact ⟨t, rfl, hk ▸ hkt⟩

/-! ### node-link objects -/

theorem JObj.set_not_mem {κ : Type} (o : JObj κ) (k : String) (x : JV κ) (h : k ∉ o.map (·.1)) :
    JObj.set o k x = o ++ [(k, x)] := by
  induction o with
  | nil => rfl
  | cons p t ih =>
    obtain ⟨k', v'⟩ := p
    simp only [List.map_cons, List.mem_cons, not_or] at h
    have hne : ¬ (k' = k) := fun e => h.1 e.symm
    simp [JObj.set, hne, ih h.2]

theorem attrsObj_keys {κ : Type} (a : Attrs) : (attrsObj (κ := κ) a).map (·.1) = a.map (·.1) := by
  simp [attrsObj]

theorem lookup_attrsObj_append {κ : Type} (k : String) (rest : JObj κ) : ∀ (a : Attrs), k ∉ a.map (·.1) →
    (attrsObj a ++ rest).lookup k = rest.lookup k
  | [], _ => rfl
  | p :: t, h => by
    simp only [List.map_cons, List.mem_cons, not_or] at h
    have ih := lookup_attrsObj_append k rest t h.2
    have hne : (k == p.1) = false := by simpa using h.1
    simp only [attrsObj, List.map_cons, List.cons_append, List.lookup_cons, hne]
    exact ih

theorem filter_attrsObj {κ : Type} (reserved : List String) : ∀ (a : Attrs), (∀ r ∈ reserved, r ∉ a.map (·.1)) →
    (attrsObj (κ := κ) a).filter (fun p => !(reserved.contains p.1)) = attrsObj a := by
  intro a h
  rw [List.filter_eq_self]
  intro p hp
  simp only [attrsObj, List.mem_map] at hp
  obtain ⟨q, hq, rfl⟩ := hp
  simp only [Bool.not_eq_true', List.contains_eq_mem, decide_eq_false_iff_not]
  intro hm
  exact h q.1 hm (List.mem_map_of_mem hq)

theorem mapE_attrsObj {κ : Type} (a : Attrs) :
    mapE (fun p : String × JV κ => match p.2 with
      | .v v => (.ok (p.1, v) : Except String (String × Val))
      | .k _ => .error "unsupported") (attrsObj a) = .ok a := by
  unfold attrsObj
  apply mapE_map_ok
  intro p _
  rfl

end FimVerif.C01
