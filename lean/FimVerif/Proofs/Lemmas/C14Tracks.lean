import FimVerif.Proofs.Lemmas.C14UnStep
namespace FimVerif.Cbm

/-! ### the invariant of a combined model: what it is in terms of the models currently merged into it -/

/-- `c` is a combined model whose contributing models are exactly `live` (in the order they were merged); every piece
of element / connection data comes from a model of `pool`. -/
structure Tracks (pool : List Adm) (c : Graph) (live : List Adm) : Prop where
  wf : c.WF
  sub : ∀ a ∈ live, a ∈ pool
  awf : ∀ a ∈ live, a.WF
  nonempty : ∀ a ∈ live, a.g.nodes ≠ []
  ids : (live.map (·.id)).Nodup
  compat : live.Pairwise (fun a b => clash a b = false)
  has : ∀ i, c.has i = live.any (fun a => a.g.has i)
  prov : ∀ i, c.provOf i = contributors live i
  ldel : ∀ i, (c.ldelOf i).norm = firstLive (live.map (speakL · i))
  cdel : ∀ i, (c.cdelOf i).norm = firstLive (live.map (speakC · i))
  edges : ∀ x y, live.any (fun a => a.g.hasEdge x y) = true → c.hasEdge x y = true
  propsFrom : ∀ i p, c.propsOf i = some p → ∃ a ∈ pool, a.g.propsOf i = some p
  edgesFrom : ∀ x y p, c.edgeData x y = some p → ∃ a ∈ pool, a.g.edgeData x y = some p

theorem Tracks.empty (pool : List Adm) : Tracks pool Graph.empty [] :=
  ⟨Graph.empty_WF, by simp, by simp, by simp, by simp, List.Pairwise.nil, fun _ => rfl, fun _ => rfl, fun _ => rfl, fun _ => rfl,
   by simp, by simp [Graph.propsOf, Graph.node?, Graph.empty], by simp [Graph.edgeData, Graph.edge?, Graph.empty]⟩

theorem Deleg.norm_live (d : Deleg) : d.norm.live = d.live := by cases d <;> rfl

theorem firstLive_live_of_mem {l : List Deleg} {d : Deleg} (hd : d ∈ l) (hl : d.live = true) : (firstLive l).live = true := by
  unfold firstLive
  cases hf : l.find? Deleg.live with
  | none => exact absurd hl (by simpa using List.find?_eq_none.mp hf d hd)
  | some e => simpa using List.find?_some hf

theorem firstLive_append_singleton (l : List Deleg) (t : Deleg) : firstLive (l ++ [t]) = (firstLive l).take t := by
  unfold firstLive
  rw [List.find?_append]
  cases hf : l.find? Deleg.live with
  | some e => have := List.find?_some hf; simp [Deleg.take, this]
  | none =>
    have ha : Deleg.absent.live = false := rfl
    cases ht : t.live <;> simp [Deleg.take, ha, ht]

theorem Deleg.rk_ne_emptied (d : Deleg) (aid : String) : d.rk aid ≠ .emptied := by
  cases d with
  | absent => simp [Deleg.rk]
  | emptied => simp [Deleg.rk]
  | dict l =>
    match l with
    | [] => simp [Deleg.rk]
    | [(k, v)] => simp [Deleg.rk]
    | _ :: _ :: _ => simp [Deleg.rk]

theorem Deleg.norm_take (c t : Deleg) (ht : t ≠ .emptied) : (c.take t).norm = c.norm.take t := by
  cases c <;> cases t <;> simp_all [Deleg.take, Deleg.live, Deleg.norm]

theorem contributors_append (l : List Adm) (a : Adm) (i : String) :
    contributors (l ++ [a]) i = contributors l i ++ (if a.g.has i then [a.id] else []) := by
  unfold contributors
  rw [List.filter_append, List.map_append]
  by_cases h : a.g.has i = true <;> simp [h]

/-- merging a model that is not part of the combined model keeps the invariant -/
theorem Tracks.merge {pool : List Adm} {c : Graph} {live : List Adm} {a : Adm} {g : Graph} (t : Tracks pool c live)
    (hp : a ∈ pool) (ha : a.WF) (hid : ∀ b ∈ live, b.id ≠ a.id) (hm : mergeN c a = (none, g)) :
    Tracks pool g (live ++ [a]) := by
  have hs := merge_step t.wf.closed hm
  refine ⟨merge_WF t.wf ha hm, ?_, ?_, ?_, ?_, ?_, ?_, ?_, ?_, ?_, ?_, ?_, ?_⟩
  · intro b hb
    rcases List.mem_append.mp hb with h | h
    · exact t.sub b h
    · simp at h; subst h; exact hp
  · intro b hb
    rcases List.mem_append.mp hb with h | h
    · exact t.awf b h
    · simp at h; subst h; exact ha
  · intro b hb
    rcases List.mem_append.mp hb with h | h
    · exact t.nonempty b h
    · simp at h; subst h; exact hs.nonempty
  · rw [List.map_append, List.map_singleton]
    refine List.nodup_append.mpr ⟨t.ids, by simp, ?_⟩
    intro x hx y hy hxy
    simp at hy; subst hy; subst hxy
    obtain ⟨b, hb, hbe⟩ := List.mem_map.mp hx
    exact hid b hb hbe
  · refine List.pairwise_append.mpr ⟨t.compat, by simp, ?_⟩
    intro b hb a' ha'
    simp at ha'; subst ha'
    rw [clash_false_iff]
    intro i
    unfold clashAt
    have h1 : ((speakL b i).live && (speakL a' i).live) = false := by
      cases hb1 : (speakL b i).live with
      | false => rfl
      | true =>
        have : (firstLive (live.map (speakL · i))).live = true :=
          firstLive_live_of_mem (List.mem_map.mpr ⟨b, hb, rfl⟩) hb1
        rw [← t.ldel, Deleg.norm_live] at this
        have := hs.lnoconf i
        simp_all [speakL]
    have h2 : ((speakC b i).live && (speakC a' i).live) = false := by
      cases hb1 : (speakC b i).live with
      | false => rfl
      | true =>
        have : (firstLive (live.map (speakC · i))).live = true :=
          firstLive_live_of_mem (List.mem_map.mpr ⟨b, hb, rfl⟩) hb1
        rw [← t.cdel, Deleg.norm_live] at this
        have := hs.cnoconf i
        simp_all [speakC]
    rw [h1, h2]; rfl
  · intro i; rw [hs.has, t.has, List.any_append]; simp
  · intro i; rw [hs.prov, t.prov, contributors_append]
  · intro i
    rw [hs.ldel, Deleg.norm_take _ _ (Deleg.rk_ne_emptied _ _), t.ldel, List.map_append, List.map_singleton,
      firstLive_append_singleton]
    rfl
  · intro i
    rw [hs.cdel, Deleg.norm_take _ _ (Deleg.rk_ne_emptied _ _), t.cdel, List.map_append, List.map_singleton,
      firstLive_append_singleton]
    rfl
  · intro x y h
    rw [hs.hasEdge]
    rw [List.any_append] at h
    rcases Bool.or_eq_true_iff.mp h with h | h
    · rw [t.edges x y h]; rfl
    · simp at h; rw [h]; simp
  · intro i p h
    rw [hs.props] at h
    cases hc : c.propsOf i with
    | some q => rw [hc] at h; simp at h; subst h; exact t.propsFrom i q hc
    | none => rw [hc] at h; simp at h; exact ⟨a, hp, h⟩
  · intro x y p h
    rw [hs.edgeData] at h
    cases hc : c.edgeData x y with
    | some q => rw [hc] at h; simp at h; subst h; exact t.edgesFrom x y q hc
    | none => rw [hc] at h; simp at h; exact ⟨a, hp, h⟩


/-! unmerge -/

theorem contributors_filter (live : List Adm) (gid : String) (i : String) :
    contributors (live.filter (fun a => a.id != gid)) i = (contributors live i).filter (fun x => x != gid) := by
  unfold contributors
  rw [List.filter_map, List.filter_filter, List.filter_filter]
  congr 1
  apply List.filter_congr
  intro a _
  simp [Bool.and_comm]

theorem contributors_nodup {live : List Adm} (h : (live.map (·.id)).Nodup) (i : String) : (contributors live i).Nodup := by
  unfold contributors
  exact List.Pairwise.map _ (fun _ _ h => h) (List.Pairwise.filter _ (List.pairwise_map.mp h))

theorem any_has_eq (live : List Adm) (i : String) : live.any (fun a => a.g.has i) = !(contributors live i).isEmpty := by
  unfold contributors
  induction live with
  | nil => rfl
  | cons a l ih => rw [List.any_cons, List.filter_cons]; cases a.g.has i <;> simp [ih]

theorem speakL_form {a : Adm} {i : String} (h : (speakL a i).live = true) : ∃ v, speakL a i = .dict [(a.id, v)] := by
  unfold speakL at h ⊢
  cases hd : a.g.ldelOf i with
  | absent => rw [hd] at h; cases h
  | emptied => rw [hd] at h; cases h
  | dict l =>
    match l with
    | [] => rw [hd] at h; cases h
    | [(k, v)] => exact ⟨v, rfl⟩
    | _ :: _ :: _ => rw [hd] at h; cases h

theorem speakC_form {a : Adm} {i : String} (h : (speakC a i).live = true) : ∃ v, speakC a i = .dict [(a.id, v)] := by
  unfold speakC at h ⊢
  cases hd : a.g.cdelOf i with
  | absent => rw [hd] at h; cases h
  | emptied => rw [hd] at h; cases h
  | dict l =>
    match l with
    | [] => rw [hd] at h; cases h
    | [(k, v)] => exact ⟨v, rfl⟩
    | _ :: _ :: _ => rw [hd] at h; cases h

theorem firstLive_none {l : List Deleg} (h : l.filter Deleg.live = []) : firstLive l = .absent := by
  rw [firstLive_eq_head, h]; rfl

/-- removing the models with graph id `gid` from the list and erasing `gid`'s entry from the delegation agree -/
theorem un_firstLive (sp : Adm → Deleg) (gid : String) : ∀ (live : List Adm),
    (∀ a ∈ live, (sp a).live = true → ∃ v, sp a = .dict [(a.id, v)]) →
    ((live.map sp).filter Deleg.live).length ≤ 1 →
    ((firstLive (live.map sp)).un gid).norm = firstLive ((live.filter (fun a => a.id != gid)).map sp)
  | [], _, _ => rfl
  | a :: as, h1, h2 => by
    have h1' : ∀ b ∈ as, (sp b).live = true → ∃ v, sp b = .dict [(b.id, v)] := fun b hb => h1 b (by simp [hb])
    rw [List.map_cons, List.filter_cons] at h2
    by_cases ha : (sp a).live = true
    · rw [if_pos ha] at h2
      have hnil : (as.map sp).filter Deleg.live = [] := by
        cases hh : (as.map sp).filter Deleg.live with
        | nil => rfl
        | cons _ _ => rw [hh] at h2; simp at h2
      obtain ⟨v, hv⟩ := h1 a (by simp) ha
      have hfl : firstLive (List.map sp (a :: as)) = sp a := by
        simp [firstLive, ha]
      rw [hfl, hv, List.filter_cons]
      by_cases hg : a.id = gid
      · have hne : (a.id != gid) = false := by simp [hg]
        rw [hne]
        have : ((as.filter (fun a => a.id != gid)).map sp).filter Deleg.live = [] := by
          apply List.filter_eq_nil_iff.mpr
          intro d hd
          obtain ⟨b, hb, rfl⟩ := List.mem_map.mp hd
          have hb' := (List.mem_filter.mp hb).1
          exact List.filter_eq_nil_iff.mp hnil (sp b) (List.mem_map.mpr ⟨b, hb', rfl⟩)
        simp [firstLive_none this, Deleg.un, hg, Deleg.norm]
      · have hne : (a.id != gid) = true := by simp [hg]
        rw [hne]
        simp [Deleg.un, hg, Deleg.norm, firstLive, List.find?_cons, hv, Deleg.live]
    · rw [if_neg ha] at h2
      have ih := un_firstLive sp gid as h1' h2
      have ha' : (sp a).live = false := by simpa using ha
      have hfl : firstLive (List.map sp (a :: as)) = firstLive (as.map sp) := by
        simp [firstLive, ha']
      rw [hfl, ih, List.filter_cons]
      split
      · simp [firstLive, ha']
      · rfl

theorem Deleg.un_norm (d : Deleg) (gid : String) : (d.un gid).norm = (d.norm.un gid).norm := by
  cases d <;> rfl

theorem hasEdge_has {g : Graph} (hc : g.Closed) {x y : String} (h : g.hasEdge x y = true) : g.has x = true ∧ g.has y = true := by
  unfold Graph.hasEdge at h
  obtain ⟨e, he, hj⟩ := List.any_eq_true.mp h
  have := hc e he
  simp only [Edge.joins, Bool.or_eq_true, Bool.and_eq_true, beq_iff_eq] at hj
  rcases hj with ⟨h1, h2⟩ | ⟨h1, h2⟩
  · exact ⟨has_iff.mpr (h1 ▸ this.1), has_iff.mpr (h2 ▸ this.2)⟩
  · exact ⟨has_iff.mpr (h2 ▸ this.2), has_iff.mpr (h1 ▸ this.1)⟩

/-- unmerging keeps the invariant, for the models that stay -/
theorem Tracks.unmerge {pool : List Adm} {c : Graph} {live : List Adm} {gid : String} {g' : Graph} (t : Tracks pool c live)
    (hu : unmerge c gid = (none, g')) : Tracks pool g' (live.filter (fun a => a.id != gid)) := by
  have us := unmerge_step t.wf hu
  have hP := contributors_nodup t.ids
  have hhas : ∀ i, g'.has i = (live.filter (fun a => a.id != gid)).any (fun a => a.g.has i) := by
    intro i
    rw [us.has, t.has, t.prov, any_has_eq, any_has_eq, contributors_filter]
    unfold provUnmerge
    rw [(hP i).erase_eq_filter]
    by_cases hc : (contributors live i).contains gid = true
    · rw [if_pos hc]
      cases he : ((contributors live i).filter (fun x => x != gid)).isEmpty with
      | true => simp
      | false =>
        simp only [Bool.false_eq_true, if_false, Bool.not_false, Bool.and_true, Bool.not_eq_eq_eq_not, Bool.not_true]
        cases hl : contributors live i with
        | nil => rw [hl] at he; simp at he
        | cons _ _ => rfl
    · rw [if_neg hc]
      have : (contributors live i).filter (fun x => x != gid) = contributors live i := by
        apply List.filter_eq_self.mpr
        intro x hx
        have : x ≠ gid := fun e => hc (by rw [← e]; exact List.contains_iff_mem.mpr hx)
        simpa using this
      rw [this]; simp
  have hsub : ∀ b ∈ live.filter (fun a => a.id != gid), b ∈ live := fun b hb => (List.mem_filter.mp hb).1
  refine ⟨us.wf, fun a ha => t.sub a (hsub a ha), fun a ha => t.awf a (hsub a ha), fun a ha => t.nonempty a (hsub a ha), ?_, List.Pairwise.filter _ t.compat,
    hhas, ?_, ?_, ?_, ?_, ?_, ?_⟩
  · exact List.Pairwise.map _ (fun _ _ h => h) (List.Pairwise.filter _ (List.pairwise_map.mp t.ids))
  · intro i
    rw [us.prov, t.prov, contributors_filter]
    have hh := hhas i
    rw [any_has_eq, contributors_filter] at hh
    unfold provUnmerge
    rw [(hP i).erase_eq_filter]
    cases hg : g'.has i with
    | false =>
      rw [hg] at hh
      have : ((contributors live i).filter (fun x => x != gid)) = [] := by
        cases hl : (contributors live i).filter (fun x => x != gid) with
        | nil => rfl
        | cons _ _ => rw [hl] at hh; simp at hh
      simp [this]
    | true =>
      rw [hg] at hh
      have hne : ((contributors live i).filter (fun x => x != gid)).isEmpty = false := by
        cases he : ((contributors live i).filter (fun x => x != gid)).isEmpty with
        | false => rfl
        | true => rw [he] at hh; cases hh
      simp only [if_true, hne, Bool.false_eq_true, if_false]
      by_cases hc : (contributors live i).contains gid = true
      · rw [if_pos hc]
      · rw [if_neg hc]
        symm
        apply List.filter_eq_self.mpr
        intro x hx
        have : x ≠ gid := fun e => hc (by rw [← e]; exact List.contains_iff_mem.mpr hx)
        simpa using this
  · intro i
    rw [us.ldel]
    cases hg : g'.has i with
    | true =>
      simp only [if_true]
      rw [Deleg.un_norm, t.ldel]
      exact un_firstLive (speakL · i) gid live (fun a _ h => speakL_form h) (atMostOne_speaksL t.compat i)
    | false =>
      simp only [Bool.false_eq_true, if_false]
      symm
      apply firstLive_none
      apply List.filter_eq_nil_iff.mpr
      intro d hd hl
      obtain ⟨b, hb, rfl⟩ := List.mem_map.mp hd
      have : g'.has i = true := by
        rw [hhas]
        exact List.any_eq_true.mpr ⟨b, hb, has_iff.mpr (speakL_live_has hl)⟩
      rw [hg] at this; cases this
  · intro i
    rw [us.cdel]
    cases hg : g'.has i with
    | true =>
      simp only [if_true]
      rw [Deleg.un_norm, t.cdel]
      exact un_firstLive (speakC · i) gid live (fun a _ h => speakC_form h) (atMostOne_speaksC t.compat i)
    | false =>
      simp only [Bool.false_eq_true, if_false]
      symm
      apply firstLive_none
      apply List.filter_eq_nil_iff.mpr
      intro d hd hl
      obtain ⟨b, hb, rfl⟩ := List.mem_map.mp hd
      have : g'.has i = true := by
        rw [hhas]
        exact List.any_eq_true.mpr ⟨b, hb, has_iff.mpr (speakC_live_has hl)⟩
      rw [hg] at this; cases this
  · intro x y h
    obtain ⟨b, hb, hbe⟩ := List.any_eq_true.mp h
    have hb' := hsub b hb
    have hce := t.edges x y (List.any_eq_true.mpr ⟨b, hb', hbe⟩)
    have hxy := hasEdge_has (t.awf b hb').closed hbe
    rw [us.hasEdge, hce, hhas x, hhas y]
    have hx : (live.filter (fun a => a.id != gid)).any (fun a => a.g.has x) = true := List.any_eq_true.mpr ⟨b, hb, hxy.1⟩
    have hy : (live.filter (fun a => a.id != gid)).any (fun a => a.g.has y) = true := List.any_eq_true.mpr ⟨b, hb, hxy.2⟩
    rw [hx, hy]; rfl
  · intro i p h
    rw [us.props] at h
    split at h
    · exact t.propsFrom i p h
    · cases h
  · intro x y p h
    rw [us.edgeData] at h
    split at h
    · exact t.edgesFrom x y p h
    · cases h

end FimVerif.Cbm
