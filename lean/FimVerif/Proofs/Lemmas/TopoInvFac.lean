import FimVerif.Proofs.Lemmas.TopoInvSvc
/-!
# C07 — the composites `add_facility` / `add_switch`
-/
namespace FimVerif.Topo
open FimVerif FimVerif.M FimVerif.Gen

/-- `P`, and the handle `svc` refers to a NetworkService that is present -/
def WithSvc (P : Topo → Prop) (svc : Nid) (s : Topo) : Prop :=
  P s ∧ HandleOk s svc .networkService ∧ ∃ m ∈ s.nodes, m.nid = svc

theorem state_bind_inv {Q : Topo → Prop} {α β : Type} {m : M Topo α} {f : α → M Topo β} {s : Topo} (hm : Q (m s).2)
    (hf : ∀ a s1, Q s1 → Q (f a s1).2) : Q ((m >>= f) s).2 := by
  rcases cases_run m s with ⟨a, s', h⟩ | ⟨e, s', h⟩
  · rw [bind_ok h]; rw [h] at hm; exact hf a s' hm
  · rw [bind_err h]; rw [h] at hm; exact hm

theorem withSvc_nsAddInterface {P : Topo → Prop} (hP : AttachStable P) (fl : Flavour) (c : Nat) (svc : Nid) (cache : Cache)
    (name : String) (nid : Option Nid) (itype : Option String) (props : List PropArg) (s : Topo)
    (ht : TypeArgOk .connectionPoint itype) (hsp : NotSp itype) (h : WithSvc P svc s) :
    WithSvc P svc (nsAddInterface fl c svc cache name nid itype props s).2 := by
  unfold nsAddInterface
  refine ro_step (Q := fun r => WithSvc P svc r.2) (by ro) (fun _ => h) (fun _ _ => ?_)
  refine ifaceNew_inv fl c name nid svc itype props s (hP.closed _ h.1) h (fun pn n hm hi hnew hncls htyp => ?_)
  obtain ⟨hp, hh, x, hx, hxi⟩ := h
  have hpc : pn.cls = .networkService := hh pn hm hi
  refine ⟨?_, ?_, x, by simp [grow, hx], hxi⟩
  · exact hP.attach hp hm hnew (by simp [nodeOk, classOk_all, hncls, ht n.typ htyp]) (by simp [edgeOk, GNode.ref, hpc, hncls])
      (by simp [hpc]) (fun _ hsp' => hsp (by rw [htyp, hsp'])) (.inl hncls)
  · intro m hm' hmi
    simp only [grow, List.mem_append, List.mem_singleton] at hm'
    rcases hm' with hm' | rfl
    · exact hh m hm' hmi
    · exact absurd (hxi.trans hmi.symm) (hnew x hx)

/-- service creation under a node without interfaces to connect: no rollback can run -/
theorem svcNew_nil_some {P : Topo → Prop} (hP : AttachStable P) (fl : Flavour) (c : Nat) (p : Nid) (a : SvcArgs) (s : Topo)
    (ha : a.ifs = []) (hty : TypeArgOk .networkService a.nstype) (hpar : ParentOk s (some p))
    (hnm : ∀ pn, findNode p s = (.ok pn, s) → ∀ m ∈ kids s pn.ref .has .networkService, m.name ≠ a.name) (h : P s) :
    P (svcNew fl c (some p) a s).2 ∧ ∀ v, (svcNew fl c (some p) a s).1 = .ok v → WithSvc P v.1 (svcNew fl c (some p) a s).2 := by
  unfold svcNew
  rcases pick a.nid c with ⟨id, c1⟩
  simp only []
  refine ro_step (Q := fun r => P r.2 ∧ ∀ v : Nid × Cache, r.1 = .ok v → WithSvc P v.1 r.2) (readOnly_need _ _)
    (fun _ => ⟨h, fun v hv => by cases hv⟩) (fun t h1 => ?_)
  have htt : a.nstype = some t := need_some ⟨_, h1⟩
  refine ro_step (Q := fun r => P r.2 ∧ ∀ v : Nid × Cache, r.1 = .ok v → WithSvc P v.1 r.2) (readOnly_guard _ _)
    (fun _ => ⟨h, fun v hv => by cases hv⟩) (fun _ _ => ?_)
  refine ro_step (Q := fun r => P r.2 ∧ ∀ v : Nid × Cache, r.1 = .ok v → WithSvc P v.1 r.2) (readOnly_need _ _)
    (fun _ => ⟨h, fun v hv => by cases hv⟩) (fun layer _ => ?_)
  refine ro_step (Q := fun r => P r.2 ∧ ∀ v : Nid × Cache, r.1 = .ok v → WithSvc P v.1 r.2) (readOnly_ofExcept _)
    (fun _ => ⟨h, fun v hv => by cases hv⟩) (fun kw _ => ?_)
  obtain ⟨⟨pn, hpnm, hpni⟩, hpcls⟩ := hpar
  simp only [Option.isNone]
  refine addGNode_step (Q := fun r => P r.2 ∧ ∀ v : Nid × Cache, r.1 = .ok v → WithSvc P v.1 r.2) ⟨h, fun v hv => by cases hv⟩ (fun sn hsn hfr => ?_)
  have hsi : sn.nid = id := by rw [hsn]
  have hsc : sn.cls = .networkService := by rw [hsn]
  have hst : sn.typ = t := by rw [hsn]
  have hpn : findNode p s = (.ok pn, s) := by rw [← hpni]; exact findNode_of_mem (hP.ids _ h) hpnm
  have hrun := addEdge_run (r := .has) (findNode_push_old hpn hfr) (findNode_push_new hfr)
  rw [hsi] at hrun
  rw [bind_ok hrun, attach_state (hP.closed _ h) hfr, ha]
  have hpc := hpcls pn hpnm hpni
  have hB : P (grow s [sn] [⟨pn.ref, sn.ref, .has⟩]) := by
    refine hP.attach h hpnm hfr (by simp [nodeOk, classOk_all, hsc, hst, hty t htt]) ?_ ?_ (by simp [hsc]) ?_
    · rcases hpc with hc | hc <;> simp [edgeOk, GNode.ref, hc, hsc]
    · rcases hpc with hc | hc <;> simp [hc]
    · refine .inr (.inr ?_)
      rw [hsc]
      intro m hm
      have hsn : sn.name = a.name := by rw [hsn]
      rw [hsn]; exact hnm pn hpn m hm
  unfold svcLoop
  simp only [bind_apply', pure_apply']
  refine ⟨hB, fun v hv => ?_⟩
  simp only [Except.ok.injEq] at hv
  subst hv
  refine ⟨hB, ?_, ⟨sn, by simp [grow], hsi⟩⟩
  intro m hm hmi
  simp only [grow, List.mem_append, List.mem_singleton] at hm
  rcases hm with hm | rfl
  · exact absurd (hmi.trans hsi.symm) (hfr m hm)
  · exact hsc

theorem nodeAddService_nil {P : Topo → Prop} (hP : AttachStable P) (fl : Flavour) (c : Nat) (p : Nid) (a : SvcArgs) (s : Topo)
    (ha : a.ifs = []) (hty : TypeArgOk .networkService a.nstype) (hpar : ParentOk s (some p)) (h : P s) :
    P (nodeAddService fl c p a s).2 ∧ ∀ v, (nodeAddService fl c p a s).1 = .ok v → WithSvc P v.1 (nodeAddService fl c p a s).2 := by
  unfold nodeAddService
  refine ro_step (Q := fun r => P r.2 ∧ ∀ v : Nid × Cache, r.1 = .ok v → WithSvc P v.1 r.2) (readOnly_childrenOf _ _ _ _)
    (fun _ => ⟨h, fun v hv => by cases hv⟩) (fun nss hch => ?_)
  refine ro_step (Q := fun r => P r.2 ∧ ∀ v : Nid × Cache, r.1 = .ok v → WithSvc P v.1 r.2) (readOnly_guard _ _)
    (fun _ => ⟨h, fun v hv => by cases hv⟩) (fun _ hg => ?_)
  exact svcNew_nil_some hP fl c p a s ha hty hpar (sibling_free (hP.ids _ h) hch (guard_ok hg)) h

theorem withSvc_facGo {P : Topo → Prop} (hP : AttachStable P) (fl : Flavour) (nid : Option Nid) (facs : Nid) :
    ∀ (l : List (String × List PropArg)) (k cc : Nat) (s : Topo), WithSvc P facs s →
      WithSvc P facs (addFacility.go fl nid facs l k cc s).2 := by
  intro l
  induction l with
  | nil => intro k cc s h; unfold addFacility.go; exact h
  | cons x xs ih =>
    intro k cc s h
    obtain ⟨iname, ip⟩ := x
    unfold addFacility.go
    refine state_bind_inv (Q := WithSvc P facs) ?_ (fun r s1 h1 => ?_)
    · exact withSvc_nsAddInterface hP _ _ _ _ _ _ _ _ _ (by intro x hx; cases hx; decide) (by decide) h
    · exact ih _ _ _ h1

theorem withSvc_swGo {P : Topo → Prop} (hP : AttachStable P) (fl : Flavour) (nid : Option Nid) (sns : Nid) :
    ∀ (l : List (String × String × List PropArg)) (cc : Nat) (s : Topo), WithSvc P sns s →
      WithSvc P sns (addSwitch.go fl nid sns l cc s).2 := by
  intro l
  induction l with
  | nil => intro cc s h; unfold addSwitch.go; exact h
  | cons x xs ih =>
    intro cc s h
    obtain ⟨pname, suf, pp⟩ := x
    unfold addSwitch.go
    refine state_bind_inv (Q := WithSvc P sns) ?_ (fun r s1 h1 => ?_)
    · exact withSvc_nsAddInterface hP _ _ _ _ _ _ _ _ _ (by intro x hx; cases hx; decide) (by decide) h
    · exact ih _ _ h1

theorem composite_unfold (node : Nid) (body : M Topo Unit) :
    composite node body = M.tryCatch body (fun _ => true) (fun e => do removeNodeGraph node; raise e) := by
  unfold composite; simp only [flag_compositeRollback, if_true]

theorem composite_inv_drop {P : Topo → Prop} (hdrop : DropStable P) {node : Nid} {body : M Topo Unit} {s : Topo}
    (hb : P (body s).2) : P (composite node body s).2 := by
  rw [composite_unfold]
  exact tryCatch_state hb (fun e => Preserves.bind (preserves_removeNodeGraph hdrop _) (fun _ => ReadOnly.preserves (readOnly_raise _)))

theorem composite_inv_ok {P : Topo → Prop} {node : Nid} {body : M Topo Unit} {s s' : Topo} {u : Unit}
    (hb : P (body s).2) (hok : composite node body s = (.ok u, s')) : P s' := by
  rw [composite_unfold] at hok
  have := tryCatch_ok_inv (fun e t b t' => bind_raise_ne_ok _ _ _ _ _) hok
  rw [this] at hb; exact hb

/-- what the two composites need of a predicate: it survives appending a NetworkNode and hanging elements off containers -/
structure CompositeStable (P : Topo → Prop) : Prop extends AttachStable P where
  push : ∀ {s : Topo} {n : GNode}, P s → (∀ m ∈ s.nodes, m.nid ≠ n.nid) → nodeOk n = true → n.cls = .networkNode →
    (∀ m ∈ s.nodes, m.cls = .networkNode → m.name ≠ n.name) → P (pushNode n s)

theorem compositeStable_invS : CompositeStable InvS :=
  { attachStable_invS with push := fun h hf hv hc _ => invS_push h hf hv (by simp [hc]) (by simp [hc]) }
theorem compositeStable_invD : CompositeStable InvD :=
  { attachStable_invD with push := fun h hf hv _ _ => invD_push h hf hv }

theorem parentOk_new {s : Topo} {n : GNode} (hf : ∀ m ∈ s.nodes, m.nid ≠ n.nid) (hc : n.cls = .networkNode) :
    ParentOk (pushNode n s) (some n.nid) := by
  refine ⟨⟨n, by simp [pushNode], rfl⟩, ?_⟩
  intro m hm hmi
  simp only [pushNode, List.mem_append, List.mem_singleton] at hm
  rcases hm with hm | rfl
  · exact absurd hmi (hf m hm)
  · exact .inl hc

/-- `add_node` then a composite body under rollback: every outcome, for predicates that survive deletions -/
theorem compositeCall_drop {P : Topo → Prop} (hP : CompositeStable P) (hdrop : DropStable P) (fl : Flavour) (c : Nat) (args : NodeArgs)
    (body : Nid → Nat → M Topo Unit) (s : Topo) (hty : TypeArgOk .networkNode args.ntype) (h : P s)
    (hbody : ∀ n c1 s1, P s1 → ParentOk s1 (some n) → P (body n c1 s1).2) :
    P ((addNode fl c args >>= fun x => match x with
      | (n, c1) => composite n (body n c1) >>= fun _ => Pure.pure n) s).2 := by
  rcases addNode_post fl c args s with ⟨e, he⟩ | ⟨n, v, hf, hc, hnt, hnn, hnames, hv1, hr⟩
  · rw [bind_err he]; exact h
  · rw [bind_ok hr]
    obtain ⟨facn, c1⟩ := v
    simp only [] at hv1 ⊢
    subst hv1
    rw [state_after_bind _ _ (fun _ _ => rfl)]
    have h1 : P (pushNode n s) := hP.push h hf (by simp [nodeOk, classOk_all, hc, hty n.typ hnt]) hc (by rw [hnn]; exact hnames)
    exact composite_inv_drop hdrop (hbody _ _ _ h1 (parentOk_new hf hc))

/-- ... and when the call returns, for any predicate -/
theorem compositeCall_ok {P : Topo → Prop} (hP : CompositeStable P) (fl : Flavour) (c : Nat) (args : NodeArgs)
    (body : Nid → Nat → M Topo Unit) (s s' : Topo) (r : Nid) (hty : TypeArgOk .networkNode args.ntype) (h : P s)
    (hbody : ∀ n c1 s1, P s1 → ParentOk s1 (some n) → P (body n c1 s1).2)
    (hok : (addNode fl c args >>= fun x => match x with
      | (n, c1) => composite n (body n c1) >>= fun _ => Pure.pure n) s = (.ok r, s')) : P s' := by
  obtain ⟨v, s1, hadd, hok⟩ := bind_ok_inv hok
  rcases addNode_post fl c args s with ⟨e, he⟩ | ⟨n, v', hf, hc, hnt, hnn, hnames, hv1, hr⟩
  · rw [he] at hadd; simp at hadd
  · rw [hr] at hadd
    simp only [Prod.mk.injEq, Except.ok.injEq] at hadd
    obtain ⟨rfl, rfl⟩ := hadd
    obtain ⟨facn, c1⟩ := v'
    simp only [] at hv1 hok
    subst hv1
    obtain ⟨u, s2, hcomp, hpure⟩ := bind_ok_inv hok
    simp only [pure_apply', Prod.mk.injEq] at hpure
    rw [← hpure.2]
    have h1 : P (pushNode n s) := hP.push h hf (by simp [nodeOk, classOk_all, hc, hty n.typ hnt]) hc (by rw [hnn]; exact hnames)
    exact composite_inv_ok (hbody _ _ _ h1 (parentOk_new hf hc)) hcomp

/-- the body of `add_facility` under its rollback -/
def facBody (fl : Flavour) (name : String) (nid : Option Nid) (nstype : Option String) (nsprops : List PropArg)
    (ifs : Option (List (String × List PropArg))) (kw : List PropArg) (facn : Nid) (c1 : Nat) : M Topo Unit := do
  let (facs, _) ← nodeAddService fl c1 facn ⟨name ++ "-ns", suffixId nid "-ns", nstype, none, none, nsprops, []⟩
  let c2 := (pick (suffixId nid "-ns") c1).2
  match ifs with
  | none => do
      let _ ← nsAddInterface fl c2 facs [] (name ++ "-int") (suffixId nid "-int") (some "FacilityPort") kw
      Pure.pure ()
  | some l => addFacility.go fl nid facs l 0 c2

theorem facBody_inv {P : Topo → Prop} (hP : AttachStable P) (fl : Flavour) (name : String) (nid : Option Nid) (nstype : Option String)
    (nsprops : List PropArg) (ifs : Option (List (String × List PropArg))) (kw : List PropArg) (facn : Nid) (c1 : Nat) (s1 : Topo)
    (hty : TypeArgOk .networkService nstype) (h : P s1) (hpar : ParentOk s1 (some facn)) :
    P (facBody fl name nid nstype nsprops ifs kw facn c1 s1).2 := by
  unfold facBody
  have hns := nodeAddService_nil hP fl c1 facn ⟨name ++ "-ns", suffixId nid "-ns", nstype, none, none, nsprops, []⟩ s1 rfl hty hpar h
  rcases cases_run (nodeAddService fl c1 facn ⟨name ++ "-ns", suffixId nid "-ns", nstype, none, none, nsprops, []⟩) s1 with
    ⟨v, s2, hr⟩ | ⟨e, s2, hr⟩
  · rw [bind_ok hr]
    rw [hr] at hns
    have hw := hns.2 v rfl
    obtain ⟨facs, ca⟩ := v
    simp only [] at hw ⊢
    cases ifs with
    | none =>
      simp only []
      rw [state_after_bind _ _ (fun _ _ => rfl)]
      exact (withSvc_nsAddInterface hP _ _ _ _ _ _ _ _ _ (by intro x hx; cases hx; decide) (by decide) hw).1
    | some l => exact (withSvc_facGo hP fl nid facs l 0 _ s2 hw).1
  · rw [bind_err hr]; rw [hr] at hns; exact hns.1

def swBody (fl : Flavour) (name : String) (nid : Option Nid) (nstype : Option String) (nsprops : List PropArg)
    (ports : List (String × String × List PropArg)) (sw : Nid) (c1 : Nat) : M Topo Unit := do
  let (sns, _) ← nodeAddService fl c1 sw ⟨name ++ "-ns", suffixId nid "-ns", nstype, none, none, nsprops, []⟩
  let c2 := (pick (suffixId nid "-ns") c1).2
  addSwitch.go fl nid sns ports c2

theorem swBody_inv {P : Topo → Prop} (hP : AttachStable P) (fl : Flavour) (name : String) (nid : Option Nid) (nstype : Option String)
    (nsprops : List PropArg) (ports : List (String × String × List PropArg)) (sw : Nid) (c1 : Nat) (s1 : Topo)
    (hty : TypeArgOk .networkService nstype) (h : P s1) (hpar : ParentOk s1 (some sw)) :
    P (swBody fl name nid nstype nsprops ports sw c1 s1).2 := by
  unfold swBody
  have hns := nodeAddService_nil hP fl c1 sw ⟨name ++ "-ns", suffixId nid "-ns", nstype, none, none, nsprops, []⟩ s1 rfl hty hpar h
  rcases cases_run (nodeAddService fl c1 sw ⟨name ++ "-ns", suffixId nid "-ns", nstype, none, none, nsprops, []⟩) s1 with
    ⟨v, s2, hr⟩ | ⟨e, s2, hr⟩
  · rw [bind_ok hr]
    rw [hr] at hns
    have hw := hns.2 v rfl
    obtain ⟨sns, ca⟩ := v
    simp only [] at hw ⊢
    exact (withSvc_swGo hP fl nid sns ports _ s2 hw).1
  · rw [bind_err hr]; rw [hr] at hns; exact hns.1

theorem addFacility_shape (fl : Flavour) (c : Nat) (name : String) (nid : Option Nid) (site : Option String)
    (nstype : Option String) (nsprops : List PropArg) (ifs : Option (List (String × List PropArg))) (kw : List PropArg) :
    addFacility fl c name nid site nstype nsprops ifs kw =
      (addNode fl c ⟨name, nid, site, some "Facility", []⟩ >>= fun x => match x with
        | (n, c1) => composite n (facBody fl name nid nstype nsprops ifs kw n c1) >>= fun _ => Pure.pure n) := rfl

theorem addSwitch_shape (fl : Flavour) (c : Nat) (name : String) (nid : Option Nid) (site : Option String)
    (nstype : Option String) (nsprops : List PropArg) (ports : List (String × String × List PropArg)) :
    addSwitch fl c name nid site nstype nsprops ports =
      (addNode fl c ⟨name, nid, site, some "Switch", []⟩ >>= fun x => match x with
        | (n, c1) => composite n (swBody fl name nid nstype nsprops ports n c1) >>= fun _ => Pure.pure n) := rfl

theorem invD_addFacility (fl : Flavour) (c : Nat) (name : String) (nid : Option Nid) (site : Option String)
    (nstype : Option String) (nsprops : List PropArg) (ifs : Option (List (String × List PropArg))) (kw : List PropArg) (s : Topo)
    (hty : TypeArgOk .networkService nstype) (h : InvD s) : InvD (addFacility fl c name nid site nstype nsprops ifs kw s).2 := by
  rw [addFacility_shape]
  exact compositeCall_drop compositeStable_invD dropStable_invD fl c _ _ s (by intro x hx; cases hx; decide) h
    (fun n c1 s1 h1 hp => facBody_inv attachStable_invD fl name nid nstype nsprops ifs kw n c1 s1 hty h1 hp)

theorem invD_addSwitch (fl : Flavour) (c : Nat) (name : String) (nid : Option Nid) (site : Option String)
    (nstype : Option String) (nsprops : List PropArg) (ports : List (String × String × List PropArg)) (s : Topo)
    (hty : TypeArgOk .networkService nstype) (h : InvD s) : InvD (addSwitch fl c name nid site nstype nsprops ports s).2 := by
  rw [addSwitch_shape]
  exact compositeCall_drop compositeStable_invD dropStable_invD fl c _ _ s (by intro x hx; cases hx; decide) h
    (fun n c1 s1 h1 hp => swBody_inv attachStable_invD fl name nid nstype nsprops ports n c1 s1 hty h1 hp)

theorem invS_addFacility (fl : Flavour) (c : Nat) (name : String) (nid : Option Nid) (site : Option String)
    (nstype : Option String) (nsprops : List PropArg) (ifs : Option (List (String × List PropArg))) (kw : List PropArg) (s : Topo)
    (hty : TypeArgOk .networkService nstype) (hout : ReturnsOrUnchanged (addFacility fl c name nid site nstype nsprops ifs kw) s)
    (h : InvS s) : InvS (addFacility fl c name nid site nstype nsprops ifs kw s).2 := by
  rcases hout with hnf | hu
  · obtain ⟨r, s', hok⟩ := ok_of_not_failed hnf
    rw [hok]
    rw [addFacility_shape] at hok
    exact compositeCall_ok compositeStable_invS fl c _ _ s s' r (by intro x hx; cases hx; decide) h
      (fun n c1 s1 h1 hp => facBody_inv attachStable_invS fl name nid nstype nsprops ifs kw n c1 s1 hty h1 hp) hok
  · rw [hu]; exact h

theorem invS_addSwitch (fl : Flavour) (c : Nat) (name : String) (nid : Option Nid) (site : Option String)
    (nstype : Option String) (nsprops : List PropArg) (ports : List (String × String × List PropArg)) (s : Topo)
    (hty : TypeArgOk .networkService nstype) (hout : ReturnsOrUnchanged (addSwitch fl c name nid site nstype nsprops ports) s)
    (h : InvS s) : InvS (addSwitch fl c name nid site nstype nsprops ports s).2 := by
  rcases hout with hnf | hu
  · obtain ⟨r, s', hok⟩ := ok_of_not_failed hnf
    rw [hok]
    rw [addSwitch_shape] at hok
    exact compositeCall_ok compositeStable_invS fl c _ _ s s' r (by intro x hx; cases hx; decide) h
      (fun n c1 s1 h1 hp => swBody_inv attachStable_invS fl name nid nstype nsprops ports n c1 s1 hty h1 hp) hok
  · rw [hu]; exact h

end FimVerif.Topo
