import FimVerif.Proofs.Lemmas.C02Props
/-! Tree-level helper definitions and lemmas for C02 (`sliver_to_dict` / `build_deep_*_from_dict`). -/
namespace FimVerif.C02
open FimVerif.Sliver FimVerif.Gen.SliverMap

section
variable {V P : Type}

/-- the key under which a child sits in its parent's `*Info` dictionary (one dictionary per child kind) -/
def keyOf (c : Sliver V) : Kind × Option V := (c.kind, nameOf c)

mutual
/-- what a rebuilt sliver can at best be: no node id (the dictionary form does not carry `NodeID`), the fields the
from-table rebuilds, children likewise -/
def normalize : Sliver V → Sliver V
  | .mk k _ f ks => .mk k none (restrict (tableOf k) f) (normalizeKids ks)
def normalizeKids : List (Sliver V) → List (Sliver V)
  | [] => []
  | c :: cs => normalize c :: normalizeKids cs
end

mutual
/-- well-formed sliver tree: at every element the table check, the codec law, fate sharing and required fields hold;
children are of a kind the parent can contain, components carry name and type (`add_device` asserts it), and
siblings of one kind have distinct names (they live in a dict keyed by name). -/
def WF (C : Codecs V P) : Sliver V → Prop
  | .mk k _ f ks => tableOK (tableOf k) = true ∧ FieldLaw C (tableOf k) f ∧ FateShared (tableOf k) f ∧
      Required (tableOf k) f ∧ WFKids C k ks ∧ (ks.map keyOf).Nodup
def WFKids (C : Codecs V P) (parent : Kind) : List (Sliver V) → Prop
  | [] => True
  | c :: cs => (slotOf parent c.kind).isSome = true ∧ childOk c = true ∧ WF C c ∧ WFKids C parent cs
end

theorem childKind_slotOf (p c : Kind) (sl : String) (h : slotOf p c = some sl) : childKind p sl = some c := by
  unfold slotOf at h
  split at h
  · rename_i hc; obtain ⟨rfl, rfl⟩ := hc; cases h; decide
  · split at h
    · rename_i hc; obtain ⟨rfl, rfl⟩ := hc; cases h; decide
    · split at h
      · rename_i hc; obtain ⟨rfl, rfl⟩ := hc; cases h; decide
      · split at h
        · rename_i hc; obtain ⟨rfl, rfl⟩ := hc; cases h; decide
        · split at h
          · rename_i hc; obtain ⟨rfl, rfl⟩ := hc; cases h; decide
          · cases h

theorem tableOK_has_name {T : KindTable} (h : tableOK T = true) : "name" ∈ T.fromRows.map (·.key) := by
  simp only [tableOK, Bool.and_eq_true, List.any_eq_true, beq_iff_eq] at h
  obtain ⟨f, hf, he⟩ := h.1.2
  exact List.mem_map.mpr ⟨f, hf, he⟩

theorem tableOK_has_type {T : KindTable} (h : tableOK T = true) : "type" ∈ T.fromRows.map (·.key) := by
  simp only [tableOK, Bool.and_eq_true, List.any_eq_true, beq_iff_eq] at h
  obtain ⟨f, hf, he⟩ := h.2
  exact List.mem_map.mpr ⟨f, hf, he⟩

theorem normalize_kind (s : Sliver V) : (normalize s).kind = s.kind := by
  cases s; simp [normalize, Sliver.kind]

theorem normalize_name (C : Codecs V P) (s : Sliver V) (h : WF C s) : nameOf (normalize s) = nameOf s := by
  cases s with
  | mk k i f ks =>
    simp only [WF] at h
    simp only [normalize, nameOf, Sliver.fields, restrict]
    rw [if_pos (tableOK_has_name h.1)]

theorem normalize_type (C : Codecs V P) (s : Sliver V) (h : WF C s) : (normalize s).fields "type" = s.fields "type" := by
  cases s with
  | mk k i f ks =>
    simp only [WF] at h
    simp only [normalize, Sliver.fields, restrict]
    rw [if_pos (tableOK_has_type h.1)]

theorem normalize_key (C : Codecs V P) (s : Sliver V) (h : WF C s) : keyOf (normalize s) = keyOf s := by
  unfold keyOf
  rw [normalize_kind, normalize_name C s h]

theorem normalize_childOk (C : Codecs V P) (s : Sliver V) (h : WF C s) : childOk (normalize s) = childOk s := by
  unfold childOk
  have hn := normalize_name C s h
  unfold nameOf at hn
  rw [normalize_kind, normalize_type C s h, hn]

theorem normalizeKids_keys (C : Codecs V P) (parent : Kind) (ks : List (Sliver V)) (h : WFKids C parent ks) :
    (normalizeKids ks).map keyOf = ks.map keyOf := by
  induction ks with
  | nil => simp [normalizeKids]
  | cons c cs ih =>
    simp only [WFKids] at h
    simp only [normalizeKids, List.map_cons]
    rw [normalize_key C c h.2.2.1, ih h.2.2.2]

/-! ### `Info.add_*` over children with distinct keys is the identity -/

variable [DecidableEq V]

theorem insertByName_fresh (acc : List (Sliver V)) (c : Sliver V) (h : keyOf c ∉ acc.map keyOf) :
    insertByName acc c = acc ++ [c] := by
  unfold insertByName
  rw [if_neg]
  intro hany
  simp only [List.any_eq_true, Bool.and_eq_true, beq_iff_eq, decide_eq_true_eq] at hany
  obtain ⟨x, hx, hk, hn⟩ := hany
  apply h
  refine List.mem_map.mpr ⟨x, hx, ?_⟩
  unfold keyOf
  rw [hk, hn]

theorem foldl_insert_nodup (cs acc : List (Sliver V)) (h : ((acc ++ cs).map keyOf).Nodup) :
    cs.foldl insertByName acc = acc ++ cs := by
  induction cs generalizing acc with
  | nil => simp
  | cons c cs ih =>
    rw [List.foldl_cons]
    have hfresh : keyOf c ∉ acc.map keyOf := by
      intro hm
      simp only [List.map_append, List.map_cons] at h
      have := (List.nodup_append.mp h).2.2
      exact this _ hm _ (List.mem_cons_self) rfl
    rw [insertByName_fresh acc c hfresh]
    have h' : (((acc ++ [c]) ++ cs).map keyOf).Nodup := by
      simpa [List.append_assoc] using h
    rw [ih _ h']
    simp [List.append_assoc]

theorem dedupe_nodup (cs : List (Sliver V)) (h : (cs.map keyOf).Nodup) : dedupe cs = cs := by
  unfold dedupe
  rw [foldl_insert_nodup cs [] (by simpa using h)]
  simp

end
end FimVerif.C02
