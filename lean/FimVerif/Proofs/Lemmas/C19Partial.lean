import FimVerif.Proofs.Lemmas.C19Render
/-!
Helper lemmas for C19, guarded form: rendering ANY template looks at no stored value other than the ones its `leaks` name.
`eraseExcept L` blanks every stored value whose name is not in `L` (`row.<f>` = field `f` of mapping rows).
-/
namespace FimVerif.Cypher

/-- blank every stored value whose name is not in `L` (`row.<f>` names the field `f` of mapping rows) -/
def keepOne (L : List Text) (pre : Text) (p : Text × Text) : Text × Text :=
  if L.contains (pre ++ p.1) then p else (p.1, [])
def keepVals (L : List Text) (pre : Text) (l : List (Text × Text)) : List (Text × Text) := l.map (keepOne L pre)
def Row.eraseExcept (L : List Text) (r : Row) : Row := ⟨r.idents, keepVals L t!"row." r.values⟩
def Env.eraseExcept (L : List Text) (e : Env) : Env :=
  ⟨e.idents, keepVals L [] e.values, e.maps.map (fun p => (p.1, p.2.map (Row.eraseExcept L)))⟩

theorem keepOne_fst (L : List Text) (pre : Text) (p : Text × Text) : (keepOne L pre p).1 = p.1 := by
  unfold keepOne; split <;> rfl

theorem get_keepVals (L : List Text) (pre : Text) (l : List (Text × Text)) (x : Text) (hx : L.contains (pre ++ x) = true) :
    get (keepVals L pre l) x = get l x := by
  unfold get keepVals
  induction l with
  | nil => rfl
  | cons p ps ih =>
    simp only [List.map_cons, List.find?_cons, keepOne_fst]
    cases hp : (p.1 == x) with
    | true =>
      have hpx : p.1 = x := by simpa using hp
      have : keepOne L pre p = p := by unfold keepOne; rw [hpx, hx]; rfl
      simp only [this]
    | false => simpa using ih

theorem keepVals_fst (L : List Text) (pre : Text) (l : List (Text × Text)) :
    (keepVals L pre l).map Prod.fst = l.map Prod.fst := by
  unfold keepVals
  rw [List.map_map]
  apply List.map_congr_left
  intro p _
  exact keepOne_fst L pre p

/-- rows agree on everything a body whose leaks are within `L` can observe -/
def RowSimL (L : List Text) (r1 r2 : Row) : Prop :=
  r1.idents = r2.idents ∧ r1.values.map Prod.fst = r2.values.map Prod.fst ∧
  ∀ f, L.contains (t!"row." ++ f) = true → get r1.values f = get r2.values f

def EnvSimL (L : List Text) (e1 e2 : Env) : Prop :=
  e1.idents = e2.idents ∧ ∀ x, L.contains x = true → get e1.values x = get e2.values x

theorem RowSimL.eraseExcept (L : List Text) (r : Row) : RowSimL L r (r.eraseExcept L) :=
  ⟨rfl, (keepVals_fst L _ r.values).symm, fun f hf => (get_keepVals L _ r.values f hf).symm⟩

theorem EnvSimL.eraseExcept (L : List Text) (e : Env) : EnvSimL L e (e.eraseExcept L) :=
  ⟨rfl, fun x hx => (get_keepVals L [] e.values x (by simpa using hx)).symm⟩

theorem Atom.render_simL {L : List Text} {a : Atom} (ha : ∀ x ∈ a.leaks, L.contains x = true) {e1 e2 : Env} (he : EnvSimL L e1 e2)
    {r1 r2 : Row} (hr : RowSimL L r1 r2) : a.render e1 r1 = a.render e2 r2 := by
  cases a with
  | lit s => rfl
  | param x => rfl
  | ident x => simp [Atom.render, he.1]
  | value x => exact he.2 x (ha x (by simp [Atom.leaks]))
  | rowIdent f => simp [Atom.render, hr.1]
  | rowValue f => exact hr.2.2 f (ha _ (by simp [Atom.leaks]))

theorem renderAtoms_simL {L : List Text} {as : List Atom} (ha : ∀ x ∈ as.flatMap Atom.leaks, L.contains x = true)
    {e1 e2 : Env} (he : EnvSimL L e1 e2) {r1 r2 : Row} (hr : RowSimL L r1 r2) :
    renderAtoms e1 r1 as = renderAtoms e2 r2 as := by
  unfold renderAtoms
  congr 1
  apply List.map_congr_left
  intro a hmem
  exact Atom.render_simL (fun x hx => ha x (List.mem_flatMap.mpr ⟨a, hmem, hx⟩)) he hr

theorem Inner.render_simL {L : List Text} {i : Inner} (hi : ∀ x ∈ i.leaks, L.contains x = true) {e1 e2 : Env} (he : EnvSimL L e1 e2)
    {r1 r2 : Row} (hr : RowSimL L r1 r2) : i.render e1 r1 = i.render e2 r2 := by
  cases i with
  | atom a => exact Atom.render_simL hi he hr
  | opt fs body =>
    simp only [Inner.render]
    have hh : fs.all r1.has = fs.all r2.has := by
      congr 1; funext f; exact Row.has_sim ⟨hr.1, hr.2.1⟩ f
    rw [hh, renderAtoms_simL hi he hr]

theorem renderInner_simL {L : List Text} {body : List Inner} (hb : ∀ x ∈ body.flatMap Inner.leaks, L.contains x = true)
    {e1 e2 : Env} (he : EnvSimL L e1 e2) {r1 r2 : Row} (hr : RowSimL L r1 r2) :
    renderInner e1 r1 body = renderInner e2 r2 body := by
  unfold renderInner
  congr 1
  apply List.map_congr_left
  intro i hmem
  exact Inner.render_simL (fun x hx => hb x (List.mem_flatMap.mpr ⟨i, hmem, hx⟩)) he hr

theorem getMap_eraseExcept (L : List Text) (e : Env) (m : Text) :
    getMap (e.eraseExcept L) m = (getMap e m).map (Row.eraseExcept L) := by
  unfold getMap Env.eraseExcept
  simp only [List.find?_map, Function.comp_def]
  cases h : List.find? (fun p => p.1 == m) e.maps <;> simp

theorem argRows_eraseExcept (L : List Text) (e : Env) (src : MapSrc) :
    argRows (e.eraseExcept L) src = (argRows e src).map (Row.eraseExcept L) := by
  unfold argRows
  cases src.arg <;> simp [getMap_eraseExcept]

theorem items_eraseExcept (L : List Text) (e : Env) (src : MapSrc) (body : List Inner)
    (hb : ∀ x ∈ body.flatMap Inner.leaks, L.contains x = true)
    (hf : ∀ x ∈ src.fixed.flatMap (fun kv => kv.2.flatMap Atom.leaks), L.contains x = true) :
    (rows e src).map (fun r => renderInner e r body) =
    (rows (e.eraseExcept L) src).map (fun r => renderInner (e.eraseExcept L) r body) := by
  have he := EnvSimL.eraseExcept L e
  unfold rows
  simp only [argRows_eraseExcept, List.map_append, List.map_map]
  congr 1
  · apply List.map_congr_left
    intro kv hkv
    simp only [Function.comp_def, List.find?_map]
    have hp : ((fun r : Row => get r.idents t!"k" == kv.1) ∘ Row.eraseExcept L) =
        (fun r : Row => get r.idents t!"k" == kv.1) := by
      funext r; simp [Row.eraseExcept]
    simp only [Function.comp_def] at hp
    rw [hp]
    cases List.find? (fun r : Row => get r.idents t!"k" == kv.1) (argRows e src) with
    | none =>
      simp only [Option.map_none]
      have hv : renderAtoms e emptyRow kv.2 = renderAtoms (e.eraseExcept L) emptyRow kv.2 :=
        renderAtoms_simL (fun x hx => hf x (List.mem_flatMap.mpr ⟨kv, hkv, hx⟩)) he ⟨rfl, rfl, fun _ _ => rfl⟩
      rw [← hv]
      exact renderInner_simL hb he ⟨rfl, rfl, fun _ _ => rfl⟩
    | some r =>
      simp only [Option.map_some]
      exact renderInner_simL hb he (RowSimL.eraseExcept L r)
  · rw [List.filter_map, List.map_map]
    have hq : ((fun r : Row => !(src.fixed.any (fun kv => kv.1 == get r.idents t!"k"))) ∘ Row.eraseExcept L) =
        (fun r : Row => !(src.fixed.any (fun kv => kv.1 == get r.idents t!"k"))) := by
      funext r; simp [Row.eraseExcept]
    rw [hq]
    apply List.map_congr_left
    intro r _
    exact renderInner_simL hb he (RowSimL.eraseExcept L r)

theorem Piece.render_eraseExcept {L : List Text} {p : Piece} (hp : ∀ x ∈ p.leaks, L.contains x = true) (e : Env) :
    p.render e = p.render (e.eraseExcept L) := by
  cases p with
  | atom a => exact Atom.render_simL hp (EnvSimL.eraseExcept L e) ⟨rfl, rfl, fun _ _ => rfl⟩
  | rep src mode body =>
    simp only [Piece.render]
    rw [items_eraseExcept L e src body
      (fun x hx => hp x (by simp only [Piece.leaks, List.mem_append]; exact Or.inr hx))
      (fun x hx => hp x (by simp only [Piece.leaks, List.mem_append]; exact Or.inl hx))]

theorem render_eraseExcept {L : List Text} {t : List Piece} (ht : ∀ x ∈ leaks t, L.contains x = true) (e : Env) :
    render e t = render (e.eraseExcept L) t := by
  unfold render
  congr 1
  apply List.map_congr_left
  intro p hmem
  apply Piece.render_eraseExcept
  intro x hx
  apply ht
  unfold leaks
  rw [List.mem_eraseDups]
  exact List.mem_flatMap.mpr ⟨p, hmem, hx⟩

end FimVerif.Cypher
