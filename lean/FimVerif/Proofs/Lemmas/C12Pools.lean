import FimVerif.Proofs.Lemmas.C12Gen
/-! Lemmas tying a pool family to the entries `generate_delegations_by_node_id` produces (C12). -/
set_option linter.unusedSimpArgs false
namespace FimVerif.C12
open FimVerif.Deleg

variable {D : Type}

/-- the definition entry of a pool (on its defining node) and its reference entry (on a node it applies to) -/
def defEntry (ty : DType) (p : Pool D) : Delegation D :=
  { ty := ty, id := p.deleg.getD "", fmt := .definition, pool := some p.pid, details := p.details }
def refEntry (ty : DType) (p : Pool D) : Delegation D :=
  { ty := ty, id := p.deleg.getD "", fmt := .reference, pool := some p.pid, details := none }
def entriesOf (ty : DType) (p : Pool D) : List (Entry D) :=
  (p.on_.getD "", defEntry ty p) :: p.for_.map (fun n => (n, refEntry ty p))
def allEntries (ty : DType) (P : List (Pool D)) : List (Entry D) := P.flatMap (entriesOf ty)

/-- a pool of the container's type that passes `validate_pool` and whose details are of the container's kind; its name is
not the reserved `singlePoolName` (which `Pool(...)` and `add_pool` refuse: `C12.reserved_name_rejected`) -/
structure PoolOk (ops : DetailOps D) (ty : DType) (p : Pool D) : Prop where
  ty_ : p.ty = ty
  name : p.pid ≠ Gen.DelegConsts.singlePoolName
  deleg : p.deleg ≠ none
  on_ : p.on_ ≠ none
  for_ : p.for_ ≠ []
  details : match p.details with | none => False | some x => ops.kindOf x = ty

/-- the property's quantifier: valid pools with distinct ids -/
structure Family (ops : DetailOps D) (ty : DType) (P : List (Pool D)) : Prop where
  ok : ∀ p ∈ P, PoolOk ops ty p
  distinct : Distinct P

/-- the (node, delegation id) slots the family needs: one on the defining node, one per reference node -/
def clashKeys (P : List (Pool D)) : List (String × String) :=
  P.flatMap (fun p => (p.on_.getD "", p.deleg.getD "") :: p.for_.map (fun n => (n, p.deleg.getD "")))

/-- no node needs two entries under one delegation id -/
def NoClash (P : List (Pool D)) : Prop := (clashKeys P).Nodup

instance (P : List (Pool D)) : Decidable (NoClash P) := by unfold NoClash; infer_instance

theorem keys_allEntries (ty : DType) (P : List (Pool D)) : (allEntries ty P).map keyOf = clashKeys P := by
  simp [allEntries, clashKeys, List.map_flatMap, entriesOf, keyOf, defEntry, refEntry, Function.comp_def]

theorem distinct_eq {P : List (Pool D)} (h : Distinct P) {a b : Pool D} (ha : a ∈ P) (hb : b ∈ P)
    (hab : a.pid = b.pid) : a = b := by
  induction P with
  | nil => cases ha
  | cons x P ih =>
    have hd := List.pairwise_cons.mp h
    rcases List.mem_cons.mp ha with ha' | ha' <;> rcases List.mem_cons.mp hb with hb' | hb'
    · rw [ha', hb']
    · rw [ha'] at hab; exact absurd hab (hd.1 b hb')
    · rw [hb'] at hab; exact absurd hab.symm (hd.1 a ha')
    · exact ih hd.2 ha' hb'

/-! ### `add_pool` for each pool, then `build_index_by_delegation_id` -/

theorem putPool_fresh (p : Pool D) (Q : List (Pool D)) (h : ∀ q ∈ Q, q.pid ≠ p.pid) : putPool p Q = Q ++ [p] := by
  induction Q with
  | nil => rfl
  | cons a Q ih =>
    have := h a (by simp)
    simp [putPool, this, ih (fun q hq => h q (by simp [hq]))]

theorem addPool_fold (ty : DType) (P Q0 : List (Pool D)) (hty : ∀ p ∈ P, p.ty = ty)
    (hname : ∀ p ∈ P, p.pid ≠ Gen.DelegConsts.singlePoolName) (hd : Distinct (Q0 ++ P)) :
    P.foldlM addPool ({ ty := ty, byId := Q0, index := none } : Pools D)
      = .ok { ty := ty, byId := Q0 ++ P, index := none } := by
  induction P generalizing Q0 with
  | nil => simp [pure, Except.pure]
  | cons p P ih =>
    have hfresh : ∀ q ∈ Q0, q.pid ≠ p.pid := fun q hq => (List.pairwise_append.mp hd).2.2 q hq p (by simp)
    rw [List.foldlM_cons]
    have : addPool ({ ty := ty, byId := Q0, index := none } : Pools D) p
        = .ok { ty := ty, byId := Q0 ++ [p], index := none } := by
      simp [addPool, hty p (by simp), hname p (by simp), putPool_fresh p Q0 hfresh]
    rw [this]
    simp only [bind, Except.bind]
    have := ih (Q0 ++ [p]) (fun q hq => hty q (by simp [hq])) (fun q hq => hname q (by simp [hq]))
      (by simpa [List.append_assoc] using hd)
    simpa [List.append_assoc] using this

def flatIdx (idx : List (String × List (Pool D))) : List (Pool D) := idx.flatMap (·.2)
def KeysOk (idx : List (String × List (Pool D))) : Prop := ∀ e ∈ idx, ∀ p ∈ e.2, p.deleg = some e.1

theorem indexAdd_spec (k : String) (p : Pool D) (idx : List (String × List (Pool D))) (hk : p.deleg = some k)
    (h : KeysOk idx) : (flatIdx (indexAdd k p idx)).Perm (flatIdx idx ++ [p]) ∧ KeysOk (indexAdd k p idx) := by
  induction idx with
  | nil =>
    refine ⟨by simp [indexAdd, flatIdx], ?_⟩
    intro e he q hq
    simp only [indexAdd, List.mem_singleton] at he
    subst he
    simp only [List.mem_singleton] at hq
    subst hq; exact hk
  | cons e idx ih =>
    have htail : KeysOk idx := fun x hx => h x (by simp [hx])
    by_cases hek : e.1 = k
    · refine ⟨?_, ?_⟩
      · simp only [indexAdd, hek, if_true, flatIdx, List.flatMap_cons]
        exact perm_snoc_mid _ _ _
      · intro x hx q hq
        simp only [indexAdd, hek, if_true, List.mem_cons] at hx
        rcases hx with rfl | hx
        · simp only [List.mem_append, List.mem_singleton] at hq
          rcases hq with hq | rfl
          · rw [← hek]; exact h e (by simp) q hq
          · exact hk
        · exact htail x hx q hq
    · obtain ⟨ih1, ih2⟩ := ih htail
      refine ⟨?_, ?_⟩
      · simp only [indexAdd, hek, if_false, flatIdx, List.flatMap_cons, List.append_assoc]
        exact List.Perm.append_left _ ih1
      · intro x hx q hq
        simp only [indexAdd, hek, if_false, List.mem_cons] at hx
        rcases hx with rfl | hx
        · exact h x (by simp) q hq
        · exact ih2 x hx q hq

theorem validate_ok (ops : DetailOps D) (ty : DType) (p : Pool D) (h : PoolOk ops ty p) : validatePool p = .ok () := by
  have h4 : p.details.isNone = false := by
    have := h.details
    cases hd : p.details with
    | none => simp [hd] at this
    | some x => rfl
  simp [validatePool, h.deleg, h.on_, h.for_, h4]

theorem buildIndex_fold (ops : DetailOps D) (ty : DType) (P : List (Pool D)) (idx : List (String × List (Pool D)))
    (hP : ∀ p ∈ P, PoolOk ops ty p) (hidx : KeysOk idx) :
    ∃ idx', P.foldlM indexStep idx = .ok idx' ∧ (flatIdx idx').Perm (flatIdx idx ++ P) ∧ KeysOk idx' := by
  induction P generalizing idx with
  | nil => exact ⟨idx, rfl, by simp, hidx⟩
  | cons p P ih =>
    have hp := hP p (by simp)
    cases hk : p.deleg with
    | none => exact absurd hk hp.deleg
    | some k =>
      obtain ⟨s1, s2⟩ := indexAdd_spec k p idx hk hidx
      obtain ⟨idx', h1, h2, h3⟩ := ih (indexAdd k p idx) (fun q hq => hP q (by simp [hq])) s2
      refine ⟨idx', ?_, ?_, h3⟩
      · rw [List.foldlM_cons]
        simp only [indexStep, validate_ok ops ty p hp, hk, bind, Except.bind, pure, Except.pure]
        exact h1
      · have : flatIdx idx ++ p :: P = (flatIdx idx ++ [p]) ++ P := by simp
        rw [this]
        exact h2.trans (List.Perm.append_right P s1)

theorem buildPools_ok (ops : DetailOps D) (ty : DType) (P : List (Pool D)) (h : Family ops ty P) :
    ∃ idx, buildPools ty P = .ok { ty := ty, byId := P, index := some idx } ∧ (flatIdx idx).Perm P ∧ KeysOk idx := by
  obtain ⟨idx, h1, h2, h3⟩ := buildIndex_fold ops ty P [] h.ok (by intro e he; cases he)
  refine ⟨idx, ?_, by simpa [flatIdx] using h2, h3⟩
  have ha := addPool_fold ty P [] (fun p hp => (h.ok p hp).ty_) (fun p hp => (h.ok p hp).name) (by simpa using h.distinct)
  simp only [List.nil_append] at ha
  unfold buildPools emptyPools
  rw [ha]
  show buildIndex ({ ty := ty, byId := P, index := none } : Pools D) = _
  unfold buildIndex
  dsimp only
  rw [h1]
  rfl

/-! ### `generate_delegations_by_node_id` as a fold over the family's entries -/

theorem foldlM_congr {α β : Type} (f g : β → α → Except Err β) (l : List α) (b : β)
    (h : ∀ b, ∀ a ∈ l, f b a = g b a) : l.foldlM f b = l.foldlM g b := by
  induction l generalizing b with
  | nil => rfl
  | cons a l ih =>
    rw [List.foldlM_cons, List.foldlM_cons, h b a (by simp)]
    cases g b a with
    | error e => rfl
    | ok b' => exact ih b' (fun b x hx => h b x (by simp [hx]))

theorem foldlM_flatMap {α β γ : Type} (f : α → List β) (g : γ → β → Except Err γ) (l : List α) (c : γ) :
    (l.flatMap f).foldlM g c = l.foldlM (fun c a => (f a).foldlM g c) c := by
  induction l generalizing c with
  | nil => rfl
  | cons a l ih =>
    rw [List.flatMap_cons, List.foldlM_append, List.foldlM_cons]
    cases (f a).foldlM g c with
    | error e => rfl
    | ok c' => exact ih c'

theorem genPool_entries (ops : DetailOps D) (ty : DType) (p : Pool D) (ret : NodeDelegs D) (h : PoolOk ops ty p) :
    genPool ops ty (p.deleg.getD "") p ret = (entriesOf ty p).foldlM (fun r e => addAt ty e.1 e.2 r) ret := by
  have hdet := h.details
  cases hx : p.details with
  | none => simp [hx] at hdet
  | some x =>
    simp only [hx] at hdet
    cases hon : p.on_ with
    | none => exact absurd hon h.on_
    | some node =>
      have hname := h.name
      simp only [genPool, mkDelegation, hx, setDetails, hdet, hon, entriesOf, defEntry, refEntry, List.foldlM_cons,
        List.foldlM_map, bind, Except.bind, pure, Except.pure, Option.getD]
      simp [hname]

theorem generate_flat (ops : DetailOps D) (ty : DType) (idx : List (String × List (Pool D))) (r : NodeDelegs D)
    (hk : KeysOk idx) (hok : ∀ p ∈ flatIdx idx, PoolOk ops ty p) :
    idx.foldlM (fun ret e => e.2.foldlM (fun ret p => genPool ops ty e.1 p ret) ret) r
      = (allEntries ty (flatIdx idx)).foldlM (fun r e => addAt ty e.1 e.2 r) r := by
  rw [allEntries, foldlM_flatMap, flatIdx, foldlM_flatMap]
  apply foldlM_congr
  intro b e he
  apply foldlM_congr
  intro b' p hp
  have hp' : p ∈ flatIdx idx := by
    simp only [flatIdx, List.mem_flatMap]; exact ⟨e, he, hp⟩
  rw [← genPool_entries ops ty p b' (hok p hp'), hk e he p hp]
  rfl

/-! ### reading the generated dictionaries back -/

theorem incorporateAll_flat (ty : DType) (R : NodeDelegs D) (Q : List (Pool D)) (i : Option (List (String × List (Pool D))))
    (hR : ∀ e ∈ R, e.2.ty = ty) :
    incorporateAll ({ ty := ty, byId := Q, index := i } : Pools D) R
      = ((flat R).foldlM (fun l e => incOne ty e.1 l e.2) Q).map (fun l => { ty := ty, byId := l, index := i }) := by
  induction R generalizing Q with
  | nil => rfl
  | cons e R ih =>
    have hety := hR e (by simp)
    rw [flat_cons, List.foldlM_append, List.foldlM_map]
    simp only [incorporateAll, List.foldlM_cons, incorporate, hety, ne_eq, not_true_eq_false, if_false]
    cases hf : e.2.items.foldlM (incOne ty e.1) Q with
    | error err => simp [hf, bind, Except.bind, Except.map]
    | ok Q1 =>
      simp only [hf, bind, Except.bind, pure, Except.pure]
      exact ih Q1 (fun b hb => hR b (by simp [hb]))

theorem mem_allEntries (ty : DType) (P : List (Pool D)) (e : Entry D) :
    e ∈ allEntries ty P ↔ ∃ p ∈ P, e = (p.on_.getD "", defEntry ty p) ∨ ∃ n ∈ p.for_, e = (n, refEntry ty p) := by
  simp only [allEntries, List.mem_flatMap, entriesOf, List.mem_cons, List.mem_map]
  constructor
  · rintro ⟨p, hp, h | ⟨n, hn, rfl⟩⟩
    · exact ⟨p, hp, Or.inl h⟩
    · exact ⟨p, hp, Or.inr ⟨n, hn, rfl⟩⟩
  · rintro ⟨p, hp, h | ⟨n, hn, rfl⟩⟩
    · exact ⟨p, hp, Or.inl h⟩
    · exact ⟨p, hp, Or.inr ⟨n, hn, rfl⟩⟩

/-- any duplicate-free (by node and id) arrangement of the family's entries can be incorporated -/
theorem incorporable_of_family (ops : DetailOps D) (ty : DType) (P : List (Pool D)) (L : List (Entry D))
    (hF : Family ops ty P) (hmem : ∀ e ∈ L, e ∈ allEntries ty P) (hkeys : (L.map keyOf).Nodup) : Incorporable L := by
  refine ⟨?_, ?_, ?_, ?_⟩
  · intro e he _
    obtain ⟨p, _, h | ⟨n, _, h⟩⟩ := (mem_allEntries ty P e).mp (hmem e he) <;> subst h <;> simp [defEntry, refEntry]
  · intro e he _
    obtain ⟨p, hp, h | ⟨n, _, h⟩⟩ := (mem_allEntries ty P e).mp (hmem e he) <;> subst h <;>
      simpa [defEntry, refEntry] using (hF.ok p hp).name
  · intro e he hf
    obtain ⟨p, hp, h | ⟨n, _, h⟩⟩ := (mem_allEntries ty P e).mp (hmem e he) <;> subst h
    · have := (hF.ok p hp).details
      cases hd : p.details with
      | none => simp [hd] at this
      | some x => simp [defEntry, hd]
    · simp [refEntry] at hf
  · have hp := List.pairwise_map.mp (List.nodup_iff_pairwise_ne.mp hkeys)
    refine List.Pairwise.imp_of_mem ?_ hp
    intro a b ha hb hne hfa hfb hpool
    apply hne
    obtain ⟨p, hp, h | ⟨n, _, h⟩⟩ := (mem_allEntries ty P a).mp (hmem a ha) <;> subst h
    · obtain ⟨p', hp', h | ⟨n, _, h⟩⟩ := (mem_allEntries ty P b).mp (hmem b hb) <;> subst h
      · simp only [defEntry, Option.some.injEq] at hpool
        have := distinct_eq hF.distinct hp hp' hpool
        subst this; rfl
      · simp [refEntry] at hfb
    · simp [refEntry] at hfa

theorem mem_flat (R : NodeDelegs D) (n : String) (d : Delegation D) :
    (n, d) ∈ flat R ↔ ∃ e ∈ R, e.1 = n ∧ d ∈ e.2.items := by
  simp only [flat, List.mem_flatMap, List.mem_map, Prod.mk.injEq]
  constructor
  · rintro ⟨e, he, x, hx, rfl, rfl⟩; exact ⟨e, he, rfl, hx⟩
  · rintro ⟨e, he, rfl, hd⟩; exact ⟨e, he, d, hd, rfl, rfl⟩

/-- inside one node's dictionary the ids are distinct -/
theorem items_ids_distinct (R : NodeDelegs D) (h : ((flat R).map keyOf).Nodup) :
    ∀ e ∈ R, e.2.items.Pairwise (fun a b => a.id ≠ b.id) := by
  induction R with
  | nil => intro e he; cases he
  | cons x R ih =>
    rw [flat_cons, List.map_append] at h
    have hn := List.nodup_append.mp h
    intro e he
    rcases List.mem_cons.mp he with rfl | he
    · have h1 := List.nodup_iff_pairwise_ne.mp hn.1
      rw [List.pairwise_map, List.pairwise_map] at h1
      refine List.Pairwise.imp ?_ h1
      intro a b hab hid
      exact hab (by simp [keyOf, hid])
    · exact ih hn.2.1 e he

/-! ### single-resource delegations among the entries (they are ignored by `incorporate_delegation`) -/

/-- an entry that belongs to a pool: a definition or a reference -/
def nonSingle (e : Entry D) : Bool := decide (e.2.fmt ≠ .single)

theorem nonSingle_allEntries (ty : DType) (P : List (Pool D)) : ∀ e ∈ allEntries ty P, nonSingle e = true := by
  intro e he
  obtain ⟨p, _, h | ⟨n, _, h⟩⟩ := (mem_allEntries ty P e).mp he <;> subst h <;> simp [nonSingle, defEntry, refEntry]

/-- any arrangement whose definition / reference entries are the family's can be incorporated, whatever single-resource
delegations stand between them -/
theorem incorporable_with_singles (ops : DetailOps D) (ty : DType) (P : List (Pool D)) (L : List (Entry D))
    (hF : Family ops ty P) (hmem : ∀ e ∈ L, e.2.fmt ≠ .single → e ∈ allEntries ty P)
    (hkeys : ((L.filter nonSingle).map keyOf).Nodup) : Incorporable L := by
  refine ⟨?_, ?_, ?_, ?_⟩
  · intro e he hns
    obtain ⟨p, _, h | ⟨n, _, h⟩⟩ := (mem_allEntries ty P e).mp (hmem e he hns) <;> subst h <;> simp [defEntry, refEntry]
  · intro e he hns
    obtain ⟨p, hp, h | ⟨n, _, h⟩⟩ := (mem_allEntries ty P e).mp (hmem e he hns) <;> subst h <;>
      simpa [defEntry, refEntry] using (hF.ok p hp).name
  · intro e he hf
    obtain ⟨p, hp, h | ⟨n, _, h⟩⟩ := (mem_allEntries ty P e).mp (hmem e he (by rw [hf]; decide)) <;> subst h
    · have := (hF.ok p hp).details
      cases hd : p.details with
      | none => simp [hd] at this
      | some x => simp [defEntry, hd]
    · simp [refEntry] at hf
  · have hp := List.pairwise_filter.mp (List.pairwise_map.mp (List.nodup_iff_pairwise_ne.mp hkeys))
    refine List.Pairwise.imp_of_mem ?_ hp
    intro a b ha hb hne hfa hfb hpool
    have hna : a.2.fmt ≠ .single := by rw [hfa]; decide
    have hnb : b.2.fmt ≠ .single := by rw [hfb]; decide
    apply hne (by simp [nonSingle, hna]) (by simp [nonSingle, hnb])
    obtain ⟨p, hp, h | ⟨n, _, h⟩⟩ := (mem_allEntries ty P a).mp (hmem a ha hna) <;> subst h
    · obtain ⟨p', hp', h | ⟨n, _, h⟩⟩ := (mem_allEntries ty P b).mp (hmem b hb hnb) <;> subst h
      · simp only [defEntry, Option.some.injEq] at hpool
        have := distinct_eq hF.distinct hp hp' hpool
        subst this; rfl
      · simp [refEntry] at hfb
    · simp [refEntry] at hfa

/-! ### the nodes in another order -/

theorem flat_perm {R R' : NodeDelegs D} (h : R'.Perm R) : (flat R').Perm (flat R) := List.Perm.flatMap_right _ h

theorem rinv_perm (ty : DType) {R R' : NodeDelegs D} (h : R'.Perm R) (hR : RInv ty R) : RInv ty R' :=
  ⟨fun e he => hR.ty_ e (h.mem_iff.mp he),
   (h.pairwise_iff (fun hxy => Ne.symm hxy)).mpr hR.nodes,
   ((flat_perm h).map keyOf).nodup_iff.mpr hR.keys⟩

end FimVerif.C12
