import FimVerif.Proofs.Lemmas.StoreMerge
/-! C05: the shared store refines the reference model `AGraph.step` — foundations. Core only. -/
namespace FimVerif.Store
open FimVerif FimVerif.Gen.StoreConsts

def eraseG (n : SNode) : Props := AMap.erase graphId n.attrs

theorem abs_nodes (s : Store) (g : String) : (abs s g).nodes = (nodesOf s g).map eraseG := rfl
theorem abs_edges (s : Store) (g : String) :
    (abs s g).edges = (edgesOf s g).map (fun e => (nidOf (nodesOf s g) e.a, nidOf (nodesOf s g) e.b, e.attrs)) := rfl

theorem get_eraseG (k : String) (hk : k ≠ graphId) (n : SNode) : AMap.get k (eraseG n) = AMap.get k n.attrs :=
  AMap.get_erase_ne _ _ _ hk

theorem propClass_ne_graphId : propClass ≠ graphId := by decide
theorem propType_ne_graphId : propType ≠ graphId := by decide
theorem propName_ne_graphId : propName ≠ graphId := by decide
theorem nxLabel_ne_graphId : nxLabel ≠ graphId := by decide

theorem nidIs_eraseG (nid : String) (n : SNode) : AGraph.nidIs nid (eraseG n) = hasNid nid n := by
  simp [AGraph.nidIs, hasNid, get_eraseG nodeId nodeId_ne_graphId]

theorem attrIs_eraseG (k v : String) (hk : k ≠ graphId) (n : SNode) : AGraph.attrIs k v (eraseG n) = hasAttr k v n := by
  simp [AGraph.attrIs, hasAttr, get_eraseG k hk]

theorem filter_map_pred {α β : Type} (F : α → β) (p : β → Bool) (q : α → Bool) (l : List α) (h : ∀ a ∈ l, p (F a) = q a) :
    (l.map F).filter p = (l.filter q).map F := by
  induction l with
  | nil => rfl
  | cons a l ih =>
    have ih' := ih (fun b hb => h b (by simp [hb]))
    simp only [List.map_cons, List.filter_cons, h a (by simp), ih']
    cases q a <;> simp

/-- the candidates `_find_node` looks at -/
def cand (s : Store) (g nid : String) : List SNode := (nodesOf s g).filter (hasNid nid)

theorem findNode_cand (s : Store) (g nid : String) :
    findNode s g nid = match cand s g nid with | [] => .error .query | [n] => .ok n.iid | _ => .error .query := by
  unfold findNode cand nodesOf
  rw [List.filter_filter]
  have : (fun n => hasNid nid n && inG g n) = (fun a => hasNid nid a && inG g a) := rfl
  rfl

theorem find_cand (s : Store) (g nid : String) :
    AGraph.find (abs s g) nid = match cand s g nid with | [] => .error .query | [_] => .ok () | _ => .error .query := by
  unfold AGraph.find
  rw [abs_nodes, filter_map_pred eraseG (AGraph.nidIs nid) (hasNid nid) _ (fun a _ => nidIs_eraseG nid a)]
  unfold cand
  cases (nodesOf s g).filter (hasNid nid) with
  | nil => rfl
  | cons a l => cases l <;> rfl

/-- the refinement relation between a store result and a reference result for graph `g` -/
def Ref (g : String) (r : R) (r' : AGraph.AR) : Prop := outAbs r.1 = r'.1 ∧ abs r.2 g = r'.2

theorem ref_err (g : String) (s : Store) (e : Err) : Ref g (.error e, s) (.error e, abs s g) := ⟨rfl, rfl⟩

/-- lock-step through `_find_node` -/
theorem ref_withNode (s : Store) (g nid : String) (k : Nat → R) (k' : AGraph.AR)
    (hk : ∀ n, cand s g nid = [n] → Ref g (k n.iid) k') : Ref g (withNode s g nid k) (AGraph.withN (abs s g) nid k') := by
  unfold withNode AGraph.withN
  rw [findNode_cand, find_cand]
  cases hc : cand s g nid with
  | nil => exact ref_err g s _
  | cons a l =>
    cases l with
    | nil => exact hk a hc
    | cons b l => exact ref_err g s _

/-- facts about the unique candidate -/
theorem cand_single (s : Store) (h : Inv s) (g nid : String) (n : SNode) (hc : cand s g nid = [n]) :
    n ∈ s.nodes ∧ inG g n = true ∧ hasNid nid n = true ∧
    (∀ m ∈ nodesOf s g, (m.iid = n.iid ↔ hasNid nid m = true)) := by
  have hm : n ∈ cand s g nid := by rw [hc]; simp
  simp only [cand, nodesOf, List.mem_filter] at hm
  refine ⟨hm.1.1, hm.1.2, hm.2, ?_⟩
  intro m hmem
  constructor
  · intro e
    have : m = n := eq_of_nodup_map (·.iid) s.nodes h.1 m (List.mem_filter.1 hmem).1 n hm.1.1 e
    rw [this]; exact hm.2
  · intro hh
    have : m ∈ cand s g nid := by simp [cand, hmem, hh]
    rw [hc] at this
    simp at this
    rw [this]

theorem nidOf_map_upd (ns : List SNode) (c : SNode → Bool) (f : Props → Props)
    (hn : ∀ a, AMap.get nodeId (f a) = AMap.get nodeId a) (x : Nat) :
    nidOf (ns.map (fun n => if c n then { n with attrs := f n.attrs } else n)) x = nidOf ns x := by
  unfold nidOf
  rw [List.find?_map]
  have : ((fun n : SNode => n.iid == x) ∘ fun n => if c n then { n with attrs := f n.attrs } else n) = (fun n => n.iid == x) := by
    funext n; by_cases h : c n <;> simp [h]
  rw [this]
  cases ns.find? (fun n => n.iid == x) with
  | none => rfl
  | some n => by_cases h : c n <;> simp [h, hn]

/-- abstraction of a node-dictionary update on a subset `c` of the nodes -/
theorem abs_updNodes (s : Store) (g : String) (c : SNode → Bool) (f f' : Props → Props)
    (hg : ∀ a, AMap.get graphId (f a) = AMap.get graphId a)
    (hn : ∀ a, AMap.get nodeId (f a) = AMap.get nodeId a)
    (he : ∀ a, AMap.erase graphId (f a) = f' (AMap.erase graphId a)) (c' : Props → Bool)
    (hc : ∀ m ∈ nodesOf s g, c m = c' (eraseG m)) :
    abs { s with nodes := s.nodes.map (fun n => if c n then { n with attrs := f n.attrs } else n) } g =
      { abs s g with nodes := (abs s g).nodes.map (fun x => if c' x then f' x else x) } := by
  have hN : nodesOf { s with nodes := s.nodes.map (fun n => if c n then { n with attrs := f n.attrs } else n) } g =
      (nodesOf s g).map (fun n => if c n then { n with attrs := f n.attrs } else n) := by
    unfold nodesOf
    apply filter_map_comm
    intro n _
    by_cases h : c n <;> simp [h, inG_upd g n f hg]
  unfold abs absView edgesOf
  rw [hN]
  simp only [idIn_map_upd, nidOf_map_upd _ _ _ hn]
  congr 1
  simp only [List.map_map]
  apply List.map_congr_left
  intro m hm
  simp only [Function.comp]
  have := hc m hm
  simp only [eraseG] at this
  by_cases h : c m
  · rw [← this]; simp [h, he]
  · rw [← this]; simp [h]

end FimVerif.Store
