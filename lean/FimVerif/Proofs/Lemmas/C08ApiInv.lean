import FimVerif.Proofs.Lemmas.C08Disc
/-! The user-level removal calls under the invariant: which interfaces `_disconnect_interfaces` visits in the current
graph, and the calls themselves (`ResA`: the pre-state minus `A` plus everything owned, invariant re-established). -/
namespace FimVerif.Remove

theorem mem_nbrs_minus (g : G) (A : List Nat) (x : Nat) (r : Rel) (c : Cls) (y : Nat) :
    y ∈ (g.minus A).nbrs x r c ↔ x ∉ A ∧ y ∈ g.nbrs x r c ∧ y ∉ A := by
  by_cases hx : x ∈ A
  · rw [nbrs_minus_gone g A x r c (by simpa [List.contains_eq_mem] using hx)]; simp [hx]
  · rw [nbrs_minus g A x r c (by simpa [List.contains_eq_mem] using hx)]
    simp [List.mem_filter, List.contains_eq_mem, hx]

theorem mem_withSubs_iff (g : G) (a i : Nat) :
    i ∈ withSubs g a ↔ i = a ∨ (g.kind? a = some kDedicatedPort ∧ i ∈ g.nbrs a .connects .cp) := by
  simp only [withSubs, List.mem_cons]
  by_cases hk : g.kind? a = some kDedicatedPort <;> simp [hk]

/-- the sub-interface list of a handle in the current graph: what is still there of the one in the pre-state -/
theorem mem_withSubs_minus (g : G) (A : List Nat) (a : Nat) (haA : a ∉ A) (i : Nat) :
    i ∈ withSubs (g.minus A) a ↔ i ∈ withSubs g a ∧ i ∉ A := by
  have haA' : A.contains a = false := by simpa [List.contains_eq_mem] using haA
  rw [mem_withSubs_iff, mem_withSubs_iff, kind_minus, haA', mem_nbrs_minus]
  simp only [Bool.false_eq_true, ite_false]
  constructor
  · rintro (rfl | ⟨hk, _, hi, hiA⟩)
    · exact ⟨Or.inl rfl, haA⟩
    · exact ⟨Or.inr ⟨hk, hi⟩, hiA⟩
  · rintro ⟨rfl | ⟨hk, hi⟩, hiA⟩
    · exact Or.inl rfl
    · exact Or.inr ⟨hk, haA, hi, hiA⟩

/-- `_disconnect_interfaces` over a list of ports: the current graph's view -/
theorem mem_deepIfs_minus (g : G) (A : List Nat) (hF : FamC g A) (Lc Lg : List Nat)
    (hL : ∀ a, a ∈ Lc ↔ a ∈ Lg ∧ a ∉ A) (hLg : ∀ a ∈ Lg, g.cls? a = some .cp ∧ isSub g a = false) (i : Nat) :
    i ∈ deepIfs (g.minus A) Lc ↔ i ∈ deepIfs g Lg ∧ i ∉ A := by
  simp only [deepIfs, List.mem_flatMap]
  constructor
  · rintro ⟨a, ha, hi⟩
    obtain ⟨hag, haA⟩ := (hL a).mp ha
    obtain ⟨h1, h2⟩ := (mem_withSubs_minus g A a haA i).mp hi
    exact ⟨⟨a, hag, h1⟩, h2⟩
  · rintro ⟨⟨a, hag, hi⟩, hiA⟩
    have haA : a ∉ A := by
      rcases (mem_withSubs_iff g a i).mp hi with rfl | ⟨_, hin⟩
      · exact hiA
      · exact fun h => hiA ((hF a (hLg a hag).1 (hLg a hag).2 i hin).mpr h)
    exact ⟨a, (hL a).mpr ⟨hag, haA⟩, (mem_withSubs_minus g A a haA i).mpr ⟨hi, hiA⟩⟩

theorem mem_directIfs (g : G) (p a : Nat) :
    a ∈ directIfs g p ↔ ∃ s ∈ g.nbrs p .has .ns, a ∈ g.nbrs s .connects .cp := by
  simp [directIfs, List.mem_flatMap]

theorem directIfs_port {g : G} {p a : Nat} (h : a ∈ directIfs g p) : g.cls? a = some .cp ∧ isSub g a = false := by
  obtain ⟨s, hs, ha⟩ := (mem_directIfs g p a).mp h
  exact ⟨mem_nbrs_cls _ _ _ _ _ ha, port_not_sub (mem_nbrs_cls _ _ _ _ _ hs) ha⟩

theorem mem_directIfs_minus (g : G) (A : List Nat) (hD : DownC g A) (p : Nat) (hpA : p ∉ A) (a : Nat) :
    a ∈ directIfs (g.minus A) p ↔ a ∈ directIfs g p ∧ a ∉ A := by
  simp only [mem_directIfs, mem_nbrs_minus]
  constructor
  · rintro ⟨s, ⟨_, hs, _⟩, _, ha, haA⟩; exact ⟨⟨s, hs, ha⟩, haA⟩
  · rintro ⟨⟨s, hs, ha⟩, haA⟩
    have hsns := mem_nbrs_cls _ _ _ _ _ hs
    have hsA : s ∉ A := fun h => haA (hD s h a (by simp only [children, hsns]; exact ha))
    exact ⟨s, ⟨hpA, hs, hsA⟩, hsA, ha, haA⟩

theorem mem_ifaceListNode (g : G) (n a : Nat) :
    a ∈ ifaceListNode g n ↔ a ∈ directIfs g n ∨ ∃ c ∈ g.nbrs n .has .comp, a ∈ directIfs g c := by
  simp [ifaceListNode, List.mem_flatMap]

theorem mem_ifaceListNode_minus (g : G) (A : List Nat) (hD : DownC g A) (n : Nat)
    (hnA : n ∉ A) (a : Nat) : a ∈ ifaceListNode (g.minus A) n ↔ a ∈ ifaceListNode g n ∧ a ∉ A := by
  rw [mem_ifaceListNode, mem_ifaceListNode, mem_directIfs_minus g A hD n hnA]
  constructor
  · rintro (h | ⟨c, hcn, h⟩)
    · exact ⟨Or.inl h.1, h.2⟩
    · obtain ⟨hcA, hcg, _⟩ := (mem_nbrs_minus g A n _ _ c).mp hcn
      have hcA' : c ∉ A := ((mem_nbrs_minus g A n _ _ c).mp hcn).2.2
      obtain ⟨h1, h2⟩ := (mem_directIfs_minus g A hD c hcA' a).mp h
      exact ⟨Or.inr ⟨c, hcg, h1⟩, h2⟩
  · rintro ⟨h | ⟨c, hcn, h⟩, haA⟩
    · exact Or.inl ⟨h, haA⟩
    · obtain ⟨s, hs, ha⟩ := (mem_directIfs g c a).mp h
      have hsns := mem_nbrs_cls _ _ _ _ _ hs
      have hccomp := mem_nbrs_cls _ _ _ _ _ hcn
      have hsA : s ∉ A := fun h => haA (hD s h a (by simp only [children, hsns]; exact ha))
      have hcA : c ∉ A := fun h => hsA (hD c h s (by simp only [children, hccomp]; exact hs))
      exact Or.inr ⟨c, (mem_nbrs_minus g A n _ _ c).mpr ⟨hnA, hcn, hcA⟩, (mem_directIfs_minus g A hD c hcA a).mpr ⟨h, haA⟩⟩


theorem bind_eq {α β : Type} (m : Except Err α) (f : α → Except Err β) : (m >>= f) = m.bind f := rfl

theorem not_portOf_of_cls {g : G} {j x : Nat} {k : Cls} (hx : g.cls? x = some k) (hk : k ≠ .cp) : ¬ PortOf g j x := by
  intro h; rw [(portOf_cls h).2.1] at hx; exact hk (Option.some.inj hx).symm

/-- **`Topology.remove_network_service` / `Node.remove_network_service` / `_prune_ns`** after `A` -/
theorem removeNsApi_resA (g : G) (hW : WF g = true) (A : List Nat) (hA : InvA g A) (s : Nat)
    (hc : g.cls? s = some .ns) (hsA : s ∉ A) : ResA g A (Own g s) (removeNsApi (g.minus A) s) := by
  have hI := wf_cp hW
  have hsA' : A.contains s = false := by simpa [List.contains_eq_mem] using hsA
  have hc' : (g.minus A).cls? s = some .ns := by rw [cls_minus, hsA']; simpa using hc
  simp only [removeNsApi, hc', beq_self_eq_true, ite_true, bind_eq]
  apply api_res g hW A hA s hc (by decide) hsA _ (fun g1 => removeNs g1 s)
  · intro i
    show i ∈ deepIfs (g.minus A) _ ↔ _
    rw [mem_deepIfs_minus g A hA.1.2 _ (g.nbrs s .connects .cp) (fun a => by rw [mem_nbrs_minus]; simp [hsA])
      (fun a ha => ⟨mem_nbrs_cls _ _ _ _ _ ha, port_not_sub hc ha⟩) i, mem_deepIfs_ns g hI s hc i, and_assoc]
  · exact fun j _ => not_portOf_of_cls hc (by decide)
  · exact fun A1 h1 _ h3 => removeNs_res g hW A1 h1 s hc h3

/-- **`Node.remove_component` / `_prune_components`** after `A` -/
theorem removeComponentApi_resA (g : G) (hW : WF g = true) (A : List Nat) (hA : InvA g A) (c : Nat)
    (hc : g.cls? c = some .comp) (hcA : c ∉ A) : ResA g A (Own g c) (removeComponentApi (g.minus A) c) := by
  have hI := wf_cp hW
  have hcA' : A.contains c = false := by simpa [List.contains_eq_mem] using hcA
  have hc' : (g.minus A).cls? c = some .comp := by rw [cls_minus, hcA']; simpa using hc
  simp only [removeComponentApi, hc', beq_self_eq_true, ite_true, bind_eq]
  apply api_res g hW A hA c hc (by decide) hcA _ (fun g1 => removeComp g1 c)
  · intro i
    show i ∈ deepIfs (g.minus A) _ ↔ _
    rw [mem_deepIfs_minus g A hA.1.2 (ifaceListComp (g.minus A) c) (ifaceListComp g c) (fun a => mem_directIfs_minus g A hA.2.1 c hcA a)
      (fun a ha => directIfs_port ha) i, mem_deepIfs_comp g hI c hc i, and_assoc]
  · exact fun j _ => not_portOf_of_cls hc (by decide)
  · exact fun A1 h1 h2 h3 => removeComp_res g hW A1 h1 h2 c hc h3

theorem ifaceListNode_port {g : G} {n a : Nat} (h : a ∈ ifaceListNode g n) : g.cls? a = some .cp ∧ isSub g a = false := by
  rcases (mem_ifaceListNode g n a).mp h with h | ⟨c, _, h⟩
  · exact directIfs_port h
  · exact directIfs_port h

/-- the common body of `Topology.remove_node` and `remove_facility` -/
theorem removeNodeBody_resA (g : G) (hW : WF g = true) (A : List Nat) (hA : InvA g A) (n : Nat)
    (hc : g.cls? n = some .node) (hnA : n ∉ A) :
    ResA g A (Own g n) ((disconnectDeep (g.minus A) (ifaceListNode (g.minus A) n)).bind (fun g1 => removeNodeG g1 n)) := by
  have hI := wf_cp hW
  apply api_res g hW A hA n hc (by decide) hnA _ (fun g1 => removeNodeG g1 n)
  · intro i
    show i ∈ deepIfs (g.minus A) _ ↔ _
    rw [mem_deepIfs_minus g A hA.1.2 _ (ifaceListNode g n) (fun a => mem_ifaceListNode_minus g A hA.2.1 n hnA a)
      (fun a ha => ifaceListNode_port ha) i, mem_deepIfs_node g hI n hc i, and_assoc]
  · exact fun j _ => not_portOf_of_cls hc (by decide)
  · exact fun A1 h1 h2 h3 => removeNodeG_res g hW A1 h1 h2 n hc h3

/-- **`Topology.remove_node` / `_prune_node`** after `A` -/
theorem removeNodeApi_resA (g : G) (hW : WF g = true) (A : List Nat) (hA : InvA g A) (n : Nat)
    (hc : g.cls? n = some .node) (hk : g.kind? n ≠ some kFacility) (hnA : n ∉ A) :
    ResA g A (Own g n) (removeNodeApi (g.minus A) n) := by
  have hnA' : A.contains n = false := by simpa [List.contains_eq_mem] using hnA
  have hk' : ((g.minus A).cls? n == some .node && (g.minus A).kind? n != some kFacility) = true := by
    rw [cls_minus, kind_minus, hnA']; simp [hc, hk]
  simp only [removeNodeApi, hk', ite_true, bind_eq]
  exact removeNodeBody_resA g hW A hA n hc hnA

/-- **`Topology.remove_facility`** after `A` -/
theorem removeFacilityApi_resA (g : G) (hW : WF g = true) (A : List Nat) (hA : InvA g A) (n : Nat)
    (hc : g.cls? n = some .node) (hk : g.kind? n = some kFacility) (hnA : n ∉ A) :
    ResA g A (Own g n) (removeFacilityApi (g.minus A) n) := by
  have hnA' : A.contains n = false := by simpa [List.contains_eq_mem] using hnA
  have hk' : ((g.minus A).cls? n == some .node && (g.minus A).kind? n == some kFacility) = true := by
    rw [cls_minus, kind_minus, hnA']; simp [hc, hk]
  simp only [removeFacilityApi, hk', ite_true, bind_eq]
  exact removeNodeBody_resA g hW A hA n hc hnA

/-- **`Topology.remove_switch`** after `A` -/
theorem removeSwitchApi_resA (g : G) (hW : WF g = true) (A : List Nat) (hA : InvA g A) (n : Nat)
    (hc : g.cls? n = some .node) (hk : g.kind? n = some kSwitch) (hnA : n ∉ A) :
    ResA g A (Own g n) (removeSwitchApi (g.minus A) n) := by
  have hnA' : A.contains n = false := by simpa [List.contains_eq_mem] using hnA
  have hk' : ((g.minus A).cls? n == some .node && (g.minus A).kind? n == some kSwitch) = true := by
    rw [cls_minus, kind_minus, hnA']; simp [hc, hk]
  simp only [removeSwitchApi, hk', ite_true]
  exact removeNodeApi_resA g hW A hA n hc (by rw [hk]; decide) hnA

/-- **`_prune_interface`** (an interface attached to a service) after `A` -/
theorem pruneIface_resA (g : G) (hW : WF g = true) (A : List Nat) (hA : InvA g A) (i : Nat)
    (hc : g.cls? i = some .cp) (hs : isSub g i = false) (hiA : i ∉ A) :
    ResA g A (Own g i) ((disconnectDeep (g.minus A) [i]).bind (fun g1 => removeCp g1 i true)) := by
  have hI := wf_cp hW
  have hP := wf_peer hW
  apply api_res g hW A hA i hc (by decide) hiA _ (fun g1 => removeCp g1 i true)
  · intro j
    show j ∈ deepIfs (g.minus A) [i] ↔ _
    rw [mem_deepIfs_minus g A hA.1.2 [i] [i] (fun a => by simp only [List.mem_singleton]; exact ⟨fun h => ⟨h, h ▸ hiA⟩, fun h => h.1⟩)
      (fun a ha => by simp only [List.mem_singleton] at ha; subst ha; exact ⟨hc, hs⟩) j]
    have : deepIfs g [i] = withSubs g i := by simp [deepIfs]
    rw [this, mem_withSubs g hI i hc hs j]
    exact ⟨fun h => ⟨h.1, below_cp_cls g hI i hc hs j h.1, h.2⟩, fun h => ⟨h.1, h.2.2⟩⟩
  · intro j hb hp
    rcases (below_cp_top hI hc hs j).mp hb with rfl | hj
    · obtain ⟨_, _, _, hne, _⟩ := hp; exact hne rfl
    · rw [(invPeer_cp hP hc).2 (portOf_cls hp).2.2] at hj; cases hj
  · exact fun A1 h1 _ h3 => removeCpTop_below g hW A1 h1 i hc hs h3

end FimVerif.Remove
