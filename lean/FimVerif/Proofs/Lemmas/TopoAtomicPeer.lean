import FimVerif.Proofs.Lemmas.TopoAtomicFac
/-! `NetworkService.peer` with the clean-up of commit 277fd8f: a ServicePort on each service, then the link; when the second
port or the link cannot be created the port(s) made so far are removed again, and the model is what it was. -/
namespace FimVerif.Topo
open FimVerif FimVerif.M

theorem flag_peerRollback : Gen.Rules.peerRollback = true := by decide

/-- removing a ConnectionPoint with no ConnectionPoint and no Link next to it deletes just that node -/
theorem removeCp_leaf {t : Topo} (hd : IdsDistinct t) {c : GNode} (hc : c ∈ t.nodes)
    (h1 : neighbors t c.ref .connects .connectionPoint = []) (h2 : neighbors t c.ref .connects .link = []) (dp : Bool) :
    removeCpAndLinks c.nid dp t = (.ok (), dropNode c.ref t) := by
  unfold removeCpAndLinks
  rw [bind_ok (firstNeighbor_run hd hc .connects .connectionPoint), h1]
  rw [List.map_nil, bind_ok (filterMapM'_nil _ t)]
  have e1 : ([c.nid] : List Nid).eraseDups = [c.nid] := by simp [List.eraseDups_cons]
  obtain ⟨links, hlinks, hP⟩ := mapM'_run
    (f := fun i => do
      let ls ← firstNeighbor i .connects .link
      M.filterMapM' (fun l => do
        let cps ← firstNeighbor l .connects .connectionPoint
        Pure.pure (if cps.length == 2 then some l else none)) ls)
    (P := fun l : List Nid => l = []) (s := t) [c.nid] (by
      intro b hb
      simp only [List.mem_singleton] at hb
      subst hb
      exact ⟨[], by rw [bind_ok (firstNeighbor_run hd hc .connects .link), h2]; rfl, rfl⟩)
  rw [e1, bind_ok hlinks]
  have hfl : links.flatten = [] := by rw [List.flatten_eq_nil_iff]; exact hP
  rw [hfl, List.append_nil, e1, forEach_cons_ok (deleteNode_run hd hc)]
  rfl

/-- `t` plus a fresh ConnectionPoint `n` under `pn` -/
def addLeaf (t : Topo) (pn n : GNode) : Topo :=
  { nodes := t.nodes ++ [n], edges := t.edges ++ [⟨pn.ref, n.ref, .connects⟩] }

structure LeafOk (t : Topo) (pn n : GNode) : Prop where
  closed : Closed t
  dt : IdsDistinct t
  fresh : ∀ m ∈ t.nodes, m.nid ≠ n.nid
  pmem : pn ∈ t.nodes
  pcls : pn.cls = .networkService

section
variable {t : Topo} {pn n : GNode}

theorem LeafOk.dist (h : LeafOk t pn n) : IdsDistinct (addLeaf t pn n) := idsDistinct_push (n := n) h.dt h.fresh

theorem LeafOk.closed' (h : LeafOk t pn n) : Closed (addLeaf t pn n) := by
  intro e he
  simp only [addLeaf, List.mem_append, List.mem_singleton] at he
  rcases he with he | rfl
  · obtain ⟨⟨x, hx, hxe⟩, ⟨y, hy, hye⟩⟩ := h.closed e he
    exact ⟨⟨x, by simp [addLeaf, hx], hxe⟩, ⟨y, by simp [addLeaf, hy], hye⟩⟩
  · exact ⟨⟨pn, by simp [addLeaf, h.pmem], rfl⟩, ⟨n, by simp [addLeaf], rfl⟩⟩

theorem drop_leaf (h : LeafOk t pn n) : dropNode n.ref (addLeaf t pn n) = t := by
  cases t with
  | mk ns es =>
    unfold dropNode addLeaf
    have h1 := filter_nodes_new (s := ⟨ns, es⟩) h.fresh
    have h2 := filter_untouched (s := ⟨ns, es⟩) h.closed h.fresh
    simp only [] at h1 h2
    simp only [List.filter_append, h1, h2]
    simp

/-- in `u`, an extension of `addLeaf t pn n` by things that do not touch `n`, the only neighbour of `n` is `pn` -/
theorem leaf_nb {u : Topo} (h : LeafOk t pn n) (L : Cls) (hL : L ≠ .networkService)
    (hedges : ∀ e ∈ u.edges, (e.a = n.ref ∨ e.b = n.ref) → e = ⟨pn.ref, n.ref, .connects⟩) :
    neighbors u n.ref .connects L = [] := by
  unfold neighbors
  rw [List.filter_eq_nil_iff]
  intro m _ hp
  simp only [Bool.and_eq_true, beq_iff_eq] at hp
  obtain ⟨hc, hadj⟩ := hp
  rw [adjacent_iff] at hadj
  obtain ⟨e, he, _, hs⟩ := hadj
  rw [sameEnds_iff] at hs
  have hnp : n.ref ≠ pn.ref := fun e => h.fresh pn h.pmem (nid_of_ref_eq e).symm
  rcases hs with ⟨a, b⟩ | ⟨a, b⟩
  · have := hedges e he (.inl a)
    subst this
    exact hnp a.symm
  · have := hedges e he (.inr b)
    subst this
    simp only at a
    have : m.cls = .networkService := by rw [← h.pcls]; exact cls_of_ref_eq a.symm
    exact hL (by rw [← hc, this])

theorem removeLeaf (h : LeafOk t pn n) : removeCpAndLinks n.nid true (addLeaf t pn n) = (.ok (), t) := by
  have hnt := not_touch_new h.closed h.fresh
  have hedges : ∀ e ∈ (addLeaf t pn n).edges, (e.a = n.ref ∨ e.b = n.ref) → e = ⟨pn.ref, n.ref, .connects⟩ := by
    intro e he ht
    simp only [addLeaf, List.mem_append, List.mem_singleton] at he
    rcases he with he | he
    · exact (hnt ⟨e, he, ht⟩).elim
    · exact he
  rw [removeCp_leaf h.dist (by simp [addLeaf]) (leaf_nb h _ (by intro e; cases e) hedges) (leaf_nb h _ (by intro e; cases e) hedges) true,
    drop_leaf h]

end
theorem tryCatch_ok {α : Type} {m : M Topo α} {p : Err → Bool} {h : Err → M Topo α} {t t' : Topo} {a : α}
    (hm : m t = (.ok a, t')) : M.tryCatch m p h t = (.ok a, t') := by simp only [M.tryCatch, hm]

def LeafQ (u : Topo) (svc : Nid) (c : Nat) (r : Except Err (Nid × Nat) × Topo) : Prop :=
  (∃ e, r = (.error e, u)) ∨
  (∃ pn n, pn ∈ u.nodes ∧ pn.nid = svc ∧ (∀ m ∈ u.nodes, m.nid ≠ n.nid) ∧ n.nid = .gen c ∧ r = (.ok (.gen c, c + 1), addLeaf u pn n))
theorem LeafQ.err {u svc c} (e : Err) : LeafQ u svc c (.error e, u) := .inl ⟨e, rfl⟩

/-- `add_interface(node_id=None)` on a service handle: raises in the state it started from, or hangs one fresh ConnectionPoint off the service -/
theorem nsAddInterface_leaf (fl : Flavour) (c : Nat) (svc : Nid) (cache : Cache) (name : String) (ty : Option String)
    (props : List PropArg) (u : Topo) (hc : Closed u) :
    LeafQ u svc c (nsAddInterface fl c svc cache name none ty props u) := by
  unfold nsAddInterface
  refine ro_step (by ro) LeafQ.err (fun _ _ => ?_)
  rcases ifaceNew_cases fl c name none svc ty props u with ⟨e, he⟩ | ⟨pn, n, hpn, hfr, _, hnid, _, _, _, hres⟩
  · exact .inl ⟨e, he⟩
  · obtain ⟨hpm, hpi, _⟩ := findNode_ok hpn
    have hnt : ¬ touches (pushNode n u).edges n.ref :=
      not_touches_of_closed (t := u) hc (fun m hm => ref_ne_of_nid_ne (hfr m hm))
    rw [setEdge_fresh hnt] at hres
    exact .inr ⟨pn, n, hpm, hpi, hfr, by simpa [pick] using hnid, by rw [hres]; rfl⟩

theorem drop_first {s : Topo} {pn n1 po n2 : GNode} (h1 : LeafOk s pn n1) (h2 : LeafOk s po n2) (hne : n2.nid ≠ n1.nid) :
    dropNode n1.ref (addLeaf (addLeaf s pn n1) po n2) = addLeaf s po n2 := by
  cases s with
  | mk ns es =>
    unfold dropNode addLeaf
    have a1 := filter_nodes_new (s := ⟨ns, es⟩) h1.fresh
    have a2 := filter_untouched (s := ⟨ns, es⟩) h1.closed h1.fresh
    simp only [] at a1 a2
    have b1 : ¬ n2.ref = n1.ref := ref_ne_of_nid_ne hne
    have b2 : ¬ po.ref = n1.ref := fun e => h1.fresh po h2.pmem (nid_of_ref_eq e)
    simp only [List.filter_append, a1, a2]
    simp [b1, b2]

/-- `NetworkService.peer` -/
theorem peer_fs (fl : Flavour) (c : Nat) (svc : Nid) (sname : String) (cache : Cache) (other : Option SvcHandle)
    (props : List PropArg) (s : Topo) (hd : IdsDistinct s) (hc : Closed s)
    (hsvc : ∀ m ∈ s.nodes, m.nid = svc → m.cls = .networkService)
    (hoth : ∀ o, other = some o → (∀ m ∈ s.nodes, m.nid = o.nid → m.cls = .networkService) ∧ o.nid ≠ .gen c) :
    FS s (peer fl c svc sname cache other props s) := by
  unfold peer
  cases other with
  | none => exact FS.err _
  | some o =>
    obtain ⟨hocls, hogen⟩ := hoth o rfl
    simp only [flag_peerRollback, if_true]
    rcases nsAddInterface_leaf fl c svc cache (sname ++ "-" ++ o.name) (some "ServicePort") props s hc with ⟨e, he⟩ | ⟨pn, n1, hpm, hpi, hfr1, hn1, hr1⟩
    · rw [bind_err he]; exact FS.err e
    · rw [bind_ok hr1]
      simp only []
      have L1 : LeafOk s pn n1 := ⟨hc, hd, hfr1, hpm, hsvc pn hpm hpi⟩
      rcases nsAddInterface_leaf fl (c + 1) o.nid o.cache (o.name ++ "-" ++ sname) (some "ServicePort") [] (addLeaf s pn n1) L1.closed'
        with ⟨e, he⟩ | ⟨po, n2, hpom, hpoi, hfr2, hn2, hr2⟩
      · have htc : M.tryCatch (nsAddInterface fl (c + 1) o.nid o.cache (o.name ++ "-" ++ sname) none (some "ServicePort") [])
            (fun _ => true) (fun e => do M.forEach [Nid.gen c] (fun i => removeCpAndLinks i true); raise e) (addLeaf s pn n1) = (.error e, s) := by
          simp only [M.tryCatch, he, if_true]
          rw [bind_ok (m := M.forEach [Nid.gen c] fun i => removeCpAndLinks i true) (a := ()) (s' := s) (by
            rw [forEach_cons_ok (f := fun i => removeCpAndLinks i true) (x := Nid.gen c) (by rw [← hn1]; exact removeLeaf L1)]; rfl)]
          rfl
        rw [bind_err htc]; intro _; rfl
      · have hpo_old : po ∈ s.nodes := by
          simp only [addLeaf, List.mem_append, List.mem_singleton] at hpom
          rcases hpom with h | h
          · exact h
          · subst h; exact absurd (hpoi.symm.trans hn1) hogen
        have L2 : LeafOk s po n2 := ⟨hc, hd, fun m hm => hfr2 m (by simp [addLeaf, hm]), hpo_old, hocls po hpo_old hpoi⟩
        have L2' : LeafOk (addLeaf s pn n1) po n2 := ⟨L1.closed', L1.dist, hfr2, hpom, L2.pcls⟩
        have hne : n2.nid ≠ n1.nid := fun e => hfr2 n1 (by simp [addLeaf]) e.symm
        have htc2 : M.tryCatch (nsAddInterface fl (c + 1) o.nid o.cache (o.name ++ "-" ++ sname) none (some "ServicePort") [])
            (fun _ => true) (fun e => do M.forEach [Nid.gen c] (fun i => removeCpAndLinks i true); raise e) (addLeaf s pn n1) =
            (.ok (.gen (c + 1), c + 1 + 1), addLeaf (addLeaf s pn n1) po n2) := by
          simp only [M.tryCatch, hr2]
        rw [bind_ok htc2]
        simp only []
        rcases linkNew_cases fl (c + 1 + 1) (sname ++ "-" ++ o.name ++ "-link") none (some "L2Path")
            [.iface (.gen c) (sname ++ "-" ++ o.name), .iface (.gen (c + 1)) (o.name ++ "-" ++ sname)] none []
            (addLeaf (addLeaf s pn n1) po n2) L2'.dist with ⟨e, he⟩ | ⟨ln, _, _, _, _, hres⟩
        · -- the link is rejected: both ports are removed again, oldest first
          have hrm1 : removeCpAndLinks (Nid.gen c) true (addLeaf (addLeaf s pn n1) po n2) = (.ok (), addLeaf s po n2) := by
            have hedges : ∀ e ∈ (addLeaf (addLeaf s pn n1) po n2).edges, (e.a = n1.ref ∨ e.b = n1.ref) → e = ⟨pn.ref, n1.ref, .connects⟩ := by
              intro e he ht
              simp only [addLeaf, List.mem_append, List.mem_singleton] at he
              rcases he with (he | he) | he
              · exact (not_touch_new hc hfr1 ⟨e, he, ht⟩).elim
              · exact he
              · subst he
                rcases ht with ht | ht
                · exact absurd (nid_of_ref_eq ht) (fun e => hfr1 po hpo_old e)
                · exact absurd (nid_of_ref_eq ht) hne
            rw [← hn1, removeCp_leaf L2'.dist (by simp [addLeaf]) (leaf_nb L1 _ (by intro e; cases e) hedges)
              (leaf_nb L1 _ (by intro e; cases e) hedges) true, drop_first L1 L2 hne]
          have htc3 : M.tryCatch (linkNew fl (c + 1 + 1) (sname ++ "-" ++ o.name ++ "-link") none (some "L2Path")
              (some [.iface (.gen c) (sname ++ "-" ++ o.name), .iface (.gen (c + 1)) (o.name ++ "-" ++ sname)]) none [])
              (fun _ => true) (fun e => do M.forEach [Nid.gen c, Nid.gen (c + 1)] (fun i => removeCpAndLinks i true); raise e)
              (addLeaf (addLeaf s pn n1) po n2) = (.error e, s) := by
            simp only [M.tryCatch, he, if_true]
            rw [bind_ok (m := M.forEach [Nid.gen c, Nid.gen (c + 1)] fun i => removeCpAndLinks i true) (a := ()) (s' := s) (by
              rw [forEach_cons_ok (f := fun i => removeCpAndLinks i true) (x := Nid.gen c) hrm1,
                forEach_cons_ok (f := fun i => removeCpAndLinks i true) (x := Nid.gen (c + 1)) (by rw [← hn2]; exact removeLeaf L2)]
              rfl)]
            rfl
          rw [bind_err htc3]; intro _; rfl
        · rw [bind_ok (tryCatch_ok hres)]
          intro hf; simp at hf

end FimVerif.Topo
