import FimVerif.Model.Cypher
/-!
Helper lemmas for C19: rendering a value-free template does not look at stored values.
`RowSim` / `EnvSim`-style statements are phrased through `erase` (forget values, keep names and shapes).
-/
namespace FimVerif.Cypher

/-- two rows agree on everything a value-free body can observe -/
def RowSim (r1 r2 : Row) : Prop := r1.idents = r2.idents ∧ r1.values.map Prod.fst = r2.values.map Prod.fst

theorem RowSim.erase (r : Row) : RowSim r r.erase := by
  refine ⟨rfl, ?_⟩
  simp [Row.erase, List.map_map, Function.comp_def]

theorem any_fst (l : List (Text × Text)) (f : Text) :
    l.any (fun p => p.1 == f) = (l.map Prod.fst).any (fun x => x == f) := by
  simp [List.any_map, Function.comp_def]

theorem Row.has_sim {r1 r2 : Row} (h : RowSim r1 r2) (f : Text) : r1.has f = r2.has f := by
  unfold Row.has
  rw [any_fst r1.values, any_fst r2.values, h.1, h.2]

theorem Atom.render_sim {a : Atom} (ha : a.vf = true) {e1 e2 : Env} (he : e1.idents = e2.idents)
    {r1 r2 : Row} (hr : RowSim r1 r2) : a.render e1 r1 = a.render e2 r2 := by
  cases a <;> simp_all [Atom.render, Atom.vf, RowSim]

theorem renderAtoms_sim {as : List Atom} (ha : as.all Atom.vf = true) {e1 e2 : Env} (he : e1.idents = e2.idents)
    {r1 r2 : Row} (hr : RowSim r1 r2) : renderAtoms e1 r1 as = renderAtoms e2 r2 as := by
  unfold renderAtoms
  congr 1
  apply List.map_congr_left
  intro a hmem
  exact Atom.render_sim (List.all_eq_true.mp ha a hmem) he hr

theorem Inner.render_sim {i : Inner} (hi : i.vf = true) {e1 e2 : Env} (he : e1.idents = e2.idents)
    {r1 r2 : Row} (hr : RowSim r1 r2) : i.render e1 r1 = i.render e2 r2 := by
  cases i with
  | atom a => exact Atom.render_sim hi he hr
  | opt fs body =>
    simp only [Inner.render]
    have hh : fs.all r1.has = fs.all r2.has := by
      congr 1; funext f; exact Row.has_sim hr f
    rw [hh, renderAtoms_sim hi he hr]

theorem renderInner_sim {body : List Inner} (hb : body.all Inner.vf = true) {e1 e2 : Env} (he : e1.idents = e2.idents)
    {r1 r2 : Row} (hr : RowSim r1 r2) : renderInner e1 r1 body = renderInner e2 r2 body := by
  unfold renderInner
  congr 1
  apply List.map_congr_left
  intro i hmem
  exact Inner.render_sim (List.all_eq_true.mp hb i hmem) he hr

theorem getMap_erase (e : Env) (m : Text) : getMap e.erase m = (getMap e m).map Row.erase := by
  unfold getMap Env.erase
  simp only [List.find?_map, Function.comp_def]
  cases h : List.find? (fun p => p.1 == m) e.maps <;> simp

theorem erase_idents (e : Env) : e.erase.idents = e.idents := rfl

theorem argRows_erase (e : Env) (src : MapSrc) : argRows e.erase src = (argRows e src).map Row.erase := by
  unfold argRows
  cases src.arg <;> simp [getMap_erase]

/-- the items of a loop over a mapping are the same whether or not the values are forgotten -/
theorem items_erase (e : Env) (src : MapSrc) (body : List Inner) (hb : body.all Inner.vf = true) :
    (rows e src).map (fun r => renderInner e r body) = (rows e.erase src).map (fun r => renderInner e.erase r body) := by
  unfold rows
  simp only [argRows_erase, List.map_append, List.map_map]
  congr 1
  · apply List.map_congr_left
    intro kv _
    simp only [Function.comp_def, List.find?_map]
    have hp : ((fun r : Row => get r.idents t!"k" == kv.1) ∘ Row.erase) =
        (fun r : Row => get r.idents t!"k" == kv.1) := by
      funext r; simp [Row.erase]
    simp only [Function.comp_def] at hp
    rw [hp]
    cases List.find? (fun r : Row => get r.idents t!"k" == kv.1) (argRows e src) with
    | none =>
      simp only [Option.map_none]
      exact renderInner_sim hb (erase_idents e).symm ⟨rfl, rfl⟩
    | some r =>
      simp only [Option.map_some]
      exact renderInner_sim hb (erase_idents e).symm (RowSim.erase r)
  · rw [List.filter_map, List.map_map]
    have hq : ((fun r : Row => !(src.fixed.any (fun kv => kv.1 == get r.idents t!"k"))) ∘ Row.erase) =
        (fun r : Row => !(src.fixed.any (fun kv => kv.1 == get r.idents t!"k"))) := by
      funext r; simp [Row.erase]
    rw [hq]
    apply List.map_congr_left
    intro r _
    exact renderInner_sim hb (erase_idents e).symm (RowSim.erase r)

theorem Piece.render_erase {p : Piece} (hp : p.vf = true) (e : Env) : p.render e = p.render e.erase := by
  cases p with
  | atom a => exact Atom.render_sim hp (erase_idents e).symm ⟨rfl, rfl⟩
  | rep src mode body =>
    simp only [Piece.vf, Bool.and_eq_true] at hp
    simp only [Piece.render]
    rw [items_erase e src body hp.1]

theorem render_erase {t : List Piece} (ht : valueFree t = true) (e : Env) : render e t = render e.erase t := by
  unfold render
  congr 1
  apply List.map_congr_left
  intro p hmem
  exact Piece.render_erase (List.all_eq_true.mp ht p hmem) e

end FimVerif.Cypher
