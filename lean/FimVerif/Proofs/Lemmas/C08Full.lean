import FimVerif.Proofs.Lemmas.C08ApiInv
/-! The declarative owned set of a *set of roots* (links with any number of ends), the passage from the invariant to full
membership, the loops of `prune`, and `prune` itself for any marking. -/
namespace FimVerif.Remove

/-- owned, links apart: below one of the roots, or the service-side port of an interface below one of them -/
def OwnS (g : G) (R : List Nat) (y : Nat) : Prop := ∃ r ∈ R, Own g r y

/-- **the owned structure of the roots `R`** (written without reference to the removal code): what `OwnS` gives, and every
Link that joined at least two connection points, at least one of them owned, and of which at most one is not owned -/
def OwnedS (g : G) (R : List Nat) (y : Nat) : Prop :=
  OwnS g R y ∨
  (g.cls? y = some .link ∧ 2 ≤ (g.nbrs y .connects .cp).length ∧ (∃ e ∈ g.nbrs y .connects .cp, OwnS g R e) ∧
    ∀ e1 ∈ g.nbrs y .connects .cp, ∀ e2 ∈ g.nbrs y .connects .cp, ¬ OwnS g R e1 → ¬ OwnS g R e2 → e1 = e2)

theorem own_not_link {g : G} {x y : Nat} {k : Cls} (hx : g.cls? x = some k) (hk : k ≠ .link)
    (h : Own g x y) : g.cls? y ≠ some .link := by
  obtain ⟨i, hb, rfl | hp⟩ := h
  · exact below_cls hx hk hb
  · rw [(portOf_cls hp).2.1]; intro h; cases h

theorem length_filter_le_one_iff {l : List Nat} (p : Nat → Bool) (hn : l.Nodup) :
    (l.filter p).length ≤ 1 ↔ ∀ a ∈ l, ∀ b ∈ l, p a = true → p b = true → a = b := by
  constructor
  · intro h a ha b hb hpa hpb
    apply Classical.byContradiction
    intro hne
    have := two_le_length_of_mem (l := l.filter p) (a := a) (b := b) (by simp [ha, hpa]) (by simp [hb, hpb]) hne
    omega
  · intro h
    have hnd : (l.filter p).Nodup := sublist_filter_nodup p hn
    match hf : l.filter p, hnd with
    | [], _ => simp
    | [_], _ => simp
    | a :: b :: _, hnd =>
      exfalso
      have ha : a ∈ l.filter p := by rw [hf]; simp
      have hb : b ∈ l.filter p := by rw [hf]; simp
      simp only [List.mem_filter] at ha hb
      have := h a ha.1 b hb.1 ha.2 hb.2
      subst this
      simp at hnd

/-- **from the invariant to full membership**: the non-link part fixes the whole list -/
theorem mem_iff_ownedS (g : G) (hW : WF g = true) (R A : List Nat) (hOK : LinkOK g A)
    (hRl : ∀ r ∈ R, ∃ k, g.cls? r = some k ∧ k ≠ .link)
    (hmem : ∀ y, g.cls? y ≠ some .link → (y ∈ A ↔ OwnS g R y)) (y : Nat) : y ∈ A ↔ OwnedS g R y := by
  have hI := wf_cp hW
  have hnl : ∀ e, OwnS g R e → g.cls? e ≠ some .link := by
    rintro e ⟨r, hr, ho⟩
    obtain ⟨k, hk, hne⟩ := hRl r hr
    exact own_not_link hk hne ho
  by_cases hy : g.cls? y = some .link
  · have hends : ∀ e ∈ g.nbrs y .connects .cp, (e ∈ A ↔ OwnS g R e) := fun e he =>
      hmem e (by rw [mem_nbrs_cls _ _ _ _ _ he]; intro h; cases h)
    rw [hOK y hy]
    unfold OwnedS
    have hnd := (wfLink_at (wf_link hW) hy).1
    have hlive : (live g A y).length ≤ 1 ↔
        ∀ e1 ∈ g.nbrs y .connects .cp, ∀ e2 ∈ g.nbrs y .connects .cp, ¬ OwnS g R e1 → ¬ OwnS g R e2 → e1 = e2 := by
      unfold live
      rw [length_filter_le_one_iff _ hnd]
      constructor
      · intro h e1 h1 e2 h2 n1 n2
        apply h e1 h1 e2 h2
        · simpa [List.contains_eq_mem] using fun h' => n1 ((hends e1 h1).mp h')
        · simpa [List.contains_eq_mem] using fun h' => n2 ((hends e2 h2).mp h')
      · intro h e1 h1 e2 h2 n1 n2
        apply h e1 h1 e2 h2
        · intro h'; have := (hends e1 h1).mpr h'; simp [List.contains_eq_mem, this] at n1
        · intro h'; have := (hends e2 h2).mpr h'; simp [List.contains_eq_mem, this] at n2
    have hex : (∃ e ∈ g.nbrs y .connects .cp, e ∈ A) ↔ ∃ e ∈ g.nbrs y .connects .cp, OwnS g R e :=
      ⟨fun ⟨e, he, h⟩ => ⟨e, he, (hends e he).mp h⟩, fun ⟨e, he, h⟩ => ⟨e, he, (hends e he).mpr h⟩⟩
    rw [hlive, hex]
    constructor
    · intro h; exact Or.inr ⟨hy, h⟩
    · rintro (h | h)
      · exact absurd hy (hnl y h)
      · exact h.2
  · rw [hmem y hy]
    unfold OwnedS
    constructor
    · exact Or.inl
    · rintro (h | h)
      · exact h
      · exact absurd h.1 hy

/-- the same with any description `P` of the non-link part (elements satisfying `P` are never links): a Link is in the
list iff it joined at least two connection points, one of them in `P`, and at most one is not in `P` -/
theorem mem_iff_closure (g : G) (hW : WF g = true) (P : Nat → Prop) (A : List Nat) (hOK : LinkOK g A)
    (hnl : ∀ e, P e → g.cls? e ≠ some .link)
    (hmem : ∀ y, g.cls? y ≠ some .link → (y ∈ A ↔ P y)) (y : Nat) :
    y ∈ A ↔ P y ∨ (g.cls? y = some .link ∧ 2 ≤ (g.nbrs y .connects .cp).length ∧ (∃ e ∈ g.nbrs y .connects .cp, P e) ∧
      ∀ e1 ∈ g.nbrs y .connects .cp, ∀ e2 ∈ g.nbrs y .connects .cp, ¬ P e1 → ¬ P e2 → e1 = e2) := by
  by_cases hy : g.cls? y = some .link
  · have hends : ∀ e ∈ g.nbrs y .connects .cp, (e ∈ A ↔ P e) := fun e he =>
      hmem e (by rw [mem_nbrs_cls _ _ _ _ _ he]; intro h; cases h)
    rw [hOK y hy]
    have hnd := (wfLink_at (wf_link hW) hy).1
    have hlive : (live g A y).length ≤ 1 ↔
        ∀ e1 ∈ g.nbrs y .connects .cp, ∀ e2 ∈ g.nbrs y .connects .cp, ¬ P e1 → ¬ P e2 → e1 = e2 := by
      unfold live
      rw [length_filter_le_one_iff _ hnd]
      constructor
      · intro h e1 h1 e2 h2 n1 n2
        apply h e1 h1 e2 h2
        · simpa [List.contains_eq_mem] using fun h' => n1 ((hends e1 h1).mp h')
        · simpa [List.contains_eq_mem] using fun h' => n2 ((hends e2 h2).mp h')
      · intro h e1 h1 e2 h2 n1 n2
        apply h e1 h1 e2 h2
        · intro h'; have := (hends e1 h1).mpr h'; simp [List.contains_eq_mem, this] at n1
        · intro h'; have := (hends e2 h2).mpr h'; simp [List.contains_eq_mem, this] at n2
    have hex : (∃ e ∈ g.nbrs y .connects .cp, e ∈ A) ↔ ∃ e ∈ g.nbrs y .connects .cp, P e :=
      ⟨fun ⟨e, he, h⟩ => ⟨e, he, (hends e he).mp h⟩, fun ⟨e, he, h⟩ => ⟨e, he, (hends e he).mpr h⟩⟩
    rw [hlive, hex]
    constructor
    · intro h; exact Or.inr ⟨hy, h⟩
    · rintro (h | h)
      · exact absurd hy (hnl y h)
      · exact h.2
  · rw [hmem y hy]
    constructor
    · exact Or.inl
    · rintro (h | h)
      · exact h
      · exact absurd h.1 hy

/-- an element already deleted took everything it owns (links apart) with it -/
theorem own_absorbed {g : G} {A : List Nat} (hA : InvA g A) {x y : Nat} (hx : x ∈ A) (h : Own g x y) : y ∈ A := by
  obtain ⟨i, hb, rfl | hp⟩ := h
  · exact downC_below hA.2.1 hx hb
  · exact hA.2.2 i (downC_below hA.2.1 hx hb) y hp

theorem ResA.congr {g : G} {A : List Nat} {P Q : Nat → Prop} {r : Except Err G} (h : ResA g A P r)
    (hPQ : ∀ y, g.cls? y ≠ some .link → (y ∈ A ∨ P y ↔ y ∈ A ∨ Q y)) : ResA g A Q r := by
  obtain ⟨A', h1, h2, h3, h4⟩ := h
  exact ⟨A', h1, h2, fun y hy => (h3 y hy).trans (hPQ y hy), h4⟩

/-- **guarded loop of `prune`** (`if still_present(e): prune e`), for any list of marked elements (`key` gives the element
an entry stands for: components are kept as (component, parent) pairs) -/
theorem foldResA_guard {α : Type} (g : G) (key : α → Nat) (f : G → α → Except Err G) (okx : α → Prop)
    (hstep : ∀ A x, InvA g A → okx x → key x ∉ A → ResA g A (Own g (key x)) (f (g.minus A) x))
    (hhas : ∀ x, okx x → g.has (key x) = true) :
    ∀ (xs : List α) (A : List Nat), InvA g A → (∀ x ∈ xs, okx x) →
      ResA g A (OwnS g (xs.map key)) (xs.foldlM (fun g' x => if g'.has (key x) then f g' x else .ok g') (g.minus A))
  | [], A, hA, _ => ⟨A, by simp [List.foldlM_nil, pure, Except.pure], fun _ h => h, fun y _ => by simp [OwnS], hA⟩
  | x :: xs, A, hA, hok => by
    have hokx := hok x (by simp)
    by_cases hxA : key x ∈ A
    · have hg : (g.minus A).has (key x) = false := by rw [has_minus]; simp [List.contains_eq_mem, hxA]
      obtain ⟨A', hr, hsub, hmem, hA'⟩ := foldResA_guard g key f okx hstep hhas xs A hA (fun x' h => hok x' (List.mem_cons_of_mem _ h))
      refine ⟨A', ?_, hsub, ?_, hA'⟩
      · simp only [List.foldlM_cons, hg, Bool.false_eq_true, ite_false, bind, Except.bind]; exact hr
      · intro y hy
        rw [hmem y hy]
        simp only [OwnS, List.map_cons, List.mem_cons, exists_eq_or_imp]
        constructor
        · rintro (h | h)
          · exact Or.inl h
          · exact Or.inr (Or.inr h)
        · rintro (h | h | h)
          · exact Or.inl h
          · exact Or.inl (own_absorbed hA hxA h)
          · exact Or.inr h
    · have hg : (g.minus A).has (key x) = true := by rw [has_minus, hhas x hokx]; simp [List.contains_eq_mem, hxA]
      obtain ⟨A1, hr1, hsub1, hmem1, hA1⟩ := hstep A x hA hokx hxA
      obtain ⟨A', hr, hsub, hmem, hA'⟩ := foldResA_guard g key f okx hstep hhas xs A1 hA1 (fun x' h => hok x' (List.mem_cons_of_mem _ h))
      refine ⟨A', ?_, fun y hy => hsub y (hsub1 y hy), ?_, hA'⟩
      · simp only [List.foldlM_cons, hg, ite_true, hr1, bind, Except.bind]; exact hr
      · intro y hy
        rw [hmem y hy, hmem1 y hy]
        simp only [OwnS, List.map_cons, List.mem_cons, exists_eq_or_imp, or_assoc]

/-- below a node there is no other node -/
theorem below_node_cls {g : G} (hI : InvCP g = true) {n y : Nat} (hc : g.cls? n = some .node) (h : Below g n y) :
    y = n ∨ g.cls? y = some .comp ∨ g.cls? y = some .ns ∨ g.cls? y = some .cp := by
  rcases (below_node hc y).mp h with h | ⟨c, hcn, hb⟩ | ⟨s, hs, hb⟩
  · exact Or.inl h
  · rcases below_comp_cls hI (mem_nbrs_cls _ _ _ _ _ hcn) hb with rfl | h | h
    · exact Or.inr (Or.inl (mem_nbrs_cls _ _ _ _ _ hcn))
    · exact Or.inr (Or.inr (Or.inl h))
    · exact Or.inr (Or.inr (Or.inr h))
  · rcases below_ns_cls hI (mem_nbrs_cls _ _ _ _ _ hs) hb with rfl | h
    · exact Or.inr (Or.inr (Or.inl (mem_nbrs_cls _ _ _ _ _ hs)))
    · exact Or.inr (Or.inr (Or.inr h))

/-- **unguarded loop of `prune`** over distinct nodes; `f` is any function that behaves as `remove_node` on them -/
theorem foldResA_nodes (g : G) (hW : WF g = true) (f : G → Nat → Except Err G)
    (hf : ∀ A n, InvA g A → g.cls? n = some .node → g.kind? n ≠ some kFacility → n ∉ A →
      f (g.minus A) n = removeNodeApi (g.minus A) n) :
    ∀ (ns A : List Nat), InvA g A → ns.Nodup → (∀ n ∈ ns, g.cls? n = some .node ∧ g.kind? n ≠ some kFacility ∧ n ∉ A) →
      ResA g A (OwnS g ns) (ns.foldlM f (g.minus A))
  | [], A, hA, _, _ => ⟨A, by simp [List.foldlM_nil, pure, Except.pure], fun _ h => h, fun y _ => by simp [OwnS], hA⟩
  | n :: ns, A, hA, hnd, hok => by
    have hI := wf_cp hW
    obtain ⟨hc, hk, hnA⟩ := hok n (by simp)
    obtain ⟨A1, hr1, hsub1, hmem1, hA1⟩ := removeNodeApi_resA g hW A hA n hc hk hnA
    rw [← hf A n hA hc hk hnA] at hr1
    have hnd' := List.nodup_cons.mp hnd
    obtain ⟨A', hr, hsub, hmem, hA'⟩ := foldResA_nodes g hW f hf ns A1 hA1 hnd'.2 (by
      intro n' hn'
      obtain ⟨hc', hk', hn'A⟩ := hok n' (List.mem_cons_of_mem _ hn')
      refine ⟨hc', hk', fun h => ?_⟩
      rcases (hmem1 n' (by rw [hc']; intro h; cases h)).mp h with h | ⟨i, hb, rfl | hp⟩
      · exact hn'A h
      · rcases below_node_cls hI hc hb with rfl | h | h | h
        · exact hnd'.1 hn'
        all_goals (rw [hc'] at h; cases h)
      · rw [(portOf_cls hp).2.1] at hc'; cases hc')
    refine ⟨A', ?_, fun y hy => hsub y (hsub1 y hy), ?_, hA'⟩
    · simp only [List.foldlM_cons, hr1, bind, Except.bind]; exact hr
    · intro y hy
      rw [hmem y hy, hmem1 y hy]
      simp only [OwnS, List.mem_cons, exists_eq_or_imp, or_assoc]

theorem ownS_append (g : G) (R1 R2 : List Nat) (y : Nat) : OwnS g (R1 ++ R2) y ↔ OwnS g R1 y ∨ OwnS g R2 y := by
  simp only [OwnS, List.mem_append]
  constructor
  · rintro ⟨r, h | h, ho⟩
    · exact Or.inl ⟨r, h, ho⟩
    · exact Or.inr ⟨r, h, ho⟩
  · rintro (⟨r, h, ho⟩ | ⟨r, h, ho⟩)
    · exact ⟨r, Or.inl h, ho⟩
    · exact ⟨r, Or.inr h, ho⟩

/-- **`ExperimentTopology.prune` (deletion phase) for any marking** of a well-formed topology: distinct non-facility nodes,
components, services and interfaces attached to services, in any order, nested in each other or not. -/
theorem prune_full (g : G) (hW : WF g = true) (ns cs ss is : List Nat) (hnd : ns.Nodup)
    (hn : ∀ n ∈ ns, g.cls? n = some .node ∧ g.kind? n ≠ some kFacility) (hc : ∀ c ∈ cs, g.cls? c = some .comp)
    (hs : ∀ s ∈ ss, g.cls? s = some .ns) (hi : ∀ i ∈ is, g.cls? i = some .cp ∧ isSub g i = false) :
    ∃ D, prune g ns cs ss is = .ok (g.minus D) ∧ ∀ y, y ∈ D ↔ OwnedS g (ns ++ cs ++ ss ++ is) y := by
  obtain ⟨A1, hr1, _, hmem1, hA1⟩ := foldResA_nodes g hW removeNodeApi (fun _ _ _ _ _ _ => rfl) ns [] (invA_nil g) hnd
    (fun n h => ⟨(hn n h).1, (hn n h).2, by simp⟩)
  rw [minus_nil] at hr1
  obtain ⟨A2, hr2, _, hmem2, hA2⟩ := foldResA_guard g id removeComponentApi (fun c => g.cls? c = some .comp)
    (fun A x hA hx hxA => removeComponentApi_resA g hW A hA x hx hxA) (fun x hx => cls_has hx) cs A1 hA1 hc
  obtain ⟨A3, hr3, _, hmem3, hA3⟩ := foldResA_guard g id removeNsApi (fun s => g.cls? s = some .ns)
    (fun A x hA hx hxA => removeNsApi_resA g hW A hA x hx hxA) (fun x hx => cls_has hx) ss A2 hA2 hs
  obtain ⟨A4, hr4, _, hmem4, hA4⟩ := foldResA_guard g id
    (fun g' i => (disconnectDeep g' [i]).bind (fun g1 => removeCp g1 i true))
    (fun i => g.cls? i = some .cp ∧ isSub g i = false)
    (fun A x hA hx hxA => pruneIface_resA g hW A hA x hx.1 hx.2 hxA) (fun x hx => cls_has hx.1) is A3 hA3 hi
  refine ⟨A4, ?_, ?_⟩
  · simp only [id] at hr2 hr3 hr4
    simp only [prune, hr1, hr2, hr3, bind, Except.bind]; exact hr4
  · apply mem_iff_ownedS g hW _ A4 hA4.1.1
    · intro r hr
      simp only [List.mem_append] at hr
      rcases hr with ((h | h) | h) | h
      · exact ⟨_, (hn r h).1, by decide⟩
      · exact ⟨_, hc r h, by decide⟩
      · exact ⟨_, hs r h, by decide⟩
      · exact ⟨_, (hi r h).1, by decide⟩
    · intro y hy
      rw [hmem4 y hy, hmem3 y hy, hmem2 y hy, hmem1 y hy, ownS_append, ownS_append, ownS_append]
      simp [or_assoc, List.map_id]

end FimVerif.Remove
