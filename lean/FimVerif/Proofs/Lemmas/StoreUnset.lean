import FimVerif.Proofs.Lemmas.StoreIdent
/-!
# C05 — lookups after an in-place attribute update (helpers for the unset theorems of `Proofs/C05.lean`)
-/
namespace FimVerif.Store
open FimVerif FimVerif.Gen.StoreConsts

/-- `_find_node` gives the same answer after the attributes of a node were changed in place by a function that leaves
    `GraphID` and `NodeID` alone -/
theorem findNode_updNode_keepsKeys (s : Store) (g nid : String) (i j : Nat) (f : Props → Props)
    (hg : ∀ a, AMap.get graphId (f a) = AMap.get graphId a) (hn : ∀ a, AMap.get nodeId (f a) = AMap.get nodeId a)
    (hf : findNode s g nid = .ok i) : findNode (updNode j f s) g nid = .ok i := by
  unfold findNode at hf ⊢
  have hfil : (updNode j f s).nodes.filter (fun n => hasNid nid n && inG g n) =
      (s.nodes.filter (fun n => hasNid nid n && inG g n)).map
        (fun n => if n.iid = j then { n with attrs := f n.attrs } else n) := by
    simp only [updNode, List.filter_map]
    congr 1
    apply List.filter_congr
    intro n _
    by_cases h : n.iid = j <;> simp [h, hasNid, inG, hg, hn]
  rw [hfil]
  split at hf
  · cases hf
  · rename_i n heq
    rw [heq]
    simp only [List.map_cons, List.map_nil]
    by_cases h : n.iid = j
    · simp only [h, if_true] at hf ⊢
      cases hf; rfl
    · simp only [h, if_false]; exact hf
  · cases hf

/-- the attributes of the node that was updated in place -/
theorem nodeAttrs_updNode_self (s : Store) (i : Nat) (f : Props → Props) :
    nodeAttrs (updNode i f s) i = (nodeAttrs s i).map f := by
  unfold nodeAttrs updNode
  simp only
  induction s.nodes with
  | nil => rfl
  | cons n ns ih =>
    by_cases h : n.iid = i
    · simp [List.find?, h]
    · have h' : (n.iid == i) = false := by simpa using h
      simp only [List.map_cons, h, if_false, List.find?, h']
      exact ih

end FimVerif.Store
