import FimVerif.Proofs.Lemmas.TopoInvComp
import FimVerif.Proofs.Lemmas.TopoAtomicSvc
/-!
# C07 — `add_network_service` (topology and node form): when the constructor returns, the model satisfies `InvS`

The service node (and its `has` edge) is appended, then every interface is connected in turn (`invS_connect`); the guards on
the interfaces are stated on the start state and shown stable along the loop (`Grows`).  When the constructor raises, the
rollback handler runs: that the model is then back to the start state is C09's subject (proved there for at most one
interface); here it is a decidable side condition of the covered calls.
-/
namespace FimVerif.Topo
open FimVerif FimVerif.M FimVerif.Gen

/-- the id is not one the library will draw from counter `c` on (uuid4 never returns an id that is already around) -/
def notFuture (c : Nat) : Nid → Prop
  | .gen j => j < c
  | .user _ => True
instance (c : Nat) (i : Nid) : Decidable (notFuture c i) := by cases i <;> unfold notFuture <;> infer_instance

theorem notFuture_mono {c c' : Nat} (h : c ≤ c') {i : Nid} (hi : notFuture c i) : notFuture c' i := by
  cases i <;> simp only [notFuture] at hi ⊢; omega

theorem notFuture_ne {c k : Nat} {i : Nid} (hi : notFuture c i) (hk : c ≤ k) : i ≠ .gen k := by
  intro e; subst e; simp only [notFuture] at hi; omega

def FreshFromC (c : Nat) (s : Topo) : Prop := ∀ m ∈ s.nodes, notFuture c m.nid
instance (c : Nat) (s : Topo) : Decidable (FreshFromC c s) := by unfold FreshFromC; infer_instance

/-- what is asked of an interface handed to `connect_interface` / `add_network_service(interfaces=…)` -/
def IfOk (s : Topo) (c : Nat) : IfArg → Prop
  | .bogus => True
  | .iface iid iname => notFuture c iid ∧ HandleOk s iid .connectionPoint ∧ NoSpIn s [.iface iid iname]
instance (s : Topo) (c : Nat) (i : IfArg) : Decidable (IfOk s c i) := by cases i <;> unfold IfOk <;> infer_instance

structure LoopInvP (P : Topo → Prop) (s : Topo) (svc : Nid) (c : Nat) (rest : List IfArg) : Prop where
  inv : P s
  fresh : FreshFromC c s
  svcOk : HandleOk s svc .networkService
  svcNF : notFuture c svc
  ifs : ∀ i ∈ rest, IfOk s c i

abbrev LoopInv := LoopInvP InvS

/-- how the state grows: only by ConnectionPoints / Links with ids drawn from `c` on, the ConnectionPoints being ServicePorts -/
structure Grows (c c' : Nat) (s s' : Topo) : Prop where
  nodes : ∃ N, s'.nodes = s.nodes ++ N ∧ ∀ n ∈ N, (∃ k, c ≤ k ∧ k < c' ∧ n.nid = .gen k) ∧ (n.cls = .connectionPoint ∨ n.cls = .link)

theorem handleOk_grows {c c' : Nat} {s s' : Topo} (g : Grows c c' s s') {x : Nid} {K : Cls} (h : HandleOk s x K) (hx : notFuture c x) :
    HandleOk s' x K := by
  obtain ⟨N, hN, hnew⟩ := g.nodes
  intro m hm hmx
  rw [hN] at hm
  rcases List.mem_append.mp hm with hm | hm
  · exact h m hm hmx
  · obtain ⟨⟨k, hk, _, hnk⟩, _⟩ := hnew m hm
    exact absurd (hmx.symm.trans hnk) (notFuture_ne hx hk)

theorem nameHyp_grows {c c' : Nat} {s s' : Topo} (g : Grows c c' s s') {iname : String} (h : NameHyp s iname) : NameHyp s' iname := by
  obtain ⟨N, hN, hnew⟩ := g.nodes
  intro o ho hoc
  rw [hN] at ho
  rcases List.mem_append.mp ho with ho | ho
  · exact h o ho hoc
  · obtain ⟨_, hc⟩ := hnew o ho
    rcases hoc with h1 | h1 <;> rcases hc with h2 | h2 <;> rw [h1] at h2 <;> cases h2

theorem noSpIn_grows {c c' : Nat} {s s' : Topo} (g : Grows c c' s s') {iid : Nid} {nm : String} (h : NoSpIn s [.iface iid nm])
    (hx : notFuture c iid) : NoSpIn s' [.iface iid nm] := by
  obtain ⟨N, hN, hnew⟩ := g.nodes
  intro m hm ht i hi a b hab
  rw [hN] at hm
  rcases List.mem_append.mp hm with hm | hm
  · exact h m hm ht i hi a b hab
  · obtain ⟨⟨k, hk, _, hnk⟩, _⟩ := hnew m hm
    simp at hi; subst hi; cases hab
    rw [hnk]; exact (notFuture_ne hx hk).symm

theorem freshFrom_grows {c c' : Nat} (hcc : c ≤ c') {s s' : Topo} (g : Grows c c' s s') (h : FreshFromC c s) : FreshFromC c' s' := by
  obtain ⟨N, hN, hnew⟩ := g.nodes
  intro m hm
  rw [hN] at hm
  rcases List.mem_append.mp hm with hm | hm
  · exact notFuture_mono hcc (h m hm)
  · obtain ⟨⟨k, _, hk, hnk⟩, _⟩ := hnew m hm
    rw [hnk]; exact hk

theorem ifOk_grows {c c' : Nat} (hcc : c ≤ c') {s s' : Topo} (g : Grows c c' s s') {i : IfArg} (h : IfOk s c i) : IfOk s' c' i := by
  cases i with
  | bogus => trivial
  | iface iid nm =>
    obtain ⟨h1, h2, h4⟩ := h
    exact ⟨notFuture_mono hcc h1, handleOk_grows g h2 h1, noSpIn_grows g h4 h1⟩

theorem freshTwo_of {c : Nat} {s : Topo} (h : FreshFromC c s) : ∀ m ∈ s.nodes, m.nid ≠ .gen c ∧ m.nid ≠ .gen (c + 1) :=
  fun m hm => ⟨notFuture_ne (h m hm) (Nat.le_refl _), notFuture_ne (h m hm) (Nat.le_succ _)⟩

/-- a `connect_interface` that returns has appended a ServicePort `gen c` and a Link `gen (c+1)` -/
theorem connect_ok_grows {fl : Flavour} {c : Nat} {svc iid : Nid} {iname : String} {cache r : Cache} {s s1 : Topo}
    (hi : IdsOk s) (hc : ClosedOk s) (hcp : HandleOk s iid .connectionPoint) (hfr : FreshFromC c s)
    (hok : connectInterface fl c svc cache (.iface iid iname) s = (.ok r, s1)) : Grows c (c + 2) s s1 := by
  rcases connect_spec' fl c svc iid iname cache s hi hc hcp (freshTwo_of hfr) with ⟨e, he⟩ |
    ⟨sv, fi, cp, ln, nm, _, _, _, _, _, hcc, hci, _, hlc, hli, hres⟩
  · rw [he] at hok; simp at hok
  · rw [hres] at hok
    simp only [Prod.mk.injEq] at hok
    obtain ⟨_, rfl⟩ := hok
    refine ⟨[cp, ln], rfl, ?_⟩
    intro n hn
    simp at hn
    rcases hn with rfl | rfl
    · exact ⟨⟨c, Nat.le_refl _, by omega, hci⟩, .inl hcc⟩
    · exact ⟨⟨c + 1, by omega, by omega, hli⟩, .inr hlc⟩

theorem tryCatch_ok_inv {α : Type} {m : M Topo α} {p : Err → Bool} {hd : Err → M Topo α} {s s1 : Topo} {a : α}
    (hh : ∀ e t b t', hd e t ≠ (.ok b, t')) (h : M.tryCatch m p hd s = (.ok a, s1)) : m s = (.ok a, s1) := by
  unfold M.tryCatch at h
  rcases cases_run m s with ⟨x, t, hm⟩ | ⟨e, t, hm⟩
  · rw [hm] at h ⊢; exact h
  · rw [hm] at h
    simp only at h
    split at h
    · exact absurd h (hh e t a s1)
    · simp at h

theorem bind_raise_ne_ok {α β : Type} (m : M Topo α) (e : Err) (t : Topo) (b : β) (t' : Topo) :
    (m >>= fun _ => (raise e : M Topo β)) t ≠ (.ok b, t') := by
  rcases cases_run m t with ⟨x, u, hm⟩ | ⟨e', u, hm⟩
  · rw [bind_ok hm]; simp
  · rw [bind_err hm]; simp

/-- predicates that every guarded `connect_interface` keeps -/
structure SvcStable (P : Topo → Prop) : Prop where
  ids : ∀ s, P s → IdsOk s
  closed : ∀ s, P s → ClosedOk s
  conn : ∀ (fl : Flavour) (c : Nat) (svc iid : Nid) (iname : String) (cache : Cache) (s : Topo), HandleOk s svc .networkService →
    HandleOk s iid .connectionPoint → (∀ m ∈ s.nodes, m.nid ≠ .gen c ∧ m.nid ≠ .gen (c + 1)) → NoSpIn s [.iface iid iname] → P s →
    P (connectInterface fl c svc cache (.iface iid iname) s).2

theorem svcStable_invS : SvcStable InvS :=
  ⟨fun _ h => h.ids, fun _ h => h.closed, fun fl c svc iid iname cache s h1 h2 h3 h4 h => invS_connect fl c svc iid iname cache s h1 h2 h3 h4 h⟩

/-- the loop of `NetworkService.__init__`, when the constructor returns -/
theorem svcLoop_okP {P : Topo → Prop} (hP : SvcStable P) (fl : Flavour) (svc : Nid) (st : String) :
    ∀ (rest : List IfArg) (c : Nat) (connected : List IfArg) (cache r : Cache) (s s' : Topo), LoopInvP P s svc c rest →
      svcLoop fl svc st c rest connected cache s = (.ok r, s') → P s' := by
  intro rest
  induction rest with
  | nil =>
    intro c connected cache r s s' hl hok
    unfold svcLoop at hok
    simp only [pure_apply', Prod.mk.injEq] at hok
    rw [← hok.2]; exact hl.inv
  | cons i rest ih =>
    intro c connected cache r s s' hl hok
    unfold svcLoop at hok
    obtain ⟨cache', s1, htc, hrest⟩ := bind_ok_inv hok
    have hbody := tryCatch_ok_inv (fun e t b t' => by
      show (M.forEach connected _ >>= fun _ => (removeNs svc >>= fun _ => raise e)) t ≠ _
      intro hc
      obtain ⟨_, t1, _, h2⟩ := bind_ok_inv hc
      exact bind_raise_ne_ok _ _ _ _ _ h2) htc
    obtain ⟨_, s0, hg, hconn⟩ := bind_ok_inv hbody
    have := ro_run (readOnly_guardrails _ _) hg; subst this
    cases i with
    | bogus => unfold connectInterface at hconn; simp at hconn
    | iface iid iname =>
      obtain ⟨hnf, hcp, hnsp⟩ := hl.ifs _ (List.mem_cons_self ..)
      have hgr := connect_ok_grows (hP.ids _ hl.inv) (hP.closed _ hl.inv) hcp hl.fresh hconn
      have hinv : P s1 := by
        have := hP.conn fl c svc iid iname cache s0 hl.svcOk hcp (freshTwo_of hl.fresh) hnsp hl.inv
        rw [hconn] at this; exact this
      refine ih (c + 2) _ cache' r s1 s' ⟨hinv, freshFrom_grows (by omega) hgr hl.fresh, handleOk_grows hgr hl.svcOk hl.svcNF,
        notFuture_mono (by omega) hl.svcNF, fun j hj => ifOk_grows (by omega) hgr (hl.ifs j (List.mem_cons_of_mem _ hj))⟩ hrest

theorem svcLoop_ok (fl : Flavour) (svc : Nid) (st : String) :
    ∀ (rest : List IfArg) (c : Nat) (connected : List IfArg) (cache r : Cache) (s s' : Topo), LoopInv s svc c rest →
      svcLoop fl svc st c rest connected cache s = (.ok r, s') → InvS s' := svcLoop_okP svcStable_invS fl svc st

def ParentOk (s : Topo) : Option Nid → Prop
  | none => True
  | some p => (∃ m ∈ s.nodes, m.nid = p) ∧ ∀ m ∈ s.nodes, m.nid = p → (m.cls = .networkNode ∨ m.cls = .component)
instance (s : Topo) (p : Option Nid) : Decidable (ParentOk s p) := by cases p <;> unfold ParentOk <;> infer_instance

def NidArgOk (c : Nat) : Option Nid → Prop
  | none => True
  | some x => notFuture c x
instance (c : Nat) (o : Option Nid) : Decidable (NidArgOk c o) := by cases o <;> unfold NidArgOk <;> infer_instance

def IfNotSelf (id : Nid) : IfArg → Prop
  | .bogus => True
  | .iface iid _ => iid ≠ id
instance (id : Nid) (i : IfArg) : Decidable (IfNotSelf id i) := by cases i <;> unfold IfNotSelf <;> infer_instance

structure SvcGuards (s : Topo) (c : Nat) (parent : Option Nid) (a : SvcArgs) : Prop where
  typ : TypeArgOk .networkService a.nstype
  fresh : FreshFromC c s
  nid : NidArgOk c a.nid
  parent : ParentOk s parent
  ifs : ∀ i ∈ a.ifs, IfOk s c i ∧ IfNotSelf (pick a.nid c).1 i

theorem sp_not_service_type : typeOk .networkService "ServicePort" = false := by decide

/-- the loop invariant in a state that extends `s` by the new service (and possibly its `has` edge) -/
theorem mkLoopInv {P : Topo → Prop} {s B : Topo} {sn : GNode} {id : Nid} {c c1 : Nat} {ifs : List IfArg} {t : String}
    (hB : P B) (hBn : B.nodes = s.nodes ++ [sn]) (hsc : sn.cls = .networkService) (hsi : sn.nid = id) (hst : sn.typ = t)
    (hfr : ∀ m ∈ s.nodes, m.nid ≠ id) (hle : c ≤ c1) (hidnf : notFuture c1 id) (hfresh : FreshFromC c s)
    (htok : typeOk .networkService t = true) (hifs : ∀ i ∈ ifs, IfOk s c i ∧ IfNotSelf id i) : LoopInvP P B id c1 ifs := by
  refine ⟨hB, ?_, ?_, hidnf, ?_⟩
  · intro m hm
    rw [hBn] at hm
    rcases List.mem_append.mp hm with hm | hm
    · exact notFuture_mono hle (hfresh m hm)
    · simp at hm; subst hm; rw [hsi]; exact hidnf
  · intro m hm hmi
    rw [hBn] at hm
    rcases List.mem_append.mp hm with hm | hm
    · exact absurd hmi (hfr m hm)
    · simp at hm; subst hm; exact hsc
  · intro i hi
    obtain ⟨hio, hns⟩ := hifs i hi
    cases i with
    | bogus => trivial
    | iface iid nm =>
      obtain ⟨h1, h2, h4⟩ := hio
      refine ⟨notFuture_mono hle h1, ?_, ?_⟩
      · intro m hm hmi
        rw [hBn] at hm
        rcases List.mem_append.mp hm with hm | hm
        · exact h2 m hm hmi
        · simp at hm; subst hm; exact absurd (hmi.symm.trans hsi) hns
      · intro m hm ht j hj x y hxy
        rw [hBn] at hm
        rcases List.mem_append.mp hm with hm | hm
        · exact h4 m hm ht j hj x y hxy
        · simp at hm; subst hm
          have := htok
          rw [← hst, ht, sp_not_service_type] at this; cases this

theorem svcNew_ok_invP {P : Topo → Prop} (hP : SvcStable P) (fl : Flavour) (c : Nat) (parent : Option Nid) (a : SvcArgs) (s s' : Topo)
    (r : Nid × Cache) (h : P s) (g : SvcGuards s c parent a)
    (hpush : ∀ sn : GNode, sn.cls = .networkService → sn.name = a.name → nodeOk sn = true → (∀ m ∈ s.nodes, m.nid ≠ sn.nid) →
      (∀ m ∈ s.nodes, m.cls = .networkService → m.name ≠ a.name) → P (pushNode sn s))
    (hatt : ∀ (p : Nid) (pn sn : GNode), parent = some p → pn ∈ s.nodes → pn.nid = p → sn.cls = .networkService → sn.name = a.name →
      nodeOk sn = true → (∀ m ∈ s.nodes, m.nid ≠ sn.nid) → P (grow s [sn] [⟨pn.ref, sn.ref, .has⟩]))
    (hok : svcNew fl c parent a s = (.ok r, s')) : P s' := by
  unfold svcNew at hok
  have hpf := pick_facts a.nid c
  rcases hp : pick a.nid c with ⟨id, c1⟩
  rw [hp] at hok hpf
  simp only [] at hok hpf
  obtain ⟨hle, hnone, hsome⟩ := hpf
  obtain ⟨t, h1, hok⟩ := ro_ok_inv (readOnly_need _ _) hok
  have hty : a.nstype = some t := need_some ⟨_, h1⟩
  obtain ⟨_, _, hok⟩ := ro_ok_inv (readOnly_guard _ _) hok
  obtain ⟨layer, _, hok⟩ := ro_ok_inv (readOnly_need _ _) hok
  obtain ⟨kw, _, hok⟩ := ro_ok_inv (readOnly_ofExcept _) hok
  have hnode : nodeOk ⟨.networkService, id, a.name, t, dictUpdate (([("StitchNode", "false"), ("Layer", layer)] ++
      match a.tech with | some x => [("Technology", x)] | none => []) ++ match a.site with | some x => [("Site", x)] | none => []) kw⟩ = true := by
    simp [nodeOk, classOk_all, g.typ t hty]
  have hidnf : notFuture c1 id := by
    cases hn : a.nid with
    | none => obtain ⟨e1, e2⟩ := hnone hn; rw [e1, e2]; simp [notFuture]
    | some x =>
      obtain ⟨e1, e2⟩ := hsome x hn; rw [e1, e2]
      have := g.nid; rw [hn] at this; exact this
  have hifs : ∀ i ∈ a.ifs, IfOk s c i ∧ IfNotSelf id i := by
    intro i hi; have := g.ifs i hi; rw [hp] at this; exact this
  have mkLoop : ∀ (B : Topo) (sn : GNode), P B → B.nodes = s.nodes ++ [sn] → sn.cls = .networkService → sn.nid = id →
      sn.typ = t → (∀ m ∈ s.nodes, m.nid ≠ id) → LoopInvP P B id c1 a.ifs :=
    fun B sn hB hBn hsc hsi hst hfr => mkLoopInv hB hBn hsc hsi hst hfr hle hidnf g.fresh (g.typ t hty) hifs
  cases parent with
  | none =>
    simp only [Option.isNone, if_true] at hok
    obtain ⟨dup, hdup, hok⟩ := ro_ok_inv (readOnly_read _) hok
    obtain ⟨_, hg, hok⟩ := ro_ok_inv (readOnly_guard _ _) hok
    have hnodup : ∀ m ∈ s.nodes, m.cls = .networkService → m.name ≠ a.name := by
      intro m hm hmc hmn
      have hd : dup = false := by simpa using guard_ok hg
      simp only [read_apply, Prod.mk.injEq, Except.ok.injEq, and_true] at hdup
      rw [hd] at hdup
      have := List.any_eq_false.mp hdup m hm
      simp [hmc, hmn] at this
    obtain ⟨_, s1, hadd, hok⟩ := bind_ok_inv hok
    rcases addGNode_cases _ s with he | ⟨he, hfr⟩
    · rw [he] at hadd; simp at hadd
    · rw [he] at hadd
      simp only [Prod.mk.injEq, true_and] at hadd
      subst hadd
      obtain ⟨cache, s2, hloop, hpure⟩ := bind_ok_inv hok
      simp only [pure_apply', Prod.mk.injEq] at hpure
      rw [← hpure.2]
      refine svcLoop_okP hP fl id t a.ifs c1 [] [] cache _ s2 (mkLoop _ _ ?_ rfl rfl rfl rfl hfr) hloop
      exact hpush _ rfl rfl hnode hfr hnodup
  | some p =>
    obtain ⟨⟨pn, hpnm, hpni⟩, hpcls⟩ := g.parent
    simp only [Option.isNone] at hok
    obtain ⟨_, s1, hadd, hok⟩ := bind_ok_inv hok
    rcases addGNode_cases _ s with he | ⟨he, hfr⟩
    · rw [he] at hadd; simp at hadd
    · rw [he] at hadd
      simp only [Prod.mk.injEq, true_and] at hadd
      subst hadd
      obtain ⟨_, s2, hedge, hok⟩ := bind_ok_inv hok
      have hpn : findNode p s = (.ok pn, s) := by rw [← hpni]; exact findNode_of_mem (hP.ids _ h) hpnm
      have hrun := addEdge_run (r := .has) (findNode_push_old hpn hfr) (findNode_push_new hfr)
      simp only [] at hrun
      rw [hrun] at hedge
      simp only [Prod.mk.injEq, true_and] at hedge
      subst hedge
      obtain ⟨cache, s3, hloop, hpure⟩ := bind_ok_inv hok
      simp only [pure_apply', Prod.mk.injEq] at hpure
      rw [← hpure.2]
      rw [attach_state (hP.closed _ h) hfr] at hloop
      refine svcLoop_okP hP fl id t a.ifs c1 [] [] cache _ s3 (mkLoop _ _ ?_ rfl rfl rfl rfl hfr) hloop
      exact hatt p pn _ rfl hpnm hpni rfl rfl hnode hfr

theorem svcNew_ok_inv (fl : Flavour) (c : Nat) (parent : Option Nid) (a : SvcArgs) (s s' : Topo) (r : Nid × Cache)
    (h : InvS s) (g : SvcGuards s c parent a) (hok : svcNew fl c parent a s = (.ok r, s')) : InvS s' := by
  refine svcNew_ok_invP svcStable_invS fl c parent a s s' r h g ?_ ?_ hok
  · intro sn hsc _ hv hfr _
    exact invS_push h hfr hv (by simp [hsc]) (by simp [hsc])
  · intro p pn sn hpar hpnm hpni hsc _ hv hfr
    have hpo := g.parent
    rw [hpar] at hpo
    have hpc := hpo.2 pn hpnm hpni
    refine invS_attach h hpnm hfr hv ?_ ?_ (by simp [hsc])
    · rcases hpc with hc | hc <;> simp [edgeOk, GNode.ref, hc, hsc]
    · rcases hpc with hc | hc <;> simp [hc]
/-! ## the downward-closed invariant, for every outcome (the rollback handler only deletes) -/

theorem tryCatch_state {P : Topo → Prop} {α : Type} {m : M Topo α} {p : Err → Bool} {hd : Err → M Topo α} {s : Topo}
    (hm : P (m s).2) (hh : ∀ e, Preserves P (hd e)) : P (M.tryCatch m p hd s).2 := by
  unfold M.tryCatch
  rcases cases_run m s with ⟨x, t, h⟩ | ⟨e, t, h⟩
  · rw [h] at hm ⊢; exact hm
  · rw [h] at hm ⊢
    simp only
    split
    · exact (hh e).h _ hm
    · exact hm

theorem preserves_rollback (svc : Nid) (connected : List IfArg) (cache : Cache) (e : Err) :
    Preserves InvD (do
      M.forEach connected (fun ii => do let _ ← disconnectInterface cache ii; Pure.pure ())
      removeNs svc
      (raise e : M Topo Cache)) := by
  refine Preserves.bind (preserves_forEach (fun ii => ?_)) (fun _ => ?_)
  · exact Preserves.bind (preserves_disconnectInterface dropStable_invD _ _) (fun _ => ReadOnly.preserves (readOnly_pure _))
  · exact Preserves.bind (preserves_removeNs dropStable_invD _) (fun _ => ReadOnly.preserves (readOnly_raise _))

theorem svcLoop_invD (fl : Flavour) (svc : Nid) (st : String) :
    ∀ (rest : List IfArg) (c : Nat) (connected : List IfArg) (cache : Cache) (s : Topo), LoopInvP InvD s svc c rest →
      InvD (svcLoop fl svc st c rest connected cache s).2 := by
  intro rest
  induction rest with
  | nil => intro c connected cache s hl; unfold svcLoop; exact hl.inv
  | cons i rest ih =>
    intro c connected cache s hl
    unfold svcLoop
    have hbodyP : InvD ((do guardrails st i; connectInterface fl c svc cache i : M Topo Cache) s).2 := by
      refine ro_step (Q := fun r => InvD r.2) (readOnly_guardrails _ _) (fun _ => hl.inv) (fun _ _ => ?_)
      cases i with
      | bogus => unfold connectInterface; exact hl.inv
      | iface iid iname =>
        obtain ⟨_, hcp, hnsp⟩ := hl.ifs _ (List.mem_cons_self ..)
        exact invD_connect fl c svc iid iname cache s hl.svcOk hcp (freshTwo_of hl.fresh) hnsp hl.inv
    have hT := tryCatch_state (p := rollbackCatches) hbodyP (fun e => preserves_rollback svc connected cache e)
    rcases cases_run (M.tryCatch (do guardrails st i; connectInterface fl c svc cache i : M Topo Cache) rollbackCatches
        (fun e => do
          M.forEach connected (fun ii => do let _ ← disconnectInterface cache ii; Pure.pure ())
          removeNs svc
          raise e)) s with ⟨cache', s1, htc⟩ | ⟨e, s1, htc⟩
    · rw [bind_ok htc]
      rw [htc] at hT
      have hbody := tryCatch_ok_inv (fun e t b t' => by
        show (M.forEach connected _ >>= fun _ => (removeNs svc >>= fun _ => raise e)) t ≠ _
        intro hc
        obtain ⟨_, t1, _, h2⟩ := bind_ok_inv hc
        exact bind_raise_ne_ok _ _ _ _ _ h2) htc
      obtain ⟨_, s0, hg, hconn⟩ := bind_ok_inv hbody
      have := ro_run (readOnly_guardrails _ _) hg; subst this
      cases i with
      | bogus => unfold connectInterface at hconn; simp at hconn
      | iface iid iname =>
        obtain ⟨hnf, hcp, hnsp⟩ := hl.ifs _ (List.mem_cons_self ..)
        have hgr := connect_ok_grows hl.inv.ids hl.inv.closed hcp hl.fresh hconn
        exact ih (c + 2) _ cache' s1 ⟨hT, freshFrom_grows (by omega) hgr hl.fresh, handleOk_grows hgr hl.svcOk hl.svcNF,
          notFuture_mono (by omega) hl.svcNF, fun j hj => ifOk_grows (by omega) hgr (hl.ifs j (List.mem_cons_of_mem _ hj))⟩
    · rw [bind_err htc]
      rw [htc] at hT
      exact hT

theorem svcNew_invD (fl : Flavour) (c : Nat) (parent : Option Nid) (a : SvcArgs) (s : Topo)
    (h : InvD s) (g : SvcGuards s c parent a) : InvD (svcNew fl c parent a s).2 := by
  unfold svcNew
  have hpf := pick_facts a.nid c
  rcases hp : pick a.nid c with ⟨id, c1⟩
  rw [hp] at hpf
  simp only [] at hpf ⊢
  obtain ⟨hle, hnone, hsome⟩ := hpf
  refine ro_step (Q := fun r => InvD r.2) (readOnly_need _ _) (fun _ => h) (fun t h1 => ?_)
  have hty : a.nstype = some t := need_some ⟨_, h1⟩
  refine ro_step (Q := fun r => InvD r.2) (readOnly_guard _ _) (fun _ => h) (fun _ _ => ?_)
  refine ro_step (Q := fun r => InvD r.2) (readOnly_need _ _) (fun _ => h) (fun layer _ => ?_)
  refine ro_step (Q := fun r => InvD r.2) (readOnly_ofExcept _) (fun _ => h) (fun kw _ => ?_)
  have hnode : nodeOk ⟨.networkService, id, a.name, t, dictUpdate (([("StitchNode", "false"), ("Layer", layer)] ++
      match a.tech with | some x => [("Technology", x)] | none => []) ++ match a.site with | some x => [("Site", x)] | none => []) kw⟩ = true := by
    simp [nodeOk, classOk_all, g.typ t hty]
  have hidnf : notFuture c1 id := by
    cases hn : a.nid with
    | none => obtain ⟨e1, e2⟩ := hnone hn; rw [e1, e2]; simp [notFuture]
    | some x =>
      obtain ⟨e1, e2⟩ := hsome x hn; rw [e1, e2]
      have := g.nid; rw [hn] at this; exact this
  have hifs : ∀ i ∈ a.ifs, IfOk s c i ∧ IfNotSelf id i := by
    intro i hi; have := g.ifs i hi; rw [hp] at this; exact this
  cases parent with
  | none =>
    simp only [Option.isNone, if_true]
    refine ro_step (Q := fun r => InvD r.2) (readOnly_read _) (fun _ => h) (fun _ _ => ?_)
    refine ro_step (Q := fun r => InvD r.2) (readOnly_guard _ _) (fun _ => h) (fun _ _ => ?_)
    refine addGNode_step (Q := fun r => InvD r.2) h (fun sn hsn hfr => ?_)
    subst hsn
    rw [state_after_bind _ _ (fun _ _ => rfl)]
    exact svcLoop_invD fl id t a.ifs c1 [] [] _
      (mkLoopInv (invD_push h hfr hnode) rfl rfl rfl rfl hfr hle hidnf g.fresh (g.typ t hty) hifs)
  | some p =>
    obtain ⟨⟨pn, hpnm, hpni⟩, hpcls⟩ := g.parent
    simp only [Option.isNone]
    refine addGNode_step (Q := fun r => InvD r.2) h (fun sn hsn hfr => ?_)
    subst hsn
    have hpn : findNode p s = (.ok pn, s) := by rw [← hpni]; exact findNode_of_mem h.ids hpnm
    have hrun := addEdge_run (r := .has) (findNode_push_old hpn hfr) (findNode_push_new hfr)
    simp only [] at hrun
    rw [bind_ok hrun, attach_state h.closed hfr, state_after_bind _ _ (fun _ _ => rfl)]
    have hpc := hpcls pn hpnm hpni
    refine svcLoop_invD fl id t a.ifs c1 [] [] _ (mkLoopInv ?_ rfl rfl rfl rfl hfr hle hidnf g.fresh (g.typ t hty) hifs)
    refine invD_attach h hpnm hfr hnode ?_ ?_
    · rcases hpc with hc | hc <;> simp [edgeOk, GNode.ref, hc]
    · rcases hpc with hc | hc <;> simp [hc]

theorem invD_addService (fl : Flavour) (c : Nat) (a : SvcArgs) (s : Topo) (g : SvcGuards s c none a) (h : InvD s) :
    InvD (addService fl c a s).2 := svcNew_invD fl c none a s h g

theorem invD_nodeAddService (fl : Flavour) (c : Nat) (parent : Nid) (a : SvcArgs) (s : Topo) (g : SvcGuards s c (some parent) a)
    (h : InvD s) : InvD (nodeAddService fl c parent a s).2 := by
  unfold nodeAddService
  refine ro_step (Q := fun r => InvD r.2) (readOnly_childrenOf _ _ _ _) (fun _ => h) (fun _ _ => ?_)
  refine ro_step (Q := fun r => InvD r.2) (readOnly_guard _ _) (fun _ => h) (fun _ _ => ?_)
  exact svcNew_invD fl c (some parent) a s h g

instance (s : Topo) (c : Nat) (parent : Option Nid) (a : SvcArgs) : Decidable (SvcGuards s c parent a) :=
  if h : TypeArgOk .networkService a.nstype ∧ FreshFromC c s ∧ NidArgOk c a.nid ∧ ParentOk s parent ∧
      ∀ i ∈ a.ifs, IfOk s c i ∧ IfNotSelf (pick a.nid c).1 i then
    isTrue ⟨h.1, h.2.1, h.2.2.1, h.2.2.2.1, h.2.2.2.2⟩
  else isFalse (fun g => h ⟨g.typ, g.fresh, g.nid, g.parent, g.ifs⟩)

/-- the call returned, or it raised and left the model as it was (C09: `atomic_addNetworkService_le1` /
`atomic_nodeAddService_le1` prove the latter for at most one interface) -/
def ReturnsOrUnchanged {α : Type} (m : M Topo α) (s : Topo) : Prop := ¬ failed (m s) ∨ (m s).2 = s
instance {α : Type} (m : M Topo α) (s : Topo) : Decidable (ReturnsOrUnchanged m s) := by unfold ReturnsOrUnchanged; infer_instance

theorem ok_of_not_failed {α : Type} {m : M Topo α} {s : Topo} (h : ¬ failed (m s)) : ∃ a s', m s = (.ok a, s') := by
  rcases cases_run m s with ⟨a, s', hm⟩ | ⟨e, s', hm⟩
  · exact ⟨a, s', hm⟩
  · exact absurd (by rw [hm]; simp) h

theorem invS_addService (fl : Flavour) (c : Nat) (a : SvcArgs) (s : Topo) (g : SvcGuards s c none a)
    (hout : ReturnsOrUnchanged (addService fl c a) s) (h : InvS s) : InvS (addService fl c a s).2 := by
  rcases hout with hnf | hu
  · obtain ⟨r, s', hok⟩ := ok_of_not_failed hnf
    rw [hok]
    exact svcNew_ok_inv fl c none a s s' r h g hok
  · rw [hu]; exact h

theorem invS_nodeAddService (fl : Flavour) (c : Nat) (parent : Nid) (a : SvcArgs) (s : Topo) (g : SvcGuards s c (some parent) a)
    (hout : ReturnsOrUnchanged (nodeAddService fl c parent a) s) (h : InvS s) : InvS (nodeAddService fl c parent a s).2 := by
  rcases hout with hnf | hu
  · obtain ⟨r, s', hok⟩ := ok_of_not_failed hnf
    rw [hok]
    unfold nodeAddService at hok
    obtain ⟨_, _, hok⟩ := ro_ok_inv (readOnly_childrenOf _ _ _ _) hok
    obtain ⟨_, _, hok⟩ := ro_ok_inv (readOnly_guard _ _) hok
    exact svcNew_ok_inv fl c (some parent) a s s' r h g hok
  · rw [hu]; exact h

end FimVerif.Topo
