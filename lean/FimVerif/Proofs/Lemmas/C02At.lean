import FimVerif.Proofs.Lemmas.C02Graph
/-! Model-graph path for C02, the reader **started at every element** of a written tree (`Interface.get_sliver()` on a
sub-interface, `build_deep_ns_sliver` on the service of a component, ...): on the store `addSliver` leaves behind
(`Built`), `buildDeep` started at any element of the tree gives that element's `gnorm`.  The neighbour query is
undirected, so an inner element sees its parent among its neighbours: a component / service / interface below a
node / component / service tells it apart by its class (`parentOk_child`); an interface below an interface cannot -
there the `DedicatedPort` guard of `build_deep_interface_sliver` is what keeps the parent port out (`build_plain`). -/
namespace FimVerif.C02
open FimVerif.Sliver FimVerif.Gen.SliverMap

section
set_option linter.unusedSectionVars false
variable {V P : Type} [DecidableEq V]

/-- not a `DedicatedPort` (as the rebuilt `type` field says) -/
def NotDed (C : Codecs V P) (s : Sliver V) : Prop :=
  ((restrict (tableOf "interface") s.fields) "type").any C.isDedicated = false

/-- every element that sits directly below an interface is not itself a `DedicatedPort` (what
`Interface.add_child_interface` creates: `SubInterface`-typed children) -/
def SubsPlain (C : Codecs V P) (es : List (Option (String × Kind) × Sliver V)) : Prop :=
  ∀ e ∈ es, ∀ q, e.1 = some (q, "interface") → NotDed C e.2

/-- an interface that is not a `DedicatedPort` is rebuilt without a look at its neighbours: whatever hangs on it -
its parent port in particular - stays out -/
theorem build_plain (C : Codecs V P) (G : AGraph P) : ∀ (s : Sliver V) (p : Option String) (fuel : Nat),
    Built C G p s → Shaped s → WF C s → s.kind = "interface" → NotDed C s → 1 ≤ fuel →
    buildDeep C G fuel s.kind (idOf s) = .ok (gnorm C s)
  | .mk k nid f ks, p, fuel, hb, hs, hw, hk, hd, hfu => by
    simp only [Shaped] at hs
    obtain ⟨id, rfl⟩ := Option.isSome_iff_exists.mp hs.1
    simp only [Built, Option.getD_some] at hb
    simp only [WF] at hw
    obtain ⟨hT, hlaw, hfate, hreq, _, _⟩ := hw
    simp only [Sliver.kind] at hk
    subst hk
    simp only [NotDed, Sliver.fields] at hd
    cases fuel with
    | zero => omega
    | succ n =>
      have hfp := fromProps_toProps C (tableOf "interface") f hT hlaw hfate hreq
      have hfind : findNode G id = .ok (classOf "interface", toProps C (tableOf "interface") f) := by simp [findNode, hb.1]
      simp only [Sliver.kind, idOf, Sliver.nodeId, Option.getD_some, buildDeep, hfind, hfp, gnorm, hd,
        bne_self_eq_false, Bool.false_and, Bool.false_eq_true, if_false, beq_self_eq_true, if_true, dedupe, List.foldl_nil]

theorem rank_le_five (k : Kind) : rank k ≤ 5 := by
  unfold rank; split <;> (try split) <;> (try split) <;> omega

mutual
theorem at_elems (C : Codecs V P) (G : AGraph P) : ∀ (s : Sliver V) (p : Option (String × Kind)),
    Built C G (p.map (·.1)) s → Shaped s → WF C s →
    (∀ q pk, p = some (q, pk) → (slotOf pk s.kind).isSome = true ∧ ∃ x, G.node q = [(classOf pk, x)]) →
    SubsPlain C (elems p s) →
    ∀ e ∈ elems p s, buildDeep C G 5 e.2.kind (idOf e.2) = .ok (gnorm C e.2)
  | .mk k nid f ks, p, hb, hs, hw, hpar, hpl => by
    intro e he
    simp only [elems, List.mem_cons] at he
    rcases he with rfl | he
    · -- the element itself
      cases p with
      | none =>
        exact build_built C G (.mk k nid f ks) none 5 hb hs hw (fun q hq => by cases hq) (rank_le_five _)
      | some qp =>
        obtain ⟨q, pk⟩ := qp
        obtain ⟨hslot, x, hx⟩ := hpar q pk rfl
        obtain ⟨sl, hsl⟩ := Option.isSome_iff_exists.mp hslot
        by_cases hpk : pk = "interface"
        · subst hpk
          have hk : (Sliver.mk k nid f ks).kind = "interface" := by
            rcases slotOf_cases _ _ sl hsl with ⟨h, _⟩ | ⟨h, _⟩ | ⟨h, _⟩ | ⟨h, _⟩ | ⟨_, h⟩ <;>
              first | exact h | (exfalso; revert h; decide)
          have hnd : NotDed C (.mk k nid f ks) := hpl (some (q, "interface"), .mk k nid f ks) (by simp [elems]) q rfl
          exact build_plain C G (.mk k nid f ks) (some q) 5 hb hs hw hk hnd (by omega)
        · exact build_built C G (.mk k nid f ks) (some q) 5 hb hs hw
            (parentOk_child G pk _ sl q x hsl hpk hx) (rank_le_five _)
    · -- the elements below it
      have hb' := hb
      simp only [Built] at hb'
      simp only [Shaped] at hs
      simp only [WF] at hw
      exact at_kids C G ks (nid.getD "") k _ hb'.2.2 hs.2 hw.2.2.2.2.1 hb'.1
        (fun e he => hpl e (by simp only [elems]; exact List.mem_cons_of_mem _ he)) e he
theorem at_kids (C : Codecs V P) (G : AGraph P) : ∀ (ks : List (Sliver V)) (pid : String) (pk : Kind) (x : Props P),
    BuiltKids C G pid ks → ShapedKids pk ks → WFKids C pk ks → G.node pid = [(classOf pk, x)] →
    SubsPlain C (elemsKids (pid, pk) ks) →
    ∀ e ∈ elemsKids (pid, pk) ks, buildDeep C G 5 e.2.kind (idOf e.2) = .ok (gnorm C e.2)
  | [], _, _, _, _, _, _, _, _ => by intro e he; simp [elemsKids] at he
  | c :: cs, pid, pk, x, hb, hs, hw, hnode, hpl => by
    simp only [BuiltKids] at hb
    simp only [ShapedKids] at hs
    simp only [WFKids] at hw
    intro e he
    simp only [elemsKids, List.mem_append] at he
    rcases he with he | he
    · exact at_elems C G c (some (pid, pk)) hb.1 hs.2.1 hw.2.2.1
        (fun q pk' h => by cases h; exact ⟨hs.1, x, hnode⟩)
        (fun e he => hpl e (by simp only [elemsKids]; exact List.mem_append_left _ he)) e he
    · exact at_kids C G cs pid pk x hb.2 hs.2.2 hw.2.2.2 hnode
        (fun e he => hpl e (by simp only [elemsKids]; exact List.mem_append_right _ he)) e he
end

/-- the elements of a tree do not depend on what is said about the root's parent -/
theorem elems_snd (p p' : Option (String × Kind)) (s : Sliver V) :
    (elems p s).map (·.2) = (elems p' s).map (·.2) := by
  cases s; simp [elems]

end
end FimVerif.C02
