import FimVerif.Proofs.Lemmas.StoreNid
/-! C05: every operation keeps NodeIDs unique within each graph (`nid_unique_step`). Core only. -/
namespace FimVerif.Store
open FimVerif FimVerif.Gen.StoreConsts

def polKeeps (k : String) (pol : List (String × Policy)) : Bool :=
  match AMap.get k pol with
  | none => true
  | some .discard => true
  | _ => false

/-- the operation writes neither `GraphID` nor `NodeID` of a stored node, and an imported graph's own
    NodeIDs are pairwise distinct -/
def Op.keepsKeys : Op → Bool
  | .addNode _ _ _ (some p) => !AMap.has graphId p && !AMap.has nodeId p
  | .updateNodeProperty _ _ k _ => k != graphId && k != nodeId
  | .updateNodesProperty _ k _ => k != graphId && k != nodeId
  | .updateNodeProperties _ _ p => !AMap.has graphId p && !AMap.has nodeId p
  | .addGraph _ ig => decide ((ig.nodes.map (AMap.get nodeId)).Nodup)
  | .addGraphDirect g ig => ig.nodes.all (fun a => AMap.get graphId a == some (.str g)) && decide ((ig.nodes.map (AMap.get nodeId)).Nodup)
  | .mergeNodes _ _ _ (some pol) => polKeeps graphId pol && polKeeps nodeId pol
  | _ => true

/-- with the allocator above every stored id, `add_node` is an append of one relabelled node -/
theorem addNode_eq_append (s : Store) (h : Inv s) (g nid label : String) (props : Option Props)
    (hg : addNodeGuard g nid s = false) :
    (addNode g nid label props s).2 =
      appendGraph [AMap.update [(graphId, .str g), (propClass, .str label), (nodeId, .str nid)] (props.getD [])] [] s := by
  unfold addNode
  rw [hg]
  simp only [Bool.false_eq_true, if_false]
  cases props with
  | none => simp [addBlankNode, appendGraph, relabel, AMap.update]
  | some p =>
    have hmap : ∀ (f : Props → Props), s.nodes.map (fun n => if n.iid = s.nextId then { n with attrs := f n.attrs } else n) = s.nodes := by
      intro f
      rw [List.map_congr_left, List.map_id]
      intro n hn
      have := h.2.1 n hn
      have hne : ¬ n.iid = s.nextId := by omega
      simp [hne]
    simp [updNode, addBlankNode, appendGraph, relabel]
    exact hmap (fun a => AMap.update a p)

theorem mergeProps_get (theirs : Props) (pol : List (String × Policy)) (k : String) (hk : polKeeps k pol = true)
    (l np : Props) (h : mergeProps theirs pol l = .ok np) : AMap.get k np = AMap.get k l := by
  induction l generalizing np with
  | nil => simp only [mergeProps] at h; injection h with h; subst h; rfl
  | cons x l ih =>
    obtain ⟨k0, v⟩ := x
    simp only [mergeProps] at h
    split at h
    · cases h
    · rename_i rest hrest
      have ihr := ih rest hrest
      have fin : ∀ w, (w = v ∨ k0 ≠ k) → AMap.get k ((k0, w) :: rest) = AMap.get k ((k0, v) :: l) := by
        intro w hw
        by_cases e : k0 = k
        · rcases hw with rfl | hw
          · simp [AMap.get, e]
          · exact absurd e hw
        · simp only [AMap.get, e, if_false]; exact ihr
      have hne : ∀ (p : Policy), AMap.get k0 pol = some p → p ≠ .discard → k0 ≠ k := by
        intro p hp hd e
        subst e
        simp only [polKeeps, hp] at hk
        cases p <;> simp_all
      split at h
      · injection h with h; subst h; exact fin v (Or.inl rfl)
      · injection h with h; subst h; exact fin v (Or.inl rfl)
      · rename_i hpol
        split at h
        · cases h
        · injection h with h; subst h; exact fin _ (Or.inr (hne _ hpol (by decide)))
      · rename_i hpol
        split at h
        · cases h
        · injection h with h; subst h; exact fin _ (Or.inr (hne _ hpol (by decide)))
      · rename_i hpol
        injection h with h; subst h; exact fin _ (Or.inr (hne _ hpol (by decide)))

theorem nodeId_mem_noUnset : nodeId ∈ noUnset := by decide

/-- operations other than node creation and imports never add a NodeID to any graph -/
theorem shrinks_step (op : Op) (s : Store) (h : Inv s) (hk : op.keepsKeys = true)
    (hop : match op with | .addNode .. | .addGraph .. | .addGraphDirect .. | .clone .. => False | _ => True) :
    Shrinks s (step op s).2 := by
  have R := Shrinks.refl s
  cases op with
  | addNode g nid label props => exact absurd hop id
  | addGraph g ig => exact absurd hop id
  | addGraphDirect g ig => exact absurd hop id
  | clone g g2 => exact absurd hop id
  | deleteNode g nid =>
    exact withNode_pred (Shrinks s) s g nid _ R (fun i _ => shrinks_filter s _ (fun n => n.iid != i) rfl)
  | addLink g a rel b props =>
    simp only [step, addLink]
    refine withNode_pred (Shrinks s) s g a _ R (fun ia _ => withNode_pred (Shrinks s) s g b _ R (fun ib _ => ?_))
    cases props with
    | none => exact shrinks_addEdge _ _ _ s
    | some p => simp only; split; exact R; exact shrinks_addEdge _ _ _ s
  | updateNodeProperty g nid k v =>
    simp only [step]
    refine assertVal_pred (Shrinks s) _ s _ R ?_
    simp only [updateNodeProperty]
    split
    · exact R
    · simp only [Op.keepsKeys, Bool.and_eq_true, bne_iff_ne, ne_eq] at hk
      exact withNode_pred (Shrinks s) s g nid _ R (fun i _ => shrinks_updNode s i _
        (fun n _ _ => AMap.get_set_ne _ _ _ _ (Ne.symm hk.1)) (fun n _ _ => AMap.get_set_ne _ _ _ _ (Ne.symm hk.2)))
  | unsetNodeProperty g nid k =>
    simp only [step, unsetNodeProperty]
    split
    · exact R
    · split
      · exact R
      · rename_i hnu
        have h1 : graphId ≠ k := fun e => hnu (e ▸ graphId_mem_noUnset)
        have h2 : nodeId ≠ k := fun e => hnu (e ▸ nodeId_mem_noUnset)
        refine withNode_pred (Shrinks s) s g nid _ R (fun i _ => ?_)
        split
        · exact R
        · split
          · exact shrinks_updNode s i _ (fun n _ _ => AMap.get_erase_ne _ _ _ h1) (fun n _ _ => AMap.get_erase_ne _ _ _ h2)
          · exact R
  | updateNodesProperty g k v =>
    simp only [step]
    refine assertVal_pred (Shrinks s) _ s _ R ?_
    simp only [updateNodesProperty]
    split
    · exact R
    · split
      · exact R
      · simp only [Op.keepsKeys, Bool.and_eq_true, bne_iff_ne, ne_eq] at hk
        have := shrinks_updNodes s (inG g) (AMap.set k v) (fun n _ _ => AMap.get_set_ne _ _ _ _ (Ne.symm hk.1))
          (fun n _ _ => AMap.get_set_ne _ _ _ _ (Ne.symm hk.2))
        simpa [updGraphNodes] using this
  | updateNodeProperties g nid props =>
    simp only [step, updateNodeProperties]
    split
    · exact R
    · simp only [Op.keepsKeys, Bool.and_eq_true, Bool.not_eq_true'] at hk
      exact withNode_pred (Shrinks s) s g nid _ R (fun i _ => shrinks_updNode s i _
        (fun n _ _ => AMap.get_update_not_mem _ _ _ (AMap.not_mem_keys_of_has_false _ _ hk.1))
        (fun n _ _ => AMap.get_update_not_mem _ _ _ (AMap.not_mem_keys_of_has_false _ _ hk.2)))
  | updateLinkProperty g a b kind k v =>
    simp only [step]
    refine assertVal_pred (Shrinks s) _ s _ R ?_
    simp only [updateLinkProperty]
    split
    · exact R
    · exact withLink_pred (Shrinks s) s g a b kind _ R (fun _ _ _ _ _ => shrinks_of_nodes_eq _ _ rfl)
  | unsetLinkProperty g a b kind k =>
    simp only [step, unsetLinkProperty]
    split
    · exact R
    · exact withLink_pred (Shrinks s) s g a b kind _ R (fun _ _ _ _ _ => shrinks_of_nodes_eq _ _ rfl)
  | updateLinkProperties g a b kind props =>
    simp only [step, updateLinkProperties]
    split
    · exact R
    · exact withLink_pred (Shrinks s) s g a b kind _ R (fun _ _ _ _ _ => shrinks_of_nodes_eq _ _ rfl)
  | deleteGraph g => exact shrinks_filter s _ _ rfl
  | delAllGraphs => exact shrinks_filter s _ (fun _ => false) (by simp [step, delAllGraphs])
  | mergeNodes g nid g2 pol =>
    simp only [step, mergeNodes]
    split
    · exact R
    · refine withNode_pred (Shrinks s) s g nid _ R (fun u hu => ?_)
      split
      · exact R
      · rename_i v hv
        split
        · exact R
        split
        · rename_i mine theirs hmine htheirs
          have hrel : ∀ np, AMap.get graphId np = AMap.get graphId mine → AMap.get nodeId np = AMap.get nodeId mine →
              Shrinks s (updNode u (fun _ => np) (contract u v s)) := by
            intro np h1 h2
            have key : ∀ n ∈ (contract u v s).nodes, n.iid = u → n.attrs = mine := by
              intro n hn hi
              have hn' : n ∈ s.nodes := by
                unfold contract at hn
                simp only at hn
                rw [(remapEdges_nodes u v _ _).1] at hn
                exact (List.mem_filter.1 hn).1
              have := nodeAttrs_of_mem s h n hn'
              rw [hi, hmine] at this
              injection this with this
              exact this.symm
            refine Shrinks.trans (shrinks_contract u v s) (shrinks_updNode _ u _ ?_ ?_)
            · intro n hn hi; rw [key n hn hi]; exact h1
            · intro n hn hi; rw [key n hn hi]; exact h2
          cases pol with
          | none => exact hrel mine rfl rfl
          | some pol =>
            simp only
            split
            · exact R
            · rename_i np hnp
              simp only [Op.keepsKeys, Bool.and_eq_true] at hk
              exact hrel np (mergeProps_get theirs pol graphId hk.1 mine np hnp) (mergeProps_get theirs pol nodeId hk.2 mine np hnp)
        · exact R
  | getNodeProperties g nid =>
    simp only [step, getNodeProperties]
    refine withNode_pred (Shrinks s) s g nid _ R (fun i _ => ?_)
    split
    · exact R
    · split <;> exact R
  | getLinkProperties g a b =>
    simp only [step, getLinkProperties]
    refine withNode_pred (Shrinks s) s g a _ R (fun ia _ => withNode_pred (Shrinks s) s g b _ R (fun ib _ => ?_))
    split
    · exact R
    · split <;> exact R
  | listAllNodeIds g => simp only [step, listAllNodeIds, nidList]; split; exact R; split <;> exact R
  | nodesByClass g label => simp only [step, nodesByClass, nidList]; split <;> exact R
  | nodesByClassAndType g label ntype => simp only [step, nodesByClassAndType, nidList]; split <;> exact R
  | nodeExists g nid label => simp only [step, nodeExists]; split <;> exact R
  | graphExists g => exact R
  | checkNodeUnique g label name => exact R
  | findMatchingNodes g other =>
    simp only [step, findMatchingNodes]
    split
    · exact R
    · split <;> exact R
    · exact R


theorem unique_appendGraph (s1 : Store) (g : String) (ns : List Props) (es : List (Nat × Nat × Props))
    (hns : ∀ a ∈ ns, AMap.get graphId a = some (.str g)) (hall : ∀ g', UniqueNid s1 g')
    (hnew : ((nodesOf s1 g).map nidA ++ ns.map (AMap.get nodeId)).Nodup) : ∀ g', UniqueNid (appendGraph ns es s1) g' := by
  intro g'
  unfold UniqueNid
  rw [nids_appendGraph s1 g ns es hns g']
  by_cases e : g' = g
  · subst e; rw [if_pos rfl]; exact hnew
  · rw [if_neg e, List.append_nil]; exact hall g'

theorem unique_addGraph (s : Store) (g : String) (ig : IGraph) (hall : ∀ g', UniqueNid s g')
    (hig : (ig.nodes.map (AMap.get nodeId)).Nodup) : ∀ g', UniqueNid (addGraph g ig s).2 g' := by
  have h1 : ∀ g', UniqueNid (delIfPresent g s) g' := fun g' => (shrinks_delIfPresent g s).unique g' (hall g')
  unfold addGraph
  simp only
  split
  · exact h1
  · refine unique_appendGraph _ g _ _ ?_ h1 ?_
    · intro a ha
      obtain ⟨a0, _, rfl⟩ := List.mem_map.1 ha
      exact AMap.get_set_eq _ _ _
    · rw [nodesOf_delIfPresent_self, List.map_nil, List.nil_append, List.map_map]
      have : (AMap.get nodeId ∘ AMap.set graphId (Val.str g)) = AMap.get nodeId := by
        funext a; exact AMap.get_set_ne _ _ _ _ nodeId_ne_graphId
      rw [this]; exact hig

theorem unique_addNode (s : Store) (h : Inv s) (g nid label : String) (props : Option Props)
    (hk : (Op.addNode g nid label props).keepsKeys = true) (hall : ∀ g', UniqueNid s g') :
    ∀ g', UniqueNid (addNode g nid label props s).2 g' := by
  cases hg : addNodeGuard g nid s with
  | true => unfold addNode; rw [hg]; exact hall
  | false =>
    rw [addNode_eq_append s h g nid label props hg]
    have hp : graphId ∉ AMap.keys (props.getD []) ∧ nodeId ∉ AMap.keys (props.getD []) := by
      cases props with
      | none => simp [AMap.keys]
      | some p =>
        simp only [Op.keepsKeys, Bool.and_eq_true, Bool.not_eq_true'] at hk
        exact ⟨AMap.not_mem_keys_of_has_false _ _ hk.1, AMap.not_mem_keys_of_has_false _ _ hk.2⟩
    refine unique_appendGraph s g _ _ ?_ hall ?_
    · intro a ha
      simp only [List.mem_singleton] at ha
      subst ha
      rw [AMap.get_update_not_mem _ _ _ hp.1]
      simp [AMap.get]
    · simp only [List.map_cons, List.map_nil]
      rw [AMap.get_update_not_mem _ _ _ hp.2]
      have e : AMap.get nodeId [(graphId, Val.str g), (propClass, Val.str label), (nodeId, Val.str nid)] = some (.str nid) := by
        simp [AMap.get, graphId, propClass, nodeId]
      rw [e, List.nodup_append]
      refine ⟨hall g, by simp, ?_⟩
      intro x hx y hy
      simp only [List.mem_singleton] at hy
      subst hy
      obtain ⟨n, hn, rfl⟩ := List.mem_map.1 hx
      simp only [nodesOf, List.mem_filter] at hn
      simp only [addNodeGuard, gt_iff_lt, decide_eq_false_iff_not, Nat.not_lt, Nat.le_zero, List.length_eq_zero_iff,
        List.filter_eq_nil_iff, Bool.and_eq_true, not_and, Bool.not_eq_true] at hg
      have := hg n hn.1 hn.2
      intro e2
      simp [hasNid, nidA] at this e2
      exact this e2

/-- **nid_unique**: every operation that does not write `GraphID`/`NodeID` of a stored node keeps NodeIDs
    unique within every graph, whatever the classes of the nodes involved -/
theorem nid_unique_step (op : Op) (s : Store) (h : Inv s) (hk : op.keepsKeys = true) (hall : ∀ g', UniqueNid s g') :
    ∀ g', UniqueNid (step op s).2 g' := by
  cases op with
  | addNode g nid label props => exact unique_addNode s h g nid label props hk hall
  | addGraph g ig => exact unique_addGraph s g ig.close hall (by simpa [Op.keepsKeys, IGraph.close] using hk)
  | delAllGraphs => exact fun g' => (shrinks_step _ s h hk trivial).unique g' (hall g')
  | addGraphDirect g ig =>
    simp only [Op.keepsKeys, Bool.and_eq_true, List.all_eq_true, beq_iff_eq, decide_eq_true_eq] at hk
    refine unique_appendGraph _ g _ _ hk.1 (fun g' => (shrinks_delIfPresent g s).unique g' (hall g')) ?_
    rw [nodesOf_delIfPresent_self, List.map_nil, List.nil_append]; exact hk.2
  | clone g g2 =>
    simp only [step, cloneGraph]
    split
    · exact hall
    · rename_i ig hig
      refine unique_addGraph s g2 ig hall ?_
      unfold extractGraph at hig
      simp only at hig
      split at hig
      · cases hig
      · injection hig with hig
        subst hig
        simp only [List.map_map]
        exact hall g
  | deleteNode g nid => exact fun g' => (shrinks_step _ s h hk trivial).unique g' (hall g')
  | addLink g a rel b props => exact fun g' => (shrinks_step _ s h hk trivial).unique g' (hall g')
  | updateNodeProperty g nid k v => exact fun g' => (shrinks_step _ s h hk trivial).unique g' (hall g')
  | unsetNodeProperty g nid k => exact fun g' => (shrinks_step _ s h hk trivial).unique g' (hall g')
  | updateNodesProperty g k v => exact fun g' => (shrinks_step _ s h hk trivial).unique g' (hall g')
  | updateNodeProperties g nid props => exact fun g' => (shrinks_step _ s h hk trivial).unique g' (hall g')
  | updateLinkProperty g a b kind k v => exact fun g' => (shrinks_step _ s h hk trivial).unique g' (hall g')
  | unsetLinkProperty g a b kind k => exact fun g' => (shrinks_step _ s h hk trivial).unique g' (hall g')
  | updateLinkProperties g a b kind props => exact fun g' => (shrinks_step _ s h hk trivial).unique g' (hall g')
  | deleteGraph g => exact fun g' => (shrinks_step _ s h hk trivial).unique g' (hall g')
  | mergeNodes g nid g2 pol => exact fun g' => (shrinks_step _ s h hk trivial).unique g' (hall g')
  | getNodeProperties g nid => exact fun g' => (shrinks_step _ s h hk trivial).unique g' (hall g')
  | getLinkProperties g a b => exact fun g' => (shrinks_step _ s h hk trivial).unique g' (hall g')
  | listAllNodeIds g => exact fun g' => (shrinks_step _ s h hk trivial).unique g' (hall g')
  | nodesByClass g label => exact fun g' => (shrinks_step _ s h hk trivial).unique g' (hall g')
  | nodesByClassAndType g label ntype => exact fun g' => (shrinks_step _ s h hk trivial).unique g' (hall g')
  | nodeExists g nid label => exact fun g' => (shrinks_step _ s h hk trivial).unique g' (hall g')
  | graphExists g => exact fun g' => (shrinks_step _ s h hk trivial).unique g' (hall g')
  | checkNodeUnique g label name => exact fun g' => (shrinks_step _ s h hk trivial).unique g' (hall g')
  | findMatchingNodes g other => exact fun g' => (shrinks_step _ s h hk trivial).unique g' (hall g')

end FimVerif.Store
