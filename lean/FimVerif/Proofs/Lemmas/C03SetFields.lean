import FimVerif.Model.Codec
/-! Helper lemmas for C03: `_set_fields` as a fold of assignments. -/
namespace FimVerif.Codec
open FimVerif JVal

/-- apply a list of assignments left to right -/
def applyAll (l : List (String × JVal)) (x : Fields) : Fields := l.foldl (fun x p => setF x p.1 p.2) x

@[simp] theorem applyAll_nil (x : Fields) : applyAll [] x = x := rfl
@[simp] theorem applyAll_cons (p) (l) (x : Fields) : applyAll (p :: l) x = applyAll l (setF x p.1 p.2) := rfl

theorem applyAll_not_mem (l : List (String × JVal)) (x : Fields) (k : String) (h : k ∉ l.map (·.1)) :
    applyAll l x k = x k := by
  induction l generalizing x with
  | nil => rfl
  | cons p t ih =>
    simp only [List.map_cons, List.mem_cons, not_or] at h
    rw [applyAll_cons, ih _ h.2]
    simp [setF, h.1]

theorem applyAll_mem (l : List (String × JVal)) (x : Fields) (k : String) (v : JVal)
    (hn : (l.map (·.1)).Nodup) (h : (k, v) ∈ l) : applyAll l x k = v := by
  induction l generalizing x with
  | nil => cases h
  | cons p t ih =>
    simp only [List.map_cons, List.nodup_cons] at hn
    rw [applyAll_cons]
    rcases List.mem_cons.1 h with h | h
    · subst h
      rw [applyAll_not_mem _ _ _ hn.1]
      simp [setF]
    · exact ih _ hn.2 h

/-- every pair passes the guard, the validator, and names a field -/
def AllGood (c : ClassSpec) (valid : String → JVal → Bool) (l : List (String × JVal)) : Prop :=
  ∀ p ∈ l, (names c).contains p.1 = true ∧ guardCheck c.guard p.2 = .ok () ∧ valid p.1 p.2 = true

theorem setFields_allGood (c : ClassSpec) (valid) (fg : Bool) (l : List (String × JVal)) (x : Fields)
    (h : AllGood c valid l) : setFields c valid fg l x = .ok (applyAll l x) := by
  induction l generalizing x with
  | nil => rfl
  | cons p t ih =>
    obtain ⟨k, v⟩ := p
    have hp := h (k, v) (List.mem_cons_self)
    simp only [setFields, hp.2.1, hp.1, hp.2.2, if_true]
    exact ih _ (fun q hq => h q (List.mem_cons_of_mem _ hq))

/-- whatever the mode, a successful `_set_fields` has assigned exactly the known keys, in order -/
theorem setFields_ok (c : ClassSpec) (valid) (fg : Bool) (l : List (String × JVal)) (x y : Fields)
    (h : setFields c valid fg l x = .ok y) : y = applyAll (knownOnly c l) x := by
  induction l generalizing x with
  | nil => simp [setFields] at h; simp [knownOnly, h]
  | cons p t ih =>
    obtain ⟨k, v⟩ := p
    simp only [setFields] at h
    split at h
    · cases h
    · by_cases hk : k ∈ names c
      · by_cases hv : valid k v = true
        · simp only [List.contains_eq_mem, hk, decide_true, if_true, hv] at h
          simpa [knownOnly, List.filter_cons, hk] using ih _ h
        · simp [hk, hv] at h
      · by_cases ha : c.strictFields = false ∧ k ∈ c.attrs
        · simp [hk, ha] at h
        · cases fg
          · simp [hk, ha] at h
          · simp [hk, ha] at h
            simpa [knownOnly, List.filter_cons, hk] using ih _ h
end FimVerif.Codec
