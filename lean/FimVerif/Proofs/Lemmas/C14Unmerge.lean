import FimVerif.Proofs.Lemmas.C14Union
/-! # C14 lemmas: unmerge after merge; snapshots -/
namespace FimVerif.Cbm

/-- an emptied delegation (`''`) is identified with an absent one -/
def Deleg.norm : Deleg → Deleg
  | .emptied => .absent
  | d => d
def Node.norm (n : Node) : Node := { n with ldel := n.ldel.norm, cdel := n.cdel.norm }
def Graph.norm (g : Graph) : Graph := ⟨g.nodes.map Node.norm, g.edges⟩

def Deleg.mentions (gid : String) : Deleg → Bool
  | .dict l => l.any (fun p => p.1 == gid)
  | _ => false

/-- the graph id is not used anywhere in the combined model -/
def Graph.Fresh (c : Graph) (gid : String) : Prop :=
  ∀ n ∈ c.nodes, gid ∉ n.prov ∧ n.ldel.mentions gid = false ∧ n.cdel.mentions gid = false
instance (c : Graph) (gid : String) : Decidable (c.Fresh gid) := by unfold Graph.Fresh; infer_instance

/-- every element of the combined model has a contributor -/
def Graph.Proved (c : Graph) : Prop := ∀ n ∈ c.nodes, n.prov ≠ []
instance (c : Graph) : Decidable c.Proved := by unfold Graph.Proved; infer_instance

/-- every connection of `a` between two elements of `c` is already in `c` -/
def EdgeGuard (c : Graph) (a : Adm) : Prop :=
  ∀ e ∈ a.g.edges, e.a ∈ c.ids → e.b ∈ c.ids → c.hasEdge e.a e.b = true
instance (c : Graph) (a : Adm) : Decidable (EdgeGuard c a) := by unfold EdgeGuard; infer_instance

theorem Deleg.unmerge_unmentioned {d : Deleg} {gid : String} (h : d.mentions gid = false) : d.unmerge gid = .ok d := by
  cases d with
  | absent => rfl
  | emptied => rfl
  | dict l => simp only [Deleg.mentions] at h; simp [Deleg.unmerge, h]

theorem Deleg.unmerge_take_rk (c d : Deleg) (aid : String) (hf : c.mentions aid = false) :
    ∃ r, (c.take (d.rk aid)).unmerge aid = .ok r ∧ r.norm = c.norm := by
  have hc := Deleg.unmerge_unmentioned hf
  cases d with
  | absent => exact ⟨c, by simpa [Deleg.rk, Deleg.take_absent_right] using hc, rfl⟩
  | emptied => exact ⟨c, by simpa [Deleg.rk, Deleg.take_absent_right] using hc, rfl⟩
  | dict l =>
    match l with
    | [] => exact ⟨c, by simpa [Deleg.rk, Deleg.take_absent_right] using hc, rfl⟩
    | _ :: _ :: _ => exact ⟨c, by simpa [Deleg.rk, Deleg.take_absent_right] using hc, rfl⟩
    | [(k, v)] =>
      cases c with
      | absent => exact ⟨.emptied, by simp [Deleg.rk, Deleg.take, Deleg.live, Deleg.unmerge], rfl⟩
      | emptied => exact ⟨.emptied, by simp [Deleg.rk, Deleg.take, Deleg.live, Deleg.unmerge], rfl⟩
      | dict m => exact ⟨.dict m, by simpa [Deleg.rk, Deleg.take, Deleg.live] using hc, rfl⟩

theorem Deleg.unmerge_rk (d : Deleg) (aid : String) : ∃ r, (d.rk aid).unmerge aid = .ok r := by
  cases d with
  | absent => exact ⟨_, rfl⟩
  | emptied => exact ⟨_, rfl⟩
  | dict l =>
    match l with
    | [] => exact ⟨_, rfl⟩
    | _ :: _ :: _ => exact ⟨_, rfl⟩
    | [(k, v)] => exact ⟨.emptied, by simp [Deleg.rk, Deleg.unmerge]⟩

theorem provUnmerge_fresh {gid : String} {p : List String} (h : gid ∉ p) : provUnmerge gid p = (p, false) := by
  simp [provUnmerge, h]

theorem provUnmerge_appended {gid : String} {p : List String} (h : gid ∉ p) (hp : p ≠ []) :
    provUnmerge gid (p ++ [gid]) = (p, false) := by
  have he : (p ++ [gid]).erase gid = p := by
    rw [List.erase_append_right _ h]; simp
  simp [provUnmerge, he, hp]

theorem provUnmerge_single (gid : String) : provUnmerge gid [gid] = ([gid], true) := by
  simp [provUnmerge]

/-- a node of `c` after merge and unmerge of `a`: kept, and equal to what it was up to emptied delegations -/
theorem unmergeNode_mergeAt {c : Graph} (a : Adm) (done : List String) {n : Node} (hn : n ∈ c.nodes)
    (hf : c.Fresh a.id) (hp : c.Proved) :
    ∃ n', unmergeNode a.id (mergeAt a.stamped a.id done n) = .ok (n', false) ∧ n'.norm = n.norm := by
  obtain ⟨f1, f2, f3⟩ := hf n hn
  have hpn := hp n hn
  have plain : unmergeNode a.id n = .ok (n, false) := by
    simp [unmergeNode, provUnmerge_fresh f1, Deleg.unmerge_unmentioned f2, Deleg.unmerge_unmentioned f3]
  unfold mergeAt
  split
  · split
    · rename_i tn htn
      rw [stamped_node?] at htn
      cases han : a.g.node? n.id with
      | none => simp [han] at htn
      | some an =>
        simp only [han, Option.map_some, Option.some.injEq] at htn
        subst htn
        obtain ⟨rl, hl1, hl2⟩ := Deleg.unmerge_take_rk n.ldel an.ldel a.id f2
        obtain ⟨rc, hc1, hc2⟩ := Deleg.unmerge_take_rk n.cdel an.cdel a.id f3
        refine ⟨{ n with ldel := rl, cdel := rc }, ?_, ?_⟩
        · simp [unmergeNode, mergeNode, stampT, provUnmerge_appended f1 hpn, hl1, hc1]
        · simp [Node.norm, hl2, hc2]
    · exact ⟨n, plain, rfl⟩
  · exact ⟨n, plain, rfl⟩

/-- a node only `a` contributed is deleted by the unmerge -/
theorem unmergeNode_stampT (aid : String) (an : Node) : ∃ n', unmergeNode aid (stampT aid an) = .ok (n', true) := by
  obtain ⟨rl, hl⟩ := Deleg.unmerge_rk an.ldel aid
  obtain ⟨rc, hc⟩ := Deleg.unmerge_rk an.cdel aid
  exact ⟨{ stampT aid an with ldel := rl, cdel := rc }, by simp [unmergeNode, stampT, provUnmerge_single, hl, hc]⟩

theorem unmergeNode_id {gid : String} {n : Node} {r : Node × Bool} (h : unmergeNode gid n = .ok r) : r.1.id = n.id := by
  unfold unmergeNode at h
  split at h
  · cases h
  · split at h
    · cases h
    · injection h with h; subst h; rfl

/-- the two halves of the merged node list under `unmergeNodes` -/
theorem unmergeNodes_append {gid : String} : ∀ (l1 l2 : List Node) (r1 r2 : List (Node × Bool)),
    unmergeNodes gid l1 = .ok r1 → unmergeNodes gid l2 = .ok r2 → unmergeNodes gid (l1 ++ l2) = .ok (r1 ++ r2)
  | [], l2, r1, r2, h1, h2 => by simp [unmergeNodes] at h1; subst h1; simpa using h2
  | n :: l1, l2, r1, r2, h1, h2 => by
    simp only [List.cons_append]
    unfold unmergeNodes at h1 ⊢
    split at h1
    · cases h1
    · rename_i r hr
      split at h1
      · cases h1
      · rename_i rs hrs
        injection h1 with h1
        subst h1
        rw [unmergeNodes_append l1 l2 rs r2 hrs h2]
        rfl

/-- kept nodes: pointwise ok with flag false -/
theorem unmergeNodes_keep {gid : String} (f : Node → Node) : ∀ (l : List Node),
    (∀ n ∈ l, ∃ n', unmergeNode gid (f n) = .ok (n', false) ∧ n'.norm = n.norm) →
    ∃ rs, unmergeNodes gid (l.map f) = .ok rs ∧ rs.all (fun r => !r.2) = true ∧
      (rs.map (·.1)).map Node.norm = l.map Node.norm ∧ (rs.map (·.1.id)) = l.map (fun n => (f n).id)
  | [], _ => ⟨[], rfl, rfl, rfl, rfl⟩
  | n :: l, h => by
    obtain ⟨n', h1, h2⟩ := h n (by simp)
    obtain ⟨rs, i1, i2, i3, i4⟩ := unmergeNodes_keep f l (fun m hm => h m (by simp [hm]))
    refine ⟨(n', false) :: rs, ?_, by simpa using i2, by simp [h2, i3], ?_⟩
    · simp [unmergeNodes, h1, i1]
    · have := unmergeNode_id h1
      simp only [List.map_cons, i4]
      rw [this]

/-- deleted nodes: pointwise ok with flag true -/
theorem unmergeNodes_drop {gid : String} : ∀ (l : List Node),
    (∀ n ∈ l, ∃ n', unmergeNode gid n = .ok (n', true)) →
    ∃ rs, unmergeNodes gid l = .ok rs ∧ rs.filter (fun r => !r.2) = []
  | [], _ => ⟨[], rfl, rfl⟩
  | n :: l, h => by
    obtain ⟨n', h1⟩ := h n (by simp)
    obtain ⟨rs, i1, i2⟩ := unmergeNodes_drop l (fun m hm => h m (by simp [hm]))
    exact ⟨(n', true) :: rs, by simp [unmergeNodes, h1, i1], by simp [i2]⟩


theorem filter_all_true {α : Type} (p : α → Bool) (l : List α) (h : l.all p = true) : l.filter p = l :=
  List.filter_eq_self.mpr (fun a ha => List.all_eq_true.mp h a ha)

/-- `unmerge (merge c a) a.id ≈ c` under the guards -/
theorem unmerge_merge {c : Graph} {a : Adm} {g : Graph} (hc : c.WF) (hm : mergeN c a = (none, g))
    (hf : c.Fresh a.id) (hp : c.Proved) (hg : EdgeGuard c a) :
    (unmerge g a.id).1 = none ∧ (unmerge g a.id).2.norm = c.norm := by
  have hs := merge_step hc.closed hm
  have hgeq := hs.eq
  subst hgeq
  obtain ⟨rs1, k1, k2, k3, k4⟩ := unmergeNodes_keep (gid := a.id) (mergeAt a.stamped a.id (common c a.g)) c.nodes
    (fun n hn => unmergeNode_mergeAt a _ hn hf hp)
  obtain ⟨rs2, d1, d2⟩ := unmergeNodes_drop (gid := a.id) (a.stamped.nodes.filter (fun tn => !c.ids.contains tn.id)) (by
    intro n hn
    have hn' := (List.mem_filter.mp hn).1
    simp only [Adm.stamped, List.mem_map] at hn'
    obtain ⟨an, _, rfl⟩ := hn'
    exact unmergeNode_stampT a.id an)
  have happ := unmergeNodes_append _ _ _ _ k1 d1
  have hnodes : (mergeCore c a.stamped a.id (common c a.g) true).nodes =
      c.nodes.map (mergeAt a.stamped a.id (common c a.g)) ++ a.stamped.nodes.filter (fun tn => !c.ids.contains tn.id) := by
    simp [mergeCore]
  have hne : (mergeCore c a.stamped a.id (common c a.g) true).nodes.isEmpty = false := by
    rw [hnodes]
    cases hcn : c.nodes with
    | cons n l => simp
    | nil =>
      have : a.g.nodes ≠ [] := hs.nonempty
      cases han : a.g.nodes with
      | nil => exact absurd han this
      | cons x xs => simp [Adm.stamped, han, Graph.ids, hcn]
  have hkeepf : (rs1 ++ rs2).filter (fun r => !r.2) = rs1 := by
    rw [List.filter_append, d2, filter_all_true _ _ k2, List.append_nil]
  have hids : (rs1.map (·.1)).map (·.id) = c.ids := by
    rw [List.map_map]
    have : (rs1.map ((fun n => n.id) ∘ fun r => r.1)) = rs1.map (·.1.id) := rfl
    rw [this, k4]
    unfold Graph.ids
    apply List.map_congr_left
    intro n _
    exact mergeAt_id _ _ _ n
  have hedges : (mergeCore c a.stamped a.id (common c a.g) true).edges.filter
      (fun e => c.ids.contains e.a && c.ids.contains e.b) = c.edges := by
    simp only [mergeCore, List.filter_append]
    have h1 : c.edges.filter (fun e => c.ids.contains e.a && c.ids.contains e.b) = c.edges := by
      apply List.filter_eq_self.mpr
      intro e he
      have := hc.closed e he
      simp [this.1, this.2]
    have h2 : (a.stamped.edges.filter (fun e => !c.hasEdge e.a e.b && (true || ((common c a.g).contains e.a && (common c a.g).contains e.b)))).filter
        (fun e => c.ids.contains e.a && c.ids.contains e.b) = [] := by
      apply List.filter_eq_nil_iff.mpr
      intro e he hcontra
      have he' := List.mem_filter.mp he
      simp only [Bool.and_eq_true, List.contains_iff_mem] at hcontra
      have := hg e he'.1 hcontra.1 hcontra.2
      simp [this] at he'
    rw [h1, h2, List.append_nil]
  unfold unmerge
  rw [hnodes] at hne ⊢
  simp only [hne, happ, hkeepf, hids, hedges]
  exact ⟨by simp, by simp [Graph.norm, k3]⟩

/-! ### snapshots -/

theorem lookupSnap_filter_ne {k j : Nat} (h : j ≠ k) : ∀ (l : List (Nat × Graph)),
    lookupSnap k (l.filter (fun p => p.1 != j)) = lookupSnap k l
  | [] => rfl
  | (i, g) :: l => by
    by_cases hij : i = j
    · subst hij
      have : (i == k) = false := by simpa using h
      simp [lookupSnap, this, lookupSnap_filter_ne h l]
    · have : (i != j) = true := by simpa using hij
      simp only [List.filter_cons, this, if_true, lookupSnap, lookupSnap_filter_ne h l]

/-- a snapshot survives every operation except a rollback to it -/
theorem snap_survives (k : Nat) (g0 : Graph) : ∀ (ops : List Op) (w : World),
    lookupSnap k w.snaps = some g0 → k < w.next → (∀ op ∈ ops, op ≠ .rollback k) →
    lookupSnap k (run w ops).snaps = some g0
  | [], _, h, _, _ => h
  | op :: ops, w, h, hk, hops => by
    simp only [run]
    have hrest : ∀ op' ∈ ops, op' ≠ .rollback k := fun o ho => hops o (by simp [ho])
    cases op with
    | merge aid =>
      apply snap_survives k g0 ops _ _ _ hrest
      · simp only [step]; split <;> exact h
      · simp only [step]; split <;> exact hk
    | unmerge gid => exact snap_survives k g0 ops _ (by simpa [step] using h) (by simpa [step] using hk) hrest
    | snapshot =>
      apply snap_survives k g0 ops _ _ _ hrest
      · simp only [step, snapshot]
        split
        · exact h
        · have : (w.next == k) = false := by simpa using (Nat.ne_of_gt hk)
          simp [lookupSnap, this, h]
      · simp only [step, snapshot]
        split
        · exact hk
        · exact Nat.lt_succ_of_lt hk
    | rollback j =>
      have hj : j ≠ k := fun e => hops (.rollback j) (by simp) (by rw [e])
      apply snap_survives k g0 ops _ _ _ hrest
      · simp only [step, rollback]
        split
        · exact h
        · simp only []
          rw [lookupSnap_filter_ne hj]
          exact h
      · simp only [step, rollback]
        split <;> exact hk

end FimVerif.Cbm
