import FimVerif.Proofs.Lemmas.C16Validate
/-! Readable characterisations: languages of the character-class regexes, the range predicates, `int()` on digit strings. -/
namespace FimVerif.V16
open FimVerif.Regex FimVerif.Gen.Validators

theorem pow_chr (p : Char → Bool) : ∀ (k : Nat) (w : List Char),
    Regex.Pow (Re.chr p).L k w ↔ w.length = k ∧ ∀ c ∈ w, p c = true := by
  intro k
  induction k with
  | zero =>
    intro w
    simp only [Regex.Pow]
    constructor
    · rintro rfl; simp
    · rintro ⟨h, _⟩; exact List.length_eq_zero_iff.mp h
  | succ k ih =>
    intro w
    simp only [Regex.Pow, Re.L]
    constructor
    · rintro ⟨u, v, rfl, ⟨c, rfl, hc⟩, hv⟩
      obtain ⟨h1, h2⟩ := (ih v).mp hv
      refine ⟨by simp [h1], ?_⟩
      intro x hx
      simp only [List.singleton_append, List.mem_cons] at hx
      cases hx with
      | inl hx => subst hx; exact hc
      | inr hx => exact h2 x hx
    · rintro ⟨h1, h2⟩
      cases w with
      | nil => simp at h1
      | cons c v =>
        refine ⟨[c], v, rfl, ⟨c, rfl, h2 c (List.mem_cons_self ..)⟩, (ih v).mpr ⟨by simpa using h1, ?_⟩⟩
        intro x hx; exact h2 x (List.mem_cons_of_mem _ hx)

/-- `[class]{lo,hi}` : the words of length lo..hi over the class -/
theorem L_rep_chr (p : Char → Bool) (lo hi : Nat) (w : List Char) :
    (Re.rep (.chr p) lo hi).L w ↔ lo ≤ w.length ∧ w.length ≤ hi ∧ ∀ c ∈ w, p c = true := by
  simp only [Re.L]
  constructor
  · rintro ⟨k, h1, h2, hk⟩
    obtain ⟨h3, h4⟩ := (pow_chr p k w).mp hk
    exact ⟨by omega, by omega, h4⟩
  · rintro ⟨h1, h2, h3⟩
    exact ⟨w.length, h1, h2, (pow_chr p _ w).mpr ⟨rfl, h3⟩⟩

/-- `[class]*` -/
theorem L_star_chr (p : Char → Bool) (w : List Char) : (Re.star (.chr p)).L w ↔ ∀ c ∈ w, p c = true := by
  simp only [Re.L]
  constructor
  · rintro ⟨k, hk⟩; exact ((pow_chr p k w).mp hk).2
  · intro h; exact ⟨w.length, (pow_chr p _ w).mpr ⟨rfl, h⟩⟩

/-! the range predicate holds iff every comparison evaluates and holds -/

theorem evalRange_true_iff (s : List Char) : ∀ (cs : List Cmp),
    evalRange s cs = .ok true ↔ ∀ c ∈ cs, ∃ a b, evalInt s c.l = .ok a ∧ evalInt s c.r = .ok b ∧ cmpOp c.op a b = true := by
  intro cs
  induction cs with
  | nil => simp [evalRange, pure, Except.pure]
  | cons c t ih =>
    simp only [evalRange]
    cases ha : evalInt s c.l with
    | error e => simp [ha]
    | ok a =>
      cases hb : evalInt s c.r with
      | error e => simp [ha, hb]
      | ok b =>
        simp only []
        by_cases hc : cmpOp c.op a b = true
        · simp only [hc, if_true, ih]
          constructor
          · intro h x hx
            simp only [List.mem_cons] at hx
            cases hx with
            | inl hx => subst hx; exact ⟨a, b, ha, hb, hc⟩
            | inr hx => exact h x hx
          · intro h x hx; exact h x (List.mem_cons_of_mem _ hx)
        · simp only [hc]
          constructor
          · intro h; simp [pure, Except.pure] at h
          · intro h
            obtain ⟨a', b', ha', hb', hc'⟩ := h c (List.mem_cons_self ..)
            rw [ha] at ha'; rw [hb] at hb'
            cases ha'; cases hb'
            exact absurd hc' hc


/-! ### `int()` of a string of decimal digits is its positional value -/

/-- positional value of a digit string (any Unicode decimal digits) -/
def decVal (s : List Char) : Nat := s.foldl (fun acc c => acc * 10 + (digitVal c).getD 0) 0

theorem inRanges_iff_digitValIn : ∀ (t : List (Nat × Nat)) (n : Nat), inRanges t n = true ↔ (digitValIn t n).isSome = true := by
  intro t
  induction t with
  | nil => intro n; simp [inRanges, digitValIn]
  | cons a r ih =>
    intro n
    obtain ⟨lo, hi⟩ := a
    simp only [inRanges, digitValIn]
    by_cases h1 : n < lo
    · simp [h1]
    · by_cases h2 : n ≤ hi
      · simp [h1, h2]
      · simp only [h1, h2, if_false]; exact ih n

theorem inRanges_mem : ∀ (t : List (Nat × Nat)) (n : Nat), inRanges t n = true → ∃ x ∈ t, x.1 ≤ n ∧ n ≤ x.2 := by
  intro t
  induction t with
  | nil => intro n h; simp [inRanges] at h
  | cons a r ih =>
    intro n h
    obtain ⟨lo, hi⟩ := a
    simp only [inRanges] at h
    by_cases h1 : n < lo
    · simp [h1] at h
    · by_cases h2 : n ≤ hi
      · exact ⟨(lo, hi), List.mem_cons_self .., by simp; omega, h2⟩
      · simp only [h1, h2, if_false] at h
        obtain ⟨x, hx, hb⟩ := ih n h
        exact ⟨x, List.mem_cons_of_mem _ hx, hb⟩

def rangesDisjoint (a b : List (Nat × Nat)) : Bool :=
  a.all fun x => b.all fun y => decide (x.2 < y.1) || decide (y.2 < x.1)

theorem disjoint_sound {a b : List (Nat × Nat)} (hd : rangesDisjoint a b = true) {n : Nat}
    (ha : inRanges a n = true) (hb : inRanges b n = true) : False := by
  obtain ⟨x, hx, h1, h2⟩ := inRanges_mem a n ha
  obtain ⟨y, hy, h3, h4⟩ := inRanges_mem b n hb
  simp only [rangesDisjoint, List.all_eq_true, Bool.or_eq_true, decide_eq_true_eq] at hd
  have := hd x hx y hy
  omega

/-- table fact: no decimal digit is stripped by int() -/
theorem digit_not_space (c : Char) (h : isDigit c = true) : isSpace c = false := by
  cases hs : isSpace c with
  | false => rfl
  | true => exact absurd (disjoint_sound (a := digitDecades) (b := spaceRanges) (by decide) h hs) id

theorem digit_val (c : Char) (h : isDigit c = true) : ∃ v, digitVal c = some v := by
  have := (inRanges_iff_digitValIn digitDecades c.toNat).mp h
  exact Option.isSome_iff_exists.mp this

theorem digit_not_punct (c : Char) (h : isDigit c = true) : c ≠ '_' ∧ c ≠ '-' ∧ c ≠ '+' := by
  refine ⟨?_, ?_, ?_⟩ <;> (intro hc; subst hc; revert h; decide)

theorem digitsGo_cons_ne (c : Char) (r : List Char) (acc n : Nat) (h : c ≠ '_') :
    digitsGo (c :: r) acc n = (match digitVal c with | some v => digitsGo r (acc * 10 + v) (n + 1) | none => none) := by
  cases r <;> simp only [digitsGo, h, if_false] <;> cases digitVal c <;> rfl

theorem digitsGo_digits : ∀ (s : List Char) (acc n : Nat), (∀ c ∈ s, isDigit c = true) →
    digitsGo s acc n = some (s.foldl (fun acc c => acc * 10 + (digitVal c).getD 0) acc, n + s.length) := by
  intro s
  induction s with
  | nil => intro acc n _; simp [digitsGo]
  | cons c r ih =>
    intro acc n h
    have hc := h c (List.mem_cons_self ..)
    obtain ⟨v, hv⟩ := digit_val c hc
    have hne := (digit_not_punct c hc).1
    rw [digitsGo_cons_ne c r acc n hne]
    simp only [hv]
    rw [ih _ _ (fun x hx => h x (List.mem_cons_of_mem _ hx))]
    simp [List.foldl, hv]; omega

theorem dropWhile_head_false {p : Char → Bool} : ∀ (l : List Char), (∀ x, l.head? = some x → p x = false) → l.dropWhile p = l := by
  intro l h
  cases l with
  | nil => rfl
  | cons a t => simp [List.dropWhile, h a rfl]

theorem strip_digits (s : List Char) (h : ∀ c ∈ s, isDigit c = true) : strip s = s := by
  unfold strip
  have h1 : s.dropWhile isSpace = s := by
    apply dropWhile_head_false
    intro x hx
    exact digit_not_space x (h x (List.mem_of_mem_head? hx))
  rw [h1]
  have h2 : s.reverse.dropWhile isSpace = s.reverse := by
    apply dropWhile_head_false
    intro x hx
    have : x ∈ s.reverse := List.mem_of_mem_head? hx
    exact digit_not_space x (h x (List.mem_reverse.mp this))
  rw [h2, List.reverse_reverse]

/-- `int(s)` for a non-empty string of decimal digits (below CPython's digit limit) is its positional value -/
theorem pyInt_digits (s : List Char) (hne : s ≠ []) (h : ∀ c ∈ s, isDigit c = true) (hlen : s.length ≤ intMaxStrDigits) :
    pyInt s = some (Int.ofNat (decVal s)) := by
  unfold pyInt
  rw [strip_digits s h]
  cases s with
  | nil => exact absurd rfl hne
  | cons c r =>
    have hc := h c (List.mem_cons_self ..)
    obtain ⟨h_, hm, hp⟩ := digit_not_punct c hc
    have hnat : pyNat (c :: r) = some (decVal (c :: r)) := by
      unfold pyNat
      simp only [h_, if_false]
      rw [digitsGo_digits (c :: r) 0 0 h]
      have : ¬ (0 + (c :: r).length > intMaxStrDigits) := by omega
      simp only [this, if_false]; rfl
    split
    · rename_i r' heq; cases heq; exact absurd rfl hm
    · rename_i r' heq; cases heq; exact absurd rfl hp
    · rw [hnat]; rfl

end FimVerif.V16
