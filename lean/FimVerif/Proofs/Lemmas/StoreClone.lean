import FimVerif.Proofs.Lemmas.StoreFrameOps
/-! C04: content of a graph after import / clone on the shared store (`clone_eq`). Core only. -/
namespace FimVerif.Store
open FimVerif FimVerif.Gen.StoreConsts

theorem find?_eq_getElem?_findIdx {α : Type} (p : α → Bool) (l : List α) : l.find? p = l[l.findIdx p]? := by
  induction l with
  | nil => rfl
  | cons a l ih =>
    by_cases h : p a
    · simp [List.findIdx_cons, h]
    · simp [List.findIdx_cons, h, ih]

theorem relabel_length (base : Nat) (l : List Props) : (relabel base l).length = l.length := by
  induction l generalizing base with
  | nil => rfl
  | cons a l ih => simp [relabel, ih]

theorem find_relabel (base : Nat) (l : List Props) (k : Nat) :
    (relabel base l).find? (fun n => n.iid == base + k) = (l[k]?).map (fun a => ⟨base + k, a⟩) := by
  induction l generalizing base k with
  | nil => simp [relabel]
  | cons a l ih =>
    cases k with
    | zero => simp [relabel]
    | succ k =>
      have : (base == base + (k + 1)) = false := by simp
      simp only [relabel, List.find?_cons, this, List.getElem?_cons_succ]
      have := ih (base + 1) k
      rw [show base + 1 + k = base + (k + 1) by omega] at this
      exact this

theorem nidOf_relabel (base : Nat) (l : List Props) (k : Nat) :
    nidOf (relabel base l) (base + k) = (l[k]?).bind (AMap.get nodeId) := by
  unfold nidOf
  rw [find_relabel]
  cases l[k]? <;> rfl

theorem nidOf_pos (ns : List SNode) (i : Nat) : nidOf ns i = (ns[posOf ns i]?).bind (fun n => AMap.get nodeId n.attrs) := by
  unfold nidOf posOf
  rw [find?_eq_getElem?_findIdx]

theorem nodeId_ne_graphId : nodeId ≠ graphId := by decide

theorem nodesOf_delIfPresent_self (s : Store) (g : String) : nodesOf (delIfPresent g s) g = [] := by
  unfold delIfPresent
  split
  · simp only [nodesOf, delGraphNl, List.filter_filter]
    rw [List.filter_eq_nil_iff]; intro n _; simp
  · rename_i h
    simpa using h

theorem filter_relabel_all (g : String) (base : Nat) (l : List Props) (hl : ∀ a ∈ l, AMap.get graphId a = some (.str g)) :
    (relabel base l).filter (inG g) = relabel base l := by
  rw [List.filter_eq_self]
  intro n hn
  induction l generalizing base with
  | nil => cases hn
  | cons a l ih =>
    simp only [relabel, List.mem_cons] at hn
    rcases hn with rfl | hn
    · simp [inG, hl a (by simp)]
    · exact ih (base + 1) (fun b hb => hl b (by simp [hb])) hn

/-- the content of graph `g` right after `appendGraph` put it there (graph `g` was empty before and
    every appended node carries `GraphID = g`) -/
theorem abs_appendGraph (s : Store) (h : Inv s) (g : String) (ns : List Props) (es : List (Nat × Nat × Props))
    (hempty : nodesOf s g = []) (hns : ∀ a ∈ ns, AMap.get graphId a = some (.str g))
    (hwf : ∀ e ∈ es, e.1 < ns.length ∧ e.2.1 < ns.length) :
    abs (appendGraph ns es s) g =
      ⟨ns.map (AMap.erase graphId),
       es.map (fun e => ((ns[e.1]?).bind (AMap.get nodeId), (ns[e.2.1]?).bind (AMap.get nodeId), e.2.2))⟩ := by
  have hN : nodesOf (appendGraph ns es s) g = relabel s.nextId ns := by
    simp only [nodesOf, appendGraph, List.filter_append] at hempty ⊢
    rw [hempty, filter_relabel_all g _ _ hns]; rfl
  have hE : edgesOf (appendGraph ns es s) g = es.map (fun e => (⟨s.nextId + e.1, s.nextId + e.2.1, e.2.2⟩ : SEdge)) := by
    unfold edgesOf
    rw [hN]
    simp only [appendGraph, List.filter_append]
    have h1 : s.edges.filter (fun e => idIn (relabel s.nextId ns) e.a && idIn (relabel s.nextId ns) e.b) = [] := by
      rw [List.filter_eq_nil_iff]
      intro e he
      have := (h.2.2 e he).1
      obtain ⟨n, hn, en⟩ := (idIn_iff _ _).1 this
      have hlt := h.2.1 n hn
      have : idIn (relabel s.nextId ns) e.a = false := by
        cases hh : idIn (relabel s.nextId ns) e.a with
        | false => rfl
        | true => have := (idIn_relabel _ _ _).1 hh; omega
      simp [this]
    rw [h1, List.nil_append, List.filter_eq_self]
    intro e he
    obtain ⟨e0, he0, rfl⟩ := List.mem_map.1 he
    have := hwf e0 he0
    simp only [Bool.and_eq_true]
    exact ⟨(idIn_relabel _ _ _).2 ⟨by omega, by omega⟩, (idIn_relabel _ _ _).2 ⟨by omega, by omega⟩⟩
  unfold abs absView
  rw [hN, hE]
  congr 1
  · have : ∀ (base : Nat) (l : List Props), (relabel base l).map (fun n => AMap.erase graphId n.attrs) = l.map (AMap.erase graphId) := by
      intro base l
      induction l generalizing base with
      | nil => rfl
      | cons a l ih => simp [relabel, ih]
    exact this _ _
  · simp only [List.map_map]
    apply List.map_congr_left
    intro e _
    simp [nidOf_relabel]

/-- the content an imported graph has by itself -/
def igContent (ig : IGraph) : AGraph :=
  ⟨ig.nodes.map (AMap.erase graphId),
   ig.edges.map (fun e => ((ig.nodes[e.1]?).bind (AMap.get nodeId), (ig.nodes[e.2.1]?).bind (AMap.get nodeId), e.2.2))⟩

/-- a successful `add_graph` leaves under `g` exactly the imported content (whatever was there before) -/
theorem abs_addGraph_ok (s : Store) (h : Inv s) (g : String) (ig : IGraph) (hwf : ig.WF = true)
    (hok : (addGraph g ig s).1 = .ok .unit) : abs (addGraph g ig s).2 g = igContent ig := by
  unfold addGraph at hok ⊢
  simp only at hok ⊢
  split at hok
  · cases hok
  · rename_i hc
    rw [if_neg hc]
    simp only [IGraph.WF, List.all_eq_true, Bool.and_eq_true, decide_eq_true_eq] at hwf
    rw [abs_appendGraph (delIfPresent g s) (inv_delIfPresent s g h) g _ _ (nodesOf_delIfPresent_self s g)]
    · unfold igContent
      congr 1
      · simp only [List.map_map]
        apply List.map_congr_left
        intro a _
        simp [AMap.erase_set_eq]
      · apply List.map_congr_left
        intro e _
        simp only [List.getElem?_map]
        have key : ∀ k : Nat, (Option.map (AMap.set graphId (Val.str g)) ig.nodes[k]?).bind (AMap.get nodeId) =
            (ig.nodes[k]?).bind (AMap.get nodeId) := by
          intro k
          cases ig.nodes[k]? with
          | none => rfl
          | some a => simp [AMap.get_set_ne _ _ _ _ nodeId_ne_graphId]
        rw [key, key]
    · intro a ha
      obtain ⟨a0, _, rfl⟩ := List.mem_map.1 ha
      exact AMap.get_set_eq _ _ _
    · intro e he
      simpa using hwf e he

/-- what `extract_graph` returns has the content of the graph -/
theorem abs_extract (s : Store) (g : String) (ig : IGraph) (hig : extractGraph s g = some ig) :
    igContent ig = abs s g := by
  unfold extractGraph at hig
  simp only at hig
  split at hig
  · cases hig
  · injection hig with hig
    subst hig
    unfold igContent abs absView
    congr 1
    · simp [List.map_map]
    · simp only [List.map_map]
      apply List.map_congr_left
      intro e _
      simp only [Function.comp, nidOf_pos, List.getElem?_map]
      congr 1
      · cases (nodesOf s g)[posOf (nodesOf s g) e.a]? <;> rfl
      · congr 1
        cases (nodesOf s g)[posOf (nodesOf s g) e.b]? <;> rfl

/-- **clone_eq** (shared store): a successful `clone_graph` leaves under the new id exactly the content
    of the source (`g2 = g` allowed: the graph is re-imported onto itself) -/
theorem clone_eq (s : Store) (h : Inv s) (g g2 : String) (hok : (cloneGraph g g2 s).1 = .ok .unit) :
    abs (cloneGraph g g2 s).2 g2 = abs s g := by
  unfold cloneGraph at hok ⊢
  split at hok
  · cases hok
  · rename_i ig hig
    rw [abs_addGraph_ok s h g2 ig (extractGraph_wf s g ig hig) hok, abs_extract s g ig hig]

end FimVerif.Store
