import FimVerif.Model.ARef
import FimVerif.Proofs.Lemmas.StoreFrameGen
/-! C05: the shared store refines the store-level reference model `ARef.step` — foundations: keys of
    stored nodes, the refinement relation, `_find_node` in lock step.  Core only. -/
namespace FimVerif.Store
open FimVerif FimVerif.Gen.StoreConsts

/-! ## keys -/

theorem absS_nodes (s : Store) : (absS s).nodes = s.nodes.map (·.attrs) := rfl
theorem absS_edges (s : Store) :
    (absS s).edges = s.edges.map (fun e => (keyOf s.nodes e.a, keyOf s.nodes e.b, e.attrs)) := rfl

theorem inGP_attrs (g : String) (n : SNode) : ARef.inGP g n.attrs = inG g n := rfl
theorem hasNidP_attrs (nid : String) (n : SNode) : ARef.hasNidP nid n.attrs = hasNid nid n := rfl
theorem hasAttrP_attrs (k v : String) (n : SNode) : ARef.hasAttrP k v n.attrs = hasAttr k v n := rfl

theorem keyP_eq_K (a : Props) (g nid : String) : keyP a = K g nid ↔ (ARef.hasNidP nid a = true ∧ ARef.inGP g a = true) := by
  simp only [keyP, K, Prod.mk.injEq, ARef.hasNidP, ARef.inGP, beq_iff_eq]
  exact ⟨fun h => ⟨h.2, h.1⟩, fun h => ⟨h.2, h.1⟩⟩

theorem isK_K (g nid : String) (a : Props) : ARef.isK (K g nid) a = (ARef.hasNidP nid a && ARef.inGP g a) := by
  have := keyP_eq_K a g nid
  cases h : ARef.isK (K g nid) a
  · cases h1 : ARef.hasNidP nid a <;> cases h2 : ARef.inGP g a <;> simp_all [ARef.isK]
  · have : keyP a = K g nid := by simpa [ARef.isK] using h
    have := (keyP_eq_K a g nid).1 this
    simp [this.1, this.2]

theorem kIn_keyP (g : String) (a : Props) : ARef.kIn g (keyP a) = ARef.inGP g a := rfl

/-- the key of a stored node, looked up by its internal id -/
theorem keyOf_mem (s : Store) (h : Inv s) (n : SNode) (hn : n ∈ s.nodes) : keyOf s.nodes n.iid = keyP n.attrs := by
  unfold keyOf
  cases hf : s.nodes.find? (fun m => m.iid == n.iid) with
  | none =>
    have := List.find?_eq_none.1 hf n hn
    simp at this
  | some m =>
    have hm := List.mem_of_find?_eq_some hf
    have he : m.iid = n.iid := by simpa using List.find?_some hf
    rw [eq_of_nodup_map (·.iid) s.nodes h.1 m hm n hn he]

theorem keyOf_of_idIn (s : Store) (h : Inv s) (i : Nat) (hi : idIn s.nodes i = true) :
    ∃ n ∈ s.nodes, n.iid = i ∧ keyOf s.nodes i = keyP n.attrs := by
  obtain ⟨n, hn, e⟩ := (idIn_iff _ _).1 hi
  exact ⟨n, hn, e, by rw [← e]; exact keyOf_mem s h n hn⟩

/-- no other stored node has the key of `n` -/
def UniqueAt (s : Store) (n : SNode) : Prop := ∀ m ∈ s.nodes, keyP m.attrs = keyP n.attrs → m = n

theorem uniqueAt_of_uniqueKeys (s : Store) (hu : UniqueKeys s) (n : SNode) (hn : n ∈ s.nodes) : UniqueAt s n :=
  fun m hm e => eq_of_nodup_map (fun (x : SNode) => keyP x.attrs) s.nodes hu m hm n hn e

/-- for an id that is stored: its key is `n`'s key iff it is `n`'s id -/
theorem keyOf_eq_iff (s : Store) (h : Inv s) (n : SNode) (hn : n ∈ s.nodes) (hu : UniqueAt s n) (i : Nat)
    (hi : idIn s.nodes i = true) : keyOf s.nodes i = keyP n.attrs ↔ i = n.iid := by
  obtain ⟨m, hm, e, hk⟩ := keyOf_of_idIn s h i hi
  constructor
  · intro hh
    rw [hk] at hh
    rw [← e, hu m hm hh]
  · intro hh
    rw [hh]; exact keyOf_mem s h n hn

theorem mem_iid_eq_iff (s : Store) (h : Inv s) (n : SNode) (hn : n ∈ s.nodes) (m : SNode) (hm : m ∈ s.nodes) :
    m.iid = n.iid ↔ m = n :=
  ⟨fun e => eq_of_nodup_map (·.iid) s.nodes h.1 m hm n hn e, fun e => by rw [e]⟩

theorem isK_iff_eq (s : Store) (n : SNode) (hu : UniqueAt s n) (m : SNode) (hm : m ∈ s.nodes) :
    ARef.isK (keyP n.attrs) m.attrs = true ↔ m = n := by
  simp only [ARef.isK, beq_iff_eq]
  exact ⟨fun e => hu m hm e, fun e => by rw [e]⟩

/-! ## `_find_node` -/

/-- the candidates `_find_node` looks at (whole store) -/
def candS (s : Store) (g nid : String) : List SNode := s.nodes.filter (fun n => hasNid nid n && inG g n)

theorem findNode_candS (s : Store) (g nid : String) :
    findNode s g nid = match candS s g nid with | [] => .error .query | [n] => .ok n.iid | _ => .error .query := rfl

theorem find_candS (s : Store) (g nid : String) :
    ARef.find (absS s) g nid = match candS s g nid with | [] => .error .query | [n] => .ok n.attrs | _ => .error .query := by
  unfold ARef.find candS
  rw [absS_nodes, filter_map_pred (·.attrs) (fun a => ARef.hasNidP nid a && ARef.inGP g a) (fun n => hasNid nid n && inG g n) _
    (fun _ _ => rfl)]
  cases s.nodes.filter (fun n => hasNid nid n && inG g n) with
  | nil => rfl
  | cons a l => cases l <;> rfl

/-- facts about the unique candidate -/
theorem candS_single (s : Store) (g nid : String) (n : SNode) (hc : candS s g nid = [n]) :
    n ∈ s.nodes ∧ keyP n.attrs = K g nid ∧ UniqueAt s n ∧ inG g n = true ∧ hasNid nid n = true := by
  have hm : n ∈ candS s g nid := by rw [hc]; simp
  simp only [candS, List.mem_filter, Bool.and_eq_true] at hm
  have hk : keyP n.attrs = K g nid := (keyP_eq_K _ _ _).2 ⟨hm.2.1, hm.2.2⟩
  refine ⟨hm.1, hk, ?_, hm.2.2, hm.2.1⟩
  intro m hmem e
  rw [hk] at e
  have := (keyP_eq_K _ _ _).1 e
  have : m ∈ candS s g nid := by
    simp only [candS, List.mem_filter, Bool.and_eq_true]
    exact ⟨hmem, this.1, this.2⟩
  rw [hc] at this
  simpa using this

theorem findNode_single (s : Store) (g nid : String) (i : Nat) (hf : findNode s g nid = .ok i) :
    ∃ n, candS s g nid = [n] ∧ n.iid = i := by
  rw [findNode_candS] at hf
  cases hc : candS s g nid with
  | nil => rw [hc] at hf; cases hf
  | cons a l =>
    cases l with
    | nil => rw [hc] at hf; injection hf with hf; exact ⟨a, rfl, hf⟩
    | cons b l => rw [hc] at hf; cases hf

/-! ## the refinement relation -/

/-- a store result and a reference result agree: same reply, and the reference state is what the store
    looks like without its internal ids -/
def RefS (r : R) (r' : ARef.AR) : Prop := r.1 = r'.1 ∧ absS r.2 = r'.2

theorem refS_err (s : Store) (e : Err) : RefS (.error e, s) (.error e, absS s) := ⟨rfl, rfl⟩

/-- lock-step through `_find_node` -/
theorem refS_withNode (s : Store) (g nid : String) (k : Nat → R) (k' : Props → ARef.AR)
    (hk : ∀ n, candS s g nid = [n] → RefS (k n.iid) (k' n.attrs)) :
    RefS (withNode s g nid k) (ARef.withN (absS s) g nid k') := by
  unfold withNode ARef.withN
  rw [findNode_candS, find_candS]
  cases hc : candS s g nid with
  | nil => exact refS_err s _
  | cons a l =>
    cases l with
    | nil => exact hk a hc
    | cons b l => exact refS_err s _

theorem refS_assertVal (v : Val) (s : Store) (r : R) (r' : ARef.AR) (h : RefS r r') :
    RefS (assertVal v s r) (ARef.assertVal v (absS s) r') := by
  unfold assertVal ARef.assertVal
  split
  · exact refS_err s _
  · exact h

theorem nodesOf_absS (s : Store) (g : String) : ARef.nodesOf (absS s) g = (nodesOf s g).map (·.attrs) := by
  unfold ARef.nodesOf nodesOf
  rw [absS_nodes]
  exact filter_map_pred (·.attrs) (ARef.inGP g) (inG g) _ (fun _ _ => rfl)

/-- what `d[k] = v` does to the key -/
theorem keyP_set (k : String) (v : Val) (a : Props) : keyP (AMap.set k v a) = ARef.setKey k v (keyP a) := by
  unfold keyP ARef.setKey
  by_cases h1 : k = graphId
  · subst h1
    have : nodeId ≠ graphId := nodeId_ne_graphId
    simp [AMap.get_set_eq, AMap.get_set_ne _ _ _ _ this, this.symm]
  · by_cases h2 : k = nodeId
    · subst h2
      simp [AMap.get_set_eq, AMap.get_set_ne _ _ _ _ (Ne.symm h1), h1]
    · simp [h1, h2, AMap.get_set_ne _ _ _ _ (Ne.symm h1), AMap.get_set_ne _ _ _ _ (Ne.symm h2)]

theorem get_update_has (k : String) (a p : Props) :
    AMap.get k (AMap.update a p) = if AMap.has k p then AMap.get k (AMap.update [] p) else AMap.get k a := by
  by_cases h : AMap.has k p = true
  · simp only [h, if_true]; exact get_update_of_mem _ _ _ (mem_keys_of_has _ _ h)
  · simp only [h]
    have : AMap.has k p = false := by simpa using h
    exact AMap.get_update_not_mem _ _ _ (AMap.not_mem_keys_of_has_false _ _ this)

/-- what `d.update(p)` does to the key -/
theorem keyP_update (a p : Props) : keyP (AMap.update a p) = ARef.updKey p (keyP a) := by
  unfold keyP ARef.updKey
  rw [get_update_has graphId, get_update_has nodeId]

theorem keyP_erase (k : String) (a : Props) (h1 : k ≠ graphId) (h2 : k ≠ nodeId) : keyP (AMap.erase k a) = keyP a := by
  unfold keyP
  rw [AMap.get_erase_ne _ _ _ (Ne.symm h1), AMap.get_erase_ne _ _ _ (Ne.symm h2)]

end FimVerif.Store
