import FimVerif.Proofs.Lemmas.C17Tree
/-!
# The table-driven methods of `Model/Diff.lean` are the hand-mirrored ones, for every *good* table (C17)

`Cfg.Good` is a decidable predicate on the table extracted by `gen/diffcfg.py`.  It does not fix the order in which
`prop_diff` compares the properties, the order of the child dictionaries inside a method, or the order of the terms of the
final "anything to report?" test; it does fix what is compared with what, below which kinds a method descends, and where
every collection ends up in the result.
-/
namespace FimVerif.Diff

/-- two lists have the same members -/
def SameMem {β : Type} (l1 l2 : List β) : Prop := (∀ x ∈ l1, x ∈ l2) ∧ (∀ x ∈ l2, x ∈ l1)

instance {β : Type} [DecidableEq β] (l1 l2 : List β) : Decidable (SameMem l1 l2) := by unfold SameMem; infer_instance

theorem any_congr_mem {β : Type} {l1 l2 : List β} (h : SameMem l1 l2) (g : β → Bool) : l1.any g = l2.any g := by
  rw [Bool.eq_iff_iff, List.any_eq_true, List.any_eq_true]
  exact ⟨fun ⟨x, hx, hg⟩ => ⟨x, h.1 x hx, hg⟩, fun ⟨x, hx, hg⟩ => ⟨x, h.2 x hx, hg⟩⟩

def stdProps : List (PropK × FlagK) := [(.labels, .labels), (.caps, .caps), (.ud, .ud)]

/-- a child dictionary compared the way all four loops of the source do it -/
def stdLevel (c : Coll) (d : Option RecCfg) : LevelCfg :=
  { coll := c, key := "resource_name", diffA := .self, diffB := .other, addedKey := .added, removedKey := .removed,
    commonA := .self, commonB := .other, lookup := .other, onlyOther := true, onlySelf := true, descend := d }

def RecGood (r : Option RecCfg) (kinds : Option (List String)) (tests : List (Sect × Slot)) : Prop :=
  match r, kinds with
  | none, none => True
  | some r, some ks => r.kinds = ks ∧ r.side = .self ∧ r.flag = .sub ∧ SameMem r.tests tests
  | _, _ => False

instance (r : Option RecCfg) (kinds : Option (List String)) (tests : List (Sect × Slot)) : Decidable (RecGood r kinds tests) := by
  unfold RecGood; split <;> infer_instance

def LevelGood (m : MethodCfg) (c : Coll) (kinds : Option (List String)) (tests : List (Sect × Slot)) : Prop :=
  match m.level c with
  | some lc => lc = stdLevel c lc.descend ∧ RecGood lc.descend kinds tests
  | none => False

instance (m : MethodCfg) (c : Coll) (kinds : Option (List String)) (tests : List (Sect × Slot)) :
    Decidable (LevelGood m c kinds tests) := by
  unfold LevelGood; split <;> infer_instance

def allSlots : List Slot := [.nodes, .components, .services, .interfaces]

/-- the same parts land in every field -/
def SlotsAre (l std : List (Slot × Part)) : Prop := ∀ s ∈ allSlots, slotParts l s = slotParts std s

instance (l std : List (Slot × Part)) : Decidable (SlotsAre l std) := by unfold SlotsAre; infer_instance

def subTests : List (Sect × Slot) := [(.added, .interfaces), (.removed, .interfaces), (.modified, .interfaces)]

def ifsCond : List Part := [.selfMod, .added .ifs, .removed .ifs, .modified .ifs]
def ifsAdded : List (Slot × Part) := [(.interfaces, .added .ifs)]
def ifsRemoved : List (Slot × Part) := [(.interfaces, .removed .ifs)]
def ifsModified : List (Slot × Part) := [(.services, .selfMod), (.interfaces, .modified .ifs)]

def nodeCond : List Part :=
  [.added .comps, .removed .comps, .removed .svcs, .added .svcs, .modified .comps, .modified .svcs, .selfMod]
def nodeAdded : List (Slot × Part) := [(.components, .added .comps), (.services, .added .svcs)]
def nodeRemoved : List (Slot × Part) := [(.components, .removed .comps), (.services, .removed .svcs)]
def nodeModified : List (Slot × Part) := [(.nodes, .selfMod), (.components, .modified .comps), (.services, .modified .svcs)]

/-- result assembly of `InterfaceSliver.diff` / `NetworkServiceSliver.diff` -/
def IfsShape (m : MethodCfg) : Prop :=
  SameMem m.cond ifsCond ∧ SlotsAre m.added ifsAdded ∧ SlotsAre m.removed ifsRemoved ∧ SlotsAre m.modified ifsModified

instance (m : MethodCfg) : Decidable (IfsShape m) := by unfold IfsShape; infer_instance

def NodeShape (m : MethodCfg) : Prop :=
  SameMem m.cond nodeCond ∧ SlotsAre m.added nodeAdded ∧ SlotsAre m.removed nodeRemoved ∧ SlotsAre m.modified nodeModified

instance (m : MethodCfg) : Decidable (NodeShape m) := by unfold NodeShape; infer_instance

/-- the extracted table describes the comparison the theorems are about -/
def Cfg.Good (cfg : Cfg) : Prop :=
  SameMem cfg.props stdProps ∧ (cfg.infoPresence = true ∧ cfg.classGuard = true ∧ cfg.vals.notOtherIsNone = true ∧ cfg.vals.udSameClass = true ∧
    cfg.vals.udCanonicalText = true ∧ cfg.dictKeyOnly = true) ∧
  LevelGood cfg.iface .ifs none [] ∧ IfsShape cfg.iface ∧
  LevelGood cfg.svc .ifs (some ["DedicatedPort"]) subTests ∧ IfsShape cfg.svc ∧
  LevelGood cfg.node .comps (some ["SmartNIC"]) [] ∧ LevelGood cfg.node .svcs none [] ∧ NodeShape cfg.node

instance (cfg : Cfg) : Decidable cfg.Good := by unfold Cfg.Good; infer_instance

/-! ### flags -/

theorem Flags.get_set (f : Flags) (j k : FlagK) : (f.set j).get k = (f.get k || decide (j = k)) := by
  cases j <;> cases k <;> simp [Flags.set, Flags.get]

theorem Flags.ext_get {f g : Flags} (h : ∀ k, f.get k = g.get k) : f = g := by
  cases f; cases g
  have h1 := h .labels; have h2 := h .caps; have h3 := h .ud; have h4 := h .sub
  simp only [Flags.get] at h1 h2 h3 h4
  simp [h1, h2, h3, h4]

/-! ### prop_diff -/

section
variable {V : Type} [DecidableEq V]

theorem propDiffC_get (t : List (PropK × FlagK)) (a b : Props V) (f : Flags) (k : FlagK) :
    (t.foldl (fun f e => if propGet e.1 a ≠ propGet e.1 b then f.set e.2 else f) f).get k =
      (f.get k || t.any (fun e => decide (e.2 = k) && decide (propGet e.1 a ≠ propGet e.1 b))) := by
  induction t generalizing f with
  | nil => simp
  | cons e es ih =>
    simp only [List.foldl_cons, ih, List.any_cons]
    by_cases hc : propGet e.1 a = propGet e.1 b
    · simp [hc]
    · simp [hc, Flags.get_set, Bool.or_assoc]

theorem propDiffC_eq (t : List (PropK × FlagK)) (h : SameMem t stdProps) (a b : Props V) : propDiffC t a b = propDiff a b := by
  apply Flags.ext_get
  intro k
  unfold propDiffC
  rw [propDiffC_get, any_congr_mem h]
  cases k
  · by_cases hq : a.labels = b.labels <;> simp [stdProps, propGet, propDiff, Flags.get, Flags.none, hq]
  · by_cases hq : a.caps = b.caps <;> simp [stdProps, propGet, propDiff, Flags.get, Flags.none, hq]
  · by_cases hq : a.ud = b.ud <;> simp [stdProps, propGet, propDiff, Flags.get, Flags.none, hq]
  · simp [stdProps, propGet, propDiff, Flags.get, Flags.none]

end

/-! ### one child dictionary -/

section
variable {α : Type} [Named α]

theorem levelC_std (c : Coll) (d : Option RecCfg) (flag : α → α → Flags) (a b : Option (List α)) :
    levelC (stdLevel c d) flag a b = levelDiff flag a b := by
  cases a <;> cases b <;> simp [levelC, stdLevel, pick, dictSub, levelDiff]

theorem levelCM_std (c : Coll) (d : Option RecCfg) (flag : α → α → Except String Flags) (a b : Option (List α)) :
    levelCM (stdLevel c d) flag a b = levelDiffM flag a b := by
  cases a <;> cases b <;> simp [levelCM, stdLevel, pick, dictSub, levelDiffM]

theorem mLevel_good {m : MethodCfg} {c : Coll} {kinds : Option (List String)} {tests : List (Sect × Slot)}
    (h : LevelGood m c kinds tests) (flag : α → α → Flags) (a b : Option (List α)) :
    mLevel m c flag a b = levelDiff flag a b := by
  unfold LevelGood at h
  unfold mLevel
  cases hl : m.level c with
  | none => simp [hl] at h
  | some lc =>
    simp only [hl] at h
    show levelC lc flag a b = _
    rw [h.1, levelC_std]

theorem mLevelM_good {m : MethodCfg} {c : Coll} {kinds : Option (List String)} {tests : List (Sect × Slot)}
    (h : LevelGood m c kinds tests) (flag : α → α → Except String Flags) (a b : Option (List α)) :
    mLevelM m c flag a b = levelDiffM flag a b := by
  unfold LevelGood at h
  unfold mLevelM
  cases hl : m.level c with
  | none => simp [hl] at h
  | some lc =>
    simp only [hl] at h
    show levelCM lc flag a b = _
    rw [h.1, levelCM_std]

end

theorem recOf_none {m : MethodCfg} {c : Coll} {tests : List (Sect × Slot)} (h : LevelGood m c none tests) : recOf m c = none := by
  unfold LevelGood at h
  unfold recOf
  cases hl : m.level c with
  | none => simp [hl] at h
  | some lc =>
    simp only [hl] at h
    have h2 := h.2
    unfold RecGood at h2
    cases hd : lc.descend with
    | none => simp [hd]
    | some r => simp [hd] at h2

theorem recOf_some {m : MethodCfg} {c : Coll} {ks : List String} {tests : List (Sect × Slot)} (h : LevelGood m c (some ks) tests) :
    ∃ r, recOf m c = some r ∧ r.side = .self ∧ r.flag = .sub ∧ SameMem r.tests tests := by
  unfold LevelGood at h
  unfold recOf
  cases hl : m.level c with
  | none => simp [hl] at h
  | some lc =>
    simp only [hl] at h
    have h2 := h.2
    unfold RecGood at h2
    cases hd : lc.descend with
    | none => simp [hd] at h2
    | some r =>
      simp only [hd] at h2
      exact ⟨r, by simp [hd], h2.2.1, h2.2.2.1, h2.2.2.2⟩

/-! ### result assembly -/

theorem slots_of {l std : List (Slot × Part)} (h : SlotsAre l std) :
    slotParts l .nodes = slotParts std .nodes ∧ slotParts l .components = slotParts std .components ∧
    slotParts l .services = slotParts std .services ∧ slotParts l .interfaces = slotParts std .interfaces :=
  ⟨h _ (by simp [allSlots]), h _ (by simp [allSlots]), h _ (by simp [allSlots]), h _ (by simp [allSlots])⟩

theorem assemble_ifs {m : MethodCfg} (h : IfsShape m) (sm : List (String × Flags)) (lv : Level) :
    assemble m (envN (onlyIfs lv)) (envM sm (onlyIfs lv)) =
      if !sm.isEmpty || !lv.added.isEmpty || !lv.removed.isEmpty || !lv.modified.isEmpty then
        some { addedIfs := lv.added, removedIfs := lv.removed, modSvcs := sm, modIfs := lv.modified }
      else none := by
  obtain ⟨hc, ha, hr, hm⟩ := h
  obtain ⟨a1, a2, a3, a4⟩ := slots_of ha
  obtain ⟨r1, r2, r3, r4⟩ := slots_of hr
  obtain ⟨m1, m2, m3, m4⟩ := slots_of hm
  unfold assemble
  rw [any_congr_mem hc, a1, a2, a3, a4, r1, r2, r3, r4, m1, m2, m3, m4]
  simp [ifsCond, ifsAdded, ifsRemoved, ifsModified, slotParts, envN, envM, onlyIfs, or_assoc]

theorem assemble_node {m : MethodCfg} (h : NodeShape m) (sm : List (String × Flags)) (cl sl : Level) :
    assemble m (envN (nodeLevels cl sl)) (envM sm (nodeLevels cl sl)) =
      if !cl.added.isEmpty || !cl.removed.isEmpty || !sl.removed.isEmpty || !sl.added.isEmpty ||
         !cl.modified.isEmpty || !sl.modified.isEmpty || !sm.isEmpty then
        some { addedComps := cl.added, addedSvcs := sl.added, removedComps := cl.removed, removedSvcs := sl.removed,
               modNodes := sm, modComps := cl.modified, modSvcs := sl.modified }
      else none := by
  obtain ⟨hc, ha, hr, hm⟩ := h
  obtain ⟨a1, a2, a3, a4⟩ := slots_of ha
  obtain ⟨r1, r2, r3, r4⟩ := slots_of hr
  obtain ⟨m1, m2, m3, m4⟩ := slots_of hm
  unfold assemble
  rw [any_congr_mem hc, a1, a2, a3, a4, r1, r2, r3, r4, m1, m2, m3, m4]
  simp [nodeCond, nodeAdded, nodeRemoved, nodeModified, slotParts, envN, envM, nodeLevels, or_assoc]

/-! ### the methods -/

section
variable {V : Type} [DecidableEq V]

theorem selfModC_eq {cfg : Cfg} (h : cfg.Good) (n : String) (a b : Props V) : selfModC cfg n a b = selfMod n a b := by
  unfold selfModC selfMod
  rw [propDiffC_eq _ h.1]

theorem leafFlagC_eq {cfg : Cfg} (h : cfg.Good) : (leafFlagC cfg : Leaf V → Leaf V → Flags) = leafFlag := by
  funext x y
  exact propDiffC_eq _ h.1 _ _

theorem ifaceDiffC_eq {cfg : Cfg} (h : cfg.Good) (a b : Iface V) : ifaceDiffC cfg a b = ifaceDiff a b := by
  unfold ifaceDiffC ifaceDiff
  simp only []
  rw [assemble_ifs h.2.2.2.1, mLevel_good h.2.2.1, selfModC_eq h, leafFlagC_eq h]

theorem ifaceFlagC_eq {cfg : Cfg} (h : cfg.Good) : (ifaceFlagC cfg : Iface V → Iface V → Flags) = ifaceFlag := by
  funext x y
  obtain ⟨r, hr, hside, hflag, htests⟩ := recOf_some h.2.2.2.2.1
  unfold ifaceFlagC ifaceFlag
  simp only [hr, hside, hflag, pick, ifaceDiffC_eq h, propDiffC_eq _ h.1, any_congr_mem htests]
  simp [subTests, slotNames, Flags.set, or_assoc]

theorem svcDiffC_eq {cfg : Cfg} (h : cfg.Good) (a b : Svc V) : svcDiffC cfg a b = svcDiff a b := by
  unfold svcDiffC svcDiff
  simp only []
  rw [assemble_ifs h.2.2.2.2.2.1, mLevel_good h.2.2.2.2.1, selfModC_eq h, ifaceFlagC_eq h]

theorem compFlagC_eq {cfg : Cfg} (h : cfg.Good) : (compFlagC cfg : Comp V → Comp V → Except String Flags) = compFlag := by
  funext x y
  obtain ⟨r, hr, hside, hflag, _⟩ := recOf_some h.2.2.2.2.2.2.1
  unfold compFlagC compFlag
  simp only [hr, hside, hflag, pick, svcDiffC_eq h, propDiffC_eq _ h.1]
  simp [Flags.set]

theorem svcPropFlagC_eq {cfg : Cfg} (h : cfg.Good) : (svcPropFlagC cfg : Svc V → Svc V → Flags) = svcPropFlag := by
  funext x y
  exact propDiffC_eq _ h.1 _ _

theorem nodeDiffC_eq {cfg : Cfg} (h : cfg.Good) (a b : Node V) : nodeDiffC cfg a b = nodeDiff a b := by
  unfold nodeDiffC nodeDiff
  simp only []
  rw [mLevelM_good h.2.2.2.2.2.2.1, compFlagC_eq h]
  cases levelDiffM compFlag a.comps b.comps with
  | error e => rfl
  | ok cl =>
    simp only []
    rw [assemble_node h.2.2.2.2.2.2.2.2, mLevel_good h.2.2.2.2.2.2.2.1, selfModC_eq h, svcPropFlagC_eq h]
    split <;> rfl

end

/-! ### the integer value of a flag -/

def Flags.all : List Flags :=
  [true, false].flatMap fun a => [true, false].flatMap fun b => [true, false].flatMap fun c => [true, false].map fun d =>
    { labels := a, caps := b, ud := c, sub := d }

theorem Flags.mem_all (f : Flags) : f ∈ Flags.all := by
  obtain ⟨a, b, c, d⟩ := f
  cases a <;> cases b <;> cases c <;> cases d <;> simp [Flags.all]

/-- the integer handed back tells exactly which of the four kinds of change were flagged -/
def EncInj (vals : List (FlagK × Nat)) : Prop :=
  ∀ f ∈ Flags.all, ∀ g ∈ Flags.all, encodeC vals f = encodeC vals g → f = g

instance (vals : List (FlagK × Nat)) : Decidable (EncInj vals) := by unfold EncInj; infer_instance

theorem encodeC_injective {vals : List (FlagK × Nat)} (h : EncInj vals) (f g : Flags) (he : encodeC vals f = encodeC vals g) : f = g :=
  h f (Flags.mem_all f) g (Flags.mem_all g) he

end FimVerif.Diff
