import FimVerif.Proofs.C01
import FimVerif.Model.Authz
/-!
C11 ↔ C01: hypothesis `H_roundtrip` of `C11.Layers.Hyp` (serialising a slice graph and importing it again, as
`_collect_attributes_from_asm` does through `ExperimentTopology(graph_string=asm.serialize_graph())`, presents the same
slivers) follows from C01's round-trip theorem `roundtrip_import_direct` for every presentation function that does not
read the store's internal node numbers - which is all that theorem leaves open: the re-imported graph is the stored one
with node `k` renamed to `start_id + position(k)`, every attribute and every edge unchanged.
-/
namespace FimVerif.Authz
open FimVerif.GraphML FimVerif.C01

/-- `present` (what the topology API shows the collectors of a stored graph) after `serialize_graph()` +
`import_graph_from_string_direct` equals `present` before, for any `present` that ignores internal node ids. -/
theorem roundtrip_presents_same (present : Graph Nat → RawSlice)
    (H_present_ignores_node_ids : ∀ (G : Graph Nat) (start : Nat), present (directCopy G start) = present G)
    (s : Store) (hs : StoreInv s) (g : GraphML.Val) (G0 : Graph Nat) (hG : s.extract g = some G0) (hk : KeysNodup G0)
    (doc : Doc Nat) (hser : serialize s g .graphml = .ok (some doc)) :
    (importDirect s doc).1 = .ok g ∧
    ∃ G1, (importDirect s doc).2.extract g = some G1 ∧ present G1 = present G0 := by
  obtain ⟨h1, h2⟩ := roundtrip_import_direct s hs g G0 hG .graphml (fun _ => hk) (fun h => by cases h) doc hser
  exact ⟨h1, _, h2, H_present_ignores_node_ids G0 s.nextId⟩

end FimVerif.Authz
