import FimVerif.Proofs.Lemmas.C02Tree
/-! Executable (Bool) versions of the hypotheses of the C02 theorems, with soundness lemmas; they make the hypotheses
decidable predicates and give the non-vacuity examples by evaluation. -/
namespace FimVerif.C02
open FimVerif.Sliver FimVerif.Gen.SliverMap

instance instDecEqExcept {ε α : Type} [DecidableEq ε] [DecidableEq α] : DecidableEq (Except ε α) := fun a b =>
  match a, b with
  | .ok x, .ok y => if h : x = y then isTrue (by rw [h]) else isFalse (by intro e; cases e; exact h rfl)
  | .error x, .error y => if h : x = y then isTrue (by rw [h]) else isFalse (by intro e; cases e; exact h rfl)
  | .ok _, .error _ => isFalse (by intro e; cases e)
  | .error _, .ok _ => isFalse (by intro e; cases e)

/-! ### the `image_ref + ',' + image_type` text format -/

theorem rsplit_none (b : List Char) (hb : ',' ∉ b) : rsplitCommaChars b = none := by
  induction b with
  | nil => rfl
  | cons c cs ih =>
    simp only [List.mem_cons, not_or] at hb
    simp only [rsplitCommaChars, ih hb.2]
    rw [if_neg]
    exact fun h => hb.1 h.symm

theorem rsplit_join (a b : List Char) (hb : ',' ∉ b) : rsplitCommaChars (a ++ ',' :: b) = some (a, b) := by
  induction a with
  | nil => simp [rsplitCommaChars, rsplit_none b hb]
  | cons c cs ih => simp [rsplitCommaChars, ih]

theorem rsplitComma_join (a b : String) (hb : ',' ∉ b.toList) : rsplitComma (a ++ "," ++ b) = some (a, b) := by
  unfold rsplitComma
  have : (a ++ "," ++ b).toList = a.toList ++ ',' :: b.toList := by
    simp [String.toList_append]
  rw [this, rsplit_join _ _ hb]
  simp

section
variable {V P : Type} [DecidableEq V]

def fieldLawB (C : Codecs V P) (T : KindTable) (s : Fields V) : Bool :=
  T.toRows.all fun r => T.fromRows.all fun f =>
    f.gprop != r.gprop ||
      (match rowVals s r.keys with
       | some vs => decide (readVal C f (C.enc r.enc vs) = .ok (s f.key))
       | none => !r.always || decide (readVal C f (C.encNone r.enc) = .ok (s f.key)))

def fateSharedB (T : KindTable) (s : Fields V) : Bool :=
  T.toRows.all fun r => (rowVals s r.keys).isSome || r.always || r.keys.all (fun k => (s k).isNone)

def requiredB (T : KindTable) (s : Fields V) : Bool :=
  T.fromRows.all fun f => f.noneOk || T.toRows.all fun r => r.gprop != f.gprop || (rowVals s r.keys).isSome

theorem fieldLawB_sound (C : Codecs V P) (T : KindTable) (s : Fields V) (h : fieldLawB C T s = true) : FieldLaw C T s := by
  intro r hr f hf hg
  simp only [fieldLawB, List.all_eq_true] at h
  have := h r hr f hf
  simp only [Bool.or_eq_true, bne_iff_ne, ne_eq] at this
  rcases this with h1 | h1
  · exact absurd hg h1
  · cases hv : rowVals s r.keys with
    | some vs => rw [hv] at h1; simpa using h1
    | none =>
      rw [hv] at h1
      simp only [Bool.or_eq_true, Bool.not_eq_true', decide_eq_true_eq] at h1
      intro ha
      rcases h1 with h2 | h2
      · rw [ha] at h2; cases h2
      · exact h2

omit [DecidableEq V] in
theorem fateSharedB_sound (T : KindTable) (s : Fields V) (h : fateSharedB T s = true) : FateShared T s := by
  intro r hr hv ha k hk
  simp only [fateSharedB, List.all_eq_true] at h
  have := h r hr
  rw [hv, ha] at this
  simp only [Option.isSome_none, Bool.or_self, Bool.false_or, List.all_eq_true, Option.isNone_iff_eq_none] at this
  exact this k hk

omit [DecidableEq V] in
theorem requiredB_sound (T : KindTable) (s : Fields V) (h : requiredB T s = true) : Required T s := by
  intro f hf hn r hr hg hv
  simp only [requiredB, List.all_eq_true] at h
  have := h f hf
  rw [hn] at this
  simp only [Bool.false_or, List.all_eq_true, Bool.or_eq_true, bne_iff_ne, ne_eq] at this
  rcases this r hr with h1 | h1
  · exact h1 hg
  · rw [hv] at h1; cases h1

mutual
def wfB (C : Codecs V P) : Sliver V → Bool
  | .mk k _ f ks => tableOK (tableOf k) && fieldLawB C (tableOf k) f && fateSharedB (tableOf k) f &&
      requiredB (tableOf k) f && wfKidsB C k ks && decide (ks.map keyOf).Nodup
def wfKidsB (C : Codecs V P) (parent : Kind) : List (Sliver V) → Bool
  | [] => true
  | c :: cs => (slotOf parent c.kind).isSome && childOk c && wfB C c && wfKidsB C parent cs
end

mutual
theorem wfB_sound (C : Codecs V P) : ∀ (s : Sliver V), wfB C s = true → WF C s
  | .mk k i f ks, h => by
    simp only [wfB, Bool.and_eq_true, decide_eq_true_eq] at h
    simp only [WF]
    exact ⟨h.1.1.1.1.1, fieldLawB_sound C _ f h.1.1.1.1.2, fateSharedB_sound _ f h.1.1.1.2, requiredB_sound _ f h.1.1.2,
      wfKidsB_sound C k ks h.1.2, h.2⟩
theorem wfKidsB_sound (C : Codecs V P) (parent : Kind) : ∀ (ks : List (Sliver V)), wfKidsB C parent ks = true → WFKids C parent ks
  | [], _ => by simp [WFKids]
  | c :: cs, h => by
    simp only [wfKidsB, Bool.and_eq_true] at h
    simp only [WFKids]
    exact ⟨h.1.1.1, h.1.1.2, wfB_sound C c h.1.2, wfKidsB_sound C parent cs h.2⟩
end

end
end FimVerif.C02
