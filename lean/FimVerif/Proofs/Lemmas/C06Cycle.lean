import FimVerif.Proofs.Lemmas.C06Hops
/-!
# `LoopFree` is acyclicity of the induced subgraph (C06)

`get_nodes_on_path_with_hops` rejects a simple path when `nx.cycle_basis(graph.subgraph(path))` is non-empty.  The model
tests `chordFree` (every edge between two path nodes joins consecutive ones), `LoopFree` is its specification.  Here it is
proved that for a simple path this is the graph-theoretic notion: the subgraph induced by the path contains no cycle
(`IsCycle`: a self-loop, or at least three distinct nodes each joined to the next and the last to the first).
-/
namespace FimVerif.Query

/-- a cycle of the view: a self-loop, or `≥ 3` distinct nodes, each joined to the next one and the last to the first -/
def IsCycle (g : TGraph) (c : List String) : Prop :=
  (∃ u r, c = [u] ∧ Edge g u u r) ∨
  (3 ≤ c.length ∧ c.Nodup ∧ IsChain (Adj g none) c ∧ ∃ x y, c.head? = some x ∧ c.getLast? = some y ∧ Adj g none y x)

theorem adj_none_symm {g : TGraph} {u v : String} (h : Adj g none u v) : Adj g none v u := by
  obtain ⟨r, hr⟩ := adj_none_iff.1 h
  exact adj_none_iff.2 ⟨r, hr.symm⟩

/-! ### `consec` as a decomposition -/

theorem consec_iff {u v : String} : ∀ {p : List String}, consec p u v = true ↔ ∃ s t, p = s ++ u :: v :: t
  | [] => by simp [consec]
  | [x] => by
    simp only [consec, Bool.false_eq_true, false_iff]
    rintro ⟨s, t, h⟩
    have := congrArg List.length h
    simp at this
    omega
  | x :: y :: t' => by
    simp only [consec, Bool.or_eq_true, Bool.and_eq_true, beq_iff_eq]
    rw [consec_iff (p := y :: t')]
    constructor
    · rintro (⟨rfl, rfl⟩ | ⟨s, t, h⟩)
      · exact ⟨[], t', rfl⟩
      · exact ⟨x :: s, t, by rw [h]; rfl⟩
    · rintro ⟨s, t, h⟩
      cases s with
      | nil =>
        simp only [List.nil_append, List.cons.injEq] at h
        exact Or.inl ⟨h.1, h.2.1⟩
      | cons a s' =>
        simp only [List.cons_append, List.cons.injEq] at h
        exact Or.inr ⟨s', t, h.2⟩

theorem consec_ne_of_nodup {p : List String} (hn : p.Nodup) {u v : String} (h : consec p u v = true) : u ≠ v := by
  obtain ⟨s, t, rfl⟩ := consec_iff.1 h
  have := (List.nodup_append.1 hn).2.1
  rw [List.nodup_cons] at this
  intro he
  exact this.1 (by simp [he])

/-- from the head of a simple path the only consecutive successor is the second node -/
theorem consec_head {v y : String} {t : List String} (hn : (v :: t).Nodup) (h : consec (v :: t) v y = true) :
    t.head? = some y := by
  obtain ⟨s, t2, he⟩ := consec_iff.1 h
  have hv : v ∉ t := (List.nodup_cons.1 hn).1
  cases s with
  | nil =>
    simp only [List.nil_append, List.cons.injEq, true_and] at he
    rw [he]; rfl
  | cons a s' =>
    simp only [List.cons_append, List.cons.injEq] at he
    exact absurd (by rw [he.2]; simp) hv

/-- nothing precedes the head of a simple path -/
theorem consec_to_head {v y : String} {t : List String} (hn : (v :: t).Nodup) : consec (v :: t) y v ≠ true := by
  intro h
  obtain ⟨s, t2, he⟩ := consec_iff.1 h
  have hv : v ∉ t := (List.nodup_cons.1 hn).1
  cases s with
  | nil =>
    simp only [List.nil_append, List.cons.injEq] at he
    exact absurd (by rw [he.2]; simp) hv
  | cons a s' =>
    simp only [List.cons_append, List.cons.injEq] at he
    exact absurd (by rw [he.2]; simp) hv

theorem consec_tail {v u w : String} {t : List String} (hn : (v :: t).Nodup) (hu : u ∈ t)
    (h : consec (v :: t) u w = true) : consec t u w = true := by
  obtain ⟨s, t2, he⟩ := consec_iff.1 h
  have hv : v ∉ t := (List.nodup_cons.1 hn).1
  cases s with
  | nil =>
    simp only [List.nil_append, List.cons.injEq] at he
    exact absurd (he.1 ▸ hu) hv
  | cons a s' =>
    simp only [List.cons_append, List.cons.injEq] at he
    exact consec_iff.2 ⟨s', t2, he.2⟩

/-! ### chains -/

theorem IsChain.tail {R : String → String → Prop} {x : String} : ∀ {l : List String}, IsChain R (x :: l) → IsChain R l
  | [], _ => trivial
  | _ :: _, h => h.2

theorem IsChain.drop_prefix {R : String → String → Prop} : ∀ (s : List String) {l : List String}, IsChain R (s ++ l) → IsChain R l
  | [], _, h => h
  | _ :: s, _, h => IsChain.drop_prefix s (IsChain.tail h)

theorem IsChain.take_prefix {R : String → String → Prop} : ∀ (l : List String) {t : List String}, IsChain R (l ++ t) → IsChain R l
  | [], _, _ => trivial
  | [_], _, _ => trivial
  | x :: y :: l, t, h => by
    have h' : R x y ∧ IsChain R (y :: (l ++ t)) := h
    exact ⟨h'.1, IsChain.take_prefix (y :: l) (t := t) h'.2⟩

/-- the neighbours of an inner element of a chain -/
theorem IsChain.around {R : String → String → Prop} {v : String} {t : List String} :
    ∀ (s : List String), IsChain R (s ++ v :: t) → (∀ a, s.getLast? = some a → R a v) ∧ (∀ b, t.head? = some b → R v b)
  | [], h => by
    refine ⟨by simp, ?_⟩
    intro b hb
    cases t with
    | nil => simp at hb
    | cons b' t' =>
      simp at hb; subst hb
      exact h.1
  | [x], h => by
    have h' : R x v ∧ IsChain R (v :: t) := h
    refine ⟨?_, (IsChain.around [] h'.2).2⟩
    intro a ha
    simp at ha; subst ha
    exact h'.1
  | x :: y :: s, h => by
    have h' : R x y ∧ IsChain R (y :: s ++ v :: t) := h
    have ih := IsChain.around (y :: s) h'.2
    refine ⟨?_, ih.2⟩
    intro a ha
    rw [List.getLast?_cons_cons] at ha
    exact ih.1 a ha

theorem exists_getLast : ∀ (s : List String), s ≠ [] → ∃ a, s.getLast? = some a ∧ a ∈ s
  | [], h => absurd rfl h
  | [x], _ => ⟨x, rfl, by simp⟩
  | x :: y :: t, _ => by
    obtain ⟨a, h1, h2⟩ := exists_getLast (y :: t) (by simp)
    exact ⟨a, by rw [List.getLast?_cons_cons]; exact h1, List.mem_cons_of_mem _ h2⟩

theorem getLast?_append_cons (s : List String) (v : String) (t : List String) :
    (s ++ v :: t).getLast? = (v :: t).getLast? := by
  induction s with
  | nil => rfl
  | cons x s ih =>
    cases hs : s ++ v :: t with
    | nil => simp at hs
    | cons y r =>
      rw [List.cons_append, hs, List.getLast?_cons_cons, ← hs, ih]

/-! ### every node of a long cycle has two distinct neighbours on it -/

theorem cycle_two_nbrs {g : TGraph} {c : List String} (hlen : 3 ≤ c.length) (hnd : c.Nodup) (hch : IsChain (Adj g none) c)
    {x y : String} (hx : c.head? = some x) (hy : c.getLast? = some y) (hyx : Adj g none y x) {v : String} (hv : v ∈ c) :
    ∃ y1 y2, y1 ∈ c ∧ y2 ∈ c ∧ y1 ≠ y2 ∧ Adj g none v y1 ∧ Adj g none v y2 := by
  obtain ⟨s, t, rfl⟩ := List.append_of_mem hv
  have hdis := List.nodup_append.1 hnd
  have har := IsChain.around s hch
  cases s with
  | nil =>
    -- v is the head: its successor and the last node
    simp only [List.nil_append, List.head?_cons, Option.some.injEq] at hx
    subst hx
    simp only [List.nil_append, List.length_cons] at hlen
    match t, hlen, hy, har, hdis with
    | b :: b2 :: t', _, hy, har, hdis =>
      have hl : y ∈ b2 :: t' := by
        have : (b :: b2 :: t').getLast? = some y := by simpa [List.getLast?_cons_cons] using hy
        exact getLast_cons_mem (by simp) this
      have hbn : b ∉ b2 :: t' := (List.nodup_cons.1 (List.nodup_cons.1 hdis.2.1).2).1
      refine ⟨b, y, by simp, by simp [hl], fun he => hbn (he ▸ hl), har.2 b rfl, adj_none_symm hyx⟩
  | cons x0 s' =>
    simp only [List.cons_append, List.head?_cons, Option.some.injEq] at hx
    subst hx
    obtain ⟨a, ha, hamem⟩ := exists_getLast (x0 :: s') (by simp)
    have hav : Adj g none v a := adj_none_symm (har.1 a ha)
    cases t with
    | nil =>
      -- v is the last node: its predecessor and the head
      have hyv : y = v := by
        rw [getLast?_append_cons] at hy
        simpa using hy.symm
      subst hyv
      have hs' : s' ≠ [] := by
        intro he; subst he
        simp at hlen
      have hain : a ∈ s' := getLast_cons_mem hs' ha
      have hx0 : x0 ∉ s' := (List.nodup_cons.1 hdis.1).1
      refine ⟨a, x0, List.mem_append_left _ hamem, by simp, fun he => hx0 (he ▸ hain), hav, hyx⟩
    | cons b t' =>
      -- v is an inner node: predecessor and successor
      have hb : Adj g none v b := har.2 b rfl
      refine ⟨a, b, List.mem_append_left _ hamem, by simp, ?_, hav, hb⟩
      intro he
      exact hdis.2.2 a hamem b (by simp) he

/-! ### the two directions -/

/-- edges between nodes of `p` join consecutive nodes of `p` -/
def ChordFree (g : TGraph) (p : List String) : Prop :=
  ∀ u v r, Edge g u v r → u ∈ p → v ∈ p → consec p u v = true ∨ consec p v u = true

theorem chordFree_no_cycle {g : TGraph} : ∀ (p : List String), p.Nodup → ChordFree g p →
    ∀ c, (∀ x ∈ c, x ∈ p) → ¬ IsCycle g c
  | [], _, _, c, hsub, hcy => by
    rcases hcy with ⟨u, r, rfl, _⟩ | ⟨hlen, _, _, _⟩
    · exact absurd (hsub u (by simp)) (by simp)
    · cases c with
      | nil => simp at hlen
      | cons a _ => exact absurd (hsub a (by simp)) (by simp)
  | v :: t, hn, hcf, c, hsub, hcy => by
    have hvt : v ∉ t := (List.nodup_cons.1 hn).1
    have hcft : ChordFree g t := by
      intro u w r he hu hw
      rcases hcf u w r he (List.mem_cons_of_mem _ hu) (List.mem_cons_of_mem _ hw) with h | h
      · exact Or.inl (consec_tail hn hu h)
      · exact Or.inr (consec_tail hn hw h)
    by_cases hvc : v ∈ c
    · rcases hcy with ⟨u, r, rfl, he⟩ | ⟨hlen, hnd, hch, x, y, hx, hy, hyx⟩
      · have hu := hsub u (by simp)
        rcases hcf u u r he hu hu with h | h <;> exact consec_ne_of_nodup hn h rfl
      · obtain ⟨y1, y2, h1, h2, hne, ha1, ha2⟩ := cycle_two_nbrs hlen hnd hch hx hy hyx hvc
        have key : ∀ w, w ∈ c → Adj g none v w → t.head? = some w := by
          intro w hw haw
          obtain ⟨r, hr⟩ := adj_none_iff.1 haw
          rcases hcf v w r hr (by simp) (hsub w hw) with h | h
          · exact consec_head hn h
          · exact absurd h (consec_to_head hn)
        have e1 := key y1 h1 ha1
        have e2 := key y2 h2 ha2
        rw [e1] at e2
        exact hne (Option.some.inj e2)
    · refine chordFree_no_cycle t (List.nodup_cons.1 hn).2 hcft c ?_ hcy
      intro x hx
      rcases List.mem_cons.1 (hsub x hx) with rfl | h
      · exact absurd hx hvc
      · exact h

/-- two different members of a list, in the order in which they occur -/
theorem split_two {u v : String} : ∀ {p : List String}, u ∈ p → v ∈ p → u ≠ v →
    (∃ s m t, p = s ++ u :: (m ++ v :: t)) ∨ (∃ s m t, p = s ++ v :: (m ++ u :: t))
  | [], hu, _, _ => by simp at hu
  | x :: p, hu, hv, hne => by
    by_cases hxu : x = u
    · subst hxu
      have hv' : v ∈ p := by
        rcases List.mem_cons.1 hv with h | h
        · exact absurd h.symm hne
        · exact h
      obtain ⟨m, t, rfl⟩ := List.append_of_mem hv'
      exact Or.inl ⟨[], m, t, rfl⟩
    · by_cases hxv : x = v
      · subst hxv
        have hu' : u ∈ p := by
          rcases List.mem_cons.1 hu with h | h
          · exact absurd h.symm hxu
          · exact h
        obtain ⟨m, t, rfl⟩ := List.append_of_mem hu'
        exact Or.inr ⟨[], m, t, rfl⟩
      · have hu' : u ∈ p := by
          rcases List.mem_cons.1 hu with h | h
          · exact absurd h.symm hxu
          · exact h
        have hv' : v ∈ p := by
          rcases List.mem_cons.1 hv with h | h
          · exact absurd h.symm hxv
          · exact h
        rcases split_two hu' hv' hne with ⟨s, m, t, rfl⟩ | ⟨s, m, t, rfl⟩
        · exact Or.inl ⟨x :: s, m, t, rfl⟩
        · exact Or.inr ⟨x :: s, m, t, rfl⟩

/-- the stretch of a simple path between the two ends of a chord is a cycle -/
theorem segment_cycle {g : TGraph} {s m t : List String} {u v : String} (hn : (s ++ u :: (m ++ v :: t)).Nodup)
    (hc : IsChain (Adj g none) (s ++ u :: (m ++ v :: t))) (hm : m ≠ []) (hvu : Adj g none v u) :
    IsCycle g (u :: (m ++ [v])) := by
  right
  have hseg : s ++ u :: (m ++ v :: t) = s ++ ((u :: (m ++ [v])) ++ t) := by simp
  rw [hseg] at hn hc
  refine ⟨?_, ?_, ?_, u, v, rfl, ?_, hvu⟩
  · cases m with
    | nil => exact absurd rfl hm
    | cons a m' => simp
  · exact (List.nodup_append.1 (List.nodup_append.1 hn).2.1).1
  · exact IsChain.take_prefix _ (IsChain.drop_prefix s hc)
  · have : u :: (m ++ [v]) = (u :: m) ++ [v] := rfl
    rw [this, getLast?_append_cons]
    rfl

theorem no_cycle_chordFree {g : TGraph} {p : List String} (hn : p.Nodup) (hc : IsChain (Adj g none) p)
    (hno : ¬ ∃ c, (∀ x ∈ c, x ∈ p) ∧ IsCycle g c) : ChordFree g p := by
  intro u v r he hu hv
  by_cases huv : u = v
  · subst huv
    exact absurd ⟨[u], by simpa using hu, Or.inl ⟨u, r, rfl, he⟩⟩ hno
  · have hvu : Adj g none v u := adj_none_iff.2 ⟨r, he.symm⟩
    have huv' : Adj g none u v := adj_none_iff.2 ⟨r, he⟩
    rcases split_two hu hv huv with ⟨s, m, t, rfl⟩ | ⟨s, m, t, rfl⟩
    · cases m with
      | nil => exact Or.inl (consec_iff.2 ⟨s, t, rfl⟩)
      | cons a m' =>
        refine absurd ⟨_, ?_, segment_cycle hn hc (by simp) hvu⟩ hno
        intro x hx
        simp only [List.mem_cons, List.mem_append, List.cons_append, List.mem_nil_iff, or_false] at hx ⊢
        rcases hx with h | h | h | h
        · exact Or.inr (Or.inl h)
        · exact Or.inr (Or.inr (Or.inl h))
        · exact Or.inr (Or.inr (Or.inr (Or.inl h)))
        · exact Or.inr (Or.inr (Or.inr (Or.inr (Or.inl h))))
    · cases m with
      | nil => exact Or.inr (consec_iff.2 ⟨s, t, rfl⟩)
      | cons a m' =>
        refine absurd ⟨_, ?_, segment_cycle hn hc (by simp) huv'⟩ hno
        intro x hx
        simp only [List.mem_cons, List.mem_append, List.cons_append, List.mem_nil_iff, or_false] at hx ⊢
        rcases hx with h | h | h | h
        · exact Or.inr (Or.inl h)
        · exact Or.inr (Or.inr (Or.inl h))
        · exact Or.inr (Or.inr (Or.inr (Or.inl h)))
        · exact Or.inr (Or.inr (Or.inr (Or.inr (Or.inl h))))

/-- **For a simple path, `LoopFree` says that the subgraph induced by the path has no cycle.** -/
theorem loopFree_iff_acyclic {g : TGraph} {p : List String} (hn : p.Nodup) (hc : IsChain (Adj g none) p) :
    LoopFree g p ↔ ¬ ∃ c, (∀ x ∈ c, x ∈ p) ∧ IsCycle g c := by
  constructor
  · rintro ⟨_, hcf⟩ ⟨c, hsub, hcy⟩
    exact chordFree_no_cycle p hn hcf c hsub hcy
  · intro hno
    exact ⟨hn, no_cycle_chordFree hn hc hno⟩

end FimVerif.Query
