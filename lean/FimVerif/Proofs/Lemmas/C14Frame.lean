import FimVerif.Model.CbmStore
/-! # C14: frame lemmas on the shared store - a broker call only touches the graphs it addresses -/
namespace FimVerif.Cbm

/-- internal keys are unique and below the allocator -/
structure Store.KeysOK (s : Store) : Prop where
  nodup : (s.nodes.map (·.key)).Nodup
  below : ∀ n ∈ s.nodes, n.key < s.next

/-- the node behind key `k`, if it belongs to graph `g` -/
def findInL (g : String) (l : List SNode) (k : Nat) : Option Node :=
  (l.find? (fun n => n.key == k)).bind (fun x => if x.gid == g then some x.n else none)

def viewEdgeL (g : String) (l : List SNode) (e : SEdge) : Option Edge :=
  match findInL g l e.ka, findInL g l e.kb with
  | some x, some y => some ⟨x.id, y.id, e.props⟩
  | _, _ => none

theorem viewEdge_eq (s : Store) (g : String) (e : SEdge) : s.viewEdge g e = viewEdgeL g s.nodes e := by
  unfold Store.viewEdge viewEdgeL findInL Store.find
  cases h1 : s.nodes.find? (fun n => n.key == e.ka) with
  | none => rfl
  | some x =>
    cases h2 : s.nodes.find? (fun n => n.key == e.kb) with
    | none => simp only [Option.bind_some, Option.bind_none]; cases (if (x.gid == g) = true then some x.n else none) <;> rfl
    | some y =>
      simp only [Option.bind_some]
      cases hx : (x.gid == g) <;> cases hy : (y.gid == g) <;> simp

/-- the general frame lemma: same nodes of `g`, same resolution of keys into `g`, and the edge lists differ only by edges
that `g` does not see -/
theorem view_frame {s s' : Store} {g : String}
    (hn : s'.nodes.filter (fun n => n.gid == g) = s.nodes.filter (fun n => n.gid == g))
    (hf : ∀ k, findInL g s'.nodes k = findInL g s.nodes k)
    (he : s'.edges.filterMap (viewEdgeL g s.nodes) = s.edges.filterMap (viewEdgeL g s.nodes)) :
    s'.view g = s.view g := by
  unfold Store.view Store.nodesOf
  rw [hn]
  congr 1
  have : s'.viewEdge g = viewEdgeL g s.nodes := by
    funext e
    rw [viewEdge_eq]
    unfold viewEdgeL
    rw [hf, hf]
  have h2 : s.viewEdge g = viewEdgeL g s.nodes := by funext e; rw [viewEdge_eq]
  rw [this, h2, he]

/-! ### updates that keep keys and membership in `g` -/

/-- node lists that agree on keys, on membership in `g`, and on the nodes of `g` -/
inductive Rel (g : String) : List SNode → List SNode → Prop
  | nil : Rel g [] []
  | cons {x x' : SNode} {l l' : List SNode} : x'.key = x.key → (x'.gid == g) = (x.gid == g) → ((x.gid == g) = true → x' = x) →
      Rel g l l' → Rel g (x :: l) (x' :: l')

theorem Rel.refl (g : String) : ∀ l, Rel g l l
  | [] => .nil
  | _ :: l => .cons rfl rfl (fun _ => rfl) (Rel.refl g l)

theorem Rel.filter {g : String} {l l' : List SNode} (h : Rel g l l') :
    l'.filter (fun n => n.gid == g) = l.filter (fun n => n.gid == g) := by
  induction h with
  | nil => rfl
  | cons hk hg he _ ih =>
    rw [List.filter_cons, List.filter_cons, hg]
    split
    · rename_i hx; rw [he hx, ih]
    · exact ih

theorem Rel.findIn {g : String} {l l' : List SNode} (h : Rel g l l') (k : Nat) : findInL g l' k = findInL g l k := by
  induction h with
  | nil => rfl
  | cons hk hg he _ ih =>
    rename_i x x' l l' _
    unfold findInL at ih ⊢
    rw [List.find?_cons, List.find?_cons, hk]
    cases hxk : (x.key == k) with
    | false => exact ih
    | true =>
      simp only [Option.bind_some, hg]
      cases hx : (x.gid == g) with
      | false => rfl
      | true => rw [he hx]

theorem Rel.keys {g : String} {l l' : List SNode} (h : Rel g l l') : l'.map (·.key) = l.map (·.key) := by
  induction h with
  | nil => rfl
  | cons hk _ _ _ ih => simp [hk, ih]

theorem Rel.map {g : String} (u : SNode → SNode) (hk : ∀ x, (u x).key = x.key) (hg : ∀ x, ((u x).gid == g) = (x.gid == g))
    (he : ∀ x, (x.gid == g) = true → u x = x) : ∀ l, Rel g l (l.map u)
  | [] => .nil
  | x :: l => .cons (hk x) (hg x) (he x) (Rel.map u hk hg he l)

theorem frame_of_rel {s : Store} {g : String} {ns : List SNode} (h : Rel g s.nodes ns) :
    ({ s with nodes := ns } : Store).view g = s.view g :=
  view_frame h.filter h.findIn rfl

theorem keysOK_of_rel {s : Store} {g : String} {ns : List SNode} (h : Rel g s.nodes ns) (hk : s.KeysOK) :
    ({ s with nodes := ns } : Store).KeysOK := by
  refine ⟨by simpa [h.keys] using hk.nodup, ?_⟩
  intro n hn
  have : n.key ∈ ns.map (·.key) := List.mem_map.mpr ⟨n, hn, rfl⟩
  rw [h.keys] at this
  obtain ⟨m, hm, hmk⟩ := List.mem_map.mp this
  have := hk.below m hm
  simp only at hmk ⊢
  omega


theorem beq_false_of_ne {a b : String} (h : a ≠ b) : (a == b) = false := by simpa using h

theorem mapGraph_rel (s : Store) {g h : String} (hne : g ≠ h) (f : Node → Node) : Rel g s.nodes (s.mapGraph h f).nodes := by
  unfold Store.mapGraph
  apply Rel.map
  · intro x; by_cases hx : (x.gid == h) = true <;> simp [hx]
  · intro x; by_cases hx : (x.gid == h) = true <;> simp [hx]
  · intro x hx
    have : (x.gid == h) = false := by
      have : x.gid = g := by simpa using hx
      rw [this]; exact beq_false_of_ne hne
    simp [this]

theorem updNode_rel (s : Store) {g h : String} (hne : g ≠ h) (i : String) (f : Node → Node) :
    Rel g s.nodes (s.updNode h i f).nodes := by
  unfold Store.updNode
  apply Rel.map
  · intro x; by_cases hx : (x.gid == h && x.n.id == i) = true <;> simp [hx]
  · intro x; by_cases hx : (x.gid == h && x.n.id == i) = true <;> simp [hx]
  · intro x hx
    have : (x.gid == h) = false := by
      have : x.gid = g := by simpa using hx
      rw [this]; exact beq_false_of_ne hne
    simp [this]

theorem rehome_rel (s : Store) {g h to : String} (hne : g ≠ h) (hto : g ≠ to) :
    Rel g s.nodes (s.nodes.map (fun n => if n.gid == h then { n with gid := to } else n)) := by
  apply Rel.map
  · intro x; by_cases hx : (x.gid == h) = true <;> simp [hx]
  · intro x
    by_cases hx : (x.gid == h) = true
    · have e1 : x.gid = h := by simpa using hx
      simp only [hx, if_true, beq_false_of_ne (Ne.symm hto)]
      rw [e1, beq_false_of_ne (Ne.symm hne)]
    · simp [hx]
  · intro x hx
    have : (x.gid == h) = false := by
      have : x.gid = g := by simpa using hx
      rw [this]; exact beq_false_of_ne hne
    simp [this]

theorem rewriteFrom_rel {g h : String} (hne : g ≠ h) (aid : String) : ∀ ns, Rel g ns (rewriteFrom h aid ns).2
  | [] => .nil
  | n :: ns => by
    unfold rewriteFrom
    split
    · rename_i hn
      split
      · exact Rel.refl g _
      · refine .cons rfl rfl ?_ (rewriteFrom_rel hne aid ns)
        intro hx
        have e1 : n.gid = h := by simpa using hn
        have e2 : n.gid = g := by simpa using hx
        exact absurd (e2.symm.trans e1) hne
    · exact .cons rfl rfl (fun _ => rfl) (rewriteFrom_rel hne aid ns)

/-! ### removals -/

theorem find_key_of_mem : ∀ {l : List SNode}, (l.map (·.key)).Nodup → ∀ x ∈ l, l.find? (fun n => n.key == x.key) = some x
  | [], _, _, h => by cases h
  | y :: l, hn, x, h => by
    simp only [List.map_cons, List.nodup_cons] at hn
    cases h with
    | head => simp
    | tail _ h' =>
      have hne : y.key ≠ x.key := fun e => hn.1 (e ▸ List.mem_map.mpr ⟨x, h', rfl⟩)
      simp [hne, find_key_of_mem hn.2 x h']

theorem findInL_none_of_mem {g : String} {l : List SNode} (hn : (l.map (·.key)).Nodup) {x : SNode} (hx : x ∈ l)
    (hg : (x.gid == g) = false) : findInL g l x.key = none := by
  unfold findInL
  rw [find_key_of_mem hn x hx]
  simp only [Option.bind_some, hg]
  rfl

theorem not_g_of_findInL_none {g : String} {l : List SNode} (hn : (l.map (·.key)).Nodup) {k : Nat}
    (h : findInL g l k = none) : ∀ x ∈ l, x.key = k → (x.gid == g) = false := by
  intro x hx hk
  subst hk
  unfold findInL at h
  rw [find_key_of_mem hn x hx] at h
  cases hg : (x.gid == g) with
  | false => rfl
  | true => simp only [Option.bind_some, hg, if_true] at h; cases h

theorem find_congr {α : Type} {p q : α → Bool} : ∀ {l : List α}, (∀ x ∈ l, p x = q x) → l.find? p = l.find? q
  | [], _ => rfl
  | x :: l, h => by
    rw [List.find?_cons, List.find?_cons, h x (by simp), find_congr (fun y hy => h y (by simp [hy]))]

theorem filterMap_filter_none {α β : Type} (f : α → Option β) (p : α → Bool) (l : List α) (h : ∀ e ∈ l, p e = false → f e = none) :
    (l.filter p).filterMap f = l.filterMap f := by
  induction l with
  | nil => rfl
  | cons e l ih =>
    have ih := ih (fun x hx => h x (by simp [hx]))
    rw [List.filter_cons]
    cases hp : p e with
    | true => simp [List.filterMap_cons, ih]
    | false => simp [h e (by simp) hp, ih]

theorem viewEdgeL_none_of_touch {g : String} {l : List SNode} {k : Nat} (h : findInL g l k = none) {e : SEdge}
    (ht : e.touches k = true) : viewEdgeL g l e = none := by
  unfold viewEdgeL
  simp only [SEdge.touches, Bool.or_eq_true, beq_iff_eq] at ht
  rcases ht with h1 | h1
  · rw [h1, h]
  · rw [h1, h]; cases findInL g l e.ka <;> rfl

/-- removing the node behind a key that does not belong to `g` (and the edges at it, and adding edges `extra` none of which
`g` sees) is invisible to `g` -/
theorem frame_delKey {s : Store} {g : String} (hk : s.KeysOK) {k : Nat} (h : findInL g s.nodes k = none)
    (extra : List SEdge) (hx : ∀ e ∈ extra, viewEdgeL g s.nodes e = none) :
    ({ s with nodes := s.nodes.filter (fun n => n.key != k),
              edges := s.edges.filter (fun e => !e.touches k) ++ extra } : Store).view g = s.view g := by
  have hng := not_g_of_findInL_none hk.nodup h
  apply view_frame
  · simp only
    rw [List.filter_filter]
    apply List.filter_congr
    intro x hxm
    cases hg : (x.gid == g) with
    | false => simp
    | true =>
      have : x.key ≠ k := fun e => by rw [hng x hxm e] at hg; cases hg
      simp [this]
  · intro k'
    simp only
    by_cases hkk : k' = k
    · subst hkk
      rw [h]
      unfold findInL
      have : (s.nodes.filter (fun n => n.key != k')).find? (fun n => n.key == k') = none := by
        apply List.find?_eq_none.mpr
        intro x hxm
        have := (List.mem_filter.mp hxm).2
        simpa using this
      rw [this]; rfl
    · unfold findInL
      rw [List.find?_filter]
      congr 1
      apply find_congr
      intro x _
      by_cases hxk : x.key = k' <;> simp [hxk, hkk]
  · simp only
    rw [List.filterMap_append, filterMap_filter_none]
    · have : extra.filterMap (viewEdgeL g s.nodes) = [] := by
        apply List.filterMap_eq_nil_iff.mpr
        exact hx
      rw [this, List.append_nil]
    · intro e _ hp
      exact viewEdgeL_none_of_touch h (by simpa using hp)

theorem keysOK_filter {s : Store} (hk : s.KeysOK) (p : SNode → Bool) (es : List SEdge) :
    ({ s with nodes := s.nodes.filter p, edges := es } : Store).KeysOK :=
  ⟨List.Pairwise.map _ (fun _ _ h => h) (List.Pairwise.filter _ (List.pairwise_map.mp hk.nodup)),
   fun n hn => hk.below n (List.mem_filter.mp hn).1⟩


/-! ### the primitives -/

theorem findNode_mem {s : Store} {h i : String} {x : SNode} (hf : s.findNode h i = some x) : x ∈ s.nodes ∧ x.gid = h := by
  unfold Store.findNode at hf
  have := List.find?_some hf
  simp only [Bool.and_eq_true, beq_iff_eq] at this
  exact ⟨List.mem_of_find?_eq_some hf, this.1⟩

theorem frame_delNode {s : Store} {g h : String} (hk : s.KeysOK) (hne : g ≠ h) (i : String) :
    (s.delNode h i).view g = s.view g ∧ (s.delNode h i).KeysOK := by
  unfold Store.delNode
  cases hf : s.findNode h i with
  | none => exact ⟨rfl, hk⟩
  | some x =>
    obtain ⟨hm, hg⟩ := findNode_mem hf
    have hnone : findInL g s.nodes x.key = none :=
      findInL_none_of_mem hk.nodup hm (by rw [hg]; exact beq_false_of_ne (Ne.symm hne))
    refine ⟨?_, keysOK_filter hk _ _⟩
    have := frame_delKey hk hnone [] (by simp)
    simpa [Store.delKey] using this

theorem contractAdd_ka (u v : Nat) (rest : List SEdge) : ∀ (mine acc : List SEdge),
    (∀ e ∈ acc, e.ka = u) → ∀ e ∈ contractAdd u v rest acc mine, e.ka = u
  | [], acc, h => by simpa [contractAdd] using h
  | m :: mine, acc, h => by
    unfold contractAdd
    split
    · exact contractAdd_ka u v rest mine acc h
    · apply contractAdd_ka u v rest mine
      intro e he
      rcases List.mem_append.mp he with h1 | h1
      · exact h e h1
      · simp at h1; rw [h1]

theorem frame_contract {s : Store} {g h other : String} (hk : s.KeysOK) (hne : g ≠ h) (hno : g ≠ other) (i : String) :
    (s.contract h other i).view g = s.view g ∧ (s.contract h other i).KeysOK := by
  unfold Store.contract
  cases hu : s.findNode h i with
  | none => exact ⟨rfl, hk⟩
  | some u =>
    cases hv : s.findNode other i with
    | none => exact ⟨rfl, hk⟩
    | some v =>
      simp only
      obtain ⟨hum, hug⟩ := findNode_mem hu
      obtain ⟨hvm, hvg⟩ := findNode_mem hv
      have hnv : findInL g s.nodes v.key = none :=
        findInL_none_of_mem hk.nodup hvm (by rw [hvg]; exact beq_false_of_ne (Ne.symm hno))
      have hnu : findInL g s.nodes u.key = none :=
        findInL_none_of_mem hk.nodup hum (by rw [hug]; exact beq_false_of_ne (Ne.symm hne))
      refine ⟨?_, keysOK_filter hk _ _⟩
      apply frame_delKey hk hnv
      intro e he
      have := contractAdd_ka u.key v.key _ _ [] (by simp) e he
      unfold viewEdgeL
      rw [this, hnu]

theorem find_and_key {l : List SNode} (hn : (l.map (·.key)).Nodup) (p : SNode → Bool) (k : Nat) :
    l.find? (fun a => decide (p a = true ∧ (a.key == k) = true)) = (l.find? (fun a => a.key == k)).filter p := by
  induction l with
  | nil => rfl
  | cons x l ih =>
    simp only [List.map_cons, List.nodup_cons] at hn
    have ih := ih hn.2
    rw [List.find?_cons, List.find?_cons]
    by_cases hxk : x.key = k
    · have hb : (x.key == k) = true := by simpa using hxk
      simp only [hb, and_true]
      cases hp : p x with
      | true => simp [Option.filter, hp]
      | false =>
        simp only [hp, Bool.false_eq_true, decide_false, Option.filter_some, if_false]
        rw [ih]
        have : l.find? (fun a => a.key == k) = none := by
          apply List.find?_eq_none.mpr
          intro y hy hyk
          have : y.key = k := by simpa using hyk
          exact hn.1 (hxk ▸ this ▸ List.mem_map.mpr ⟨y, hy, rfl⟩)
        rw [this]; rfl
    · have hb : (x.key == k) = false := by simpa using hxk
      simp only [hb, Bool.false_eq_true, and_false, decide_false]
      exact ih

theorem frame_delGraph {s : Store} {g h : String} (hk : s.KeysOK) (hne : g ≠ h) :
    (s.delGraph h).view g = s.view g ∧ (s.delGraph h).KeysOK := by
  unfold Store.delGraph
  refine ⟨?_, keysOK_filter hk _ _⟩
  apply view_frame
  · simp only
    rw [List.filter_filter]
    apply List.filter_congr
    intro x _
    cases hg : (x.gid == g) with
    | false => simp
    | true =>
      have : x.gid = g := by simpa using hg
      simp [this, hne]
  · intro k
    simp only
    unfold findInL
    rw [List.find?_filter, find_and_key hk.nodup]
    cases hf : s.nodes.find? (fun a => a.key == k) with
    | none => rfl
    | some x =>
      simp only [Option.filter_some, Option.bind_some]
      cases hxh : (x.gid != h) with
      | true => simp
      | false =>
        have : x.gid = h := by simpa using hxh
        simp [this, beq_false_of_ne (Ne.symm hne)]
  · simp only
    apply filterMap_filter_none
    intro e _ hp
    simp only [Bool.and_eq_false_iff, Bool.not_eq_false', List.contains_iff_mem, Store.nodesOf, List.mem_map, List.mem_filter] at hp
    rcases hp with ⟨x, ⟨hx, hxg⟩, hxk⟩ | ⟨x, ⟨hx, hxg⟩, hxk⟩
    · have hxg' : x.gid = h := by simpa using hxg
      have := findInL_none_of_mem (g := g) hk.nodup hx (by rw [hxg']; exact beq_false_of_ne (Ne.symm hne))
      exact viewEdgeL_none_of_touch this (by simp [SEdge.touches, hxk])
    · have hxg' : x.gid = h := by simpa using hxg
      have := findInL_none_of_mem (g := g) hk.nodup hx (by rw [hxg']; exact beq_false_of_ne (Ne.symm hne))
      exact viewEdgeL_none_of_touch this (by simp [SEdge.touches, hxk])

/-- adding nodes of another graph under fresh keys, and edges between fresh keys -/
theorem frame_appendFresh {s : Store} {g : String} (hk : s.KeysOK) (new : List SNode) (es : List SEdge) (n : Nat)
    (hg : ∀ x ∈ new, (x.gid == g) = false) (hfresh : ∀ e ∈ es, s.next ≤ e.ka) :
    ({ nodes := s.nodes ++ new, edges := s.edges ++ es, next := n } : Store).view g = s.view g := by
  apply view_frame
  · simp only
    rw [List.filter_append]
    have : new.filter (fun n => n.gid == g) = [] := List.filter_eq_nil_iff.mpr (fun x hx => by simp [hg x hx])
    rw [this, List.append_nil]
  · intro k
    simp only
    unfold findInL
    rw [List.find?_append]
    cases hf : s.nodes.find? (fun n => n.key == k) with
    | some x => rfl
    | none =>
      simp only [Option.none_or, Option.bind_none]
      cases hf2 : new.find? (fun n => n.key == k) with
      | none => rfl
      | some y =>
        have := hg y (List.mem_of_find?_eq_some hf2)
        simp only [Option.bind_some, this]
        rfl
  · simp only
    rw [List.filterMap_append]
    have : es.filterMap (viewEdgeL g s.nodes) = [] := by
      apply List.filterMap_eq_nil_iff.mpr
      intro e he
      have hka := hfresh e he
      unfold viewEdgeL findInL
      have : s.nodes.find? (fun n => n.key == e.ka) = none := by
        apply List.find?_eq_none.mpr
        intro x hx hxe
        have h1 := hk.below x hx
        have : x.key = e.ka := by simpa using hxe
        omega
      rw [this]; rfl
    rw [this, List.append_nil]

theorem idxOf_inj {l : List Nat} {a b : Nat} (ha : a ∈ l) (hb : b ∈ l) (h : l.idxOf a = l.idxOf b) : a = b := by
  have h1 := List.getElem_idxOf (List.idxOf_lt_length_of_mem ha)
  have h2 := List.getElem_idxOf (List.idxOf_lt_length_of_mem hb)
  rw [← h1, ← h2]
  simp [h]

theorem keysOK_appendFresh {s : Store} (hk : s.KeysOK) (src : List SNode) (hsrc : (src.map (·.key)).Nodup) (dst : String)
    (es : List SEdge) :
    ({ nodes := s.nodes ++ src.map (fun n => { n with key := s.next + (src.map (·.key)).idxOf n.key, gid := dst }),
       edges := es, next := s.next + src.length } : Store).KeysOK := by
  refine ⟨?_, ?_⟩
  · simp only [List.map_append, List.map_map]
    refine List.nodup_append.mpr ⟨hk.nodup, ?_, ?_⟩
    · have := List.pairwise_map.mp hsrc
      apply List.pairwise_map.mpr
      refine List.Pairwise.imp_of_mem ?_ this
      intro a b ha hb hab heq
      simp only [Function.comp_apply] at heq
      have h1 : a.key ∈ src.map (·.key) := List.mem_map.mpr ⟨a, ha, rfl⟩
      have h2 : b.key ∈ src.map (·.key) := List.mem_map.mpr ⟨b, hb, rfl⟩
      exact hab (idxOf_inj h1 h2 (by omega))
    · intro a ha b hb hab
      obtain ⟨x, hx, rfl⟩ := List.mem_map.mp ha
      obtain ⟨y, hy, rfl⟩ := List.mem_map.mp hb
      have := hk.below x hx
      simp only [Function.comp_apply] at hab
      omega
  · intro n hn
    simp only at hn ⊢
    rcases List.mem_append.mp hn with h | h
    · have := hk.below n h; omega
    · obtain ⟨x, hx, rfl⟩ := List.mem_map.mp h
      simp only
      have : (src.map (·.key)).idxOf x.key < (src.map (·.key)).length :=
        List.idxOf_lt_length_of_mem (List.mem_map.mpr ⟨x, hx, rfl⟩)
      simp only [List.length_map] at this
      omega


theorem frame_clone {s s' : Store} {g src dst : String} (hk : s.KeysOK) (hne : g ≠ dst) (h : s.clone src dst = .ok s') :
    s'.view g = s.view g ∧ s'.KeysOK := by
  unfold Store.clone at h
  simp only at h
  split at h
  · cases h
  · injection h with h
    subst h
    have h0 : (if s.graphExists dst = true then s.delGraph dst else s).view g = s.view g ∧
        (if s.graphExists dst = true then s.delGraph dst else s).KeysOK := by
      split
      · exact frame_delGraph hk hne
      · exact ⟨rfl, hk⟩
    generalize (if s.graphExists dst = true then s.delGraph dst else s) = s0 at h0 ⊢
    have hsrc : ((s.nodesOf src).map (·.key)).Nodup :=
      List.Pairwise.map _ (fun _ _ h => h) (List.Pairwise.filter _ (List.pairwise_map.mp hk.nodup))
    refine ⟨?_, ?_⟩
    · rw [← h0.1]
      apply frame_appendFresh h0.2
      · intro x hx
        obtain ⟨y, _, rfl⟩ := List.mem_map.mp hx
        exact beq_false_of_ne (Ne.symm hne)
      · intro e he
        obtain ⟨f, _, rfl⟩ := List.mem_map.mp he
        simp only
        omega
    · exact keysOK_appendFresh h0.2 (s.nodesOf src) hsrc dst _

theorem frame_rehome {s s' : Store} {g h to : String} (hk : s.KeysOK) (hne : g ≠ h) (hto : g ≠ to)
    (hr : s.rehome h to = .ok s') : s'.view g = s.view g ∧ s'.KeysOK := by
  unfold Store.rehome at hr
  split at hr
  · injection hr with hr
    subst hr
    exact ⟨frame_of_rel (rehome_rel s hne hto), keysOK_of_rel (rehome_rel s hne hto) hk⟩
  · cases hr

theorem frame_updNode {s : Store} {g h : String} (hk : s.KeysOK) (hne : g ≠ h) (i : String) (f : Node → Node) :
    (s.updNode h i f).view g = s.view g ∧ (s.updNode h i f).KeysOK :=
  ⟨frame_of_rel (updNode_rel s hne i f), keysOK_of_rel (updNode_rel s hne i f) hk⟩

theorem frame_mapGraph {s : Store} {g h : String} (hk : s.KeysOK) (hne : g ≠ h) (f : Node → Node) :
    (s.mapGraph h f).view g = s.view g ∧ (s.mapGraph h f).KeysOK :=
  ⟨frame_of_rel (mapGraph_rel s hne f), keysOK_of_rel (mapGraph_rel s hne f) hk⟩

/-! ### the interpreters: a plan whose calls do not address `g` leaves `g` alone -/

def LStep.avoids (e : Env) (g : String) : LStep → Prop
  | .updateDelegations on _ => g ≠ e.get on
  | .mergeNodes on other => g ≠ e.get on ∧ g ≠ e.get other
  | .appendProvenance on _ => g ≠ e.get on

def MStep.avoids (e : Env) (g : String) : MStep → Prop
  | .clone _ dst => g ≠ e.get dst
  | .rewriteDelegations h _ => g ≠ e.get h
  | .setProvenance h _ => g ≠ e.get h
  | .rehome h to => g ≠ e.get h ∧ g ≠ e.get to
  | .forCommon _ _ body => ∀ st ∈ body, st.avoids e g

def RStep.avoids (e : Env) (g : String) : RStep → Prop
  | .deleteGraph h => g ≠ e.get h
  | .assertExists _ => True
  | .rehome h to => g ≠ e.get h ∧ g ≠ e.get to

theorem execL_frame {e : Env} {g : String} (i : String) {s : Store} (hk : s.KeysOK) {st : LStep} (ha : st.avoids e g) :
    (execL e i s st).2.view g = s.view g ∧ (execL e i s st).2.KeysOK := by
  cases st with
  | updateDelegations on frm =>
    simp only [execL]
    split
    · split
      · exact ⟨rfl, hk⟩
      · exact frame_updNode hk ha i _
    · exact ⟨rfl, hk⟩
  | mergeNodes on other =>
    simp only [execL]
    split
    · exact frame_contract hk ha.1 ha.2 i
    · exact ⟨rfl, hk⟩
  | appendProvenance on by_ =>
    simp only [execL]
    split
    · exact frame_updNode hk ha i _
    · exact ⟨rfl, hk⟩

theorem execBody_frame {e : Env} {g : String} (i : String) : ∀ (body : List LStep) {s : Store}, s.KeysOK →
    (∀ st ∈ body, st.avoids e g) → (execBody e i s body).2.view g = s.view g ∧ (execBody e i s body).2.KeysOK
  | [], _, hk, _ => ⟨rfl, hk⟩
  | st :: rest, s, hk, ha => by
    have h1 := execL_frame (e := e) (g := g) i hk (ha st (by simp))
    unfold execBody
    split
    · rename_i s' hs'
      rw [hs'] at h1
      have h2 := execBody_frame i rest h1.2 (fun x hx => ha x (by simp [hx]))
      exact ⟨h2.1.trans h1.1, h2.2⟩
    · exact h1

theorem execLoop_frame {e : Env} {g : String} (body : List LStep) (ha : ∀ st ∈ body, st.avoids e g) :
    ∀ (is : List String) {s : Store}, s.KeysOK →
    (execLoop e body s is).2.view g = s.view g ∧ (execLoop e body s is).2.KeysOK
  | [], _, hk => ⟨rfl, hk⟩
  | i :: is, s, hk => by
    have h1 := execBody_frame (e := e) (g := g) i body hk ha
    unfold execLoop
    split
    · rename_i s' hs'
      rw [hs'] at h1
      have h2 := execLoop_frame body ha is h1.2
      exact ⟨h2.1.trans h1.1, h2.2⟩
    · exact h1

theorem execM_frame {e : Env} {g : String} (order : List String) : ∀ (plan : List MStep) {s : Store}, s.KeysOK →
    (∀ st ∈ plan, st.avoids e g) → (execM e order s plan).2.view g = s.view g ∧ (execM e order s plan).2.KeysOK
  | [], _, hk, _ => ⟨rfl, hk⟩
  | st :: rest, s, hk, ha => by
    have har : ∀ x ∈ rest, x.avoids e g := fun x hx => ha x (by simp [hx])
    have hst := ha st (by simp)
    unfold execM
    cases st with
    | clone src dst =>
      simp only
      split
      · exact ⟨rfl, hk⟩
      · rename_i s' hs'
        have h1 := frame_clone hk hst hs'
        have h2 := execM_frame order rest h1.2 har
        exact ⟨h2.1.trans h1.1, h2.2⟩
    | rewriteDelegations h real =>
      simp only
      have hrel := rewriteFrom_rel (g := g) hst (e.get real) s.nodes
      split
      · rename_i x ns hr
        rw [hr] at hrel
        exact ⟨frame_of_rel hrel, keysOK_of_rel hrel hk⟩
      · rename_i ns hr
        rw [hr] at hrel
        have h2 := execM_frame order rest (keysOK_of_rel hrel hk) har
        exact ⟨h2.1.trans (frame_of_rel hrel), h2.2⟩
    | setProvenance h by_ =>
      simp only
      have h1 := frame_mapGraph hk hst (fun n => { n with prov := [e.get by_] })
      have h2 := execM_frame order rest h1.2 har
      exact ⟨h2.1.trans h1.1, h2.2⟩
    | rehome h to =>
      simp only
      split
      · exact ⟨rfl, hk⟩
      · rename_i s' hs'
        have h1 := frame_rehome hk hst.1 hst.2 hs'
        have h2 := execM_frame order rest h1.2 har
        exact ⟨h2.1.trans h1.1, h2.2⟩
    | forCommon a b body =>
      simp only
      have h1 := execLoop_frame (e := e) (g := g) body hst
        (if sameMembers order (s.commonIds (e.get a) (e.get b)) = true then order else s.commonIds (e.get a) (e.get b)) hk
      split
      · rename_i s' hs'
        rw [hs'] at h1
        have h2 := execM_frame order rest h1.2 har
        exact ⟨h2.1.trans h1.1, h2.2⟩
      · exact h1


theorem execR_frame {e : Env} {g : String} : ∀ (plan : List RStep) {s : Store}, s.KeysOK →
    (∀ st ∈ plan, st.avoids e g) → (execR e s plan).2.view g = s.view g ∧ (execR e s plan).2.KeysOK
  | [], _, hk, _ => ⟨rfl, hk⟩
  | st :: rest, s, hk, ha => by
    have har : ∀ x ∈ rest, x.avoids e g := fun x hx => ha x (by simp [hx])
    have hst := ha st (by simp)
    unfold execR
    cases st with
    | deleteGraph h =>
      simp only
      have h1 := frame_delGraph hk hst
      have h2 := execR_frame rest h1.2 har
      exact ⟨h2.1.trans h1.1, h2.2⟩
    | assertExists h =>
      simp only
      split
      · exact execR_frame rest hk har
      · exact ⟨rfl, hk⟩
    | rehome h to =>
      simp only
      split
      · exact ⟨rfl, hk⟩
      · rename_i s' hs'
        have h1 := frame_rehome hk hst.1 hst.2 hs'
        have h2 := execR_frame rest h1.2 har
        exact ⟨h2.1.trans h1.1, h2.2⟩

theorem unmergeLoop_frame (P : Plans) {g cbm : String} (hne : g ≠ cbm) (gid : String) : ∀ (is dels : List String) {s : Store},
    s.KeysOK → (unmergeLoop P cbm gid s is dels).2.1.view g = s.view g ∧ (unmergeLoop P cbm gid s is dels).2.1.KeysOK
  | [], _, _, hk => ⟨rfl, hk⟩
  | i :: is, dels, s, hk => by
    unfold unmergeLoop
    split
    · exact ⟨rfl, hk⟩
    · rename_i x hx
      split
      · exact frame_updNode hk hne i _
      · rename_i n' del hn'
        have h1 := frame_updNode hk hne i (fun _ => n')
        split
        · split
          · have h2 := unmergeLoop_frame P hne gid is (dels ++ [i]) h1.2
            exact ⟨h2.1.trans h1.1, h2.2⟩
          · have h3 := frame_delNode h1.2 hne i
            have h2 := unmergeLoop_frame P hne gid is dels h3.2
            exact ⟨h2.1.trans (h3.1.trans h1.1), h2.2⟩
        · have h2 := unmergeLoop_frame P hne gid is dels h1.2
          exact ⟨h2.1.trans h1.1, h2.2⟩

theorem foldl_delNode_frame {g cbm : String} (hne : g ≠ cbm) : ∀ (dels : List String) {s : Store}, s.KeysOK →
    (dels.foldl (fun t i => t.delNode cbm i) s).view g = s.view g ∧ (dels.foldl (fun t i => t.delNode cbm i) s).KeysOK
  | [], _, hk => ⟨rfl, hk⟩
  | i :: dels, s, hk => by
    have h1 := frame_delNode hk hne i
    have h2 := foldl_delNode_frame hne dels h1.2
    exact ⟨h2.1.trans h1.1, h2.2⟩

/-- **`unmerge_adm` touches the combined model only** (whatever the plan) -/
theorem unmergeAdm_frame (P : Plans) {g cbm : String} (hne : g ≠ cbm) (gid : String) {s : Store} (hk : s.KeysOK) :
    (s.unmergeAdm P cbm gid).2.view g = s.view g ∧ (s.unmergeAdm P cbm gid).2.KeysOK := by
  unfold Store.unmergeAdm
  split
  · exact ⟨rfl, hk⟩
  · have h1 := unmergeLoop_frame P hne gid ((s.nodesOf cbm).map (·.n.id)) [] hk
    split
    · rename_i e s' d hr
      rw [hr] at h1
      exact h1
    · rename_i s' dels hr
      rw [hr] at h1
      have h2 := foldl_delNode_frame hne dels h1.2
      exact ⟨h2.1.trans h1.1, h2.2⟩

/-- the calls of a plan address the combined model and the temporary graph only -/
def Plans.Safe (P : Plans) : Prop :=
  ∀ (e : Env) (g : String), g ≠ e.cbm → g ≠ e.tmp →
    (∀ st ∈ P.mergeEmpty, st.avoids e g) ∧ (∀ st ∈ P.mergeNonEmpty, st.avoids e g) ∧
    (∀ st ∈ P.snapshot, st.avoids e g) ∧ (∀ st ∈ P.rollback, st.avoids e g)

theorem modelPlans_safe : modelPlans.Safe := by
  intro e g hc ht
  simp only [modelPlans, List.mem_cons, List.not_mem_nil, or_false, forall_eq_or_imp, forall_eq, MStep.avoids, LStep.avoids,
    RStep.avoids, Env.get]
  simp [hc, ht]

/-- **`merge_adm` touches the combined model and its temporary graph only**: the view of every other graph of the
shared store - the merged delegation model and all other source models in particular - is unchanged, also when the call
raises half-way. -/
theorem mergeAdm_frame {P : Plans} (hP : P.Safe) (e : Env) (order : List String) {s : Store} (hk : s.KeysOK) {g : String}
    (hc : g ≠ e.cbm) (ht : g ≠ e.tmp) :
    (s.mergeAdm P e order).2.view g = s.view g ∧ (s.mergeAdm P e order).2.KeysOK := by
  obtain ⟨h1, h2, _, _⟩ := hP e g hc ht
  unfold Store.mergeAdm
  split
  · exact ⟨rfl, hk⟩
  · split
    · exact execM_frame order _ hk h2
    · exact execM_frame order _ hk h1

/-- the store the driver starts from and loading a model keep the key discipline -/
theorem Store.empty_keysOK : Store.empty.KeysOK := ⟨by simp [Store.empty], by simp [Store.empty]⟩

/-- loading a model from outside keeps the key discipline -/
theorem load_keysOK {s : Store} (hk : s.KeysOK) (a : Adm) (hn : a.g.ids.Nodup) : (s.load a).KeysOK := by
  unfold Store.load
  have h0 : (if s.graphExists a.id = true then s.delGraph a.id else s).KeysOK := by
    split
    · exact keysOK_filter hk _ _
    · exact hk
  generalize (if s.graphExists a.id = true then s.delGraph a.id else s) = s0 at h0 ⊢
  refine ⟨?_, ?_⟩
  · simp only [List.map_append, List.map_map]
    refine List.nodup_append.mpr ⟨h0.nodup, ?_, ?_⟩
    · apply List.pairwise_map.mpr
      refine List.Pairwise.imp_of_mem ?_ (List.pairwise_map.mp hn)
      intro x y hx hy hxy heq
      simp only [Function.comp_apply] at heq
      have h1 : x.id ∈ a.g.nodes.map (·.id) := List.mem_map.mpr ⟨x, hx, rfl⟩
      have h2 : y.id ∈ a.g.nodes.map (·.id) := List.mem_map.mpr ⟨y, hy, rfl⟩
      have e1 := List.getElem_idxOf (List.idxOf_lt_length_of_mem h1)
      have e2 := List.getElem_idxOf (List.idxOf_lt_length_of_mem h2)
      have : (a.g.nodes.map (·.id)).idxOf x.id = (a.g.nodes.map (·.id)).idxOf y.id := by omega
      apply hxy
      rw [← e1, ← e2]
      simp [this]
    · intro k hk1 k' hk2 hkk
      obtain ⟨x, hx, rfl⟩ := List.mem_map.mp hk1
      obtain ⟨y, hy, rfl⟩ := List.mem_map.mp hk2
      have := h0.below x hx
      simp only [Function.comp_apply] at hkk
      omega
  · intro n hn'
    simp only at hn' ⊢
    rcases List.mem_append.mp hn' with h | h
    · have := h0.below n h; omega
    · obtain ⟨x, hx, rfl⟩ := List.mem_map.mp h
      simp only
      have : (a.g.nodes.map (·.id)).idxOf x.id < (a.g.nodes.map (·.id)).length :=
        List.idxOf_lt_length_of_mem (List.mem_map.mpr ⟨x, hx, rfl⟩)
      simp only [List.length_map] at this
      omega

/-- **Frame over all histories on the shared store**: whatever sequence of merge / unmerge / snapshot / rollback calls a
broker makes (raising or not), the view of every graph other than the combined model, the temporary graphs and the
snapshots is what it was - for every plan that addresses only those. -/
theorem srun_frame {P : Plans} (hP : P.Safe) (N : Names) {g : String} (hc : g ≠ N.cbm) (ht : ∀ n, g ≠ N.tmp n)
    (hs : ∀ k, g ≠ N.snap k) : ∀ (ops : List SOp) {w : SWorld}, w.s.KeysOK →
    (srun P N w ops).s.view g = w.s.view g ∧ (srun P N w ops).s.KeysOK
  | [], _, hk => ⟨rfl, hk⟩
  | op :: ops, w, hk => by
    have h1 : (sstep P N w op).2.s.view g = w.s.view g ∧ (sstep P N w op).2.s.KeysOK := by
      cases op with
      | merge adm order => exact mergeAdm_frame hP _ order hk hc (ht _)
      | unmerge gid => exact unmergeAdm_frame P hc gid hk
      | snapshot => exact execM_frame [] _ hk (hP ⟨N.cbm, N.snap w.next, N.cbm⟩ g hc (hs _)).2.2.1
      | rollback k => exact execR_frame _ hk (hP ⟨N.cbm, N.snap k, N.cbm⟩ g hc (hs _)).2.2.2
    have h2 := srun_frame hP N hc ht hs ops h1.2
    exact ⟨h2.1.trans h1.1, h2.2⟩

end FimVerif.Cbm
