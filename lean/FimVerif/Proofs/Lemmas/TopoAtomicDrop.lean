import FimVerif.Proofs.Lemmas.TopoAtomicRemove
/-! Removing calls as restrictions of the state: `restrict keep s` keeps the nodes whose key passes `keep` and the edges
between kept nodes.  Every graph-level removal, once its look-ups succeeded, returns in such a restriction (`Rm`); the
facts the later passes need (ids distinct, presence of kept nodes, adjacency only shrinks) carry over to any restriction,
which is what makes "raises ⇒ unchanged" provable for the calls that delete in several passes. -/
namespace FimVerif.Topo
open FimVerif FimVerif.M

def restrict (keep : Ref → Bool) (s : Topo) : Topo :=
  { nodes := s.nodes.filter (fun n => keep n.ref), edges := s.edges.filter (fun e => keep e.a && keep e.b) }

theorem dropNode_eq_restrict (r : Ref) (s : Topo) : dropNode r s = restrict (fun x => x != r) s := rfl

theorem restrict_restrict (k1 k2 : Ref → Bool) (s : Topo) :
    restrict k2 (restrict k1 s) = restrict (fun x => k1 x && k2 x) s := by
  unfold restrict
  simp only [List.filter_filter]
  congr 1
  · apply List.filter_congr; intro n _; exact Bool.and_comm _ _
  · apply List.filter_congr; intro e _
    cases k1 e.a <;> cases k1 e.b <;> cases k2 e.a <;> cases k2 e.b <;> rfl

theorem restrict_true (s : Topo) : restrict (fun _ => true) s = s := by
  cases s with
  | mk n e =>
    unfold restrict
    congr 1
    · exact List.filter_eq_self.mpr (fun _ _ => rfl)
    · exact List.filter_eq_self.mpr (fun _ _ => rfl)

theorem idsDistinct_restrict {s : Topo} (h : IdsDistinct s) (k : Ref → Bool) : IdsDistinct (restrict k s) :=
  List.Nodup.sublist (List.Sublist.map _ List.filter_sublist) h

theorem mem_restrict_nodes {s : Topo} {k : Ref → Bool} {n : GNode} :
    n ∈ (restrict k s).nodes ↔ n ∈ s.nodes ∧ k n.ref = true := by simp [restrict]

theorem mem_restrict_edges {s : Topo} {k : Ref → Bool} {e : GEdge} :
    e ∈ (restrict k s).edges ↔ e ∈ s.edges ∧ k e.a = true ∧ k e.b = true := by simp [restrict]

theorem adjacent_restrict {s : Topo} {k : Ref → Bool} {a b : Ref} {rel : Rel}
    (h : adjacent (restrict k s) a b rel = true) : adjacent s a b rel = true := by
  rw [adjacent_iff] at h ⊢
  obtain ⟨e, he, h1, h2⟩ := h
  exact ⟨e, (mem_restrict_edges.mp he).1, h1, h2⟩

/-- outcome of a removing pass started in `s`: it returned, in a restriction of `s` whose deleted keys all satisfy `Q` -/
def Rm (Q : Ref → Prop) (s : Topo) (r : Except Err Unit × Topo) : Prop :=
  ∃ keep : Ref → Bool, r = (.ok (), restrict keep s) ∧ ∀ x, keep x = false → Q x

theorem Rm.mono {Q Q' : Ref → Prop} {s : Topo} {r : Except Err Unit × Topo} (h : ∀ x, Q x → Q' x) : Rm Q s r → Rm Q' s r :=
  fun ⟨k, hk, hq⟩ => ⟨k, hk, fun x hx => h x (hq x hx)⟩

theorem Rm.nil {Q : Ref → Prop} {s : Topo} : Rm Q s (.ok (), s) :=
  ⟨fun _ => true, by rw [restrict_true], fun x hx => by cases hx⟩

/-- a pass in a restriction of `s`, read as a pass from `s` -/
theorem Rm.lift {Q Q0 : Ref → Prop} {s : Topo} {k0 : Ref → Bool} {r : Except Err Unit × Topo}
    (h0 : ∀ x, k0 x = false → Q0 x) (h : Rm Q (restrict k0 s) r) : Rm (fun x => Q0 x ∨ Q x) s r := by
  obtain ⟨k, hk, hq⟩ := h
  refine ⟨fun x => k0 x && k x, by rw [hk, restrict_restrict], fun x hx => ?_⟩
  cases h1 : k0 x
  · exact .inl (h0 x h1)
  · simp only [h1, Bool.true_and] at hx; exact .inr (hq x hx)

/-- `forEach L deleteNode` on distinct, present ids -/
theorem forEach_deleteNode_spec (L : List Nid) : ∀ (u : Topo), IdsDistinct u → L.Nodup → (∀ x ∈ L, Present u x) →
    Rm (fun r => ∃ n ∈ u.nodes, n.ref = r ∧ n.nid ∈ L) u (M.forEach L deleteNode u) := by
  induction L with
  | nil => intro u _ _ _; exact Rm.nil
  | cons x L ih =>
    intro u hd hnd hp
    obtain ⟨n, hn, hnx⟩ := hp x (List.mem_cons_self ..)
    subst hnx
    rw [forEach_cons_ok (deleteNode_run hd hn)]
    rw [List.nodup_cons] at hnd
    have hp' : ∀ y ∈ L, Present (dropNode n.ref u) y := by
      intro y hy
      obtain ⟨m, hm, hmy⟩ := hp y (List.mem_cons_of_mem _ hy)
      refine ⟨m, List.mem_filter.mpr ⟨hm, ?_⟩, hmy⟩
      simp only [bne_iff_ne, ne_eq]
      intro e
      exact hnd.1 (by rw [← nid_of_ref_eq e, hmy]; exact hy)
    have h1 := ih _ (idsDistinct_drop hd _) hnd.2 hp'
    rw [dropNode_eq_restrict] at h1 ⊢
    have h2 := Rm.lift (Q0 := fun r => r = n.ref) (fun x hx => by simpa using hx) h1
    refine h2.mono ?_
    intro r hr
    rcases hr with rfl | ⟨m, hm, hmr, hml⟩
    · exact ⟨n, hn, rfl, List.mem_cons_self ..⟩
    · exact ⟨m, (mem_restrict_nodes.mp hm).1, hmr, List.mem_cons_of_mem _ hml⟩

theorem filterMapM'_run {β γ : Type} {f : β → M Topo (Option γ)} {P : γ → Prop} {s : Topo} :
    ∀ (l : List β), (∀ b ∈ l, ∃ o, f b s = (.ok o, s) ∧ ∀ r, o = some r → P r) →
      ∃ out, M.filterMapM' f l s = (.ok out, s) ∧ ∀ r ∈ out, P r := by
  intro l
  induction l with
  | nil => intro _; exact ⟨[], rfl, fun r hr => by cases hr⟩
  | cons x xs ih =>
    intro h
    obtain ⟨o, ho, hP⟩ := h x (List.mem_cons_self ..)
    obtain ⟨ys, hys, hPys⟩ := ih (fun b hb => h b (List.mem_cons_of_mem _ hb))
    cases o with
    | none => exact ⟨ys, by simp only [M.filterMapM', bind_apply, ho, hys, pure_apply], hPys⟩
    | some v =>
      refine ⟨v :: ys, by simp only [M.filterMapM', bind_apply, ho, hys, pure_apply], ?_⟩
      intro r hr
      rcases List.mem_cons.mp hr with rfl | hr'
      · exact hP _ rfl
      · exact hPys r hr'

theorem mapM'_run {β γ : Type} {f : β → M Topo γ} {P : γ → Prop} {s : Topo} :
    ∀ (l : List β), (∀ b ∈ l, ∃ o, f b s = (.ok o, s) ∧ P o) →
      ∃ out, M.mapM' f l s = (.ok out, s) ∧ ∀ r ∈ out, P r := by
  intro l
  induction l with
  | nil => intro _; exact ⟨[], rfl, fun r hr => by cases hr⟩
  | cons x xs ih =>
    intro h
    obtain ⟨o, ho, hP⟩ := h x (List.mem_cons_self ..)
    obtain ⟨ys, hys, hPys⟩ := ih (fun b hb => h b (List.mem_cons_of_mem _ hb))
    refine ⟨o :: ys, ?_, ?_⟩
    · simp only [M.mapM', bind_apply, ho, hys, pure_apply]
    · intro r hr
      rcases List.mem_cons.mp hr with rfl | hr'
      · exact hP
      · exact hPys r hr'

/-- what `remove_cp_and_links` on the node `n` may delete: `n`, ConnectionPoints adjacent to it, Links -/
def DelCp (s : Topo) (n : GNode) (x : Ref) : Prop :=
  x = n.ref ∨ (x.cls = .connectionPoint ∧ adjacent s n.ref x .connects = true) ∨ x.cls = .link

theorem mem_neighbors {s : Topo} {r : Ref} {rel : Rel} {L : Cls} {m : GNode} (h : m ∈ neighbors s r rel L) :
    m ∈ s.nodes ∧ m.cls = L ∧ adjacent s r m.ref rel = true := by
  have := List.mem_filter.mp h
  refine ⟨this.1, ?_, ?_⟩ <;> simp only [Bool.and_eq_true, beq_iff_eq] at this
  · exact this.2.1
  · exact this.2.2

/-- `remove_cp_and_links` on a node of the model always returns (every look-up it makes is of a node it just listed) -/
theorem removeCpAndLinks_spec {s : Topo} (hd : IdsDistinct s) {n : GNode} (hn : n ∈ s.nodes) (dp : Bool) :
    Rm (DelCp s n) s (removeCpAndLinks n.nid dp s) := by
  unfold removeCpAndLinks
  rw [bind_ok (firstNeighbor_run hd hn .connects .connectionPoint)]
  obtain ⟨extra, hextra, hPextra⟩ := filterMapM'_run
    (f := fun p => do
      let ch ← firstNeighbor p .connects .connectionPoint
      Pure.pure (if ch.length == 1 && dp then some p else none))
    (P := fun r => ∃ m ∈ s.nodes, m.nid = r ∧ m.cls = .connectionPoint ∧ adjacent s n.ref m.ref .connects = true) (s := s)
    ((neighbors s n.ref .connects .connectionPoint).map (·.nid)) (by
      intro p hp
      obtain ⟨m, hm, rfl⟩ := List.mem_map.mp hp
      obtain ⟨hm1, hm2, hm3⟩ := mem_neighbors hm
      refine ⟨_, by rw [bind_ok (firstNeighbor_run hd hm1 .connects .connectionPoint)]; rfl, ?_⟩
      intro r hr
      split at hr
      · simp only [Option.some.injEq] at hr; subst hr; exact ⟨m, hm1, rfl, hm2, hm3⟩
      · cases hr)
  rw [bind_ok hextra]
  have htoDel : ∀ i ∈ (n.nid :: extra).eraseDups, ∃ m ∈ s.nodes, m.nid = i ∧
      (m = n ∨ (m.cls = .connectionPoint ∧ adjacent s n.ref m.ref .connects = true)) := by
    intro i hi
    rcases List.mem_cons.mp (List.mem_eraseDups.mp hi) with rfl | hi
    · exact ⟨n, hn, rfl, .inl rfl⟩
    · obtain ⟨m, h1, h2, h3, h4⟩ := hPextra i hi
      exact ⟨m, h1, h2, .inr ⟨h3, h4⟩⟩
  obtain ⟨links, hlinks, hPl⟩ := mapM'_run
    (f := fun i => do
      let ls ← firstNeighbor i .connects .link
      M.filterMapM' (fun l => do
        let cps ← firstNeighbor l .connects .connectionPoint
        Pure.pure (if cps.length == 2 then some l else none)) ls)
    (P := fun l => ∀ r ∈ l, ∃ m ∈ s.nodes, m.nid = r ∧ m.cls = .link) (s := s)
    ((n.nid :: extra).eraseDups) (by
      intro i hi
      obtain ⟨mi, hmi, rfl, _⟩ := htoDel i hi
      obtain ⟨out, hout, hPout⟩ := filterMapM'_run
        (f := fun l => do
          let cps ← firstNeighbor l .connects .connectionPoint
          Pure.pure (if cps.length == 2 then some l else none))
        (P := fun r => ∃ m ∈ s.nodes, m.nid = r ∧ m.cls = .link) (s := s)
        ((neighbors s mi.ref .connects .link).map (·.nid)) (by
          intro p hp
          obtain ⟨m, hm, rfl⟩ := List.mem_map.mp hp
          obtain ⟨hm1, hm2, _⟩ := mem_neighbors hm
          refine ⟨_, by rw [bind_ok (firstNeighbor_run hd hm1 .connects .connectionPoint)]; rfl, ?_⟩
          intro r hr
          split at hr
          · simp only [Option.some.injEq] at hr; subst hr; exact ⟨m, hm1, rfl, hm2⟩
          · cases hr)
      exact ⟨out, by rw [bind_ok (firstNeighbor_run hd hmi .connects .link)]; exact hout, hPout⟩)
  rw [bind_ok hlinks]
  have hall : ∀ x ∈ ((n.nid :: extra).eraseDups ++ links.flatten).eraseDups, Present s x := by
    intro x hx
    rcases List.mem_append.mp (List.mem_eraseDups.mp hx) with hx | hx
    · obtain ⟨m, h1, h2, _⟩ := htoDel x hx; exact ⟨m, h1, h2⟩
    · obtain ⟨l, hl, hxl⟩ := List.mem_flatten.mp hx
      obtain ⟨m, h1, h2, _⟩ := hPl l hl x hxl; exact ⟨m, h1, h2⟩
  refine (forEach_deleteNode_spec _ s hd (nodup_eraseDups _) hall).mono ?_
  intro r ⟨m, hm, hmr, hml⟩
  subst hmr
  rcases List.mem_append.mp (List.mem_eraseDups.mp hml) with hx | hx
  · obtain ⟨m', h1, h2, h3⟩ := htoDel _ hx
    have : m' = m := eq_of_nid_eq hd h1 hm h2
    subst this
    rcases h3 with rfl | ⟨h4, h5⟩
    · exact .inl rfl
    · exact .inr (.inl ⟨h4, h5⟩)
  · obtain ⟨l, hl, hxl⟩ := List.mem_flatten.mp hx
    obtain ⟨m', h1, h2, h3⟩ := hPl l hl _ hxl
    have : m' = m := eq_of_nid_eq hd h1 hm h2
    subst this
    exact .inr (.inr h3)

theorem Rm.bind_next {Q1 Q2 : Ref → Prop} {s : Topo} {m1 m2 : M Topo Unit} (h1 : Rm Q1 s (m1 s))
    (h2 : ∀ k : Ref → Bool, (∀ x, k x = false → Q1 x) → Rm Q2 (restrict k s) (m2 (restrict k s))) :
    Rm (fun x => Q1 x ∨ Q2 x) s ((m1 >>= fun _ => m2) s) := by
  obtain ⟨k, hk, hq⟩ := h1
  rw [bind_ok hk]
  exact Rm.lift hq (h2 k hq)

/-- a loop of removing passes: pass `b` needs its target `tgt b` still there and deletes only keys in `Qb b`; no pass deletes
the target of a later one -/
theorem Rm.forEach {β : Type} {f : β → M Topo Unit} {Qb : β → Ref → Prop} {C : Ref → Prop} {tgt : β → Ref} {s : Topo}
    (hC : ∀ b x, Qb b x → C x) :
    ∀ (L : List β) (k0 : Ref → Bool),
      (∀ b ∈ L, ∀ k : Ref → Bool, (∀ x, k x = false → C x) → k (tgt b) = true → Rm (Qb b) (restrict k s) (f b (restrict k s))) →
      (∀ x, k0 x = false → C x) → (∀ b ∈ L, k0 (tgt b) = true) →
      L.Pairwise (fun a b => ¬ Qb a (tgt b)) →
      Rm (fun x => ∃ b ∈ L, Qb b x) (restrict k0 s) (M.forEach L f (restrict k0 s)) := by
  intro L
  induction L with
  | nil => intro _ _ _ _ _; exact Rm.nil
  | cons b L ih =>
    intro k0 hstep h0 htg hpw
    obtain ⟨kb, hkb, hqb⟩ := hstep b (List.mem_cons_self ..) k0 h0 (htg b (List.mem_cons_self ..))
    rw [forEach_cons_ok hkb, restrict_restrict]
    rw [List.pairwise_cons] at hpw
    have h0' : ∀ x, (k0 x && kb x) = false → C x := by
      intro x hx
      cases h1 : k0 x
      · exact h0 x h1
      · simp only [h1, Bool.true_and] at hx; exact hC b x (hqb x hx)
    have htg' : ∀ b' ∈ L, (k0 (tgt b') && kb (tgt b')) = true := by
      intro b' hb'
      rw [htg b' (List.mem_cons_of_mem _ hb'), Bool.true_and]
      cases h1 : kb (tgt b')
      · exact absurd (hqb _ h1) (hpw.1 b' hb')
      · rfl
    obtain ⟨k', hk', hq'⟩ := ih (fun x => k0 x && kb x) (fun b' hb' => hstep b' (List.mem_cons_of_mem _ hb')) h0' htg' hpw.2
    refine ⟨fun x => kb x && k' x, ?_, ?_⟩
    · rw [hk', restrict_restrict, restrict_restrict]
      congr 2; funext x; rw [Bool.and_assoc]
    · intro x hx
      cases h1 : kb x
      · exact ⟨b, List.mem_cons_self .., hqb x h1⟩
      · simp only [h1, Bool.true_and] at hx
        obtain ⟨b', hb', hqx⟩ := hq' x hx
        exact ⟨b', List.mem_cons_of_mem _ hb', hqx⟩

/-! ### `remove_ns_with_cps_and_links` -/

/-- the ConnectionPoint is attached to some NetworkService -/
def nsAttached (s : Topo) (r : Ref) : Bool :=
  s.edges.any (fun e => e.rel == .connects &&
    ((e.a == r && e.b.cls == .networkService) || (e.b == r && e.a.cls == .networkService)))

/-- no edge joins two ConnectionPoints that are both attached to a service (a sub-interface hangs off its parent interface only) -/
def CpEdgeOk (s : Topo) : Prop :=
  ∀ e ∈ s.edges, e.a.cls = .connectionPoint → e.b.cls = .connectionPoint → ¬ (nsAttached s e.a = true ∧ nsAttached s e.b = true)

instance (s : Topo) : Decidable (CpEdgeOk s) := by unfold CpEdgeOk; infer_instance

theorem nsAttached_restrict {s : Topo} {k : Ref → Bool} {r : Ref} (h : nsAttached (restrict k s) r = true) : nsAttached s r = true := by
  unfold nsAttached at h ⊢
  rw [List.any_eq_true] at h ⊢
  obtain ⟨e, he, h1⟩ := h
  exact ⟨e, (mem_restrict_edges.mp he).1, h1⟩

theorem cpEdgeOk_restrict {s : Topo} (h : CpEdgeOk s) (k : Ref → Bool) : CpEdgeOk (restrict k s) := by
  intro e he ha hb ⟨h1, h2⟩
  exact h e (mem_restrict_edges.mp he).1 ha hb ⟨nsAttached_restrict h1, nsAttached_restrict h2⟩

theorem nsAttached_of_adjacent {s : Topo} {v x : Ref} (hv : v.cls = .networkService)
    (h : adjacent s v x .connects = true) : nsAttached s x = true := by
  rw [adjacent_iff] at h
  obtain ⟨e, he, hr, hs⟩ := h
  unfold nsAttached
  rw [List.any_eq_true]
  refine ⟨e, he, ?_⟩
  rw [sameEnds_iff] at hs
  rcases hs with ⟨h1, h2⟩ | ⟨h1, h2⟩
  · simp [hr, h1, h2, hv]
  · simp [hr, h1, h2, hv]

def DelNs (v : GNode) (x : Ref) : Prop := x = v.ref ∨ x.cls = .connectionPoint ∨ x.cls = .link

theorem neighbors_nodup {s : Topo} (hd : IdsDistinct s) (r : Ref) (rel : Rel) (L : Cls) :
    ((neighbors s r rel L).map (·.nid)).Nodup :=
  List.Nodup.sublist (List.Sublist.map _ List.filter_sublist) hd

/-- once it found its NetworkService, `remove_ns_with_cps_and_links` returns -/
theorem removeNs_spec {u : Topo} (hd : IdsDistinct u) (hcp : CpEdgeOk u) {v : GNode} (hv : v ∈ u.nodes)
    (hcls : v.cls = .networkService) : Rm (DelNs v) u (removeNs v.nid u) := by
  unfold removeNs
  rw [bind_ok (findNode_of_mem hd hv), bind_ok (guard_run (by simp [hcls])),
    bind_ok (firstNeighbor_run hd hv .connects .connectionPoint), bind_ok (deleteNode_run hd hv), dropNode_eq_restrict]
  have hloop := Rm.forEach (f := fun i => removeCpAndLinks i true) (s := u)
    (Qb := fun b x => x = ⟨.connectionPoint, b⟩ ∨ (x.cls = .connectionPoint ∧ adjacent u ⟨.connectionPoint, b⟩ x .connects = true) ∨ x.cls = .link)
    (C := fun x => x = v.ref ∨ x.cls = .connectionPoint ∨ x.cls = .link) (tgt := fun b => ⟨.connectionPoint, b⟩)
    (by
      intro b x hx
      rcases hx with rfl | ⟨h, _⟩ | h
      · exact .inr (.inl rfl)
      · exact .inr (.inl h)
      · exact .inr (.inr h))
    ((neighbors u v.ref .connects .connectionPoint).map (·.nid)) (fun x => x != v.ref)
    (by
      intro b hb k hk hkb
      obtain ⟨m, hm, rfl⟩ := List.mem_map.mp hb
      obtain ⟨hm1, hm2, _⟩ := mem_neighbors hm
      have hmr : m.ref = ⟨.connectionPoint, m.nid⟩ := by simp [GNode.ref, hm2]
      have hmk : m ∈ (restrict k u).nodes := mem_restrict_nodes.mpr ⟨hm1, by rw [hmr]; exact hkb⟩
      refine (removeCpAndLinks_spec (idsDistinct_restrict hd k) hmk true).mono ?_
      intro x hx
      rw [← hmr]
      rcases hx with h | ⟨h1, h2⟩ | h
      · exact .inl h
      · exact .inr (.inl ⟨h1, adjacent_restrict h2⟩)
      · exact .inr (.inr h))
    (by intro x hx; exact .inl (by simpa using hx))
    (by
      intro b hb
      obtain ⟨m, hm, rfl⟩ := List.mem_map.mp hb
      simp only [bne_iff_ne, ne_eq]
      intro e
      have := congrArg Ref.cls e
      simp [GNode.ref, hcls] at this)
    (by
      refine List.Pairwise.imp_of_mem ?_ (neighbors_nodup hd v.ref .connects .connectionPoint)
      intro a b ha hb hne hq
      obtain ⟨ma, hma, rfl⟩ := List.mem_map.mp ha
      obtain ⟨mb, hmb, rfl⟩ := List.mem_map.mp hb
      obtain ⟨ha1, ha2, ha3⟩ := mem_neighbors hma
      obtain ⟨hb1, hb2, hb3⟩ := mem_neighbors hmb
      have hra : ma.ref = ⟨.connectionPoint, ma.nid⟩ := by simp [GNode.ref, ha2]
      have hrb : mb.ref = ⟨.connectionPoint, mb.nid⟩ := by simp [GNode.ref, hb2]
      rcases hq with h | ⟨_, h⟩ | h
      · exact hne (by injection h with _ h; exact h.symm)
      · rw [adjacent_iff] at h
        obtain ⟨e, he, _, hs⟩ := h
        rw [sameEnds_iff] at hs
        have n1 := nsAttached_of_adjacent (by simp [GNode.ref, hcls]) ha3
        have n2 := nsAttached_of_adjacent (by simp [GNode.ref, hcls]) hb3
        rw [hra] at n1; rw [hrb] at n2
        rcases hs with ⟨h1, h2⟩ | ⟨h1, h2⟩
        · exact hcp e he (by rw [h1]) (by rw [h2]) ⟨by rw [h1]; exact n1, by rw [h2]; exact n2⟩
        · exact hcp e he (by rw [h1]) (by rw [h2]) ⟨by rw [h1]; exact n2, by rw [h2]; exact n1⟩
      · cases h)
  have := Rm.lift (Q0 := fun x => x = v.ref) (s := u) (k0 := fun x => x != v.ref) (fun x hx => by simpa using hx) hloop
  refine this.mono ?_
  intro x hx
  rcases hx with h | ⟨b, _, h | ⟨h, _⟩ | h⟩
  · exact .inl h
  · exact .inr (.inl (by rw [h]))
  · exact .inr (.inl h)
  · exact .inr (.inr h)

/-! ### components and nodes -/

def Below (x : Ref) : Prop := x.cls = .networkService ∨ x.cls = .connectionPoint ∨ x.cls = .link

/-- delete `w`, then remove each of the NetworkServices it had -/
theorem dropThenNs_spec {u : Topo} (hd : IdsDistinct u) (hcp : CpEdgeOk u) {w : GNode} (hw : w ∈ u.nodes)
    (hwc : w.cls ≠ .networkService) :
    Rm (fun x => x = w.ref ∨ Below x) u
      ((deleteNode w.nid >>= fun _ => M.forEach ((neighbors u w.ref .has .networkService).map (·.nid)) removeNs) u) := by
  rw [bind_ok (deleteNode_run hd hw), dropNode_eq_restrict]
  have hloop := Rm.forEach (f := removeNs) (s := u)
    (Qb := fun b x => x = ⟨.networkService, b⟩ ∨ x.cls = .connectionPoint ∨ x.cls = .link)
    (C := fun x => x = w.ref ∨ Below x) (tgt := fun b => ⟨.networkService, b⟩)
    (by
      intro b x hx
      rcases hx with rfl | h | h
      · exact .inr (.inl rfl)
      · exact .inr (.inr (.inl h))
      · exact .inr (.inr (.inr h)))
    ((neighbors u w.ref .has .networkService).map (·.nid)) (fun x => x != w.ref)
    (by
      intro b hb k hk hkb
      obtain ⟨m, hm, rfl⟩ := List.mem_map.mp hb
      obtain ⟨hm1, hm2, _⟩ := mem_neighbors hm
      have hmr : m.ref = ⟨.networkService, m.nid⟩ := by simp [GNode.ref, hm2]
      have hmk : m ∈ (restrict k u).nodes := mem_restrict_nodes.mpr ⟨hm1, by rw [hmr]; exact hkb⟩
      refine (removeNs_spec (idsDistinct_restrict hd k) (cpEdgeOk_restrict hcp k) hmk hm2).mono ?_
      intro x hx
      rw [← hmr]
      exact hx)
    (by intro x hx; exact .inl (by simpa using hx))
    (by
      intro b hb
      obtain ⟨m, hm, rfl⟩ := List.mem_map.mp hb
      simp only [bne_iff_ne, ne_eq]
      intro e
      exact hwc (by have := congrArg Ref.cls e; simpa [GNode.ref] using this.symm))
    (by
      refine List.Pairwise.imp_of_mem ?_ (neighbors_nodup hd w.ref .has .networkService)
      intro a b _ _ hne hq
      rcases hq with h | h | h
      · exact hne (by injection h with _ h; exact h.symm)
      · cases h
      · cases h)
  have := Rm.lift (Q0 := fun x => x = w.ref) (s := u) (k0 := fun x => x != w.ref) (fun x hx => by simpa using hx) hloop
  refine this.mono ?_
  intro x hx
  rcases hx with h | ⟨b, _, h | h | h⟩
  · exact .inl h
  · exact .inr (.inl (by rw [h]))
  · exact .inr (.inr (.inl h))
  · exact .inr (.inr (.inr h))

def DelComp (c : GNode) (x : Ref) : Prop := x = c.ref ∨ Below x

theorem removeCompGraph_spec {u : Topo} (hd : IdsDistinct u) (hcp : CpEdgeOk u) {c : GNode} (hc : c ∈ u.nodes)
    (hcls : c.cls = .component) : Rm (DelComp c) u (removeCompGraph c.nid u) := by
  unfold removeCompGraph
  rw [bind_ok (findNode_of_mem hd hc), bind_ok (guard_run (by simp [hcls])), bind_ok (firstNeighbor_run hd hc .has .networkService)]
  exact dropThenNs_spec hd hcp hc (by rw [hcls]; intro h; cases h)

def DelNode (v : GNode) (x : Ref) : Prop := x = v.ref ∨ x.cls = .component ∨ Below x

theorem removeNodeGraph_spec {u : Topo} (hd : IdsDistinct u) (hcp : CpEdgeOk u) {v : GNode} (hv : v ∈ u.nodes)
    (hcls : v.cls = .networkNode) : Rm (DelNode v) u (removeNodeGraph v.nid u) := by
  unfold removeNodeGraph
  rw [bind_ok (findNode_of_mem hd hv), bind_ok (guard_run (by simp [hcls])), bind_ok (firstNeighbor_run hd hv .has .component)]
  have h1 := Rm.forEach (f := removeCompGraph) (s := u)
    (Qb := fun b x => x = ⟨.component, b⟩ ∨ Below x)
    (C := fun x => x.cls = .component ∨ Below x) (tgt := fun b => ⟨.component, b⟩)
    (by
      intro b x hx
      rcases hx with rfl | h
      · exact .inl rfl
      · exact .inr h)
    ((neighbors u v.ref .has .component).map (·.nid)) (fun _ => true)
    (by
      intro b hb k hk hkb
      obtain ⟨m, hm, rfl⟩ := List.mem_map.mp hb
      obtain ⟨hm1, hm2, _⟩ := mem_neighbors hm
      have hmr : m.ref = ⟨.component, m.nid⟩ := by simp [GNode.ref, hm2]
      have hmk : m ∈ (restrict k u).nodes := mem_restrict_nodes.mpr ⟨hm1, by rw [hmr]; exact hkb⟩
      refine (removeCompGraph_spec (idsDistinct_restrict hd k) (cpEdgeOk_restrict hcp k) hmk hm2).mono ?_
      intro x hx
      rw [← hmr]
      exact hx)
    (by intro x hx; cases hx)
    (by intro b _; rfl)
    (by
      refine List.Pairwise.imp_of_mem ?_ (neighbors_nodup hd v.ref .has .component)
      intro a b _ _ hne hq
      rcases hq with h | h | h | h
      · exact hne (by injection h with _ h; exact h.symm)
      · cases h
      · cases h
      · cases h)
  rw [restrict_true] at h1
  refine (Rm.bind_next h1 (Q2 := fun x => x = v.ref ∨ Below x) (fun k hk => ?_)).mono ?_
  · have hvk : v ∈ (restrict k u).nodes := by
      refine mem_restrict_nodes.mpr ⟨hv, ?_⟩
      cases h : k v.ref
      · obtain ⟨b, _, hb⟩ := hk _ h
        rcases hb with hb | hb | hb | hb
        · have := congrArg Ref.cls hb; simp [GNode.ref, hcls] at this
        · simp [GNode.ref, hcls] at hb
        · simp [GNode.ref, hcls] at hb
        · simp [GNode.ref, hcls] at hb
      · rfl
    rw [bind_ok (firstNeighbor_run (idsDistinct_restrict hd k) hvk .has .networkService)]
    exact dropThenNs_spec (idsDistinct_restrict hd k) (cpEdgeOk_restrict hcp k) hvk (by rw [hcls]; intro h; cases h)
  · intro x hx
    rcases hx with ⟨b, _, h | h⟩ | h | h
    · exact .inr (.inl (by rw [h]))
    · exact .inr (.inr h)
    · exact .inl h
    · exact .inr (.inr h)

/-! ### look-ups of the user layer, inverted -/

theorem Rm.fs {Q : Ref → Prop} {u s : Topo} {r : Except Err Unit × Topo} (h : Rm Q u r) : FS s r := by
  obtain ⟨k, hk, _⟩ := h
  rw [hk]; intro hf; simp at hf

theorem findByName_ok {cls : Cls} {name : String} {s s' : Topo} {n : GNode} (h : findByName cls name s = (.ok n, s')) :
    n ∈ s.nodes ∧ n.cls = cls ∧ n.name = name ∧ s' = s := by
  unfold findByName at h
  split at h
  · rename_i m hm
    simp only [Prod.mk.injEq, Except.ok.injEq] at h
    obtain ⟨h1, h2⟩ := h
    subst h1; subst h2
    have : m ∈ s.nodes.filter (fun n => n.cls == cls && n.name == name) := by rw [hm]; simp
    have := List.mem_filter.mp this
    simp only [Bool.and_eq_true, beq_iff_eq] at this
    exact ⟨this.1, this.2.1, this.2.2, rfl⟩
  · simp at h

theorem mapM'_findNode {s : Topo} (hd : IdsDistinct s) : ∀ (l : List GNode), (∀ m ∈ l, m ∈ s.nodes) →
    M.mapM' findNode (l.map (·.nid)) s = (.ok l, s) := by
  intro l
  induction l with
  | nil => intro _; rfl
  | cons x xs ih =>
    intro h
    simp only [List.map_cons, M.mapM', bind_apply, findNode_of_mem hd (h x (List.mem_cons_self ..)),
      ih (fun m hm => h m (List.mem_cons_of_mem _ hm)), pure_apply]

/-- `childrenOf` when it returns: the children are the neighbours, in storage order -/
theorem childrenOf_ok {s s' : Topo} (hd : IdsDistinct s) {p : Nid} {okCls : List Cls} {rel : Rel} {L : Cls} {l : List GNode}
    (h : childrenOf p okCls rel L s = (.ok l, s')) :
    ∃ pn ∈ s.nodes, pn.nid = p ∧ l = neighbors s pn.ref rel L ∧ s' = s := by
  unfold childrenOf at h
  bindinv h with pn t1 h1
  obtain ⟨hpn, hpi, rfl⟩ := findNode_ok h1
  bindinv h with u t2 h2
  have := ro_run (readOnly_guard _ _) h2; subst this
  subst hpi
  rw [bind_ok (firstNeighbor_run hd hpn rel L), mapM'_findNode hd _ (fun m hm => (mem_neighbors hm).1)] at h
  simp only [Prod.mk.injEq, Except.ok.injEq] at h
  exact ⟨pn, hpn, rfl, h.1.symm, h.2.symm⟩

/-- a ServicePort has no ConnectionPoint neighbour -/
def SpLeaf (s : Topo) : Prop :=
  ∀ n ∈ s.nodes, n.typ = "ServicePort" → ∀ e ∈ s.edges,
    (e.a = n.ref → e.b.cls ≠ .connectionPoint) ∧ (e.b = n.ref → e.a.cls ≠ .connectionPoint)

instance (s : Topo) : Decidable (SpLeaf s) := by unfold SpLeaf; infer_instance

theorem spLeaf_no_cp {u : Topo} (hsl : SpLeaf u) {b : GNode} (hb : b ∈ u.nodes) (ht : b.typ = "ServicePort") {x : Ref}
    (hx : x.cls = .connectionPoint) {rel : Rel} : adjacent u b.ref x rel = true → False := by
  intro hadj
  rw [adjacent_iff] at hadj
  obtain ⟨e, he, _, hs⟩ := hadj
  rw [sameEnds_iff] at hs
  rcases hs with ⟨h1, h2⟩ | ⟨h1, h2⟩
  · exact (hsl b hb ht e he).1 h1 (by rw [h2]; exact hx)
  · exact (hsl b hb ht e he).2 h2 (by rw [h1]; exact hx)

/-- a loop of `remove_cp_and_links` over distinct ServicePorts of the model -/
theorem removeSps_spec {u : Topo} (hd : IdsDistinct u) (hsl : SpLeaf u) (sps : List GNode) (hnd : (sps.map (·.nid)).Nodup)
    (hin : ∀ m ∈ sps, m ∈ u.nodes ∧ m.cls = .connectionPoint ∧ m.typ = "ServicePort")
    (k0 : Ref → Bool) (hk0 : ∀ x, k0 x = false → x.cls = .link) :
    Rm (fun x => x.cls = .connectionPoint ∨ x.cls = .link) (restrict k0 u)
      (M.forEach sps (fun sp => removeCpAndLinks sp.nid true) (restrict k0 u)) := by
  have hloop := Rm.forEach (f := fun sp : GNode => removeCpAndLinks sp.nid true) (s := u)
    (Qb := fun b x => (x = b.ref ∧ x.cls = .connectionPoint) ∨ x.cls = .link)
    (C := fun x => x.cls = .connectionPoint ∨ x.cls = .link) (tgt := fun b => b.ref)
    (by
      intro b x hx
      rcases hx with ⟨_, h⟩ | h
      · exact .inl h
      · exact .inr h)
    sps k0
    (by
      intro b hb k hk hkb
      obtain ⟨hb1, hb2, hb3⟩ := hin b hb
      have hmk : b ∈ (restrict k u).nodes := mem_restrict_nodes.mpr ⟨hb1, hkb⟩
      refine (removeCpAndLinks_spec (idsDistinct_restrict hd k) hmk true).mono ?_
      intro x hx
      rcases hx with h | ⟨h1, h2⟩ | h
      · exact .inl ⟨h, by rw [h]; simp [GNode.ref, hb2]⟩
      · exact (spLeaf_no_cp hsl hb1 hb3 h1 (adjacent_restrict h2)).elim
      · exact .inr h)
    (by intro x hx; exact .inr (hk0 x hx))
    (by
      intro b hb
      cases h : k0 b.ref
      · have := hk0 _ h; simp [GNode.ref, (hin b hb).2.1] at this
      · rfl)
    (by
      have hnd' : List.Pairwise (fun a b : GNode => a.nid ≠ b.nid) sps := List.pairwise_map.mp hnd
      refine List.Pairwise.imp_of_mem ?_ hnd'
      intro a b _ hb hne hq
      rcases hq with ⟨h, _⟩ | h
      · exact hne (nid_of_ref_eq h).symm
      · simp [GNode.ref, (hin b hb).2.1] at h)
  refine hloop.mono ?_
  intro x ⟨b, _, hq⟩
  rcases hq with ⟨_, h⟩ | h
  · exact .inl h
  · exact .inr h

end FimVerif.Topo
