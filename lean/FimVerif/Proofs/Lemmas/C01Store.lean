import FimVerif.Model.GraphML
import FimVerif.Proofs.Lemmas.C01Iter
/-! Store-level lemmas for C01: what `extract_graph` sees after `add_graph` / `add_graph_direct`. -/
namespace FimVerif.C01
open FimVerif.GraphML

/-- the store invariant: internal ids distinct and below `start_id`, edge endpoints are stored nodes -/
def StoreInv (s : Store) : Prop :=
  (s.nodes.map (·.iid)).Nodup ∧ (∀ n ∈ s.nodes, n.iid < s.nextId) ∧
  (∀ e ∈ s.edges, e.a ∈ s.nodes.map (·.iid) ∧ e.b ∈ s.nodes.map (·.iid))

theorem StoreInv.edge_lt {s : Store} (h : StoreInv s) : ∀ e ∈ s.edges, e.a < s.nextId ∧ e.b < s.nextId := by
  intro e he
  obtain ⟨ha, hb⟩ := h.2.2 e he
  obtain ⟨n, hn, hna⟩ := List.mem_map.mp ha
  obtain ⟨m, hm, hmb⟩ := List.mem_map.mp hb
  exact ⟨hna ▸ h.2.1 n hn, hmb ▸ h.2.1 m hm⟩

theorem Attrs.get_set (a : Attrs) (k : String) (v : Val) : (Attrs.set a k v).get? k = some v := by
  induction a with
  | nil => simp [Attrs.set, Attrs.get?]
  | cons p t ih =>
    obtain ⟨k', v'⟩ := p
    by_cases h : k' = k
    · simp [Attrs.set, h, Attrs.get?]
    · have hb : (k == k') = false := by simpa using fun e : k = k' => h e.symm
      simp only [Attrs.set, h, if_false, Attrs.get?, List.lookup_cons, hb]
      exact ih

/-- where the theorems meet the generated relabelling offsets: the shared store numbers an imported graph from its
    `start_id`, the disjoint store from 1 (`gen/serial.py` reads `first_label` out of `add_graph` / `add_graph_direct`) -/
@[simp] theorem sharedFirst_eval (n : Nat) : Gen.Serial.sharedFirstLabel.eval n = n := rfl
@[simp] theorem disjointFirst_eval (n : Nat) : Gen.Serial.disjointFirstLabel.eval n = 1 := rfl
theorem initialStartId_pos : 0 < Gen.Serial.initialStartId := by decide

variable {κ : Type} [DecidableEq κ]

theorem idxOf_inj (ks : List κ) : ∀ x ∈ ks, ∀ y ∈ ks, ks.idxOf x = ks.idxOf y → x = y := by
  intro x hx y hy h
  have h1 := List.getElem_idxOf (List.idxOf_lt_length_of_mem hx)
  have h2 := List.getElem_idxOf (List.idxOf_lt_length_of_mem hy)
  rw [← h1, ← h2]
  simp [h]

/-- the nodes of `g` after deleting `g` : none -/
theorem delGraph_graphNodes (s : Store) (g : Val) : (s.delGraph g).graphNodes g = [] := by
  simp [Store.delGraph, Store.graphNodes, List.filter_filter]

theorem delGraph_nextId (s : Store) (g : Val) : (s.delGraph g).nextId = s.nextId := rfl

theorem delGraph_lt (s : Store) (g : Val) (h : StoreInv s) :
    (∀ n ∈ (s.delGraph g).nodes, n.iid < s.nextId) ∧ (∀ e ∈ (s.delGraph g).edges, e.a < s.nextId ∧ e.b < s.nextId) := by
  constructor
  · intro n hn
    exact h.2.1 n ((List.mem_filter.mp hn).1)
  · intro e he
    exact h.edge_lt e ((List.mem_filter.mp he).1)

/-- what `extract_graph g` returns for a store obtained by appending to `s1` (which has no node of
    `g` and only ids below `start`) a block of nodes all tagged `g` with ids from `start` on and
    edges among them that are already in iteration order -/
theorem extract_merge (s1 : Store) (g : Val) (newNodes : List (Nat × Attrs)) (newEdges : List (Edge Nat))
    (hno : s1.graphNodes g = [])
    (hlt : (∀ n ∈ s1.nodes, n.iid < s1.nextId) ∧ (∀ e ∈ s1.edges, e.a < s1.nextId ∧ e.b < s1.nextId))
    (hne : newNodes ≠ [])
    (htag : ∀ p ∈ newNodes, p.2.get? "GraphID" = some g)
    (hge : ∀ p ∈ newNodes, s1.nextId ≤ p.1)
    (hend : ∀ e ∈ newEdges, e.a ∈ newNodes.map (·.1) ∧ e.b ∈ newNodes.map (·.1))
    (hiter : iterFrom newEdges [] (newNodes.map (·.1)) = newEdges) (k : Nat) :
    (Store.extract ⟨s1.nodes ++ newNodes.map (fun p => ⟨p.1, p.2⟩), s1.edges ++ newEdges, k⟩ g)
      = some ⟨newNodes, newEdges⟩ := by
  have hgn : Store.graphNodes ⟨s1.nodes ++ newNodes.map (fun p => (⟨p.1, p.2⟩ : SNode)), s1.edges ++ newEdges, k⟩ g
      = newNodes.map (fun p => (⟨p.1, p.2⟩ : SNode)) := by
    simp only [Store.graphNodes, List.filter_append]
    have : s1.nodes.filter (Store.inGraph g) = [] := hno
    rw [this, List.nil_append, List.filter_eq_self]
    intro n hn
    obtain ⟨p, hp, rfl⟩ := List.mem_map.mp hn
    simp [Store.inGraph, htag p hp]
  unfold Store.extract
  simp only [hgn]
  have hne' : (newNodes.map (fun p => (⟨p.1, p.2⟩ : SNode))).isEmpty = false := by
    cases newNodes with
    | nil => exact absurd rfl hne
    | cons a t => rfl
  simp only [hne', Bool.false_eq_true, if_false, List.map_map]
  have hids : (newNodes.map ((fun n : SNode => n.iid) ∘ fun p => (⟨p.1, p.2⟩ : SNode))) = newNodes.map (·.1) := by
    apply List.map_congr_left; intro p _; rfl
  have hnodes : (newNodes.map ((fun n : SNode => (n.iid, n.attrs)) ∘ fun p => (⟨p.1, p.2⟩ : SNode))) = newNodes := by
    have : ((fun n : SNode => (n.iid, n.attrs)) ∘ fun p : Nat × Attrs => (⟨p.1, p.2⟩ : SNode)) = id := by
      funext p; rfl
    rw [this, List.map_id]
  rw [hids, hnodes]
  have hfil : (s1.edges ++ newEdges).filter (fun e => (newNodes.map (·.1)).contains e.a && (newNodes.map (·.1)).contains e.b)
      = newEdges := by
    rw [List.filter_append]
    have h1 : s1.edges.filter (fun e => (newNodes.map (·.1)).contains e.a && (newNodes.map (·.1)).contains e.b) = [] := by
      rw [List.filter_eq_nil_iff]
      intro e he
      have hl := (hlt.2 e he).1
      simp only [Bool.and_eq_true, List.contains_eq_mem, decide_eq_true_eq, not_and]
      intro hm
      obtain ⟨p, hp, hpe⟩ := List.mem_map.mp hm
      have := hge p hp
      omega
    have h2 : newEdges.filter (fun e => (newNodes.map (·.1)).contains e.a && (newNodes.map (·.1)).contains e.b) = newEdges := by
      rw [List.filter_eq_self]
      intro e he
      obtain ⟨ha, hb⟩ := hend e he
      simp [ha, hb]
    rw [h1, h2, List.nil_append]
  rw [hfil, hiter]

theorem eq_of_nodup_iid : ∀ (l : List SNode), (l.map (·.iid)).Nodup → ∀ n ∈ l, ∀ m ∈ l, n.iid = m.iid → n = m
  | [], _, n, hn, _, _, _ => by cases hn
  | x :: t, h, n, hn, m, hm, e => by
    simp only [List.map_cons, List.nodup_cons] at h
    rcases List.mem_cons.mp hn with rfl | hn'
    · rcases List.mem_cons.mp hm with rfl | hm'
      · rfl
      · exact absurd (e ▸ List.mem_map_of_mem (f := (·.iid)) hm') h.1
    · rcases List.mem_cons.mp hm with rfl | hm'
      · exact absurd (e ▸ List.mem_map_of_mem (f := (·.iid)) hn') h.1
      · exact eq_of_nodup_iid t h.2 n hn' m hm' e

/-- appending nodes that are not tagged `g`, and edges that do not touch the nodes of `g`, does not
    change what `extract_graph g` returns -/
theorem extract_append_other (s1 : Store) (g : Val) (newNodes : List SNode) (newEdges : List (Edge Nat))
    (htag : ∀ n ∈ newNodes, n.attrs.get? "GraphID" ≠ some g)
    (hfar : ∀ e ∈ newEdges, e.a ∉ (s1.graphNodes g).map (·.iid)) (k : Nat) :
    Store.extract ⟨s1.nodes ++ newNodes, s1.edges ++ newEdges, k⟩ g = s1.extract g := by
  have hgn : Store.graphNodes ⟨s1.nodes ++ newNodes, s1.edges ++ newEdges, k⟩ g = s1.graphNodes g := by
    simp only [Store.graphNodes, List.filter_append]
    have : newNodes.filter (Store.inGraph g) = [] := by
      rw [List.filter_eq_nil_iff]
      intro n hn
      simpa [Store.inGraph] using htag n hn
    rw [this, List.append_nil]
  unfold Store.extract
  simp only [hgn]
  have hfil : ∀ ids : List Nat, ids = (s1.graphNodes g).map (·.iid) →
      (s1.edges ++ newEdges).filter (fun e => ids.contains e.a && ids.contains e.b)
        = s1.edges.filter (fun e => ids.contains e.a && ids.contains e.b) := by
    intro ids hids
    rw [List.filter_append]
    have : newEdges.filter (fun e => ids.contains e.a && ids.contains e.b) = [] := by
      rw [List.filter_eq_nil_iff]
      intro e he
      have := hfar e he
      rw [← hids] at this
      simp [this]
    rw [this, List.append_nil]
  rw [hfil _ rfl]

/-- deleting graph `g'` does not change what `extract_graph g` returns for `g ≠ g'` -/
theorem extract_delGraph_other (s : Store) (hs : StoreInv s) (g g' : Val) (hne : g ≠ g') :
    (s.delGraph g').extract g = s.extract g := by
  have hgn : (s.delGraph g').graphNodes g = s.graphNodes g := by
    simp only [Store.delGraph, Store.graphNodes, List.filter_filter]
    apply List.filter_congr
    intro n _
    by_cases h : Store.inGraph g n = true
    · have : Store.inGraph g' n = false := by
        simp only [Store.inGraph, beq_iff_eq] at h
        simp only [Store.inGraph, h, beq_eq_false_iff_ne, ne_eq, Option.some.injEq]
        exact hne
      simp [h, this]
    · simp [h]
  unfold Store.extract
  simp only [hgn]
  have hfil : ∀ ids : List Nat, ids = (s.graphNodes g).map (·.iid) →
      (s.delGraph g').edges.filter (fun e => ids.contains e.a && ids.contains e.b)
        = s.edges.filter (fun e => ids.contains e.a && ids.contains e.b) := by
    intro ids hids
    simp only [Store.delGraph, List.filter_filter]
    apply List.filter_congr
    intro e _
    have key : ∀ x, x ∈ ids → x ∉ (s.graphNodes g').map (·.iid) := by
      intro x hx hx'
      rw [hids] at hx
      obtain ⟨n, hn, rfl⟩ := List.mem_map.mp hx
      obtain ⟨m, hm, hmn⟩ := List.mem_map.mp hx'
      have hn' := List.mem_filter.mp hn
      have hm' := List.mem_filter.mp hm
      have := eq_of_nodup_iid s.nodes hs.1 m hm'.1 n hn'.1 hmn
      subst this
      have h1 := hn'.2
      have h2 := hm'.2
      simp only [Store.inGraph, beq_iff_eq] at h1 h2
      rw [h1] at h2
      exact hne (Option.some.inj h2)
    by_cases ha : e.a ∈ ids
    · by_cases hb : e.b ∈ ids
      · simp [ha, hb, key _ ha, key _ hb]
      · simp [hb]
    · simp [ha]
  rw [hfil _ rfl]

end FimVerif.C01
