import FimVerif.Model.GraphML
/-! `G.edges(data=True)` (`iterFrom`) is idempotent and commutes with injective relabelling. -/
namespace FimVerif.C01
open FimVerif.GraphML

variable {κ : Type} [DecidableEq κ]

theorem adj_append (l1 l2 : List (Edge κ)) (u : κ) : adj (l1 ++ l2) u = adj l1 u ++ adj l2 u := by
  simp [adj, List.filterMap_append]

theorem block_append (l1 l2 : List (Edge κ)) (seen : List κ) (u : κ) :
    block (l1 ++ l2) seen u = block l1 seen u ++ block l2 seen u := by
  simp [block, adj_append, List.filterMap_append]

theorem block_cons (e : Edge κ) (l : List (Edge κ)) (seen : List κ) (u : κ) :
    block (e :: l) seen u = block [e] seen u ++ block l seen u := by
  have := block_append [e] l seen u
  simpa using this

/-- edges that start at `u` and end outside `seen` are reported unchanged while visiting `u` -/
theorem block_self (seen : List κ) (u : κ) : ∀ (l : List (Edge κ)), (∀ e ∈ l, e.a = u ∧ e.b ∉ seen) → block l seen u = l
  | [], _ => rfl
  | e :: t, h => by
    rw [block_cons, block_self seen u t (fun x hx => h x (List.mem_cons_of_mem _ hx))]
    obtain ⟨ha, hb⟩ := h e List.mem_cons_self
    obtain ⟨a, b, at'⟩ := e
    simp only at ha hb
    subst ha
    simp [block, adj, hb]

/-- edges not touching `u`, or coming from an already seen node, are not reported while visiting `u` -/
theorem block_nil (seen : List κ) (u : κ) : ∀ (l : List (Edge κ)),
    (∀ e ∈ l, e.a ≠ u ∧ (e.b = u → e.a ∈ seen)) → block l seen u = []
  | [], _ => rfl
  | e :: t, h => by
    rw [block_cons, block_nil seen u t (fun x hx => h x (List.mem_cons_of_mem _ hx))]
    obtain ⟨ha, hb⟩ := h e List.mem_cons_self
    obtain ⟨a, b, at'⟩ := e
    simp only at ha hb
    by_cases hbu : b = u
    · simp [block, adj, ha, hbu, hb hbu]
    · simp [block, adj, ha, hbu]

theorem mem_block (es : List (Edge κ)) (seen : List κ) (u : κ) (e : Edge κ) (h : e ∈ block es seen u) :
    e.a = u ∧ e.b ∉ seen ∧ ∃ e0 ∈ es, e.attrs = e0.attrs ∧ ((e0.a = e.a ∧ e0.b = e.b) ∨ (e0.b = e.a ∧ e0.a = e.b)) := by
  unfold block adj at h
  simp only [List.mem_filterMap] at h
  obtain ⟨p, ⟨e0, he0, hp⟩, hpe⟩ := h
  by_cases hs : p.1 ∈ seen
  · simp [hs] at hpe
  · simp [hs] at hpe
    subst hpe
    by_cases h1 : e0.a = u
    · simp [h1] at hp
      subst hp
      exact ⟨rfl, hs, e0, he0, rfl, Or.inl ⟨h1, rfl⟩⟩
    · by_cases h2 : e0.b = u
      · simp [h1, h2] at hp
        subst hp
        exact ⟨rfl, hs, e0, he0, rfl, Or.inr ⟨h2, rfl⟩⟩
      · simp [h1, h2] at hp

theorem mem_iterFrom (es : List (Edge κ)) : ∀ (rest seen : List κ) (e : Edge κ), e ∈ iterFrom es seen rest →
    e.a ∈ rest ∧ e.b ∉ seen ∧ ∃ e0 ∈ es, e.attrs = e0.attrs ∧ ((e0.a = e.a ∧ e0.b = e.b) ∨ (e0.b = e.a ∧ e0.a = e.b))
  | [], _, _, h => by simp [iterFrom] at h
  | u :: r, seen, e, h => by
    simp only [iterFrom, List.mem_append] at h
    rcases h with h | h
    · obtain ⟨h1, h2, h3⟩ := mem_block es seen u e h
      exact ⟨h1 ▸ List.mem_cons_self, h2, h3⟩
    · obtain ⟨h1, h2, h3⟩ := mem_iterFrom es r (u :: seen) e h
      exact ⟨List.mem_cons_of_mem _ h1, fun hb => h2 (List.mem_cons_of_mem _ hb), h3⟩

theorem iter_idem_gen (es : List (Edge κ)) : ∀ (rest seen : List κ) (pre : List (Edge κ)),
    (∀ e ∈ pre, e.a ∈ seen) → rest.Nodup → (∀ x ∈ rest, x ∉ seen) →
    iterFrom (pre ++ iterFrom es seen rest) seen rest = iterFrom es seen rest
  | [], _, _, _, _, _ => by simp [iterFrom]
  | u :: r, seen, pre, hpre, hnd, hdis => by
    have hu : u ∉ seen := hdis u List.mem_cons_self
    have hnd' := List.nodup_cons.mp hnd
    simp only [iterFrom]
    have hB : ∀ e ∈ block es seen u, e.a = u ∧ e.b ∉ seen := fun e he =>
      let ⟨h1, h2, _⟩ := mem_block es seen u e he; ⟨h1, h2⟩
    have hR : ∀ e ∈ iterFrom es (u :: seen) r, e.a ≠ u ∧ (e.b = u → e.a ∈ seen) := by
      intro e he
      obtain ⟨h1, h2, _⟩ := mem_iterFrom es r (u :: seen) e he
      refine ⟨fun h => hnd'.1 (h ▸ h1), fun hb => ?_⟩
      exact absurd (hb ▸ List.mem_cons_self) h2
    have hP : ∀ e ∈ pre, e.a ≠ u ∧ (e.b = u → e.a ∈ seen) :=
      fun e he => ⟨fun h => hu (h ▸ hpre e he), fun _ => hpre e he⟩
    have e1 : block (pre ++ (block es seen u ++ iterFrom es (u :: seen) r)) seen u = block es seen u := by
      rw [block_append, block_append, block_nil seen u pre hP, block_self seen u _ hB,
        block_nil seen u _ hR]
      simp
    rw [e1]
    congr 1
    have ih := iter_idem_gen es r (u :: seen) (pre ++ block es seen u)
      (by
        intro e he
        rcases List.mem_append.mp he with h | h
        · exact List.mem_cons_of_mem _ (hpre e h)
        · rw [(hB e h).1]; exact List.mem_cons_self)
      hnd'.2
      (by
        intro x hx hxs
        rcases List.mem_cons.mp hxs with h | h
        · exact hnd'.1 (h ▸ hx)
        · exact hdis x (List.mem_cons_of_mem _ hx) h)
    rw [List.append_assoc] at ih
    exact ih

/-- `G.edges()` of a graph whose edge list is already an iteration is that list -/
theorem iter_idem (es : List (Edge κ)) (ks : List κ) (h : ks.Nodup) :
    iterFrom (iterFrom es [] ks) [] ks = iterFrom es [] ks := by
  have := iter_idem_gen es ks [] [] (by simp) h (by simp)
  simpa using this

/-! ### relabelling -/

def ren {κ' : Type} (f : κ → κ') (e : Edge κ) : Edge κ' := ⟨f e.a, f e.b, e.attrs⟩

theorem block_map {κ' : Type} [DecidableEq κ'] (f : κ → κ') (S : List κ)
    (hinj : ∀ x ∈ S, ∀ y ∈ S, f x = f y → x = y) (seen : List κ) (u : κ) (hu : u ∈ S) (hseen : ∀ x ∈ seen, x ∈ S) :
    ∀ (es : List (Edge κ)), (∀ e ∈ es, e.a ∈ S ∧ e.b ∈ S) →
    block (es.map (ren f)) (seen.map f) (f u) = (block es seen u).map (ren f)
  | [], _ => rfl
  | e :: t, h => by
    rw [List.map_cons, block_cons, block_cons e t, List.map_append,
      block_map f S hinj seen u hu hseen t (fun x hx => h x (List.mem_cons_of_mem _ hx))]
    congr 1
    obtain ⟨ha, hb⟩ := h e List.mem_cons_self
    obtain ⟨a, b, at'⟩ := e
    simp only at ha hb
    have mem_iff : ∀ v ∈ S, (f v ∈ seen.map f ↔ v ∈ seen) := by
      intro v hv
      constructor
      · intro hm
        obtain ⟨w, hw, hfw⟩ := List.mem_map.mp hm
        exact (hinj w (hseen w hw) v hv hfw) ▸ hw
      · exact fun hm => List.mem_map_of_mem hm
    have eq_iff : ∀ v ∈ S, (f v = f u ↔ v = u) := fun v hv => ⟨fun h => hinj v hv u hu h, fun h => h ▸ rfl⟩
    have mem_iff' : ∀ v ∈ S, ((∃ x, x ∈ seen ∧ f x = f v) ↔ v ∈ seen) := by
      intro v hv
      have := mem_iff v hv
      simpa [List.mem_map] using this
    by_cases h1 : a = u
    · subst h1
      by_cases hs : b ∈ seen
      · simp [block, adj, ren, hs, (mem_iff' b hb).mpr hs]
      · have : ¬ (∃ x, x ∈ seen ∧ f x = f b) := fun hm => hs ((mem_iff' b hb).mp hm)
        simp [block, adj, ren, hs, this]
    · have h1' : ¬ f a = f u := fun h => h1 ((eq_iff a ha).mp h)
      by_cases h2 : b = u
      · subst h2
        by_cases hs : a ∈ seen
        · simp [block, adj, ren, h1, h1', hs, (mem_iff' a ha).mpr hs]
        · have : ¬ (∃ x, x ∈ seen ∧ f x = f a) := fun hm => hs ((mem_iff' a ha).mp hm)
          simp [block, adj, ren, h1, h1', hs, this]
      · have h2' : ¬ f b = f u := fun h => h2 ((eq_iff b hb).mp h)
        simp [block, adj, ren, h1, h1', h2, h2']

theorem iterFrom_map {κ' : Type} [DecidableEq κ'] (f : κ → κ') (S : List κ)
    (hinj : ∀ x ∈ S, ∀ y ∈ S, f x = f y → x = y) (es : List (Edge κ)) (hes : ∀ e ∈ es, e.a ∈ S ∧ e.b ∈ S) :
    ∀ (rest seen : List κ), (∀ x ∈ rest, x ∈ S) → (∀ x ∈ seen, x ∈ S) →
    iterFrom (es.map (ren f)) (seen.map f) (rest.map f) = (iterFrom es seen rest).map (ren f)
  | [], _, _, _ => by simp [iterFrom]
  | u :: r, seen, hr, hs => by
    simp only [List.map_cons, iterFrom, List.map_append]
    rw [block_map f S hinj seen u (hr u List.mem_cons_self) hs es hes]
    congr 1
    have := iterFrom_map f S hinj es hes r (u :: seen) (fun x hx => hr x (List.mem_cons_of_mem _ hx))
      (by
        intro x hx
        rcases List.mem_cons.mp hx with h | h
        · exact h ▸ hr u List.mem_cons_self
        · exact hs x h)
    simpa using this

end FimVerif.C01
