import FimVerif.Proofs.Lemmas.StoreInv
/-! C04 on the one-graph-per-id store: invariant and frame. Core only. -/
namespace FimVerif.DStore
open FimVerif FimVerif.Store FimVerif.Gen.StoreConsts

/-- every stored graph satisfies the shared-store invariant on its own: within one graph internal ids
    are distinct and below that graph's counter (a node's identity is the pair (graph key, id)) -/
def Inv (d : DStore) : Prop := ∀ g, Store.Inv (sub d g)

theorem inv_empty (n : Nat) : Store.Inv ⟨[], [], n⟩ := by simp [Store.Inv]

theorem inv_init : Inv init := by
  intro g; simp only [sub, init, AMap.get]; exact inv_empty _

theorem sub_put_eq (d : DStore) (g : String) (st : Store) : sub (put d g st) g = st := by
  simp [sub, put, AMap.get_set_eq]

theorem sub_put_ne (d : DStore) (g g' : String) (st : Store) (h : g' ≠ g) : sub (put d g st) g' = sub d g' := by
  simp [sub, put, AMap.get_set_ne _ _ _ _ h]

theorem inv_put (d : DStore) (g : String) (st : Store) (h : Inv d) (hs : Store.Inv st) : Inv (put d g st) := by
  intro g'
  by_cases e : g' = g
  · subst e; rw [sub_put_eq]; exact hs
  · rw [sub_put_ne d g g' st e]; exact h g'

theorem extractGraph_wf (d : DStore) (h : Inv d) (g : String) : (extractGraph d g).WF = true := by
  simp only [extractGraph, IGraph.WF, List.all_eq_true, List.mem_map, Bool.and_eq_true, decide_eq_true_eq, List.length_map]
  rintro e ⟨e0, he0, rfl⟩
  have := (h g).2.2 e0 he0
  exact ⟨Store.posOf_lt _ _ this.1, Store.posOf_lt _ _ this.2⟩

theorem inv_addGraph (d : DStore) (g : String) (ig : IGraph) (h : Inv d) (hwf : ig.WF = true) : Inv (addGraph g ig d).2 := by
  unfold addGraph
  split
  · exact h
  · split
    · exact h
    · refine inv_put d g _ h (Store.inv_appendGraph _ _ _ (inv_empty 1) ?_)
      intro e he
      simp only [IGraph.WF, List.all_eq_true, Bool.and_eq_true, decide_eq_true_eq] at hwf
      simpa using hwf e he

theorem sub_delAll (d : DStore) (g : String) : sub ⟨[], d.ids⟩ g = ⟨[], [], (AMap.get g d.ids).getD 1⟩ := by
  simp [sub, AMap.get]

theorem inv_step (op : Op) (d : DStore) (h : Inv d) : Inv (step op d).2 := by
  have lifted : ∀ (o : Op), Inv (lift o.target (Store.step o) d).2 :=
    fun o => inv_put d _ _ h (Store.inv_step o _ (h _))
  have hwf : True := trivial
  cases op with
  | addGraph g ig => exact inv_addGraph d g ig.close h ig.close_WF
  | delAllGraphs => intro g; simp only [step, delAllGraphs]; exact inv_empty _
  | addGraphDirect g ig =>
    refine inv_put d g _ h (Store.inv_appendGraph _ _ _ (inv_empty 1) ?_)
    intro e he
    have hwf := ig.close_WF
    simp only [IGraph.WF, List.all_eq_true, Bool.and_eq_true, decide_eq_true_eq] at hwf
    exact hwf e he
  | deleteGraph g => exact inv_put d g _ h (inv_empty _)
  | clone g g2 => exact inv_addGraph d g2 _ h (extractGraph_wf d h g)
  | mergeNodes g nid g2 pol => exact h
  | findMatchingNodes g other =>
    simp only [step, findMatchingNodes]
    split
    · exact h
    · split <;> exact h
    · exact h
  | addNode g nid label props => exact lifted _
  | deleteNode g nid => exact lifted _
  | addLink g a rel b props => exact lifted _
  | updateNodeProperty g nid k v => exact lifted _
  | unsetNodeProperty g nid k => exact lifted _
  | updateNodesProperty g k v => exact lifted _
  | updateNodeProperties g nid props => exact lifted _
  | updateLinkProperty g a b kind k v => exact lifted _
  | unsetLinkProperty g a b kind k => exact lifted _
  | updateLinkProperties g a b kind props => exact lifted _
  | getNodeProperties g nid => exact lifted _
  | getLinkProperties g a b => exact lifted _
  | listAllNodeIds g => exact lifted _
  | nodesByClass g label => exact lifted _
  | nodesByClassAndType g label ntype => exact lifted _
  | nodeExists g nid label => exact lifted _
  | graphExists g => exact lifted _
  | checkNodeUnique g label name => exact lifted _

theorem frame_addGraph (d : DStore) (g g' : String) (ig : IGraph) (hne : g' ≠ g) : sub (addGraph g ig d).2 g' = sub d g' := by
  unfold addGraph
  split
  · rfl
  · split
    · rfl
    · exact sub_put_ne d g g' _ hne

theorem frame_step (op : Op) (d : DStore) (g' : String) (hne : g' ≠ op.target) (hall : op.isDelAll = false) :
    sub (step op d).2 g' = sub d g' := by
  have lifted : ∀ (o : Op), g' ≠ o.target → sub (lift o.target (Store.step o) d).2 g' = sub d g' :=
    fun o ho => sub_put_ne d _ g' _ ho
  cases op with
  | delAllGraphs => simp [Op.isDelAll] at hall
  | addGraph g ig => exact frame_addGraph d g g' ig.close hne
  | addGraphDirect g ig => exact sub_put_ne d g g' _ hne
  | deleteGraph g => exact sub_put_ne d g g' _ hne
  | clone g g2 => exact frame_addGraph d g2 g' _ hne
  | mergeNodes g nid g2 pol => rfl
  | findMatchingNodes g other =>
    simp only [step, findMatchingNodes]
    split
    · rfl
    · split <;> rfl
    · rfl
  | addNode g nid label props => exact lifted _ hne
  | deleteNode g nid => exact lifted _ hne
  | addLink g a rel b props => exact lifted _ hne
  | updateNodeProperty g nid k v => exact lifted _ hne
  | unsetNodeProperty g nid k => exact lifted _ hne
  | updateNodesProperty g k v => exact lifted _ hne
  | updateNodeProperties g nid props => exact lifted _ hne
  | updateLinkProperty g a b kind k v => exact lifted _ hne
  | unsetLinkProperty g a b kind k => exact lifted _ hne
  | updateLinkProperties g a b kind props => exact lifted _ hne
  | getNodeProperties g nid => exact lifted _ hne
  | getLinkProperties g a b => exact lifted _ hne
  | listAllNodeIds g => exact lifted _ hne
  | nodesByClass g label => exact lifted _ hne
  | nodesByClassAndType g label ntype => exact lifted _ hne
  | nodeExists g nid label => exact lifted _ hne
  | graphExists g => exact lifted _ hne
  | checkNodeUnique g label name => exact lifted _ hne

end FimVerif.DStore
