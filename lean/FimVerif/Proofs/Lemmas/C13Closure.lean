import FimVerif.Proofs.Lemmas.C13Basic
/-! Helper lemmas for C13: adjacency, the two-hop query, closure of the keep set. -/
namespace FimVerif.Arm

/-- `y` is a neighbour of `x` over an edge of relation `r` -/
def G.adj (g : G) (x y r : String) : Prop := (y, r) ∈ g.nbrs x

theorem G.adj_iff {g : G} {x y r : String} :
    g.adj x y r ↔ ∃ e ∈ g.edges, e.rel = r ∧ ((e.a = x ∧ e.b = y) ∨ (e.b = x ∧ e.a = y)) := by
  unfold G.adj G.nbrs
  simp only [List.mem_filterMap]
  constructor
  · rintro ⟨e, he, h⟩
    refine ⟨e, he, ?_⟩
    by_cases h1 : e.a = x
    · simp [h1] at h; exact ⟨h.2, Or.inl ⟨h1, h.1⟩⟩
    · by_cases h2 : e.b = x
      · simp [h1, h2] at h; exact ⟨h.2, Or.inr ⟨h2, h.1⟩⟩
      · simp [h1, h2] at h
  · rintro ⟨e, he, hr, h | h⟩
    · exact ⟨e, he, by simp [h.1, h.2, hr]⟩
    · refine ⟨e, he, ?_⟩
      by_cases h1 : e.a = x
      · have : e.b = y := by rw [h.1, ← h1, h.2]
        simp [h1, this, hr]
      · rcases h with ⟨hb, ha⟩
        have h1' : ¬ y = x := by rw [← ha]; exact h1
        simp [ha, hb, hr, h1']

theorem G.adj_of_edge {g : G} {e : Edge} (he : e ∈ g.edges) :
    g.adj e.a e.b e.rel ∧ g.adj e.b e.a e.rel := by
  constructor
  · exact G.adj_iff.2 ⟨e, he, rfl, Or.inl ⟨rfl, rfl⟩⟩
  · exact G.adj_iff.2 ⟨e, he, rfl, Or.inr ⟨rfl, rfl⟩⟩

theorem G.adj_symm {g : G} {x y r : String} (h : g.adj x y r) : g.adj y x r := by
  rw [G.adj_iff] at h ⊢
  rcases h with ⟨e, he, hr, h | h⟩
  · exact ⟨e, he, hr, Or.inr ⟨h.2, h.1⟩⟩
  · exact ⟨e, he, hr, Or.inl ⟨h.2, h.1⟩⟩

theorem mem_firstHop {g : G} {x n : String} {t : Trace} :
    n ∈ firstHop g x t ↔ g.adj x n t.rel1 ∧ g.hasCls n t.l1 = true := by
  unfold firstHop G.adj
  simp only [List.mem_filter, List.mem_map]
  constructor
  · rintro ⟨⟨⟨a, r⟩, ⟨hm, hr⟩, rfl⟩, hc⟩
    have : r = t.rel1 := by simpa using hr
    subst this; exact ⟨hm, hc⟩
  · rintro ⟨hm, hc⟩
    exact ⟨⟨(n, t.rel1), ⟨hm, by simp⟩, rfl⟩, hc⟩

theorem not_mem_dropList {dropsK : Bool} {g : G} {n k : String} {t : Trace}
    (hkn : k ≠ n) (hsimple : ∀ r, g.adj n k r → r = t.rel2) : k ∉ dropList dropsK g n t := by
  unfold dropList
  cases dropsK with
  | true =>
    simp only [if_true, List.mem_map, List.mem_filter]
    rintro ⟨⟨k', r⟩, ⟨hm, hr⟩, rfl⟩
    have := hsimple r hm
    simp [this] at hr
  | false =>
    simp only [Bool.false_eq_true, if_false]
    split <;> simp [hkn]

theorem mem_secondHop_of {dropsK : Bool} {g : G} {x n k : String} {t : Trace}
    (h2 : g.adj n k t.rel2) (hl2 : g.hasCls k t.l2 = true) (hkx : k ≠ x) (hkn : k ≠ n)
    (hsimple : ∀ r, g.adj n k r → r = t.rel2) : k ∈ secondHop dropsK g x n t := by
  unfold secondHop
  simp only [List.mem_filter, List.mem_map]
  refine ⟨⟨⟨⟨(k, t.rel2), h2, rfl⟩, ?_⟩, hl2⟩, by simpa using hkx⟩
  have := not_mem_dropList (dropsK := dropsK) hkn hsimple
  simpa using this

theorem secondHop_sound {dropsK : Bool} {g : G} {x n k : String} {t : Trace}
    (h : k ∈ secondHop dropsK g x n t) : (∃ r, g.adj n k r) ∧ g.hasCls k t.l2 = true ∧ k ≠ x := by
  unfold secondHop at h
  simp only [List.mem_filter, List.mem_map] at h
  rcases h with ⟨⟨⟨⟨⟨a, r⟩, hm, rfl⟩, _⟩, hl2⟩, hne⟩
  exact ⟨⟨r, hm⟩, hl2, by simpa using hne⟩

theorem mem_firstSecond {dropsK : Bool} {g : G} {x n k : String} {t : Trace} :
    (n, k) ∈ firstSecond dropsK g x t ↔ n ∈ firstHop g x t ∧ k ∈ secondHop dropsK g x n t := by
  unfold firstSecond
  simp only [List.mem_flatMap, List.mem_map, Prod.mk.injEq]
  constructor
  · rintro ⟨n', hn, k', hk, rfl, rfl⟩; exact ⟨hn, hk⟩
  · rintro ⟨hn, hk⟩; exact ⟨n, hn, k, hk, rfl, rfl⟩

/-- completeness of the two-hop query (for either variant of the relation filter) -/
theorem mem_firstSecond_of {dropsK : Bool} {g : G} {x n k : String} {t : Trace}
    (h1 : g.adj x n t.rel1) (hl1 : g.hasCls n t.l1 = true)
    (h2 : g.adj n k t.rel2) (hl2 : g.hasCls k t.l2 = true) (hkx : k ≠ x) (hkn : k ≠ n)
    (hsimple : ∀ r, g.adj n k r → r = t.rel2) :
    (n, k) ∈ firstSecond dropsK g x t :=
  mem_firstSecond.2 ⟨mem_firstHop.2 ⟨h1, hl1⟩, mem_secondHop_of h2 hl2 hkx hkn hsimple⟩

theorem mem_pairIds {ps : List (String × String)} {x : String} :
    x ∈ pairIds ps ↔ ∃ p ∈ ps, x = p.1 ∨ x = p.2 := by
  unfold pairIds; simp

theorem hasCls_mem_ids {g : G} {x c : String} (h : g.hasCls x c = true) : x ∈ g.ids := by
  unfold G.hasCls G.clsOf at h
  cases hf : g.nodes.find? (fun n => n.id == x) with
  | none => simp [hf] at h
  | some n =>
    have h1 := List.find?_some hf
    have h2 := List.mem_of_find?_eq_some hf
    have : n.id = x := by simpa using h1
    exact List.mem_map.2 ⟨n, h2, this⟩

theorem hasCls_unique {g : G} {x c c' : String} (h : g.hasCls x c = true) (h' : g.hasCls x c' = true) : c = c' := by
  unfold G.hasCls at h h'
  have h1 : g.clsOf x = some c := by simpa using h
  have h2 : g.clsOf x = some c' := by simpa using h'
  rw [h1] at h2; exact Option.some.inj h2



theorem keep0_sub_keepSet {cfg : Cfg} {g : G} {d x : String} (h : x ∈ keep0 cfg g d) : x ∈ keepSet cfg g d := by
  unfold keepSet; simp [h]

theorem linkPairs_sub_keepSet {cfg : Cfg} {g : G} {d : String} {p : String × String}
    (h : p ∈ linkPairs cfg g d) : p.1 ∈ keepSet cfg g d ∧ p.2 ∈ keepSet cfg g d := by
  unfold keepSet
  have h1 : p.1 ∈ pairIds (linkPairs cfg g d) := mem_pairIds.2 ⟨p, h, Or.inl rfl⟩
  have h2 : p.2 ∈ pairIds (linkPairs cfg g d) := mem_pairIds.2 ⟨p, h, Or.inr rfl⟩
  simp [h1, h2]

theorem ownerPairs_sub_keepSet {cfg : Cfg} {g : G} {d : String} {p : String × String}
    (h : p ∈ ownerPairs cfg g d) : p.1 ∈ keepSet cfg g d ∧ p.2 ∈ keepSet cfg g d := by
  unfold keepSet
  have h1 : p.1 ∈ pairIds (ownerPairs cfg g d) := mem_pairIds.2 ⟨p, h, Or.inl rfl⟩
  have h2 : p.2 ∈ pairIds (ownerPairs cfg g d) := mem_pairIds.2 ⟨p, h, Or.inr rfl⟩
  simp [h1, h2]

/-! ## the link loop -/

theorem mem_linkStep {cfg : Cfg} {g : G} {front : List String} {p : String × String} :
    p ∈ linkStep cfg g front ↔ ∃ c ∈ front, ∃ t ∈ cfg.linkTraces, p ∈ firstSecond cfg.dropsK g c t := by
  unfold linkStep; simp

theorem mem_ownerStep {cfg : Cfg} {g : G} {cps : List String} {p : String × String} :
    p ∈ ownerStep cfg g cps ↔ ∃ c ∈ cps, ∃ t ∈ cfg.ownerTraces, p ∈ firstSecond cfg.dropsK g c t := by
  unfold ownerStep; simp

theorem mem_newCps {cfg : Cfg} {g : G} {seen front : List String} {c : String} :
    c ∈ newCps cfg g seen front ↔ (∃ p ∈ linkStep cfg g front, p.2 = c) ∧ c ∉ seen := by
  unfold newCps
  simp only [List.mem_filter, List.mem_eraseDups, List.mem_map, Bool.not_eq_true', List.contains_eq_mem,
    decide_eq_false_iff_not]

/-- the second element of a pair found by a two-hop query is a node of the graph -/
theorem firstSecond_snd_mem_ids {dropsK : Bool} {g : G} {x : String} {t : Trace} {p : String × String}
    (h : p ∈ firstSecond dropsK g x t) : p.2 ∈ g.ids := by
  rcases p with ⟨n, k⟩
  exact hasCls_mem_ids (secondHop_sound (mem_firstSecond.1 h).2).2.1

theorem firstSecond_fst_mem_ids {dropsK : Bool} {g : G} {x : String} {t : Trace} {p : String × String}
    (h : p ∈ firstSecond dropsK g x t) : p.1 ∈ g.ids := by
  rcases p with ⟨n, k⟩
  exact hasCls_mem_ids (mem_firstHop.1 (mem_firstSecond.1 h).1).2

theorem linkClose_zero (cfg : Cfg) (g : G) (seen front : List String) (acc : List (String × String)) :
    linkClose cfg g 0 seen front acc = (acc, seen) := rfl

theorem linkClose_nil (cfg : Cfg) (g : G) (fuel : Nat) (seen : List String) (acc : List (String × String)) :
    linkClose cfg g fuel seen [] acc = (acc, seen) := by
  cases fuel <;> simp [linkClose]

theorem linkClose_succ (cfg : Cfg) (g : G) (fuel : Nat) (seen front : List String) (acc : List (String × String))
    (h : front ≠ []) :
    linkClose cfg g (fuel + 1) seen front acc =
      linkClose cfg g fuel (seen ++ newCps cfg g seen front) (newCps cfg g seen front) (acc ++ linkStep cfg g front) := by
  have : front.isEmpty = false := by cases front <;> simp_all
  simp [linkClose, this]

/-- the loop only adds: what was seen stays seen, what was found stays found -/
theorem linkClose_mono (cfg : Cfg) (g : G) (fuel : Nat) (seen front : List String) (acc : List (String × String)) :
    (∀ c ∈ seen, c ∈ (linkClose cfg g fuel seen front acc).2) ∧ (∀ p ∈ acc, p ∈ (linkClose cfg g fuel seen front acc).1) := by
  induction fuel generalizing seen front acc with
  | zero => exact ⟨fun c h => h, fun p h => h⟩
  | succ fuel ih =>
    by_cases hf : front = []
    · subst hf; rw [linkClose_nil]; exact ⟨fun c h => h, fun p h => h⟩
    · rw [linkClose_succ _ _ _ _ _ _ hf]
      have := ih (seen ++ newCps cfg g seen front) (newCps cfg g seen front) (acc ++ linkStep cfg g front)
      exact ⟨fun c h => this.1 c (List.mem_append.2 (Or.inl h)), fun p h => this.2 p (List.mem_append.2 (Or.inl h))⟩

/-- every pair found comes from a query at a connection point that ends up kept -/
theorem linkClose_sound (cfg : Cfg) (g : G) (fuel : Nat) (seen front : List String) (acc : List (String × String))
    (hfs : ∀ c ∈ front, c ∈ seen) :
    ∀ p ∈ (linkClose cfg g fuel seen front acc).1,
      p ∈ acc ∨ ∃ c ∈ (linkClose cfg g fuel seen front acc).2, ∃ t ∈ cfg.linkTraces, p ∈ firstSecond cfg.dropsK g c t := by
  induction fuel generalizing seen front acc with
  | zero => intro p hp; exact Or.inl hp
  | succ fuel ih =>
    by_cases hf : front = []
    · subst hf; rw [linkClose_nil]; intro p hp; exact Or.inl hp
    · rw [linkClose_succ _ _ _ _ _ _ hf]
      intro p hp
      rcases ih (seen ++ newCps cfg g seen front) (newCps cfg g seen front) (acc ++ linkStep cfg g front)
        (fun c h => List.mem_append.2 (Or.inr h)) p hp with h | h
      · rcases List.mem_append.1 h with h | h
        · exact Or.inl h
        · rcases mem_linkStep.1 h with ⟨c, hc, t, ht, hfs'⟩
          exact Or.inr ⟨c, (linkClose_mono cfg g fuel _ _ _).1 c (List.mem_append.2 (Or.inl (hfs c hc))), t, ht, hfs'⟩
      · exact Or.inr h

/-- the far end of every pair found ends up among the kept connection points -/
theorem linkClose_snd (cfg : Cfg) (g : G) (fuel : Nat) (seen front : List String) (acc : List (String × String))
    (hacc : ∀ p ∈ acc, p.2 ∈ seen) :
    ∀ p ∈ (linkClose cfg g fuel seen front acc).1, p.2 ∈ (linkClose cfg g fuel seen front acc).2 := by
  induction fuel generalizing seen front acc with
  | zero => exact hacc
  | succ fuel ih =>
    by_cases hf : front = []
    · subst hf; rw [linkClose_nil]; exact hacc
    · rw [linkClose_succ _ _ _ _ _ _ hf]
      apply ih
      intro p hp
      rcases List.mem_append.1 hp with h | h
      · exact List.mem_append.2 (Or.inl (hacc p h))
      · by_cases hs : p.2 ∈ seen
        · exact List.mem_append.2 (Or.inl hs)
        · exact List.mem_append.2 (Or.inr (mem_newCps.2 ⟨⟨p, h, rfl⟩, hs⟩))

/-- with at least one pass, the connection points the loop starts from are traced -/
theorem linkClose_first (cfg : Cfg) (g : G) (fuel : Nat) (seen front : List String) (acc : List (String × String)) :
    ∀ p ∈ linkStep cfg g front, p ∈ (linkClose cfg g (fuel + 1) seen front acc).1 := by
  intro p hp
  by_cases hf : front = []
  · subst hf; simp [linkStep] at hp
  · rw [linkClose_succ _ _ _ _ _ _ hf]
    exact (linkClose_mono cfg g fuel _ _ _).2 p (List.mem_append.2 (Or.inr hp))

/-- `b` is the far end of a link-trace pair found from `a` -/
def LinkNext (cfg : Cfg) (g : G) (a b : String) : Prop :=
  ∃ t ∈ cfg.linkTraces, ∃ n, (n, b) ∈ firstSecond cfg.dropsK g a t

/-- `b` is reached from `a` by following link traces from connection point to connection point -/
inductive LinkReach (cfg : Cfg) (g : G) : String → String → Prop
  | refl (a : String) : LinkReach cfg g a a
  | step {a b c : String} : LinkReach cfg g a b → LinkNext cfg g b c → LinkReach cfg g a c

theorem LinkReach.head {cfg : Cfg} {g : G} {a b c : String} (h1 : LinkNext cfg g a b) (h2 : LinkReach cfg g b c) :
    LinkReach cfg g a c := by
  induction h2 with
  | refl => exact .step (.refl a) h1
  | step _ hn ih => exact .step ih hn

/-- every connection point kept by the loop is reached from one it started with -/
theorem linkClose_reach (cfg : Cfg) (g : G) (fuel : Nat) (seen front : List String) (acc : List (String × String))
    (hfs : ∀ c ∈ front, c ∈ seen) :
    ∀ c ∈ (linkClose cfg g fuel seen front acc).2, ∃ c0 ∈ seen, LinkReach cfg g c0 c := by
  induction fuel generalizing seen front acc with
  | zero => intro c hc; exact ⟨c, hc, .refl c⟩
  | succ fuel ih =>
    by_cases hf : front = []
    · subst hf; rw [linkClose_nil]; intro c hc; exact ⟨c, hc, .refl c⟩
    · rw [linkClose_succ _ _ _ _ _ _ hf]
      intro c hc
      rcases ih (seen ++ newCps cfg g seen front) (newCps cfg g seen front) (acc ++ linkStep cfg g front)
        (fun c h => List.mem_append.2 (Or.inr h)) c hc with ⟨c0, hc0, hr⟩
      rcases List.mem_append.1 hc0 with h | h
      · exact ⟨c0, h, hr⟩
      · rcases (mem_newCps.1 h).1 with ⟨⟨n, k⟩, hp, hk⟩
        simp only at hk; subst hk
        rcases mem_linkStep.1 hp with ⟨c1, hc1, t, ht, hfs'⟩
        exact ⟨c1, hfs c1 hc1, LinkReach.head ⟨t, ht, n, hfs'⟩ hr⟩

/-- nodes of the graph not yet among the kept connection points: the measure that bounds the number of passes -/
def unseen (g : G) (seen : List String) : Nat := (g.ids.filter (fun x => !seen.contains x)).length

theorem filter_length_lt {α : Type} {l : List α} {p q : α → Bool} (hpq : ∀ x, q x = true → p x = true)
    {a : α} (ha : a ∈ l) (hp : p a = true) (hq : q a = false) : (l.filter q).length < (l.filter p).length := by
  induction l with
  | nil => cases ha
  | cons b l ih =>
    have hle : ∀ l : List α, (l.filter q).length ≤ (l.filter p).length := by
      intro l
      induction l with
      | nil => simp
      | cons c l ih' =>
        by_cases hc : q c = true
        · simp [List.filter, hc, hpq c hc, ih']
        · have hc' : q c = false := by simpa using hc
          by_cases hpc : p c = true
          · simp [List.filter, hc', hpc]; omega
          · have hpc' : p c = false := by simpa using hpc
            simp [List.filter, hc', hpc', ih']
    rcases List.mem_cons.1 ha with rfl | ha'
    · have := hle l
      simp [List.filter, hp, hq]; omega
    · have := ih ha'
      by_cases hc : q b = true
      · simp [List.filter, hc, hpq b hc]; omega
      · have hc' : q b = false := by simpa using hc
        by_cases hpc : p b = true
        · simp [List.filter, hc', hpc]; omega
        · have hpc' : p b = false := by simpa using hpc
          simp [List.filter, hc', hpc']; omega

theorem unseen_lt {cfg : Cfg} {g : G} {seen front : List String} (h : newCps cfg g seen front ≠ []) :
    unseen g (seen ++ newCps cfg g seen front) < unseen g seen := by
  cases hn : newCps cfg g seen front with
  | nil => exact absurd hn h
  | cons a rest =>
    have ha : a ∈ newCps cfg g seen front := by rw [hn]; exact List.mem_cons_self ..
    rcases mem_newCps.1 ha with ⟨⟨p, hp, hpa⟩, hns⟩
    rcases mem_linkStep.1 hp with ⟨c, _, t, _, hfs⟩
    have hid : a ∈ g.ids := by rw [← hpa]; exact firstSecond_snd_mem_ids hfs
    rw [← hn]
    unfold unseen
    apply filter_length_lt (a := a) _ hid
    · simpa using hns
    · simp [ha]
    · intro x hx
      simp only [Bool.not_eq_true', List.contains_eq_mem, decide_eq_false_iff_not, List.mem_append, not_or] at hx ⊢
      exact hx.1

theorem unseen_le (g : G) (seen : List String) : unseen g seen ≤ g.nodes.length := by
  unfold unseen G.ids
  exact Nat.le_trans (List.length_filter_le _ _) (by simp)

theorem linkStep_single_sub {cfg : Cfg} {g : G} {front : List String} {c : String} (hc : c ∈ front) :
    ∀ p ∈ linkStep cfg g [c], p ∈ linkStep cfg g front := by
  intro p hp
  rcases mem_linkStep.1 hp with ⟨c', hc', t, ht, h⟩
  simp only [List.mem_cons, List.not_mem_nil, or_false] at hc'
  subst hc'
  exact mem_linkStep.2 ⟨c', hc, t, ht, h⟩

/-- **termination and closedness of the link loop**: when every connection point seen so far is either still to be
traced or has had all its pairs found, and the fuel exceeds the number of graph nodes not yet seen, the loop reaches
its regular exit and the result is closed — every kept connection point has had all its link-trace pairs found.
(Each pass with a non-empty result moves at least one graph node from "unseen" to "seen".) -/
theorem linkClose_closed (cfg : Cfg) (g : G) (fuel : Nat) (seen front : List String) (acc : List (String × String))
    (hfs : ∀ c ∈ front, c ∈ seen)
    (hinv : ∀ c ∈ seen, c ∈ front ∨ ∀ p ∈ linkStep cfg g [c], p ∈ acc)
    (hfuel : unseen g seen < fuel) :
    ∀ c ∈ (linkClose cfg g fuel seen front acc).2, ∀ p ∈ linkStep cfg g [c], p ∈ (linkClose cfg g fuel seen front acc).1 := by
  induction fuel generalizing seen front acc with
  | zero => exact absurd hfuel (Nat.not_lt_zero _)
  | succ fuel ih =>
    by_cases hf : front = []
    · subst hf; rw [linkClose_nil]
      intro c hc
      rcases hinv c hc with h | h
      · cases h
      · exact h
    · rw [linkClose_succ _ _ _ _ _ _ hf]
      have hinv' : ∀ c ∈ seen ++ newCps cfg g seen front, c ∈ newCps cfg g seen front ∨
          ∀ p ∈ linkStep cfg g [c], p ∈ acc ++ linkStep cfg g front := by
        intro c hc
        rcases List.mem_append.1 hc with h | h
        · rcases hinv c h with h' | h'
          · exact Or.inr fun p hp => List.mem_append.2 (Or.inr (linkStep_single_sub h' p hp))
          · exact Or.inr fun p hp => List.mem_append.2 (Or.inl (h' p hp))
        · exact Or.inl h
      by_cases hn : newCps cfg g seen front = []
      · rw [hn, linkClose_nil]
        intro c hc
        rw [hn] at hinv'
        rcases hinv' c hc with h | h
        · cases h
        · exact h
      · apply ih _ _ _ (fun c h => List.mem_append.2 (Or.inr h)) hinv'
        have := unseen_lt (g := g) hn
        omega

/-! ## the keep set -/

theorem mem_ownerPairs {cfg : Cfg} {g : G} {d : String} {p : String × String} :
    p ∈ ownerPairs cfg g d ↔ ∃ c ∈ keepCps2 cfg g d, ∃ t ∈ cfg.ownerTraces, p ∈ firstSecond cfg.dropsK g c t := by
  unfold ownerPairs; exact mem_ownerStep

theorem mem_keepCps {cfg : Cfg} {g : G} {d c : String} :
    c ∈ keepCps cfg g d ↔ c ∈ keep0 cfg g d ∧ g.hasCls c cfg.cpClass = true := by
  unfold keepCps; simp

theorem keepCps_sub_keepCps2 {cfg : Cfg} {g : G} {d c : String} (h : c ∈ keepCps cfg g d) : c ∈ keepCps2 cfg g d :=
  (linkClose_mono cfg g _ _ _ _).1 c h

/-- every link-trace pair in the keep set was found from a kept connection point -/
theorem linkPairs_sound {cfg : Cfg} {g : G} {d : String} {p : String × String} (h : p ∈ linkPairs cfg g d) :
    ∃ c ∈ keepCps2 cfg g d, ∃ t ∈ cfg.linkTraces, p ∈ firstSecond cfg.dropsK g c t := by
  rcases linkClose_sound cfg g _ _ _ _ (fun c h => h) p h with h | h
  · cases h
  · exact h

theorem linkPairs_snd {cfg : Cfg} {g : G} {d : String} {p : String × String} (h : p ∈ linkPairs cfg g d) :
    p.2 ∈ keepCps2 cfg g d :=
  linkClose_snd cfg g _ _ _ _ (fun p h => by cases h) p h

/-- with at least one pass: the pairs of the definite connection points are found -/
theorem linkPairs_of_keepCps {cfg : Cfg} {g : G} {d c : String} {t : Trace} {p : String × String}
    (hr : cfg.linkRounds ≠ some 0) (hc : c ∈ keepCps cfg g d) (ht : t ∈ cfg.linkTraces)
    (hp : p ∈ firstSecond cfg.dropsK g c t) : p ∈ linkPairs cfg g d := by
  unfold linkPairs linkRun
  have : ∃ k, linkFuel cfg g = k + 1 := by
    unfold linkFuel
    cases h : cfg.linkRounds with
    | none => exact ⟨_, rfl⟩
    | some k =>
      cases k with
      | zero => exact absurd h hr
      | succ k => exact ⟨k, rfl⟩
  rcases this with ⟨k, hk⟩
  rw [hk]
  exact linkClose_first cfg g k _ _ _ p (mem_linkStep.2 ⟨c, hc, t, ht, hp⟩)

/-- repeated until nothing new turns up: the pairs of EVERY kept connection point are found -/
theorem linkPairs_of_keepCps2 {cfg : Cfg} {g : G} {d c : String} {t : Trace} {p : String × String}
    (hr : cfg.linkRounds = none) (hc : c ∈ keepCps2 cfg g d) (ht : t ∈ cfg.linkTraces)
    (hp : p ∈ firstSecond cfg.dropsK g c t) : p ∈ linkPairs cfg g d := by
  have hfuel : unseen g (keepCps cfg g d) < linkFuel cfg g := by
    unfold linkFuel; rw [hr]; exact Nat.lt_succ_of_le (unseen_le g _)
  exact linkClose_closed cfg g _ _ _ _ (fun c h => h) (fun c h => Or.inl h) hfuel c hc p
    (mem_linkStep.2 ⟨c, List.mem_singleton.2 rfl, t, ht, hp⟩)

/-- the kept connection points are reached from the definite ones by following link traces -/
theorem keepCps2_reach {cfg : Cfg} {g : G} {d c : String} (h : c ∈ keepCps2 cfg g d) :
    ∃ c0 ∈ keepCps cfg g d, LinkReach cfg g c0 c :=
  linkClose_reach cfg g _ _ _ _ (fun _ h => h) c h

/-- ... and (repeated until nothing new turns up) everything reached that way is kept -/
theorem reach_keepCps2 {cfg : Cfg} {g : G} {d c0 c : String} (hr : cfg.linkRounds = none)
    (h0 : c0 ∈ keepCps2 cfg g d) (h : LinkReach cfg g c0 c) : c ∈ keepCps2 cfg g d := by
  induction h with
  | refl => exact h0
  | step _ hn ih =>
    rcases hn with ⟨t, ht, n, hp⟩
    exact linkPairs_snd (linkPairs_of_keepCps2 hr ih ht hp)

/-- a definite connection point keeps every link (first hop of a link trace) and the far ends -/
theorem closure_link {cfg : Cfg} {g : G} {d c L p : String} {t : Trace} (hr : cfg.linkRounds ≠ some 0)
    (hc : c ∈ keep0 cfg g d) (hcp : g.hasCls c cfg.cpClass = true) (ht : t ∈ cfg.linkTraces)
    (h1 : g.adj c L t.rel1) (hL : g.hasCls L t.l1 = true) (h2 : g.adj L p t.rel2) (hp : g.hasCls p t.l2 = true)
    (hpc : p ≠ c) (hpL : p ≠ L) (hsimple : ∀ r, g.adj L p r → r = t.rel2) :
    L ∈ keepSet cfg g d ∧ p ∈ keepSet cfg g d ∧ p ∈ keepCps2 cfg g d := by
  have hm : (L, p) ∈ linkPairs cfg g d :=
    linkPairs_of_keepCps hr (mem_keepCps.2 ⟨hc, hcp⟩) ht (mem_firstSecond_of h1 hL h2 hp hpc hpL hsimple)
  have := linkPairs_sub_keepSet hm
  exact ⟨this.1, this.2, linkPairs_snd hm⟩

/-- every connection point in the keep set is one whose links (to a fixed point) and service are traced -/
theorem kept_cp_mem_keepCps2 {cfg : Cfg} {g : G} {d c : String}
    (hlt : ∀ t ∈ cfg.linkTraces, t.l1 ≠ cfg.cpClass)
    (hot : ∀ t ∈ cfg.ownerTraces, t.l1 ≠ cfg.cpClass ∧ t.l2 ≠ cfg.cpClass)
    (hc : c ∈ keepSet cfg g d) (hcp : g.hasCls c cfg.cpClass = true) : c ∈ keepCps2 cfg g d := by
  unfold keepSet at hc
  rcases List.mem_append.1 hc with hc | hc
  · rcases List.mem_append.1 hc with hc | hc
    · exact keepCps_sub_keepCps2 (mem_keepCps.2 ⟨hc, hcp⟩)
    · rcases mem_pairIds.1 hc with ⟨⟨n, k⟩, hp, h | h⟩
      · exfalso
        simp only at h; subst h
        rcases linkPairs_sound hp with ⟨c0, _, t, ht, hfs⟩
        have := (mem_firstHop.1 (mem_firstSecond.1 hfs).1).2
        exact hlt t ht (hasCls_unique this hcp)
      · simp only at h; subst h
        exact linkPairs_snd hp
  · exfalso
    rcases mem_pairIds.1 hc with ⟨⟨n, k⟩, hp, h | h⟩
    · simp only at h; subst h
      rcases mem_ownerPairs.1 hp with ⟨c0, _, t, ht, hfs⟩
      have := (mem_firstHop.1 (mem_firstSecond.1 hfs).1).2
      exact (hot t ht).1 (hasCls_unique this hcp)
    · simp only at h; subst h
      rcases mem_ownerPairs.1 hp with ⟨c0, _, t, ht, hfs⟩
      have := (secondHop_sound (mem_firstSecond.1 hfs).2).2.1
      exact (hot t ht).2 (hasCls_unique this hcp)

/-- a connection point whose service is traced keeps the service and the service's owner -/
theorem closure_owner {cfg : Cfg} {g : G} {d c S o : String} {t : Trace}
    (hc : c ∈ keepCps2 cfg g d) (ht : t ∈ cfg.ownerTraces)
    (h1 : g.adj c S t.rel1) (hS : g.hasCls S t.l1 = true) (h2 : g.adj S o t.rel2) (ho : g.hasCls o t.l2 = true)
    (hoc : o ≠ c) (hoS : o ≠ S) (hsimple : ∀ r, g.adj S o r → r = t.rel2) :
    S ∈ keepSet cfg g d ∧ o ∈ keepSet cfg g d :=
  ownerPairs_sub_keepSet (p := (S, o))
    (mem_ownerPairs.2 ⟨c, hc, t, ht, mem_firstSecond_of h1 hS h2 ho hoc hoS hsimple⟩)

/-- **the full closure over links**: with the link traces repeated until nothing new turns up, ANY kept connection
point — definite, or pulled in as the far end of a link at any distance — keeps every link and that link's far ends -/
theorem closure_link_any {cfg : Cfg} {g : G} {d c L p : String} {t : Trace} (hr : cfg.linkRounds = none)
    (hlt : ∀ t ∈ cfg.linkTraces, t.l1 ≠ cfg.cpClass)
    (hot : ∀ t ∈ cfg.ownerTraces, t.l1 ≠ cfg.cpClass ∧ t.l2 ≠ cfg.cpClass)
    (hc : c ∈ keepSet cfg g d) (hcp : g.hasCls c cfg.cpClass = true) (ht : t ∈ cfg.linkTraces)
    (h1 : g.adj c L t.rel1) (hL : g.hasCls L t.l1 = true) (h2 : g.adj L p t.rel2) (hp : g.hasCls p t.l2 = true)
    (hpc : p ≠ c) (hpL : p ≠ L) (hsimple : ∀ r, g.adj L p r → r = t.rel2) :
    L ∈ keepSet cfg g d ∧ p ∈ keepSet cfg g d := by
  have hk := kept_cp_mem_keepCps2 hlt hot hc hcp
  exact linkPairs_sub_keepSet (p := (L, p))
    (linkPairs_of_keepCps2 hr hk ht (mem_firstSecond_of h1 hL h2 hp hpc hpL hsimple))

end FimVerif.Arm
