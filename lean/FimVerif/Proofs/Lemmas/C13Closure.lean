import FimVerif.Proofs.Lemmas.C13Basic
/-! Helper lemmas for C13: adjacency, the two-hop query, closure of the keep set. -/
namespace FimVerif.Arm

/-- `y` is a neighbour of `x` over an edge of relation `r` -/
def G.adj (g : G) (x y r : String) : Prop := (y, r) ∈ g.nbrs x

theorem G.adj_iff {g : G} {x y r : String} :
    g.adj x y r ↔ ∃ e ∈ g.edges, e.rel = r ∧ ((e.a = x ∧ e.b = y) ∨ (e.b = x ∧ e.a = y)) := by
  unfold G.adj G.nbrs
  simp only [List.mem_filterMap]
  constructor
  · rintro ⟨e, he, h⟩
    refine ⟨e, he, ?_⟩
    by_cases h1 : e.a = x
    · simp [h1] at h; exact ⟨h.2, Or.inl ⟨h1, h.1⟩⟩
    · by_cases h2 : e.b = x
      · simp [h1, h2] at h; exact ⟨h.2, Or.inr ⟨h2, h.1⟩⟩
      · simp [h1, h2] at h
  · rintro ⟨e, he, hr, h | h⟩
    · exact ⟨e, he, by simp [h.1, h.2, hr]⟩
    · refine ⟨e, he, ?_⟩
      by_cases h1 : e.a = x
      · have : e.b = y := by rw [h.1, ← h1, h.2]
        simp [h1, this, hr]
      · rcases h with ⟨hb, ha⟩
        have h1' : ¬ y = x := by rw [← ha]; exact h1
        simp [ha, hb, hr, h1']

theorem G.adj_of_edge {g : G} {e : Edge} (he : e ∈ g.edges) :
    g.adj e.a e.b e.rel ∧ g.adj e.b e.a e.rel := by
  constructor
  · exact G.adj_iff.2 ⟨e, he, rfl, Or.inl ⟨rfl, rfl⟩⟩
  · exact G.adj_iff.2 ⟨e, he, rfl, Or.inr ⟨rfl, rfl⟩⟩

theorem G.adj_symm {g : G} {x y r : String} (h : g.adj x y r) : g.adj y x r := by
  rw [G.adj_iff] at h ⊢
  rcases h with ⟨e, he, hr, h | h⟩
  · exact ⟨e, he, hr, Or.inr ⟨h.2, h.1⟩⟩
  · exact ⟨e, he, hr, Or.inl ⟨h.2, h.1⟩⟩

theorem mem_firstHop {g : G} {x n : String} {t : Trace} :
    n ∈ firstHop g x t ↔ g.adj x n t.rel1 ∧ g.hasCls n t.l1 = true := by
  unfold firstHop G.adj
  simp only [List.mem_filter, List.mem_map]
  constructor
  · rintro ⟨⟨⟨a, r⟩, ⟨hm, hr⟩, rfl⟩, hc⟩
    have : r = t.rel1 := by simpa using hr
    subst this; exact ⟨hm, hc⟩
  · rintro ⟨hm, hc⟩
    exact ⟨⟨(n, t.rel1), ⟨hm, by simp⟩, rfl⟩, hc⟩

theorem not_mem_dropList {dropsK : Bool} {g : G} {n k : String} {t : Trace}
    (hkn : k ≠ n) (hsimple : ∀ r, g.adj n k r → r = t.rel2) : k ∉ dropList dropsK g n t := by
  unfold dropList
  cases dropsK with
  | true =>
    simp only [if_true, List.mem_map, List.mem_filter]
    rintro ⟨⟨k', r⟩, ⟨hm, hr⟩, rfl⟩
    have := hsimple r hm
    simp [this] at hr
  | false =>
    simp only [Bool.false_eq_true, if_false]
    split <;> simp [hkn]

theorem mem_secondHop_of {dropsK : Bool} {g : G} {x n k : String} {t : Trace}
    (h2 : g.adj n k t.rel2) (hl2 : g.hasCls k t.l2 = true) (hkx : k ≠ x) (hkn : k ≠ n)
    (hsimple : ∀ r, g.adj n k r → r = t.rel2) : k ∈ secondHop dropsK g x n t := by
  unfold secondHop
  simp only [List.mem_filter, List.mem_map]
  refine ⟨⟨⟨⟨(k, t.rel2), h2, rfl⟩, ?_⟩, hl2⟩, by simpa using hkx⟩
  have := not_mem_dropList (dropsK := dropsK) hkn hsimple
  simpa using this

theorem secondHop_sound {dropsK : Bool} {g : G} {x n k : String} {t : Trace}
    (h : k ∈ secondHop dropsK g x n t) : (∃ r, g.adj n k r) ∧ g.hasCls k t.l2 = true ∧ k ≠ x := by
  unfold secondHop at h
  simp only [List.mem_filter, List.mem_map] at h
  rcases h with ⟨⟨⟨⟨⟨a, r⟩, hm, rfl⟩, _⟩, hl2⟩, hne⟩
  exact ⟨⟨r, hm⟩, hl2, by simpa using hne⟩

theorem mem_firstSecond {dropsK : Bool} {g : G} {x n k : String} {t : Trace} :
    (n, k) ∈ firstSecond dropsK g x t ↔ n ∈ firstHop g x t ∧ k ∈ secondHop dropsK g x n t := by
  unfold firstSecond
  simp only [List.mem_flatMap, List.mem_map, Prod.mk.injEq]
  constructor
  · rintro ⟨n', hn, k', hk, rfl, rfl⟩; exact ⟨hn, hk⟩
  · rintro ⟨hn, hk⟩; exact ⟨n, hn, k, hk, rfl, rfl⟩

/-- completeness of the two-hop query (for either variant of the relation filter) -/
theorem mem_firstSecond_of {dropsK : Bool} {g : G} {x n k : String} {t : Trace}
    (h1 : g.adj x n t.rel1) (hl1 : g.hasCls n t.l1 = true)
    (h2 : g.adj n k t.rel2) (hl2 : g.hasCls k t.l2 = true) (hkx : k ≠ x) (hkn : k ≠ n)
    (hsimple : ∀ r, g.adj n k r → r = t.rel2) :
    (n, k) ∈ firstSecond dropsK g x t :=
  mem_firstSecond.2 ⟨mem_firstHop.2 ⟨h1, hl1⟩, mem_secondHop_of h2 hl2 hkx hkn hsimple⟩

theorem mem_pairIds {ps : List (String × String)} {x : String} :
    x ∈ pairIds ps ↔ ∃ p ∈ ps, x = p.1 ∨ x = p.2 := by
  unfold pairIds; simp

theorem hasCls_mem_ids {g : G} {x c : String} (h : g.hasCls x c = true) : x ∈ g.ids := by
  unfold G.hasCls G.clsOf at h
  cases hf : g.nodes.find? (fun n => n.id == x) with
  | none => simp [hf] at h
  | some n =>
    have h1 := List.find?_some hf
    have h2 := List.mem_of_find?_eq_some hf
    have : n.id = x := by simpa using h1
    exact List.mem_map.2 ⟨n, h2, this⟩

theorem hasCls_unique {g : G} {x c c' : String} (h : g.hasCls x c = true) (h' : g.hasCls x c' = true) : c = c' := by
  unfold G.hasCls at h h'
  have h1 : g.clsOf x = some c := by simpa using h
  have h2 : g.clsOf x = some c' := by simpa using h'
  rw [h1] at h2; exact Option.some.inj h2



theorem keep0_sub_keepSet {cfg : Cfg} {g : G} {d x : String} (h : x ∈ keep0 cfg g d) : x ∈ keepSet cfg g d := by
  unfold keepSet; simp [h]

theorem linkPairs_sub_keepSet {cfg : Cfg} {g : G} {d : String} {p : String × String}
    (h : p ∈ linkPairs cfg g d) : p.1 ∈ keepSet cfg g d ∧ p.2 ∈ keepSet cfg g d := by
  unfold keepSet
  have h1 : p.1 ∈ pairIds (linkPairs cfg g d) := mem_pairIds.2 ⟨p, h, Or.inl rfl⟩
  have h2 : p.2 ∈ pairIds (linkPairs cfg g d) := mem_pairIds.2 ⟨p, h, Or.inr rfl⟩
  simp [h1, h2]

theorem ownerPairs_sub_keepSet {cfg : Cfg} {g : G} {d : String} {p : String × String}
    (h : p ∈ ownerPairs cfg g d) : p.1 ∈ keepSet cfg g d ∧ p.2 ∈ keepSet cfg g d := by
  unfold keepSet
  have h1 : p.1 ∈ pairIds (ownerPairs cfg g d) := mem_pairIds.2 ⟨p, h, Or.inl rfl⟩
  have h2 : p.2 ∈ pairIds (ownerPairs cfg g d) := mem_pairIds.2 ⟨p, h, Or.inr rfl⟩
  simp [h1, h2]

theorem mem_linkPairs {cfg : Cfg} {g : G} {d : String} {p : String × String} :
    p ∈ linkPairs cfg g d ↔ ∃ c ∈ keepCps cfg g d, ∃ t ∈ cfg.linkTraces, p ∈ firstSecond cfg.dropsK g c t := by
  unfold linkPairs; simp

theorem mem_ownerPairs {cfg : Cfg} {g : G} {d : String} {p : String × String} :
    p ∈ ownerPairs cfg g d ↔ ∃ c ∈ keepCps2 cfg g d, ∃ t ∈ cfg.ownerTraces, p ∈ firstSecond cfg.dropsK g c t := by
  unfold ownerPairs; simp

theorem mem_keepCps {cfg : Cfg} {g : G} {d c : String} :
    c ∈ keepCps cfg g d ↔ c ∈ keep0 cfg g d ∧ g.hasCls c cfg.cpClass = true := by
  unfold keepCps; simp

/-- a definite connection point keeps every link (first hop of a link trace) and the far ends -/
theorem closure_link {cfg : Cfg} {g : G} {d c L p : String} {t : Trace}
    (hc : c ∈ keep0 cfg g d) (hcp : g.hasCls c cfg.cpClass = true) (ht : t ∈ cfg.linkTraces)
    (h1 : g.adj c L t.rel1) (hL : g.hasCls L t.l1 = true) (h2 : g.adj L p t.rel2) (hp : g.hasCls p t.l2 = true)
    (hpc : p ≠ c) (hpL : p ≠ L) (hsimple : ∀ r, g.adj L p r → r = t.rel2) :
    L ∈ keepSet cfg g d ∧ p ∈ keepSet cfg g d ∧ p ∈ keepCps2 cfg g d := by
  have hm : (L, p) ∈ linkPairs cfg g d :=
    mem_linkPairs.2 ⟨c, mem_keepCps.2 ⟨hc, hcp⟩, t, ht, mem_firstSecond_of h1 hL h2 hp hpc hpL hsimple⟩
  have := linkPairs_sub_keepSet hm
  refine ⟨this.1, this.2, ?_⟩
  unfold keepCps2
  exact List.mem_append.2 (Or.inr (List.mem_map.2 ⟨(L, p), hm, rfl⟩))

/-- every connection point in the keep set is one whose service and owner are traced -/
theorem kept_cp_mem_keepCps2 {cfg : Cfg} {g : G} {d c : String}
    (hlt : ∀ t ∈ cfg.linkTraces, t.l1 ≠ cfg.cpClass)
    (hot : ∀ t ∈ cfg.ownerTraces, t.l1 ≠ cfg.cpClass ∧ t.l2 ≠ cfg.cpClass)
    (hc : c ∈ keepSet cfg g d) (hcp : g.hasCls c cfg.cpClass = true) : c ∈ keepCps2 cfg g d := by
  unfold keepSet at hc
  unfold keepCps2
  rcases List.mem_append.1 hc with hc | hc
  · rcases List.mem_append.1 hc with hc | hc
    · exact List.mem_append.2 (Or.inl (mem_keepCps.2 ⟨hc, hcp⟩))
    · rcases mem_pairIds.1 hc with ⟨⟨n, k⟩, hp, h | h⟩
      · exfalso
        simp only at h; subst h
        rcases mem_linkPairs.1 hp with ⟨c0, _, t, ht, hfs⟩
        have := (mem_firstHop.1 (mem_firstSecond.1 hfs).1).2
        exact hlt t ht (hasCls_unique this hcp)
      · simp only at h; subst h
        exact List.mem_append.2 (Or.inr (List.mem_map.2 ⟨(n, c), hp, rfl⟩))
  · exfalso
    rcases mem_pairIds.1 hc with ⟨⟨n, k⟩, hp, h | h⟩
    · simp only at h; subst h
      rcases mem_ownerPairs.1 hp with ⟨c0, _, t, ht, hfs⟩
      have := (mem_firstHop.1 (mem_firstSecond.1 hfs).1).2
      exact (hot t ht).1 (hasCls_unique this hcp)
    · simp only at h; subst h
      rcases mem_ownerPairs.1 hp with ⟨c0, _, t, ht, hfs⟩
      have := (secondHop_sound (mem_firstSecond.1 hfs).2).2.1
      exact (hot t ht).2 (hasCls_unique this hcp)

/-- a connection point whose service is traced keeps the service and the service's owner -/
theorem closure_owner {cfg : Cfg} {g : G} {d c S o : String} {t : Trace}
    (hc : c ∈ keepCps2 cfg g d) (ht : t ∈ cfg.ownerTraces)
    (h1 : g.adj c S t.rel1) (hS : g.hasCls S t.l1 = true) (h2 : g.adj S o t.rel2) (ho : g.hasCls o t.l2 = true)
    (hoc : o ≠ c) (hoS : o ≠ S) (hsimple : ∀ r, g.adj S o r → r = t.rel2) :
    S ∈ keepSet cfg g d ∧ o ∈ keepSet cfg g d :=
  ownerPairs_sub_keepSet (p := (S, o))
    (mem_ownerPairs.2 ⟨c, hc, t, ht, mem_firstSecond_of h1 hS h2 ho hoc hoS hsimple⟩)

/-- the guarded closure for any kept connection point (also one kept only as a far end): if it has a single
neighbour of the link class, that link and all the link's other ends are kept -/
theorem closure_peer_single_link {cfg : Cfg} {g : G} {d c L p : String} {t : Trace}
    (hone_trace : cfg.linkTraces = [t])
    (hlt : t.l1 ≠ cfg.cpClass)
    (hot : ∀ t ∈ cfg.ownerTraces, t.l1 ≠ cfg.cpClass ∧ t.l2 ≠ cfg.cpClass)
    (hone : ∀ L' r, g.adj c L' r → g.hasCls L' t.l1 = true → L' = L)
    (hc : c ∈ keepSet cfg g d) (hcp : g.hasCls c cfg.cpClass = true)
    (h1 : g.adj c L t.rel1) (hL : g.hasCls L t.l1 = true)
    (h2 : g.adj L p t.rel2) (hp : g.hasCls p t.l2 = true)
    (hpc : p ≠ c) (hpL : p ≠ L) (hsimple : ∀ r, g.adj L p r → r = t.rel2) :
    L ∈ keepSet cfg g d ∧ p ∈ keepSet cfg g d := by
  have ht : t ∈ cfg.linkTraces := by rw [hone_trace]; simp
  have hlt' : ∀ t' ∈ cfg.linkTraces, t'.l1 ≠ cfg.cpClass := by
    intro t' ht'; rw [hone_trace] at ht'; simp at ht'; subst ht'; exact hlt
  have hk := kept_cp_mem_keepCps2 hlt' hot hc hcp
  unfold keepCps2 at hk
  rcases List.mem_append.1 hk with hk | hk
  · have := closure_link (mem_keepCps.1 hk).1 hcp ht h1 hL h2 hp hpc hpL hsimple
    exact ⟨this.1, this.2.1⟩
  · rcases List.mem_map.1 hk with ⟨⟨L0, c'⟩, hq, hc'⟩
    simp only at hc'; subst hc'
    rcases mem_linkPairs.1 hq with ⟨c0, hc0, t', ht', hfs⟩
    rw [hone_trace] at ht'; simp at ht'; subst ht'
    have hfh := mem_firstHop.1 (mem_firstSecond.1 hfs).1
    rcases (secondHop_sound (mem_firstSecond.1 hfs).2).1 with ⟨r, hr⟩
    have hLL : L0 = L := hone L0 r (G.adj_symm hr) hfh.2
    subst hLL
    refine ⟨(linkPairs_sub_keepSet hq).1, ?_⟩
    by_cases hpc0 : p = c0
    · subst hpc0; exact keep0_sub_keepSet (mem_keepCps.1 hc0).1
    · have hm : (L0, p) ∈ linkPairs cfg g d :=
        mem_linkPairs.2 ⟨c0, hc0, t', ht, mem_firstSecond_of hfh.1 hL h2 hp hpc0 hpL hsimple⟩
      exact (linkPairs_sub_keepSet hm).2

end FimVerif.Arm
