import FimVerif.Proofs.Lemmas.StoreInv
/-! C04: frame lemmas for the primitive state transformers of the shared store. Core only. -/
namespace FimVerif.Store
open FimVerif FimVerif.Gen.StoreConsts

/-- graph `g'` looks the same in `s'` as in `s`: same nodes (with their internal ids) and same edges -/
def Frames (g' : String) (s s' : Store) : Prop :=
  nodesOf s' g' = nodesOf s g' ∧ edgesOf s' g' = edgesOf s g'

theorem Frames.refl (g' : String) (s : Store) : Frames g' s s := ⟨rfl, rfl⟩
theorem Frames.trans {g' : String} {s s1 s2 : Store} (h1 : Frames g' s s1) (h2 : Frames g' s1 s2) : Frames g' s s2 :=
  ⟨h2.1.trans h1.1, h2.2.trans h1.2⟩

theorem map_filter_frame {α : Type} (f : α → α) (p : α → Bool) (l : List α)
    (h1 : ∀ n ∈ l, p (f n) = p n) (h2 : ∀ n ∈ l, p n = true → f n = n) : (l.map f).filter p = l.filter p := by
  induction l with
  | nil => rfl
  | cons a l ih =>
    have ih' := ih (fun n hn => h1 n (by simp [hn])) (fun n hn => h2 n (by simp [hn]))
    have e1 := h1 a (by simp)
    simp only [List.map_cons, List.filter_cons, e1, ih']
    cases hp : p a with
    | false => simp
    | true => simp [h2 a (by simp) hp]

theorem filter_filter_of_imp {α : Type} (p q : α → Bool) (l : List α) (h : ∀ a ∈ l, p a = true → q a = true) :
    (l.filter q).filter p = l.filter p := by
  induction l with
  | nil => rfl
  | cons a l ih =>
    have ih' := ih (fun b hb => h b (by simp [hb]))
    cases hq : q a with
    | true => simp only [List.filter_cons, hq, if_true, ih']
    | false =>
      have : p a = false := by
        cases hp : p a with
        | false => rfl
        | true => rw [h a (by simp) hp] at hq; cases hq
      simp [hq, this, ih']

/-- frame from: same nodes of `g'`, and the edge lists agree on the edges between nodes of `g'` -/
theorem frames_of (g' : String) (s s' : Store) (hn : nodesOf s' g' = nodesOf s g')
    (he : s'.edges.filter (fun e => idIn (nodesOf s g') e.a && idIn (nodesOf s g') e.b) = edgesOf s g') :
    Frames g' s s' := by
  refine ⟨hn, ?_⟩
  unfold edgesOf at *
  rw [hn]; exact he

theorem inG_upd (g' : String) (n : SNode) (f : Props → Props) (hf : ∀ a, AMap.get graphId (f a) = AMap.get graphId a) :
    inG g' { n with attrs := f n.attrs } = inG g' n := by
  simp [inG, hf]

theorem frames_updNodes (g' : String) (s : Store) (c : SNode → Bool) (f : Props → Props)
    (hf : ∀ a, AMap.get graphId (f a) = AMap.get graphId a)
    (hc : ∀ n ∈ s.nodes, c n = true → inG g' n = false) :
    Frames g' s { s with nodes := s.nodes.map (fun n => if c n then { n with attrs := f n.attrs } else n) } := by
  apply frames_of
  · unfold nodesOf
    apply map_filter_frame
    · intro n _
      by_cases h : c n <;> simp [h, inG_upd g' n f hf]
    · intro n hn hp
      by_cases h : c n
      · rw [hc n hn h] at hp; cases hp
      · simp [h]
  · rfl

/-- nodes of different graphs have different internal ids -/
theorem disjoint_ids (s : Store) (h : Inv s) (n : SNode) (hn : n ∈ s.nodes) (g g' : String) (hg : inG g n = true)
    (hne : g' ≠ g) : idIn (nodesOf s g') n.iid = false := by
  rw [idIn_false_iff]
  intro m hm e
  simp only [nodesOf, List.mem_filter] at hm
  have : m = n := eq_of_nodup_map (·.iid) s.nodes h.1 m hm.1 n hn e
  subst this
  exact hne (inG_unique m g' g hm.2 hg)

theorem frames_updNode (g g' : String) (s : Store) (h : Inv s) (i : Nat) (f : Props → Props)
    (hf : ∀ a, AMap.get graphId (f a) = AMap.get graphId a)
    (n : SNode) (hn : n ∈ s.nodes) (hi : n.iid = i) (hg : inG g n = true) (hne : g' ≠ g) :
    Frames g' s (updNode i f s) := by
  have := frames_updNodes g' s (fun n => decide (n.iid = i)) f hf (by
    intro m hm hc
    simp only [decide_eq_true_eq] at hc
    have : m = n := eq_of_nodup_map (·.iid) s.nodes h.1 m hm n hn (by simp [hc, hi])
    subst this
    cases hh : inG g' m with
    | false => rfl
    | true => exact absurd (inG_unique m g' g hh hg) hne)
  simpa [updNode] using this

theorem frames_updGraphNodes (g g' : String) (s : Store) (f : Props → Props)
    (hf : ∀ a, AMap.get graphId (f a) = AMap.get graphId a) (hne : g' ≠ g) :
    Frames g' s (updGraphNodes g f s) := by
  have := frames_updNodes g' s (inG g) f hf (by
    intro m _ hc
    cases hh : inG g' m with
    | false => rfl
    | true => exact absurd (inG_unique m g' g hh hc) hne)
  simpa [updGraphNodes] using this

theorem edgeMatch_ends (a b : Nat) (e : SEdge) (h : edgeMatch a b e = true) : (e.a = a ∧ e.b = b) ∨ (e.a = b ∧ e.b = a) := by
  simpa [edgeMatch] using h

theorem frames_updEdge (g' : String) (s : Store) (a b : Nat) (f : Props → Props)
    (hab : idIn (nodesOf s g') a = false ∨ idIn (nodesOf s g') b = false) : Frames g' s (updEdge a b f s) := by
  apply frames_of
  · rfl
  · unfold edgesOf updEdge
    apply map_filter_frame
    · intro e _
      by_cases h : edgeMatch a b e <;> simp [h]
    · intro e _ hp
      by_cases h : edgeMatch a b e
      · simp only [Bool.and_eq_true] at hp
        rcases edgeMatch_ends a b e h with ⟨e1, e2⟩ | ⟨e1, e2⟩ <;> rcases hab with hab | hab <;> simp_all
      · simp [h]

theorem frames_removeNode (g' : String) (s : Store) (i : Nat) (hi : idIn (nodesOf s g') i = false) :
    Frames g' s (removeNode i s) := by
  rw [idIn_false_iff] at hi
  apply frames_of
  · unfold nodesOf removeNode
    apply filter_filter_of_imp
    intro n hn hp
    simpa using hi n (by simp [nodesOf, hn, hp])
  · unfold edgesOf removeNode
    apply filter_filter_of_imp
    intro e _ hp
    simp only [Bool.and_eq_true, idIn_iff] at hp
    obtain ⟨⟨na, hna, ea⟩, ⟨nb, hnb, eb⟩⟩ := hp
    have := hi na hna; have := hi nb hnb
    simp_all

theorem frames_delGraphNl (g g' : String) (s : Store) (h : Inv s) (hne : g' ≠ g) : Frames g' s (delGraphNl g s) := by
  apply frames_of
  · unfold nodesOf delGraphNl
    apply filter_filter_of_imp
    intro n _ hp
    cases hh : inG g n with
    | false => rfl
    | true => exact absurd (inG_unique n g' g hp hh) hne
  · unfold edgesOf delGraphNl
    apply filter_filter_of_imp
    intro e _ hp
    simp only [Bool.and_eq_true, idIn_iff] at hp
    obtain ⟨⟨na, hna, ea⟩, ⟨nb, hnb, eb⟩⟩ := hp
    simp only [nodesOf, List.mem_filter] at hna hnb
    have da := disjoint_ids s h na hna.1 g' g hna.2 (Ne.symm hne)
    have db := disjoint_ids s h nb hnb.1 g' g hnb.2 (Ne.symm hne)
    rw [ea] at da; rw [eb] at db
    simp [da, db]

theorem frames_delIfPresent (g g' : String) (s : Store) (h : Inv s) (hne : g' ≠ g) : Frames g' s (delIfPresent g s) := by
  unfold delIfPresent; split
  · exact frames_delGraphNl g g' s h hne
  · exact Frames.refl _ _

theorem frames_appendEdge (g' : String) (s : Store) (e : SEdge)
    (hab : idIn (nodesOf s g') e.a = false ∨ idIn (nodesOf s g') e.b = false) :
    Frames g' s { s with edges := s.edges ++ [e] } := by
  apply frames_of
  · rfl
  · unfold edgesOf
    rcases hab with hab | hab <;> simp [List.filter_append, hab]

theorem frames_addEdge (g' : String) (s : Store) (a b : Nat) (attrs : Props)
    (hab : idIn (nodesOf s g') a = false ∨ idIn (nodesOf s g') b = false) : Frames g' s (addEdge a b attrs s) := by
  unfold addEdge; split
  · exact frames_updEdge g' s a b _ hab
  · exact frames_appendEdge g' s ⟨a, b, attrs⟩ hab

theorem inG_blank (g g' label nid : String) (hne : g' ≠ g) :
    inG g' ⟨0, [(graphId, .str g), (propClass, .str label), (nodeId, .str nid)]⟩ = false := by
  simp only [inG, AMap.get, if_true, beq_eq_false_iff_ne, ne_eq, Option.some.injEq, Val.str.injEq]
  exact fun h => hne h.symm

theorem frames_addBlankNode (g g' label nid : String) (s : Store) (hne : g' ≠ g) : Frames g' s (addBlankNode g label nid s) := by
  apply frames_of
  · have := inG_blank g g' label nid hne
    simp only [inG] at this
    simp [nodesOf, addBlankNode, List.filter_append, inG, this]
  · rfl

theorem idIn_nodesOf_lt (s : Store) (h : Inv s) (g' : String) (i : Nat) (hi : s.nextId ≤ i) : idIn (nodesOf s g') i = false := by
  rw [idIn_false_iff]
  intro n hn e
  simp only [nodesOf, List.mem_filter] at hn
  have := h.2.1 n hn.1
  omega

theorem frames_appendGraph (g' : String) (s : Store) (h : Inv s) (ns : List Props) (es : List (Nat × Nat × Props))
    (hns : ∀ a ∈ ns, AMap.get graphId a ≠ some (.str g')) : Frames g' s (appendGraph ns es s) := by
  apply frames_of
  · simp only [nodesOf, appendGraph, List.filter_append]
    have : (relabel s.nextId ns).filter (inG g') = [] := by
      rw [List.filter_eq_nil_iff]
      intro n hn
      have key : ∀ (base : Nat) (l : List Props), (∀ a ∈ l, AMap.get graphId a ≠ some (.str g')) →
          ∀ n ∈ relabel base l, inG g' n = false := by
        intro base l
        induction l generalizing base with
        | nil => intro _ n hn; cases hn
        | cons a l ih =>
          intro hl n hn
          simp only [relabel, List.mem_cons] at hn
          rcases hn with rfl | hn
          · simpa [inG] using hl a (by simp)
          · exact ih (base + 1) (fun b hb => hl b (by simp [hb])) n hn
      simp [key s.nextId ns hns n hn]
    simp [this]
  · simp only [edgesOf, appendGraph, List.filter_append]
    have : (es.map (fun e => (⟨s.nextId + e.1, s.nextId + e.2.1, e.2.2⟩ : SEdge))).filter
        (fun e => idIn (nodesOf s g') e.a && idIn (nodesOf s g') e.b) = [] := by
      rw [List.filter_eq_nil_iff]
      intro e he
      obtain ⟨e0, _, rfl⟩ := List.mem_map.1 he
      simp [idIn_nodesOf_lt s h g' (s.nextId + e0.1) (by omega)]
    simp [this]

end FimVerif.Store
