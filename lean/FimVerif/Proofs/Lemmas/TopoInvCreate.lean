import FimVerif.Proofs.Lemmas.TopoInvRemove
import FimVerif.Proofs.Lemmas.TopoAtomicConn
/-!
# C07 — creating calls: `add_node`, `NetworkService.add_interface`, `add_link`, `connect_interface`

Each call either raises in the state it started from or extends the state by fresh nodes and edges in an explicit way
(post-state lemmas of the C09 development); `invS_grow` / `invD_grow` then give the invariant of the extended state.
-/
namespace FimVerif.Topo
open FimVerif FimVerif.M

/-! ## one fresh node, without or with the edge from its container -/

theorem pushNode_eq_grow (n : GNode) (s : Topo) : pushNode n s = grow s [n] [] := by simp [pushNode, grow]

theorem extOk_push {s : Topo} {n : GNode} (hf : ∀ m ∈ s.nodes, m.nid ≠ n.nid) (hv : nodeOk n = true) : GrowOk s [n] [] where
  fresh := by intro x hx; simp at hx; subst hx; exact hf
  nodup := by simp
  vocab := by intro x hx; simp at hx; subst hx; exact hv
  ends := by intro e he; cases he
  schema := by intro e he; cases he
  into := by intro e he; cases he
  linkNew := by intro e he; cases he

theorem invS_push {s : Topo} {n : GNode} (h : InvS s) (hf : ∀ m ∈ s.nodes, m.nid ≠ n.nid) (hv : nodeOk n = true)
    (h1 : n.cls ≠ .component) (h2 : n.cls ≠ .connectionPoint) : InvS (pushNode n s) := by
  rw [pushNode_eq_grow]
  refine invS_grow h (extOk_push hf hv) ?_ ?_ ?_ <;> intro x hx <;> simp at hx <;> subst hx
  · exact fun c => absurd c h1
  · exact fun c => absurd c h2
  · exact fun c => absurd c h2

theorem invD_push {s : Topo} {n : GNode} (h : InvD s) (hf : ∀ m ∈ s.nodes, m.nid ≠ n.nid) (hv : nodeOk n = true) :
    InvD (pushNode n s) := by
  rw [pushNode_eq_grow]
  refine invD_grow h (extOk_push hf hv) ?_ ?_ ?_ <;> intro x _ <;> simp [ownersOf, parentsOf, spPeers, linksOf, only]

theorem extOk_attach {s : Topo} {p n : GNode} {rel : Rel} (hp : p ∈ s.nodes) (hf : ∀ m ∈ s.nodes, m.nid ≠ n.nid)
    (hv : nodeOk n = true) (he : edgeOk ⟨p.ref, n.ref, rel⟩ = true) (hpl : p.cls ≠ .link) :
    GrowOk s [n] [⟨p.ref, n.ref, rel⟩] where
  fresh := by intro x hx; simp at hx; subst hx; exact hf
  nodup := by simp
  vocab := by intro x hx; simp at hx; subst hx; exact hv
  ends := by
    intro e he'; simp at he'; subst he'
    exact ⟨⟨p, by simp [hp], rfl⟩, ⟨n, by simp, rfl⟩⟩
  schema := by intro e he'; simp at he'; subst he'; exact he
  into := by intro e he'; simp at he'; subst he'; exact .inl ⟨n, by simp, rfl⟩
  linkNew := by intro e he'; simp at he'; subst he'; intro hc; exact absurd hc hpl

/-- a component under a node, a service under a node or component, an interface (not a ServicePort) under a service -/
theorem invS_attach {s : Topo} {p n : GNode} {rel : Rel} (h : InvS s) (hp : p ∈ s.nodes) (hf : ∀ m ∈ s.nodes, m.nid ≠ n.nid)
    (hv : nodeOk n = true) (he : edgeOk ⟨p.ref, n.ref, rel⟩ = true) (hpl : p.cls ≠ .link)
    (hsp : n.cls = .connectionPoint → n.typ ≠ "ServicePort") : InvS (grow s [n] [⟨p.ref, n.ref, rel⟩]) := by
  refine invS_grow h (extOk_attach hp hf hv he hpl) ?_ ?_ ?_ <;> intro x hx <;> simp at hx <;> subst hx
  · intro hc
    simp only [edgeOk, GNode.ref, hc] at he
    cases hpc : p.cls <;> cases rel <;> simp [hpc] at he <;> simp [ownersOf, only, GNode.ref, hpc, isOwnerCls]
  · intro hc
    simp only [edgeOk, GNode.ref, hc] at he
    cases hpc : p.cls <;> cases rel <;> simp [hpc] at he <;> first | exact absurd hpc hpl | simp [parentsOf, only, GNode.ref, hpc, isIfParentCls]
  · intro hc ht; exact absurd ht (hsp hc)

theorem invD_attach {s : Topo} {p n : GNode} {rel : Rel} (h : InvD s) (hp : p ∈ s.nodes) (hf : ∀ m ∈ s.nodes, m.nid ≠ n.nid)
    (hv : nodeOk n = true) (he : edgeOk ⟨p.ref, n.ref, rel⟩ = true) (hpl : p.cls ≠ .link) :
    InvD (grow s [n] [⟨p.ref, n.ref, rel⟩]) := by
  refine invD_grow h (extOk_attach hp hf hv he hpl) ?_ ?_ ?_ <;> intro x hx <;> simp at hx <;> subst hx
  · intro _; exact Nat.le_trans (List.length_filter_le _ _) (by simp [only])
  · intro _; exact Nat.le_trans (List.length_filter_le _ _) (by simp [only])
  · intro _ _
    have : linksOf (only [⟨p.ref, x.ref, rel⟩]) x.ref = [] := by
      simp only [linksOf, only, List.filter_eq_nil_iff, List.mem_singleton]
      intro e he'; subst he'
      have : (p.ref.cls == Cls.link) = false := by simpa [GNode.ref] using hpl
      simp [this]
    simp [spPeers, this]

/-- the state `ifaceNew` / `svcNew` / `compNew` leave after `add_node; add_link` from the container -/
theorem attach_state {s : Topo} (hc : ClosedOk s) {p n : GNode} {rel : Rel} (hf : ∀ m ∈ s.nodes, m.nid ≠ n.nid) :
    setEdge p.ref n.ref rel (pushNode n s) = grow s [n] [⟨p.ref, n.ref, rel⟩] := by
  have hnt : ¬ touches (pushNode n s).edges n.ref :=
    not_touches_of_closed (t := s) hc (fun m hm => ref_ne_of_nid_ne (hf m hm))
  rw [setEdge_fresh hnt]; rfl

/-! ## `Topology.add_node` -/

/-- what `add_node` does: raise in the state it found, or append one NetworkNode of the requested type and name -/
def NodePost (s : Topo) (a : NodeArgs) (r : Except Err (Nid × Nat) × Topo) : Prop :=
  (∃ e, r = (.error e, s)) ∨
  (∃ n v, (∀ m ∈ s.nodes, m.nid ≠ n.nid) ∧ n.cls = .networkNode ∧ a.ntype = some n.typ ∧ n.name = a.name ∧
     (∀ m ∈ s.nodes, m.cls = .networkNode → m.name ≠ a.name) ∧ v.1 = n.nid ∧ r = (.ok v, pushNode n s))

theorem NodePost.err {s a} (e : Err) : NodePost s a (.error e, s) := .inl ⟨e, rfl⟩

theorem nodeNew_cases (fl : Flavour) (c : Nat) (a : NodeArgs) (s : Topo) : NodePost s a (nodeNew fl c a s) := by
  unfold nodeNew
  refine ro_step (by ro) NodePost.err (fun _ _ => ?_)
  rcases hp : pick a.nid c with ⟨id, c'⟩
  simp only []
  refine ro_step (by ro) NodePost.err (fun ty hty => ?_)
  refine ro_step (by ro) NodePost.err (fun site _ => ?_)
  refine ro_step (by ro) NodePost.err (fun _ _ => ?_)
  refine ro_step (by ro) NodePost.err (fun kw _ => ?_)
  refine ro_step (by ro) NodePost.err (fun dup hdup => ?_)
  refine ro_step (by ro) NodePost.err (fun _ hg => ?_)
  refine addGNode_step (NodePost.err _) (fun n hn hfresh => ?_)
  refine .inr ⟨n, _, hfresh, by rw [hn], ?_, by rw [hn], ?_, by rw [hn], rfl⟩
  · rw [hn]; cases h : a.ntype <;> simp [need, h] at hty ⊢; exact hty
  · have hd : dup = false := by simpa using guard_ok hg
    simp only [read_apply, Prod.mk.injEq, Except.ok.injEq, and_true] at hdup
    rw [hd] at hdup
    intro m hm hc hname
    have := List.any_eq_false.mp hdup m hm
    simp [hc, hname] at this

theorem addNode_post (fl : Flavour) (c : Nat) (a : NodeArgs) (s : Topo) : NodePost s a (addNode fl c a s) := by
  unfold addNode
  refine ro_step (by ro) NodePost.err (fun _ _ => ?_)
  refine ro_step (by ro) NodePost.err (fun _ _ => ?_)
  refine ro_step (by ro) NodePost.err (fun _ _ => ?_)
  exact nodeNew_cases fl c a s

/-- the type argument is a member of the API's enum for the class (or absent): what Python's typing of the call gives -/
def TypeArgOk (c : Cls) (t : Option String) : Prop := ∀ x, t = some x → typeOk c x = true
instance (c : Cls) (t : Option String) : Decidable (TypeArgOk c t) := by
  unfold TypeArgOk
  cases t with
  | none => exact isTrue (by intro x h; cases h)
  | some y => exact if h : typeOk c y = true then isTrue (by intro x hx; cases hx; exact h) else isFalse (fun k => h (k y rfl))

theorem classOk_all (c : Cls) : classOk c = true := by cases c <;> decide

theorem invS_addNode (fl : Flavour) (c : Nat) (a : NodeArgs) (s : Topo) (ht : TypeArgOk .networkNode a.ntype) (h : InvS s) :
    InvS (addNode fl c a s).2 := by
  rcases addNode_post fl c a s with ⟨e, he⟩ | ⟨n, v, hf, hc, hty, _, _, _, hr⟩
  · rw [he]; exact h
  · rw [hr]
    exact invS_push h hf (by simp [nodeOk, classOk_all, hc, ht n.typ hty]) (by simp [hc]) (by simp [hc])

theorem invD_addNode (fl : Flavour) (c : Nat) (a : NodeArgs) (s : Topo) (ht : TypeArgOk .networkNode a.ntype) (h : InvD s) :
    InvD (addNode fl c a s).2 := by
  rcases addNode_post fl c a s with ⟨e, he⟩ | ⟨n, v, hf, hc, hty, _, _, _, hr⟩
  · rw [he]; exact h
  · rw [hr]
    exact invD_push h hf (by simp [nodeOk, classOk_all, hc, ht n.typ hty])

/-- the name scopes after a NetworkNode with a new name was appended -/
theorem namesOk_pushNode {s : Topo} {n : GNode} (h : NamesOk s) (hc : ClosedOk s) (hf : ∀ m ∈ s.nodes, m.nid ≠ n.nid)
    (hcls : n.cls = .networkNode) (hname : ∀ m ∈ s.nodes, m.cls = .networkNode → m.name ≠ n.name) : NamesOk (pushNode n s) := by
  have hne := no_edge_into_new hc hf
  have hkids : ∀ (p : Ref) (rel : Rel) (c : Cls), kids (pushNode n s) p rel c = kids s p rel c := by
    intro p rel c
    simp only [kids, pushNode, List.filter_append]
    have : [n].filter (fun m => m.cls == c && s.edges.any (fun e => e.rel == rel && e.a == p && e.b == m.ref)) = [] := by
      simp only [List.filter_eq_nil_iff, List.mem_singleton]
      intro m hm; subst hm
      have : s.edges.any (fun e => e.rel == rel && e.a == p && e.b == m.ref) = false := by
        rw [List.any_eq_false]; intro e he; simp [(hne e he).2]
      simp [this]
    rw [this, List.append_nil]
  have hnew : ∀ (rel : Rel) (c : Cls), kids s n.ref rel c = [] := by
    intro rel c
    simp only [kids, List.filter_eq_nil_iff]
    intro m _
    have : s.edges.any (fun e => e.rel == rel && e.a == n.ref && e.b == m.ref) = false := by
      rw [List.any_eq_false]; intro e he; simp [(hne e he).1]
    simp [this]
  refine ⟨?_, ?_, ?_, ?_, ?_, ?_⟩
  · show ((List.filter _ (s.nodes ++ [n])).map (·.name)).Nodup
    simp only [List.filter_append, List.map_append]
    have : [n].filter (fun m => m.cls == Cls.networkNode) = [n] := by simp [hcls]
    rw [this, List.nodup_append]
    refine ⟨h.nodes, by simp, ?_⟩
    intro a ha b hb
    simp at hb; subst hb
    obtain ⟨m, hm, rfl⟩ := List.mem_map.mp ha
    have hm' := List.mem_filter.mp hm
    exact hname m hm'.1 (by simpa using hm'.2)
  · show ((List.filter _ (s.nodes ++ [n])).map (·.name)).Nodup
    simp only [List.filter_append]
    have : [n].filter (fun m => m.cls == Cls.link) = [] := by simp [hcls]
    rw [this, List.append_nil]; exact h.links
  · intro p hp
    rw [hkids]
    rcases List.mem_append.mp hp with hp | hp
    · exact h.comps p hp
    · simp at hp; subst hp; rw [hnew]; simp
  · intro p hp
    rw [hkids]
    rcases List.mem_append.mp hp with hp | hp
    · exact h.svcs p hp
    · simp at hp; subst hp; rw [hnew]; simp
  · show ((List.filter _ (s.nodes ++ [n])).map (·.name)).Nodup
    simp only [List.filter_append]
    have : [n].filter (fun m => m.cls == Cls.networkService && !hasParent (pushNode n s) m.ref) = [] := by simp [hcls]
    rw [this, List.append_nil]
    exact h.topSvcs
  · intro p hp hpc
    rw [hkids]
    rcases List.mem_append.mp hp with hp | hp
    · exact h.cps p hp hpc
    · simp at hp; subst hp; rw [hnew]; simp

/-- `add_node` keeps the whole invariant of the statement, name scopes included -/
theorem inv_addNode_full (fl : Flavour) (c : Nat) (a : NodeArgs) (s : Topo) (ht : TypeArgOk .networkNode a.ntype) (h : Inv s) :
    Inv (addNode fl c a s).2 := by
  rcases addNode_post fl c a s with ⟨e, he⟩ | ⟨n, v, hf, hc, hty, hnm, hnames, _, hr⟩
  · rw [he]; exact h
  · rw [hr]
    refine ⟨invS_push h.struct hf (by simp [nodeOk, classOk_all, hc, ht n.typ hty]) (by simp [hc]) (by simp [hc]), ?_⟩
    exact namesOk_pushNode h.names h.struct.closed hf hc (by rw [hnm]; exact hnames)

/-! ## `NetworkService.add_interface` -/

/-- the handle refers to an element of its class, if to anything (no id recycled under another class) -/
def HandleOk (s : Topo) (nid : Nid) (c : Cls) : Prop := ∀ m ∈ s.nodes, m.nid = nid → m.cls = c
instance (s : Topo) (nid : Nid) (c : Cls) : Decidable (HandleOk s nid c) := by unfold HandleOk; infer_instance

def NotSp (t : Option String) : Prop := t ≠ some "ServicePort"
instance (t : Option String) : Decidable (NotSp t) := by unfold NotSp; infer_instance

theorem ifaceNew_inv {P : Topo → Prop} (fl : Flavour) (c : Nat) (name : String) (nid : Option Nid) (p : Nid) (itype : Option String)
    (props : List PropArg) (s : Topo) (hcl : ClosedOk s) (hs : P s)
    (hatt : ∀ pn n, pn ∈ s.nodes → pn.nid = p → (∀ m ∈ s.nodes, m.nid ≠ n.nid) → n.cls = .connectionPoint → itype = some n.typ →
      P (grow s [n] [⟨pn.ref, n.ref, .connects⟩])) :
    P (ifaceNew fl c name nid (some p) itype props s).2 := by
  rcases ifaceNew_cases fl c name nid p itype props s with ⟨e, he⟩ | ⟨pn, n, hpn, hnew, hncls, _, _, htyp, _, hres⟩
  · rw [he]; exact hs
  · rw [hres]
    obtain ⟨hm, hi, _⟩ := findNode_ok hpn
    show P (setEdge pn.ref n.ref .connects (pushNode n s))
    rw [attach_state hcl hnew]
    exact hatt pn n hm hi hnew hncls htyp

theorem invS_nsAddInterface (fl : Flavour) (c : Nat) (svc : Nid) (cache : Cache) (name : String) (nid : Option Nid)
    (itype : Option String) (props : List PropArg) (s : Topo) (hh : HandleOk s svc .networkService)
    (ht : TypeArgOk .connectionPoint itype) (hsp : NotSp itype) (h : InvS s) :
    InvS (nsAddInterface fl c svc cache name nid itype props s).2 := by
  unfold nsAddInterface
  refine ro_step (Q := fun r => InvS r.2) (by ro) (fun _ => h) (fun _ _ => ?_)
  refine ifaceNew_inv fl c name nid svc itype props s h.closed h (fun pn n hm hi hnew hncls htyp => ?_)
  have hpc : pn.cls = .networkService := hh pn hm hi
  refine invS_attach h hm hnew (by simp [nodeOk, classOk_all, hncls, ht n.typ htyp]) (by simp [edgeOk, GNode.ref, hpc, hncls])
    (by simp [hpc]) (fun _ hsp' => hsp (by rw [htyp, hsp']))

theorem invD_nsAddInterface (fl : Flavour) (c : Nat) (svc : Nid) (cache : Cache) (name : String) (nid : Option Nid)
    (itype : Option String) (props : List PropArg) (s : Topo) (hh : HandleOk s svc .networkService)
    (ht : TypeArgOk .connectionPoint itype) (h : InvD s) :
    InvD (nsAddInterface fl c svc cache name nid itype props s).2 := by
  unfold nsAddInterface
  refine ro_step (Q := fun r => InvD r.2) (by ro) (fun _ => h) (fun _ _ => ?_)
  refine ifaceNew_inv fl c name nid svc itype props s h.closed h (fun pn n hm hi hnew hncls htyp => ?_)
  have hpc : pn.cls = .networkService := hh pn hm hi
  exact invD_attach h hm hnew (by simp [nodeOk, classOk_all, hncls, ht n.typ htyp]) (by simp [edgeOk, GNode.ref, hpc, hncls])
    (by simp [hpc])

/-! ## the vocabulary conjunct alone, compositionally (every `add_node` of a call carries an allowed type) -/

theorem preserves_vocab_addGNode {n : GNode} (h : nodeOk n = true) : Preserves VocabOk (addGNode n) := by
  constructor; intro s hs
  rcases addGNode_cases n s with he | ⟨he, _⟩
  · rw [he]; exact hs
  · rw [he]; intro m hm
    simp only [pushNode, List.mem_append, List.mem_singleton] at hm
    rcases hm with hm | rfl
    · exact hs m hm
    · exact h

theorem preserves_vocab_addEdge (a : Nid) (r : Rel) (b : Nid) : Preserves VocabOk (addEdge a r b) := by
  unfold addEdge
  refine Preserves.bind (ReadOnly.preserves (readOnly_findNode _)) (fun _ => ?_)
  refine Preserves.bind (ReadOnly.preserves (readOnly_findNode _)) (fun _ => ?_)
  exact preserves_modify (fun s h => h)

/-- bind rule that remembers which value the read-only first step returned -/
theorem preserves_bind_ro {P : Topo → Prop} {α β : Type} {m : M Topo α} {f : α → M Topo β} (hm : ReadOnly m)
    (hf : ∀ a, (∃ s, m s = (.ok a, s)) → Preserves P (f a)) : Preserves P (m >>= f) := by
  constructor; intro s hs
  rcases cases_run m s with ⟨a, s', h⟩ | ⟨e, s', h⟩
  · have := ro_run hm h; subst this
    rw [bind_ok h]; exact (hf a ⟨_, h⟩).h _ hs
  · have := ro_run hm h; subst this
    rw [bind_err h]; exact hs

theorem need_some {α : Type} {o : Option α} {e : Err} {a : α} (h : ∃ s : Topo, need o e s = (.ok a, s)) : o = some a := by
  obtain ⟨s, h⟩ := h
  cases o <;> simp [need] at h ⊢; exact h

theorem preserves_vocab_ifaceNew (fl : Flavour) (c : Nat) (name : String) (nid : Option Nid) (p : Option Nid)
    (itype : Option String) (props : List PropArg) (ht : TypeArgOk .connectionPoint itype) :
    Preserves VocabOk (ifaceNew fl c name nid p itype props) := by
  unfold ifaceNew
  refine Preserves.bind (ReadOnly.preserves (by ro)) (fun _ => ?_)
  rcases pick nid c with ⟨id, c'⟩
  dsimp only
  refine preserves_bind_ro (by ro) (fun ty hty => ?_)
  have hty := need_some hty
  refine Preserves.bind (ReadOnly.preserves (by ro)) (fun _ => ?_)
  refine Preserves.bind (ReadOnly.preserves (by ro)) (fun _ => ?_)
  have hn : nodeOk ⟨.connectionPoint, id, name, ty, dictUpdate [("StitchNode", "false")] ‹Props›⟩ = true := by
    simp [nodeOk, classOk_all, ht ty hty]
  cases p with
  | none =>
    refine Preserves.bind (preserves_vocab_addGNode hn) (fun _ => ?_)
    exact ReadOnly.preserves (by ro)
  | some q =>
    simp only [flag_ifaceParentPrecheck, if_true]
    refine Preserves.bind (ReadOnly.preserves (readOnly_findNode _)) (fun _ => ?_)
    first
      | refine Preserves.bind (preserves_vocab_addGNode hn) (fun _ => ?_)
      | (refine Preserves.bind (ReadOnly.preserves (readOnly_pure _)) (fun _ => ?_)
         refine Preserves.bind (preserves_vocab_addGNode hn) (fun _ => ?_))
    exact Preserves.bind (preserves_vocab_addEdge _ _ _) (fun _ => ReadOnly.preserves (readOnly_pure _))

theorem preserves_vocab_linkNew (fl : Flavour) (c : Nat) (name : String) (nid : Option Nid) (ltype : Option String)
    (ifs : Option (List IfArg)) (tech : Option String) (props : List PropArg) (ht : TypeArgOk .link ltype) :
    Preserves VocabOk (linkNew fl c name nid ltype ifs tech props) := by
  unfold linkNew
  refine Preserves.bind (ReadOnly.preserves (by ro)) (fun _ => ?_)
  rcases pick nid c with ⟨id, c'⟩
  dsimp only
  refine preserves_bind_ro (by ro) (fun ty hty => ?_)
  have hty := need_some hty
  refine Preserves.bind (ReadOnly.preserves (by ro)) (fun l => ?_)
  refine Preserves.bind (ReadOnly.preserves (by ro)) (fun _ => ?_)
  refine Preserves.bind (ReadOnly.preserves (by ro)) (fun _ => ?_)
  refine Preserves.bind (ReadOnly.preserves (by ro)) (fun _ => ?_)
  refine Preserves.bind (ReadOnly.preserves (by ro)) (fun _ => ?_)
  simp only [flag_linkPrecheck, if_true]
  refine Preserves.bind (ReadOnly.preserves (readOnly_forEach (fun b => by cases b <;> ro))) (fun _ => ?_)
  refine Preserves.bind (ReadOnly.preserves (readOnly_forEach (fun b => by cases b <;> ro))) (fun _ => ?_)
  refine Preserves.bind (preserves_vocab_addGNode (by simp [nodeOk, classOk_all, ht ty hty])) (fun _ => ?_)
  refine Preserves.bind ?_ (fun _ => ReadOnly.preserves (readOnly_pure _))
  refine preserves_forEach (fun i => ?_)
  cases i
  · exact preserves_vocab_addEdge _ _ _
  · exact ReadOnly.preserves (readOnly_raise _)

/-! ## `Topology.add_link` -/

/-- edges from the link `ln` into interfaces named in `l` -/
def LinkEdgesOf (ln : GNode) (l : List IfArg) (E : List GEdge) : Prop :=
  ∀ e ∈ E, e.a = ln.ref ∧ e.rel = .connects ∧ ∃ iid nm, IfArg.iface iid nm ∈ l ∧ e.b = ⟨.connectionPoint, iid⟩

theorem linkEdges_grow {s : Topo} (hc : ClosedOk s) {ln : GNode} (hf : ∀ m ∈ s.nodes, m.nid ≠ ln.nid) (l0 : List IfArg) :
    ∀ (l : List IfArg), (∀ i ∈ l, i ∈ l0) → ∀ (E : List GEdge), LinkEdgesOf ln l0 E →
      ∃ E', LinkEdgesOf ln l0 E' ∧ linkEdges ln l (grow s [ln] E) = grow s [ln] E' := by
  intro l
  induction l with
  | nil => intro _ E hE; exact ⟨E, hE, rfl⟩
  | cons i l ih =>
    intro hl E hE
    have hl' : ∀ j ∈ l, j ∈ l0 := fun j hj => hl j (List.mem_cons_of_mem _ hj)
    cases i with
    | bogus => exact ih hl' E hE
    | iface iid nm =>
      have hstep : linkEdges ln (IfArg.iface iid nm :: l) (grow s [ln] E) =
          linkEdges ln l (setEdge ln.ref ⟨.connectionPoint, iid⟩ .connects (grow s [ln] E)) := rfl
      rw [hstep]
      have hs : setEdge ln.ref ⟨.connectionPoint, iid⟩ .connects (grow s [ln] E) =
          grow s [ln] (E.filter (fun e => !sameEnds e ln.ref ⟨.connectionPoint, iid⟩) ++ [⟨ln.ref, ⟨.connectionPoint, iid⟩, .connects⟩]) := by
        unfold setEdge grow
        simp only [List.filter_append, List.append_assoc]
        congr 2
        rw [List.filter_eq_self]
        intro e he
        have := no_edge_into_new hc hf e he
        rw [sameEnds_false_left this.1 this.2]; rfl
      rw [hs]
      refine ih hl' _ ?_
      intro e he
      rcases List.mem_append.mp he with he | he
      · exact hE e (List.mem_filter.mp he).1
      · simp at he; subst he
        exact ⟨rfl, rfl, iid, nm, hl _ (List.mem_cons_self ..), rfl⟩

/-- no interface of the list is a ServicePort of the model (`add_link` on a ServicePort gives it a second peer:
known finding, `addLink_sp_counterexample`) -/
def NoSpIn (s : Topo) (l : List IfArg) : Prop :=
  ∀ m ∈ s.nodes, m.typ = "ServicePort" → ∀ i ∈ l, ∀ iid nm, i = IfArg.iface iid nm → m.nid ≠ iid
instance (s : Topo) (l : List IfArg) : Decidable (NoSpIn s l) := by
  unfold NoSpIn
  have : ∀ (m : GNode) (i : IfArg), Decidable (∀ iid nm, i = IfArg.iface iid nm → m.nid ≠ iid) := by
    intro m i
    cases i with
    | bogus => exact isTrue (by intro _ _ h; cases h)
    | iface a b => exact if h : m.nid = a then isFalse (fun k => k a b rfl h) else isTrue (by intro _ _ e; cases e; exact h)
  infer_instance

theorem extOk_link {s : Topo} {ln : GNode} {l : List IfArg} {E : List GEdge} (hf : ∀ m ∈ s.nodes, m.nid ≠ ln.nid)
    (hlc : ln.cls = .link) (hv : nodeOk ln = true) (hp : IfacesPresent l s) (hsp : NoSpIn s l) (hE : LinkEdgesOf ln l E) :
    GrowOk s [ln] E where
  fresh := by intro x hx; simp at hx; subst hx; exact hf
  nodup := by simp
  vocab := by intro x hx; simp at hx; subst hx; exact hv
  ends := by
    intro e he
    obtain ⟨ha, _, iid, nm, hi, hb⟩ := hE e he
    obtain ⟨iid', nm', e', x, hx, hxi, hxc⟩ := hp _ hi
    cases e'
    exact ⟨⟨ln, by simp, ha.symm⟩, ⟨x, by simp [hx], by rw [hb]; simp [GNode.ref, hxi, hxc]⟩⟩
  schema := by
    intro e he
    obtain ⟨ha, hr, iid, nm, _, hb⟩ := hE e he
    simp [edgeOk, ha, hr, hb, GNode.ref, hlc]
  into := by
    intro e he
    obtain ⟨ha, _, iid, nm, hi, hb⟩ := hE e he
    refine .inr ⟨by rw [ha]; exact hlc, fun m hm ht hme => ?_⟩
    have := hsp m hm ht _ hi iid nm rfl
    rw [hb] at hme
    exact this (by simpa [GNode.ref] using congrArg Ref.nid hme)
  linkNew := by
    intro e he _
    exact ⟨ln, by simp, ((hE e he).1).symm⟩

theorem linkNew_none (fl : Flavour) (c : Nat) (name : String) (nid : Option Nid) (ltype : Option String)
    (tech : Option String) (props : List PropArg) (s : Topo) :
    ∃ e, linkNew fl c name nid ltype none tech props s = (.error e, s) := by
  unfold linkNew
  refine ro_step (Q := fun r => ∃ e, r = (.error e, s)) (by ro) (fun e => ⟨e, rfl⟩) (fun _ _ => ?_)
  rcases pick nid c with ⟨id, c'⟩
  simp only []
  refine ro_step (Q := fun r => ∃ e, r = (.error e, s)) (by ro) (fun e => ⟨e, rfl⟩) (fun _ _ => ?_)
  refine ro_step (Q := fun r => ∃ e, r = (.error e, s)) (by ro) (fun e => ⟨e, rfl⟩) (fun a ha => ?_)
  simp [need] at ha

theorem linkNew_inv {P : Topo → Prop} (fl : Flavour) (c : Nat) (name : String) (nid : Option Nid) (ltype : Option String)
    (ifs : Option (List IfArg)) (tech : Option String) (props : List PropArg) (s : Topo) (hi : IdsOk s) (hcl : ClosedOk s)
    (hvo : VocabOk s) (ht : TypeArgOk .link ltype) (hs : P s)
    (hext : ∀ l ln E, ifs = some l → (∀ m ∈ s.nodes, m.nid ≠ ln.nid) → ln.cls = .link → nodeOk ln = true → IfacesPresent l s →
      LinkEdgesOf ln l E → P (grow s [ln] E)) :
    P (linkNew fl c name nid ltype ifs tech props s).2 := by
  cases ifs with
  | none =>
    obtain ⟨e, he⟩ := linkNew_none fl c name nid ltype tech props s
    rw [he]; exact hs
  | some l =>
    have hv := (preserves_vocab_linkNew fl c name nid ltype (some l) tech props ht).h s hvo
    rcases linkNew_cases fl c name nid ltype l tech props s hi with ⟨e, he⟩ | ⟨ln, hf, hlc, _, hp, hres⟩
    · rw [he]; exact hs
    · rw [hres] at hv ⊢
      obtain ⟨E', hE', heq⟩ := linkEdges_grow hcl hf l l (fun _ h => h) [] (by intro e he; cases he)
      have hpush : pushNode ln s = grow s [ln] [] := pushNode_eq_grow ln s
      simp only [hpush] at hv ⊢
      rw [heq] at hv ⊢
      exact hext l ln E' rfl hf hlc (hv ln (by simp [grow])) hp hE'

theorem invS_addLink (fl : Flavour) (c : Nat) (name : String) (nid : Option Nid) (ltype : Option String)
    (ifs : Option (List IfArg)) (tech : Option String) (props : List PropArg) (s : Topo) (ht : TypeArgOk .link ltype)
    (hsp : ∀ l, ifs = some l → NoSpIn s l) (h : InvS s) : InvS (addLink fl c name nid ltype ifs tech props s).2 := by
  unfold addLink
  refine ro_step (Q := fun r => InvS r.2) (by ro) (fun _ => h) (fun _ _ => ?_)
  refine ro_step (Q := fun r => InvS r.2) (by ro) (fun _ => h) (fun _ _ => ?_)
  refine linkNew_inv fl c name nid ltype ifs tech props s h.ids h.closed h.vocab ht h (fun l ln E hl hf hlc hv hp hE => ?_)
  refine invS_grow h (extOk_link hf hlc hv hp (hsp l hl) hE) ?_ ?_ ?_ <;> intro x hx <;> simp at hx <;> subst hx <;> simp [hlc]

theorem invD_addLink (fl : Flavour) (c : Nat) (name : String) (nid : Option Nid) (ltype : Option String)
    (ifs : Option (List IfArg)) (tech : Option String) (props : List PropArg) (s : Topo) (ht : TypeArgOk .link ltype)
    (hsp : ∀ l, ifs = some l → NoSpIn s l) (h : InvD s) : InvD (addLink fl c name nid ltype ifs tech props s).2 := by
  unfold addLink
  refine ro_step (Q := fun r => InvD r.2) (by ro) (fun _ => h) (fun _ _ => ?_)
  refine ro_step (Q := fun r => InvD r.2) (by ro) (fun _ => h) (fun _ _ => ?_)
  refine linkNew_inv fl c name nid ltype ifs tech props s h.ids h.closed h.vocab ht h (fun l ln E hl hf hlc hv hp hE => ?_)
  refine invD_grow h (extOk_link hf hlc hv hp (hsp l hl) hE) ?_ ?_ ?_ <;> intro x hx <;> simp at hx <;> subst hx <;> simp [hlc]

/-! ## `NetworkService.connect_interface` -/

theorem preserves_vocab_connect (fl : Flavour) (c : Nat) (svc : Nid) (cache : Cache) (i : IfArg) :
    Preserves VocabOk (connectInterface fl c svc cache i) := by
  unfold connectInterface
  cases i with
  | bogus => exact ReadOnly.preserves (readOnly_raise _)
  | iface iid iname =>
    dsimp only
    refine Preserves.bind (ReadOnly.preserves (by ro)) (fun _ => ?_)
    refine Preserves.bind (ReadOnly.preserves (by ro)) (fun _ => ?_)
    refine Preserves.bind (ReadOnly.preserves (by ro)) (fun _ => ?_)
    refine Preserves.bind (ReadOnly.preserves (by ro)) (fun _ => ?_)
    refine Preserves.bind (ReadOnly.preserves (by ro)) (fun _ => ?_)
    refine Preserves.bind (ReadOnly.preserves (by ro)) (fun _ => ?_)
    simp only [flag_connectNamePrecheck, if_true]
    refine Preserves.bind (ReadOnly.preserves (readOnly_guard _ _)) (fun _ => ?_)
    refine Preserves.bind (ReadOnly.preserves (readOnly_guard _ _)) (fun _ => ?_)
    refine Preserves.bind (preserves_vocab_ifaceNew _ _ _ _ _ _ _ (by intro x hx; cases hx; decide)) (fun r => ?_)
    rcases r with ⟨cp, c1⟩
    dsimp only
    refine Preserves.bind (ReadOnly.preserves (by ro)) (fun t => ?_)
    refine Preserves.bind (preserves_vocab_linkNew _ _ _ _ _ _ _ _ ?_) (fun _ => ReadOnly.preserves (readOnly_pure _))
    intro x hx
    simp only [Option.some.injEq] at hx
    subst hx
    split <;> decide

/-- the handle cache plays no part in what `connect_interface` does to the model -/
theorem invS_connect (fl : Flavour) (c : Nat) (svc iid : Nid) (iname : String) (cache : Cache) (s : Topo)
    (hsv : HandleOk s svc .networkService) (hcp : HandleOk s iid .connectionPoint)
    (hfr : ∀ m ∈ s.nodes, m.nid ≠ .gen c ∧ m.nid ≠ .gen (c + 1))
    (hnsp : NoSpIn s [.iface iid iname]) (h : InvS s) :
    InvS (connectInterface fl c svc cache (.iface iid iname) s).2 := by
  have hv := (preserves_vocab_connect fl c svc cache (.iface iid iname)).h s h.vocab
  rcases connect_spec' fl c svc iid iname cache s h.ids h.closed hcp hfr with ⟨e, he⟩ |
    ⟨sv, fi, cp, ln, nm, hsvm, hsvi, hfim, hfii, _, hcc, hci, hct, hlc, hli, hres⟩
  · rw [he]; exact h
  · rw [hres] at hv ⊢
    have hsvc : sv.cls = .networkService := hsv sv hsvm hsvi
    have hfic : fi.cls = .connectionPoint := hcp fi hfim hfii
    have hfit : fi.typ ≠ "ServicePort" := fun ht => hnsp fi hfim ht _ (List.mem_singleton.mpr rfl) iid iname rfl hfii
    have hiid : iid ≠ .gen c := by rw [← hfii]; exact (hfr fi hfim).1
    have hcpr : cp.ref = ⟨.connectionPoint, .gen c⟩ := by simp [GNode.ref, hcc, hci]
    have hlnr : ln.ref = ⟨.link, .gen (c + 1)⟩ := by simp [GNode.ref, hlc, hli]
    have hfir : fi.ref = ⟨.connectionPoint, iid⟩ := by simp [GNode.ref, hfic, hfii]
    have hsvr : sv.ref = ⟨.networkService, svc⟩ := by simp [GNode.ref, hsvc, hsvi]
    have hx : GrowOk s [cp, ln] [⟨sv.ref, cp.ref, .connects⟩, ⟨ln.ref, fi.ref, .connects⟩, ⟨ln.ref, cp.ref, .connects⟩] := {
      fresh := by
        intro x hx m hm; simp at hx
        rcases hx with rfl | rfl
        · rw [hci]; exact (hfr m hm).1
        · rw [hli]; exact (hfr m hm).2
      nodup := by simp [hci, hli]
      vocab := by intro x hx; exact hv x (by simp [connState]; exact .inr (by simpa using hx))
      ends := by
        intro e he; simp at he
        rcases he with rfl | rfl | rfl
        · exact ⟨⟨sv, by simp [hsvm], rfl⟩, ⟨cp, by simp, rfl⟩⟩
        · exact ⟨⟨ln, by simp, rfl⟩, ⟨fi, by simp [hfim], rfl⟩⟩
        · exact ⟨⟨ln, by simp, rfl⟩, ⟨cp, by simp, rfl⟩⟩
      schema := by
        intro e he; simp at he
        rcases he with rfl | rfl | rfl <;> simp [edgeOk, hcpr, hlnr, hfir, hsvr]
      into := by
        intro e he; simp at he
        rcases he with rfl | rfl | rfl
        · exact .inl ⟨cp, by simp, rfl⟩
        · refine .inr ⟨by simp [hlnr], fun m hm ht hme => ?_⟩
          have := eq_of_nid_eq h.ids hm hfim (by simpa [GNode.ref] using congrArg Ref.nid hme)
          subst this; exact hfit ht
        · exact .inl ⟨cp, by simp, rfl⟩
      linkNew := by
        intro e he; simp at he
        rcases he with rfl | rfl | rfl
        · intro hc; simp [hsvr] at hc
        · intro _; exact ⟨ln, by simp, rfl⟩
        · intro _; exact ⟨ln, by simp, rfl⟩ }
    show InvS (grow s [cp, ln] _)
    refine invS_grow h hx ?_ ?_ ?_ <;> intro x hx' <;> simp at hx' <;> rcases hx' with rfl | rfl
    · simp [hcc]
    · simp [hlc]
    · intro _
      simp [parentsOf, only, hcpr, hlnr, hfir, hsvr, isIfParentCls, hiid]
    · simp [hlc]
    · intro _ _
      simp [spPeers, linksOf, only, hcpr, hlnr, hfir, hsvr, List.filter_cons, hiid]
    · simp [hlc]

theorem invD_connect (fl : Flavour) (c : Nat) (svc iid : Nid) (iname : String) (cache : Cache) (s : Topo)
    (hsv : HandleOk s svc .networkService) (hcp : HandleOk s iid .connectionPoint)
    (hfr : ∀ m ∈ s.nodes, m.nid ≠ .gen c ∧ m.nid ≠ .gen (c + 1))
    (hnsp : NoSpIn s [.iface iid iname]) (h : InvD s) :
    InvD (connectInterface fl c svc cache (.iface iid iname) s).2 := by
  have hv := (preserves_vocab_connect fl c svc cache (.iface iid iname)).h s h.vocab
  rcases connect_spec' fl c svc iid iname cache s h.ids h.closed hcp hfr with ⟨e, he⟩ |
    ⟨sv, fi, cp, ln, nm, hsvm, hsvi, hfim, hfii, _, hcc, hci, hct, hlc, hli, hres⟩
  · rw [he]; exact h
  · rw [hres] at hv ⊢
    have hsvc : sv.cls = .networkService := hsv sv hsvm hsvi
    have hfic : fi.cls = .connectionPoint := hcp fi hfim hfii
    have hfit : fi.typ ≠ "ServicePort" := fun ht => hnsp fi hfim ht _ (List.mem_singleton.mpr rfl) iid iname rfl hfii
    have hiid : iid ≠ .gen c := by rw [← hfii]; exact (hfr fi hfim).1
    have hcpr : cp.ref = ⟨.connectionPoint, .gen c⟩ := by simp [GNode.ref, hcc, hci]
    have hlnr : ln.ref = ⟨.link, .gen (c + 1)⟩ := by simp [GNode.ref, hlc, hli]
    have hfir : fi.ref = ⟨.connectionPoint, iid⟩ := by simp [GNode.ref, hfic, hfii]
    have hsvr : sv.ref = ⟨.networkService, svc⟩ := by simp [GNode.ref, hsvc, hsvi]
    have hx : GrowOk s [cp, ln] [⟨sv.ref, cp.ref, .connects⟩, ⟨ln.ref, fi.ref, .connects⟩, ⟨ln.ref, cp.ref, .connects⟩] := {
      fresh := by
        intro x hx m hm; simp at hx
        rcases hx with rfl | rfl
        · rw [hci]; exact (hfr m hm).1
        · rw [hli]; exact (hfr m hm).2
      nodup := by simp [hci, hli]
      vocab := by intro x hx; exact hv x (by simp [connState]; exact .inr (by simpa using hx))
      ends := by
        intro e he; simp at he
        rcases he with rfl | rfl | rfl
        · exact ⟨⟨sv, by simp [hsvm], rfl⟩, ⟨cp, by simp, rfl⟩⟩
        · exact ⟨⟨ln, by simp, rfl⟩, ⟨fi, by simp [hfim], rfl⟩⟩
        · exact ⟨⟨ln, by simp, rfl⟩, ⟨cp, by simp, rfl⟩⟩
      schema := by
        intro e he; simp at he
        rcases he with rfl | rfl | rfl <;> simp [edgeOk, hcpr, hlnr, hfir, hsvr]
      into := by
        intro e he; simp at he
        rcases he with rfl | rfl | rfl
        · exact .inl ⟨cp, by simp, rfl⟩
        · refine .inr ⟨by simp [hlnr], fun m hm ht hme => ?_⟩
          have := eq_of_nid_eq h.ids hm hfim (by simpa [GNode.ref] using congrArg Ref.nid hme)
          subst this; exact hfit ht
        · exact .inl ⟨cp, by simp, rfl⟩
      linkNew := by
        intro e he; simp at he
        rcases he with rfl | rfl | rfl
        · intro hc; simp [hsvr] at hc
        · intro _; exact ⟨ln, by simp, rfl⟩
        · intro _; exact ⟨ln, by simp, rfl⟩ }
    show InvD (grow s [cp, ln] _)
    refine invD_grow h hx ?_ ?_ ?_ <;> intro x hx' <;> simp at hx' <;> rcases hx' with rfl | rfl
    · simp [hcc]
    · simp [hlc]
    · intro _
      simp [parentsOf, only, hcpr, hlnr, hfir, hsvr, isIfParentCls, hiid]
    · simp [hlc]
    · intro _ _
      simp [spPeers, linksOf, only, hcpr, hlnr, hfir, hsvr, List.filter_cons, hiid]
    · simp [hlc]

end FimVerif.Topo
