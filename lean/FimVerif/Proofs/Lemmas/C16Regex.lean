import FimVerif.Model.Regex
/-! Lemmas for `matches_iff` (nullable / derivative characterise the language). Core Lean only. -/
namespace FimVerif.Regex

theorem pow_nil (P : List Char → Prop) (k : Nat) : Pow P k [] ↔ k = 0 ∨ P [] := by
  induction k with
  | zero => simp [Pow]
  | succ k ih =>
    constructor
    · rintro ⟨u, v, h, hu, _⟩
      have : u = [] := by
        cases u with
        | nil => rfl
        | cons a t => simp at h
      subst this; exact Or.inr hu
    · intro h
      cases h with
      | inl h => omega
      | inr h => exact ⟨[], [], rfl, h, ih.mpr (Or.inr h)⟩

theorem pow_pad {P : List Char → Prop} {k : Nat} {v : List Char} (h0 : P []) (h : Pow P k v) : Pow P (k + 1) v :=
  ⟨[], v, rfl, h0, h⟩

/-- A non-empty word of the k-th power starts with a non-empty factor; the rest is a (k-1)-th power. -/
theorem pow_cons {P : List Char → Prop} {c : Char} : ∀ {k : Nat} {s : List Char}, Pow P k (c :: s) →
    ∃ u v, s = u ++ v ∧ P (c :: u) ∧ Pow P (k - 1) v := by
  intro k
  induction k with
  | zero => intro s h; simp [Pow] at h
  | succ k ih =>
    intro s h
    obtain ⟨u', v', hw, hu, hv⟩ := h
    cases u' with
    | nil =>
      simp at hw; subst hw
      obtain ⟨u, v, hs, hcu, hp⟩ := ih hv
      refine ⟨u, v, hs, hcu, ?_⟩
      cases k with
      | zero => simp [Pow] at hv
      | succ k => exact pow_pad hu hp
    | cons a t =>
      simp at hw
      obtain ⟨rfl, rfl⟩ := hw
      exact ⟨t, v', rfl, hu, hv⟩

theorem pow_cons_mk {P : List Char → Prop} {c : Char} {k : Nat} {u v : List Char}
    (hu : P (c :: u)) (hv : Pow P k v) : Pow P (k + 1) (c :: (u ++ v)) :=
  ⟨c :: u, v, rfl, hu, hv⟩

theorem L_mkCat (a b : Re) (w : List Char) : (mkCat a b).L w ↔ (Re.cat a b).L w := by
  cases a with
  | eps =>
    simp only [mkCat, Re.L]
    constructor
    · intro h; exact ⟨[], w, rfl, rfl, h⟩
    · rintro ⟨u, v, rfl, rfl, h⟩; exact h
  | _ => simp [mkCat, Re.L]

theorem L_mkAlt (a b : Re) (w : List Char) : (mkAlt a b).L w ↔ (Re.alt a b).L w := by
  cases a <;> cases b <;> simp [mkAlt, Re.L]

theorem nullable_iff (r : Re) : r.nullable = true ↔ r.L [] := by
  induction r with
  | empty => simp [Re.nullable, Re.L]
  | eps => simp [Re.nullable, Re.L]
  | chr p => simp [Re.nullable, Re.L]
  | cat a b iha ihb =>
    simp only [Re.nullable, Re.L, Bool.and_eq_true, iha, ihb]
    constructor
    · rintro ⟨ha, hb⟩; exact ⟨[], [], rfl, ha, hb⟩
    · rintro ⟨u, v, h, ha, hb⟩
      have hu : u = [] := by cases u with
        | nil => rfl
        | cons x t => simp at h
      subst hu
      have hv : v = [] := by simpa using h.symm
      subst hv; exact ⟨ha, hb⟩
  | alt a b iha ihb => simp [Re.nullable, Re.L, iha, ihb]
  | star a _ => simp only [Re.nullable, Re.L, true_iff]; exact ⟨0, rfl⟩
  | rep a lo hi iha =>
    simp only [Re.nullable, Re.L, Bool.and_eq_true, Bool.or_eq_true, decide_eq_true_eq, beq_iff_eq, iha, pow_nil]
    constructor
    · rintro ⟨hle, h⟩
      cases h with
      | inl h => exact ⟨0, by omega, by omega, Or.inl rfl⟩
      | inr h => exact ⟨lo, Nat.le_refl _, hle, Or.inr h⟩
    · rintro ⟨k, h1, h2, h⟩
      refine ⟨by omega, ?_⟩
      cases h with
      | inl h => left; omega
      | inr h => exact Or.inr h

theorem cat_cons (a b : Re) (c : Char) (s : List Char) :
    (Re.cat a b).L (c :: s) ↔ (∃ u v, s = u ++ v ∧ a.L (c :: u) ∧ b.L v) ∨ (a.L [] ∧ b.L (c :: s)) := by
  simp only [Re.L]
  constructor
  · rintro ⟨u, v, h, ha, hb⟩
    cases u with
    | nil => simp at h; subst h; exact Or.inr ⟨ha, hb⟩
    | cons x t =>
      simp at h; obtain ⟨rfl, rfl⟩ := h
      exact Or.inl ⟨t, v, rfl, ha, hb⟩
  · rintro (⟨u, v, rfl, ha, hb⟩ | ⟨ha, hb⟩)
    · exact ⟨c :: u, v, rfl, ha, hb⟩
    · exact ⟨[], c :: s, rfl, ha, hb⟩

theorem der_iff (c : Char) (r : Re) : ∀ s, (r.der c).L s ↔ r.L (c :: s) := by
  induction r with
  | empty => intro s; simp [Re.der, Re.L]
  | eps => intro s; simp [Re.der, Re.L]
  | chr p =>
    intro s
    simp only [Re.der]
    by_cases h : p c = true
    · rw [if_pos h]
      simp only [Re.L]
      constructor
      · rintro rfl; exact ⟨c, rfl, h⟩
      · rintro ⟨x, hx, _⟩
        simp at hx; exact hx.2
    · rw [if_neg h]
      simp only [Re.L, false_iff]
      rintro ⟨x, hx, hp⟩
      simp at hx; obtain ⟨rfl, _⟩ := hx; exact h hp
  | alt a b iha ihb => intro s; simp [Re.der, L_mkAlt, Re.L, iha, ihb]
  | cat a b iha ihb =>
    intro s
    rw [cat_cons]
    simp only [Re.der]
    by_cases hn : a.nullable = true
    · have hn' := (nullable_iff a).mp hn
      simp only [hn, if_true, L_mkAlt, Re.L, L_mkCat, iha, ihb, hn', true_and]
    · have hn' : ¬ a.L [] := fun h => hn ((nullable_iff a).mpr h)
      rw [if_neg hn]
      simp only [L_mkCat, Re.L, iha, hn', false_and, or_false]
  | star a iha =>
    intro s
    simp only [Re.der, L_mkCat, Re.L, iha]
    constructor
    · rintro ⟨u, v, rfl, hu, k, hk⟩
      exact ⟨k + 1, pow_cons_mk hu hk⟩
    · rintro ⟨k, hk⟩
      obtain ⟨u, v, hs, hu, hv⟩ := pow_cons hk
      exact ⟨u, v, hs, hu, k - 1, hv⟩
  | rep a lo hi iha =>
    intro s
    simp only [Re.der]
    by_cases hz : hi = 0
    · subst hz
      simp only [if_true, Re.L, false_iff]
      rintro ⟨k, _, hk, hp⟩
      have : k = 0 := by omega
      subst this; simp [Pow] at hp
    · simp only [hz, if_false, L_mkCat, Re.L, iha]
      constructor
      · rintro ⟨u, v, rfl, hu, k, h1, h2, hk⟩
        exact ⟨k + 1, by omega, by omega, pow_cons_mk hu hk⟩
      · rintro ⟨k, h1, h2, hk⟩
        have hk0 : k ≠ 0 := by
          intro h; subst h; simp [Pow] at hk
        obtain ⟨u, v, hs, hu, hv⟩ := pow_cons hk
        exact ⟨u, v, hs, hu, k - 1, by omega, by omega, hv⟩

end FimVerif.Regex
