import FimVerif.Proofs.Lemmas.C14World
namespace FimVerif.Cbm

/-! ### a combined model built by merges satisfies the invariant for exactly those models -/

theorem mergeAll_Tracks {pool : List Adm} : ∀ {as : List Adm} {c g : Graph} {live : List Adm}, Tracks pool c live →
    (∀ a ∈ as, a ∈ pool ∧ a.WF) → ((live ++ as).map (·.id)).Nodup → mergeAll c as = some g → Tracks pool g (live ++ as)
  | [], c, g, live, t, _, _, h => by simp [mergeAll] at h; subst h; simpa using t
  | a :: as, c, g, live, t, hw, hn, h => by
    unfold mergeAll at h
    split at h
    · rename_i g' hm
      have hid : ∀ b ∈ live, b.id ≠ a.id := by
        intro b hb he
        rw [List.map_append, List.map_cons] at hn
        have := (List.nodup_append.mp hn).2.2 b.id (List.mem_map.mpr ⟨b, hb, rfl⟩) a.id (by simp)
        exact this he
      have t' := t.merge (hw a (by simp)).1 (hw a (by simp)).2 hid hm
      have := mergeAll_Tracks t' (fun b hb => hw b (by simp [hb])) (by simpa using hn) h
      simpa using this
    · cases h

theorem firstSome_append {β : Type} (f : Adm → Option β) : ∀ (l1 l2 : List Adm),
    firstSome f (l1 ++ l2) = (firstSome f l1).or (firstSome f l2)
  | [], l2 => by simp [firstSome]
  | a :: l1, l2 => by simp [firstSome, firstSome_append f l1 l2, Option.or_assoc]

theorem firstSome_none {β : Type} (f : Adm → Option β) : ∀ (l : List Adm), (∀ a ∈ l, f a = none) → firstSome f l = none
  | [], _ => rfl
  | a :: l, h => by simp [firstSome, h a (by simp), firstSome_none f l (fun b hb => h b (by simp [hb]))]

theorem firstSome_isSome {β : Type} (f : Adm → Option β) : ∀ (l : List Adm), (∃ a ∈ l, (f a).isSome = true) →
    (firstSome f l).isSome = true
  | [], h => by obtain ⟨a, ha, _⟩ := h; cases ha
  | a :: l, h => by
    rw [firstSome]
    cases hfa : f a with
    | some v => rfl
    | none =>
      obtain ⟨b, hb, hbs⟩ := h
      simp only [List.mem_cons] at hb
      rcases hb with rfl | hb
      · rw [hfa] at hbs; cases hbs
      · simpa using firstSome_isSome f l ⟨b, hb, hbs⟩

theorem filter_id_ne {pre post : List Adm} {a : Adm} (hn : ((pre ++ a :: post).map (·.id)).Nodup) :
    (pre ++ a :: post).filter (fun b => b.id != a.id) = pre ++ post := by
  rw [List.map_append, List.map_cons] at hn
  obtain ⟨h1, h2, h3⟩ := List.nodup_append.mp hn
  rw [List.nodup_cons] at h2
  rw [List.filter_append, List.filter_cons]
  have e1 : pre.filter (fun b => b.id != a.id) = pre := by
    apply List.filter_eq_self.mpr
    intro b hb
    have := h3 b.id (List.mem_map.mpr ⟨b, hb, rfl⟩) a.id (by simp)
    simpa using this
  have e2 : post.filter (fun b => b.id != a.id) = post := by
    apply List.filter_eq_self.mpr
    intro b hb
    have : a.id ≠ b.id := fun e => h2.1 (e ▸ List.mem_map.mpr ⟨b, hb, rfl⟩)
    simpa using this.symm
  simp [e1, e2]

/-- what is left after unmerging model `a` from a combined model built from `pre ++ a :: post`, against the combined
model `g0` built without `a` -/
structure UnmergedVs (pre post : List Adm) (a : Adm) (g g' g0 : Graph) : Prop where
  has : ∀ i, g'.has i = g0.has i
  prov : ∀ i, g'.provOf i = g0.provOf i
  ldel : ∀ i, (g'.ldelOf i).norm = (g0.ldelOf i).norm
  cdel : ∀ i, (g'.cdelOf i).norm = (g0.cdelOf i).norm
  /-- known finding `edge-between-shared-nodes-stays`: `a`'s connections between elements that others contribute stay -/
  hasEdge : ∀ x y, g'.hasEdge x y = (g0.hasEdge x y || (a.g.hasEdge x y && g0.has x && g0.has y))
  /-- known finding `shared-node-keeps-unmerged-model-properties`: survivors keep the data they had -/
  propsKept : ∀ i, g'.propsOf i = if g0.has i then g.propsOf i else none
  props : ∀ i, (a.g.has i = false ∨ pre.any (fun b => b.g.has i) = true) → g'.propsOf i = g0.propsOf i
  edgeKept : ∀ x y, g'.edgeData x y = if g0.has x && g0.has y then g.edgeData x y else none
  edgeData : ∀ x y, (a.g.hasEdge x y = false ∨ pre.any (fun b => b.g.hasEdge x y) = true) → g'.edgeData x y = g0.edgeData x y

theorem propsOf_none_of_not_has {g : Graph} {i : String} (h : g.has i = false) : g.propsOf i = none := by
  have := propsOf_isSome g i
  rw [h] at this
  cases hp : g.propsOf i with
  | none => rfl
  | some _ => rw [hp] at this; cases this

theorem edgeData_none_of_not_hasEdge {g : Graph} {x y : String} (h : g.hasEdge x y = false) : g.edgeData x y = none := by
  have := edgeData_isSome g x y
  rw [h] at this
  cases hp : g.edgeData x y with
  | none => rfl
  | some _ => rw [hp] at this; cases this

/-- **unmerge of any previously merged model** (not only the last one) -/
theorem unmerge_any {pre post : List Adm} {a : Adm} {g : Graph} (hw : ∀ b ∈ pre ++ a :: post, b.WF)
    (hn : ((pre ++ a :: post).map (·.id)).Nodup) (h : mergeAll Graph.empty (pre ++ a :: post) = some g) :
    ∃ g' g0, unmerge g a.id = (none, g') ∧ mergeAll Graph.empty (pre ++ post) = some g0 ∧ UnmergedVs pre post a g g' g0 := by
  have hw0 : ∀ b ∈ pre ++ post, b.WF := fun b hb => hw b (by
    rcases List.mem_append.mp hb with h | h
    · exact List.mem_append.mpr (Or.inl h)
    · exact List.mem_append.mpr (Or.inr (List.mem_cons_of_mem _ h)))
  have hn0 : ((pre ++ post).map (·.id)).Nodup := by
    rw [← filter_id_ne hn]
    exact List.Pairwise.map _ (fun _ _ h => h) (List.Pairwise.filter _ (List.pairwise_map.mp hn))
  -- the model without `a` merges as well
  have hcomp : Compat Graph.empty (pre ++ a :: post) = true := (mergeAll_succeeds_iff Graph.empty_WF hw).mp (by rw [h]; rfl)
  have hcomp0 : Compat Graph.empty (pre ++ post) = true := by
    rw [Compat_iff] at hcomp ⊢
    refine ⟨fun b hb => hcomp.1 b (by
      rcases List.mem_append.mp hb with h | h
      · exact List.mem_append.mpr (Or.inl h)
      · exact List.mem_append.mpr (Or.inr (List.mem_cons_of_mem _ h))), ?_⟩
    have := hcomp.2
    rw [List.pairwise_append] at this ⊢
    exact ⟨this.1, (List.pairwise_cons.mp this.2.1).2, fun x hx y hy => this.2.2 x hx y (List.mem_cons_of_mem _ hy)⟩
  obtain ⟨g0, hg0⟩ := Option.isSome_iff_exists.mp ((mergeAll_succeeds_iff Graph.empty_WF hw0).mpr hcomp0)
  have pool := pre ++ a :: post
  have t : Tracks (pre ++ a :: post) g ([] ++ (pre ++ a :: post)) :=
    mergeAll_Tracks (Tracks.empty _) (fun b hb => ⟨hb, hw b hb⟩) (by simpa using hn) h
  have t0 : Tracks (pre ++ post) g0 ([] ++ (pre ++ post)) :=
    mergeAll_Tracks (Tracks.empty _) (fun b hb => ⟨hb, hw0 b hb⟩) (by simpa using hn0) hg0
  simp only [List.nil_append] at t t0
  have hne : g.nodes ≠ [] := by
    have hane := t.nonempty a (by simp)
    cases hna : a.g.nodes with
    | nil => exact absurd hna hane
    | cons n ns =>
      have : g.has n.id = true := by
        rw [t.has]; exact List.any_eq_true.mpr ⟨a, by simp, has_iff.mpr (by simp [Graph.ids, hna])⟩
      intro hg
      simp [Graph.has, Graph.ids, hg] at this
  have hu : unmerge g a.id = (none, (unmerge g a.id).2) := by rw [← t.unmerge_total hne a.id]
  have t' := t.unmerge hu
  rw [filter_id_ne hn] at t'
  have us := unmerge_step t.wf hu
  obtain ⟨d1, d2, d3, _, _⟩ := mergeAll_data Graph.empty_WF hw h
  obtain ⟨e1, e2, e3, _, _⟩ := mergeAll_data Graph.empty_WF hw0 hg0
  have hhas : ∀ i, (unmerge g a.id).2.has i = g0.has i := fun i => by rw [t'.has, t0.has]
  refine ⟨_, g0, hu, hg0, hhas, fun i => by rw [t'.prov, t0.prov], fun i => by rw [t'.ldel, t0.ldel],
    fun i => by rw [t'.cdel, t0.cdel], ?_, ?_, ?_, ?_, ?_⟩
  · intro x y
    rw [us.hasEdge, hhas, hhas, d3, e3]
    have hclosed : (pre ++ post).any (fun b => b.g.hasEdge x y) = true → g0.has x = true ∧ g0.has y = true := by
      intro hpq
      obtain ⟨b, hb, hbe⟩ := List.any_eq_true.mp hpq
      have := hasEdge_has (hw0 b hb).closed hbe
      rw [t0.has x, t0.has y]
      exact ⟨List.any_eq_true.mpr ⟨b, hb, this.1⟩, List.any_eq_true.mpr ⟨b, hb, this.2⟩⟩
    have em : Graph.empty.hasEdge x y = false := rfl
    simp only [em, Bool.false_or, List.any_append, List.any_cons] at hclosed ⊢
    generalize pre.any (fun b => b.g.hasEdge x y) = P at hclosed ⊢
    generalize post.any (fun b => b.g.hasEdge x y) = Q at hclosed ⊢
    generalize a.g.hasEdge x y = A
    generalize g0.has x = X at hclosed ⊢
    generalize g0.has y = Y at hclosed ⊢
    revert hclosed
    cases P <;> cases Q <;> cases A <;> cases X <;> cases Y <;> simp
  · intro i; rw [us.props, hhas]
  · intro i hi
    rw [us.props, hhas, d1, e1]
    have em : Graph.empty.propsOf i = none := rfl
    rw [em, Option.none_or, Option.none_or]
    cases hg : g0.has i with
    | false =>
      simp only [Bool.false_eq_true, if_false]
      symm
      apply firstSome_none
      intro b hb
      have : (pre ++ post).any (fun b => b.g.has i) = false := by rw [← t0.has, hg]
      have := List.any_eq_false.mp this b hb
      exact propsOf_none_of_not_has (by simpa using this)
    | true =>
      simp only [if_true]
      rw [firstSome_append, firstSome_append, firstSome]
      rcases hi with hi | hi
      · rw [propsOf_none_of_not_has hi, Option.none_or]
      · obtain ⟨b, hb, hbi⟩ := List.any_eq_true.mp hi
        have := firstSome_isSome (fun a => a.g.propsOf i) pre ⟨b, hb, by rw [propsOf_isSome]; exact hbi⟩
        cases hfs : firstSome (fun a => a.g.propsOf i) pre with
        | none => rw [hfs] at this; cases this
        | some v => rfl
  · intro x y; rw [us.edgeData, hhas, hhas]
  · intro x y hi
    rw [us.edgeData, hhas, hhas, d2, e2]
    have em : Graph.empty.edgeData x y = none := rfl
    rw [em, Option.none_or, Option.none_or]
    have key : firstSome (fun a => a.g.edgeData x y) (pre ++ a :: post) = firstSome (fun a => a.g.edgeData x y) (pre ++ post) := by
      rw [firstSome_append, firstSome_append, firstSome]
      rcases hi with hi | hi
      · rw [edgeData_none_of_not_hasEdge hi, Option.none_or]
      · obtain ⟨b, hb, hbi⟩ := List.any_eq_true.mp hi
        have := firstSome_isSome (fun a => a.g.edgeData x y) pre ⟨b, hb, by rw [edgeData_isSome]; exact hbi⟩
        cases hfs : firstSome (fun a => a.g.edgeData x y) pre with
        | none => rw [hfs] at this; cases this
        | some v => rfl
    rw [key]
    cases hg : (g0.has x && g0.has y) with
    | true => rfl
    | false =>
      simp only [Bool.false_eq_true, if_false]
      symm
      apply firstSome_none
      intro b hb
      have hne : b.g.hasEdge x y = false := by
        cases hbe : b.g.hasEdge x y with
        | false => rfl
        | true =>
          have := hasEdge_has (hw0 b hb).closed hbe
          rw [t0.has x, t0.has y, List.any_eq_true.mpr ⟨b, hb, this.1⟩, List.any_eq_true.mpr ⟨b, hb, this.2⟩] at hg
          cases hg
      exact edgeData_none_of_not_hasEdge hne

/-! ### decidability of the history predicate (for the non-vacuity examples); unmerge of a foreign id -/

instance (a : Adm) : Decidable a.WF :=
  decidable_of_iff (a.g.ids.Nodup ∧ a.g.Closed ∧ a.g.EdgesUnique) ⟨fun ⟨x, y, z⟩ => ⟨x, y, z⟩, fun h => ⟨h.nodup, h.closed, h.edges⟩⟩

instance (w : World) (op : Op) : Decidable (OpOk w op) := by
  cases op with
  | merge aid =>
    unfold OpOk
    simp only
    cases w.srcs.find? (fun a => a.id == aid) with
    | none => exact isTrue trivial
    | some a => simp only; infer_instance
  | unmerge gid => exact isTrue trivial
  | snapshot => exact isTrue trivial
  | rollback k => exact isTrue trivial

def HistOk.dec : (w : World) → (ops : List Op) → Decidable (HistOk w ops)
  | _, [] => isTrue trivial
  | w, op :: ops =>
    have := HistOk.dec (step w op).2 ops
    (inferInstance : Decidable (OpOk w op ∧ HistOk (step w op).2 ops))

instance (w : World) (ops : List Op) : Decidable (HistOk w ops) := HistOk.dec w ops

/-- unmerging a graph id that occurs nowhere in the combined model changes nothing -/
theorem unmergeNodes_fresh {gid : String} : ∀ (l : List Node),
    (∀ n ∈ l, gid ∉ n.prov ∧ n.ldel.mentions gid = false ∧ n.cdel.mentions gid = false) →
    unmergeNodes gid l = .ok (l.map (fun n => (n, false)))
  | [], _ => rfl
  | n :: l, h => by
    obtain ⟨f1, f2, f3⟩ := h n (by simp)
    have ih := unmergeNodes_fresh l (fun m hm => h m (by simp [hm]))
    simp [unmergeNodes, unmergeNode, provUnmerge_fresh f1, Deleg.unmerge_unmentioned f2, Deleg.unmerge_unmentioned f3, ih]

theorem unmerge_fresh_noop {c : Graph} {gid : String} (hc : c.Closed) (hne : c.nodes ≠ []) (hf : c.Fresh gid) :
    unmerge c gid = (none, c) := by
  unfold unmerge
  have : c.nodes.isEmpty = false := by cases hg : c.nodes with
    | nil => exact absurd hg hne
    | cons _ _ => rfl
  simp only [this, Bool.false_eq_true, if_false, unmergeNodes_fresh c.nodes hf]
  have hk : ((c.nodes.map (fun n => (n, false))).filter (fun r => !r.2)).map (·.1) = c.nodes := by
    rw [List.filter_eq_self.mpr (fun r hr => by obtain ⟨n, _, rfl⟩ := List.mem_map.mp hr; rfl), List.map_map]
    exact List.map_id' _
  rw [hk]
  have he : c.edges.filter (fun e => (c.nodes.map (·.id)).contains e.a && (c.nodes.map (·.id)).contains e.b) = c.edges := by
    apply List.filter_eq_self.mpr
    intro e he
    have := hc e he
    simp only [Graph.ids] at this
    simp [this.1, this.2]
  rw [he]

theorem firstLive_of_mem {l : List Deleg} {d : Deleg} (h1 : (l.filter Deleg.live).length ≤ 1) (hd : d ∈ l)
    (hl : d.live = true) : firstLive l = d := by
  rw [firstLive_eq_head]
  have hm : d ∈ l.filter Deleg.live := List.mem_filter.mpr ⟨hd, hl⟩
  match hf : l.filter Deleg.live, h1, hm with
  | [x], _, hm => simp at hm; subst hm; rfl

theorem Deleg.eq_of_norm_dict {d : Deleg} {l : List (String × String)} (h : d.norm = .dict l) : d = .dict l := by
  cases d with
  | absent => cases h
  | emptied => cases h
  | dict m => exact h

end FimVerif.Cbm
