import FimVerif.Proofs.Lemmas.TopoAtomicConn
/-! `NetworkService(..., etype=NEW)`: the state right after the service node is created, what the rollback's
`remove_ns_with_cps_and_links` does to it, and atomicity of the constructor for at most one interface. -/
namespace FimVerif.Topo
open FimVerif FimVerif.M


/-- the state right after the service node was created: the node, and its `has` edge when it has a parent -/
def svcBase (s : Topo) (sn : GNode) (parent : Option GNode) : Topo :=
  match parent with
  | none => pushNode sn s
  | some pn => { pushNode sn s with edges := s.edges ++ [⟨pn.ref, sn.ref, .has⟩] }

theorem adjacent_false_of_not_touch {E : List GEdge} {r x : Ref} {rel : Rel} (h : ¬ touches E r) :
    E.any (fun e => e.rel == rel && sameEnds e r x) = false := by
  rw [List.any_eq_false]
  intro e he hc
  simp only [Bool.and_eq_true] at hc
  have : sameEnds e x r = true := by
    have := hc.2
    simp only [sameEnds, Bool.or_eq_true, Bool.and_eq_true, beq_iff_eq] at this ⊢
    rcases this with ⟨a, b⟩ | ⟨a, b⟩
    · exact .inr ⟨a, b⟩
    · exact .inl ⟨a, b⟩
  exact h ⟨e, he, sameEnds_touches this⟩

/-- removing the freshly created, still unconnected service restores the state -/
theorem removeNs_base {s : Topo} {sn : GNode} {parent : Option GNode} (hd : IdsDistinct s) (hc : Closed s)
    (hnew : ∀ m ∈ s.nodes, m.nid ≠ sn.nid) (hcls : sn.cls = .networkService)
    (hpar : ∀ pn, parent = some pn → pn ∈ s.nodes) :
    removeNs sn.nid (svcBase s sn parent) = (.ok (), s) := by
  have hnt : ¬ touches s.edges sn.ref := not_touches_of_closed hc (fun m hm => ref_ne_of_nid_ne (hnew m hm))
  have hnodes : (svcBase s sn parent).nodes = s.nodes ++ [sn] := by cases parent <;> rfl
  have hdB : IdsDistinct (svcBase s sn parent) := by
    unfold IdsDistinct; rw [hnodes]; exact idsDistinct_push hd hnew
  have hmem : sn ∈ (svcBase s sn parent).nodes := by rw [hnodes]; simp
  have hfind := findNode_of_mem hdB hmem
  -- no `connects` edge at the new service
  have hnb : neighbors (svcBase s sn parent) sn.ref .connects .connectionPoint = [] := by
    unfold neighbors
    rw [List.filter_eq_nil_iff]
    intro n _
    simp only [Bool.and_eq_true, not_and]
    intro _
    unfold adjacent
    cases parent with
    | none => simp only [svcBase, pushNode]; rw [adjacent_false_of_not_touch hnt]; simp
    | some pn =>
      simp only [svcBase, pushNode, List.any_append, adjacent_false_of_not_touch hnt, Bool.false_or]
      simp
  -- dropping it
  have hdrop : dropNode sn.ref (svcBase s sn parent) = s := by
    unfold dropNode
    have h1 : (svcBase s sn parent).nodes.filter (fun n => n.ref != sn.ref) = s.nodes := by
      rw [hnodes, List.filter_append]
      have : s.nodes.filter (fun n => n.ref != sn.ref) = s.nodes := by
        rw [List.filter_eq_self]; intro m hm; simpa using ref_ne_of_nid_ne (hnew m hm)
      rw [this]; simp
    have h2 : (svcBase s sn parent).edges.filter (fun e => e.a != sn.ref && e.b != sn.ref) = s.edges := by
      have hs : s.edges.filter (fun e => e.a != sn.ref && e.b != sn.ref) = s.edges := by
        rw [List.filter_eq_self]; intro e he
        have ha : e.a ≠ sn.ref := fun x => hnt ⟨e, he, .inl x⟩
        have hb : e.b ≠ sn.ref := fun x => hnt ⟨e, he, .inr x⟩
        simp [ha, hb]
      cases parent with
      | none => exact hs
      | some pn => simp only [svcBase, pushNode, List.filter_append, hs]; simp
    rw [h1, h2]
  unfold removeNs
  rw [bind_ok hfind, bind_ok (guard_run (by simp [hcls]))]
  have hfn : firstNeighbor sn.nid .connects .connectionPoint (svcBase s sn parent) = (.ok [], svcBase s sn parent) := by
    unfold firstNeighbor; rw [bind_ok hfind]; simp [hnb]
  rw [bind_ok hfn]
  have hdel : deleteNode sn.nid (svcBase s sn parent) = (.ok (), s) := by
    unfold deleteNode; rw [bind_ok hfind]; simp [hdrop]
  rw [bind_ok hdel]; rfl

theorem svcBase_nodes (s : Topo) (sn : GNode) (parent : Option GNode) : (svcBase s sn parent).nodes = s.nodes ++ [sn] := by
  cases parent <;> rfl

theorem closed_svcBase {s : Topo} {sn : GNode} {parent : Option GNode} (hc : Closed s)
    (hpar : ∀ pn, parent = some pn → pn ∈ s.nodes) : Closed (svcBase s sn parent) := by
  intro e he
  have old : ∀ e ∈ s.edges, (∃ n ∈ (svcBase s sn parent).nodes, n.ref = e.a) ∧ (∃ n ∈ (svcBase s sn parent).nodes, n.ref = e.b) := by
    intro e he
    obtain ⟨⟨x, hx, hxe⟩, ⟨y, hy, hye⟩⟩ := hc e he
    rw [svcBase_nodes]
    exact ⟨⟨x, by simp [hx], hxe⟩, ⟨y, by simp [hy], hye⟩⟩
  cases parent with
  | none => exact old e he
  | some pn =>
    simp only [svcBase, pushNode, List.mem_append, List.mem_singleton] at he
    rcases he with he | rfl
    · exact old e he
    · refine ⟨⟨pn, ?_, rfl⟩, ⟨sn, ?_, rfl⟩⟩
      · rw [svcBase_nodes]; simp [hpar pn rfl]
      · rw [svcBase_nodes]; simp

/-- one pass of the rollback loop over a single interface, started right after the service was created -/
theorem svcLoop_one {fl : Flavour} {id : Nid} {st : String} {c1 : Nat} {i : IfArg} {B s : Topo}
    (hrm : removeNs id B = (.ok (), s))
    (hbody : (∃ e, (do guardrails st i; connectInterface fl c1 id [] i : M Topo Cache) B = (.error e, B)) ∨
             (∃ c' X, (do guardrails st i; connectInterface fl c1 id [] i : M Topo Cache) B = (.ok c', X)))
    (hf : failed (svcLoop fl id st c1 [i] [] [] B)) : (svcLoop fl id st c1 [i] [] [] B).2 = s := by
  unfold svcLoop at hf ⊢
  rcases hbody with ⟨e, he⟩ | ⟨c', X, hok⟩
  · have htc : M.tryCatch (do guardrails st i; connectInterface fl c1 id [] i : M Topo Cache) rollbackCatches
        (fun e => do
          M.forEach ([] : List IfArg) (fun ii => do let _ ← disconnectInterface [] ii; Pure.pure ())
          removeNs id
          raise e) B = (.error e, s) := by
      simp only [M.tryCatch, he, rollbackCatches, flag_svcRollbackAll, Bool.true_or, if_true]
      show (M.bind (M.pure ()) fun _ => (removeNs id >>= fun _ => raise e)) B = _
      rw [bind_apply]; simp only [pure_apply]
      rw [bind_ok hrm]; rfl
    rw [bind_err htc]
  · have htc : M.tryCatch (do guardrails st i; connectInterface fl c1 id [] i : M Topo Cache) rollbackCatches
        (fun e => do
          M.forEach ([] : List IfArg) (fun ii => do let _ ← disconnectInterface [] ii; Pure.pure ())
          removeNs id
          raise e) B = (.ok c', X) := by
      simp only [M.tryCatch, hok]
    rw [bind_ok htc] at hf
    unfold svcLoop at hf
    simp at hf

theorem pick_facts (o : Option Nid) (c : Nat) :
    c ≤ (pick o c).2 ∧ (o = none → (pick o c).1 = .gen c ∧ (pick o c).2 = c + 1) ∧
      (∀ x, o = some x → (pick o c).1 = x ∧ (pick o c).2 = c) := by
  cases o <;> simp [pick]

/-- what is asked of the (at most one) interface of a new service -/
def IfsOk (s : Topo) (id : Nid) : List IfArg → Prop
  | [] => True
  | [.bogus] => True
  | [.iface iid iname] => iid ≠ id ∧ (∀ n ∈ s.nodes, n.nid = iid → n.cls = .connectionPoint) ∧ NameHyp s iname
  | _ => False

def FS (s : Topo) {α : Type} (r : Except Err α × Topo) : Prop := failed r → r.2 = s
theorem FS.err {s : Topo} {α : Type} (e : Err) : FS s ((.error e, s) : Except Err α × Topo) := fun _ => rfl

theorem body_cases {fl : Flavour} {id iid : Nid} {iname st : String} {c1 : Nat} {B : Topo}
    (hd : IdsDistinct B) (hc : Closed B) (hcp : ∀ n ∈ B.nodes, n.nid = iid → n.cls = .connectionPoint)
    (hf : ∀ m ∈ B.nodes, m.nid ≠ .gen c1 ∧ m.nid ≠ .gen (c1 + 1)) (hnm : NameHyp B iname) :
    (∃ e, (do guardrails st (.iface iid iname); connectInterface fl c1 id [] (.iface iid iname) : M Topo Cache) B = (.error e, B)) ∨
    (∃ c' X, (do guardrails st (.iface iid iname); connectInterface fl c1 id [] (.iface iid iname) : M Topo Cache) B = (.ok c', X)) := by
  refine ro_step (Q := fun r => (∃ e, r = (.error e, B)) ∨ (∃ c' X, r = (.ok c', X))) (by ro) (fun e => .inl ⟨e, rfl⟩) (fun _ _ => ?_)
  rcases connect_spec fl c1 id iid iname [] B hd hc hcp hf hnm with ⟨e, he⟩ | ⟨_, _, _, _, _, _, _, _, _, _, _, _, _, _, _, hres⟩
  · exact .inl ⟨e, he⟩
  · exact .inr ⟨_, _, hres⟩

theorem body_cases_bogus {fl : Flavour} {id : Nid} {st : String} {c1 : Nat} {B : Topo} :
    (∃ e, (do guardrails st .bogus; connectInterface fl c1 id [] .bogus : M Topo Cache) B = (.error e, B)) ∨
    (∃ c' X, (do guardrails st .bogus; connectInterface fl c1 id [] .bogus : M Topo Cache) B = (.ok c', X)) := by
  refine ro_step (Q := fun r => (∃ e, r = (.error e, B)) ∨ (∃ c' X, r = (.ok c', X))) (by ro) (fun e => .inl ⟨e, rfl⟩) (fun _ _ => ?_)
  exact .inl ⟨.assertion, by unfold connectInterface; rfl⟩

theorem FS_bind_pure {s B : Topo} {α β : Type} {m : M Topo α} {g : α → β} (h : FS s (m B)) :
    FS s ((m >>= fun x => Pure.pure (g x)) B) := by
  rcases cases_run m B with ⟨x, X, hx⟩ | ⟨e, X, hx⟩
  · rw [bind_ok hx]; intro hf; simp at hf
  · rw [bind_err hx]; rw [hx] at h; intro _; exact h ⟨e, rfl⟩

/-- the rollback loop over at most one interface, started in the state right after the service was created -/
theorem svcLoop_le1 {fl : Flavour} {sn : GNode} {st : String} {c1 : Nat} {ifs : List IfArg} {s : Topo}
    {parent : Option GNode}
    (hd : IdsDistinct s) (hc : Closed s) (hnew : ∀ m ∈ s.nodes, m.nid ≠ sn.nid) (hcls : sn.cls = .networkService)
    (hpar : ∀ pn, parent = some pn → pn ∈ s.nodes)
    (hfr : ∀ m ∈ s.nodes, m.nid ≠ .gen c1 ∧ m.nid ≠ .gen (c1 + 1)) (hfrs : sn.nid ≠ .gen c1 ∧ sn.nid ≠ .gen (c1 + 1))
    (hifs : IfsOk s sn.nid ifs) : FS s (svcLoop fl sn.nid st c1 ifs [] [] (svcBase s sn parent)) := by
  have hrm := removeNs_base (parent := parent) hd hc hnew hcls hpar
  have hdB : IdsDistinct (svcBase s sn parent) := by
    unfold IdsDistinct; rw [svcBase_nodes]; exact idsDistinct_push hd hnew
  match ifs, hifs with
  | [], _ => unfold svcLoop; intro hf; simp at hf
  | [.bogus], _ => exact svcLoop_one hrm body_cases_bogus
  | [.iface iid iname], ⟨hne, hcp, hnm⟩ =>
    refine svcLoop_one hrm (body_cases hdB (closed_svcBase hc hpar) ?_ ?_ ?_)
    · intro n hn hni
      rw [svcBase_nodes] at hn
      rcases List.mem_append.mp hn with hn | hn
      · exact hcp n hn hni
      · simp at hn; subst hn; exact absurd hni.symm hne
    · intro m hm
      rw [svcBase_nodes] at hm
      rcases List.mem_append.mp hm with hm | hm
      · exact hfr m hm
      · simp at hm; subst hm; exact hfrs
    · intro o ho hoc
      rw [svcBase_nodes] at ho
      rcases List.mem_append.mp ho with ho | ho
      · exact hnm o ho hoc
      · simp at ho; subst ho
        rcases hoc with h | h <;> rw [hcls] at h <;> cases h

/-- `NetworkService(..., etype=NEW)` with at most one interface: whatever the interface makes the constructor raise,
the rollback leaves the model as it was -/
theorem svcNew_atomic_le1 (fl : Flavour) (c : Nat) (parent : Option Nid) (a : SvcArgs) (s : Topo)
    (hd : IdsDistinct s) (hc : Closed s)
    (hfresh : ∀ m ∈ s.nodes, ∀ k, c ≤ k → m.nid ≠ .gen k)
    (hnid : ∀ k, c ≤ k → a.nid ≠ some (.gen k))
    (hpar : ∀ p, parent = some p → ∃ pn, findNode p s = (.ok pn, s))
    (hifs : IfsOk s (pick a.nid c).1 a.ifs) : FS s (svcNew fl c parent a s) := by
  unfold svcNew
  rcases hp : pick a.nid c with ⟨id, c1⟩
  simp only []
  refine ro_step (by ro) FS.err (fun t _ => ?_)
  refine ro_step (by ro) FS.err (fun _ _ => ?_)
  refine ro_step (by ro) FS.err (fun layer _ => ?_)
  refine ro_step (by ro) FS.err (fun kw _ => ?_)
  have hpf := pick_facts a.nid c
  rw [hp] at hpf
  simp only [] at hpf
  obtain ⟨hle, hnone, hsome⟩ := hpf
  have hfr : ∀ m ∈ s.nodes, m.nid ≠ .gen c1 ∧ m.nid ≠ .gen (c1 + 1) :=
    fun m hm => ⟨hfresh m hm c1 hle, hfresh m hm (c1 + 1) (by omega)⟩
  have hidfr : id ≠ .gen c1 ∧ id ≠ .gen (c1 + 1) := by
    cases h : a.nid with
    | none =>
      obtain ⟨h1, h2⟩ := hnone h
      rw [h1, h2]
      exact ⟨fun e => by injection e with e; omega, fun e => by injection e with e; omega⟩
    | some x =>
      obtain ⟨h1, h2⟩ := hsome x h
      rw [h1, h2]
      exact ⟨fun e => hnid c (Nat.le_refl _) (by rw [h, e]), fun e => hnid (c + 1) (by omega) (by rw [h, e])⟩
  have hifs' : IfsOk s id a.ifs := by rw [hp] at hifs; exact hifs
  cases parent with
  | none =>
    simp only [Option.isNone, if_true]
    refine ro_step (by ro) FS.err (fun _ _ => ?_)
    refine ro_step (by ro) FS.err (fun _ _ => ?_)
    refine addGNode_step (FS.err _) (fun sn hsn hn => ?_)
    have hsnid : sn.nid = id := by rw [hsn]
    have hsncls : sn.cls = .networkService := by rw [hsn]
    rw [← hsnid]
    exact FS_bind_pure (svcLoop_le1 (parent := none) hd hc hn hsncls (fun _ h => by cases h) hfr (by rw [hsnid]; exact hidfr)
      (by rw [hsnid]; exact hifs'))
  | some p =>
    obtain ⟨pn, hpn⟩ := hpar p rfl
    simp only [Option.isNone]
    refine addGNode_step (FS.err _) (fun sn hsn hn => ?_)
    have hsnid : sn.nid = id := by rw [hsn]
    have hsncls : sn.cls = .networkService := by rw [hsn]
    have hfn : findNode id (pushNode sn s) = (.ok sn, pushNode sn s) := by rw [← hsnid]; exact findNode_push_new hn
    have hedge := addEdge_run (r := .has) (findNode_push_old hpn hn) hfn
    rw [bind_ok hedge]
    have hnt : ¬ touches (pushNode sn s).edges sn.ref :=
      not_touches_of_closed (t := s) hc (fun m hm => ref_ne_of_nid_ne (hn m hm))
    rw [setEdge_fresh hnt]
    rw [← hsnid]
    exact FS_bind_pure (svcLoop_le1 (parent := some pn) hd hc hn hsncls
      (fun x h => by cases h; exact (findNode_ok hpn).1) hfr (by rw [hsnid]; exact hidfr) (by rw [hsnid]; exact hifs'))
end FimVerif.Topo
