import FimVerif.Proofs.Lemmas.C13Store
import FimVerif.Proofs.Lemmas.C13Rekey
/-!
# C13 — partitioning an aggregate model yields sound per-delegation models

Model: `FimVerif.Arm` (`genAdm`, `generateAdmsS`, `rekey`), configuration `genCfg` regenerated from
`generate_adms` / `get_first_and_second_neighbor` on every run (gen/armcfg.py: behavioural probing). `partition_sound`
is the whole property as one statement about the run on the store; the theorems before it are its clauses. All theorems quantify over every
graph `g`, delegation id `d` and (where it appears) every configuration; the ones that mention class
and relation names are instantiated at the extracted configuration and re-checked against it.

`G.adj g x y r` = "an edge of relation `r` joins `x` and `y`"; `G.hasCls g x c` = "node `x` has class `c`".
-/
namespace FimVerif.C13
open FimVerif.Arm

/-! ## holders, entries -/

/-- every resource delegated to `d` is present in the partition for `d` -/
theorem holders_kept (cfg : Cfg) (g : G) (d : String) (n : Node) (hn : n ∈ g.nodes) (hd : n.holds d = true) :
    n.rewrite d ∈ (genAdm cfg g d).nodes ∧ n.id ∈ (genAdm cfg g d).ids := by
  have hk : n.id ∈ keepSet cfg g d := by
    apply keep0_sub_keepSet
    unfold keep0 holders
    exact List.mem_append.2 (Or.inl (List.mem_map.2 ⟨n, List.mem_filter.2 ⟨hn, hd⟩, rfl⟩))
  exact ⟨mem_genAdm_nodes.2 ⟨n, hn, hk, rfl⟩, mem_genAdm_ids.2 ⟨List.mem_map.2 ⟨n, hn, rfl⟩, hk⟩⟩

/-- a kept holder carries exactly its own entries: in each delegation property the entry for `d` is the
original one, there is no other key, and the property has the key `d` iff it had it before -/
theorem only_own_entries (n : Node) (d : String) (hd : n.holds d = true) :
    (∀ k, (n.rewrite d).ldel.get k = if k = d then n.ldel.get d else none) ∧
    (∀ k, (n.rewrite d).cdel.get k = if k = d then n.cdel.get d else none) ∧
    (n.rewrite d).ldel.keys = (if d ∈ n.ldel.keys then [d] else []) ∧
    (n.rewrite d).cdel.keys = (if d ∈ n.cdel.keys then [d] else []) := by
  have hc := Node.catalogued_of_holds hd
  rw [Node.rewrite_ldel_of_catalogued d hc, Node.rewrite_cdel_of_catalogued d hc]
  exact ⟨fun k => DelProp.get_restrict _ _ _, fun k => DelProp.get_restrict _ _ _,
    DelProp.keys_restrict _ _, DelProp.keys_restrict _ _⟩

/-- no entry of another delegation id appears anywhere in the partition for `d` -/
theorem no_foreign_entries (cfg : Cfg) (g : G) (d : String) (m : Node) (hm : m ∈ (genAdm cfg g d).nodes)
    (k : String) (hk : k ∈ m.ldel.keys ++ m.cdel.keys) : k = d := by
  rcases mem_genAdm_nodes.1 hm with ⟨n, _, _, rfl⟩
  exact Node.rewrite_keys_sub n d k hk

/-- with unique node ids, the node of the partition that has a holder's id IS that holder with exactly its own entries -/
theorem holder_in_partition_unique (cfg : Cfg) (g : G) (d : String) (hnd : g.ids.Nodup) (n m : Node)
    (hn : n ∈ g.nodes) (hm : m ∈ (genAdm cfg g d).nodes) (hid : m.id = n.id) : m = n.rewrite d := by
  rcases mem_genAdm_nodes.1 hm with ⟨n', hn', _, rfl⟩
  have : n' = n := eq_of_nodup_map (fun x : Node => x.id) (l := g.nodes) hnd hn' hn (by simpa using hid)
  rw [this]

example : (Node.rewrite ⟨"w", "NetworkNode", [], .dels [("a", "ea"), ("b", "eb")], .dels [("b", "fb")]⟩ "b").ldel
    = .dels [("b", "eb")] := by decide

/-- one model per delegation id: the result has exactly one entry for every delegation id that occurs on some
node, and that entry is `genAdm` for the id -/
theorem one_model_per_id (cfg : Cfg) (g : G) (r : List (String × G)) (h : generateAdms cfg g = some r) :
    (r.map (·.1)).Nodup ∧ (∀ d, d ∈ r.map (·.1) ↔ ∃ n ∈ g.nodes, n.holds d = true) ∧
    (∀ p ∈ r, p.2 = genAdm cfg g p.1) := by
  unfold generateAdms at h
  split at h
  · cases h
  · cases h
    simp only [List.map_map]
    have hid : ((fun x : String × G => x.1) ∘ fun d => (d, genAdm cfg g d)) = id := rfl
    rw [hid, List.map_id]
    refine ⟨nodup_eraseDups _, fun d => mem_delIds, ?_⟩
    intro p hp
    rcases List.mem_map.1 hp with ⟨d, _, rfl⟩
    rfl

/-! ## sub-model -/

/-- the partition is a sub-model of the original: every node is an original node with the same id, class and
other properties; node ids are the original ids filtered (so they stay unique); every edge is an original edge;
and every original edge between two kept nodes is kept, with its relation and properties -/
theorem sub_model (cfg : Cfg) (g : G) (d : String) :
    (∀ m ∈ (genAdm cfg g d).nodes, ∃ n ∈ g.nodes, m.id = n.id ∧ m.cls = n.cls ∧ m.props = n.props) ∧
    (genAdm cfg g d).ids.Sublist g.ids ∧
    (g.ids.Nodup → (genAdm cfg g d).ids.Nodup) ∧
    (∀ e ∈ (genAdm cfg g d).edges, e ∈ g.edges) ∧
    (∀ e ∈ g.edges, e.a ∈ (genAdm cfg g d).ids → e.b ∈ (genAdm cfg g d).ids → e ∈ (genAdm cfg g d).edges) ∧
    (∀ e ∈ (genAdm cfg g d).edges, e.a ∈ g.ids → e.b ∈ g.ids →
        e.a ∈ (genAdm cfg g d).ids ∧ e.b ∈ (genAdm cfg g d).ids) := by
  refine ⟨?_, ?_, ?_, ?_, ?_, ?_⟩
  · intro m hm
    rcases mem_genAdm_nodes.1 hm with ⟨n, hn, _, rfl⟩
    exact ⟨n, hn, by simp⟩
  · rw [genAdm_ids]; exact List.filter_sublist
  · intro h; rw [genAdm_ids]; exact h.sublist List.filter_sublist
  · intro e he; exact (mem_genAdm_edges.1 he).1
  · intro e he ha hb
    exact mem_genAdm_edges.2 ⟨he, (mem_genAdm_ids.1 ha).2, (mem_genAdm_ids.1 hb).2⟩
  · intro e he ha hb
    have := mem_genAdm_edges.1 he
    exact ⟨mem_genAdm_ids.2 ⟨ha, this.2.1⟩, mem_genAdm_ids.2 ⟨hb, this.2.2⟩⟩

/-! ## stitch nodes -/

/-- all stitching elements are present in every partition -/
theorem stitch_everywhere (cfg : Cfg) (g : G) (d : String) (n : Node) (hn : n ∈ g.nodes)
    (hs : n.isStitch cfg = true) : n.rewrite d ∈ (genAdm cfg g d).nodes ∧ n.id ∈ (genAdm cfg g d).ids := by
  have hk : n.id ∈ keepSet cfg g d := by
    apply keep0_sub_keepSet
    unfold keep0 stitchNodes
    exact List.mem_append.2 (Or.inr (List.mem_map.2 ⟨n, List.mem_filter.2 ⟨hn, hs⟩, rfl⟩))
  exact ⟨mem_genAdm_nodes.2 ⟨n, hn, hk, rfl⟩, mem_genAdm_ids.2 ⟨List.mem_map.2 ⟨n, hn, rfl⟩, hk⟩⟩

example : (⟨"sw", "NetworkNode", [("Name", "sw"), ("StitchNode", "true")], .absent, .absent⟩ : Node).isStitch genCfg = true := by
  decide

/-- the extracted selection is the `StitchNode == 'true'` property -/
theorem stitch_is_property (n : Node) : n.isStitch genCfg = (n.props.lookup "StitchNode" == some "true") := rfl

/-! ## closure (at the extracted configuration) -/

private theorem link_trace : (⟨"connects", "Link", "connects", "ConnectionPoint"⟩ : Trace) ∈ genCfg.linkTraces := by decide
private theorem owner_trace_nn : (⟨"connects", "NetworkService", "has", "NetworkNode"⟩ : Trace) ∈ genCfg.ownerTraces := by decide
private theorem owner_trace_comp : (⟨"connects", "NetworkService", "has", "Component"⟩ : Trace) ∈ genCfg.ownerTraces := by decide
private theorem cp_class : genCfg.cpClass = "ConnectionPoint" := by decide
private theorem link_not_cp : ∀ t ∈ genCfg.linkTraces, t.l1 ≠ genCfg.cpClass := by decide
private theorem owner_not_cp : ∀ t ∈ genCfg.ownerTraces, t.l1 ≠ genCfg.cpClass ∧ t.l2 ≠ genCfg.cpClass := by decide
/-- the link traces are repeated until no new interface turns up (the repaired `generate_adms`; re-checked against the
code on every run: gen/armcfg.py fits the number of passes to the partitions the code produces) -/
private theorem link_fixpoint : genCfg.linkRounds = none := by decide

/-- the definite members of the partition for `d`: holders of `d` and stitch nodes -/
def definite (g : G) (d x : String) : Prop := x ∈ keep0 genCfg g d

/-- **closure, owning service and owner**: every kept interface keeps its owning service and that service's
owner (a NetworkNode or a Component). `hsimple`: the edge between service and owner is the only one between them
(what `networkx.Graph` guarantees). -/
theorem closure_service_owner (g : G) (d c S o : String)
    (hc : c ∈ (genAdm genCfg g d).ids) (hcp : g.hasCls c "ConnectionPoint" = true)
    (h1 : g.adj c S "connects") (hS : g.hasCls S "NetworkService" = true)
    (h2 : g.adj S o "has") (ho : g.hasCls o "NetworkNode" = true ∨ g.hasCls o "Component" = true)
    (hsimple : ∀ r, g.adj S o r → r = "has") :
    S ∈ (genAdm genCfg g d).ids ∧ o ∈ (genAdm genCfg g d).ids := by
  have hck := (mem_genAdm_ids.1 hc).2
  have hc2 := kept_cp_mem_keepCps2 link_not_cp owner_not_cp hck (by rw [cp_class]; exact hcp)
  have hoS : o ≠ S := by
    rintro rfl
    rcases ho with ho | ho <;> exact absurd (hasCls_unique ho hS) (by decide)
  have hoc : o ≠ c := by
    rintro rfl
    rcases ho with ho | ho <;> exact absurd (hasCls_unique ho hcp) (by decide)
  have hkeep : S ∈ keepSet genCfg g d ∧ o ∈ keepSet genCfg g d := by
    rcases ho with ho | ho
    · exact closure_owner (t := ⟨"connects", "NetworkService", "has", "NetworkNode"⟩) hc2 owner_trace_nn h1 hS h2 ho hoc hoS hsimple
    · exact closure_owner (t := ⟨"connects", "NetworkService", "has", "Component"⟩) hc2 owner_trace_comp h1 hS h2 ho hoc hoS hsimple
  exact ⟨mem_genAdm_ids.2 ⟨hasCls_mem_ids hS, hkeep.1⟩,
    mem_genAdm_ids.2 ⟨by rcases ho with ho | ho <;> exact hasCls_mem_ids ho, hkeep.2⟩⟩

/-- **closure, link and peer — the full statement**: EVERY kept interface (delegated to `d`, a stitch node, or pulled
in as the far end of a kept link at any distance) keeps each of its links and every other end of that link.
Holds for the repaired code, which repeats the link trace until no new interface turns up
(/repo `fix:` commit, known_findings/C13.json `C13:closure:peer-interface-other-link`). -/
theorem closure_link_peer (g : G) (d c L p : String)
    (hc : c ∈ (genAdm genCfg g d).ids) (hcp : g.hasCls c "ConnectionPoint" = true)
    (h1 : g.adj c L "connects") (hL : g.hasCls L "Link" = true)
    (h2 : g.adj L p "connects") (hp : g.hasCls p "ConnectionPoint" = true) (hpc : p ≠ c)
    (hsimple : ∀ r, g.adj L p r → r = "connects") :
    L ∈ (genAdm genCfg g d).ids ∧ p ∈ (genAdm genCfg g d).ids := by
  have hpL : p ≠ L := by rintro rfl; exact absurd (hasCls_unique hp hL) (by decide)
  have := closure_link_any (t := ⟨"connects", "Link", "connects", "ConnectionPoint"⟩) link_fixpoint link_not_cp owner_not_cp
    (mem_genAdm_ids.1 hc).2 (by rw [cp_class]; exact hcp) link_trace h1 hL h2 hp hpc hpL hsimple
  exact ⟨mem_genAdm_ids.2 ⟨hasCls_mem_ids hL, this.1⟩, mem_genAdm_ids.2 ⟨hasCls_mem_ids hp, this.2⟩⟩

/-- the interfaces of a partition are closed under "other end of one of my links": the far end found by a link trace
from a kept interface is itself an interface whose links, service and owner are traced -/
theorem kept_interfaces_closed (g : G) (d c c' : String) (hc : c ∈ keepCps2 genCfg g d) (h : LinkNext genCfg g c c') :
    c' ∈ keepCps2 genCfg g d :=
  reach_keepCps2 link_fixpoint hc (.step (.refl c) h)

/-- **what exactly is in a partition** (any configuration whose link traces are repeated to a fixed point): the node
`x` is in the partition for `d` iff it is delegated to `d` or a stitch node, or it is the first or second element of a
link-trace or owner-trace pair found from an interface that is reached, link by link, from a delegated/stitch
interface. Nothing else is kept and nothing of this is missing. -/
theorem partition_exact (cfg : Cfg) (hr : cfg.linkRounds = none) (g : G) (d x : String) :
    x ∈ (genAdm cfg g d).ids ↔
      x ∈ keep0 cfg g d ∨
      ∃ c0 ∈ keepCps cfg g d, ∃ c, LinkReach cfg g c0 c ∧
        ∃ t ∈ cfg.linkTraces ++ cfg.ownerTraces, ∃ p ∈ firstSecond cfg.dropsK g c t, x = p.1 ∨ x = p.2 := by
  constructor
  · intro hx
    have hk := (mem_genAdm_ids.1 hx).2
    unfold keepSet at hk
    rcases List.mem_append.1 hk with hk | hk
    · rcases List.mem_append.1 hk with hk | hk
      · exact Or.inl hk
      · rcases mem_pairIds.1 hk with ⟨p, hp, hxp⟩
        rcases linkPairs_sound hp with ⟨c, hc, t, ht, hfs⟩
        rcases keepCps2_reach hc with ⟨c0, hc0, hreach⟩
        exact Or.inr ⟨c0, hc0, c, hreach, t, List.mem_append.2 (Or.inl ht), p, hfs, hxp⟩
    · rcases mem_pairIds.1 hk with ⟨p, hp, hxp⟩
      rcases mem_ownerPairs.1 hp with ⟨c, hc, t, ht, hfs⟩
      rcases keepCps2_reach hc with ⟨c0, hc0, hreach⟩
      exact Or.inr ⟨c0, hc0, c, hreach, t, List.mem_append.2 (Or.inr ht), p, hfs, hxp⟩
  · intro h
    have hk : x ∈ keepSet cfg g d := by
      rcases h with h | ⟨c0, hc0, c, hreach, t, ht, p, hfs, hxp⟩
      · exact keep0_sub_keepSet h
      · have hc := reach_keepCps2 hr (keepCps_sub_keepCps2 hc0) hreach
        rcases List.mem_append.1 ht with ht | ht
        · have := linkPairs_sub_keepSet (linkPairs_of_keepCps2 hr hc ht hfs)
          rcases hxp with rfl | rfl
          · exact this.1
          · exact this.2
        · have := ownerPairs_sub_keepSet (mem_ownerPairs.2 ⟨c, hc, t, ht, hfs⟩)
          rcases hxp with rfl | rfl
          · exact this.1
          · exact this.2
    exact mem_genAdm_ids.2 ⟨keepSet_sub_ids hk, hk⟩

/-- the extracted configuration is one of those -/
theorem partition_exact_extracted (g : G) (d x : String) :
    x ∈ (genAdm genCfg g d).ids ↔
      x ∈ keep0 genCfg g d ∨
      ∃ c0 ∈ keepCps genCfg g d, ∃ c, LinkReach genCfg g c0 c ∧
        ∃ t ∈ genCfg.linkTraces ++ genCfg.ownerTraces, ∃ p ∈ firstSecond genCfg.dropsK g c t, x = p.1 ∨ x = p.2 :=
  partition_exact genCfg link_fixpoint g d x

/-- an edge of the ARM between two kept nodes is an edge of the partition: adjacency is inherited -/
theorem adj_kept (cfg : Cfg) (g : G) (d x y r : String) (h : g.adj x y r)
    (hx : x ∈ (genAdm cfg g d).ids) (hy : y ∈ (genAdm cfg g d).ids) : (genAdm cfg g d).adj x y r := by
  rcases G.adj_iff.1 h with ⟨e, he, hr, hxy⟩
  have hk : e ∈ (genAdm cfg g d).edges := by
    rcases hxy with ⟨ha, hb⟩ | ⟨hb, ha⟩
    · exact mem_genAdm_edges.2 ⟨he, by rw [ha]; exact (mem_genAdm_ids.1 hx).2, by rw [hb]; exact (mem_genAdm_ids.1 hy).2⟩
    · exact mem_genAdm_edges.2 ⟨he, by rw [ha]; exact (mem_genAdm_ids.1 hy).2, by rw [hb]; exact (mem_genAdm_ids.1 hx).2⟩
  exact G.adj_iff.2 ⟨e, hk, hr, hxy⟩

/-- **closure, literally**: in the partition itself every kept interface is still joined to each of its links, the link
to its other ends, the interface to its owning service and the service to its owner -/
theorem closure_in_partition (g : G) (d c : String) (hc : c ∈ (genAdm genCfg g d).ids)
    (hcp : g.hasCls c "ConnectionPoint" = true) :
    (∀ L p, g.adj c L "connects" → g.hasCls L "Link" = true → g.adj L p "connects" → g.hasCls p "ConnectionPoint" = true →
        p ≠ c → (∀ r, g.adj L p r → r = "connects") →
        (genAdm genCfg g d).adj c L "connects" ∧ (genAdm genCfg g d).adj L p "connects") ∧
    (∀ S o, g.adj c S "connects" → g.hasCls S "NetworkService" = true → g.adj S o "has" →
        (g.hasCls o "NetworkNode" = true ∨ g.hasCls o "Component" = true) → (∀ r, g.adj S o r → r = "has") →
        (genAdm genCfg g d).adj c S "connects" ∧ (genAdm genCfg g d).adj S o "has") := by
  constructor
  · intro L p h1 hL h2 hp hpc hs
    have := closure_link_peer g d c L p hc hcp h1 hL h2 hp hpc hs
    exact ⟨adj_kept genCfg g d c L _ h1 hc this.1, adj_kept genCfg g d L p _ h2 this.1 this.2⟩
  · intro S o h1 hS h2 ho hs
    have := closure_service_owner g d c S o hc hcp h1 hS h2 ho hs
    exact ⟨adj_kept genCfg g d c S _ h1 hc this.1, adj_kept genCfg g d S o _ h2 this.1 this.2⟩

/-- witness graph: `p` is in the partition of `d2` only as the far end of `f1i`'s link `l1`, and has a second link `l2` -/
def cexG : G :=
  { nodes := [⟨"f1i", "ConnectionPoint", [], .absent, .dels [("d2", "e")]⟩, ⟨"l1", "Link", [], .absent, .absent⟩,
              ⟨"p", "ConnectionPoint", [], .absent, .dels [("d1", "e")]⟩, ⟨"l2", "Link", [], .absent, .absent⟩,
              ⟨"f2i", "ConnectionPoint", [], .absent, .dels [("d1", "e")]⟩],
    edges := [⟨"f1i", "l1", "connects", []⟩, ⟨"l1", "p", "connects", []⟩, ⟨"l2", "p", "connects", []⟩,
              ⟨"f2i", "l2", "connects", []⟩] }

/-- non-vacuity for `holders_kept` / `only_own_entries`: `f1i` is a node of `cexG` holding `d2` -/
example : (⟨"f1i", "ConnectionPoint", [], .absent, .dels [("d2", "e")]⟩ : Node) ∈ cexG.nodes ∧
    (⟨"f1i", "ConnectionPoint", [], .absent, .dels [("d2", "e")]⟩ : Node).holds "d2" = true := by decide

/-- the configuration of the code BEFORE the repair: one pass of the link trace -/
def onePassCfg : Cfg := { genCfg with linkRounds := some 1 }

/-- **why the repair was needed** (the defect `C13:closure:peer-interface-other-link`, kept as a regression witness):
with a single pass of the link trace the interface `p` is in the partition of `d2`, its link `l2` to `f2i` is not —
and with the trace repeated to a fixed point (the extracted configuration) it is. The oracle replays this graph on the
implementation on every run (corpus/C13/peer_interface_other_link.json). -/
theorem closure_one_pass_counterexample :
    "p" ∈ (genAdm onePassCfg cexG "d2").ids ∧ cexG.hasCls "p" "ConnectionPoint" = true ∧
    cexG.adj "p" "l2" "connects" ∧ cexG.hasCls "l2" "Link" = true ∧
    cexG.adj "l2" "f2i" "connects" ∧ cexG.hasCls "f2i" "ConnectionPoint" = true ∧
    "l2" ∉ (genAdm onePassCfg cexG "d2").ids ∧
    "l2" ∈ (genAdm genCfg cexG "d2").ids ∧ "f2i" ∈ (genAdm genCfg cexG "d2").ids := by
  refine ⟨by decide, by decide, ?_, by decide, ?_, by decide, by decide, by decide, by decide⟩ <;> (unfold G.adj; decide)

/-- non-vacuity of the closure hypotheses: in `cexG`, `p` is a kept interface of the partition for `d2` that is NOT
definite, and `l2`/`f2i` are a link of it and that link's other end -/
example : "p" ∈ (genAdm genCfg cexG "d2").ids ∧ ¬ definite cexG "d2" "p" ∧ cexG.adj "p" "l2" "connects" ∧
    cexG.adj "l2" "f2i" "connects" ∧ (∀ r, cexG.adj "l2" "f2i" r → r = "connects") := by
  refine ⟨by decide, by unfold definite; decide, by unfold G.adj; decide, by unfold G.adj; decide, ?_⟩
  intro r hr
  unfold G.adj at hr
  have : cexG.nbrs "l2" = [("p", "connects"), ("f2i", "connects")] := by decide
  rw [this] at hr
  simp at hr
  exact hr

/-- non-vacuity of `kept_interfaces_closed` / `partition_exact`: `f1i` is a definite interface of `cexG` for `d2`, `p` is
its link-trace successor and `f2i` is `p`'s -/
example : "f1i" ∈ keepCps genCfg cexG "d2" ∧ LinkNext genCfg cexG "f1i" "p" ∧ LinkNext genCfg cexG "p" "f2i" := by
  refine ⟨by decide, ⟨⟨"connects", "Link", "connects", "ConnectionPoint"⟩, by decide, "l1", by decide⟩,
    ⟨⟨"connects", "Link", "connects", "ConnectionPoint"⟩, by decide, "l2", by decide⟩⟩

/-! ## the ARM is untouched; the store run computes `genAdm` -/

/-- **the original model is left untouched**: if none of the generated graph ids is the ARM's own id
(`uuid4` freshness, or the caller's `delegation_guids`), the ARM's entry in the store is unchanged —
and so is every other graph whose id is not one of the generated ids. -/
theorem arm_untouched (cfg : Cfg) (s s' : Store) (arm : String) (gid : String → String) (g0 : G)
    (r : List (String × String)) (hs : s.get arm = some g0)
    (hfresh : ∀ d ∈ delIds g0, gid d ≠ arm)
    (hrun : generateAdmsS cfg s arm gid = some (r, s')) :
    s'.get arm = some g0 ∧ ∀ y, (∀ d ∈ delIds g0, gid d ≠ y) → s'.get y = s.get y := by
  unfold generateAdmsS at hrun
  simp only [hs] at hrun
  split at hrun
  · cases hrun
  · simp only [Option.some.injEq, Prod.mk.injEq] at hrun
    obtain ⟨_, rfl⟩ := hrun
    exact ⟨by rw [foldl_stepS_frame cfg arm g0 gid _ s arm hfresh]; exact hs,
      fun y hy => foldl_stepS_frame cfg arm g0 gid _ s y hy⟩

/-- the hypothesis is needed: with the ARM's own id as the generated id the ARM is replaced by the partition -/
theorem arm_untouched_needs_fresh :
    ∃ s' r, generateAdmsS genCfg [("arm", cexG)] "arm" (fun _ => "arm") = some (r, s') ∧
      Store.get s' "arm" ≠ some cexG := by
  refine ⟨_, _, rfl, ?_⟩
  decide

/-- **the run on the store produces exactly `genAdm`**: with generated ids that are fresh and pairwise distinct,
on a well-formed ARM (unique node ids, edges between its own nodes), the graph stored under the id generated for
`d` is `genAdm cfg g0 d`, and the returned dictionary maps every delegation id present to its generated id. -/
theorem store_run_is_genAdm (cfg : Cfg) (s s' : Store) (arm : String) (gid : String → String) (g0 : G)
    (r : List (String × String)) (hs : s.get arm = some g0)
    (hfresh : ∀ d ∈ delIds g0, gid d ≠ arm) (hinj : ((delIds g0).map gid).Nodup)
    (hnd : g0.ids.Nodup) (hends : ∀ e ∈ g0.edges, e.a ∈ g0.ids ∧ e.b ∈ g0.ids)
    (hrun : generateAdmsS cfg s arm gid = some (r, s')) :
    r = (delIds g0).map (fun d => (d, gid d)) ∧ ∀ d ∈ delIds g0, s'.get (gid d) = some (genAdm cfg g0 d) := by
  unfold generateAdmsS at hrun
  simp only [hs] at hrun
  split at hrun
  · cases hrun
  · simp only [Option.some.injEq, Prod.mk.injEq] at hrun
    obtain ⟨rfl, rfl⟩ := hrun
    exact ⟨rfl, fun d hd => foldl_stepS_get cfg arm g0 gid _ s hs hfresh hinj hnd hends d hd⟩

/-- non-vacuity: `cexG` is well formed, has two delegation ids, and distinct fresh ids exist -/
example : cexG.ids.Nodup ∧ (∀ e ∈ cexG.edges, e.a ∈ cexG.ids ∧ e.b ∈ cexG.ids) ∧ delIds cexG = ["d2", "d1"] ∧
    ((delIds cexG).map (fun d => "adm-" ++ d)).Nodup ∧ (∀ d ∈ delIds cexG, "adm-" ++ d ≠ "arm") := by
  refine ⟨by decide, by decide, by decide, by decide, by decide⟩

/-- **the property, as one statement about the run on the store** (clauses of C13 in the order of its text).
For every store `s` holding a well-formed ARM `g0` under `arm` (unique node ids, edges between its own nodes) and every
assignment `gid` of fresh, pairwise distinct graph ids: `generate_adms` returns one graph id per delegation id present,
and the graph `m` stored under the id generated for `d`
 1. contains every node delegated to `d`, carrying exactly its own entries for `d` (`Node.rewrite`, see `only_own_entries`);
 2. has no entry of another delegation id anywhere;
 3. is a sub-model: nodes are ARM nodes with the same id, class and other properties; edges are ARM edges; every ARM
    edge between two kept nodes is kept;
 4. keeps, for every kept interface, each link with every other end, and the owning service with its owner;
 5. contains every stitch node;
and 6. the ARM (and every other graph of the store whose id was not generated) is unchanged. -/
theorem partition_sound (s s' : Store) (arm : String) (gid : String → String) (g0 : G)
    (r : List (String × String)) (hs : s.get arm = some g0)
    (hfresh : ∀ d ∈ delIds g0, gid d ≠ arm) (hinj : ((delIds g0).map gid).Nodup)
    (hnd : g0.ids.Nodup) (hends : ∀ e ∈ g0.edges, e.a ∈ g0.ids ∧ e.b ∈ g0.ids)
    (hrun : generateAdmsS genCfg s arm gid = some (r, s')) :
    r = (delIds g0).map (fun d => (d, gid d)) ∧
    (∀ d, d ∈ delIds g0 ↔ ∃ n ∈ g0.nodes, n.holds d = true) ∧
    (∀ d ∈ delIds g0, ∃ m, s'.get (gid d) = some m ∧
      (∀ n ∈ g0.nodes, n.holds d = true → n.rewrite d ∈ m.nodes) ∧
      (∀ x ∈ m.nodes, ∀ k ∈ x.ldel.keys ++ x.cdel.keys, k = d) ∧
      (∀ x ∈ m.nodes, ∃ n ∈ g0.nodes, x.id = n.id ∧ x.cls = n.cls ∧ x.props = n.props) ∧
      (m.ids.Nodup ∧ ∀ e ∈ m.edges, e ∈ g0.edges) ∧
      (∀ e ∈ g0.edges, e.a ∈ m.ids → e.b ∈ m.ids → e ∈ m.edges) ∧
      (∀ c L p, c ∈ m.ids → g0.hasCls c "ConnectionPoint" = true → g0.adj c L "connects" → g0.hasCls L "Link" = true →
          g0.adj L p "connects" → g0.hasCls p "ConnectionPoint" = true → p ≠ c → (∀ r, g0.adj L p r → r = "connects") →
          L ∈ m.ids ∧ p ∈ m.ids) ∧
      (∀ c S o, c ∈ m.ids → g0.hasCls c "ConnectionPoint" = true → g0.adj c S "connects" → g0.hasCls S "NetworkService" = true →
          g0.adj S o "has" → (g0.hasCls o "NetworkNode" = true ∨ g0.hasCls o "Component" = true) →
          (∀ r, g0.adj S o r → r = "has") → S ∈ m.ids ∧ o ∈ m.ids) ∧
      (∀ n ∈ g0.nodes, n.isStitch genCfg = true → n.id ∈ m.ids)) ∧
    s'.get arm = some g0 ∧ (∀ y, (∀ d ∈ delIds g0, gid d ≠ y) → s'.get y = s.get y) := by
  have hrun' := store_run_is_genAdm genCfg s s' arm gid g0 r hs hfresh hinj hnd hends hrun
  have hunt := arm_untouched genCfg s s' arm gid g0 r hs hfresh hrun
  refine ⟨hrun'.1, fun d => mem_delIds, ?_, hunt.1, hunt.2⟩
  intro d hd
  refine ⟨genAdm genCfg g0 d, hrun'.2 d hd, ?_, ?_, ?_, ?_, ?_, ?_, ?_, ?_⟩
  · exact fun n hn hh => (holders_kept genCfg g0 d n hn hh).1
  · exact fun x hx k hk => no_foreign_entries genCfg g0 d x hx k hk
  · exact (sub_model genCfg g0 d).1
  · exact ⟨(sub_model genCfg g0 d).2.2.1 hnd, (sub_model genCfg g0 d).2.2.2.1⟩
  · exact (sub_model genCfg g0 d).2.2.2.2.1
  · exact fun c L p hc hcp h1 hL h2 hp hpc hsimple => closure_link_peer g0 d c L p hc hcp h1 hL h2 hp hpc hsimple
  · exact fun c S o hc hcp h1 hS h2 ho hsimple => closure_service_owner g0 d c S o hc hcp h1 hS h2 ho hsimple
  · exact fun n hn hst => (stitch_everywhere genCfg g0 d n hn hst).2

/-! ## partitions of an earlier call stay what they were -/

/-- **a later partitioning — of another model of the same store, or of the same model again — leaves the partitions of an
earlier one what they were**: if none of the graph ids generated by the second call is a graph id generated by the first
(`uuid4` freshness when `delegation_guids` is left out; distinct ids handed in by the caller) or the first model's own id, then after the second call the
graph stored under the id the FIRST call generated for `d` is still `genAdm cfg gA d`, for every delegation id `d` of the
first model — whatever delegation names the two models share — and the first model itself is unchanged. (`armB = armA` is the same model partitioned twice.) -/
theorem earlier_partitions_persist (cfg : Cfg) (s s1 s2 : Store) (armA armB : String) (gidA gidB : String → String)
    (gA gB : G) (rA rB : List (String × String))
    (hsA : s.get armA = some gA) (hfreshA : ∀ d ∈ delIds gA, gidA d ≠ armA) (hinjA : ((delIds gA).map gidA).Nodup)
    (hndA : gA.ids.Nodup) (hendsA : ∀ e ∈ gA.edges, e.a ∈ gA.ids ∧ e.b ∈ gA.ids)
    (hrunA : generateAdmsS cfg s armA gidA = some (rA, s1))
    (hsB : s1.get armB = some gB) (hfreshB : ∀ d ∈ delIds gB, gidB d ≠ armB)
    (hnew : ∀ d ∈ delIds gB, ∀ d' ∈ delIds gA, gidB d ≠ gidA d') (hnewArm : ∀ d ∈ delIds gB, gidB d ≠ armA)
    (hrunB : generateAdmsS cfg s1 armB gidB = some (rB, s2)) :
    (∀ d ∈ delIds gA, s2.get (gidA d) = some (genAdm cfg gA d)) ∧ s2.get armA = s1.get armA := by
  have h1 := (store_run_is_genAdm cfg s s1 armA gidA gA rA hsA hfreshA hinjA hndA hendsA hrunA).2
  have h2 := (arm_untouched cfg s1 s2 armB gidB gB rB hsB hfreshB hrunB).2
  refine ⟨fun d hd => ?_, ?_⟩
  · rw [h2 (gidA d) (fun d' hd' => hnew d' hd' d hd)]
    exact h1 d hd
  · exact h2 armA hnewArm

/-- a second model sharing the delegation name `d2` with `cexG` -/
def cexH : G := { nodes := [⟨"x", "NetworkNode", [], .absent, .dels [("d2", "e")]⟩], edges := [] }

/-- non-vacuity of `earlier_partitions_persist`: two models sharing `d2`, partitioned one after the other under distinct ids -/
example : ∃ r1 s1 r2 s2, generateAdmsS genCfg [("armA", cexG), ("armB", cexH)] "armA" (fun d => "adm-" ++ d) = some (r1, s1) ∧
    Store.get s1 "armB" = some cexH ∧ generateAdmsS genCfg s1 "armB" (fun d => "b-" ++ d) = some (r2, s2) ∧
    (∀ d ∈ delIds cexH, ∀ d' ∈ delIds cexG, "b-" ++ d ≠ "adm-" ++ d') ∧
    (∀ d ∈ delIds cexH, "b-" ++ d ≠ "armA" ∧ "b-" ++ d ≠ "armB") ∧ delIds cexH = ["d2"] := by
  refine ⟨_, _, _, _, rfl, ?_, rfl, ?_, ?_, ?_⟩ <;> decide

/-- the hypothesis `hnew` is needed: when the second call generates, for a delegation name both models use, the graph id the
first call generated (a remembered name ↦ id table), the first model's partition is replaced by the second model's -/
theorem earlier_partitions_need_fresh :
    ∃ r1 s1 r2 s2, generateAdmsS genCfg [("armA", cexG), ("armB", cexH)] "armA" (fun d => "adm-" ++ d) = some (r1, s1) ∧
      generateAdmsS genCfg s1 "armB" (fun d => "adm-" ++ d) = some (r2, s2) ∧
      Store.get s1 "adm-d2" = some (genAdm genCfg cexG "d2") ∧
      Store.get s2 "adm-d2" = some (genAdm genCfg cexH "d2") ∧
      Store.get s2 "adm-d2" ≠ some (genAdm genCfg cexG "d2") := by
  refine ⟨_, _, _, _, rfl, rfl, ?_, ?_, ?_⟩ <;> decide

/-! ## re-keying -/

/-- **re-keying changes only the key** (whatever the outcome, raised or not): node ids, classes, other
properties and all edges are the same; a delegation property is either unchanged or had exactly one entry whose
key — and nothing else — was replaced by the graph id. -/
theorem rekey_only_key (g : G) (x : String) :
    (rekey g x).2.edges = g.edges ∧ Forall2 (NodeKeyOnly x) g.nodes (rekey g x).2.nodes :=
  ⟨rfl, rekeyNodes_keyOnly x g.nodes⟩

/-- when it does not raise, every node was re-keyed -/
theorem rekey_ok_all (g : G) (x : String) (h : (rekey g x).1 = false) :
    Forall2 (fun n m => n.rekey x = some m) g.nodes (rekey g x).2.nodes :=
  rekeyNodes_ok x g.nodes h

/-- re-keying a generated partition never raises (each of its delegation properties has one entry or none) -/
theorem rekey_partition_ok (cfg : Cfg) (g : G) (d x : String) : (rekey (genAdm cfg g d) x).1 = false := by
  apply rekeyNodes_of_all_some
  intro m hm
  rcases mem_genAdm_nodes.1 hm with ⟨n, _, _, rfl⟩
  exact Node.rekey_rewrite_isSome n d x

example : (rekey (genAdm genCfg cexG "d2") "G").2.nodes.map (·.cdel) =
    [.dels [("G", "e")], .absent, .absent, .absent, .absent] := by decide

/-- **re-keying a partition in the store touches that graph only**: every other graph of the store - the ARM, the other
partitions, bystanders - is unchanged, whether or not the call raises; the graph itself becomes `rekey g new` -/
theorem rekey_store_frame (s s' : Store) (x new : String) (raised : Bool) (h : rekeyS s x new = some (raised, s')) :
    (∀ y, y ≠ x → s'.get y = s.get y) ∧ ∃ g, s.get x = some g ∧ s'.get x = some (rekey g new).2 ∧ raised = (rekey g new).1 := by
  unfold rekeyS at h
  cases hg : s.get x with
  | none => simp [hg] at h
  | some g =>
    simp only [hg, Option.some.injEq, Prod.mk.injEq] at h
    obtain ⟨rfl, rfl⟩ := h
    exact ⟨fun y hy => Store.get_set_ne s _ hy, g, rfl, Store.get_set_eq _ _ _, rfl⟩

example : ∃ s', rekeyS [("arm", cexG), ("adm", genAdm genCfg cexG "d2")] "adm" "G" = some (false, s') ∧
    Store.get s' "arm" = some cexG := ⟨_, rfl, by decide⟩

/-- **re-keying composes** (a → b): after a re-keying to `a` that did not raise, re-keying the result to `b` is
exactly re-keying the original to `b` — in particular nothing but the key can have been lost on the way -/
theorem rekey_compose (g : G) (a b : String) (h : (rekey g a).1 = false) :
    rekey (rekey g a).2 b = rekey g b := by
  unfold rekey
  simp only
  rw [rekeyNodes_comp a b g.nodes h]

/-- **re-keying to the key already present is the identity**: if every delegation property is keyed by `x`
(not an object, or a single entry under `x`) the graph is unchanged and nothing is raised -/
theorem rekey_present_key_id (g : G) (x : String)
    (h : ∀ n ∈ g.nodes, KeyedBy x n.ldel ∧ KeyedBy x n.cdel) : rekey g x = (false, g) := by
  unfold rekey
  rw [rekeyNodes_present x g.nodes h]

/-- re-keying twice to the same id (what a merge of an already re-keyed ADM does) changes nothing more (a → a) -/
theorem rekey_twice_same (g : G) (x : String) (h : (rekey g x).1 = false) :
    rekey (rekey g x).2 x = (false, (rekey g x).2) := by
  rw [rekey_compose g x x h]
  exact Prod.ext h rfl

/-- a → b → a ends where a → a does -/
theorem rekey_there_and_back (g : G) (a b : String) (h : (rekey g a).1 = false) :
    rekey (rekey (rekey g a).2 b).2 a = rekey g a := by
  have hb : (rekey (rekey g a).2 b).1 = false := by
    rw [rekey_compose g a b h]
    unfold rekey at h ⊢
    simp only at h ⊢
    cases hr : (rekeyNodes b g.nodes).1 with
    | false => rfl
    | true =>
      exfalso
      -- whether it raises does not depend on the key
      have : ∀ ns : List Node, (rekeyNodes a ns).1 = (rekeyNodes b ns).1 := by
        intro ns
        induction ns with
        | nil => rfl
        | cons n ns ih =>
          have hi := Node.rekey_isSome_indep n a b
          cases ha : n.rekey a with
          | none =>
            cases hb' : n.rekey b with
            | none => rw [rekeyNodes_cons_none ns ha, rekeyNodes_cons_none ns hb']
            | some m => rw [ha, hb'] at hi; cases hi
          | some m =>
            cases hb' : n.rekey b with
            | none => rw [ha, hb'] at hi; cases hi
            | some m' => rw [rekeyNodes_cons_some ns ha, rekeyNodes_cons_some ns hb']; exact ih
      rw [this g.nodes, hr] at h
      cases h
  rw [rekey_compose _ b a hb, rekey_compose g a a h]

/-- non-vacuity: the partition of `cexG` for `d2` re-keyed to `"G"` is keyed by `"G"` everywhere -/
example : ∀ n ∈ (rekey (genAdm genCfg cexG "d2") "G").2.nodes, KeyedBy "G" n.ldel ∧ KeyedBy "G" n.cdel := by
  have : (rekey (genAdm genCfg cexG "d2") "G").2.nodes =
      [⟨"f1i", "ConnectionPoint", [], .absent, .dels [("G", "e")]⟩, ⟨"l1", "Link", [], .absent, .absent⟩,
       ⟨"p", "ConnectionPoint", [], .absent, .absent⟩, ⟨"l2", "Link", [], .absent, .absent⟩,
       ⟨"f2i", "ConnectionPoint", [], .absent, .absent⟩] := by decide
  rw [this]
  intro n hn
  simp only [List.mem_cons, List.not_mem_nil, or_false] at hn
  rcases hn with rfl | rfl | rfl | rfl | rfl
  · exact ⟨Or.inl rfl, Or.inr ⟨"e", rfl⟩⟩
  · exact ⟨Or.inl rfl, Or.inl rfl⟩
  · exact ⟨Or.inl rfl, Or.inl rfl⟩
  · exact ⟨Or.inl rfl, Or.inl rfl⟩
  · exact ⟨Or.inl rfl, Or.inl rfl⟩

/-- end to end for one holder: after partitioning for `d` and re-keying to graph id `x`, the holder's property
has the single key `x` carrying the holder's original entry for `d` (or is absent if it had none) -/
theorem rekey_partition_entry (n : Node) (d x : String) (hd : n.holds d = true) :
    ∃ m, (n.rewrite d).rekey x = some m ∧
      m.ldel.keys = (if d ∈ n.ldel.keys then [x] else []) ∧ (d ∈ n.ldel.keys → m.ldel.get x = n.ldel.get d) ∧
      m.cdel.keys = (if d ∈ n.cdel.keys then [x] else []) ∧ (d ∈ n.cdel.keys → m.cdel.get x = n.cdel.get d) := by
  have hc := Node.catalogued_of_holds hd
  have key : ∀ p : DelProp, ∃ q, rekeyProp (p.restrict d) x = some q ∧
      q.keys = (if d ∈ p.keys then [x] else []) ∧ (d ∈ p.keys → q.get x = p.get d) := by
    intro p
    unfold DelProp.restrict DelProp.get DelProp.keys
    cases h : p.entries.find? (fun e => e.1 == d) with
    | none =>
      have : ¬ d ∈ p.entries.map (·.1) := by
        intro hm
        rcases List.mem_map.1 hm with ⟨e, he, rfl⟩
        have := List.find?_eq_none.1 h e he
        simp at this
      exact ⟨.absent, rfl, by simp [this], fun h' => absurd h' this⟩
    | some e =>
      have h2 := List.mem_of_find?_eq_some h
      have hd' : e.1 = d := by simpa using List.find?_some h
      have : d ∈ p.entries.map (·.1) := List.mem_map.2 ⟨e, h2, hd'⟩
      exact ⟨.dels [(x, e.2)], rfl, by simp [this], fun _ => by simp⟩
  rcases key n.ldel with ⟨ql, hl1, hl2, hl3⟩
  rcases key n.cdel with ⟨qc, hc1, hc2, hc3⟩
  refine ⟨{ n.rewrite d with ldel := ql, cdel := qc }, ?_, hl2, hl3, hc2, hc3⟩
  unfold Node.rekey
  rw [Node.rewrite_ldel_of_catalogued d hc, Node.rewrite_cdel_of_catalogued d hc, hl1, hc1]

end FimVerif.C13
