import FimVerif.Generated.Cypher
import FimVerif.Proofs.Lemmas.C19Render
import FimVerif.Proofs.Lemmas.C19Partial
/-!
# C19 — persistent-backend statements are well-formed and data-independent

`Gen.Cypher.ops` is regenerated from the five Neo4j modules on every run: one template per call of
`session.run`, every interpolation classified as identifier / parameter / value.  The theorems:

* `no_value_piece_data_independent` — for ALL environments: a template without value pieces renders to a
  text that depends only on identifiers (and on the shape of the mappings), never on a stored value.
* `wellformed_extends_to_all_values` — hence one evaluation of the lint decides well-formedness for all values.
* per call site: `…_value_free` (by evaluation of the generated template), or, for the call sites that
  interpolate stored values today, `…_value_dependent_counterexample` (two environments that differ only in a
  stored value and render differently).  `all_sites_classified` + `value_free_except_listed` make the split
  exhaustive over whatever the translator emits: a new or changed call site that interpolates a value breaks
  the build.
* `data_independent_up_to_leaks_partial` — the strongest guarded form that holds for EVERY template today: the text depends on
  no stored value other than the ones `leaks` names; `leaked_values_exact` pins those per known-bad call site.
* `params_supplied`, `wellformed_canonical`, `wellformed_all_values_except_listed`, `injection_rewrites_statement`.

FULL STATEMENT (violated by the code as it is, see the `_counterexample`s and known_findings/C19.json):
  ∀ op ∈ ops, ∀ e1 e2, e1.erase = e2.erase → render e1 op.tpl = render e2 op.tpl
-/
namespace FimVerif.C19
open FimVerif.Cypher FimVerif.Gen.Cypher

/-- A template without value pieces renders to the same text in any two environments that differ only
in stored values (`erase` forgets every value and keeps every name, identifier and mapping shape). -/
theorem no_value_piece_data_independent (t : List Piece) (ht : valueFree t = true) (e1 e2 : Env)
    (hs : e1.erase = e2.erase) : render e1 t = render e2 t := by
  rw [render_erase ht e1, render_erase ht e2, hs]

/-- the text of a value-free template is a function of the identifiers alone -/
theorem value_free_text_depends_only_on_identifiers (t : List Piece) (ht : valueFree t = true) :
    ∃ f : Env → Text, ∀ e, render e t = f e.erase :=
  ⟨fun e' => render e' t, fun e => render_erase ht e⟩

/-- well-formedness of a value-free template, checked for one assignment of values, holds for all of them -/
theorem wellformed_extends_to_all_values (t : List Piece) (ht : valueFree t = true) (sup : List Text)
    (e0 e : Env) (hs : e.erase = e0.erase) (h0 : checkStmt (render e0 t) sup = true) :
    checkStmt (render e t) sup = true := by
  rw [no_value_piece_data_independent t ht e e0 hs]; exact h0

/-- non-vacuity: two environments that differ in every stored value and agree after `erase` -/
def envA : Env := ⟨[(t!"label", t!"Link")], [(t!"node_id", t!"n1")],
  [(t!"props", [⟨[(t!"k", t!"Name")], [(t!"v", t!"alpha")]⟩])]⟩
def envB : Env := ⟨[(t!"label", t!"Link")], [(t!"node_id", t!"x' }) DETACH DELETE s //")],
  [(t!"props", [⟨[(t!"k", t!"Name")], [(t!"v", t!"it's {{}} $graphId")]⟩])]⟩
example : envA.erase = envB.erase ∧ envA ≠ envB := by decide +kernel

/-! ### the generated call sites -/

/-- call sites that interpolate a stored value into the statement text today (known findings) -/
def valueDependentKeys : List Text := [
  t!"Neo4jPropertyGraph.update_node_properties#0", t!"Neo4jPropertyGraph.update_link_properties#0", 
  t!"Neo4jPropertyGraph.add_node#0", t!"Neo4jPropertyGraph.add_link#0", t!"Neo4jPropertyGraph.serialize_graph#0", 
  t!"Neo4jPropertyGraph.serialize_graph#1", t!"Neo4jCBMGraph.get_matching_nodes_with_components#0"]

/-- every other call site -/
def valueFreeKeys : List Text := [
  t!"Neo4jPropertyGraph._validate_graph#0", t!"Neo4jPropertyGraph.delete_graph#0", 
  t!"Neo4jPropertyGraph.get_all_nodes_by_class#0", t!"Neo4jPropertyGraph.get_all_nodes_by_class_and_type#0", 
  t!"Neo4jPropertyGraph.list_all_node_ids#0", t!"Neo4jPropertyGraph.get_node_properties#0", 
  t!"Neo4jPropertyGraph.get_link_properties#0", t!"Neo4jPropertyGraph.update_node_property#0", 
  t!"Neo4jPropertyGraph.unset_node_property#0", t!"Neo4jPropertyGraph.update_nodes_property#0", 
  t!"Neo4jPropertyGraph.update_link_property#0", t!"Neo4jPropertyGraph.unset_link_property#0", 
  t!"Neo4jPropertyGraph.graph_exists#0", t!"Neo4jPropertyGraph.get_nodes_on_shortest_path#0", 
  t!"Neo4jPropertyGraph.get_nodes_on_path_with_hops#0", t!"Neo4jPropertyGraph.get_first_neighbor#0", 
  t!"Neo4jPropertyGraph.get_first_and_second_neighbor#0", t!"Neo4jPropertyGraph.delete_node#0", 
  t!"Neo4jPropertyGraph.node_exists#0", t!"Neo4jPropertyGraph.find_matching_nodes#0", 
  t!"Neo4jPropertyGraph.merge_nodes#0", t!"Neo4jPropertyGraph.get_stitch_nodes#0", 
  t!"Neo4jPropertyGraph.check_node_unique#0", t!"Neo4jPropertyGraph.get_graph_diff#0", 
  t!"Neo4jPropertyGraph.get_graph_property_diff#0", t!"Neo4jGraphImporter._add_indexes#0", 
  t!"Neo4jGraphImporter._import_graph#0", t!"Neo4jGraphImporter._import_graph#1", 
  t!"Neo4jGraphImporter.delete_all_graphs#0", t!"Neo4jGraphImporter.delete_graph#0", 
  t!"Neo4jCBMGraph.get_intersite_links#0", t!"Neo4jCBMGraph.get_sites#0", t!"Neo4jCBMGraph.get_disconnected_sites#0", 
  t!"Neo4jCBMGraph.get_connected_sites#0", t!"Neo4jCBMGraph.get_facility_ports#0", t!"Neo4jASM.check_node_name#0", 
  t!"Neo4jASM.find_node_by_name#0"]

set_option maxRecDepth 100000 in
/-- the two lists cover exactly what the translator found: no call site is unaccounted for, none has vanished -/
theorem all_sites_classified :
    (∀ op ∈ ops, op.key ∈ valueFreeKeys ∨ op.key ∈ valueDependentKeys) ∧
    (∀ k ∈ valueFreeKeys ++ valueDependentKeys, k ∈ ops.map (·.key)) ∧
    (∀ k ∈ valueFreeKeys, k ∉ valueDependentKeys) := by decide +kernel

set_option maxRecDepth 100000 in
/-- every call site not listed as value-dependent has a value-free template (all variants, all table entries) -/
theorem value_free_except_listed : ∀ op ∈ ops, op.key ∉ valueDependentKeys → valueFree op.tpl = true := by decide +kernel

/-- … and therefore hands the driver a text that is independent of every stored value, for all values -/
theorem data_independent_except_listed (op : Op) (hop : op ∈ ops) (hk : op.key ∉ valueDependentKeys)
    (e1 e2 : Env) (hs : e1.erase = e2.erase) : render e1 op.tpl = render e2 op.tpl :=
  no_value_piece_data_independent op.tpl (value_free_except_listed op hop hk) e1 e2 hs

set_option maxRecDepth 100000 in
/-- every `$name` a template mentions is among the keyword arguments of the same `run` call -/
theorem params_supplied : ∀ op ∈ ops, ∀ x ∈ tplParams op.tpl, x ∈ op.supplied := by decide +kernel


/-! ### per call site -/

/-- every stored value replaced by a string that closes the literal it is written into -/
def evil : Text := t!"x'} DETACH DELETE s //\"} DETACH DELETE n //"
def evilRow : Row := ⟨canonRow.idents, canonRow.values.map (fun p => (p.1, evil))⟩
def evilEnv : Env := ⟨canonEnv.idents, canonEnv.values.map (fun p => (p.1, evil)),
  canonEnv.maps.map (fun p => (p.1, p.2.map (fun _ => evilRow)))⟩

set_option maxRecDepth 100000 in
theorem Neo4jPropertyGraph__validate_graph_s0_value_free : ∀ op ∈ ops, op.key = t!"Neo4jPropertyGraph._validate_graph#0" → valueFree op.tpl = true := by decide +kernel

set_option maxRecDepth 100000 in
theorem Neo4jPropertyGraph_delete_graph_s0_value_free : ∀ op ∈ ops, op.key = t!"Neo4jPropertyGraph.delete_graph#0" → valueFree op.tpl = true := by decide +kernel

set_option maxRecDepth 100000 in
theorem Neo4jPropertyGraph_get_all_nodes_by_class_s0_value_free : ∀ op ∈ ops, op.key = t!"Neo4jPropertyGraph.get_all_nodes_by_class#0" → valueFree op.tpl = true := by decide +kernel

set_option maxRecDepth 100000 in
theorem Neo4jPropertyGraph_get_all_nodes_by_class_and_type_s0_value_free : ∀ op ∈ ops, op.key = t!"Neo4jPropertyGraph.get_all_nodes_by_class_and_type#0" → valueFree op.tpl = true := by decide +kernel

set_option maxRecDepth 100000 in
theorem Neo4jPropertyGraph_list_all_node_ids_s0_value_free : ∀ op ∈ ops, op.key = t!"Neo4jPropertyGraph.list_all_node_ids#0" → valueFree op.tpl = true := by decide +kernel

set_option maxRecDepth 100000 in
theorem Neo4jPropertyGraph_get_node_properties_s0_value_free : ∀ op ∈ ops, op.key = t!"Neo4jPropertyGraph.get_node_properties#0" → valueFree op.tpl = true := by decide +kernel

set_option maxRecDepth 100000 in
theorem Neo4jPropertyGraph_get_link_properties_s0_value_free : ∀ op ∈ ops, op.key = t!"Neo4jPropertyGraph.get_link_properties#0" → valueFree op.tpl = true := by decide +kernel

set_option maxRecDepth 100000 in
theorem Neo4jPropertyGraph_update_node_property_s0_value_free : ∀ op ∈ ops, op.key = t!"Neo4jPropertyGraph.update_node_property#0" → valueFree op.tpl = true := by decide +kernel

set_option maxRecDepth 100000 in
theorem Neo4jPropertyGraph_unset_node_property_s0_value_free : ∀ op ∈ ops, op.key = t!"Neo4jPropertyGraph.unset_node_property#0" → valueFree op.tpl = true := by decide +kernel

set_option maxRecDepth 100000 in
theorem Neo4jPropertyGraph_update_nodes_property_s0_value_free : ∀ op ∈ ops, op.key = t!"Neo4jPropertyGraph.update_nodes_property#0" → valueFree op.tpl = true := by decide +kernel

set_option maxRecDepth 100000 in
theorem Neo4jPropertyGraph_update_link_property_s0_value_free : ∀ op ∈ ops, op.key = t!"Neo4jPropertyGraph.update_link_property#0" → valueFree op.tpl = true := by decide +kernel

set_option maxRecDepth 100000 in
theorem Neo4jPropertyGraph_unset_link_property_s0_value_free : ∀ op ∈ ops, op.key = t!"Neo4jPropertyGraph.unset_link_property#0" → valueFree op.tpl = true := by decide +kernel

set_option maxRecDepth 100000 in
theorem Neo4jPropertyGraph_graph_exists_s0_value_free : ∀ op ∈ ops, op.key = t!"Neo4jPropertyGraph.graph_exists#0" → valueFree op.tpl = true := by decide +kernel

set_option maxRecDepth 100000 in
theorem Neo4jPropertyGraph_get_nodes_on_shortest_path_s0_value_free : ∀ op ∈ ops, op.key = t!"Neo4jPropertyGraph.get_nodes_on_shortest_path#0" → valueFree op.tpl = true := by decide +kernel

set_option maxRecDepth 100000 in
theorem Neo4jPropertyGraph_get_nodes_on_path_with_hops_s0_value_free : ∀ op ∈ ops, op.key = t!"Neo4jPropertyGraph.get_nodes_on_path_with_hops#0" → valueFree op.tpl = true := by decide +kernel

set_option maxRecDepth 100000 in
theorem Neo4jPropertyGraph_get_first_neighbor_s0_value_free : ∀ op ∈ ops, op.key = t!"Neo4jPropertyGraph.get_first_neighbor#0" → valueFree op.tpl = true := by decide +kernel

set_option maxRecDepth 100000 in
theorem Neo4jPropertyGraph_get_first_and_second_neighbor_s0_value_free : ∀ op ∈ ops, op.key = t!"Neo4jPropertyGraph.get_first_and_second_neighbor#0" → valueFree op.tpl = true := by decide +kernel

set_option maxRecDepth 100000 in
theorem Neo4jPropertyGraph_delete_node_s0_value_free : ∀ op ∈ ops, op.key = t!"Neo4jPropertyGraph.delete_node#0" → valueFree op.tpl = true := by decide +kernel

set_option maxRecDepth 100000 in
theorem Neo4jPropertyGraph_node_exists_s0_value_free : ∀ op ∈ ops, op.key = t!"Neo4jPropertyGraph.node_exists#0" → valueFree op.tpl = true := by decide +kernel

set_option maxRecDepth 100000 in
theorem Neo4jPropertyGraph_find_matching_nodes_s0_value_free : ∀ op ∈ ops, op.key = t!"Neo4jPropertyGraph.find_matching_nodes#0" → valueFree op.tpl = true := by decide +kernel

set_option maxRecDepth 100000 in
theorem Neo4jPropertyGraph_merge_nodes_s0_value_free : ∀ op ∈ ops, op.key = t!"Neo4jPropertyGraph.merge_nodes#0" → valueFree op.tpl = true := by decide +kernel

set_option maxRecDepth 100000 in
theorem Neo4jPropertyGraph_get_stitch_nodes_s0_value_free : ∀ op ∈ ops, op.key = t!"Neo4jPropertyGraph.get_stitch_nodes#0" → valueFree op.tpl = true := by decide +kernel

set_option maxRecDepth 100000 in
theorem Neo4jPropertyGraph_check_node_unique_s0_value_free : ∀ op ∈ ops, op.key = t!"Neo4jPropertyGraph.check_node_unique#0" → valueFree op.tpl = true := by decide +kernel

set_option maxRecDepth 100000 in
theorem Neo4jPropertyGraph_get_graph_diff_s0_value_free : ∀ op ∈ ops, op.key = t!"Neo4jPropertyGraph.get_graph_diff#0" → valueFree op.tpl = true := by decide +kernel

set_option maxRecDepth 100000 in
theorem Neo4jPropertyGraph_get_graph_property_diff_s0_value_free : ∀ op ∈ ops, op.key = t!"Neo4jPropertyGraph.get_graph_property_diff#0" → valueFree op.tpl = true := by decide +kernel

set_option maxRecDepth 100000 in
theorem Neo4jGraphImporter__add_indexes_s0_value_free : ∀ op ∈ ops, op.key = t!"Neo4jGraphImporter._add_indexes#0" → valueFree op.tpl = true := by decide +kernel

set_option maxRecDepth 100000 in
theorem Neo4jGraphImporter__import_graph_s0_value_free : ∀ op ∈ ops, op.key = t!"Neo4jGraphImporter._import_graph#0" → valueFree op.tpl = true := by decide +kernel

set_option maxRecDepth 100000 in
theorem Neo4jGraphImporter__import_graph_s1_value_free : ∀ op ∈ ops, op.key = t!"Neo4jGraphImporter._import_graph#1" → valueFree op.tpl = true := by decide +kernel

set_option maxRecDepth 100000 in
theorem Neo4jGraphImporter_delete_all_graphs_s0_value_free : ∀ op ∈ ops, op.key = t!"Neo4jGraphImporter.delete_all_graphs#0" → valueFree op.tpl = true := by decide +kernel

set_option maxRecDepth 100000 in
theorem Neo4jGraphImporter_delete_graph_s0_value_free : ∀ op ∈ ops, op.key = t!"Neo4jGraphImporter.delete_graph#0" → valueFree op.tpl = true := by decide +kernel

set_option maxRecDepth 100000 in
theorem Neo4jCBMGraph_get_intersite_links_s0_value_free : ∀ op ∈ ops, op.key = t!"Neo4jCBMGraph.get_intersite_links#0" → valueFree op.tpl = true := by decide +kernel

set_option maxRecDepth 100000 in
theorem Neo4jCBMGraph_get_sites_s0_value_free : ∀ op ∈ ops, op.key = t!"Neo4jCBMGraph.get_sites#0" → valueFree op.tpl = true := by decide +kernel

set_option maxRecDepth 100000 in
theorem Neo4jCBMGraph_get_disconnected_sites_s0_value_free : ∀ op ∈ ops, op.key = t!"Neo4jCBMGraph.get_disconnected_sites#0" → valueFree op.tpl = true := by decide +kernel

set_option maxRecDepth 100000 in
theorem Neo4jCBMGraph_get_connected_sites_s0_value_free : ∀ op ∈ ops, op.key = t!"Neo4jCBMGraph.get_connected_sites#0" → valueFree op.tpl = true := by decide +kernel

set_option maxRecDepth 100000 in
theorem Neo4jCBMGraph_get_facility_ports_s0_value_free : ∀ op ∈ ops, op.key = t!"Neo4jCBMGraph.get_facility_ports#0" → valueFree op.tpl = true := by decide +kernel

set_option maxRecDepth 100000 in
theorem Neo4jASM_check_node_name_s0_value_free : ∀ op ∈ ops, op.key = t!"Neo4jASM.check_node_name#0" → valueFree op.tpl = true := by decide +kernel

set_option maxRecDepth 100000 in
theorem Neo4jASM_find_node_by_name_s0_value_free : ∀ op ∈ ops, op.key = t!"Neo4jASM.find_node_by_name#0" → valueFree op.tpl = true := by decide +kernel

set_option maxRecDepth 100000 in
/-- `Neo4jPropertyGraph.update_node_properties#0` hands the driver a text that changes with a stored value -/
theorem Neo4jPropertyGraph_update_node_properties_s0_value_dependent_counterexample :
    ∃ op ∈ ops, op.key = t!"Neo4jPropertyGraph.update_node_properties#0" ∧ ∃ e1 e2 : Env, e1.erase = e2.erase ∧ render e1 op.tpl ≠ render e2 op.tpl :=
  ⟨op_Neo4jPropertyGraph_update_node_properties_s0_v0, by simp [ops], by decide +kernel, canonEnv, evilEnv, by decide +kernel, by decide +kernel⟩

set_option maxRecDepth 100000 in
/-- `Neo4jPropertyGraph.update_link_properties#0` hands the driver a text that changes with a stored value -/
theorem Neo4jPropertyGraph_update_link_properties_s0_value_dependent_counterexample :
    ∃ op ∈ ops, op.key = t!"Neo4jPropertyGraph.update_link_properties#0" ∧ ∃ e1 e2 : Env, e1.erase = e2.erase ∧ render e1 op.tpl ≠ render e2 op.tpl :=
  ⟨op_Neo4jPropertyGraph_update_link_properties_s0_v0, by simp [ops], by decide +kernel, canonEnv, evilEnv, by decide +kernel, by decide +kernel⟩

set_option maxRecDepth 100000 in
/-- `Neo4jPropertyGraph.add_node#0` hands the driver a text that changes with a stored value -/
theorem Neo4jPropertyGraph_add_node_s0_value_dependent_counterexample :
    ∃ op ∈ ops, op.key = t!"Neo4jPropertyGraph.add_node#0" ∧ ∃ e1 e2 : Env, e1.erase = e2.erase ∧ render e1 op.tpl ≠ render e2 op.tpl :=
  ⟨op_Neo4jPropertyGraph_add_node_s0_v0, by simp [ops], by decide +kernel, canonEnv, evilEnv, by decide +kernel, by decide +kernel⟩

set_option maxRecDepth 100000 in
/-- `Neo4jPropertyGraph.add_link#0` hands the driver a text that changes with a stored value -/
theorem Neo4jPropertyGraph_add_link_s0_value_dependent_counterexample :
    ∃ op ∈ ops, op.key = t!"Neo4jPropertyGraph.add_link#0" ∧ ∃ e1 e2 : Env, e1.erase = e2.erase ∧ render e1 op.tpl ≠ render e2 op.tpl :=
  ⟨op_Neo4jPropertyGraph_add_link_s0_v0, by simp [ops], by decide +kernel, canonEnv, evilEnv, by decide +kernel, by decide +kernel⟩

set_option maxRecDepth 100000 in
/-- `Neo4jPropertyGraph.serialize_graph#0` hands the driver a text that changes with a stored value -/
theorem Neo4jPropertyGraph_serialize_graph_s0_value_dependent_counterexample :
    ∃ op ∈ ops, op.key = t!"Neo4jPropertyGraph.serialize_graph#0" ∧ ∃ e1 e2 : Env, e1.erase = e2.erase ∧ render e1 op.tpl ≠ render e2 op.tpl :=
  ⟨op_Neo4jPropertyGraph_serialize_graph_s0_v0, by simp [ops], by decide +kernel, canonEnv, evilEnv, by decide +kernel, by decide +kernel⟩

set_option maxRecDepth 100000 in
/-- `Neo4jPropertyGraph.serialize_graph#1` hands the driver a text that changes with a stored value -/
theorem Neo4jPropertyGraph_serialize_graph_s1_value_dependent_counterexample :
    ∃ op ∈ ops, op.key = t!"Neo4jPropertyGraph.serialize_graph#1" ∧ ∃ e1 e2 : Env, e1.erase = e2.erase ∧ render e1 op.tpl ≠ render e2 op.tpl :=
  ⟨op_Neo4jPropertyGraph_serialize_graph_s1_v0, by simp [ops], by decide +kernel, canonEnv, evilEnv, by decide +kernel, by decide +kernel⟩

set_option maxRecDepth 100000 in
/-- `Neo4jCBMGraph.get_matching_nodes_with_components#0` hands the driver a text that changes with a stored value -/
theorem Neo4jCBMGraph_get_matching_nodes_with_components_s0_value_dependent_counterexample :
    ∃ op ∈ ops, op.key = t!"Neo4jCBMGraph.get_matching_nodes_with_components#0" ∧ ∃ e1 e2 : Env, e1.erase = e2.erase ∧ render e1 op.tpl ≠ render e2 op.tpl :=
  ⟨op_Neo4jCBMGraph_get_matching_nodes_with_components_s0_v1, by simp [ops], by decide +kernel, canonEnv, evilEnv, by decide +kernel, by decide +kernel⟩

/-- a template leaks nothing exactly when it is value-free -/
theorem leaks_nil_of_value_free_atom (a : Atom) : a.vf = true → a.leaks = [] := by
  cases a <;> simp [Atom.vf, Atom.leaks]

set_option maxRecDepth 100000 in
/-- Exactly which stored values each value-dependent call site writes into the statement text.  The known findings are keyed by
call site, so this table is what keeps a *further* value leaking into an already listed statement from going unnoticed:
`node_id`, `node_a`, `node_b`, `graphId`s … of these sites stay parameters. -/
theorem leaked_values_exact :
    (ops.filter (fun op => valueDependentKeys.contains op.key)).map (fun op => (op.key, op.variant, leaks op.tpl)) =
    [ (t!"Neo4jPropertyGraph.update_node_properties#0", 0, [t!"row.v"]),
      (t!"Neo4jPropertyGraph.update_link_properties#0", 0, [t!"row.v"]),
      (t!"Neo4jPropertyGraph.serialize_graph#0", 0, [t!"graph_id"]),
      (t!"Neo4jPropertyGraph.serialize_graph#1", 0, [t!"graph_id"]),
      (t!"Neo4jPropertyGraph.add_node#0", 0, [t!"graph_id", t!"node_id", t!"row.v"]),
      (t!"Neo4jPropertyGraph.add_link#0", 0, [t!"row.v"]),
      (t!"Neo4jCBMGraph.get_matching_nodes_with_components#0", 0, [t!"row.v"]),
      (t!"Neo4jCBMGraph.get_matching_nodes_with_components#0", 1, [t!"row.v", t!"row.resource_model"]) ] := by decide +kernel

/-- GUARDED FORM of the full statement, valid for EVERY template (also those of the value-dependent call sites), for all
values: the text depends on no stored value other than the ones the template leaks.  Together with `leaked_values_exact`:
`update_node_properties` / `update_link_properties` / `add_link` / `get_matching_nodes_with_components` depend only on the
values of the property map (and component models), `serialize_graph` only on the graph id, `add_node` on graph id, node id
and property values; every other argument of these operations reaches the driver as a parameter. -/
theorem data_independent_up_to_leaks_partial (t : List Piece) (e1 e2 : Env)
    (hs : e1.eraseExcept (leaks t) = e2.eraseExcept (leaks t)) : render e1 t = render e2 t := by
  have ht : ∀ x ∈ leaks t, (leaks t).contains x = true := fun x hx => List.contains_iff_mem.mpr hx
  rw [render_eraseExcept ht e1, render_eraseExcept ht e2, hs]

/-- non-vacuity: for `update_node_properties` two environments with different node ids and graph ids but the same property
values are identified by the hypothesis -/
example :
    let L := leaks op_Neo4jPropertyGraph_update_node_properties_s0_v0.tpl
    let e1 : Env := ⟨[], [(t!"node_id", t!"n1"), (t!"graph_id", t!"g")], [(t!"props", [⟨[(t!"k", t!"Name")], [(t!"v", t!"it's")]⟩])]⟩
    let e2 : Env := ⟨[], [(t!"node_id", t!"x' //"), (t!"graph_id", t!"\"")], [(t!"props", [⟨[(t!"k", t!"Name")], [(t!"v", t!"it's")]⟩])]⟩
    e1.eraseExcept L = e2.eraseExcept L ∧ e1 ≠ e2 := by decide +kernel

/-! ### well-formedness -/

set_option maxRecDepth 1000000 in
/-- with the canonical identifiers every generated statement passes the lint (balanced, nothing unexpanded,
every `$name` supplied, every variable bound) -/
theorem wellformed_canonical : ∀ op ∈ ops, checkStmt (render canonEnv op.tpl) op.supplied = true := by decide +kernel

set_option maxRecDepth 1000000 in
/-- EMPTY containers (empty props dict, empty merge_properties, component info without devices) and mappings without counted
components: every variant that can run in such an environment (`reachable`: the branch conditions the translator could
evaluate) still hands over a well-formed statement -/
theorem wellformed_empty_containers :
    ∀ op ∈ ops.filter (fun op => usesMaps op.tpl), ∀ e ∈ [emptyMapsEnv, propsOnlyEnv], op.reachable e = true →
      checkStmt (render e op.tpl) op.supplied = true := by decide +kernel

set_option maxRecDepth 1000000 in
/-- `get_matching_nodes_with_components(props={})` (repaired: the separator travels with each property): the map is
`{GraphID: $graphId }`, no dangling comma -/
theorem get_matching_nodes_empty_props_wellformed :
    op_Neo4jCBMGraph_get_matching_nodes_with_components_s0_v0.reachable emptyMapsEnv = true ∧
    render emptyMapsEnv op_Neo4jCBMGraph_get_matching_nodes_with_components_s0_v0.tpl =
      t!"MATCH(n:GraphNode:X {GraphID: $graphId }) RETURN collect(n.NodeID) as candidate_ids" ∧
    (lint (render emptyMapsEnv op_Neo4jCBMGraph_get_matching_nodes_with_components_s0_v0.tpl)
      op_Neo4jCBMGraph_get_matching_nodes_with_components_s0_v0.supplied).defects = [] := by decide +kernel

/-- … and for the value-free call sites that verdict holds for ALL stored values -/
theorem wellformed_all_values_except_listed (op : Op) (hop : op ∈ ops) (hk : op.key ∉ valueDependentKeys)
    (e : Env) (hs : e.erase = canonEnv.erase) : checkStmt (render e op.tpl) op.supplied = true :=
  wellformed_extends_to_all_values op.tpl (value_free_except_listed op hop hk) op.supplied canonEnv e hs
    (wellformed_canonical op hop)

set_option maxRecDepth 1000000 in
/-- what the interpolation in `update_node_properties` permits: a stored value `x'} DETACH DELETE s //` yields a
statement that still passes the lint and is a different statement (it deletes the node) -/
theorem injection_rewrites_statement :
    let e : Env := ⟨[], [], [(t!"props", [⟨[(t!"k", t!"Name")], [(t!"v", t!"x'} DETACH DELETE s //")]⟩])]⟩
    render e op_Neo4jPropertyGraph_update_node_properties_s0_v0.tpl =
      t!"MATCH (s:GraphNode {GraphID: $graphId, NodeID: $nodeId}) SET s+= { Name: 'x'} DETACH DELETE s //' } RETURN properties(s)"
    ∧ checkStmt (render e op_Neo4jPropertyGraph_update_node_properties_s0_v0.tpl)
        op_Neo4jPropertyGraph_update_node_properties_s0_v0.supplied = true := by decide +kernel

end FimVerif.C19
