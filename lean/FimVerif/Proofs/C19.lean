import FimVerif.Generated.Cypher
import FimVerif.Proofs.Lemmas.C19Render
import FimVerif.Proofs.Lemmas.C19Partial
import FimVerif.Proofs.Lemmas.C19Holes
import FimVerif.Proofs.Lemmas.C19Dangling
/-!
# C19 — persistent-backend statements are well-formed and data-independent

`Gen.Cypher.ops` is regenerated from the five Neo4j modules on every run: one template per call of
`session.run`, every interpolation classified as identifier / parameter / value.  The theorems:

* `no_value_piece_data_independent` — for ALL environments: a template without value pieces renders to a
  text that depends only on identifiers (and on the shape of the mappings), never on a stored value.
* `wellformed_extends_to_all_values` — hence one evaluation of the lint decides well-formedness for all values.
* per call site: `…_value_free` (by evaluation of the generated template), or, for the call sites that
  interpolate stored values today, `…_value_dependent_counterexample` (two environments that differ only in a
  stored value and render differently).  `all_sites_classified` + `value_free_except_listed` make the split
  exhaustive over whatever the translator emits: a new or changed call site that interpolates a value breaks
  the build.
* `data_independent_up_to_leaks_partial` — the strongest guarded form that holds for EVERY template today: the text depends on
  no stored value other than the ones `leaks` names; `leaked_values_exact` pins those per known-bad call site.
* `params_supplied`, `wellformed_canonical`, `wellformed_all_values_except_listed`, `injection_rewrites_statement`.
* `lint_verdict_independent_of_identifiers` - for ALL texts with identifier holes: the whole result of the lint (defects, unbound
  variables, missing parameters) is the same whatever identifier-shaped non-keyword strings fill the holes; `bound_ok` (every
  referenced variable bound under Cypher scoping: WITH / UNION project, YIELD / UNWIND … AS / patterns / comprehensions bind,
  clause by clause) in particular.
* `wellformed_all_identifiers` - hence every generated template, in every argument shape (mappings absent/empty, one, two, three
  entries; with and without counted components), is well-formed for ALL class / relation / property names (one kernel evaluation
  per template and shape, `hole_templates_clean`, decides them all); `wellformed_all_identifiers_all_values` adds all stored values
  for the value-free call sites.

FULL STATEMENT (violated by the code as it is, see the `_counterexample`s and known_findings/C19.json):
  ∀ op ∈ ops, ∀ e1 e2, e1.erase = e2.erase → render e1 op.tpl = render e2 op.tpl
-/
namespace FimVerif.C19
open FimVerif.Cypher FimVerif.Gen.Cypher

/-- A template without value pieces renders to the same text in any two environments that differ only
in stored values (`erase` forgets every value and keeps every name, identifier and mapping shape). -/
theorem no_value_piece_data_independent (t : List Piece) (ht : valueFree t = true) (e1 e2 : Env)
    (hs : e1.erase = e2.erase) : render e1 t = render e2 t := by
  rw [render_erase ht e1, render_erase ht e2, hs]

/-- the text of a value-free template is a function of the identifiers alone -/
theorem value_free_text_depends_only_on_identifiers (t : List Piece) (ht : valueFree t = true) :
    ∃ f : Env → Text, ∀ e, render e t = f e.erase :=
  ⟨fun e' => render e' t, fun e => render_erase ht e⟩

/-- well-formedness of a value-free template, checked for one assignment of values, holds for all of them -/
theorem wellformed_extends_to_all_values (t : List Piece) (ht : valueFree t = true) (sup : List Text)
    (e0 e : Env) (hs : e.erase = e0.erase) (h0 : checkStmt (render e0 t) sup = true) :
    checkStmt (render e t) sup = true := by
  rw [no_value_piece_data_independent t ht e e0 hs]; exact h0

/-- non-vacuity: two environments that differ in every stored value and agree after `erase` -/
def envA : Env := ⟨[(t!"label", t!"Link")], [(t!"node_id", t!"n1")],
  [(t!"props", [⟨[(t!"k", t!"Name")], [(t!"v", t!"alpha")]⟩])]⟩
def envB : Env := ⟨[(t!"label", t!"Link")], [(t!"node_id", t!"x' }) DETACH DELETE s //")],
  [(t!"props", [⟨[(t!"k", t!"Name")], [(t!"v", t!"it's {{}} $graphId")]⟩])]⟩
example : envA.erase = envB.erase ∧ envA ≠ envB := by decide +kernel

/-! ### the generated call sites -/

/-- call sites that interpolate a stored value into the statement text today (known findings) -/
def valueDependentKeys : List Text := [
  t!"Neo4jPropertyGraph.update_node_properties#0", t!"Neo4jPropertyGraph.update_link_properties#0", 
  t!"Neo4jPropertyGraph.add_node#0", t!"Neo4jPropertyGraph.add_link#0", t!"Neo4jPropertyGraph.serialize_graph#0", 
  t!"Neo4jPropertyGraph.serialize_graph#1", t!"Neo4jCBMGraph.get_matching_nodes_with_components#0"]

/-- every other call site -/
def valueFreeKeys : List Text := [
  t!"Neo4jPropertyGraph._validate_graph#0", t!"Neo4jPropertyGraph.delete_graph#0", 
  t!"Neo4jPropertyGraph.get_all_nodes_by_class#0", t!"Neo4jPropertyGraph.get_all_nodes_by_class_and_type#0", 
  t!"Neo4jPropertyGraph.list_all_node_ids#0", t!"Neo4jPropertyGraph.get_node_properties#0", 
  t!"Neo4jPropertyGraph.get_link_properties#0", t!"Neo4jPropertyGraph.update_node_property#0", 
  t!"Neo4jPropertyGraph.unset_node_property#0", t!"Neo4jPropertyGraph.update_nodes_property#0", 
  t!"Neo4jPropertyGraph.update_link_property#0", t!"Neo4jPropertyGraph.unset_link_property#0", 
  t!"Neo4jPropertyGraph.graph_exists#0", t!"Neo4jPropertyGraph.get_nodes_on_shortest_path#0", 
  t!"Neo4jPropertyGraph.get_nodes_on_path_with_hops#0", t!"Neo4jPropertyGraph.get_first_neighbor#0", 
  t!"Neo4jPropertyGraph.get_first_and_second_neighbor#0", t!"Neo4jPropertyGraph.delete_node#0", 
  t!"Neo4jPropertyGraph.node_exists#0", t!"Neo4jPropertyGraph.find_matching_nodes#0", 
  t!"Neo4jPropertyGraph.merge_nodes#0", t!"Neo4jPropertyGraph.get_stitch_nodes#0", 
  t!"Neo4jPropertyGraph.check_node_unique#0", t!"Neo4jPropertyGraph.get_graph_diff#0", 
  t!"Neo4jPropertyGraph.get_graph_property_diff#0", t!"Neo4jGraphImporter._add_indexes#0", 
  t!"Neo4jGraphImporter._import_graph#0", t!"Neo4jGraphImporter._import_graph#1", 
  t!"Neo4jGraphImporter.delete_all_graphs#0", t!"Neo4jGraphImporter.delete_graph#0", 
  t!"Neo4jCBMGraph.get_intersite_links#0", t!"Neo4jCBMGraph.get_sites#0", t!"Neo4jCBMGraph.get_disconnected_sites#0", 
  t!"Neo4jCBMGraph.get_connected_sites#0", t!"Neo4jCBMGraph.get_facility_ports#0", t!"Neo4jASM.check_node_name#0", 
  t!"Neo4jASM.find_node_by_name#0"]

set_option maxRecDepth 100000 in
/-- the two lists cover exactly what the translator found: no call site is unaccounted for, none has vanished -/
theorem all_sites_classified :
    (∀ op ∈ ops, op.key ∈ valueFreeKeys ∨ op.key ∈ valueDependentKeys) ∧
    (∀ k ∈ valueFreeKeys ++ valueDependentKeys, k ∈ ops.map (·.key)) ∧
    (∀ k ∈ valueFreeKeys, k ∉ valueDependentKeys) := by decide +kernel

set_option maxRecDepth 100000 in
/-- every call site not listed as value-dependent has a value-free template (all variants, all table entries) -/
theorem value_free_except_listed : ∀ op ∈ ops, op.key ∉ valueDependentKeys → valueFree op.tpl = true := by decide +kernel

/-- … and therefore hands the driver a text that is independent of every stored value, for all values -/
theorem data_independent_except_listed (op : Op) (hop : op ∈ ops) (hk : op.key ∉ valueDependentKeys)
    (e1 e2 : Env) (hs : e1.erase = e2.erase) : render e1 op.tpl = render e2 op.tpl :=
  no_value_piece_data_independent op.tpl (value_free_except_listed op hop hk) e1 e2 hs

set_option maxRecDepth 100000 in
/-- every `$name` a template mentions is among the keyword arguments of the same `run` call -/
theorem params_supplied : ∀ op ∈ ops, ∀ x ∈ tplParams op.tpl, x ∈ op.supplied := by decide +kernel


/-! ### per call site -/

/-- every stored value replaced by a string that closes the literal it is written into -/
def evil : Text := t!"x'} DETACH DELETE s //\"} DETACH DELETE n //"
def evilRow : Row := ⟨canonRow.idents, canonRow.values.map (fun p => (p.1, evil))⟩
def evilEnv : Env := ⟨canonEnv.idents, canonEnv.values.map (fun p => (p.1, evil)),
  canonEnv.maps.map (fun p => (p.1, p.2.map (fun _ => evilRow)))⟩

set_option maxRecDepth 100000 in
theorem Neo4jPropertyGraph__validate_graph_s0_value_free : ∀ op ∈ ops, op.key = t!"Neo4jPropertyGraph._validate_graph#0" → valueFree op.tpl = true := by decide +kernel

set_option maxRecDepth 100000 in
theorem Neo4jPropertyGraph_delete_graph_s0_value_free : ∀ op ∈ ops, op.key = t!"Neo4jPropertyGraph.delete_graph#0" → valueFree op.tpl = true := by decide +kernel

set_option maxRecDepth 100000 in
theorem Neo4jPropertyGraph_get_all_nodes_by_class_s0_value_free : ∀ op ∈ ops, op.key = t!"Neo4jPropertyGraph.get_all_nodes_by_class#0" → valueFree op.tpl = true := by decide +kernel

set_option maxRecDepth 100000 in
theorem Neo4jPropertyGraph_get_all_nodes_by_class_and_type_s0_value_free : ∀ op ∈ ops, op.key = t!"Neo4jPropertyGraph.get_all_nodes_by_class_and_type#0" → valueFree op.tpl = true := by decide +kernel

set_option maxRecDepth 100000 in
theorem Neo4jPropertyGraph_list_all_node_ids_s0_value_free : ∀ op ∈ ops, op.key = t!"Neo4jPropertyGraph.list_all_node_ids#0" → valueFree op.tpl = true := by decide +kernel

set_option maxRecDepth 100000 in
theorem Neo4jPropertyGraph_get_node_properties_s0_value_free : ∀ op ∈ ops, op.key = t!"Neo4jPropertyGraph.get_node_properties#0" → valueFree op.tpl = true := by decide +kernel

set_option maxRecDepth 100000 in
theorem Neo4jPropertyGraph_get_link_properties_s0_value_free : ∀ op ∈ ops, op.key = t!"Neo4jPropertyGraph.get_link_properties#0" → valueFree op.tpl = true := by decide +kernel

set_option maxRecDepth 100000 in
theorem Neo4jPropertyGraph_update_node_property_s0_value_free : ∀ op ∈ ops, op.key = t!"Neo4jPropertyGraph.update_node_property#0" → valueFree op.tpl = true := by decide +kernel

set_option maxRecDepth 100000 in
theorem Neo4jPropertyGraph_unset_node_property_s0_value_free : ∀ op ∈ ops, op.key = t!"Neo4jPropertyGraph.unset_node_property#0" → valueFree op.tpl = true := by decide +kernel

set_option maxRecDepth 100000 in
theorem Neo4jPropertyGraph_update_nodes_property_s0_value_free : ∀ op ∈ ops, op.key = t!"Neo4jPropertyGraph.update_nodes_property#0" → valueFree op.tpl = true := by decide +kernel

set_option maxRecDepth 100000 in
theorem Neo4jPropertyGraph_update_link_property_s0_value_free : ∀ op ∈ ops, op.key = t!"Neo4jPropertyGraph.update_link_property#0" → valueFree op.tpl = true := by decide +kernel

set_option maxRecDepth 100000 in
theorem Neo4jPropertyGraph_unset_link_property_s0_value_free : ∀ op ∈ ops, op.key = t!"Neo4jPropertyGraph.unset_link_property#0" → valueFree op.tpl = true := by decide +kernel

set_option maxRecDepth 100000 in
theorem Neo4jPropertyGraph_graph_exists_s0_value_free : ∀ op ∈ ops, op.key = t!"Neo4jPropertyGraph.graph_exists#0" → valueFree op.tpl = true := by decide +kernel

set_option maxRecDepth 100000 in
theorem Neo4jPropertyGraph_get_nodes_on_shortest_path_s0_value_free : ∀ op ∈ ops, op.key = t!"Neo4jPropertyGraph.get_nodes_on_shortest_path#0" → valueFree op.tpl = true := by decide +kernel

set_option maxRecDepth 100000 in
theorem Neo4jPropertyGraph_get_nodes_on_path_with_hops_s0_value_free : ∀ op ∈ ops, op.key = t!"Neo4jPropertyGraph.get_nodes_on_path_with_hops#0" → valueFree op.tpl = true := by decide +kernel

set_option maxRecDepth 100000 in
theorem Neo4jPropertyGraph_get_first_neighbor_s0_value_free : ∀ op ∈ ops, op.key = t!"Neo4jPropertyGraph.get_first_neighbor#0" → valueFree op.tpl = true := by decide +kernel

set_option maxRecDepth 100000 in
theorem Neo4jPropertyGraph_get_first_and_second_neighbor_s0_value_free : ∀ op ∈ ops, op.key = t!"Neo4jPropertyGraph.get_first_and_second_neighbor#0" → valueFree op.tpl = true := by decide +kernel

set_option maxRecDepth 100000 in
theorem Neo4jPropertyGraph_delete_node_s0_value_free : ∀ op ∈ ops, op.key = t!"Neo4jPropertyGraph.delete_node#0" → valueFree op.tpl = true := by decide +kernel

set_option maxRecDepth 100000 in
theorem Neo4jPropertyGraph_node_exists_s0_value_free : ∀ op ∈ ops, op.key = t!"Neo4jPropertyGraph.node_exists#0" → valueFree op.tpl = true := by decide +kernel

set_option maxRecDepth 100000 in
theorem Neo4jPropertyGraph_find_matching_nodes_s0_value_free : ∀ op ∈ ops, op.key = t!"Neo4jPropertyGraph.find_matching_nodes#0" → valueFree op.tpl = true := by decide +kernel

set_option maxRecDepth 100000 in
theorem Neo4jPropertyGraph_merge_nodes_s0_value_free : ∀ op ∈ ops, op.key = t!"Neo4jPropertyGraph.merge_nodes#0" → valueFree op.tpl = true := by decide +kernel

set_option maxRecDepth 100000 in
theorem Neo4jPropertyGraph_get_stitch_nodes_s0_value_free : ∀ op ∈ ops, op.key = t!"Neo4jPropertyGraph.get_stitch_nodes#0" → valueFree op.tpl = true := by decide +kernel

set_option maxRecDepth 100000 in
theorem Neo4jPropertyGraph_check_node_unique_s0_value_free : ∀ op ∈ ops, op.key = t!"Neo4jPropertyGraph.check_node_unique#0" → valueFree op.tpl = true := by decide +kernel

set_option maxRecDepth 100000 in
theorem Neo4jPropertyGraph_get_graph_diff_s0_value_free : ∀ op ∈ ops, op.key = t!"Neo4jPropertyGraph.get_graph_diff#0" → valueFree op.tpl = true := by decide +kernel

set_option maxRecDepth 100000 in
theorem Neo4jPropertyGraph_get_graph_property_diff_s0_value_free : ∀ op ∈ ops, op.key = t!"Neo4jPropertyGraph.get_graph_property_diff#0" → valueFree op.tpl = true := by decide +kernel

set_option maxRecDepth 100000 in
theorem Neo4jGraphImporter__add_indexes_s0_value_free : ∀ op ∈ ops, op.key = t!"Neo4jGraphImporter._add_indexes#0" → valueFree op.tpl = true := by decide +kernel

set_option maxRecDepth 100000 in
theorem Neo4jGraphImporter__import_graph_s0_value_free : ∀ op ∈ ops, op.key = t!"Neo4jGraphImporter._import_graph#0" → valueFree op.tpl = true := by decide +kernel

set_option maxRecDepth 100000 in
theorem Neo4jGraphImporter__import_graph_s1_value_free : ∀ op ∈ ops, op.key = t!"Neo4jGraphImporter._import_graph#1" → valueFree op.tpl = true := by decide +kernel

set_option maxRecDepth 100000 in
theorem Neo4jGraphImporter_delete_all_graphs_s0_value_free : ∀ op ∈ ops, op.key = t!"Neo4jGraphImporter.delete_all_graphs#0" → valueFree op.tpl = true := by decide +kernel

set_option maxRecDepth 100000 in
theorem Neo4jGraphImporter_delete_graph_s0_value_free : ∀ op ∈ ops, op.key = t!"Neo4jGraphImporter.delete_graph#0" → valueFree op.tpl = true := by decide +kernel

set_option maxRecDepth 100000 in
theorem Neo4jCBMGraph_get_intersite_links_s0_value_free : ∀ op ∈ ops, op.key = t!"Neo4jCBMGraph.get_intersite_links#0" → valueFree op.tpl = true := by decide +kernel

set_option maxRecDepth 100000 in
theorem Neo4jCBMGraph_get_sites_s0_value_free : ∀ op ∈ ops, op.key = t!"Neo4jCBMGraph.get_sites#0" → valueFree op.tpl = true := by decide +kernel

set_option maxRecDepth 100000 in
theorem Neo4jCBMGraph_get_disconnected_sites_s0_value_free : ∀ op ∈ ops, op.key = t!"Neo4jCBMGraph.get_disconnected_sites#0" → valueFree op.tpl = true := by decide +kernel

set_option maxRecDepth 100000 in
theorem Neo4jCBMGraph_get_connected_sites_s0_value_free : ∀ op ∈ ops, op.key = t!"Neo4jCBMGraph.get_connected_sites#0" → valueFree op.tpl = true := by decide +kernel

set_option maxRecDepth 100000 in
theorem Neo4jCBMGraph_get_facility_ports_s0_value_free : ∀ op ∈ ops, op.key = t!"Neo4jCBMGraph.get_facility_ports#0" → valueFree op.tpl = true := by decide +kernel

set_option maxRecDepth 100000 in
theorem Neo4jASM_check_node_name_s0_value_free : ∀ op ∈ ops, op.key = t!"Neo4jASM.check_node_name#0" → valueFree op.tpl = true := by decide +kernel

set_option maxRecDepth 100000 in
theorem Neo4jASM_find_node_by_name_s0_value_free : ∀ op ∈ ops, op.key = t!"Neo4jASM.find_node_by_name#0" → valueFree op.tpl = true := by decide +kernel

set_option maxRecDepth 100000 in
/-- `Neo4jPropertyGraph.update_node_properties#0` hands the driver a text that changes with a stored value -/
theorem Neo4jPropertyGraph_update_node_properties_s0_value_dependent_counterexample :
    ∃ op ∈ ops, op.key = t!"Neo4jPropertyGraph.update_node_properties#0" ∧ ∃ e1 e2 : Env, e1.erase = e2.erase ∧ render e1 op.tpl ≠ render e2 op.tpl :=
  ⟨op_Neo4jPropertyGraph_update_node_properties_s0_v0, by simp [ops], by decide +kernel, canonEnv, evilEnv, by decide +kernel, by decide +kernel⟩

set_option maxRecDepth 100000 in
/-- `Neo4jPropertyGraph.update_link_properties#0` hands the driver a text that changes with a stored value -/
theorem Neo4jPropertyGraph_update_link_properties_s0_value_dependent_counterexample :
    ∃ op ∈ ops, op.key = t!"Neo4jPropertyGraph.update_link_properties#0" ∧ ∃ e1 e2 : Env, e1.erase = e2.erase ∧ render e1 op.tpl ≠ render e2 op.tpl :=
  ⟨op_Neo4jPropertyGraph_update_link_properties_s0_v0, by simp [ops], by decide +kernel, canonEnv, evilEnv, by decide +kernel, by decide +kernel⟩

set_option maxRecDepth 100000 in
/-- `Neo4jPropertyGraph.add_node#0` hands the driver a text that changes with a stored value -/
theorem Neo4jPropertyGraph_add_node_s0_value_dependent_counterexample :
    ∃ op ∈ ops, op.key = t!"Neo4jPropertyGraph.add_node#0" ∧ ∃ e1 e2 : Env, e1.erase = e2.erase ∧ render e1 op.tpl ≠ render e2 op.tpl :=
  ⟨op_Neo4jPropertyGraph_add_node_s0_v0, by simp [ops], by decide +kernel, canonEnv, evilEnv, by decide +kernel, by decide +kernel⟩

set_option maxRecDepth 100000 in
/-- `Neo4jPropertyGraph.add_link#0` hands the driver a text that changes with a stored value -/
theorem Neo4jPropertyGraph_add_link_s0_value_dependent_counterexample :
    ∃ op ∈ ops, op.key = t!"Neo4jPropertyGraph.add_link#0" ∧ ∃ e1 e2 : Env, e1.erase = e2.erase ∧ render e1 op.tpl ≠ render e2 op.tpl :=
  ⟨op_Neo4jPropertyGraph_add_link_s0_v0, by simp [ops], by decide +kernel, canonEnv, evilEnv, by decide +kernel, by decide +kernel⟩

set_option maxRecDepth 100000 in
/-- `Neo4jPropertyGraph.serialize_graph#0` hands the driver a text that changes with a stored value -/
theorem Neo4jPropertyGraph_serialize_graph_s0_value_dependent_counterexample :
    ∃ op ∈ ops, op.key = t!"Neo4jPropertyGraph.serialize_graph#0" ∧ ∃ e1 e2 : Env, e1.erase = e2.erase ∧ render e1 op.tpl ≠ render e2 op.tpl :=
  ⟨op_Neo4jPropertyGraph_serialize_graph_s0_v0, by simp [ops], by decide +kernel, canonEnv, evilEnv, by decide +kernel, by decide +kernel⟩

set_option maxRecDepth 100000 in
/-- `Neo4jPropertyGraph.serialize_graph#1` hands the driver a text that changes with a stored value -/
theorem Neo4jPropertyGraph_serialize_graph_s1_value_dependent_counterexample :
    ∃ op ∈ ops, op.key = t!"Neo4jPropertyGraph.serialize_graph#1" ∧ ∃ e1 e2 : Env, e1.erase = e2.erase ∧ render e1 op.tpl ≠ render e2 op.tpl :=
  ⟨op_Neo4jPropertyGraph_serialize_graph_s1_v0, by simp [ops], by decide +kernel, canonEnv, evilEnv, by decide +kernel, by decide +kernel⟩

set_option maxRecDepth 100000 in
/-- `Neo4jCBMGraph.get_matching_nodes_with_components#0` hands the driver a text that changes with a stored value -/
theorem Neo4jCBMGraph_get_matching_nodes_with_components_s0_value_dependent_counterexample :
    ∃ op ∈ ops, op.key = t!"Neo4jCBMGraph.get_matching_nodes_with_components#0" ∧ ∃ e1 e2 : Env, e1.erase = e2.erase ∧ render e1 op.tpl ≠ render e2 op.tpl :=
  ⟨op_Neo4jCBMGraph_get_matching_nodes_with_components_s0_v1, by simp [ops], by decide +kernel, canonEnv, evilEnv, by decide +kernel, by decide +kernel⟩

/-- a template leaks nothing exactly when it is value-free -/
theorem leaks_nil_of_value_free_atom (a : Atom) : a.vf = true → a.leaks = [] := by
  cases a <;> simp [Atom.vf, Atom.leaks]

/-- which stored values each value-dependent call site writes into the statement text today (the known findings, per argument) -/
def allowedLeaks : List (Text × Text) := [
  (t!"Neo4jPropertyGraph.update_node_properties#0", t!"row.v"),
  (t!"Neo4jPropertyGraph.update_link_properties#0", t!"row.v"),
  (t!"Neo4jPropertyGraph.serialize_graph#0", t!"graph_id"),
  (t!"Neo4jPropertyGraph.serialize_graph#1", t!"graph_id"),
  (t!"Neo4jPropertyGraph.add_node#0", t!"graph_id"), (t!"Neo4jPropertyGraph.add_node#0", t!"node_id"),
  (t!"Neo4jPropertyGraph.add_node#0", t!"row.v"),
  (t!"Neo4jPropertyGraph.add_link#0", t!"row.v"),
  (t!"Neo4jCBMGraph.get_matching_nodes_with_components#0", t!"row.v"),
  (t!"Neo4jCBMGraph.get_matching_nodes_with_components#0", t!"row.resource_model") ]

set_option maxRecDepth 100000 in
/-- Exactly which stored values each value-dependent call site writes into the statement text.  The known findings are keyed by
call site and argument, and this table is what keeps a *further* value leaking into an already listed statement from going
unnoticed: EVERY variant of a listed call site leaks at most the listed values (`node_id`, `node_a`, `node_b`, `graphId`s … of these
sites stay parameters), and every listed value is still leaked by some variant.  (Stated over the set of variants, so that a
rewrite that merely adds a branch or reorders branches does not disturb it.) -/
theorem leaked_values_exact :
    (∀ op ∈ ops, valueDependentKeys.contains op.key = true → ∀ x ∈ leaks op.tpl, allowedLeaks.contains (op.key, x) = true) ∧
    (∀ kx ∈ allowedLeaks, ∃ op ∈ ops, op.key = kx.1 ∧ kx.2 ∈ leaks op.tpl) := by decide +kernel

/-- GUARDED FORM of the full statement, valid for EVERY template (also those of the value-dependent call sites), for all
values: the text depends on no stored value other than the ones the template leaks.  Together with `leaked_values_exact`:
`update_node_properties` / `update_link_properties` / `add_link` / `get_matching_nodes_with_components` depend only on the
values of the property map (and component models), `serialize_graph` only on the graph id, `add_node` on graph id, node id
and property values; every other argument of these operations reaches the driver as a parameter. -/
theorem data_independent_up_to_leaks_partial (t : List Piece) (e1 e2 : Env)
    (hs : e1.eraseExcept (leaks t) = e2.eraseExcept (leaks t)) : render e1 t = render e2 t := by
  have ht : ∀ x ∈ leaks t, (leaks t).contains x = true := fun x hx => List.contains_iff_mem.mpr hx
  rw [render_eraseExcept ht e1, render_eraseExcept ht e2, hs]

/-- non-vacuity: for `update_node_properties` two environments with different node ids and graph ids but the same property
values are identified by the hypothesis -/
example :
    let L := leaks op_Neo4jPropertyGraph_update_node_properties_s0_v0.tpl
    let e1 : Env := ⟨[], [(t!"node_id", t!"n1"), (t!"graph_id", t!"g")], [(t!"props", [⟨[(t!"k", t!"Name")], [(t!"v", t!"it's")]⟩])]⟩
    let e2 : Env := ⟨[], [(t!"node_id", t!"x' //"), (t!"graph_id", t!"\"")], [(t!"props", [⟨[(t!"k", t!"Name")], [(t!"v", t!"it's")]⟩])]⟩
    e1.eraseExcept L = e2.eraseExcept L ∧ e1 ≠ e2 := by decide +kernel

/-! ### well-formedness -/

set_option maxRecDepth 1000000 in
/-- with the canonical identifiers every generated statement passes the lint (balanced, nothing unexpanded,
every `$name` supplied, every variable bound) -/
theorem wellformed_canonical : ∀ op ∈ ops, checkStmt (render canonEnv op.tpl) op.supplied = true := by decide +kernel

set_option maxRecDepth 1000000 in
/-- EMPTY containers (empty props dict, empty merge_properties, component info without devices) and mappings without counted
components: every variant that can run in such an environment (`reachable`: the branch conditions the translator could
evaluate) still hands over a well-formed statement -/
theorem wellformed_empty_containers :
    ∀ op ∈ ops.filter (fun op => usesMaps op.tpl), ∀ e ∈ [emptyMapsEnv, propsOnlyEnv], op.reachable e = true →
      checkStmt (render e op.tpl) op.supplied = true := by decide +kernel

set_option maxRecDepth 1000000 in
/-- `get_matching_nodes_with_components(props={})` (repaired: the separator travels with each property): the map is
`{GraphID: $graphId }`, no dangling comma -/
theorem get_matching_nodes_empty_props_wellformed :
    op_Neo4jCBMGraph_get_matching_nodes_with_components_s0_v0.reachable emptyMapsEnv = true ∧
    render emptyMapsEnv op_Neo4jCBMGraph_get_matching_nodes_with_components_s0_v0.tpl =
      t!"MATCH(n:GraphNode:X {GraphID: $graphId }) RETURN collect(n.NodeID) as candidate_ids" ∧
    (lint (render emptyMapsEnv op_Neo4jCBMGraph_get_matching_nodes_with_components_s0_v0.tpl)
      op_Neo4jCBMGraph_get_matching_nodes_with_components_s0_v0.supplied).defects = [] := by decide +kernel

/-- … and for the value-free call sites that verdict holds for ALL stored values -/
theorem wellformed_all_values_except_listed (op : Op) (hop : op ∈ ops) (hk : op.key ∉ valueDependentKeys)
    (e : Env) (hs : e.erase = canonEnv.erase) : checkStmt (render e op.tpl) op.supplied = true :=
  wellformed_extends_to_all_values op.tpl (value_free_except_listed op hop hk) op.supplied canonEnv e hs
    (wellformed_canonical op hop)

set_option maxRecDepth 1000000 in
/-- what the interpolation in `update_node_properties` permits: a stored value `x'} DETACH DELETE s //` yields a
statement that still passes the lint and is a different statement (it deletes the node) -/
theorem injection_rewrites_statement :
    let e : Env := ⟨[], [], [(t!"props", [⟨[(t!"k", t!"Name")], [(t!"v", t!"x'} DETACH DELETE s //")]⟩])]⟩
    render e op_Neo4jPropertyGraph_update_node_properties_s0_v0.tpl =
      t!"MATCH (s:GraphNode {GraphID: $graphId, NodeID: $nodeId}) SET s+= { Name: 'x'} DETACH DELETE s //' } RETURN properties(s)"
    ∧ checkStmt (render e op_Neo4jPropertyGraph_update_node_properties_s0_v0.tpl)
        op_Neo4jPropertyGraph_update_node_properties_s0_v0.supplied = true := by decide +kernel


/-! ### well-formedness for ALL identifiers -/

/-- every referenced variable is bound where it is referenced (Cypher scoping) - decidable: it is a `Bool` -/
def bound_ok (text : Text) : Bool := (lint text []).unbound.isEmpty

/-- DATA-INDEPENDENCE OF THE VERDICT: for every text `t` with identifier holes that passes the decidable side conditions `cleanFor`
(holes are whole words, at positions where the scoping pass ignores identifiers: labels, relationship types, property names, map
keys, or inside literals), and every assignment `ρ` of identifier-shaped non-keyword strings to the holes, the lint returns on the
filled text exactly what it returns on the text with holes: same defects, same unbound variables, same missing parameters. -/
theorem lint_verdict_independent_of_identifiers (ρ : Nat → Text) (hρ : GoodSubst ρ) (t : Text) (hc : cleanFor t = true)
    (sup : List Text) : lint (expand ρ t) sup = lint t sup := lint_expand hρ t hc sup

/-- in particular any two fillings get the same verdict, and "every referenced variable bound" does not depend on the filling -/
theorem bound_ok_independent_of_identifiers (ρ₁ ρ₂ : Nat → Text) (h₁ : GoodSubst ρ₁) (h₂ : GoodSubst ρ₂) (t : Text)
    (hc : cleanFor t = true) : bound_ok (expand ρ₁ t) = bound_ok (expand ρ₂ t) := by
  unfold bound_ok; rw [lint_expand h₁ t hc, lint_expand h₂ t hc]

/-- non-vacuity: a filling with the library's own names; the merge statement with holes in its map keys is clean -/
def rhoSample : Nat → Text := fun k => if k == 0 then t!"NetworkNode" else if k == 3 then t!"Capacities" else if k == 20 then t!"Site" else t!"has"
example : GoodSubst rhoSample := by
  constructor
  · intro k; unfold rhoSample; split; decide +kernel; split; decide +kernel; split; decide +kernel; decide +kernel
  · intro k _; unfold rhoSample; split; decide +kernel; split; decide +kernel; split; decide +kernel; decide +kernel
example : cleanFor (render (holeEnv 2 true) op_Neo4jPropertyGraph_merge_nodes_s0_v0.tpl) = true := by decide +kernel

set_option maxRecDepth 1000000 in
/-- Cypher scoping is what the binder follows.  (1) a WITH closes the scope: `n` is bound by the MATCH, projected away by
`with head(collect([n, m])) as nodes`, and its later use is reported; (2) the same reference BEFORE the WITH is fine; (3) `WITH *`
keeps everything; (4) YIELD and UNWIND … AS introduce their names; (5) a reference in a clause that precedes the binding clause is
reported (binding is sequential); (6) UNION starts from nothing. -/
theorem scoping_follows_cypher :
    (lint t!"match (n:GraphNode {GraphID: $g}), (m:GraphNode {GraphID: $h}) with head(collect([n, m])) as nodes call apoc.refactor.mergeNodes(nodes, {mergeRels: true}) yield node set node.GraphID = n.GraphID return node" [t!"g", t!"h"]).unbound = [t!"n"] ∧
    (lint t!"match (n:GraphNode {GraphID: $g}), (m:GraphNode {GraphID: $h}) set m.GraphID = n.GraphID with head(collect([n, m])) as nodes call apoc.refactor.mergeNodes(nodes, {mergeRels: true}) yield node return node" [t!"g", t!"h"]).defects = [] ∧
    (lint t!"match (n:GraphNode {GraphID: $g}) with *, count(n) as c set n.Count = c return n" [t!"g"]).defects = [] ∧
    (lint t!"match (a {GraphID: $g}) call apoc.nodes.delete(a, 10) yield value unwind value as v return v, w" [t!"g"]).unbound = [t!"w"] ∧
    (lint t!"match (a {GraphID: $g}) where b.NodeID = a.NodeID match (b) return a" [t!"g"]).unbound = [t!"b"] ∧
    (lint t!"match (a {GraphID: $g}) return a as x union match (b) return a as x" [t!"g"]).unbound = [t!"a"] := by decide +kernel

set_option maxRecDepth 1000000 in
/-- clause structure: a clause keyword, boolean word or operator symbol without its operand, a dangling comma, clauses in an order
Cypher rejects -/
theorem clause_structure_checked :
    (lint t!"MATCH(n:GraphNode:NetworkNode {GraphID: $g, Site: \"RENC\" }) WHERE  RETURN collect(n.NodeID) as candidate_ids" [t!"g"]).defects = ["empty-clause"] ∧
    (lint t!"MATCH (n {GraphID: $g}) WHERE n.a = 1 and  RETURN n" [t!"g"]).defects = ["empty-clause"] ∧
    (lint t!"MATCH (n {GraphID: $g}) WHERE ( and n.a = 1) RETURN n" [t!"g"]).defects = ["missing-operand"] ∧
    (lint t!"MATCH (n {GraphID: $g}) SET n.a =  RETURN n" [t!"g"]).defects = ["missing-operand"] ∧
    (lint t!"MATCH (n {GraphID: $g, Name: }) RETURN n" [t!"g"]).defects = ["missing-operand"] ∧
    (lint t!"MATCH (n {GraphID: $g, }) RETURN n" [t!"g"]).defects = ["dangling-comma"] ∧
    (lint t!"MATCH (n {GraphID: $g}) WHERE n.a = 1 WHERE n.b = 2 RETURN n" [t!"g"]).defects = ["clause-order"] ∧
    (lint t!"MATCH (n {GraphID: $g}) RETURN n SET n.a = 1" [t!"g"]).defects = ["clause-order"] ∧
    (lint t!"MATCH (n {GraphID: $g}) WHERE n.a = 1" [t!"g"]).defects = ["clause-order"] := by decide +kernel

/-- EMPTY ENTRIES ARE REJECTED, unbounded: whatever the statement, if its token list has a comma that is followed by a comma, a
closing bracket or nothing (an empty entry in the middle or at the end of a map / list / item list: `{ a: 'x', , b: 'y' }`,
`{ a: 'x', }`), the lint reports `dangling-comma` - for every prefix, every suffix and every set of supplied parameters -/
theorem lint_rejects_empty_entry (text : Text) (supplied : List Text) (pre post : List Tok)
    (h : classify none (lexRaw text).toks = pre ++ Tok.sym cp%',' :: post) (hb : commaBad post.head? = true) :
    "dangling-comma" ∈ (lint text supplied).defects := by
  unfold lint lintCodes
  simp only [h, scan_flags_comma pre post none none St.init hb]
  simp

/-- ... and an empty FIRST entry (`{ , a: 'x' }`, `[ , 1]`, `( , n)`): an opening bracket directly followed by a comma -/
theorem lint_rejects_leading_empty_entry (text : Text) (supplied : List Text) (pre post : List Tok) (c : Nat) (hc : isOpener c = true)
    (h : classify none (lexRaw text).toks = pre ++ Tok.sym c :: Tok.sym cp%',' :: post) :
    "dangling-comma" ∈ (lint text supplied).defects := by
  unfold lint lintCodes
  simp only [h, scan_flags_opener_comma pre post c none none St.init hc]
  simp

set_option maxRecDepth 1000000 in
/-- non-vacuity: the statement update_node_properties would issue with an emptied middle entry has that token shape -/
example : ∃ pre post, classify none (lexRaw t!"MATCH (s {GraphID: $g}) SET s+= { Name: 'n1', , Site: 'RENC' } RETURN properties(s)").toks
      = pre ++ Tok.sym cp%',' :: post ∧ commaBad post.head? = true :=
  ⟨(classify none (lexRaw t!"MATCH (s {GraphID: $g}) SET s+= { Name: 'n1', , Site: 'RENC' } RETURN properties(s)").toks).take 17,
   (classify none (lexRaw t!"MATCH (s {GraphID: $g}) SET s+= { Name: 'n1', , Site: 'RENC' } RETURN properties(s)").toks).drop 18, by decide +kernel⟩

set_option maxRecDepth 1000000 in
/-- empty map entries: a `{ }` map built by joining per-entry fragments of which one is empty (an entry skipped by emptying it
instead of filtering it) has a doubled, leading or trailing comma - rejected at every position, in both literal styles and in the
apoc.create.node form; the empty map itself and a map with every entry present are accepted -/
theorem empty_map_entries_rejected :
    (lint t!"MATCH (s:GraphNode {GraphID: $g, NodeID: $n}) SET s+= { Name: 'n1', , Site: 'RENC' } RETURN properties(s)" [t!"g", t!"n"]).defects = ["dangling-comma"] ∧
    (lint t!"MATCH (s:GraphNode {GraphID: $g, NodeID: $n}) SET s+= { , Site: 'RENC' } RETURN properties(s)" [t!"g", t!"n"]).defects = ["dangling-comma"] ∧
    (lint t!"MATCH (s:GraphNode {GraphID: $g, NodeID: $n}) SET s+= { Name: 'n1',  } RETURN properties(s)" [t!"g", t!"n"]).defects = ["dangling-comma"] ∧
    (lint t!"MATCH (s:GraphNode {GraphID: $g, NodeID: $n}) SET s+= { , ,  } RETURN properties(s)" [t!"g", t!"n"]).defects = ["dangling-comma"] ∧
    (lint t!"MATCH (a {GraphID: $g}) -[r:has]- (b {GraphID: $g}) SET r+= { Name: \"n1\", , Site: \"RENC\" } RETURN properties(r)" [t!"g"]).defects = ["dangling-comma"] ∧
    (lint t!"CALL apoc.create.node([ 'GraphNode', 'X' ], { Class: 'X', , NodeID: 'n' });" []).defects = ["dangling-comma"] ∧
    (lint t!"MATCH (s:GraphNode {GraphID: $g, NodeID: $n}) SET s+= {  } RETURN properties(s)" [t!"g", t!"n"]).defects = [] ∧
    (lint t!"MATCH (s:GraphNode {GraphID: $g, NodeID: $n}) SET s+= { Name: 'None', Site: '' } RETURN properties(s)" [t!"g", t!"n"]).defects = [] := by
  decide +kernel

set_option maxRecDepth 1000000 in
/-- the library's own vocabularies (regenerated from abc_property_graph_constants.py) are identifier-shaped non-keyword strings:
the hole theorems cover every class, relation and property name the library knows -/
theorem vocabulary_fills_holes : ∀ x ∈ classesT ++ relsT ++ propsT, identOK x = true := by decide +kernel

/-- what is checked on a template rendered with holes: the side conditions of the two commutation theorems, and the lint itself -/
def holeChecked (op : Op) (e : Env) : Bool :=
  renderOK e op.tpl && cleanFor (render e op.tpl) && checkStmt (render e op.tpl) op.supplied

set_option maxRecDepth 1000000 in
/-- templates that iterate over no mapping: ONE evaluation with a hole in every identifier slot -/
theorem hole_templates_clean_scalar : ∀ op ∈ ops, usesMaps op.tpl = false → holeChecked op (holeEnv 0 false) = true := by
  decide +kernel

set_option maxRecDepth 1000000 in
/-- templates that iterate over a mapping (property map, merge strategies, counted components): one evaluation per argument shape -
mappings absent or empty, one / two / three entries, with and without counted components - with a hole in every identifier slot,
every map key, merge behaviour and component type -/
theorem hole_templates_clean_maps :
    ∀ op ∈ ops.filter (fun op => usesMaps op.tpl), ∀ e ∈ holeEnvs, op.reachable e = true → holeChecked op e = true := by
  decide +kernel

theorem hole_templates_clean (op : Op) (hop : op ∈ ops) (e : Env) (he : e ∈ holeEnvs) (hr : op.reachable e = true) :
    holeChecked op e = true := by
  cases hm : usesMaps op.tpl with
  | true => exact hole_templates_clean_maps op (List.mem_filter.mpr ⟨hop, hm⟩) e he hr
  | false =>
    have h0 := hole_templates_clean_scalar op hop hm
    have hi : e.idents = (holeEnv 0 false).idents ∧ e.values = (holeEnv 0 false).values := by
      simp only [holeEnvs, List.mem_cons, List.not_mem_nil, or_false] at he
      rcases he with rfl | rfl | rfl | rfl | rfl | rfl <;> exact ⟨rfl, rfl⟩
    unfold holeChecked at h0 ⊢
    rw [render_noMaps op.tpl hm e _ hi.1 hi.2, renderOK_noMaps op.tpl hm e (holeEnv 0 false)]
    exact h0

/-- WELL-FORMEDNESS FOR ALL IDENTIFIERS.  For every statement template the translator extracted, every argument shape in
`holeEnvs` in which the template can run, and EVERY assignment `ρ` of identifier-shaped non-keyword strings to the identifier
slots (class, relation, property names; map keys; merge behaviours; component types - map keys other than the reserved
`Class` / `GraphID` / `NodeID`, which would replace an entry of the statement's own dict literal): the statement handed to the
driver passes the lint - balanced, nothing unexpanded, parameters supplied, variables bound, operands present, no dangling comma,
clauses in order.  (Stored values and counts are the canonical ones here; see `wellformed_all_identifiers_all_values`.) -/
theorem wellformed_all_identifiers (op : Op) (hop : op ∈ ops) (e : Env) (he : e ∈ holeEnvs) (hr : op.reachable e = true)
    (ρ : Nat → Text) (hρ : GoodSubst ρ) : checkStmt (render (e.expandAll ρ) op.tpl) op.supplied = true := by
  have h := hole_templates_clean op hop e he hr
  simp only [holeChecked, Bool.and_eq_true] at h
  exact checkStmt_all_identifiers hρ e op.tpl op.supplied h.1.1 h.1.2 h.2

/-- … and for the value-free call sites for ALL stored values as well: any environment that agrees with a filled shape after
forgetting the stored values -/
theorem wellformed_all_identifiers_all_values (op : Op) (hop : op ∈ ops) (hk : op.key ∉ valueDependentKeys) (e0 : Env)
    (he : e0 ∈ holeEnvs) (hr : op.reachable e0 = true) (ρ : Nat → Text) (hρ : GoodSubst ρ) (e : Env)
    (hs : e.erase = (e0.expandAll ρ).erase) : checkStmt (render e op.tpl) op.supplied = true :=
  wellformed_extends_to_all_values op.tpl (value_free_except_listed op hop hk) op.supplied (e0.expandAll ρ) e hs
    (wellformed_all_identifiers op hop e0 he hr ρ hρ)

/-- non-vacuity: filling every hole with `X` gives the canonical one-row environment (up to the merge behaviour / component type,
which are `X` too); with the sample filling `add_node` gets its label and a property key from the vocabulary -/
example : ((holeEnv 1 true).expandAll (fun _ => t!"X")).idents = canonEnv.idents := by decide +kernel
example : render ((holeEnv 1 true).expandAll rhoSample) op_Neo4jPropertyGraph_add_node_s0_v0.tpl =
    t!"CALL apoc.create.node([ 'GraphNode', 'NetworkNode' ], { Class: 'NetworkNode', GraphID: 'v', NodeID: 'v', Site: 'v' });" := by
  decide +kernel

/-! ### histories of calls (round 7)

`σ` stands for everything that can carry a stored value from one call to a later one: the database, results the caller kept, whatever
a graph handle (or a class-level table) remembers.  A step issues the statement of one call site; `env` says - arbitrarily - what
reaches the call's arguments in a given state, `next` how the call changes the state. -/
structure Step (σ : Type) where
  op : Op
  env : σ → Env
  next : σ → σ

/-- the texts the driver receives over a history started in state `s` -/
def runHist {σ : Type} : List (Step σ) → σ → List Text
  | [], _ => []
  | c :: rest, s => render (c.env s) c.op.tpl :: runHist rest (c.next s)

/-- the state decides values only: names, identifiers and the shapes of the mappings of every call are the caller's -/
def StateFeedsValuesOnly {σ : Type} (h : List (Step σ)) : Prop :=
  ∀ c ∈ h, ∀ a b : σ, (c.env a).erase = (c.env b).erase

/-- Over a whole history of value-free call sites the texts handed to the driver are the same from any two initial states, however
stored values are routed from earlier calls into the value arguments of later ones (second-order flows included). -/
theorem history_texts_independent_of_state {σ : Type} (h : List (Step σ))
    (hvf : ∀ c ∈ h, valueFree c.op.tpl = true) (hid : StateFeedsValuesOnly h) (a b : σ) :
    runHist h a = runHist h b := by
  induction h generalizing a b with
  | nil => rfl
  | cons c rest ih =>
    have h1 : render (c.env a) c.op.tpl = render (c.env b) c.op.tpl :=
      no_value_piece_data_independent c.op.tpl (hvf c (List.mem_cons_self ..)) _ _ (hid c (List.mem_cons_self ..) a b)
    have h2 : runHist rest (c.next a) = runHist rest (c.next b) :=
      ih (fun c' hc' => hvf c' (List.mem_cons_of_mem _ hc')) (fun c' hc' => hid c' (List.mem_cons_of_mem _ hc')) _ _
    simp only [runHist, h1, h2]

/-- ... in particular for histories over the call sites of the library that are not listed as value-dependent -/
theorem history_data_independent_except_listed {σ : Type} (h : List (Step σ))
    (hops : ∀ c ∈ h, c.op ∈ ops ∧ c.op.key ∉ valueDependentKeys) (hid : StateFeedsValuesOnly h) (a b : σ) :
    runHist h a = runHist h b :=
  history_texts_independent_of_state h (fun c hc => value_free_except_listed c.op (hops c hc).1 (hops c hc).2) hid a b

/-- non-vacuity: the state is the Class string a node holds; a read leaves it, the later write gets it as a VALUE argument -/
def readThenWrite : List (Step Text) :=
  [⟨op_Neo4jPropertyGraph_get_node_properties_s0_v0, fun _ => ⟨[], [(t!"node_id", t!"n1")], []⟩, id⟩,
   ⟨op_Neo4jPropertyGraph_update_node_property_s0_v0, fun s => ⟨[(t!"prop_name", t!"Name")], [(t!"node_id", t!"n1"), (t!"prop_val", s)], []⟩, id⟩]
example : StateFeedsValuesOnly readThenWrite := by
  intro c hc a b
  simp only [readThenWrite, List.mem_cons, List.mem_nil_iff, or_false] at hc
  rcases hc with rfl | rfl <;> rfl
example : runHist readThenWrite t!"NetworkNode" = runHist readThenWrite t!"x' }) DETACH DELETE s //" := by decide +kernel

/-- the hypothesis is needed: a step that lets the state choose an IDENTIFIER (the form of a handle that pastes a remembered Class string
behind `:GraphNode:`) issues different texts from different states -/
def rememberedLabel : List (Step Text) :=
  [⟨op_Neo4jPropertyGraph_get_all_nodes_by_class_s0_v0, fun s => ⟨[(t!"label", s)], [], []⟩, id⟩]
theorem state_in_identifier_position_counterexample :
    runHist rememberedLabel t!"NetworkNode" ≠ runHist rememberedLabel t!"x {GraphID: $x}) DETACH DELETE n //" := by decide +kernel

end FimVerif.C19
