import FimVerif.Proofs.Lemmas.C02Props
import FimVerif.Proofs.Lemmas.C02Tree
import FimVerif.Proofs.Lemmas.C02Check
import FimVerif.Proofs.Lemmas.C02Graph
import FimVerif.Proofs.Lemmas.C02At
import FimVerif.Proofs.Lemmas.C02Routes
/-!
# C02 — sliver ↔ graph / dictionary / JSON conversion preserves every settable field

Full statement (properties.jsonl): every sliver, with any combination of its settable properties and any nesting
of children, comes back from the model graph / deep dictionary / JSON form with the same structure and the same
value for every settable property; on a model element `get p (set p v) = v` and `get p (unset p)` is absent.

What is proved here, for *every* `Codecs V P` (value model) and every table passing `tableOK`:
* `tables_ok`            – the tables regenerated from the source pass the structural check (decide);
* `props_roundtrip_partial` – flat dictionary round trip, guarded by `FateShared` (the code writes `ImageRef` only when
  both `image_ref` and `image_type` are set — known finding) together with the explicit codec hypothesis `FieldLaw`;
* `props_roundtrip_counterexample` – the unguarded statement fails (`image_ref` alone is lost);
* `set_get`, `set_frame`, `unset_get`, `unset_identity_rejected`, `unset_frame`, `unset_table_ok_partial`,
  `unset_counterexample` – model elements.
* `dict_roundtrip_partial` – deep dictionary / JSON round trip by structural induction over the sliver tree;
* `image_join_split`, `image_type_comma_counterexample` – the `ImageRef` text format;
* `graph_roundtrip_partial`, `graph_roundtrip_component_partial`, `graph_children_perm` – model-graph round trip
  (`add_*_sliver` then `build_deep_*_sliver`) for trees with children and distinct node ids, children up to order;
* `graph_roundtrip_every_element_partial`, `graph_roundtrip_every_element_component_partial` – the same store read from
  **every** element of the written tree (`build_deep_*_sliver` / `get_sliver()` started at a component, a service, an
  interface, a sub-interface): each start gives that element's subtree; `graph_at_nested_dedicated_counterexample` –
  why sub-interfaces must not themselves be `DedicatedPort`s (the neighbour query is undirected);
* `handles_share_one_store` – histories through several handles of one element;
* (in `Lemmas/C02Codec.lean`) `rowLaw_jsonfield` – the codec hypothesis discharged from `C03.lossless` for the seven
  JSONField classes, for every value model that carries C03's `encode`/`decode`.
-/
namespace FimVerif.C02
open FimVerif.Sliver FimVerif.Gen.SliverMap

/-- The generated tables of all five kinds pass the structural check: distinct graph properties per to-table,
distinct setter names per from-table, every from-row reads a property written from the same attribute with the
inverse codec and yields `None` for an absent property (unless the row is always written), every attribute a
to-row reads is rebuilt from the same property, every name of `list_properties()` is rebuilt (or is containment). -/
theorem tables_ok : tables.all tableOK = true := by decide

section
variable {V P : Type}

/--
**Flat round trip** (`<kind>_sliver_from_graph_properties_dict ∘ <kind>_sliver_to_graph_properties_dict`): for every
value model, every table passing the check, and every field assignment satisfying the codec law, the rebuilt sliver
has exactly the original value in every property the class can set.

`_partial`: the full statement has no `FateShared` hypothesis; it is false for the code as it is
(`props_roundtrip_counterexample`; known findings `C02:roundtrip:all-paths:node:image_ref:lost`, `…image_type:lost`).
-/
theorem props_roundtrip_partial (C : Codecs V P) (T : KindTable) (s : Fields V) (hT : tableOK T = true)
    (hlaw : FieldLaw C T s) (hfate : FateShared T s) (hreq : Required T s) :
    fromProps C T (toProps C T s) = .ok (restrict T s) :=
  fromProps_toProps C T s hT hlaw hfate hreq

/-- every settable property (other than containment) is among the rebuilt ones, so `restrict` hides nothing settable -/
theorem settable_rebuilt {T : KindTable} (hT : tableOK T = true) (k : String) (hk : k ∈ T.settable)
    (hs : k ∉ structuralKeys) (s : Fields V) : restrict T s k = s k := by
  simp only [tableOK, Bool.and_eq_true, List.all_eq_true, List.any_eq_true] at hT
  have h := hT.1.1.2 k hk
  simp only [Bool.or_eq_true, List.contains_iff_mem, List.any_eq_true, beq_iff_eq] at h
  rcases h with h | ⟨f, hf, he⟩
  · exact absurd h hs
  · unfold restrict
    rw [if_pos]
    exact List.mem_map.mpr ⟨f, hf, he⟩

end

/-! ### non-vacuity and the counterexample, on the driver's value model -/

/-- a service sliver with a name, a type, a site and a layer -/
def exampleService : Fields Val :=
  (((freshFields.set "name" (some (.str "svc1"))).set "type" (some (.enum "ServiceType" "L2Bridge"))).set
    "site" (some (.str "RENC"))).set "layer" (some (.enum "NSLayer" "L2"))

theorem rowVals_single (s : Fields Val) (k : String) : rowVals s [k] = (s k).map (fun v => [v]) := by
  unfold rowVals
  cases h : s k <;> simp [List.mapM_cons, h]

/-- the image row of the node table -/
def imageRow : ToRow :=
  { keys := ["image_ref", "image_type"], attrs := ["image_ref", "image_type"], gprop := "ImageRef", enc := Enc.commaJoin, always := false }
def imageRefFrom : FromRow :=
  (nodeTable.fromRows.find? (fun f => f.key == "image_ref")).getD default

/-- a node sliver with a name and an image reference but no image type -/
def imageRefOnly : Fields Val :=
  (freshFields.set "name" (some (.str "node1"))).set "image_ref" (some (.str "default_ubuntu_20"))

/--
The unguarded statement is false for the code as it is: a node sliver whose `image_ref` is set while `image_type`
is not comes back with `image_ref = None` (replayed on the implementation by corpus/C02/known_image_ref_without_type.json).
-/
theorem props_roundtrip_counterexample :
    imageRefOnly "image_ref" ≠ none ∧
    ∀ s', fromProps concrete nodeTable (toProps concrete nodeTable imageRefOnly) = .ok s' → s' "image_ref" = none := by
  refine ⟨by simp [imageRefOnly, Fields.set], ?_⟩
  intro s' h
  have hT : tableOK nodeTable = true := by decide
  have hr : imageRow ∈ nodeTable.toRows := by decide
  have hf : imageRefFrom ∈ nodeTable.fromRows := by decide
  have hread := fromRowsGo_ok concrete _ nodeTable.fromRows Fields.empty s' (tableOK_nodup_k hT) h imageRefFrom hf
  have hval := toProps_mem concrete nodeTable imageRefOnly imageRow (tableOK_nodup_g hT) hr
  have hv : rowVals imageRefOnly imageRow.keys = none := by
    simp [rowVals, imageRow, imageRefOnly, Fields.set, freshFields, Fields.empty, List.mapM_cons]
  unfold rowOut at hval
  rw [hv] at hval
  have hg : imageRefFrom.gprop = imageRow.gprop := by decide
  have hval' : toProps concrete nodeTable imageRefOnly imageRefFrom.gprop = none := by rw [hg]; exact hval
  rw [readRow_none concrete _ imageRefFrom hval' (by decide)] at hread
  have hk : imageRefFrom.key = "image_ref" := by decide
  have hn : imageRefFrom.noneOk = true := by decide
  unfold setRow at hread
  rw [hn] at hread
  rw [← hk]
  injection hread with h1
  exact h1.symm

/-! ### model elements -/

section
variable {V P : Type}

/--
**set then get**: after `set_property(k, v)` the from-row of `k` reads `v` back from the node, whatever the node held
before, for every property written by a single-attribute row (all but `image_ref` / `image_type`) whose value obeys
the codec law; hence `get_property(k)` returns `v` whenever the node is readable at all.
-/
theorem set_get (C : Codecs V P) (T : KindTable) (hT : tableOK T = true) (fresh : Fields V) (p : Props P)
    (r : ToRow) (hr : r ∈ T.toRows) (f : FromRow) (hf : f ∈ T.fromRows) (k : String) (v : V)
    (hk : r.keys = [k]) (hfk : f.key = k) (hg : f.gprop = r.gprop)
    (hlaw : readVal C f (C.enc r.enc [v]) = .ok (some v)) :
    readRow C (setProperty C T fresh p k v) f = .ok (some v) ∧
    (∀ s', fromProps C T (setProperty C T fresh p k v) = .ok s' →
      getProperty C T (setProperty C T fresh p k v) k = .ok (some v)) := by
  have hval := toProps_mem C T (fresh.set k (some v)) r (tableOK_nodup_g hT) hr
  have hv : rowVals (fresh.set k (some v)) r.keys = some [v] := by
    rw [hk]; simp [rowVals, Fields.set, List.mapM_cons]
  unfold rowOut at hval
  rw [hv] at hval
  have hp : (setProperty C T fresh p k v) f.gprop = some (C.enc r.enc [v]) := by
    unfold setProperty Props.update
    rw [hg, hval]
  have h1 : readRow C (setProperty C T fresh p k v) f = .ok (some v) := by
    rw [readRow_some C _ f _ hp]; exact hlaw
  refine ⟨h1, ?_⟩
  intro s' hs'
  have := fromRowsGo_ok C _ T.fromRows Fields.empty s' (tableOK_nodup_k hT) hs' f hf
  unfold getProperty
  rw [hs']
  rw [h1] at this
  injection this with h2
  simp only [← hfk, h2]

/-- `set_property` touches only the properties the fresh sliver writes: the one of `k` and the always-written ones
(the latter is the `StitchNode := false` rewrite noted in the design, outside C02's letter). -/
theorem set_frame (C : Codecs V P) (T : KindTable) (fresh : Fields V) (p : Props P) (k : String) (v : V) (g : String)
    (hg : toProps C T (fresh.set k (some v)) g = none) : (setProperty C T fresh p k v) g = p g := by
  unfold setProperty Props.update
  rw [hg]

/--
**unset then get**: a successful `unset_property(k)` removed the graph property the from-row of `k` reads, so that
row reads absent (`None`).
-/
theorem unset_get (C : Codecs V P) (p p' : Props P) (k : String) (f : FromRow)
    (hmap : mapUnset k = some f.gprop) (habs : f.absent = Absent.none) (hn : f.noneOk = true)
    (h : unsetProperty p k = .ok p') : readRow C p' f = .ok none := by
  unfold unsetProperty at h
  rw [hmap] at h
  simp only at h
  split at h
  · cases h
  · split at h
    · cases h
      rw [readRow_none C _ f (by simp [Props.erase]) habs]
      simp [setRow, hn]
    · cases h

/-- unsetting an identity property (`NO_UNSET_PROPERTIES`) is rejected; the store is not touched (no new state) -/
theorem unset_identity_rejected (p : Props P) (k g : String) (hmap : mapUnset k = some g) (hid : g ∈ noUnset) :
    unsetProperty p k = .error "query" := by
  unfold unsetProperty
  rw [hmap]
  simp only
  rw [if_pos]
  simpa using hid

/-- `unset_property` leaves every other graph property alone -/
theorem unset_frame (p p' : Props P) (k g : String) (h : unsetProperty p k = .ok p') (hg : mapUnset k ≠ some g) :
    p' g = p g := by
  unfold unsetProperty at h
  cases hm : mapUnset k with
  | none => rw [hm] at h; cases h; rfl
  | some g' =>
    rw [hm] at h hg
    simp only at h
    split at h
    · cases h
    · split at h
      · cases h
        have : g ≠ g' := fun e => hg (by rw [e])
        simp [Props.erase, this]
      · cases h

end

/-- the unset table sends every other rebuilt property name to the graph property its from-row reads, and every
entry of the table that names a property of a kind points at that kind's graph property -/
def unsetOK (T : KindTable) : Bool :=
  T.fromRows.all (fun f => unsetExempt.contains f.key || mapUnset f.key == some f.gprop) &&
  unsetMap.all (fun e => T.fromRows.all (fun f => f.key != e.1 || f.gprop == e.2))

/-- `_partial`: the full statement has no exemptions; see `unset_counterexample`. -/
theorem unset_table_ok_partial : tables.all unsetOK = true := by decide

/-- `unset_property('stitch_node')` is a silent no-op on every kind: the name is not in the table
(corpus/C02/known_elem_image_and_stitch.json replays it on the implementation). -/
theorem unset_counterexample : ∀ p : Props String, unsetProperty p "stitch_node" = .ok p := by
  intro p
  have : mapUnset "stitch_node" = none := by decide
  unfold unsetProperty
  rw [this]

/-! ### non-vacuity of the hypotheses -/

example : tableOK serviceTable = true := by decide
example : unsetOK nodeTable = true := by decide
/-- `set_get`'s hypotheses hold for `site := "RENC"` on a service -/
example : readVal concrete { key := "site", gprop := "Site", dec := Dec.ident, arg := "", absent := Absent.none, norm := Norm.ident, noneOk := true }
    (concrete.enc Enc.ident [Val.str "RENC"]) = .ok (some (Val.str "RENC")) := rfl
/-- `unset_get`'s hypotheses hold for `site` -/
example : mapUnset "site" = some "Site" := by decide
example : unsetProperty (Props.empty.set "Site" "RENC") "site" = .ok ((Props.empty.set "Site" "RENC").erase "Site") := by
  unfold unsetProperty
  have : mapUnset "site" = some "Site" := by decide
  rw [this]
  simp [noUnset, Props.set]
example : unsetProperty (Props.empty : Props String) "name" = .error "query" :=
  unset_identity_rejected _ "name" "Name" (by decide) (by decide)


/-! ### every route to a property, every property, every element class

`elemClasses` (regenerated every run from behavioural probes of `fim/user/*.py`: what each python `property` of each
element class reads, what `el.<attr> = v` and `el.<attr> = None` hand to `set_property` / `set_properties` /
`unset_property`, what `set_property(p, None)` does) lists every attribute-style getter/setter pair of every element
class.  `routes_ok` checks the complete table; the theorems below lift `set_get` / `unset_get` to **every** route. -/

/-- Every element class routes `set_property(p, None)` to `unset_property(p)`; every python property of every element
class is named after the sliver property it reads, that property is one its kind's table rebuilds, a `.data` getter sits
exactly on the JSON-blob properties, the cached name changes only after the graph accepted it; every attribute *with a
setter* hands a value to `set_property` unchanged (`direct`) or wrapped in the very class its from-row builds
(`jsonWrap`), or pairs the two halves of `ImageRef` (`pair`); and assigning `None` passes `None` on / calls
`unset_property` (for `image_type`, which is exempt from unsetting, the pair route writes nothing). -/
theorem routes_ok : elemClasses.all classOK = true := by decide

/-- per kind: every rebuilt property outside the image pair has a to-row of its own; every rebuilt property that is not
exempt and not an identity property is mapped by `SLIVER_PROPERTY_TO_GRAPH` to the graph property its from-row reads,
reads `None` when that is absent and has a setter that accepts `None` -/
theorem rows_ok : tables.all rowsOK = true := by decide

section
variable {V P : Type}

/--
**set then get, by every route**: for every kind table `T`, every element class `E` of that kind, every property `f.key`
the table rebuilds (other than the two halves of the image pair, see the known findings), and every route — `set_property`,
`set_properties`, or assignment to *any* attribute of `E` that has a setter and names that property — the node
afterwards makes the from-row of the property read the value back, for every value obeying the codec law of its row;
`get_property` and the attribute getter (`attrGet`; a `.data` getter shows the same object's data) return it whenever
the node is readable at all.
-/
theorem set_get_every_route (C : Codecs V P) (T : KindTable) (hT : T ∈ tables) (E : ElemClass) (hE : E ∈ elemClasses)
    (f : FromRow) (hf : f ∈ T.fromRows) (hp : f.key ∉ pairKeys) (v : V)
    (hlaw : readVal C f (C.enc (rowOf T f).enc [v]) = .ok (some v))
    (route : SetRoute)
    (hroute : match route with
      | .attr r => r ∈ E.routes ∧ r.prop = f.key ∧ r.onValue ≠ OnValue.none
      | _ => True)
    (wn : String → V) (fresh : Fields V) (p : Props P) :
    ∃ p', setVia C T E wn fresh p f.key v route = .ok p' ∧ readRow C p' f = .ok (some v) ∧
      (∀ s', fromProps C T p' = .ok s' → getProperty C T p' f.key = .ok (some v) ∧
        ∀ a ∈ E.routes, a.prop = f.key → attrGet C T p' a = .ok (some v)) := by
  have hTok : tableOK T = true := List.all_eq_true.mp tables_ok T hT
  have hRok : rowsOK T = true := List.all_eq_true.mp rows_ok T hT
  have hEok : classOK E = true := List.all_eq_true.mp routes_ok E hE
  obtain ⟨hr, hk, hg⟩ := rowsOK_single hRok f hf hp
  have hw : route.Writes E f.key := by
    cases route with
    | setProperty => trivial
    | setProperties => trivial
    | attr r =>
      obtain ⟨hr', hrk, hrv⟩ := hroute
      have := classOK_writes hEok r hr' hrv (by rw [hrk]; exact hp)
      rw [hrk] at this
      exact this
  refine ⟨setProperty C T fresh p f.key v, setVia_eq C T E wn fresh p f.key v route hw, ?_⟩
  obtain ⟨h1, h2⟩ := set_get C T hTok fresh p (rowOf T f) hr f hf f.key v hk rfl hg hlaw
  refine ⟨h1, fun s' hs' => ⟨h2 s' hs', fun a _ hak => ?_⟩⟩
  unfold attrGet
  rw [hak]
  exact h2 s' hs'

/--
**unset then get, by every route**: for every kind table, every element class of that kind, every property the table
rebuilds (other than the exempt `image_type` / `stitch_node`, see `unset_counterexample` and the known findings, and the
identity properties, whose unset is rejected: `unset_identity_rejected`), a successful unset by **any** route —
`unset_property(k)`, `set_property(k, None)`, or `el.<attr> = None` for any attribute of the class that has a setter and
names that property — leaves a node on which the property reads absent.
-/
theorem unset_get_every_route (C : Codecs V P) (T : KindTable) (hT : T ∈ tables) (E : ElemClass) (hE : E ∈ elemClasses)
    (f : FromRow) (hf : f ∈ T.fromRows) (hx : f.key ∉ unsetExempt) (hid : f.gprop ∉ noUnset)
    (route : UnsetRoute)
    (hroute : match route with
      | .attrNone r => r ∈ E.routes ∧ r.prop = f.key ∧ r.onValue ≠ OnValue.none
      | _ => True)
    (wn : String → V) (fresh : Fields V) (p p' : Props P)
    (h : unsetVia C T E wn fresh p f.key route = .ok p') :
    readRow C p' f = .ok none ∧
      (∀ s', fromProps C T p' = .ok s' → getProperty C T p' f.key = .ok none ∧
        ∀ a ∈ E.routes, a.prop = f.key → attrGet C T p' a = .ok none) := by
  have hTok : tableOK T = true := List.all_eq_true.mp tables_ok T hT
  have hRok : rowsOK T = true := List.all_eq_true.mp rows_ok T hT
  have hEok : classOK E = true := List.all_eq_true.mp routes_ok E hE
  obtain ⟨habs, hn, hmap⟩ := rowsOK_unset hRok f hf hx hid
  have hu : route.Unsets E f.key := by
    cases route with
    | unsetProperty => trivial
    | setPropertyNone =>
      simp only [classOK, Bool.and_eq_true] at hEok
      exact hEok.1.1.1
    | attrNone r =>
      obtain ⟨hr', hrk, hrv⟩ := hroute
      have := classOK_unsets hEok r hr' hrv (by rw [hrk]; exact hx)
      rw [hrk] at this
      exact this
  rw [unsetVia_eq C T E wn fresh p f.key route hu] at h
  have h1 := unset_get C p p' f.key f hmap habs hn h
  refine ⟨h1, fun s' hs' => ?_⟩
  have hg : getProperty C T p' f.key = .ok none := by
    have := fromRowsGo_ok C _ T.fromRows Fields.empty s' (tableOK_nodup_k hTok) hs' f hf
    unfold getProperty
    rw [hs']
    rw [h1] at this
    injection this with h2
    simp only [← h2]
  refine ⟨hg, fun a _ hak => ?_⟩
  unfold attrGet
  rw [hak]
  exact hg

/-- every unset route of an identity property (`name`, `type`) is rejected and leaves the node alone -/
theorem unset_identity_every_route (C : Codecs V P) (T : KindTable) (E : ElemClass) (hE : E ∈ elemClasses) (k g : String)
    (hmap : mapUnset k = some g) (hid : g ∈ noUnset) (route : UnsetRoute)
    (hroute : match route with
      | .attrNone r => r ∈ E.routes ∧ r.prop = k ∧ r.onValue ≠ OnValue.none
      | _ => True)
    (hx : k ∉ unsetExempt) (wn : String → V) (fresh : Fields V) (p : Props P) :
    unsetVia C T E wn fresh p k route = .error "query" := by
  have hEok : classOK E = true := List.all_eq_true.mp routes_ok E hE
  have hu : route.Unsets E k := by
    cases route with
    | unsetProperty => trivial
    | setPropertyNone =>
      simp only [classOK, Bool.and_eq_true] at hEok
      exact hEok.1.1.1
    | attrNone r =>
      obtain ⟨hr', hrk, hrv⟩ := hroute
      have := classOK_unsets hEok r hr' hrv (by rw [hrk]; exact hx)
      rw [hrk] at this
      exact this
  rw [unsetVia_eq C T E wn fresh p k route hu]
  exact unset_identity_rejected p k g hmap hid

end

/-! #### histories: the last operation decides -/

/-- one operation on property `k` of an element: a write through some set route, or an unset through some unset route -/
inductive PropOp (V : Type) where
  | set (route : SetRoute) (v : V)
  | unset (route : UnsetRoute)

section
variable {V P : Type}

def stepOp (C : Codecs V P) (T : KindTable) (E : ElemClass) (wn : String → V) (fresh : Fields V) (k : Key) (p : Props P) :
    PropOp V → Except Err (Props P)
  | .set route v => setVia C T E wn fresh p k v route
  | .unset route => unsetVia C T E wn fresh p k route

/-- a history of operations on one property of one element, each applied to the node the previous one left (an
operation that raises ends the history: the model has no partial states) -/
def runHistory (C : Codecs V P) (T : KindTable) (E : ElemClass) (wn : String → V) (fresh : Fields V) (k : Key) :
    List (PropOp V) → Props P → Except Err (Props P)
  | [], p => .ok p
  | op :: rest, p =>
    match stepOp C T E wn fresh k p op with
    | .ok p' => runHistory C T E wn fresh k rest p'
    | .error e => .error e

theorem runHistory_append (C : Codecs V P) (T : KindTable) (E : ElemClass) (wn : String → V) (fresh : Fields V) (k : Key)
    (ops : List (PropOp V)) (op : PropOp V) (p p' : Props P)
    (h : runHistory C T E wn fresh k (ops ++ [op]) p = .ok p') :
    ∃ q, runHistory C T E wn fresh k ops p = .ok q ∧ stepOp C T E wn fresh k q op = .ok p' := by
  induction ops generalizing p with
  | nil =>
    simp only [List.nil_append, runHistory] at h
    cases hq : stepOp C T E wn fresh k p op with
    | error e => rw [hq] at h; cases h
    | ok q =>
      rw [hq] at h
      cases h
      exact ⟨p, rfl, hq⟩
  | cons o os ih =>
    simp only [List.cons_append, runHistory] at h ⊢
    cases hq : stepOp C T E wn fresh k p o with
    | error e => rw [hq] at h; cases h
    | ok q =>
      rw [hq] at h
      exact ih q h

/-- the admissible operations on property `f.key` of an element of class `E` -/
def OpOK (C : Codecs V P) (T : KindTable) (E : ElemClass) (f : FromRow) : PropOp V → Prop
  | .set route v => readVal C f (C.enc (rowOf T f).enc [v]) = .ok (some v) ∧
      (match route with
       | .attr r => r ∈ E.routes ∧ r.prop = f.key ∧ r.onValue ≠ OnValue.none
       | _ => True)
  | .unset route =>
      (match route with
       | .attrNone r => r ∈ E.routes ∧ r.prop = f.key ∧ r.onValue ≠ OnValue.none
       | _ => True)

/--
**The last operation decides, over all histories**: whatever sequence of writes and unsets — each through any route —
an element's property went through, and whatever the node held at the start, after a history that ran to its end the
property reads the value of the last write, or absent if the last operation was an unset.  (Set `v1`, overwrite with
a falsy `v2`, unset, set again, ...: the per-step theorems hold on *every* node, so they compose.)
-/
theorem history_last_op_decides (C : Codecs V P) (T : KindTable) (hT : T ∈ tables) (E : ElemClass) (hE : E ∈ elemClasses)
    (f : FromRow) (hf : f ∈ T.fromRows) (hp : f.key ∉ pairKeys) (hx : f.key ∉ unsetExempt) (hid : f.gprop ∉ noUnset)
    (wn : String → V) (fresh : Fields V) (ops : List (PropOp V)) (op : PropOp V) (hop : OpOK C T E f op)
    (p p' : Props P) (h : runHistory C T E wn fresh f.key (ops ++ [op]) p = .ok p') :
    readRow C p' f = .ok (match op with | .set _ v => some v | .unset _ => none) := by
  obtain ⟨q, _, hstep⟩ := runHistory_append C T E wn fresh f.key ops op p p' h
  cases op with
  | set route v =>
    obtain ⟨hlaw, hroute⟩ := hop
    obtain ⟨p2, h1, h2, _⟩ := set_get_every_route C T hT E hE f hf hp v hlaw route hroute wn fresh q
    simp only [stepOp] at hstep
    rw [h1] at hstep
    cases hstep
    exact h2
  | unset route =>
    simp only [stepOp] at hstep
    exact (unset_get_every_route C T hT E hE f hf hx hid route hop wn fresh q p' hstep).1

/-! #### several handles of one element

`topo.nodes['n1']`, `node.components['nic1']`, `port.interface_list[0]`, the object an `add_*` call returned: each is
another python object for the same graph node.  The model (and the driver's `runOps`, which the correspondence runs
against histories that alternate between three handles) gives a handle exactly one thing of its own, the name it
caches; every property lives in the one store. -/

/-- what an operation through handle `h` does to the cached names: only an assignment to the cached attribute, and
only in the handle it went through -/
def cacheStep (h : Nat) : PropOp V → (Nat → Option V) → (Nat → Option V)
  | .set (.attr r) v, nm => if r.get == GetForm.cached then (fun i => if i = h then some v else nm i) else nm
  | _, nm => nm

/-- a history in which every operation names the handle it goes through -/
def runHandles (C : Codecs V P) (T : KindTable) (E : ElemClass) (wn : String → V) (fresh : Fields V) (k : Key) :
    List (Nat × PropOp V) → Props P × (Nat → Option V) → Except Err (Props P × (Nat → Option V))
  | [], st => .ok st
  | hop :: rest, st =>
    match stepOp C T E wn fresh k st.1 hop.2 with
    | .ok p' => runHandles C T E wn fresh k rest (p', cacheStep hop.1 hop.2 st.2)
    | .error e => .error e

/-- **Handles share one store**: a history spread over any number of handles leaves the node exactly as the same
operations through a single handle do - which handle wrote is invisible to every reader -/
theorem handles_share_one_store (C : Codecs V P) (T : KindTable) (E : ElemClass) (wn : String → V) (fresh : Fields V) (k : Key)
    (hops : List (Nat × PropOp V)) (st st' : Props P × (Nat → Option V))
    (h : runHandles C T E wn fresh k hops st = .ok st') :
    runHistory C T E wn fresh k (hops.map (·.2)) st.1 = .ok st'.1 := by
  induction hops generalizing st with
  | nil => simp only [runHandles] at h; cases h; rfl
  | cons hop rest ih =>
    simp only [runHandles] at h
    simp only [List.map_cons, runHistory]
    cases hq : stepOp C T E wn fresh k st.1 hop.2 with
    | error e => rw [hq] at h; cases h
    | ok q =>
      rw [hq] at h
      exact ih (q, cacheStep hop.1 hop.2 st.2) h

/-- ... so set→get and unset→get hold **across handles**: after any history over any handles, a read (through whichever
handle: reads go to the store) returns the value of the last write, or absent after an unset, whoever made it -/
theorem history_last_op_decides_any_handle (C : Codecs V P) (T : KindTable) (hT : T ∈ tables) (E : ElemClass)
    (hE : E ∈ elemClasses) (f : FromRow) (hf : f ∈ T.fromRows) (hp : f.key ∉ pairKeys) (hx : f.key ∉ unsetExempt)
    (hid : f.gprop ∉ noUnset) (wn : String → V) (fresh : Fields V) (hops : List (Nat × PropOp V)) (hop : Nat × PropOp V)
    (hok : OpOK C T E f hop.2) (st st' : Props P × (Nat → Option V))
    (h : runHandles C T E wn fresh f.key (hops ++ [hop]) st = .ok st') :
    readRow C st'.1 f = .ok (match hop.2 with | .set _ v => some v | .unset _ => none) := by
  obtain ⟨hn, op⟩ := hop
  have h1 := handles_share_one_store C T E wn fresh f.key (hops ++ [(hn, op)]) st st' h
  rw [List.map_append, List.map_cons, List.map_nil] at h1
  have h2 := history_last_op_decides C T hT E hE f hf hp hx hid wn fresh (hops.map (·.2)) op hok st.1 st'.1 h1
  cases op <;> exact h2

/-! #### several elements

Each element of a model is a graph node of its own: an operation on element `a` goes to `a`'s stored properties and to
nothing else.  The model has no other place where a value could live (no table of decoded objects shared by the
elements that carry an equal text), so a history interleaved over any number of elements - of any classes - falls apart
into the histories of the single elements.  On the implementation this is an oracle fact (`check_alias`: equal values
on several elements, everything a getter hands out changed in place and written back, every other element compared
with what its graph node holds); here it is what the refinement to the model means for several elements. -/

/-- the elements of a model by number: stored properties, and the mapping table / class of each -/
def runElems (C : Codecs V P) (T : Nat → KindTable) (E : Nat → ElemClass) (wn : String → V) (fresh : Fields V) (k : Key) :
    List (Nat × PropOp V) → (Nat → Props P) → Except Err (Nat → Props P)
  | [], s => .ok s
  | hop :: rest, s =>
    match stepOp C (T hop.1) (E hop.1) wn fresh k (s hop.1) hop.2 with
    | .ok p' => runElems C T E wn fresh k rest (fun i => if i = hop.1 then p' else s i)
    | .error e => .error e

/-- **Elements do not share**: after any history interleaved over any elements, element `b` holds exactly what its own
operations - in their order, all others left out - make of what it held before -/
theorem elements_do_not_share (C : Codecs V P) (T : Nat → KindTable) (E : Nat → ElemClass) (wn : String → V) (fresh : Fields V)
    (k : Key) (hops : List (Nat × PropOp V)) (s s' : Nat → Props P) (b : Nat)
    (h : runElems C T E wn fresh k hops s = .ok s') :
    runHistory C (T b) (E b) wn fresh k ((hops.filter (fun hop => hop.1 == b)).map (·.2)) (s b) = .ok (s' b) := by
  induction hops generalizing s with
  | nil => simp only [runElems] at h; cases h; rfl
  | cons hop rest ih =>
    simp only [runElems] at h
    cases hq : stepOp C (T hop.1) (E hop.1) wn fresh k (s hop.1) hop.2 with
    | error e => rw [hq] at h; cases h
    | ok q =>
      rw [hq] at h
      have hi := ih (fun i => if i = hop.1 then q else s i) h
      by_cases hb : hop.1 = b
      · subst hb
        simp only [List.filter_cons, beq_self_eq_true, if_true, List.map_cons, runHistory, hq]
        simpa using hi
      · have hb' : (hop.1 == b) = false := by simpa using hb
        have hb2 : ¬ b = hop.1 := fun e => hb e.symm
        simp only [List.filter_cons, hb', Bool.false_eq_true, if_false]
        simpa [hb2] using hi

/-- an element nobody wrote to reads what it read before, whatever was done to the others (in particular to those that
hold an equal value) -/
theorem untouched_element_unchanged (C : Codecs V P) (T : Nat → KindTable) (E : Nat → ElemClass) (wn : String → V)
    (fresh : Fields V) (k : Key) (hops : List (Nat × PropOp V)) (s s' : Nat → Props P) (b : Nat)
    (hb : ∀ hop ∈ hops, hop.1 ≠ b) (h : runElems C T E wn fresh k hops s = .ok s') : s' b = s b := by
  have h1 := elements_do_not_share C T E wn fresh k hops s s' b h
  have h2 : hops.filter (fun hop => hop.1 == b) = [] := by
    apply List.filter_eq_nil_iff.mpr
    intro hop hm
    simpa using hb hop hm
  rw [h2] at h1
  simp only [List.map_nil, runHistory] at h1
  exact (Except.ok.inj h1).symm

/-- ... so on every element the last operation *on that element* decides what it reads, whatever happened to the other
elements in between -/
theorem history_last_op_decides_any_element (C : Codecs V P) (T : Nat → KindTable) (hT : ∀ i, T i ∈ tables)
    (E : Nat → ElemClass) (hE : ∀ i, E i ∈ elemClasses) (b : Nat) (f : FromRow) (hf : f ∈ (T b).fromRows)
    (hp : f.key ∉ pairKeys) (hx : f.key ∉ unsetExempt) (hid : f.gprop ∉ noUnset) (wn : String → V) (fresh : Fields V)
    (hops : List (Nat × PropOp V)) (op : PropOp V) (others : List (Nat × PropOp V)) (ho : ∀ hop ∈ others, hop.1 ≠ b)
    (hok : OpOK C (T b) (E b) f op) (s s' : Nat → Props P)
    (h : runElems C T E wn fresh f.key (hops ++ (b, op) :: others) s = .ok s') :
    readRow C (s' b) f = .ok (match op with | .set _ v => some v | .unset _ => none) := by
  have h1 := elements_do_not_share C T E wn fresh f.key (hops ++ (b, op) :: others) s s' b h
  have h2 : others.filter (fun hop => hop.1 == b) = [] := by
    apply List.filter_eq_nil_iff.mpr
    intro hop hm
    simpa using ho hop hm
  rw [List.filter_append, List.filter_cons, h2] at h1
  simp only [beq_self_eq_true, if_true, List.map_append, List.map_cons, List.map_nil] at h1
  have h3 := history_last_op_decides C (T b) (hT b) (E b) (hE b) f hf hp hx hid wn fresh _ op hok (s b) (s' b) h1
  cases op <;> exact h3

end

/-- non-vacuity: `site` of a node set to "A", overwritten by the empty string through the attribute, unset through
`set_property(None)`, set to "B" through `set_properties`, unset by assigning `None` to the attribute: the history runs
to its end (evaluated), and every operation is admissible -/
def siteRoute : AttrRoute := (elemNode.routes.find? (fun r => r.attr == "site")).getD default
def siteFrom : FromRow := (nodeTable.fromRows.find? (fun f => f.key == "site")).getD default
def siteHistory : List (PropOp Val) :=
  [.set .setProperty (.str "A"), .set (.attr siteRoute) (.str ""), .unset .setPropertyNone,
   .set .setProperties (.str "B"), .unset (.attrNone siteRoute)]

example : (match runHistory concrete nodeTable elemNode (fun c => Val.jdata c "{}") freshFields "site" siteHistory
    (Props.empty.set "Name" "n1") with | .ok _ => true | .error _ => false) = true := by decide
example : ∀ op ∈ siteHistory, OpOK concrete nodeTable elemNode siteFrom op := by
  intro op hop
  simp only [siteHistory, List.mem_cons, List.mem_nil_iff, or_false] at hop
  rcases hop with rfl | rfl | rfl | rfl | rfl <;> simp only [OpOK] <;> decide



/-- non-vacuity of `history_last_op_decides_any_handle`: the same history with its operations alternating between
three handles runs to its end -/
example : (match runHandles concrete nodeTable elemNode (fun c => Val.jdata c "{}") freshFields "site"
    ((List.range siteHistory.length).map (· % 3) |>.zip siteHistory) (Props.empty.set "Name" "n1", fun _ => some (.str "n1"))
    with | .ok _ => true | .error _ => false) = true := by decide

/-- non-vacuity of `elements_do_not_share` / `history_last_op_decides_any_element`: the same history interleaved over
two elements (every operation first on element 0, then on element 1, both holding a name only) runs to its end -/
example : (match runElems concrete (fun _ => nodeTable) (fun _ => elemNode) (fun c => Val.jdata c "{}") freshFields "site"
    (siteHistory.flatMap (fun op => [(0, op), (1, op)])) (fun _ => Props.empty.set "Name" "n1")
    with | .ok _ => true | .error _ => false) = true := by decide

/-! non-vacuity of the route theorems: the `user_data` attribute of a `Node` (the JSON-blob setter), with a value
that obeys the codec law, through the attribute route -/

def userDataRoute : AttrRoute :=
  (elemNode.routes.find? (fun r => r.attr == "user_data")).getD default
def userDataFrom : FromRow :=
  (nodeTable.fromRows.find? (fun f => f.key == "user_data")).getD default

example : userDataRoute ∈ elemNode.routes ∧ userDataRoute.prop = userDataFrom.key ∧ userDataRoute.onValue ≠ OnValue.none := by decide
example : userDataFrom ∈ nodeTable.fromRows ∧ userDataFrom.key ∉ pairKeys ∧ userDataFrom.key ∉ unsetExempt ∧
    userDataFrom.gprop ∉ noUnset := by decide
example : readVal concrete userDataFrom (concrete.enc (rowOf nodeTable userDataFrom).enc [Val.jdata "UserData" "{\"a\": 1}"]) =
    .ok (some (Val.jdata "UserData" "{\"a\": 1}")) := by decide
/-- a node that holds user data: assigning `None` to the attribute succeeds (so the hypothesis of
`unset_get_every_route` is satisfiable) -/
example : ∃ p', unsetVia concrete nodeTable elemNode (fun c => Val.jdata c "{}") freshFields
    (Props.empty.set "UserData" "{}") "user_data" (.attrNone userDataRoute) = .ok p' := by
  refine ⟨(Props.empty.set "UserData" "{}").erase "UserData", ?_⟩
  rw [unsetVia_eq _ _ _ _ _ _ _ _ (by
    show userDataRoute ∈ elemNode.routes ∧ userDataRoute.prop = "user_data" ∧ _
    decide)]
  unfold unsetProperty
  have : mapUnset "user_data" = some "UserData" := by decide
  rw [this]
  simp [noUnset, Props.set]

/-- `image_type` is exempt: assigning `None` to the attribute (the pair route with `None`) writes nothing, the stored
type stays readable (known finding `C02:unset_get:image_type:still-set:ctx=image-stored`; replayed on the
implementation by corpus/C02/known_elem_image_pair_stored.json) -/
theorem attr_unset_image_type_counterexample :
    (match attrAssign concrete nodeTable elemNode (fun c => Val.jdata c "{}") freshFields
        ((Props.empty.set "Name" "n1").set "ImageRef" "img,qcow2")
        ((elemNode.routes.find? (fun r => r.attr == "image_type")).getD default) none with
     | .ok p' => p' "ImageRef"
     | .error _ => none) = some "img,qcow2" := by decide

/-! ### deep dictionary (and JSON) round trip, by structural induction over the sliver tree -/

section
variable {V P : Type} [DecidableEq V]

mutual
theorem dict_roundtrip_aux (C : Codecs V P) : ∀ (s : Sliver V), WF C s → fromDict C s.kind (toDict C s) = .ok (normalize s)
  | .mk k i f ks, h => by
    simp only [WF] at h
    obtain ⟨hT, hlaw, hfate, hreq, hkids, hnd⟩ := h
    have hp := props_roundtrip_partial C (tableOf k) f hT hlaw hfate hreq
    have hk := dict_kids_aux C k ks hkids
    simp only [toDict, Sliver.kind, fromDict, hp, hk, normalize]
    rw [dedupe_nodup]
    rw [normalizeKids_keys C k ks hkids]
    exact hnd
theorem dict_kids_aux (C : Codecs V P) (parent : Kind) : ∀ (ks : List (Sliver V)), WFKids C parent ks →
    fromDictKids C parent (toDictKids C parent ks) = .ok (normalizeKids ks)
  | [], _ => by simp [toDictKids, fromDictKids, normalizeKids]
  | c :: cs, h => by
    simp only [WFKids] at h
    obtain ⟨hslot, hok, hc, hcs⟩ := h
    obtain ⟨slot, hs⟩ := Option.isSome_iff_exists.mp hslot
    have h1 := dict_roundtrip_aux C c hc
    have h2 := dict_kids_aux C parent cs hcs
    have hck := childKind_slotOf parent c.kind slot hs
    have hok' : childOk (normalize c) = true := by rw [normalize_childOk C c hc]; exact hok
    simp only [toDictKids, hs, fromDictKids, hck, h1, h2, hok', normalizeKids, if_true]
end

/--
**Deep dictionary round trip** (`build_deep_<kind>_sliver_from_dict ∘ sliver_to_dict`, which is also the JSONSliver
path up to `json.loads ∘ json.dumps` on string-valued dictionaries): for every well-formed sliver tree of any depth
and width the rebuilt tree has the same kind, the same value in every rebuilt property and the same children in the
same order, recursively.  It carries no node id (`sliver_to_dict` does not emit `NodeID`; the id is not settable).
`_partial` only through `WF`'s `FateShared` conjunct (see `props_roundtrip_partial`).
-/
theorem dict_roundtrip_partial (C : Codecs V P) (s : Sliver V) (h : WF C s) :
    fromDict C s.kind (toDict C s) = .ok (normalize s) := dict_roundtrip_aux C s h

end

/-! ### non-vacuity: concrete well-formed trees in the driver's value model (hypotheses evaluated, not assumed) -/

def exIface (n : String) : Sliver Val :=
  .mk "interface" (some ("id-" ++ n))
    ((freshFields.set "name" (some (.str n))).set "type" (some (.enum "InterfaceType" "TrunkPort"))) []
def exService : Sliver Val :=
  .mk "service" (some "id-s")
    ((((freshFields.set "name" (some (.str "svc1"))).set "type" (some (.enum "ServiceType" "L2Bridge"))).set
      "site" (some (.str "RENC"))).set "labels" (some (.obj "Labels" "{\"vlan\": \"100\"}")))
    [exIface "p1", exIface "p2"]
/-- node ⊃ component ⊃ service ⊃ two interfaces, with the `image_ref`/`image_type` pair set -/
def exNode : Sliver Val :=
  .mk "node" (some "id-n")
    ((((freshFields.set "name" (some (.str "node1"))).set "type" (some (.enum "NodeType" "VM"))).set
      "image_ref" (some (.str "img"))).set "image_type" (some (.str "qcow2")))
    [.mk "component" (some "id-c")
      ((freshFields.set "name" (some (.str "nic1"))).set "type" (some (.enum "ComponentType" "SmartNIC"))) [exService]]

example : WF concrete exService := wfB_sound concrete exService (by decide)
example : WF concrete exNode := wfB_sound concrete exNode (by decide)
/-- the hypotheses of `props_roundtrip_partial` hold for the node's own fields -/
example : FieldLaw concrete nodeTable exNode.fields ∧ FateShared nodeTable exNode.fields ∧ Required nodeTable exNode.fields :=
  ⟨fieldLawB_sound _ _ _ (by decide), fateSharedB_sound _ _ (by decide), requiredB_sound _ _ (by decide)⟩

/-! ### the `ImageRef` text format on the driver's value model -/

/--
`image_ref + ',' + image_type` split at the last comma gives both parts back for **every** image reference (commas
included) and every image type without a comma — the codec law of the two-attribute row.
-/
theorem image_join_split (a b : String) (hb : ',' ∉ b.toList) :
    concrete.dec Dec.commaRSplit "0" (concrete.enc Enc.commaJoin [Val.str a, Val.str b]) = .ok (some (Val.str a)) ∧
    concrete.dec Dec.commaRSplit "1" (concrete.enc Enc.commaJoin [Val.str a, Val.str b]) = .ok (some (Val.str b)) := by
  have h := rsplitComma_join a b hb
  constructor <;> simp [concrete, valText, h]

/-- an image type containing a comma does not survive (known findings `…:image_type-comma`;
corpus/C02/known_image_type_comma.json) -/
theorem image_type_comma_counterexample :
    concrete.dec Dec.commaRSplit "1" (concrete.enc Enc.commaJoin [Val.str "img", Val.str "qcow2,raw"]) = .ok (some (Val.str "raw")) := by
  decide

/-! ### model-graph round trip, for trees with children -/

section
variable {V P : Type} [DecidableEq V]

/--
**Model-graph round trip** (`add_network_node_sliver` / `add_network_service_sliver` / `add_interface_sliver` /
`add_network_link_sliver` into an empty graph, then `build_deep_<kind>_sliver`): every well-formed sliver tree with
node ids that are present and pairwise distinct comes back as `gnorm s` — same kind and node id, every rebuilt
property equal, and the children of each element rebuilt recursively and grouped by kind (components before services;
`regroup_perm`: a permutation of the original children — the implementation enumerates neighbours as a set, so
order is not observable).  Below an interface the graph reader attaches children only to a `DedicatedPort` and
builds them flat (`gnorm` says so explicitly).
Proof: `add_built` (what the writer leaves in the store, by induction over the tree with frame conditions) and
`build_built` (the reader on any store containing that, by induction over the tree).
`_partial` only through `WF`'s `FateShared` conjunct (see `props_roundtrip_partial`).
-/
theorem graph_roundtrip_partial (C : Codecs V P) (s : Sliver V) (hk : s.kind ≠ "component") (hs : Shaped s)
    (hw : WF C s) (hnd : (idsOf s).Nodup) : graphRoundtrip (P := P) C s = .ok (gnorm C s) := by
  obtain ⟨g', hadd, hb, _⟩ := add_built C s (AGraph.empty : AGraph P) none hs
    (fun i _ => ⟨rfl, rfl⟩) hnd (fun q hq => by cases hq) (fun q hq => by cases hq)
  have hr : rank s.kind ≤ 5 := by unfold rank; split <;> (try split) <;> (try split) <;> omega
  have hbuild := build_built C g' s none 5 hb hs hw (fun q hq => by cases hq) hr
  unfold graphRoundtrip
  simp only [hk, if_false, hadd]
  exact hbuild

/-- the children the graph path gives back are the original children, each rebuilt, up to order -/
theorem graph_children_perm (C : Codecs V P) (k : Kind) (nid : Option String) (f : Fields V) (ks : List (Sliver V))
    (hk : k ≠ "interface") (hs : ShapedKids k ks) :
    (gnorm C (.mk k nid f ks)).kids.Perm (ks.map (gnorm C)) := by
  have hk' : (k == "interface") = false := by simpa using hk
  simp only [gnorm, Sliver.kids, hk', Bool.false_eq_true, if_false, gnormKids_eq_map]
  apply regroup_perm
  intro c hc
  obtain ⟨c0, hc0, rfl⟩ := List.mem_map.mp hc
  rw [gnorm_kind]
  obtain ⟨sl, hsl⟩ := Option.isSome_iff_exists.mp (shapedKids_mem k ks hs c0 hc0).1
  exact slotOf_mem_slotKinds k c0.kind sl hsl

/-- the same for a component, which the harness (and `add_component_sliver`) hangs below an existing node -/
theorem graph_roundtrip_component_partial (C : Codecs V P) (s : Sliver V) (hk : s.kind = "component") (hs : Shaped s)
    (hw : WF C s) (hnd : (idsOf s).Nodup) (hp : "c02-parent" ∉ idsOf s) :
    graphRoundtrip (P := P) C s = .ok (gnorm C s) := by
  have hg0 : addNode (AGraph.empty : AGraph P) none "c02-parent" "NetworkNode" "has" Props.empty =
      .ok (addNodeTo AGraph.empty none "c02-parent" "NetworkNode" "has" Props.empty) := rfl
  generalize hgen : addNodeTo (AGraph.empty : AGraph P) none "c02-parent" "NetworkNode" "has" Props.empty = g0 at hg0
  have hfresh : Fresh g0 (idsOf s) := by
    intro i hi
    have : i ≠ "c02-parent" := fun e => hp (e ▸ hi)
    subst hgen
    simp [addNodeTo, AGraph.empty, upd, this]
  obtain ⟨g', hadd, hb, hframe⟩ := add_built C s g0 (some "c02-parent") hs hfresh hnd (fun q hq => by cases hq; exact hp)
    (fun q hq => by cases hq; subst hgen; simp [addNodeTo, AGraph.empty, upd])
  have hpn : g'.node "c02-parent" = [(classOf "node", Props.empty)] := by
    rw [(hframe.2 "c02-parent" rfl).1]
    subst hgen
    simp [addNodeTo, AGraph.empty, upd, classOf]
  have hpar : ParentOk g' (some "c02-parent") s.kind := by
    rw [hk]
    exact parentOk_child g' "node" "component" "components" "c02-parent" Props.empty (by decide) (by decide) hpn
  have hr : rank s.kind ≤ 5 := by rw [hk]; decide
  have hbuild := build_built C g' s (some "c02-parent") 5 hb hs hw hpar hr
  unfold graphRoundtrip
  simp only [hk, if_true, hg0, hadd]
  rw [hk] at hbuild
  exact hbuild

/--
**The model graph read from every element** (`Interface.get_sliver()` on what `add_child_interface` returned,
`build_deep_ns_sliver(<id of a component's service>)`, `build_deep_interface_sliver(<sub-interface id>)`, ...): a
well-formed tree is written once; the reader started at *any* of its elements - every kind, every nesting position -
returns that element's subtree (`gnorm` of it: same fields, children up to order), nothing of what lies above or beside
it.  `get_first_neighbor` is undirected (`neighbors` on a two-way adjacency), so every inner element has its parent
among its neighbours: below a node / component / service the class filter keeps it out (`parentOk_child`), below an
interface only the `DedicatedPort` guard does (`build_plain`) - hence `SubsPlain`: the children of an interface are not
themselves `DedicatedPort`s (`add_child_interface` makes `SubInterface`s); `graph_at_nested_dedicated_counterexample`
shows the hypothesis is needed.  `_partial` as `graph_roundtrip_partial` (the `FateShared` conjunct of `WF`).
-/
theorem graph_roundtrip_every_element_partial (C : Codecs V P) (s : Sliver V) (hk : s.kind ≠ "component") (hs : Shaped s)
    (hw : WF C s) (hnd : (idsOf s).Nodup) (hp : SubsPlain C (elems none s)) :
    graphAt (P := P) C s = .ok ((elems none s).map fun e => (e.2, .ok (gnorm C e.2))) := by
  obtain ⟨g', hadd, hb, _⟩ := add_built C s (AGraph.empty : AGraph P) none hs
    (fun i _ => ⟨rfl, rfl⟩) hnd (fun q hq => by cases hq) (fun q hq => by cases hq)
  have hall := at_elems C g' s none hb hs hw (fun q pk h => by cases h) hp
  unfold graphAt graphWrite
  simp only [hk, if_false, hadd]
  congr 1
  apply List.map_congr_left
  intro e he
  have := hall e he
  unfold idOf at this
  rw [this]

/-- the same for a component, which hangs below an existing node (`c02-parent`) as `add_component_sliver` requires -/
theorem graph_roundtrip_every_element_component_partial (C : Codecs V P) (s : Sliver V) (hk : s.kind = "component")
    (hs : Shaped s) (hw : WF C s) (hnd : (idsOf s).Nodup) (hpid : "c02-parent" ∉ idsOf s)
    (hp : SubsPlain C (elems none s)) :
    graphAt (P := P) C s = .ok ((elems none s).map fun e => (e.2, .ok (gnorm C e.2))) := by
  have hg0 : addNode (AGraph.empty : AGraph P) none "c02-parent" "NetworkNode" "has" Props.empty =
      .ok (addNodeTo AGraph.empty none "c02-parent" "NetworkNode" "has" Props.empty) := rfl
  generalize hgen : addNodeTo (AGraph.empty : AGraph P) none "c02-parent" "NetworkNode" "has" Props.empty = g0 at hg0
  have hfresh : Fresh g0 (idsOf s) := by
    intro i hi
    have : i ≠ "c02-parent" := fun e => hpid (e ▸ hi)
    subst hgen
    simp [addNodeTo, AGraph.empty, upd, this]
  obtain ⟨g', hadd, hb, hframe⟩ := add_built C s g0 (some "c02-parent") hs hfresh hnd (fun q hq => by cases hq; exact hpid)
    (fun q hq => by cases hq; subst hgen; simp [addNodeTo, AGraph.empty, upd])
  have hpn : g'.node "c02-parent" = [(classOf "node", Props.empty)] := by
    rw [(hframe.2 "c02-parent" rfl).1]
    subst hgen
    simp [addNodeTo, AGraph.empty, upd, classOf]
  have hpl : SubsPlain C (elems (some ("c02-parent", "node")) s) := by
    cases s with
    | mk k nid f ks =>
      intro e he q hq
      simp only [elems, List.mem_cons] at he
      rcases he with rfl | he
      · simp at hq
      · exact hp e (by simp only [elems]; exact List.mem_cons_of_mem _ he) q hq
  have hall := at_elems C g' s (some ("c02-parent", "node")) hb hs hw
    (fun q pk h => by cases h; exact ⟨by rw [hk]; decide, Props.empty, hpn⟩) hpl
  have hall' : ∀ e ∈ elems none s, buildDeep C g' 5 e.2.kind (idOf e.2) = .ok (gnorm C e.2) := by
    intro e he
    have hm : e.2 ∈ (elems (some ("c02-parent", "node")) s).map (·.2) := by
      rw [elems_snd (some ("c02-parent", "node")) none s]
      exact List.mem_map.mpr ⟨e, he, rfl⟩
    obtain ⟨e', he', heq⟩ := List.mem_map.mp hm
    rw [← heq]
    exact hall e' he'
  unfold graphAt graphWrite
  simp only [hk, if_true, hg0, hadd]
  congr 1
  apply List.map_congr_left
  intro e he
  have := hall' e he
  unfold idOf at this
  rw [this]

end

/-- non-vacuity of `graph_roundtrip_every_element_partial`: a service with a `DedicatedPort` carrying two
sub-interfaces (and a plain port beside it) satisfies every hypothesis; five starts, five subtrees -/
def exSub (n vlan : String) : Sliver Val :=
  .mk "interface" (some ("id-" ++ n))
    (((freshFields.set "name" (some (.str n))).set "type" (some (.enum "InterfaceType" "SubInterface"))).set
      "labels" (some (.obj "Labels" ("{\"vlan\": \"" ++ vlan ++ "\"}")))) []
def exPort : Sliver Val :=
  .mk "interface" (some "id-port")
    ((freshFields.set "name" (some (.str "p0"))).set "type" (some (.enum "InterfaceType" "DedicatedPort")))
    [exSub "p0.100" "100", exSub "p0.200" "200"]
def exPortService : Sliver Val :=
  .mk "service" (some "id-ovs")
    ((freshFields.set "name" (some (.str "ovs1"))).set "type" (some (.enum "ServiceType" "OVS"))) [exPort, exIface "p1"]

example : graphAt (P := String) concrete exPortService =
    .ok ((elems none exPortService).map fun e => (e.2, .ok (gnorm concrete e.2))) :=
  graph_roundtrip_every_element_partial concrete exPortService (by decide)
    (by simp [Shaped, ShapedKids, exPortService, exPort, exSub, exIface, Sliver.kind, slotOf])
    (wfB_sound concrete exPortService (by decide)) (by decide)
    (by
      intro e he q hq
      simp [elems, elemsKids, exPortService, exPort, exSub, exIface] at he
      rcases he with rfl | rfl | rfl | rfl | rfl <;> first | (simp at hq; done) | (unfold NotDed; decide))
example : ((elems none exPortService).map (·.2.nodeId)) =
    [some "id-ovs", some "id-port", some "id-p0.100", some "id-p0.200", some "id-p1"] := by decide

/-- `SubsPlain` is needed: a `DedicatedPort` below a `DedicatedPort`, read from the inner one, comes back with its
own parent as a child (the undirected neighbour query; the guard lets a `DedicatedPort` look) -/
def exNested : Sliver Val :=
  .mk "interface" (some "id-outer")
    ((freshFields.set "name" (some (.str "outer"))).set "type" (some (.enum "InterfaceType" "DedicatedPort")))
    [.mk "interface" (some "id-inner")
      ((freshFields.set "name" (some (.str "inner"))).set "type" (some (.enum "InterfaceType" "DedicatedPort"))) []]

theorem graph_at_nested_dedicated_counterexample :
    (match graphWrite (P := String) concrete exNested with
     | .ok g => (buildDeep concrete g 5 "interface" "id-inner").toOption.map (fun r => r.kids.map (·.nodeId))
     | .error _ => none) = some [some "id-outer"] := by decide

/-- non-vacuity of `graph_roundtrip_partial`: the four-level example tree satisfies every hypothesis -/
example : graphRoundtrip (P := String) concrete exNode = .ok (gnorm concrete exNode) :=
  graph_roundtrip_partial concrete exNode (by decide)
    (by simp [Shaped, ShapedKids, exNode, exService, exIface, Sliver.kind, slotOf])
    (wfB_sound concrete exNode (by decide)) (by decide)

/-! #### several properties of one element: a write to one leaves the others

`<Element>.set_property(k, v)` writes the COMPLETE dictionary of a fresh sliver with `k` set, so it rewrites every graph
property the fresh sliver carries besides `k`'s: the always-written rows (`StitchNode`) and every property the sliver
class's `__init__` starts with a value for (`freshDefaults`, probed every run).  `frame_ok` checks on the generated tables
that this is `stitch_node` and nothing else; under it a history over SEVERAL properties decomposes per property. -/

/-- properties a write of another property may rewrite: the always-written flag (known finding
`C02:frame:stitch_node:reset-to-default:by=set`, `frame_stitch_counterexample`) and the fate-sharing image pair -/
def frameExempt : List String := ["stitch_node", "image_ref", "image_type"]

/-- per kind: every rebuilt property outside `frameExempt` starts as None in a fresh sliver of the kind and its to-row is
not an always-written one -/
def frameOK (T : KindTable) : Bool :=
  T.fromRows.all (fun f => frameExempt.contains f.key || (!(rowOf T f).always && freshOf T.kind f.key == none))

/-- over the complete generated tables (mapping rows and the probed fresh-sliver defaults of every sliver class) -/
theorem frame_ok : tables.all frameOK = true := by decide

section
variable {V P : Type}

theorem readRow_congr (C : Codecs V P) (p q : Props P) (f : FromRow) (h : q f.gprop = p f.gprop) :
    readRow C q f = readRow C p f := by
  unfold readRow decodeRow
  rw [h]

/-- the route of an operation on property `k` belongs to class `E` and names `k` -/
def RouteFor (E : ElemClass) (k : Key) : PropOp V → Prop
  | .set route _ => (match route with
      | .attr r => r ∈ E.routes ∧ r.prop = k ∧ r.onValue ≠ OnValue.none
      | _ => True)
  | .unset route => (match route with
      | .attrNone r => r ∈ E.routes ∧ r.prop = k ∧ r.onValue ≠ OnValue.none
      | _ => True)

/-- an admissible operation on another property `fk.key` of the element -/
def OtherOK (T : KindTable) (E : ElemClass) (fk : FromRow) (op : PropOp V) : Prop :=
  fk ∈ T.fromRows ∧ fk.key ∉ pairKeys ∧ RouteFor E fk.key op ∧
  (match op with | .unset _ => fk.key ∉ unsetExempt ∧ fk.gprop ∉ noUnset | .set _ _ => True)

/-- distinct single-row properties live in distinct graph properties -/
theorem gprop_ne_of_key_ne {T : KindTable} (hR : rowsOK T = true) (f fk : FromRow) (hf : f ∈ T.fromRows) (hfk : fk ∈ T.fromRows)
    (hp : f.key ∉ pairKeys) (hpk : fk.key ∉ pairKeys) (hne : fk.key ≠ f.key) : fk.gprop ≠ f.gprop := by
  intro e
  obtain ⟨_, hk1, _⟩ := rowsOK_single hR f hf hp
  obtain ⟨_, hk2, _⟩ := rowsOK_single hR fk hfk hpk
  have : rowOf T fk = rowOf T f := by unfold rowOf; rw [e]
  rw [this, hk1] at hk2
  exact hne (List.cons.inj hk2).1.symm

/-- **frame, one step**: an operation on property `fk.key` - a write or an unset, through any route - leaves the graph
property of every OTHER property `f.key` as it was, provided a fresh sliver holds nothing for `f.key` and its row is not
an always-written one (`frameOK`) -/
theorem step_leaves_other_property (C : Codecs V P) (T : KindTable) (hT : T ∈ tables) (E : ElemClass) (hE : E ∈ elemClasses)
    (f : FromRow) (hf : f ∈ T.fromRows) (hp : f.key ∉ pairKeys) (wn : String → V) (fresh : Fields V)
    (hfresh : fresh f.key = none) (hal : (rowOf T f).always = false)
    (fk : FromRow) (op : PropOp V) (hok : OtherOK T E fk op) (hne : fk.key ≠ f.key)
    (p p' : Props P) (h : stepOp C T E wn fresh fk.key p op = .ok p') : p' f.gprop = p f.gprop := by
  have hTok : tableOK T = true := List.all_eq_true.mp tables_ok T hT
  have hRok : rowsOK T = true := List.all_eq_true.mp rows_ok T hT
  have hEok : classOK E = true := List.all_eq_true.mp routes_ok E hE
  obtain ⟨hfk, hpk, hroute, hun⟩ := hok
  obtain ⟨hr, hk, hg⟩ := rowsOK_single hRok f hf hp
  cases op with
  | set route v =>
    have hw : route.Writes E fk.key := by
      cases route with
      | setProperty => trivial
      | setProperties => trivial
      | attr r =>
        obtain ⟨hr', hrk, hrv⟩ := hroute
        have := classOK_writes hEok r hr' hrv (by rw [hrk]; exact hpk)
        rw [hrk] at this
        exact this
    simp only [stepOp] at h
    rw [setVia_eq C T E wn fresh p fk.key v route hw] at h
    cases h
    rw [hg]
    apply set_frame
    rw [toProps_mem C T _ (rowOf T f) (tableOK_nodup_g hTok) hr]
    unfold rowOut
    have hv : rowVals (fresh.set fk.key (some v)) (rowOf T f).keys = none := by
      rw [hk]
      unfold rowVals
      have : (fresh.set fk.key (some v)) f.key = none := by
        unfold Fields.set
        rw [if_neg (fun e => hne e.symm)]
        exact hfresh
      simp [List.mapM_cons, this]
    rw [hv, hal]
    rfl
  | unset route =>
    obtain ⟨hx, hid⟩ := hun
    have hu : route.Unsets E fk.key := by
      cases route with
      | unsetProperty => trivial
      | setPropertyNone =>
        have := hEok
        simp only [classOK, Bool.and_eq_true] at this
        exact this.1.1.1
      | attrNone r =>
        obtain ⟨hr', hrk, hrv⟩ := hroute
        have := classOK_unsets hEok r hr' hrv (by rw [hrk]; exact hx)
        rw [hrk] at this
        exact this
    simp only [stepOp] at h
    rw [unsetVia_eq C T E wn fresh p fk.key route hu] at h
    obtain ⟨_, _, hmap⟩ := rowsOK_unset hRok fk hfk hx hid
    apply unset_frame p p' fk.key f.gprop h
    rw [hmap]
    intro e
    exact gprop_ne_of_key_ne hRok f fk hf hfk hp hpk hne (Option.some.inj e)

/-- a history over several properties of one element: (property, operation) pairs -/
def runKeys (C : Codecs V P) (T : KindTable) (E : ElemClass) (wn : String → V) (fresh : Fields V) :
    List (FromRow × PropOp V) → Props P → Except Err (Props P)
  | [], p => .ok p
  | kop :: rest, p =>
    match stepOp C T E wn fresh kop.1.key p kop.2 with
    | .ok p' => runKeys C T E wn fresh rest p'
    | .error e => .error e

theorem runKeys_append (C : Codecs V P) (T : KindTable) (E : ElemClass) (wn : String → V) (fresh : Fields V)
    (a b : List (FromRow × PropOp V)) (p p' : Props P) (h : runKeys C T E wn fresh (a ++ b) p = .ok p') :
    ∃ q, runKeys C T E wn fresh a p = .ok q ∧ runKeys C T E wn fresh b q = .ok p' := by
  induction a generalizing p with
  | nil => exact ⟨p, rfl, h⟩
  | cons o os ih =>
    simp only [List.cons_append, runKeys] at h ⊢
    cases hq : stepOp C T E wn fresh o.1.key p o.2 with
    | error e => rw [hq] at h; cases h
    | ok q =>
      rw [hq] at h
      exact ih q h

/-- **frame, all histories**: whatever is done to OTHER properties of the element - any number of writes and unsets,
through any routes - the graph property of `f.key` stays as it was -/
theorem other_properties_leave_property (C : Codecs V P) (T : KindTable) (hT : T ∈ tables) (E : ElemClass) (hE : E ∈ elemClasses)
    (f : FromRow) (hf : f ∈ T.fromRows) (hp : f.key ∉ pairKeys) (wn : String → V) (fresh : Fields V)
    (hfresh : fresh f.key = none) (hal : (rowOf T f).always = false)
    (kops : List (FromRow × PropOp V)) (hok : ∀ kop ∈ kops, OtherOK T E kop.1 kop.2 ∧ kop.1.key ≠ f.key)
    (p p' : Props P) (h : runKeys C T E wn fresh kops p = .ok p') : p' f.gprop = p f.gprop := by
  induction kops generalizing p with
  | nil => simp only [runKeys] at h; cases h; rfl
  | cons o os ih =>
    simp only [runKeys] at h
    cases hq : stepOp C T E wn fresh o.1.key p o.2 with
    | error e => rw [hq] at h; cases h
    | ok q =>
      rw [hq] at h
      have h1 := ih (fun kop hm => hok kop (List.mem_cons_of_mem _ hm)) q h
      have ho := hok o List.mem_cons_self
      rw [h1]
      exact step_leaves_other_property C T hT E hE f hf hp wn fresh hfresh hal o.1 o.2 ho.1 ho.2 p q hq

/-- **the last operation ON THAT PROPERTY decides, over all histories over several properties**: set `layer`, then set
`details`, `labels`, `user_data`, unset `details`, ...: `layer` still reads what its own last operation made it -/
theorem history_last_op_on_property_decides (C : Codecs V P) (T : KindTable) (hT : T ∈ tables) (E : ElemClass)
    (hE : E ∈ elemClasses) (f : FromRow) (hf : f ∈ T.fromRows) (hp : f.key ∉ pairKeys) (hx : f.key ∉ unsetExempt)
    (hid : f.gprop ∉ noUnset) (wn : String → V) (fresh : Fields V)
    (hfresh : fresh f.key = none) (hal : (rowOf T f).always = false)
    (before : List (FromRow × PropOp V)) (op : PropOp V) (hop : OpOK C T E f op)
    (after : List (FromRow × PropOp V)) (hok : ∀ kop ∈ after, OtherOK T E kop.1 kop.2 ∧ kop.1.key ≠ f.key)
    (p p' : Props P) (h : runKeys C T E wn fresh (before ++ (f, op) :: after) p = .ok p') :
    readRow C p' f = .ok (match op with | .set _ v => some v | .unset _ => none) := by
  obtain ⟨q, _, h2⟩ := runKeys_append C T E wn fresh before ((f, op) :: after) p p' h
  simp only [runKeys] at h2
  cases hq : stepOp C T E wn fresh f.key q op with
  | error e => rw [hq] at h2; cases h2
  | ok q2 =>
    rw [hq] at h2
    have hfr := other_properties_leave_property C T hT E hE f hf hp wn fresh hfresh hal after hok q2 p' h2
    rw [readRow_congr C q2 p' f hfr]
    have h1 : runHistory C T E wn fresh f.key ([] ++ [op]) q = .ok q2 := by
      simp only [List.nil_append, runHistory, hq]
    have h3 := history_last_op_decides C T hT E hE f hf hp hx hid wn fresh [] op hop q q2 h1
    cases op <;> exact h3

end

/-- the two `frameOK` hypotheses of the frame theorems hold on the generated tables for the probed fresh sliver of the
kind, for every rebuilt property outside `frameExempt` -/
theorem frame_hyps_of_tables (T : KindTable) (hT : T ∈ tables) (f : FromRow) (hf : f ∈ T.fromRows) (hx : f.key ∉ frameExempt) :
    freshOf T.kind f.key = none ∧ (rowOf T f).always = false := by
  have h := List.all_eq_true.mp (List.all_eq_true.mp frame_ok T hT) f hf
  simp only [Bool.or_eq_true, List.contains_iff_mem, Bool.and_eq_true, Bool.not_eq_true', beq_iff_eq] at h
  rcases h with h | h
  · exact absurd h hx
  · exact ⟨h.2, h.1⟩

/-- ... so on the driver's model (`concrete`, the probed `freshOf`) the frame holds for every kind, element class and
property outside `frameExempt`, with no hypothesis left on the fresh sliver -/
theorem other_properties_leave_property_repo (T : KindTable) (hT : T ∈ tables) (E : ElemClass) (hE : E ∈ elemClasses)
    (f : FromRow) (hf : f ∈ T.fromRows) (hx : f.key ∉ frameExempt) (wn : String → Val)
    (kops : List (FromRow × PropOp Val)) (hok : ∀ kop ∈ kops, OtherOK T E kop.1 kop.2 ∧ kop.1.key ≠ f.key)
    (p p' : Props String) (h : runKeys concrete T E wn (freshOf T.kind) kops p = .ok p') : p' f.gprop = p f.gprop := by
  obtain ⟨h1, h2⟩ := frame_hyps_of_tables T hT f hf hx
  have hp : f.key ∉ pairKeys := fun hm => hx (by
    simp only [pairKeys, List.mem_cons, List.not_mem_nil, or_false] at hm
    simp only [frameExempt, List.mem_cons, List.not_mem_nil, or_false]
    exact Or.inr hm)
  exact other_properties_leave_property concrete T hT E hE f hf hp wn (freshOf T.kind) h1 h2 kops hok p p' h

/-- the exemption is needed for the code as it is: a node with `StitchNode = "true"` whose `details` is set holds
`StitchNode = "false"` afterwards (known finding `C02:frame:stitch_node:reset-to-default:by=set`, replayed on the
implementation by corpus/C02/known_elem_stitch_reset.json) -/
theorem frame_stitch_counterexample :
    (setProperty concrete nodeTable (freshOf "node") ((Props.empty : Props String).set "StitchNode" "true") "details" (.str "d"))
      "StitchNode" = some "false" := by decide

/-- non-vacuity: `layer` of a link set to L1, then `details` written and unset, `labels` left alone: admissible, runs to its end -/
def layerFrom : FromRow := (linkTable.fromRows.find? (fun f => f.key == "layer")).getD default
def detailsFrom : FromRow := (linkTable.fromRows.find? (fun f => f.key == "details")).getD default
example : layerFrom ∈ linkTable.fromRows ∧ layerFrom.key ∉ frameExempt ∧ detailsFrom ∈ linkTable.fromRows ∧
    detailsFrom.key ≠ layerFrom.key ∧ detailsFrom.key ∉ pairKeys ∧ detailsFrom.key ∉ unsetExempt ∧ detailsFrom.gprop ∉ noUnset := by decide
example : (runKeys concrete linkTable elemLink (fun c => Val.jdata c "{}") (freshOf "link")
    [(layerFrom, .set .setProperty (.enum "NSLayer" "L1")), (detailsFrom, .set .setProperties (.str "leased")),
     (detailsFrom, .unset .unsetProperty)] Props.empty).toOption.map (fun p => p "Layer") = some (some "L1") := by decide

end FimVerif.C02
