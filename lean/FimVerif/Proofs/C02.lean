import FimVerif.Proofs.Lemmas.C02Props
import FimVerif.Proofs.Lemmas.C02Tree
import FimVerif.Proofs.Lemmas.C02Check
/-!
# C02 — sliver ↔ graph / dictionary / JSON conversion preserves every settable field

Full statement (properties.jsonl): every sliver, with any combination of its settable properties and any nesting
of children, comes back from the model graph / deep dictionary / JSON form with the same structure and the same
value for every settable property; on a model element `get p (set p v) = v` and `get p (unset p)` is absent.

What is proved here, for *every* `Codecs V P` (value model) and every table passing `tableOK`:
* `tables_ok`            – the tables regenerated from the source pass the structural check (decide);
* `props_roundtrip_partial` – flat dictionary round trip, guarded by `FateShared` (the code writes `ImageRef` only when
  both `image_ref` and `image_type` are set — known finding) together with the explicit codec hypothesis `FieldLaw`;
* `props_roundtrip_counterexample` – the unguarded statement fails (`image_ref` alone is lost);
* `set_get`, `set_frame`, `unset_get`, `unset_identity_rejected`, `unset_frame`, `unset_table_ok_partial`,
  `unset_counterexample` – model elements.
* `dict_roundtrip_partial` – deep dictionary / JSON round trip by structural induction over the sliver tree;
* `image_join_split`, `image_type_comma_counterexample` – the `ImageRef` text format;
* `graph_roundtrip_leaf_partial` – model-graph round trip of a childless sliver (trees with children through the graph:
  differential only).
-/
namespace FimVerif.C02
open FimVerif.Sliver FimVerif.Gen.SliverMap

/-- The generated tables of all five kinds pass the structural check: distinct graph properties per to-table,
distinct setter names per from-table, every from-row reads a property written from the same attribute with the
inverse codec and yields `None` for an absent property (unless the row is always written), every attribute a
to-row reads is rebuilt from the same property, every name of `list_properties()` is rebuilt (or is containment). -/
theorem tables_ok : tables.all tableOK = true := by decide

section
variable {V P : Type}

theorem tableOK_nodup_g {T : KindTable} (h : tableOK T = true) : (T.toRows.map (·.gprop)).Nodup := by
  simp only [tableOK, Bool.and_eq_true, decide_eq_true_eq] at h
  exact h.1.1.1.1.1.1

theorem tableOK_nodup_k {T : KindTable} (h : tableOK T = true) : (T.fromRows.map (·.key)).Nodup := by
  simp only [tableOK, Bool.and_eq_true, decide_eq_true_eq] at h
  exact h.1.1.1.1.1.2

theorem tableOK_pair {T : KindTable} (h : tableOK T = true) (f : FromRow) (hf : f ∈ T.fromRows) :
    ∃ r ∈ T.toRows, r.gprop = f.gprop ∧ f.key ∈ r.keys ∧ (f.absent = Absent.none ∨ r.always = true) := by
  simp only [tableOK, Bool.and_eq_true, List.all_eq_true, List.any_eq_true] at h
  obtain ⟨r, hr, hp⟩ := h.1.1.1.1.2 f hf
  simp only [pairs, Bool.and_eq_true, Bool.or_eq_true, beq_iff_eq, List.contains_iff_mem] at hp
  exact ⟨r, hr, hp.1.1.1, hp.1.1.2, hp.2⟩

theorem readRow_some (C : Codecs V P) (p : Props P) (f : FromRow) (x : P) (h : p f.gprop = some x) :
    readRow C p f = readVal C f x := by
  unfold readRow decodeRow readVal
  rw [h]
  rfl

theorem readRow_none (C : Codecs V P) (p : Props P) (f : FromRow) (h : p f.gprop = none) (ha : f.absent = Absent.none) :
    readRow C p f = setRow C f none := by
  unfold readRow decodeRow
  rw [h, ha]

/-- every from-row reads back the field it belongs to -/
theorem readRow_toProps (C : Codecs V P) (T : KindTable) (s : Fields V) (hT : tableOK T = true)
    (hlaw : FieldLaw C T s) (hfate : FateShared T s) (hreq : Required T s) (f : FromRow) (hf : f ∈ T.fromRows) :
    readRow C (toProps C T s) f = .ok (s f.key) := by
  obtain ⟨r, hr, hgp, hkey, habs⟩ := tableOK_pair hT f hf
  have hval := toProps_mem C T s r (tableOK_nodup_g hT) hr
  rw [hgp] at hval
  have hl := hlaw r hr f hf hgp.symm
  unfold rowOut at hval
  cases hv : rowVals s r.keys with
  | some vs =>
    rw [hv] at hval hl
    rw [readRow_some C _ f _ hval]
    exact hl
  | none =>
    rw [hv] at hval hl
    cases hal : r.always with
    | true =>
      rw [hal] at hval
      rw [readRow_some C _ f _ hval]
      exact hl hal
    | false =>
      rw [hal] at hval
      have ha : f.absent = Absent.none := by
        rcases habs with h | h
        · exact h
        · rw [hal] at h; cases h
      rw [readRow_none C _ f hval ha, hfate r hr hv hal f.key hkey]
      unfold setRow
      cases hn : f.noneOk with
      | true => rfl
      | false => exact absurd hv (hreq f hf hn r hr hgp)

/--
**Flat round trip** (`<kind>_sliver_from_graph_properties_dict ∘ <kind>_sliver_to_graph_properties_dict`): for every
value model, every table passing the check, and every field assignment satisfying the codec law, the rebuilt sliver
has exactly the original value in every property the class can set.

`_partial`: the full statement has no `FateShared` hypothesis; it is false for the code as it is
(`props_roundtrip_counterexample`; known findings `C02:roundtrip:all-paths:node:image_ref:lost`, `…image_type:lost`).
-/
theorem props_roundtrip_partial (C : Codecs V P) (T : KindTable) (s : Fields V) (hT : tableOK T = true)
    (hlaw : FieldLaw C T s) (hfate : FateShared T s) (hreq : Required T s) :
    fromProps C T (toProps C T s) = .ok (restrict T s) := by
  obtain ⟨s', hs', hkeys, hframe⟩ := fromRowsGo_spec C (toProps C T s) s T.fromRows Fields.empty (tableOK_nodup_k hT)
    (fun f hf => readRow_toProps C T s hT hlaw hfate hreq f hf)
  unfold fromProps
  rw [hs']
  congr 1
  funext k
  unfold restrict
  by_cases hk : k ∈ T.fromRows.map (·.key)
  · rw [if_pos hk]
    obtain ⟨f, hf, rfl⟩ := List.mem_map.mp hk
    exact hkeys f hf
  · rw [if_neg hk, hframe k hk]
    rfl

/-- every settable property (other than containment) is among the rebuilt ones, so `restrict` hides nothing settable -/
theorem settable_rebuilt {T : KindTable} (hT : tableOK T = true) (k : String) (hk : k ∈ T.settable)
    (hs : k ∉ structuralKeys) (s : Fields V) : restrict T s k = s k := by
  simp only [tableOK, Bool.and_eq_true, List.all_eq_true, List.any_eq_true] at hT
  have h := hT.1.1.2 k hk
  simp only [Bool.or_eq_true, List.contains_iff_mem, List.any_eq_true, beq_iff_eq] at h
  rcases h with h | ⟨f, hf, he⟩
  · exact absurd h hs
  · unfold restrict
    rw [if_pos]
    exact List.mem_map.mpr ⟨f, hf, he⟩

end

/-! ### non-vacuity and the counterexample, on the driver's value model -/

/-- a service sliver with a name, a type, a site and a layer -/
def exampleService : Fields Val :=
  (((freshFields.set "name" (some (.str "svc1"))).set "type" (some (.enum "ServiceType" "L2Bridge"))).set
    "site" (some (.str "RENC"))).set "layer" (some (.enum "NSLayer" "L2"))

theorem rowVals_single (s : Fields Val) (k : String) : rowVals s [k] = (s k).map (fun v => [v]) := by
  unfold rowVals
  cases h : s k <;> simp [List.mapM_cons, h]

/-- the image row of the node table -/
def imageRow : ToRow :=
  { keys := ["image_ref", "image_type"], attrs := ["image_ref", "image_type"], gprop := "ImageRef", enc := Enc.commaJoin, always := false }
def imageRefFrom : FromRow :=
  (nodeTable.fromRows.find? (fun f => f.key == "image_ref")).getD default

/-- a node sliver with a name and an image reference but no image type -/
def imageRefOnly : Fields Val :=
  (freshFields.set "name" (some (.str "node1"))).set "image_ref" (some (.str "default_ubuntu_20"))

/--
The unguarded statement is false for the code as it is: a node sliver whose `image_ref` is set while `image_type`
is not comes back with `image_ref = None` (replayed on the implementation by corpus/C02/known_image_ref_without_type.json).
-/
theorem props_roundtrip_counterexample :
    imageRefOnly "image_ref" ≠ none ∧
    ∀ s', fromProps concrete nodeTable (toProps concrete nodeTable imageRefOnly) = .ok s' → s' "image_ref" = none := by
  refine ⟨by simp [imageRefOnly, Fields.set], ?_⟩
  intro s' h
  have hT : tableOK nodeTable = true := by decide
  have hr : imageRow ∈ nodeTable.toRows := by decide
  have hf : imageRefFrom ∈ nodeTable.fromRows := by decide
  have hread := fromRowsGo_ok concrete _ nodeTable.fromRows Fields.empty s' (tableOK_nodup_k hT) h imageRefFrom hf
  have hval := toProps_mem concrete nodeTable imageRefOnly imageRow (tableOK_nodup_g hT) hr
  have hv : rowVals imageRefOnly imageRow.keys = none := by
    simp [rowVals, imageRow, imageRefOnly, Fields.set, freshFields, Fields.empty, List.mapM_cons]
  unfold rowOut at hval
  rw [hv] at hval
  have hg : imageRefFrom.gprop = imageRow.gprop := by decide
  have hval' : toProps concrete nodeTable imageRefOnly imageRefFrom.gprop = none := by rw [hg]; exact hval
  rw [readRow_none concrete _ imageRefFrom hval' (by decide)] at hread
  have hk : imageRefFrom.key = "image_ref" := by decide
  have hn : imageRefFrom.noneOk = true := by decide
  unfold setRow at hread
  rw [hn] at hread
  rw [← hk]
  injection hread with h1
  exact h1.symm

/-! ### model elements -/

section
variable {V P : Type}

/--
**set then get**: after `set_property(k, v)` the from-row of `k` reads `v` back from the node, whatever the node held
before, for every property written by a single-attribute row (all but `image_ref` / `image_type`) whose value obeys
the codec law; hence `get_property(k)` returns `v` whenever the node is readable at all.
-/
theorem set_get (C : Codecs V P) (T : KindTable) (hT : tableOK T = true) (fresh : Fields V) (p : Props P)
    (r : ToRow) (hr : r ∈ T.toRows) (f : FromRow) (hf : f ∈ T.fromRows) (k : String) (v : V)
    (hk : r.keys = [k]) (hfk : f.key = k) (hg : f.gprop = r.gprop)
    (hlaw : readVal C f (C.enc r.enc [v]) = .ok (some v)) :
    readRow C (setProperty C T fresh p k v) f = .ok (some v) ∧
    (∀ s', fromProps C T (setProperty C T fresh p k v) = .ok s' →
      getProperty C T (setProperty C T fresh p k v) k = .ok (some v)) := by
  have hval := toProps_mem C T (fresh.set k (some v)) r (tableOK_nodup_g hT) hr
  have hv : rowVals (fresh.set k (some v)) r.keys = some [v] := by
    rw [hk]; simp [rowVals, Fields.set, List.mapM_cons]
  unfold rowOut at hval
  rw [hv] at hval
  have hp : (setProperty C T fresh p k v) f.gprop = some (C.enc r.enc [v]) := by
    unfold setProperty Props.update
    rw [hg, hval]
  have h1 : readRow C (setProperty C T fresh p k v) f = .ok (some v) := by
    rw [readRow_some C _ f _ hp]; exact hlaw
  refine ⟨h1, ?_⟩
  intro s' hs'
  have := fromRowsGo_ok C _ T.fromRows Fields.empty s' (tableOK_nodup_k hT) hs' f hf
  unfold getProperty
  rw [hs']
  rw [h1] at this
  injection this with h2
  simp only [← hfk, h2]

/-- `set_property` touches only the properties the fresh sliver writes: the one of `k` and the always-written ones
(the latter is the `StitchNode := false` rewrite noted in the design, outside C02's letter). -/
theorem set_frame (C : Codecs V P) (T : KindTable) (fresh : Fields V) (p : Props P) (k : String) (v : V) (g : String)
    (hg : toProps C T (fresh.set k (some v)) g = none) : (setProperty C T fresh p k v) g = p g := by
  unfold setProperty Props.update
  rw [hg]

/--
**unset then get**: a successful `unset_property(k)` removed the graph property the from-row of `k` reads, so that
row reads absent (`None`).
-/
theorem unset_get (C : Codecs V P) (p p' : Props P) (k : String) (f : FromRow)
    (hmap : mapUnset k = some f.gprop) (habs : f.absent = Absent.none) (hn : f.noneOk = true)
    (h : unsetProperty p k = .ok p') : readRow C p' f = .ok none := by
  unfold unsetProperty at h
  rw [hmap] at h
  simp only at h
  split at h
  · cases h
  · split at h
    · cases h
      rw [readRow_none C _ f (by simp [Props.erase]) habs]
      simp [setRow, hn]
    · cases h

/-- unsetting an identity property (`NO_UNSET_PROPERTIES`) is rejected; the store is not touched (no new state) -/
theorem unset_identity_rejected (p : Props P) (k g : String) (hmap : mapUnset k = some g) (hid : g ∈ noUnset) :
    unsetProperty p k = .error "query" := by
  unfold unsetProperty
  rw [hmap]
  simp only
  rw [if_pos]
  simpa using hid

/-- `unset_property` leaves every other graph property alone -/
theorem unset_frame (p p' : Props P) (k g : String) (h : unsetProperty p k = .ok p') (hg : mapUnset k ≠ some g) :
    p' g = p g := by
  unfold unsetProperty at h
  cases hm : mapUnset k with
  | none => rw [hm] at h; cases h; rfl
  | some g' =>
    rw [hm] at h hg
    simp only at h
    split at h
    · cases h
    · split at h
      · cases h
        have : g ≠ g' := fun e => hg (by rw [e])
        simp [Props.erase, this]
      · cases h

end

/-- names whose unset is *not* routed to their own graph property by `SLIVER_PROPERTY_TO_GRAPH` (known findings
`C02:unset_get:stitch_node:still-set`; `image_type` shares `ImageRef` with `image_ref` and is unset through it) -/
def unsetExempt : List String := ["image_type", "stitch_node"]

/-- the unset table sends every other rebuilt property name to the graph property its from-row reads, and every
entry of the table that names a property of a kind points at that kind's graph property -/
def unsetOK (T : KindTable) : Bool :=
  T.fromRows.all (fun f => unsetExempt.contains f.key || mapUnset f.key == some f.gprop) &&
  unsetMap.all (fun e => T.fromRows.all (fun f => f.key != e.1 || f.gprop == e.2))

/-- `_partial`: the full statement has no exemptions; see `unset_counterexample`. -/
theorem unset_table_ok_partial : tables.all unsetOK = true := by decide

/-- `unset_property('stitch_node')` is a silent no-op on every kind: the name is not in the table
(corpus/C02/known_elem_image_and_stitch.json replays it on the implementation). -/
theorem unset_counterexample : ∀ p : Props String, unsetProperty p "stitch_node" = .ok p := by
  intro p
  have : mapUnset "stitch_node" = none := by decide
  unfold unsetProperty
  rw [this]

/-! ### non-vacuity of the hypotheses -/

example : tableOK serviceTable = true := by decide
example : unsetOK nodeTable = true := by decide
/-- `set_get`'s hypotheses hold for `site := "RENC"` on a service -/
example : readVal concrete { key := "site", gprop := "Site", dec := Dec.ident, arg := "", absent := Absent.none, norm := Norm.ident, noneOk := true }
    (concrete.enc Enc.ident [Val.str "RENC"]) = .ok (some (Val.str "RENC")) := rfl
/-- `unset_get`'s hypotheses hold for `site` -/
example : mapUnset "site" = some "Site" := by decide
example : unsetProperty (Props.empty.set "Site" "RENC") "site" = .ok ((Props.empty.set "Site" "RENC").erase "Site") := by
  unfold unsetProperty
  have : mapUnset "site" = some "Site" := by decide
  rw [this]
  simp [noUnset, Props.set]
example : unsetProperty (Props.empty : Props String) "name" = .error "query" :=
  unset_identity_rejected _ "name" "Name" (by decide) (by decide)


/-! ### deep dictionary (and JSON) round trip, by structural induction over the sliver tree -/

section
variable {V P : Type} [DecidableEq V]

mutual
theorem dict_roundtrip_aux (C : Codecs V P) : ∀ (s : Sliver V), WF C s → fromDict C s.kind (toDict C s) = .ok (normalize s)
  | .mk k i f ks, h => by
    simp only [WF] at h
    obtain ⟨hT, hlaw, hfate, hreq, hkids, hnd⟩ := h
    have hp := props_roundtrip_partial C (tableOf k) f hT hlaw hfate hreq
    have hk := dict_kids_aux C k ks hkids
    simp only [toDict, Sliver.kind, fromDict, hp, hk, normalize]
    rw [dedupe_nodup]
    rw [normalizeKids_keys C k ks hkids]
    exact hnd
theorem dict_kids_aux (C : Codecs V P) (parent : Kind) : ∀ (ks : List (Sliver V)), WFKids C parent ks →
    fromDictKids C parent (toDictKids C parent ks) = .ok (normalizeKids ks)
  | [], _ => by simp [toDictKids, fromDictKids, normalizeKids]
  | c :: cs, h => by
    simp only [WFKids] at h
    obtain ⟨hslot, hok, hc, hcs⟩ := h
    obtain ⟨slot, hs⟩ := Option.isSome_iff_exists.mp hslot
    have h1 := dict_roundtrip_aux C c hc
    have h2 := dict_kids_aux C parent cs hcs
    have hck := childKind_slotOf parent c.kind slot hs
    have hok' : childOk (normalize c) = true := by rw [normalize_childOk C c hc]; exact hok
    simp only [toDictKids, hs, fromDictKids, hck, h1, h2, hok', normalizeKids, if_true]
end

/--
**Deep dictionary round trip** (`build_deep_<kind>_sliver_from_dict ∘ sliver_to_dict`, which is also the JSONSliver
path up to `json.loads ∘ json.dumps` on string-valued dictionaries): for every well-formed sliver tree of any depth
and width the rebuilt tree has the same kind, the same value in every rebuilt property and the same children in the
same order, recursively.  It carries no node id (`sliver_to_dict` does not emit `NodeID`; the id is not settable).
`_partial` only through `WF`'s `FateShared` conjunct (see `props_roundtrip_partial`).
-/
theorem dict_roundtrip_partial (C : Codecs V P) (s : Sliver V) (h : WF C s) :
    fromDict C s.kind (toDict C s) = .ok (normalize s) := dict_roundtrip_aux C s h

end

/-! ### non-vacuity: concrete well-formed trees in the driver's value model (hypotheses evaluated, not assumed) -/

def exIface (n : String) : Sliver Val :=
  .mk "interface" (some ("id-" ++ n))
    ((freshFields.set "name" (some (.str n))).set "type" (some (.enum "InterfaceType" "TrunkPort"))) []
def exService : Sliver Val :=
  .mk "service" (some "id-s")
    ((((freshFields.set "name" (some (.str "svc1"))).set "type" (some (.enum "ServiceType" "L2Bridge"))).set
      "site" (some (.str "RENC"))).set "labels" (some (.obj "Labels" "{\"vlan\": \"100\"}")))
    [exIface "p1", exIface "p2"]
/-- node ⊃ component ⊃ service ⊃ two interfaces, with the `image_ref`/`image_type` pair set -/
def exNode : Sliver Val :=
  .mk "node" (some "id-n")
    ((((freshFields.set "name" (some (.str "node1"))).set "type" (some (.enum "NodeType" "VM"))).set
      "image_ref" (some (.str "img"))).set "image_type" (some (.str "qcow2")))
    [.mk "component" (some "id-c")
      ((freshFields.set "name" (some (.str "nic1"))).set "type" (some (.enum "ComponentType" "SmartNIC"))) [exService]]

example : WF concrete exService := wfB_sound concrete exService (by decide)
example : WF concrete exNode := wfB_sound concrete exNode (by decide)
/-- the hypotheses of `props_roundtrip_partial` hold for the node's own fields -/
example : FieldLaw concrete nodeTable exNode.fields ∧ FateShared nodeTable exNode.fields ∧ Required nodeTable exNode.fields :=
  ⟨fieldLawB_sound _ _ _ (by decide), fateSharedB_sound _ _ (by decide), requiredB_sound _ _ (by decide)⟩

/-! ### the `ImageRef` text format on the driver's value model -/

/--
`image_ref + ',' + image_type` split at the last comma gives both parts back for **every** image reference (commas
included) and every image type without a comma — the codec law of the two-attribute row.
-/
theorem image_join_split (a b : String) (hb : ',' ∉ b.toList) :
    concrete.dec Dec.commaRSplit "0" (concrete.enc Enc.commaJoin [Val.str a, Val.str b]) = .ok (some (Val.str a)) ∧
    concrete.dec Dec.commaRSplit "1" (concrete.enc Enc.commaJoin [Val.str a, Val.str b]) = .ok (some (Val.str b)) := by
  have h := rsplitComma_join a b hb
  constructor <;> simp [concrete, valText, h]

/-- an image type containing a comma does not survive (known findings `…:image_type-comma`;
corpus/C02/known_image_type_comma.json) -/
theorem image_type_comma_counterexample :
    concrete.dec Dec.commaRSplit "1" (concrete.enc Enc.commaJoin [Val.str "img", Val.str "qcow2,raw"]) = .ok (some (Val.str "raw")) := by
  decide

/-! ### model-graph path -/

section
variable {V P : Type} [DecidableEq V]

theorem neighbors_no_edges (nodes : List (GNode P)) (id rel cls : String) :
    neighbors (⟨nodes, []⟩ : AGraph P) id rel cls = [] := by
  simp [neighbors]

theorem foldl_fixed {α β : Type} (F : Except Err α → β → Except Err α) (h : ∀ sc acc, F (.ok acc) sc = .ok acc)
    (slots : List β) (acc : α) : slots.foldl F (.ok acc) = .ok acc := by
  induction slots with
  | nil => rfl
  | cons sc rest ih => rw [List.foldl_cons, h]; exact ih

/--
**Graph round trip of a childless sliver** of any kind but `component` (which needs a parent): written into an empty
model graph with `add_*_sliver` and rebuilt with `build_deep_*_sliver`, it comes back with its node id and every
rebuilt property.  (Trees with children through the graph are covered by the differential run only.)
-/
theorem graph_roundtrip_leaf_partial (C : Codecs V P) (k : Kind) (id : String) (f : Fields V)
    (hk : k ≠ "component")
    (hT : tableOK (tableOf k) = true) (hlaw : FieldLaw C (tableOf k) f) (hfate : FateShared (tableOf k) f)
    (hreq : Required (tableOf k) f) :
    graphRoundtrip (P := P) C (.mk k (some id) f []) = .ok (.mk k (some id) (restrict (tableOf k) f) []) := by
  have hp := props_roundtrip_partial C (tableOf k) f hT hlaw hfate hreq
  unfold graphRoundtrip
  simp only [Sliver.kind, hk, if_false, addSliver, addNode, AGraph.empty, List.any_nil, Bool.false_eq_true, addKids,
    List.nil_append, Sliver.nodeId, Option.getD_some, List.length_cons, List.length_nil]
  simp only [buildDeep, findNode, List.filter_cons, beq_self_eq_true, if_true, List.filter_nil, bne_self_eq_false,
    Bool.false_and, hp]
  by_cases hi : (k == "interface") = true
  · simp only [hi, if_true]
    by_cases hd : ((restrict (tableOf k) f) "type").any C.isDedicated = true
    · simp [hd, neighbors_no_edges, dedupe, pure, Except.pure]
    · simp [hd]
  · simp only [hi]
    rw [foldl_fixed _ (by intro sc acc; simp [neighbors_no_edges, pure, Except.pure])]
    simp [dedupe]

end

/-- non-vacuity: the hypotheses hold for a link-free leaf, e.g. the interface `p1` of the examples above -/
example : graphRoundtrip (P := String) concrete (exIface "p1") =
    .ok (.mk "interface" (some "id-p1") (restrict (tableOf "interface") (exIface "p1").fields) []) :=
  graph_roundtrip_leaf_partial concrete "interface" "id-p1" _ (by decide) (by decide)
    (fieldLawB_sound _ _ _ (by decide)) (fateSharedB_sound _ _ (by decide)) (requiredB_sound _ _ (by decide))

end FimVerif.C02
