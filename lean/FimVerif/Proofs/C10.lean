import FimVerif.Proofs.Lemmas.C10Dec
/-!
# C10 — slice validation accepts a topology exactly when the constraint tables allow it

`Validate.validate` (Model/Validate.lean) mirrors `Topology.validate` check by check; the
declarative side (`SpecOK`, `SvcOK`, `NstypeOK`, `NodeOK`, `InstOK`, `SpecFull`, `recordedSite`)
is in `Proofs/Lemmas/C10.lean`.  The constraint table is a parameter of every theorem in the
first section; the second section is about the table regenerated from the source
(`Gen.Constraints`) and compares it with the copy pinned *here*, so that an edit of the table in
the source that is not repeated in this file fails the build.

Full statement of the property, kept visible:

    theorem validate_iff_specFull (t : Topo) : (validate genCfg t).1 = .ok () ↔ SpecFull genCfg t

It does not hold for the code as it is (known findings): `Topology.nodes` hides Facility nodes
from `validate`, and the forbidden node property `attached_components_info` has no getter.
Proved instead: the two `_counterexample`s, `validate_iff_specFull_partial` (the equivalence
whenever no hidden node type occurs and every node property is visible to the shallow sliver,
for every table) and `valid_accepted` (no valid slice is ever rejected — one direction in full).
-/
namespace FimVerif.C10
open FimVerif.Validate
open FimVerif.Gen.Constraints (SvcRow NodeRow)

/-! ## for every table -/

/-- `validate` succeeds exactly when the slice satisfies what the code enforces: the declarative
conjunction over the table `c` — every visible node meets its row, every service meets its row
(single-peer service ports, interface counts, owners, sites spanned, declared site, required and
forbidden properties, interface types), instances per site. -/
theorem validate_iff_spec (c : Cfg) (t : Topo) : (validate c t).1 = .ok () ↔ SpecOK c t :=
  validate_ok c t

/-- A successful validation changes nothing but the `site` of the services, and sets it to
`recordedSite` (characterised by the four lemmas below). -/
theorem site_recorded (c : Cfg) (t : Topo) (h : (validate c t).1 = .ok ()) :
    (validate c t).2 = { t with svcs := t.svcs.map (recordSite c) } :=
  validate_state c t h

/-- Failing or not, validation touches nothing but service sites. -/
theorem validate_touches_only_sites (c : Cfg) (t : Topo) :
    (validate c t).2.exp = t.exp ∧ (validate c t).2.nodes = t.nodes ∧
      (validate c t).2.svcs.map eraseSite = t.svcs.map eraseSite :=
  validate_frame c t

/-- Interfaces are counted by identity, not by name: relabelling the interfaces of the services with any
function `f` - also one that makes the names of two interfaces of one service coincide, as the derived
service-port names `<node>-<interface>` can - changes neither the verdict nor the recorded sites.
(`SpecOK` never mentions a name: `nifs`, the counts and the site set are taken over the list `s.ifs`.) -/
theorem validate_counts_by_identity (c : Cfg) (f : String → String) (t : Topo) :
    validate c (t.rename f) = ((validate c t).1, (validate c t).2.rename f) :=
  validate_rename c f t

/-- a declared site is kept -/
theorem recordedSite_declared (row : SvcRow) (s : Svc) (h : truthy s.site = true) :
    recordedSite row s = s.site := by
  simp [recordedSite, recordedSiteOf, h]

/-- a type without site limit never gets a site inferred -/
theorem recordedSite_unlimited (row : SvcRow) (s : Svc) (h : row.numSites = 0) :
    recordedSite row s = s.site := by
  simp [recordedSite, recordedSiteOf, h]

/-- a service of a site-limited type without declared site whose interfaces all sit in site `x` gets `x` -/
theorem recordedSite_inferred (row : SvcRow) (s : Svc) (x : String) (h0 : row.numSites ≠ 0)
    (hs : truthy s.site = false) (hne : nifs s ≠ []) (hall : ∀ i ∈ nifs s, i.owner = some x) :
    recordedSite row s = some x := by
  have hd : dedup ((nifs s).filterMap (·.owner)) = [x] := by
    apply (dedup_eq_singleton _ x).mpr
    constructor
    · cases hn : nifs s with
      | nil => exact absurd hn hne
      | cons i is =>
        have := hall i (by rw [hn]; simp)
        simp [this]
    · intro y hy
      obtain ⟨i, hi, hio⟩ := List.mem_filterMap.mp hy
      rw [hall i hi] at hio
      exact (Option.some.inj hio).symm
  simp [recordedSite, recordedSiteOf, h0, hs, hd]

/-- interfaces in two different sites: nothing is inferred -/
theorem recordedSite_multisite (row : SvcRow) (s : Svc) (i j : NIface) (x y : String)
    (hi : i ∈ nifs s) (hj : j ∈ nifs s) (hx : i.owner = some x) (hy : j.owner = some y) (hxy : x ≠ y) :
    recordedSite row s = s.site := by
  unfold recordedSite recordedSiteOf
  split
  · have hxm : x ∈ (nifs s).filterMap (·.owner) := List.mem_filterMap.mpr ⟨i, hi, hx⟩
    have hym : y ∈ (nifs s).filterMap (·.owner) := List.mem_filterMap.mpr ⟨j, hj, hy⟩
    split
    · rename_i z hz
      obtain ⟨_, hall⟩ := (dedup_eq_singleton _ z).mp hz
      exact absurd ((hall x hxm).trans (hall y hym).symm) hxy
    · rfl
  · rfl

/-- the site count used by `NstypeOK.maxSites` is the number of distinct owner sites -/
theorem siteCount_spec (xs : List String) : (dedup xs).Nodup ∧ ∀ y, y ∈ dedup xs ↔ y ∈ xs :=
  ⟨nodup_dedup xs, mem_dedup xs⟩

/-- The equivalence with the full specification, under the two guards that name the known gaps
(no node of a type hidden by `Topology.nodes`, and every node property readable from the shallow sliver)
and the two facts about services that hold for the shipped table and classes (`gen_service_properties_readable`,
`gen_no_falsy_values`): every property a service row names is readable, and no set value can be falsy. -/
theorem validate_iff_specFull_partial (c : Cfg) (t : Topo)
    (hvis : ∀ n ∈ t.nodes, n.ty ∉ c.nodesViewExcludes)
    (hsee : ∀ n ∈ t.nodes, ∀ p ∈ n.props, p ∈ c.nodeGetters ∧ p ∈ c.nodeShallow)
    (hread : ∀ kr ∈ c.svc, ∀ p ∈ kr.2.req ++ kr.2.forb, p ∈ c.svcGetters ∧ p ∈ c.svcShallow)
    (hh : ∀ s ∈ t.svcs, ∀ q ∈ s.hollow, q ∉ c.svcFalsyCapable) :
    (validate c t).1 = .ok () ↔ SpecFull c t := by
  rw [validate_iff_spec]
  have hsv := svcs_ok_iff_full c t hread hh
  have hs : ∀ n ∈ t.nodes, ∀ p, nodeSees c n p = true ↔ p ∈ n.props := by
    intro n hn p
    simp only [nodeSees, Bool.and_eq_true, List.contains_iff_mem]
    exact ⟨fun h => h.2.2, fun h => ⟨(hsee n hn p h).1, (hsee n hn p h).2, h⟩⟩
  constructor
  · intro h
    refine ⟨fun n hn => ?_, hsv.mp h.svcs, h.instances⟩
    obtain ⟨row, hl, hk⟩ := h.nodes n hn (hvis n hn)
    refine ⟨row, hl, fun p hp => (hs n hn p).mp (hk.required p hp), fun p hp hin => ?_⟩
    have := hk.forbidden p hp
    rw [(hs n hn p).mpr hin] at this; cases this
  · intro h
    refine ⟨fun n hn _ => ?_, hsv.mpr h.svcs, h.instances⟩
    obtain ⟨row, hl, hk⟩ := h.nodes n hn
    refine ⟨row, hl, fun p hp => (hs n hn p).mpr (hk.required p hp), fun p hp => ?_⟩
    cases hv : nodeSees c n p with
    | false => rfl
    | true => exact absurd ((hs n hn p).mp hv) (hk.forbidden p hp)

/-- No valid slice is rejected: if every required node property the table names is readable,
a slice that satisfies the full specification validates. -/
theorem valid_accepted_of (c : Cfg) (t : Topo)
    (hreq : ∀ kr ∈ c.node, ∀ p ∈ kr.2.req, p ∈ c.nodeGetters ∧ p ∈ c.nodeShallow)
    (hread : ∀ kr ∈ c.svc, ∀ p ∈ kr.2.req ++ kr.2.forb, p ∈ c.svcGetters ∧ p ∈ c.svcShallow)
    (hh : ∀ s ∈ t.svcs, ∀ q ∈ s.hollow, q ∉ c.svcFalsyCapable)
    (h : SpecFull c t) : (validate c t).1 = .ok () := by
  rw [validate_iff_spec]
  refine ⟨fun n hn _ => ?_, (svcs_ok_iff_full c t hread hh).mpr h.svcs, h.instances⟩
  obtain ⟨row, hl, hk⟩ := h.nodes n hn
  obtain ⟨kr, hkr, rfl⟩ := lookup_mem c.node n.ty row hl
  refine ⟨kr.2, hl, fun p hp => ?_, fun p hp => ?_⟩
  · have := hreq kr hkr p hp
    simp [nodeSees, this.1, this.2, hk.required p hp]
  · have := hk.forbidden p hp
    simp [nodeSees, this]

/-- Validation never crashes on a well-formed table: if every property the service rows name is
readable, no row limits instances (the shipped situation) and every element's type has a row, then
every failure is a `TopologyException`. -/
theorem validate_rejects_with_topology_of (c : Cfg) (t : Topo) (e : Err)
    (hg : ∀ kr ∈ c.svc, ∀ p ∈ kr.2.req ++ kr.2.forb, p ∈ c.svcGetters)
    (h0 : ∀ kr ∈ c.svc, kr.2.numInst = 0)
    (hn : ∀ n ∈ t.nodes, (c.node.lookup n.ty).isSome) (hs : ∀ s ∈ t.svcs, (c.svc.lookup s.ty).isSome)
    (h : (validate c t).1 = .error e) : e = .topology :=
  validate_error c t e hg h0 hn hs h

/-! ### connecting an interface -/

theorem guardrails_refuses_iff (c : Cfg) (ty kind : String) :
    guardrails c ty kind = .error .topology ↔ (ty, kind) ∈ c.guardPairs := by
  unfold guardrails
  by_cases h : c.guardPairs.contains (ty, kind) = true
  · simp only [h, if_true, true_iff]; simpa using h
  · simp only [h, Bool.false_eq_true, if_false, reduceCtorEq, false_iff]; simpa using h

/-- Wherever the guardrails run, attaching succeeds exactly when the pair is not in the guardrail
table, the interface belongs to a node and is not connected yet. -/
theorem connect_iff (c : Cfg) (viaCtor : Bool) (ty kind : String) (own conn : Bool)
    (hg : ((viaCtor && c.ctorRunsGuardrails) || c.connectRunsGuardrails) = true) :
    connect c viaCtor ty kind own conn = .ok () ↔ (ty, kind) ∉ c.guardPairs ∧ own = true ∧ conn = false := by
  unfold connect
  rw [if_pos hg]
  unfold guardrails
  by_cases h : c.guardPairs.contains (ty, kind) = true
  · have hm : (ty, kind) ∈ c.guardPairs := by simpa using h
    simp [hm]
  · have hm : (ty, kind) ∉ c.guardPairs := by simpa using h
    simp only [h, Bool.false_eq_true, if_false, hm, not_false_eq_true, true_and]
    cases own <;> cases conn <;> simp

/-! ## the table in the source -/

/-- The pinned copy of `NetworkServiceSliver.ServiceConstraints`. -/
def pinnedSvc : List (String × SvcRow) := [
  ("P4", { layer := "L2", minIfs := 1, numIfs := 0, numSites := 1, numInst := 0, req := [], forb := ["mirror_port", "mirror_vlan", "mirror_direction"], ifTypes := [] }),
  ("MPLS", { layer := "L2", minIfs := 1, numIfs := 0, numSites := 1, numInst := 0, req := [], forb := ["mirror_port", "mirror_vlan", "mirror_direction", "controller_url"], ifTypes := [] }),
  ("OVS", { layer := "L2", minIfs := 1, numIfs := 0, numSites := 1, numInst := 0, req := [], forb := ["mirror_port", "mirror_vlan", "mirror_direction"], ifTypes := [] }),
  ("L2Path", { layer := "L2", minIfs := 1, numIfs := 2, numSites := 2, numInst := 0, req := [], forb := ["mirror_port", "mirror_vlan", "mirror_direction", "controller_url"], ifTypes := [] }),
  ("L2STS", { layer := "L2", minIfs := 2, numIfs := 0, numSites := 2, numInst := 0, req := [], forb := ["mirror_port", "mirror_vlan", "mirror_direction", "controller_url", "ero"], ifTypes := [] }),
  ("L2PTP", { layer := "L2", minIfs := 2, numIfs := 2, numSites := 2, numInst := 0, req := [], forb := ["mirror_port", "mirror_vlan", "mirror_direction", "controller_url"], ifTypes := ["DedicatedPort", "FacilityPort", "SubInterface"] }),
  ("L2Multisite", { layer := "L2", minIfs := 1, numIfs := 0, numSites := 0, numInst := 0, req := [], forb := ["mirror_port", "mirror_vlan", "mirror_direction", "controller_url"], ifTypes := [] }),
  ("L2Bridge", { layer := "L2", minIfs := 1, numIfs := 0, numSites := 1, numInst := 0, req := [], forb := ["mirror_port", "mirror_vlan", "mirror_direction", "controller_url"], ifTypes := [] }),
  ("FABNetv4", { layer := "L3", minIfs := 1, numIfs := 0, numSites := 1, numInst := 0, req := [], forb := ["mirror_port", "mirror_vlan", "mirror_direction", "controller_url"], ifTypes := [] }),
  ("FABNetv6", { layer := "L3", minIfs := 1, numIfs := 0, numSites := 1, numInst := 0, req := [], forb := ["mirror_port", "mirror_vlan", "mirror_direction", "controller_url"], ifTypes := [] }),
  ("PortMirror", { layer := "L2", minIfs := 1, numIfs := 1, numSites := 1, numInst := 0, req := ["mirror_port", "mirror_direction", "site"], forb := ["controller_url"], ifTypes := [] }),
  ("L3VPN", { layer := "L3", minIfs := 1, numIfs := 0, numSites := 0, numInst := 0, req := [], forb := ["mirror_port", "mirror_vlan", "mirror_direction", "controller_url"], ifTypes := [] }),
  ("VLAN", { layer := "L2", minIfs := 1, numIfs := 0, numSites := 1, numInst := 0, req := [], forb := ["mirror_port", "mirror_vlan", "mirror_direction", "controller_url"], ifTypes := [] }),
  ("FABNetv4Ext", { layer := "L3", minIfs := 1, numIfs := 0, numSites := 1, numInst := 0, req := [], forb := ["mirror_port", "mirror_vlan", "mirror_direction", "controller_url"], ifTypes := [] }),
  ("FABNetv6Ext", { layer := "L3", minIfs := 1, numIfs := 0, numSites := 1, numInst := 0, req := [], forb := ["mirror_port", "mirror_vlan", "mirror_direction", "controller_url"], ifTypes := [] })]

/-- The pinned copy of `NodeSliver.NodeConstraints`. -/
def pinnedNode : List (String × NodeRow) := [
  ("Server", { req := ["site"], forb := [] }),
  ("VM", { req := ["site"], forb := [] }),
  ("Container", { req := ["site"], forb := [] }),
  ("Switch", { req := [], forb := ["attached_components_info", "image_type", "image_ref"] }),
  ("NAS", { req := [], forb := ["attached_components_info", "image_type", "image_ref"] }),
  ("Facility", { req := [], forb := ["attached_components_info", "image_type", "image_ref", "management_ip"] })]

/-- The pinned copy of `NetworkLinkSliver.LinkConstraints` (type, layer, num_interfaces). -/
def pinnedLink : List (String × String × Nat) := [("Patch", "L2", 2), ("L1Path", "L1", 2), ("L2Path", "L2", 0)]

/-- The pinned guardrail pairs. -/
def pinnedGuard : List (String × String) := [("L2PTP", "SharedPort")]

theorem svc_table_pinned : Gen.Constraints.svcRows = pinnedSvc := by decide
theorem node_table_pinned : Gen.Constraints.nodeRows = pinnedNode := by decide
theorem link_table_pinned : Gen.Constraints.linkRows = pinnedLink := by decide
theorem guard_table_pinned : Gen.Constraints.guardPairs = pinnedGuard := by decide
theorem no_limit_pinned : Gen.Constraints.noLimit = 0 := by decide

/-- every enum member has a row, and only enum members have one -/
theorem tables_complete :
    Gen.Constraints.svcRows.map (·.1) = Gen.Constraints.serviceTypes ∧
    Gen.Constraints.nodeRows.map (·.1) = Gen.Constraints.nodeTypes ∧
    Gen.Constraints.linkRows.map (·.1) = Gen.Constraints.linkTypes := by decide

/-- every property a service row names can be read from the shallow service sliver
(so `validate` never fails with `AttributeError` on the shipped table) -/
theorem gen_service_properties_readable :
    ∀ kr ∈ genCfg.svc, ∀ p ∈ kr.2.req ++ kr.2.forb, p ∈ genCfg.svcGetters ∧ p ∈ genCfg.svcShallow := by decide

/-- no constrained service property has a value class that can be falsy while set (no `__len__`/`__bool__` on ERO,
PathInfo, Gateway, ... - regenerated from the live classes): the validator's truthiness tests therefore see exactly
whether a property is set.  A class gaining `__len__` turns this theorem false and the check searches hollow values. -/
theorem gen_no_falsy_values : genCfg.svcFalsyCapable = [] := by decide

theorem gen_hollow_harmless (t : Topo) : ∀ s ∈ t.svcs, ∀ q ∈ s.hollow, q ∉ genCfg.svcFalsyCapable := by
  intro s _ q _; rw [gen_no_falsy_values]; exact List.not_mem_nil

/-- every *required* node property is readable -/
theorem gen_node_required_readable :
    ∀ kr ∈ genCfg.node, ∀ p ∈ kr.2.req, p ∈ genCfg.nodeGetters ∧ p ∈ genCfg.nodeShallow := by decide

/-- the interface types the rows name, and the guardrail pairs, are enum members -/
theorem gen_names_are_members :
    (∀ kr ∈ genCfg.svc, ∀ k ∈ kr.2.ifTypes, k ∈ Gen.Constraints.interfaceTypes) ∧
    (∀ g ∈ genCfg.guardPairs, g.1 ∈ Gen.Constraints.serviceTypes ∧ g.2 ∈ Gen.Constraints.interfaceTypes) := by decide

/-- no shipped row limits instances per site, so the third clause of `SpecOK` is void for `genCfg` -/
theorem gen_no_instance_limit : ∀ kr ∈ genCfg.svc, kr.2.numInst = 0 := by decide

theorem gen_instances_void (svcs : List Svc) : InstOK genCfg svcs := by
  have h0 : ∀ ty, instLimit genCfg ty = 0 := by
    intro ty
    unfold instLimit
    cases hl : genCfg.svc.lookup ty with
    | none => rfl
    | some row =>
      obtain ⟨kr, hkr, rfl⟩ := lookup_mem genCfg.svc ty row hl
      exact gen_no_instance_limit kr hkr
  exact ⟨fun s _ h => absurd (h0 s.ty) h, fun s _ h => absurd (h0 s.ty) h⟩

/-- For the shipped table the instance clause is void: `validate` succeeds exactly when every visible
node and every service meets its row. -/
theorem validate_iff_spec_gen (t : Topo) : (validate genCfg t).1 = .ok () ↔
    (∀ n ∈ t.nodes, n.ty ∉ genCfg.nodesViewExcludes → ∃ row, genCfg.node.lookup n.ty = some row ∧ NodeOK genCfg row n) ∧
    (∀ s ∈ t.svcs, ∃ row, genCfg.svc.lookup s.ty = some row ∧ SvcOK genCfg t.exp row s) := by
  rw [validate_iff_spec]
  exact ⟨fun h => ⟨h.nodes, h.svcs⟩, fun h => ⟨h.1, h.2, gen_instances_void _⟩⟩

/-- A slice over the library's node and service types is accepted or rejected with
`TopologyException`; validation does not crash (shipped table). -/
theorem validate_rejects_with_topology (t : Topo) (e : Err)
    (hn : ∀ n ∈ t.nodes, n.ty ∈ Gen.Constraints.nodeTypes) (hs : ∀ s ∈ t.svcs, s.ty ∈ Gen.Constraints.serviceTypes)
    (h : (validate genCfg t).1 = .error e) : e = .topology := by
  have h1 : ∀ ty ∈ Gen.Constraints.nodeTypes, (genCfg.node.lookup ty).isSome = true := by decide
  have h2 : ∀ ty ∈ Gen.Constraints.serviceTypes, (genCfg.svc.lookup ty).isSome = true := by decide
  exact validate_rejects_with_topology_of genCfg t e
    (fun kr hkr p hp => (gen_service_properties_readable kr hkr p hp).1) gen_no_instance_limit
    (fun n hn' => h1 n.ty (hn n hn')) (fun s hs' => h2 s.ty (hs s hs')) h

/-- No valid slice is rejected (shipped table). -/
theorem valid_accepted (t : Topo) (h : SpecFull genCfg t) : (validate genCfg t).1 = .ok () :=
  valid_accepted_of genCfg t gen_node_required_readable gen_service_properties_readable (gen_hollow_harmless t) h

/-- **Services, shipped table and classes: nothing invalid is accepted.**  Whatever the nodes are, a slice that validates
has every service meeting its row in the property's own terms (`SvcFull`: required properties set, forbidden properties
not set - whatever the Python truthiness of the stored object). -/
theorem services_full_of_valid (t : Topo) (h : (validate genCfg t).1 = .ok ()) :
    ∀ s ∈ t.svcs, ∃ row, genCfg.svc.lookup s.ty = some row ∧ SvcFull t.exp row s :=
  (svcs_ok_iff_full genCfg t gen_service_properties_readable (gen_hollow_harmless t)).mp ((validate_iff_spec genCfg t).mp h).svcs

/-- Counterexample to the full statement (known finding): a Facility node with an image validates. -/
theorem validate_iff_specFull_counterexample_facility :
    ∃ t, (validate genCfg t).1 = .ok () ∧ ¬ SpecFull genCfg t := by
  refine ⟨{ exp := true, nodes := [⟨"Facility", ["site", "image_ref", "image_type"]⟩], svcs := [] }, by decide, ?_⟩
  intro h
  obtain ⟨row, hl, hk⟩ := h.nodes ⟨"Facility", ["site", "image_ref", "image_type"]⟩ (by simp)
  have : genCfg.node.lookup "Facility" =
      some { req := [], forb := ["attached_components_info", "image_type", "image_ref", "management_ip"] } := by decide
  rw [this] at hl
  cases hl
  exact hk.forbidden "image_ref" (by decide) (by decide)

/-- Counterexample to the full statement (known finding): a Switch with a component validates. -/
theorem validate_iff_specFull_counterexample_components :
    ∃ t, (validate genCfg t).1 = .ok () ∧ ¬ SpecFull genCfg t := by
  refine ⟨{ exp := true, nodes := [⟨"Switch", ["site", "attached_components_info"]⟩], svcs := [] }, by decide, ?_⟩
  intro h
  obtain ⟨row, hl, hk⟩ := h.nodes ⟨"Switch", ["site", "attached_components_info"]⟩ (by simp)
  have : genCfg.node.lookup "Switch" =
      some { req := [], forb := ["attached_components_info", "image_type", "image_ref"] } := by decide
  rw [this] at hl
  cases hl
  exact hk.forbidden "attached_components_info" (by decide) (by decide)

/-- Why `gen_no_falsy_values` is an obligation and not a remark: were the class of `ero` values to define `__len__`
(a graph-reference ERO then being falsy), an L2STS carrying such an ERO would validate although `ero` is forbidden. -/
theorem falsy_value_counterexample :
    ∃ t, (validate { genCfg with svcFalsyCapable := ["ero"] } t).1 = .ok () ∧
      ¬ SpecFull { genCfg with svcFalsyCapable := ["ero"] } t :=
  ⟨{ exp := true, nodes := [], svcs := [⟨"L2STS", none, ["ero"], none,
      [.port "n0-p0" (some [⟨"DedicatedPort", some "RENC"⟩]), .port "n1-p0" (some [⟨"SharedPort", some "UKY"⟩])], ["ero"]⟩] },
    by decide, by decide⟩

/-- ... and with the classes as they are the same slice is refused -/
example : (validate genCfg { exp := true, nodes := [], svcs := [⟨"L2STS", none, ["ero"], none,
      [.port "n0-p0" (some [⟨"DedicatedPort", some "RENC"⟩]), .port "n1-p0" (some [⟨"SharedPort", some "UKY"⟩])], ["ero"]⟩] }).1
    = .error .topology := by decide

/-- The guardrails run on both ways of attaching an interface (constructor list, `connect_interface`). -/
theorem gen_guardrails_everywhere (viaCtor : Bool) :
    ((viaCtor && genCfg.ctorRunsGuardrails) || genCfg.connectRunsGuardrails) = true := by
  cases viaCtor <;> decide

/-- Connecting an interface is refused at once exactly for the pinned unsupported combinations
(and for an interface without owner node or one that is already connected). -/
theorem guardrail_iff (viaCtor : Bool) (ty kind : String) (own conn : Bool) :
    connect genCfg viaCtor ty kind own conn = .ok () ↔ (ty, kind) ∉ pinnedGuard ∧ own = true ∧ conn = false := by
  rw [connect_iff genCfg viaCtor ty kind own conn (gen_guardrails_everywhere viaCtor)]
  show (ty, kind) ∉ Gen.Constraints.guardPairs ∧ _ ↔ _
  rw [guard_table_pinned]

/-- What the guardrails refuse, `validate` would refuse too: the row of the service type names
permitted interface types and the interface type is not among them. -/
theorem guardrail_sound :
    (genCfg.guardPairs.all fun g => (genCfg.svc.lookup g.1).any fun row =>
      !row.ifTypes.isEmpty && !row.ifTypes.contains g.2) = true := by decide

/-! ### non-vacuity -/

def exSts : Topo := { exp := true, nodes := [⟨"VM", ["site"]⟩, ⟨"VM", ["site"]⟩], svcs := [⟨"L2STS", none, [], none, [.port "n0-p0" (some [⟨"DedicatedPort", some "RENC"⟩]), .port "n1-p0" (some [⟨"SharedPort", some "UKY"⟩])], []⟩] }
def exBridge (site : Option String) : Topo := { exp := true, nodes := [], svcs := [⟨"L2Bridge", site, [], none, [.port "n0-p0" (some [⟨"SharedPort", some "RENC"⟩])], []⟩] }
def exThree : Topo := { exp := true, nodes := [], svcs := [⟨"L2STS", none, [], none, [.port "n1-x-p0" (some [⟨"SharedPort", some "A"⟩]), .port "n1-x-p0" (some [⟨"SharedPort", some "B"⟩]), .port "n1-x-p0" (some [⟨"SharedPort", some "C"⟩])], []⟩] }
/-- a two-site L2STS between two NIC ports validates … -/
example : (validate genCfg exSts).1 = .ok () := by decide
/-- … an L2Bridge gets its site recorded … -/
example : ((validate genCfg (exBridge none)).2.svcs.map (·.site)) = [some "RENC"] := by decide
/-- … a declared site that disagrees is refused, and so is a third site. -/
example : (validate genCfg (exBridge (some "UKY"))).1 = .error .topology := by decide
example : (validate genCfg exThree).1 = .error .topology := by decide
/-- three interfaces, two of them with the same name (`n1` + `nic-aa-p1`, `n1-nic` + `aa-p1`): the name-keyed view has two
entries, but an L2PTP with them is over its limit of 2 and a two-interface L2STS with like-named ports is valid -/
def exPtpNames : Topo := { exp := true, nodes := [], svcs := [⟨"L2PTP", none, [], none, [.port "n1-nic-aa-p1" (some [⟨"DedicatedPort", some "RENC"⟩]), .port "n1-nic-aa-p1" (some [⟨"DedicatedPort", some "UKY"⟩]), .port "n3-nic1-p1" (some [⟨"DedicatedPort", some "UKY"⟩])], []⟩] }
def exStsNames : Topo := { exp := true, nodes := [], svcs := [⟨"L2STS", none, [], none, [.port "n1-nic-aa-p1" (some [⟨"DedicatedPort", some "RENC"⟩]), .port "n1-nic-aa-p1" (some [⟨"DedicatedPort", some "UKY"⟩])], []⟩] }
example : (exPtpNames.svcs.map (·.interfaceNames.length)) = [2] := by decide
example : (validate genCfg exPtpNames).1 = .error .topology := by decide
example : (validate genCfg exStsNames).1 = .ok () := by decide
/-- the guards of `validate_iff_specFull_partial` are satisfiable -/
example : (∀ n ∈ [(⟨"VM", ["site", "image_ref"]⟩ : Node)], n.ty ∉ genCfg.nodesViewExcludes) ∧
    (∀ n ∈ [(⟨"VM", ["site", "image_ref"]⟩ : Node)], ∀ p ∈ n.props, p ∈ genCfg.nodeGetters ∧ p ∈ genCfg.nodeShallow) := by decide
example : connect genCfg false "L2PTP" "SharedPort" true false = .error .topology := by decide
example : connect genCfg false "L2PTP" "DedicatedPort" true false = .ok () := by decide

end FimVerif.C10
